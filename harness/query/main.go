//go:build verif

// Engine `query` (C08, and the twin databases of C07): generated collections with duplicate-rich and
// null-rich columns, queries generated as programs over the modelled language (filters with comparison and
// membership operators, _and/_or/_not, multi-key order, limit/offset, count/sum/avg/min/max), executed through
// ExecRequest and compared with `drv query`; metamorphic oracles on the implementation alone; a malformed
// request stream for the no-panic / no-hang clause; optionally a twin database with secondary indexes.
package main

import (
	"bytes"
	"context"
	"encoding/json"
	"flag"
	"fmt"
	"math"
	"sort"
	"strconv"
	"strings"
	"time"

	"github.com/sourcenetwork/defradb/client"
	"github.com/sourcenetwork/defradb/internal/keys"
	vc "github.com/sourcenetwork/defradb/internal/verifharness/common"
	vnode "github.com/sourcenetwork/defradb/internal/verifharness/node"
)

func must(err error) {
	if err != nil {
		panic(err)
	}
}

// ------------------------------------------------------------------ values, documents

type val struct {
	k string // n b i f s
	b bool
	i int64 // int value or float numerator (eighths)
	s string
}

func (v val) tok() string {
	switch v.k {
	case "n":
		return "n"
	case "b":
		if v.b {
			return "b1"
		}
		return "b0"
	case "i":
		return "i" + strconv.FormatInt(v.i, 10)
	case "f":
		return "f" + strconv.FormatInt(v.i, 10)
	default:
		return "s" + vc.Hex([]byte(v.s))
	}
}

func (v val) gql() string {
	switch v.k {
	case "n":
		return "null"
	case "b":
		return strconv.FormatBool(v.b)
	case "i":
		return strconv.FormatInt(v.i, 10)
	case "f":
		return strconv.FormatFloat(float64(v.i)/8, 'f', -1, 64)
	default:
		b, _ := json.Marshal(v.s)
		return string(b)
	}
}

type doc struct {
	deleted bool
	label   int
	id      string
	fields  map[string]val
}

var fieldKinds = map[string]string{"name": "s", "age": "i", "score": "f", "flag": "b"}
var fieldNames = []string{"name", "age", "score", "flag"}

func genVal(r *vc.Rng, f string, nullChance int) val {
	if r.Chance(nullChance, 10) {
		return val{k: "n"}
	}
	switch fieldKinds[f] {
	case "s":
		return val{k: "s", s: []string{"a", "b", "ab", "", "B", "zz"}[r.Intn(6)]}
	case "i":
		return val{k: "i", i: []int64{0, 1, 2, 5, -3, 100, 7, 7}[r.Intn(8)]}
	case "f":
		return val{k: "f", i: []int64{0, 4, 12, -18, 8, 800, 12}[r.Intn(7)]}
	default:
		return val{k: "b", b: r.Bool()}
	}
}

// ------------------------------------------------------------------ query AST

type filt struct {
	mode int    // _like family: 0 equal, 1 contains, 2 ends with, 3 starts with
	op   string // T eq ne gt ge lt le in nin like nlike ilike nilike and or not
	f    string
	v    val
	vs   []val
	a, b *filt
}

func (x *filt) tok() string {
	switch x.op {
	case "T":
		return "T"
	case "and", "or":
		return x.op + "(" + x.a.tok() + "," + x.b.tok() + ")"
	case "not":
		return "not(" + x.a.tok() + ")"
	case "like", "nlike", "ilike", "nilike":
		return x.op + ":" + x.f + ":" + strconv.Itoa(x.mode) + vc.Hex([]byte(x.v.s))
	case "in", "nin":
		var p []string
		for _, v := range x.vs {
			p = append(p, v.tok())
		}
		return x.op + ":" + x.f + ":" + strings.Join(p, ";")
	default:
		return x.op + ":" + x.f + ":" + x.v.tok()
	}
}

func (x *filt) gql() string {
	switch x.op {
	case "T":
		return "{}"
	case "and", "or":
		return "{_" + x.op + ": [" + x.a.gql() + ", " + x.b.gql() + "]}"
	case "not":
		return "{_not: " + x.a.gql() + "}"
	case "like", "nlike", "ilike", "nilike":
		pat := x.v.s
		switch x.mode {
		case 1:
			pat = "%" + pat + "%"
		case 2:
			pat = "%" + pat
		case 3:
			pat = pat + "%"
		}
		b, _ := json.Marshal(pat)
		return "{" + x.f + ": {_" + x.op + ": " + string(b) + "}}"
	case "in", "nin":
		var p []string
		for _, v := range x.vs {
			p = append(p, v.gql())
		}
		return "{" + x.f + ": {_" + x.op + ": [" + strings.Join(p, ", ") + "]}}"
	default:
		return "{" + x.f + ": {_" + x.op + ": " + x.v.gql() + "}}"
	}
}

func genFilt(r *vc.Rng, depth int) *filt {
	if depth > 0 && r.Chance(4, 10) {
		switch r.Intn(3) {
		case 0:
			return &filt{op: "and", a: genFilt(r, depth-1), b: genFilt(r, depth-1)}
		case 1:
			return &filt{op: "or", a: genFilt(r, depth-1), b: genFilt(r, depth-1)}
		default:
			return &filt{op: "not", a: genFilt(r, depth-1)}
		}
	}
	f := fieldNames[r.Intn(len(fieldNames))]
	ops := []string{"eq", "ne", "in", "nin"}
	if fieldKinds[f] == "i" || fieldKinds[f] == "f" {
		ops = append(ops, "gt", "ge", "lt", "le", "gt", "ge", "lt", "le")
	}
	if fieldKinds[f] == "s" {
		ops = append(ops, "like", "nlike", "ilike", "nilike")
	}
	op := ops[r.Intn(len(ops))]
	if strings.HasSuffix(op, "like") {
		// patterns without inner % signs; mode 0 needs a pattern that is not a single % form
		pats := []string{"a", "b", "ab", "z", "B", "zz"}
		return &filt{op: op, f: f, mode: r.Intn(4), v: val{k: "s", s: pats[r.Intn(len(pats))]}}
	}
	if op == "in" || op == "nin" {
		n := 1 + r.Intn(3)
		x := &filt{op: op, f: f}
		for i := 0; i < n; i++ {
			x.vs = append(x.vs, genVal(r, f, 2))
		}
		return x
	}
	return &filt{op: op, f: f, v: genVal(r, f, 2)}
}

type okey struct {
	f    string
	desc bool
}

type query struct {
	filter *filt
	order  []okey
	limit  int
	offset int
	sel    string // docs count sum:f avg:f min:f max:f
}

func (q *query) line() string {
	o := "-"
	if len(q.order) > 0 {
		var p []string
		for _, k := range q.order {
			d := "a"
			if k.desc {
				d = "d"
			}
			p = append(p, k.f+":"+d)
		}
		o = strings.Join(p, ",")
	}
	return fmt.Sprintf("q %s %s %d %d %s", q.filter.tok(), o, q.limit, q.offset, q.sel)
}

func (q *query) args(withField string) string {
	var p []string
	if q.sel != "docs" && len(q.order) > 0 {
		// aggregate arguments take one ordering object, not a list
		d := "ASC"
		if q.order[0].desc {
			d = "DESC"
		}
		if withField != "" {
			p = append(p, "field: "+withField)
		}
		if q.filter.op != "T" {
			p = append(p, "filter: "+q.filter.gql())
		}
		p = append(p, "order: {"+q.order[0].f+": "+d+"}")
		if q.limit > 0 {
			p = append(p, "limit: "+strconv.Itoa(q.limit))
		}
		if q.offset > 0 {
			p = append(p, "offset: "+strconv.Itoa(q.offset))
		}
		return strings.Join(p, ", ")
	}
	if withField != "" {
		p = append(p, "field: "+withField)
	}
	if q.filter.op != "T" {
		p = append(p, "filter: "+q.filter.gql())
	}
	if len(q.order) > 0 {
		var o []string
		for _, k := range q.order {
			d := "ASC"
			if k.desc {
				d = "DESC"
			}
			o = append(o, "{"+k.f+": "+d+"}")
		}
		p = append(p, "order: ["+strings.Join(o, ", ")+"]")
	}
	if q.limit > 0 {
		p = append(p, "limit: "+strconv.Itoa(q.limit))
	}
	if q.offset > 0 {
		p = append(p, "offset: "+strconv.Itoa(q.offset))
	}
	return strings.Join(p, ", ")
}

func (q *query) gql() string {
	parts := strings.SplitN(q.sel, ":", 2)
	switch parts[0] {
	case "docs":
		a := q.args("")
		if a != "" {
			a = "(" + a + ")"
		}
		return "query { Doc" + a + " { _docID name age score flag } }"
	case "count":
		return "query { _count(Doc: {" + q.args("") + "}) }"
	case "sum2", "avg2":
		fs := strings.SplitN(parts[1], ":", 2)
		return "query { _" + parts[0][:3] + "(Doc: {" + q.args(fs[0]) + "}, Aux: {field: " + fs[1] + "}) }"
	default:
		return "query { _" + parts[0] + "(Doc: {" + q.args(parts[1]) + "}) }"
	}
}

// ------------------------------------------------------------------ world

type world struct {
	ctx     context.Context
	out     *vc.Out
	n       *vnode.Node
	twin    *vnode.Node // same data, with secondary indexes (C07); nil if not used
	docs    []*doc
	byID    map[string]*doc
	caseID  int
	idxDesc string
	aux     []auxDoc
	// some Int values of this case are extreme (near the ends of int64): ordering has to compare them without overflow;
	// sums and averages over the field are not asked (they would overflow, which is not what is being looked at)
	extreme bool
}

type gqlRes struct {
	err    string
	docs   []map[string]any
	scalar any
	raw    string
}

func exec(ctx context.Context, n *vnode.Node, q string) (res gqlRes) {
	done := make(chan struct{})
	go func() {
		defer func() {
			if r := recover(); r != nil {
				res.err = fmt.Sprintf("PANIC:%v", r)
			}
			close(done)
		}()
		rr := n.DB.ExecRequest(ctx, q)
		if len(rr.GQL.Errors) > 0 {
			res.err = "error:" + rr.GQL.Errors[0].Error()
			return
		}
		jb, err := json.Marshal(rr.GQL.Data)
		if err != nil {
			res.err = "error:marshal"
			return
		}
		res.raw = string(jb)
		dec := json.NewDecoder(bytes.NewReader(jb))
		dec.UseNumber()
		var m map[string]any
		if err := dec.Decode(&m); err != nil {
			res.err = "error:decode"
			return
		}
		for k, v := range m {
			if k == "Doc" {
				if arr, ok := v.([]any); ok {
					for _, e := range arr {
						res.docs = append(res.docs, e.(map[string]any))
					}
				}
			} else {
				res.scalar = v
			}
		}
	}()
	select {
	case <-done:
	case <-time.After(20 * time.Second):
		res.err = "HANG"
	}
	return
}

func (w *world) render(q *query, r gqlRes) string {
	if r.err != "" {
		e := r.err
		if len(e) > 100 {
			e = e[:100]
		}
		return strings.ReplaceAll(strings.ReplaceAll(e, "\n", "_"), " ", "_")
	}
	kind := strings.SplitN(q.sel, ":", 2)
	switch kind[0] {
	case "docs":
		var p []string
		for _, d := range r.docs {
			if x, ok := w.byID[fmt.Sprint(d["_docID"])]; ok {
				p = append(p, "d"+strconv.Itoa(x.label))
			} else {
				p = append(p, "?"+fmt.Sprint(d["_docID"]))
			}
		}
		if len(p) == 0 {
			return "-"
		}
		return strings.Join(p, ",")
	case "count":
		return "int:" + fmt.Sprint(r.scalar)
	case "avg", "avg2":
		f, _ := r.scalar.(json.Number).Float64()
		return "avgbits:" + strconv.FormatUint(math.Float64bits(f), 16)
	case "sum2":
		if r.scalar == nil {
			return "null"
		}
		fs := strings.SplitN(kind[1], ":", 2)
		num := r.scalar.(json.Number)
		if fieldKinds[fs[0]] == "f" || fs[1] == "w" {
			f, _ := num.Float64()
			return "num8:" + strconv.FormatFloat(f*8, 'f', -1, 64)
		}
		if i, err := num.Int64(); err == nil {
			return "int:" + strconv.FormatInt(i, 10)
		}
		return "notint:" + num.String()
	default:
		if r.scalar == nil {
			return "null"
		}
		num := r.scalar.(json.Number)
		if fieldKinds[kind[1]] == "f" {
			f, _ := num.Float64()
			return "num8:" + strconv.FormatInt(int64(math.Round(f*8)), 10)
		}
		if i, err := num.Int64(); err == nil {
			return "int:" + strconv.FormatInt(i, 10)
		}
		f, _ := num.Float64()
		return "float:" + strconv.FormatFloat(f, 'g', -1, 64)
	}
}

func cmpVal(a, b val) int {
	if a.k == "n" || b.k == "n" {
		if a.k == b.k {
			return 0
		} else if a.k == "n" {
			return -1
		}
		return 1
	}
	switch a.k {
	case "b":
		if a.b == b.b {
			return 0
		} else if a.b {
			return 1
		}
		return -1
	case "s":
		return strings.Compare(a.s, b.s)
	default:
		if a.i == b.i {
			return 0
		} else if a.i > b.i {
			return 1
		}
		return -1
	}
}

func labelsOf(s string) []int {
	if s == "-" || s == "" {
		return nil
	}
	var out []int
	for _, p := range strings.Split(s, ",") {
		n, err := strconv.Atoi(strings.TrimPrefix(p, "d"))
		if err != nil {
			return nil
		}
		out = append(out, n)
	}
	return out
}

func (w *world) docByLabel(l int) *doc { return w.docs[l-1] }

// run executes one generated query: model line + the property's own oracles.
func (w *world) run(q *query) {
	res := exec(w.ctx, w.n, q.gql())
	got := w.render(q, res)
	line := w.out.Lines
	w.out.Emit(q.line(), got)
	w.out.Count("sel:" + strings.SplitN(q.sel, ":", 2)[0])
	w.out.Nontrivial(fmt.Sprintf("%d:%s", w.caseID, q.line()))
	if strings.HasPrefix(got, "PANIC") || got == "HANG" {
		w.out.Oracle(line, fmt.Sprintf("[panic-or-hang] case %d: request %s -> %s", w.caseID, q.gql(), got))
		return
	}
	if strings.HasPrefix(got, "error") {
		w.out.Count("query-error")
		return
	}
	// twin with indexes (C07): same multiset of documents; with an order, the same sequence of sort keys.
	// limit/offset without an ordering that makes the sequence unique select an implementation-defined
	// slice, so those are compared only through the ordered-sequence oracle below.
	if w.twin != nil {
		tres := exec(w.ctx, w.twin, q.gql())
		tgot := w.render(q, tres)
		sliced := q.limit > 0 || q.offset > 0
		if strings.HasPrefix(tgot, "PANIC") || tgot == "HANG" {
			w.out.Oracle(line, fmt.Sprintf("[index-panic-or-hang] case %d indexes {%s}: %s -> %s with indexes", w.caseID, w.idxDesc, q.gql(), tgot))
		} else if q.sel == "docs" {
			a, b := labelsOf(got), labelsOf(tgot)
			if !sliced {
				sa, sb := append([]int{}, a...), append([]int{}, b...)
				sort.Ints(sa)
				sort.Ints(sb)
				if fmt.Sprint(sa) != fmt.Sprint(sb) || strings.HasPrefix(tgot, "error") {
					w.out.Oracle(line, fmt.Sprintf("[index-changes-result] case %d indexes {%s}: %s returns %s without indexes and %s with them", w.caseID, w.idxDesc, q.gql(), got, tgot))
				}
			}
			if len(q.order) > 0 {
				first := *q
				first.order = q.order[:1]
				if w.sortKeys(&first, a) != w.sortKeys(&first, b) || strings.HasPrefix(tgot, "error") {
					w.out.Oracle(line, fmt.Sprintf("[index-changes-order] case %d indexes {%s}: %s returns first sort keys %s without indexes and %s with them (%s vs %s)", w.caseID, w.idxDesc, q.gql(), w.sortKeys(&first, a), w.sortKeys(&first, b), got, tgot))
				} else if w.sortKeys(q, a) != w.sortKeys(q, b) {
					w.out.Oracle(line, fmt.Sprintf("[multi-key-order] case %d indexes {%s}: %s: documents that tie on the first key come in a different order with indexes (%s vs %s): ties are not broken by the following keys", w.caseID, w.idxDesc, q.gql(), got, tgot))
				}
			}
		} else if got != tgot && !sliced {
			w.out.Oracle(line, fmt.Sprintf("[index-changes-aggregate] case %d indexes {%s}: %s returns %s without indexes and %s with them", w.caseID, w.idxDesc, q.gql(), got, tgot))
		}
	}
	if q.sel != "docs" {
		w.checkAggregate(q, got, line)
		return
	}
	labels := labelsOf(got)
	// ordering: lexicographic over the keys, nil least; the known first-key-only behaviour is tagged separately
	if len(q.order) > 0 {
		lexOK, firstOK := true, true
		for i := 0; i+1 < len(labels); i++ {
			a, b := w.docByLabel(labels[i]), w.docByLabel(labels[i+1])
			for ki, k := range q.order {
				c := cmpVal(a.fields[k.f], b.fields[k.f])
				if k.desc {
					c = -c
				}
				if c > 0 {
					lexOK = false
					if ki == 0 {
						firstOK = false
					}
				}
				if c != 0 {
					break
				}
			}
		}
		if !lexOK {
			if firstOK {
				w.out.Oracle(line, fmt.Sprintf("[multi-key-order] case %d: %s is sorted by its first key only; ties are not broken by the following keys: %s", w.caseID, q.gql(), got))
			} else {
				w.out.Oracle(line, fmt.Sprintf("[order-wrong] case %d: %s is not sorted by its first key: %s", w.caseID, q.gql(), got))
			}
		}
	}
	// limit/offset cut a slice of the unlimited sequence
	if q.limit > 0 || q.offset > 0 {
		full := *q
		full.limit, full.offset = 0, 0
		fl := labelsOf(w.render(&full, exec(w.ctx, w.n, full.gql())))
		lo := q.offset
		if lo > len(fl) {
			lo = len(fl)
		}
		hi := len(fl)
		if q.limit > 0 && lo+q.limit < hi {
			hi = lo + q.limit
		}
		if fmt.Sprint(fl[lo:hi]) != fmt.Sprint(labels) {
			w.out.Oracle(line, fmt.Sprintf("[limit-slice] case %d: %s returns %v, the slice [%d:%d] of the unlimited result %v is %v", w.caseID, q.gql(), labels, lo, hi, fl, fl[lo:hi]))
		}
	}
	// a filter and its negation partition the collection
	if len(q.order) == 0 && q.limit == 0 && q.offset == 0 && q.filter.op != "T" {
		neg := &query{filter: &filt{op: "not", a: q.filter}, sel: "docs"}
		nl := labelsOf(w.render(neg, exec(w.ctx, w.n, neg.gql())))
		seen := map[int]int{}
		for _, l := range labels {
			seen[l]++
		}
		for _, l := range nl {
			seen[l] += 10
		}
		for _, d := range w.docs {
			if d.deleted {
				continue
			}
			if seen[d.label] != 1 && seen[d.label] != 10 {
				w.out.Oracle(line, fmt.Sprintf("[filter-partition] case %d: document d%d is returned %d times by %s and %d times by its _not", w.caseID, d.label, seen[d.label]%10, q.filter.gql(), seen[d.label]/10))
				break
			}
		}
	}
}

func (w *world) sortKeys(q *query, labels []int) string {
	var p []string
	for _, l := range labels {
		var k []string
		for _, o := range q.order {
			k = append(k, w.docByLabel(l).fields[o.f].tok())
		}
		p = append(p, strings.Join(k, "/"))
	}
	return strings.Join(p, ",")
}

// aggregates equal the arithmetic over the listed values
func (w *world) checkAggregate(q *query, got string, line int) {
	base := *q
	base.sel = "docs"
	kind := strings.SplitN(q.sel, ":", 2)
	if kind[0] == "sum2" || kind[0] == "avg2" {
		w.checkAggregate2(q, got, line)
		return
	}
	if kind[0] == "avg" {
		// _avg skips nil items: the listed documents are those with a non-nil field, before limit/offset
		base.filter = &filt{op: "and", a: q.filter, b: &filt{op: "ne", f: kind[1], v: val{k: "n"}}}
		if q.filter.op == "T" {
			base.filter = base.filter.b
		}
	}
	labels := labelsOf(w.render(&base, exec(w.ctx, w.n, base.gql())))
	want := ""
	switch kind[0] {
	case "count":
		want = "int:" + strconv.Itoa(len(labels))
	default:
		f := kind[1]
		var vals []int64
		for _, l := range labels {
			v := w.docByLabel(l).fields[f]
			if v.k != "n" {
				vals = append(vals, v.i)
			}
		}
		isF := fieldKinds[f] == "f"
		fmtNum := func(x int64) string {
			if isF {
				return "num8:" + strconv.FormatInt(x, 10)
			}
			return "int:" + strconv.FormatInt(x, 10)
		}
		switch kind[0] {
		case "sum":
			var s int64
			for _, v := range vals {
				s += v
			}
			want = fmtNum(s)
		case "avg":
			if len(vals) == 0 {
				want = "avgbits:0"
			} else {
				var s float64
				for _, v := range vals {
					if isF {
						s += float64(v) / 8
					} else {
						s += float64(v)
					}
				}
				want = "avgbits:" + strconv.FormatUint(math.Float64bits(s/float64(len(vals))), 16)
			}
		case "min", "max":
			if len(vals) == 0 {
				want = "null"
			} else {
				m := vals[0]
				for _, v := range vals[1:] {
					if (kind[0] == "min" && v < m) || (kind[0] == "max" && v > m) {
						m = v
					}
				}
				want = fmtNum(m)
			}
		}
	}
	if want != got {
		w.out.Oracle(line, fmt.Sprintf("[aggregate-wrong] case %d: %s returns %s; the arithmetic over the listed documents %v gives %s", w.caseID, q.gql(), got, labels, want))
	}
}

// an aggregate over two sources is the arithmetic over the values of both; it is a float as soon as one source is
func (w *world) checkAggregate2(q *query, got string, line int) {
	kind := strings.SplitN(q.sel, ":", 3)
	f, g := kind[1], kind[2]
	base := *q
	base.sel = "docs"
	labels := labelsOf(w.render(&base, exec(w.ctx, w.n, base.gql())))
	var sum8 int64 // in eighths
	n := 0
	for _, l := range labels {
		v := w.docByLabel(l).fields[f]
		if v.k == "n" {
			continue
		}
		if fieldKinds[f] == "f" {
			sum8 += v.i
		} else {
			sum8 += v.i * 8
		}
		n++
	}
	for _, a := range w.aux {
		if g == "w" {
			sum8 += a.w8
			n++
		} else if !a.vNil {
			sum8 += a.v * 8
			n++
		}
	}
	isF := fieldKinds[f] == "f" || g == "w"
	want := ""
	if kind[0] == "sum2" {
		if isF {
			want = "num8:" + strconv.FormatInt(sum8, 10)
		} else {
			want = "int:" + strconv.FormatInt(sum8/8, 10)
		}
	} else if n == 0 {
		want = "avgbits:0"
	} else {
		want = "avgbits:" + strconv.FormatUint(math.Float64bits(float64(sum8)/8/float64(n)), 16)
	}
	if want != got {
		w.out.Oracle(line, fmt.Sprintf("[aggregate-wrong] case %d: %s returns %s; the arithmetic over the listed documents %v and the second source gives %s", w.caseID, q.gql(), got, labels, want))
	}
}

func genQuery(r *vc.Rng) *query {
	q := &query{filter: &filt{op: "T"}, sel: "docs"}
	if r.Chance(8, 10) {
		q.filter = genFilt(r, 2)
	}
	if r.Chance(5, 10) {
		n := 1 + r.Intn(3)
		used := map[string]bool{}
		for i := 0; i < n; i++ {
			f := fieldNames[r.Intn(len(fieldNames))]
			if used[f] {
				continue
			}
			used[f] = true
			q.order = append(q.order, okey{f, r.Bool()})
		}
	}
	if r.Chance(3, 10) {
		q.limit = 1 + r.Intn(5)
	}
	if r.Chance(2, 10) {
		q.offset = r.Intn(5)
	}
	switch x := r.Intn(12); {
	case x < 6:
	case x < 7:
		q.sel = "count"
		q.order = nil
	default:
		q.order = nil
		f := []string{"age", "score"}[r.Intn(2)]
		q.sel = []string{"sum", "avg", "min", "max"}[r.Intn(4)] + ":" + f
	}
	return q
}

const sdl = `type Doc {
	uid: Int
	name: String
	age: Int
	score: Float
	flag: Boolean
}
type Aux {
	v: Int
	w: Float
}`

type auxDoc struct {
	v, w8 int64
	vNil  bool
}

type idxSpec struct {
	fields []okey
	unique bool
}

func (w *world) loadDocs(r *vc.Rng, ndocs int) {
	col, err := w.n.DB.GetCollectionByName(w.ctx, "Doc")
	must(err)
	var tcol client.Collection
	if w.twin != nil {
		tcol, err = w.twin.DB.GetCollectionByName(w.ctx, "Doc")
		must(err)
	}
	for i := 0; i < ndocs; i++ {
		d := &doc{fields: map[string]val{}}
		m := map[string]any{"uid": int64(i)}
		for _, f := range fieldNames {
			v := genVal(r, f, 2)
			if w.extreme && f == "age" && v.k == "i" && r.Chance(1, 2) {
				v.i = []int64{9223372036854775807, -9223372036854775808, 9223372036854775806, -9223372036854775807, 4611686018427387904, -4611686018427387905}[r.Intn(6)]
			}
			d.fields[f] = v
			switch v.k {
			case "n":
			case "b":
				m[f] = v.b
			case "i":
				m[f] = v.i
			case "f":
				m[f] = float64(v.i) / 8
			default:
				m[f] = v.s
			}
		}
		cd, err := client.NewDocFromMap(m, col.Definition())
		must(err)
		must(col.Create(w.ctx, cd))
		d.id = cd.ID().String()
		if tcol != nil {
			td, err := client.NewDocFromMap(m, tcol.Definition())
			must(err)
			must(tcol.Create(w.ctx, td))
		}
		w.docs = append(w.docs, d)
	}
	// the second aggregate source
	nodes := []*vnode.Node{w.n}
	if w.twin != nil {
		nodes = append(nodes, w.twin)
	}
	for i := 0; i < 1+r.Intn(3); i++ {
		a := auxDoc{v: []int64{1, 2, 7}[r.Intn(3)] + int64(i)*10, w8: []int64{6, 9, 13}[r.Intn(3)] + int64(i)*16, vNil: r.Chance(1, 5)}
		m := map[string]any{"w": float64(a.w8) / 8}
		tok := "n"
		if !a.vNil {
			m["v"] = a.v
			tok = strconv.FormatInt(a.v, 10)
		}
		for _, nd := range nodes {
			ac, err := nd.DB.GetCollectionByName(w.ctx, "Aux")
			must(err)
			ad, err := client.NewDocFromMap(m, ac.Definition())
			must(err)
			must(ac.Create(w.ctx, ad))
		}
		w.aux = append(w.aux, a)
		w.out.Emit(fmt.Sprintf("aux %s %d", tok, a.w8), "ok")
	}
	sort.Slice(w.docs, func(i, j int) bool { return w.docs[i].id < w.docs[j].id })
	w.byID = map[string]*doc{}
	for i, d := range w.docs {
		d.label = i + 1
		w.byID[d.id] = d
		w.out.Emit(fmt.Sprintf("doc %d %s %s %s %s %s", d.label, d.fields["name"].tok(), d.fields["age"].tok(), d.fields["score"].tok(), d.fields["flag"].tok(), vc.Hex([]byte(d.id))), "ok")
	}
}

// mutateAndDumpKeys applies updates and deletes to both databases (and the model), then compares the raw
// index entries of the twin, byte for byte, with the entries the model derives from the live documents.
func (w *world) mutateAndDumpKeys(r *vc.Rng, specs []idxSpec) {
	col, err := w.n.DB.GetCollectionByName(w.ctx, "Doc")
	must(err)
	tcol, err := w.twin.DB.GetCollectionByName(w.ctx, "Doc")
	must(err)
	nm := r.Intn(8)
	for i := 0; i < nm && len(w.docs) > 0; i++ {
		d := w.docs[r.Intn(len(w.docs))]
		if d.deleted {
			continue
		}
		did, _ := client.NewDocIDFromString(d.id)
		if r.Chance(1, 4) {
			_, err := col.Delete(w.ctx, did)
			must(err)
			_, err = tcol.Delete(w.ctx, did)
			must(err)
			d.deleted = true
			w.out.Emit(fmt.Sprintf("del %d", d.label), "ok")
			continue
		}
		f := fieldNames[r.Intn(len(fieldNames))]
		v := genVal(r, f, 3)
		var gv any
		switch v.k {
		case "n":
			gv = nil
		case "b":
			gv = v.b
		case "i":
			gv = v.i
		case "f":
			gv = float64(v.i) / 8
		default:
			gv = v.s
		}
		for _, c := range []client.Collection{col, tcol} {
			doc, err := c.Get(w.ctx, did, false)
			must(err)
			must(doc.Set(f, gv))
			must(c.Update(w.ctx, doc))
		}
		d.fields[f] = v
		w.out.Emit(fmt.Sprintf("upd %d %s %s", d.label, f, v.tok()), "ok")
	}
	// live documents only from here on
	var live []*doc
	for _, d := range w.docs {
		if !d.deleted {
			live = append(live, d)
		}
	}
	colShort, _, err := w.twin.DB.VerifShortIDs(w.ctx, tcol.Version().CollectionID)
	must(err)
	idxs, err := tcol.GetIndexes(w.ctx)
	must(err)
	for _, ix := range idxs {
		if ix.Unique {
			continue
		}
		var fs []string
		for _, f := range ix.Fields {
			d := "a"
			if f.Descending {
				d = "d"
			}
			fs = append(fs, f.Name+":"+d)
		}
		k := keys.NewIndexDataStoreKey(colShort, ix.ID, nil)
		kvs, err := w.twin.ScanRoot(w.ctx, "/db/data"+string(k.Bytes())+"/")
		must(err)
		var hexes []string
		for _, kv := range kvs {
			hexes = append(hexes, vc.Hex(kv[0][len("/db/data"):]))
		}
		sort.Strings(hexes)
		w.out.Emit(fmt.Sprintf("keys %d %d %s", colShort, ix.ID, strings.Join(fs, ",")), fmt.Sprintf("%d %s", len(hexes), strings.Join(hexes, ",")))
		w.out.Count("op:keys")
	}
}

func runCase(ctx context.Context, out *vc.Out, caseID int, seed uint64, tier string, withTwin bool) {
	r := vc.NewRng(seed)
	nd, err := vnode.NewMem(ctx)
	must(err)
	defer nd.Close()
	_, err = nd.DB.AddSchema(ctx, sdl)
	must(err)
	w := &world{ctx: ctx, out: out, n: nd, caseID: caseID}
	if withTwin {
		tw, err := vnode.NewMem(ctx)
		must(err)
		defer tw.Close()
		_, err = tw.DB.AddSchema(ctx, sdl)
		must(err)
		w.twin = tw
	}
	out.Emit(fmt.Sprintf("case %d", caseID), "ok")
	w.extreme = caseID%4 == 3
	ndocs := r.Intn(25)
	if tier == "thorough" {
		ndocs = r.Intn(60)
	}
	// C07: indexes created before or after the data
	var specs []idxSpec
	if withTwin {
		nidx := 1 + r.Intn(3)
		for i := 0; i < nidx; i++ {
			var s idxSpec
			nf := 1 + r.Intn(2)
			used := map[string]bool{}
			for j := 0; j < nf; j++ {
				f := fieldNames[r.Intn(len(fieldNames))]
				if used[f] {
					continue
				}
				used[f] = true
				s.fields = append(s.fields, okey{f, r.Bool()})
			}
			specs = append(specs, s)
		}
		var dd []string
		for _, s := range specs {
			var p []string
			for _, k := range s.fields {
				d := "ASC"
				if k.desc {
					d = "DESC"
				}
				p = append(p, k.f+" "+d)
			}
			dd = append(dd, "("+strings.Join(p, ", ")+")")
		}
		w.idxDesc = strings.Join(dd, " ")
	}
	createIdx := func() {
		tcol, err := w.twin.DB.GetCollectionByName(ctx, "Doc")
		must(err)
		for i, s := range specs {
			var fs []client.IndexedFieldDescription
			for _, k := range s.fields {
				fs = append(fs, client.IndexedFieldDescription{Name: k.f, Descending: k.desc})
			}
			_, err := tcol.CreateIndex(ctx, client.IndexCreateRequest{Name: fmt.Sprintf("ix%d", i), Fields: fs, Unique: s.unique})
			must(err)
			var fd []string
			for _, k := range s.fields {
				d := "a"
				if k.desc {
					d = "d"
				}
				fd = append(fd, k.f+":"+d)
			}
			// the model builds (or starts maintaining) this index from here on
			out.Emit("idx "+strings.Join(fd, ","), "ok")
		}
	}
	before := withTwin && r.Bool()
	if before {
		createIdx()
		w.idxDesc += " before-data"
	}
	func() {
		defer func() {
			if rr := recover(); rr != nil {
				out.Oracle(out.Lines, fmt.Sprintf("[panic] case %d: %v", caseID, rr))
			}
		}()
		w.loadDocs(r, ndocs)
		if withTwin && !before {
			createIdx()
			w.idxDesc += " after-data"
		}
		if withTwin {
			w.mutateAndDumpKeys(r, specs)
		}
		nq := 25
		if tier == "thorough" {
			nq = 80
		}
		for i := 0; i < nq; i++ {
			q := genQuery(r)
			if w.extreme {
				if i%3 == 0 {
					// ordering by the field that holds the extreme values
					q.sel, q.order = "docs", []okey{{"age", r.Bool()}}
				}
				q.sel = strings.NewReplacer("sum:age", "max:age", "avg:age", "min:age").Replace(q.sel)
			}
			w.run(q)
		}
		// every operator once per indexed field (per field in plain mode), with null and non-null operands:
		// the operators whose answer includes documents WITHOUT a value are the ones an index plan gets wrong
		sweep := fieldNames
		if withTwin {
			sweep = nil
			seen := map[string]bool{}
			for _, sp := range specs {
				for _, k := range sp.fields {
					if !seen[k.f] {
						seen[k.f] = true
						sweep = append(sweep, k.f)
					}
				}
			}
		}
		for _, f := range sweep {
			for _, fl := range operatorSweep(r, f) {
				w.run(&query{filter: fl, sel: "docs"})
			}
		}
		// composite indexes: the leading field pinned, every comparison on a following field with a null and a
		// non-null operand (the following fields are decided by value matchers, not by the key range)
		if withTwin {
			for _, sp := range specs {
				for j := 1; j < len(sp.fields); j++ {
					f1, f2 := sp.fields[0].f, sp.fields[j].f
					if f1 == f2 {
						continue
					}
					ops := []string{"eq", "ne"}
					if fieldKinds[f2] == "i" || fieldKinds[f2] == "f" {
						ops = append(ops, "gt", "ge", "lt", "le")
					}
					for _, op := range ops {
						for _, nullChance := range []int{10, 0} {
							lead := &filt{op: "eq", f: f1, v: genVal(r, f1, 1)}
							w.run(&query{filter: &filt{op: "and", a: lead, b: &filt{op: op, f: f2, v: genVal(r, f2, nullChance)}}, sel: "docs"})
						}
					}
				}
			}
		}
		// `_in` with three distinct values in every order, ordered by the same field in both directions: an index on the
		// field serves filter and order at once and has to visit the values in key order whatever order they are given in
		if withTwin {
			seenLead := map[string]bool{}
			for _, sp := range specs {
				f := sp.fields[0].f
				if seenLead[f] || fieldKinds[f] == "b" {
					continue
				}
				seenLead[f] = true
				var vs []val
				for tries := 0; len(vs) < 3 && tries < 40; tries++ {
					v := genVal(r, f, 0)
					dup := false
					for _, x := range vs {
						dup = dup || x.tok() == v.tok()
					}
					if !dup {
						vs = append(vs, v)
					}
				}
				if len(vs) < 3 {
					continue
				}
				for _, pm := range [][3]int{{0, 1, 2}, {0, 2, 1}, {1, 0, 2}, {1, 2, 0}, {2, 0, 1}, {2, 1, 0}} {
					for _, desc := range []bool{false, true} {
						w.run(&query{filter: &filt{op: "in", f: f, vs: []val{vs[pm[0]], vs[pm[1]], vs[pm[2]]}}, order: []okey{{f, desc}}, sel: "docs"})
					}
				}
			}
		}
		// grouping by one to three fields (with a filter): the groups and their sizes against the model
		for i := 0; i < 4 && !w.extreme; i++ {
			fs := append([]string{}, fieldNames...)
			for a := len(fs) - 1; a > 0; a-- {
				b := r.Intn(a + 1)
				fs[a], fs[b] = fs[b], fs[a]
			}
			fs = fs[:1+r.Intn(3)]
			fl := &filt{op: "T"}
			if r.Bool() {
				fl = genFilt(r, 1)
			}
			w.grouped(fl, fs)
		}
		// several aggregates over one group in one request
		for i := 0; i < 3 && !w.extreme; i++ {
			a := []int64{-5, 0, 1, 2}[r.Intn(4)]
			w.groupedPair(a, a+[]int64{2, 5, 7, 200}[r.Intn(4)])
		}
		// aggregates over several sources
		for _, sel := range []string{"sum2:score:v", "sum2:age:w", "sum2:age:v", "avg2:score:v", "avg2:age:w"} {
			if w.extreme && strings.Contains(sel, ":age:") {
				continue
			}
			q := genQuery(r)
			q.order, q.limit, q.offset = nil, 0, 0
			q.sel = sel
			w.run(q)
		}
	}()
}

// jsonTok renders a value of the answer in the token syntax of the operation lines
func jsonTok(f string, v any) string {
	if v == nil {
		return "n"
	}
	switch fieldKinds[f] {
	case "s":
		return "s" + vc.Hex([]byte(fmt.Sprint(v)))
	case "i":
		return "i" + fmt.Sprint(v)
	case "f":
		x, _ := strconv.ParseFloat(fmt.Sprint(v), 64)
		return "f" + strconv.FormatInt(int64(x*8), 10)
	default:
		if fmt.Sprint(v) == "true" {
			return "b1"
		}
		return "b0"
	}
}

// grouped: `Doc(filter: .., groupBy: [fs]) { fs _count(_group: {}) }`, every group as value|value=size, sorted
func (w *world) grouped(fl *filt, fs []string) {
	args := "groupBy: [" + strings.Join(fs, ", ") + "]"
	if fl.op != "T" {
		args = "filter: " + fl.gql() + ", " + args
	}
	q := fmt.Sprintf(`query { Doc(%s) { %s _count(_group: {}) } }`, args, strings.Join(fs, " "))
	render := func(r gqlRes) string {
		if r.err != "" {
			return strings.ReplaceAll(r.err, " ", "_")
		}
		var rows []string
		for _, g := range r.docs {
			var k []string
			for _, f := range fs {
				k = append(k, jsonTok(f, g[f]))
			}
			rows = append(rows, strings.Join(k, "|")+"="+fmt.Sprint(g["_count"]))
		}
		sort.Strings(rows)
		if len(rows) == 0 {
			return "-"
		}
		return strings.Join(rows, ",")
	}
	got := render(exec(w.ctx, w.n, q))
	line := w.out.Lines
	w.out.Emit("qg "+fl.tok()+" "+strings.Join(fs, ","), got)
	w.out.Count("op:qg")
	if w.twin != nil {
		if tg := render(exec(w.ctx, w.twin, q)); tg != got {
			w.out.Oracle(line, fmt.Sprintf("[index-changes-aggregate] case %d indexes {%s}: %s returns %s without indexes and %s with them", w.caseID, w.idxDesc, q, got, tg))
		}
	}
}

// groupedPair: several aggregates over the same group in ONE request, the later filters extending the earlier one
// (aggregate targets with different filters must not share a source)
func (w *world) groupedPair(a, b int64) {
	q := fmt.Sprintf(`query { Doc(groupBy: [flag]) { flag wide: _count(_group: {filter: {age: {_gt: %d}}}) narrow: _count(_group: {filter: {age: {_gt: %d, _lt: %d}}}) named: _count(_group: {filter: {age: {_gt: %d}, name: {_ne: "a"}}}) total: _sum(_group: {field: age, filter: {age: {_gt: %d}}}) part: _sum(_group: {field: age, filter: {age: {_gt: %d, _lt: %d}}}) } }`, a, a, b, a, a, a, b)
	render := func(r gqlRes) string {
		if r.err != "" {
			return strings.ReplaceAll(clipS(r.err, 100), " ", "_")
		}
		var rows []string
		for _, g := range r.docs {
			key := "n"
			if v, ok := g["flag"].(bool); ok {
				key = "b0"
				if v {
					key = "b1"
				}
			}
			rows = append(rows, fmt.Sprintf("%s:%v:%v:%v:%v:%v", key, g["wide"], g["narrow"], g["named"], g["total"], g["part"]))
		}
		sort.Strings(rows)
		return strings.Join(rows, ",")
	}
	got := render(exec(w.ctx, w.n, q))
	line := w.out.Lines
	w.out.Emit(fmt.Sprintf("g %d %d", a, b), got)
	w.out.Count("sel:grouped-pair")
	// the arithmetic over the documents, on the implementation's own listing
	type acc struct{ wide, narrow, named, total, part int64 }
	groups := map[string]*acc{}
	for _, d := range w.docs {
		if d.deleted {
			continue
		}
		k := d.fields["flag"].tok()
		if groups[k] == nil {
			groups[k] = &acc{}
		}
		age := d.fields["age"]
		if age.k == "n" || age.i <= a {
			continue
		}
		g := groups[k]
		g.wide++
		g.total += age.i
		if age.i < b {
			g.narrow++
			g.part += age.i
		}
		if nm := d.fields["name"]; nm.k == "n" || nm.s != "a" {
			g.named++
		}
	}
	var rows []string
	for k, g := range groups {
		rows = append(rows, fmt.Sprintf("%s:%d:%d:%d:%d:%d", k, g.wide, g.narrow, g.named, g.total, g.part))
	}
	sort.Strings(rows)
	if want := strings.Join(rows, ","); want != got {
		w.out.Oracle(line, fmt.Sprintf("[aggregate-wrong] case %d: %s returns %s; the arithmetic over the documents gives %s", w.caseID, q, got, want))
	}
	if w.twin != nil {
		if tgot := render(exec(w.ctx, w.twin, q)); tgot != got {
			w.out.Oracle(line, fmt.Sprintf("[index-changes-aggregate] case %d indexes {%s}: %s returns %s without indexes and %s with them", w.caseID, w.idxDesc, q, got, tgot))
		}
	}
}

func clipS(s string, n int) string {
	if len(s) > n {
		return s[:n]
	}
	return s
}

// operatorSweep: one filter per operator on field f
func operatorSweep(r *vc.Rng, f string) []*filt {
	null := val{k: "n"}
	v := genVal(r, f, 0)
	out := []*filt{
		{op: "eq", f: f, v: null}, {op: "ne", f: f, v: null}, {op: "eq", f: f, v: v}, {op: "ne", f: f, v: v},
		{op: "in", f: f, vs: []val{v, null}}, {op: "nin", f: f, vs: []val{v}}, {op: "nin", f: f, vs: []val{v, null}},
		{op: "not", a: &filt{op: "eq", f: f, v: v}},
	}
	if fieldKinds[f] == "i" || fieldKinds[f] == "f" {
		for _, op := range []string{"gt", "ge", "lt", "le"} {
			out = append(out, &filt{op: op, f: f, v: v})
		}
	}
	if fieldKinds[f] == "s" {
		for _, op := range []string{"like", "nlike", "ilike", "nilike"} {
			for mode := 0; mode < 4; mode++ {
				out = append(out, &filt{op: op, f: f, mode: mode, v: val{k: "s", s: []string{"a", "b", "B"}[r.Intn(3)]}})
			}
		}
	}
	return out
}

// malformed / hostile request stream (no-panic, no-hang clause): exploration, not proof
func malformed(ctx context.Context, out *vc.Out, r *vc.Rng, n int) {
	nd, err := vnode.NewMem(ctx)
	must(err)
	defer nd.Close()
	_, err = nd.DB.AddSchema(ctx, sdl)
	must(err)
	col, _ := nd.DB.GetCollectionByName(ctx, "Doc")
	for i := 0; i < 5; i++ {
		d, _ := client.NewDocFromMap(map[string]any{"uid": int64(i), "name": "x", "age": int64(i)}, col.Definition())
		_ = col.Create(ctx, d)
	}
	seeds := []string{
		`query { Doc { _docID name } }`,
		`query { Doc(filter: {age: {_gt: 1}}, order: [{age: ASC}], limit: 2, offset: 1) { name age } }`,
		`query { _count(Doc: {filter: {name: {_eq: "x"}}}) }`,
		`query { Doc(groupBy: [name]) { name _group { age } _count(_group: {}) } }`,
		`query { commits { cid height } }`,
		`query { latestCommits(docID: "bae-0000") { cid } }`,
		`query { Doc { _version { cid height links { cid name } } } }`,
		`query { _avg(Doc: {field: age}) _sum(Doc: {field: age}) _min(Doc: {field: age}) }`,
		`mutation { create_Doc(input: {name: "y", age: 3}) { _docID } }`,
		`mutation { update_Doc(filter: {age: {_gt: 100}}, input: {name: "z"}) { _docID } }`,
		`query { Doc(cid: "bafybeihhypcsqt7blkrqtcmpl43eo3yunrog5pchox5naji6hisdme4swm") { name } }`,
		`query { Doc(docID: "bae-123") { name } }`,
		`query { Doc(filter: {_and: [{_or: [{age: {_in: [1, null]}}]}, {_not: {name: {_like: "%x"}}}]}) { name } }`,
	}
	for i := 0; i < n; i++ {
		s := seeds[r.Intn(len(seeds))]
		b := []byte(s)
		switch r.Intn(6) {
		case 0: // delete a span
			if len(b) > 4 {
				a := r.Intn(len(b) - 2)
				e := a + 1 + r.Intn(minInt(8, len(b)-a-1))
				b = append(b[:a], b[e:]...)
			}
		case 1: // duplicate a span
			a := r.Intn(len(b))
			e := a + r.Intn(minInt(12, len(b)-a)+1)
			b = append(b[:e], append(append([]byte{}, b[a:e]...), b[e:]...)...)
		case 2: // flip a byte
			b[r.Intn(len(b))] = byte(32 + r.Intn(95))
		case 3: // deep nesting
			d := 5 + r.Intn(60)
			b = []byte("query { Doc(filter: " + strings.Repeat("{_not: ", d) + "{age: {_eq: 1}}" + strings.Repeat("}", d) + ") { name } }")
		case 4: // splice two requests
			t := seeds[r.Intn(len(seeds))]
			b = append(b[:r.Intn(len(b))], []byte(t[r.Intn(len(t)):])...)
		default: // token-level: swap operator / field names
			repl := [][2]string{{"_gt", "_like"}, {"age", "name"}, {"ASC", "DESC"}, {"limit: 2", "limit: -1"}, {"offset: 1", "offset: 99999999999"}, {"_count", "_sum"}, {"field: age", "field: name"}, {"cid height", "cid signature { type }"}, {"[name]", "[name, age, name]"}}
			p := repl[r.Intn(len(repl))]
			b = []byte(strings.Replace(string(b), p[0], p[1], 1))
		}
		res := exec(ctx, nd, string(b))
		cls := "data"
		if strings.HasPrefix(res.err, "PANIC") || res.err == "HANG" {
			cls = res.err
			out.Oracle(out.Lines, fmt.Sprintf("[panic-or-hang] malformed request %q -> %s", string(b), res.err))
		} else if res.err != "" {
			cls = "error"
		}
		out.Count("malformed:" + strings.SplitN(cls, ":", 2)[0])
		out.Emit("malformed "+vc.Hex(b), "handled")
		if cls == "HANG" {
			return // the node is stuck
		}
	}
}

func minInt(a, b int) int {
	if a < b {
		return a
	}
	return b
}

// groupProbe: grouping by several fields keeps value tuples apart whose printed forms run into each other
// ("ab"+"c" and "a"+"bc", 1+"2x" and 12+"x", 1+11 and 11+1); every group's count is the multiplicity of its tuple
func groupProbe(ctx context.Context, out *vc.Out, r *vc.Rng) {
	nd, err := vnode.NewMem(ctx)
	must(err)
	defer nd.Close()
	_, err = nd.DB.AddSchema(ctx, `type G { a: String
 b: String
 n: Int
 m: Int }`)
	must(err)
	col, err := nd.DB.GetCollectionByName(ctx, "G")
	must(err)
	type row struct {
		a, b string
		n, m int
	}
	as := []string{"a", "ab", "", "1", "12", "a_", "_", "1_2"}
	bs := []string{"bc", "c", "abc", "2x", "x", "_b", "b_", ""}
	var rows []row
	for i := 0; i < 40; i++ {
		rows = append(rows, row{as[r.Intn(len(as))], bs[r.Intn(len(bs))], []int{1, 11, 12, 2, 0, 111}[r.Intn(6)], []int{1, 11, 2, 21, 0, 10}[r.Intn(6)]})
	}
	rows = append(rows, row{"ab", "c", 1, 11}, row{"a", "bc", 11, 1}, row{"", "abc", 1, 2}, row{"1", "2x", 12, 0}, row{"12", "x", 1, 20})
	// values that contain what separates the parts of a group key, with every small field index
	for k := 0; k < 7; k++ {
		rows = append(rows, row{fmt.Sprintf("x_%d_y", k), "z", 5, 5}, row{"x", fmt.Sprintf("y_%d_z", k), 5, 5})
	}
	// the text that a missing value prints as
	rows = append(rows, row{"<nil>", "q", 6, 6})
	for i, w := range rows {
		d, err := client.NewDocFromJSON([]byte(fmt.Sprintf(`{"a": %q, "b": %q, "n": %d, "m": %d}`, w.a, w.b, w.n, w.m)), col.Definition())
		must(err)
		_ = i
		if err := col.Create(ctx, d); err != nil {
			continue // the same content twice: one document
		}
	}
	if d, err := client.NewDocFromJSON([]byte(`{"b": "q", "n": 6, "m": 6}`), col.Definition()); err == nil {
		_ = col.Create(ctx, d)
	}
	// the documents as stored (identical contents collapse into one document)
	res := nd.GQL(ctx, `query { G { a b n m } }`)
	var all struct{ G []map[string]any }
	must(json.Unmarshal([]byte(res), &all))
	for _, fields := range [][]string{{"a", "b"}, {"b", "a"}, {"n", "a"}, {"a", "n"}, {"n", "m"}, {"m", "n", "b"}} {
		want := map[string]int{}
		for _, d := range all.G {
			var k []string
			for _, f := range fields {
				b, _ := json.Marshal(d[f])
				k = append(k, string(b))
			}
			want[strings.Join(k, "|")]++
		}
		q := fmt.Sprintf(`query { G(groupBy: [%s]) { %s _count(_group: {}) } }`, strings.Join(fields, ", "), strings.Join(fields, " "))
		res := nd.GQL(ctx, q)
		var got struct{ G []map[string]any }
		line := out.Lines
		out.Emit("groupprobe "+strings.Join(fields, ","), "ok")
		out.Count("op:groupprobe")
		if err := json.Unmarshal([]byte(res), &got); err != nil {
			out.Oracle(line, fmt.Sprintf("[group-by-several-fields] %s: %s", q, clipStr(res, 200)))
			continue
		}
		seen := map[string]bool{}
		for _, g := range got.G {
			var k []string
			for _, f := range fields {
				b, _ := json.Marshal(g[f])
				k = append(k, string(b))
			}
			key := strings.Join(k, "|")
			if seen[key] {
				out.Oracle(line, fmt.Sprintf("[group-by-several-fields] %s: the group %s appears twice", q, key))
			}
			seen[key] = true
			if c := fmt.Sprint(g["_count"]); c != fmt.Sprint(want[key]) {
				out.Oracle(line, fmt.Sprintf("[group-by-several-fields] %s: the group %s counts %s documents, %d documents have these values", q, key, c, want[key]))
			}
		}
		if len(seen) != len(want) {
			out.Oracle(line, fmt.Sprintf("[group-by-several-fields] %s: %d groups, %d distinct value tuples", q, len(seen), len(want)))
		}
	}
}

func clipStr(s string, n int) string {
	if len(s) > n {
		return s[:n]
	}
	return s
}

func main() {
	f := vc.ParseFlags()
	out := vc.NewOut(f.OutDir)
	ctx := context.Background()
	withTwin := false
	for _, a := range flag.Args() {
		if a == "twin" {
			withTwin = true
		}
	}
	r := vc.NewRng(f.Seed)
	n := 40
	if f.Tier == "thorough" {
		n = 1200
	}
	if f.N > 0 {
		n = f.N
	}
	for i := 0; i < n; i++ {
		_, s := r.Fork()
		runCase(ctx, out, i, s, f.Tier, withTwin)
	}
	if !withTwin {
		groupProbe(ctx, out, r)
		m := 1500
		if f.Tier == "thorough" {
			m = 100000
		}
		malformed(ctx, out, r, m)
	}
	out.Close(map[string]any{"seed": f.Seed, "cases": n, "twin": withTwin})
}
