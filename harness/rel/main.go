//go:build verif

// Engine `rel` (C09): related collections in four topologies (one-to-many, one-to-one, self-referencing one-to-many,
// two hops), on twin nodes that differ only in secondary indexes (on the foreign key and/or the filtered fields).
// A generated history of creates (with links), relinks, unlinks, value updates and deletes is applied to both; then
// requests that reach through the relation from either side (related lists, parents, filters through the relation,
// aggregates over related documents, ordering by a related field, limited sub-selections, two-hop reads) are run on
// both twins. The two answers must agree (the index may only change the plan) and are compared with `drv rel`, which
// derives every answer from the documents' own relation fields.
package main

import (
	"context"
	"encoding/json"
	"fmt"
	"os"
	"runtime/debug"
	"sort"
	"strconv"
	"strings"
	"time"

	"github.com/sourcenetwork/defradb/client"
	vc "github.com/sourcenetwork/defradb/internal/verifharness/common"
	vnode "github.com/sourcenetwork/defradb/internal/verifharness/node"
)

func must(err error) {
	if err != nil {
		panic(err)
	}
}

// a relation as the requests name it
type relDef struct {
	parent, child string // collection names
	fk            string // object field on the child (its key is fk+"_id")
	kids          string // field on the parent
	single        bool   // one-to-one: kids is a single object
}

type topo struct {
	name string
	sdl  func(idx string) string
	rels []relDef
	cols []string
}

func ix(on bool) string {
	if on {
		return " @index"
	}
	return ""
}

var topos = map[string]topo{
	"t1": {name: "t1", cols: []string{"Author", "Book"}, rels: []relDef{{"Author", "Book", "author", "books", false}},
		sdl: func(idx string) string {
			fk, fld := idx == "fk" || idx == "both", idx == "field" || idx == "both"
			return fmt.Sprintf(`type Author { name: String%[2]s
 x: Int%[2]s
 s: Int
 books: [Book] }
type Book { name: String%[3]s
 x: Int%[3]s
 s: Int
 author: Author%[1]s }`, ix(fk), ix(fld || idx == "pfield"), ix(fld || idx == "cfield"))
		}},
	"t2": {name: "t2", cols: []string{"Address", "User"}, rels: []relDef{{"Address", "User", "address", "user", true}},
		sdl: func(idx string) string {
			fk, fld := idx == "fk" || idx == "both", idx == "field" || idx == "both"
			fkIdx := ix(fk)
			if idx == "ufk" {
				// a composite unique index led by the foreign key: it makes (key, s) unique, not the key alone
				fkIdx = ` @index(unique: true, includes: [{field: "s"}])`
			}
			return fmt.Sprintf(`type Address { name: String%[2]s
 x: Int%[2]s
 s: Int
 user: User }
type User { name: String%[3]s
 x: Int%[3]s
 s: Int
 address: Address @primary%[1]s }`, fkIdx, ix(fld || idx == "pfield"), ix(fld || idx == "cfield"))
		}},
	"t3": {name: "t3", cols: []string{"Emp"}, rels: []relDef{{"Emp", "Emp", "boss", "reports", false}},
		sdl: func(idx string) string {
			fk, fld := idx == "fk" || idx == "both", idx == "field" || idx == "both" || idx == "pfield" || idx == "cfield"
			return fmt.Sprintf(`type Emp { name: String%[2]s
 x: Int%[2]s
 s: Int
 boss: Emp @relation(name: "boss")%[1]s
 reports: [Emp] @relation(name: "boss") }`, ix(fk), ix(fld))
		}},
	"t5": {name: "t5", cols: []string{"Publisher", "Author", "Book"},
		rels: []relDef{{"Author", "Book", "author", "books", false}, {"Publisher", "Author", "publisher", "authors", false}},
		sdl: func(idx string) string {
			fk, fld := idx == "fk" || idx == "both", idx == "field" || idx == "both"
			return fmt.Sprintf(`type Publisher { name: String%[2]s
 x: Int%[2]s
 s: Int
 authors: [Author] }
type Author { name: String%[2]s
 x: Int%[2]s
 s: Int
 publisher: Publisher%[1]s
 books: [Book] }
type Book { name: String%[3]s
 x: Int%[3]s
 s: Int
 author: Author%[1]s }`, ix(fk), ix(fld || idx == "pfield"), ix(fld || idx == "cfield"))
		}},
}

type docInfo struct {
	label, col, docID string
}

type world struct {
	ctx    context.Context
	out    *vc.Out
	caseID uint64
	tp     topo
	idx    string
	nodes  [2]*vnode.Node // 0: with the case's indexes, 1: without any
	docs   map[string]*docInfo
	byID   map[string]string
	order  []string
}

func (w *world) close() {
	for _, n := range w.nodes {
		if n != nil {
			n.Close()
		}
	}
}

func (w *world) subst(js string) string {
	for l, d := range w.docs {
		js = strings.ReplaceAll(js, `"@`+l+`"`, strconv.Quote(d.docID))
	}
	return js
}

func short(err error) string {
	s := err.Error()
	switch {
	case strings.Contains(s, "already linked"):
		return "error:already-linked"
	case strings.Contains(s, "already exists"):
		return "error:exists"
	}
	s = strings.ReplaceAll(s, " ", "_")
	if len(s) > 70 {
		s = s[:70]
	}
	return "error:" + s
}

// both applies a mutation to both twins and insists on the same outcome
func (w *world) both(f func(n *vnode.Node) string) string {
	a, b := f(w.nodes[0]), f(w.nodes[1])
	if a != b {
		w.out.Oracle(w.out.Lines, fmt.Sprintf("[index-changes-mutation] case %d: with indexes %s, without %s", w.caseID, a, b))
		return "DIFF " + a + " | " + b
	}
	return a
}

func (w *world) create(label, col, js string) string {
	var id string
	res := w.both(func(n *vnode.Node) string {
		c, err := n.DB.GetCollectionByName(w.ctx, col)
		must(err)
		d, err := client.NewDocFromJSON([]byte(w.subst(js)), c.Definition())
		if err != nil {
			return short(err)
		}
		if err := c.Create(w.ctx, d); err != nil {
			return short(err)
		}
		id = d.ID().String()
		return "ok"
	})
	if res == "ok" {
		w.docs[label] = &docInfo{label, col, id}
		w.byID[id] = label
		w.order = append(w.order, label)
	}
	return res
}

func (w *world) set(label, field, val string) string {
	d := w.docs[label]
	if d == nil {
		return "error:no-such-doc"
	}
	return w.both(func(n *vnode.Node) string {
		q := fmt.Sprintf(`mutation { update_%s(docID: "%s", input: {%s: %s}) { _docID } }`, d.col, d.docID, field, w.subst(val))
		res := n.GQL(w.ctx, q)
		if strings.HasPrefix(res, "error") {
			if strings.Contains(res, "already linked") {
				return "error:already-linked"
			}
			return "error:" + strings.ReplaceAll(clip(res, 60), " ", "_")
		}
		if !strings.Contains(res, d.docID) {
			return "error:not-updated"
		}
		return "ok"
	})
}

func (w *world) del(label string) string {
	d := w.docs[label]
	if d == nil {
		return "error:no-such-doc"
	}
	return w.both(func(n *vnode.Node) string {
		res := n.GQL(w.ctx, fmt.Sprintf(`mutation { delete_%s(docID: "%s") { _docID } }`, d.col, d.docID))
		if !strings.Contains(res, d.docID) {
			return "error:not-deleted"
		}
		return "ok"
	})
}

func clip(s string, n int) string {
	if len(s) > n {
		return s[:n]
	}
	return s
}

// --- requests ---

func (w *world) lab(id any) string {
	if id == nil {
		return "-"
	}
	if l, ok := w.byID[fmt.Sprint(id)]; ok {
		return l
	}
	return "?" + fmt.Sprint(id)
}

func num(v any) string {
	if v == nil {
		return "null"
	}
	b, _ := json.Marshal(v)
	return string(b)
}

const timeout = 20 * time.Second

func gqlT(ctx context.Context, n *vnode.Node, q string) string {
	ch := make(chan string, 1)
	go func() {
		defer func() {
			if rr := recover(); rr != nil {
				ch <- fmt.Sprintf("panic: %v", rr)
			}
		}()
		ch <- n.GQL(ctx, q)
	}()
	select {
	case s := <-ch:
		return s
	case <-time.After(timeout):
		return "hang"
	}
}

// query builds the request for a kind and renders the answer canonically (labels, sorted unless order matters)
func (w *world) query(n *vnode.Node, t []string) string {
	kind := t[1]
	ri, _ := strconv.Atoi(t[2])
	r := w.tp.rels[ri]
	arg := ""
	if len(t) > 3 {
		arg = t[3]
	}
	var q string
	root := r.parent
	switch kind {
	case "pdocidf", "cdocidf", "kidsdocid", "byfk":
		// the document addressed may never have been created (its create was rejected)
		if w.docs[strings.Split(arg, ",")[0]] == nil {
			return ""
		}
	}
	switch kind {
	case "kids":
		q = fmt.Sprintf(`query { %s { _docID %s { _docID } } }`, r.parent, r.kids)
	case "parent":
		q, root = fmt.Sprintf(`query { %s { _docID %s { _docID } } }`, r.child, r.fk), r.child
	case "byfk":
		q, root = fmt.Sprintf(`query { %s(filter: {%s_id: {_eq: "%s"}}) { _docID } }`, r.child, r.fk, w.docs[arg].docID), r.child
	case "pfilter":
		q = fmt.Sprintf(`query { %s(filter: {%s: {x: {_gt: %s}}}) { _docID } }`, r.parent, r.kids, arg)
	case "pfilterkids":
		q = fmt.Sprintf(`query { %s(filter: {%s: {x: {_gt: %s}}}) { _docID %s { _docID } } }`, r.parent, r.kids, arg, r.kids)
	case "pfiltername":
		q = fmt.Sprintf(`query { %s(filter: {%s: {name: {_eq: "%s"}}}) { _docID %s { _docID } } }`, r.parent, r.kids, arg, r.kids)
	case "cfilter":
		q, root = fmt.Sprintf(`query { %s(filter: {%s: {x: {_gt: %s}}}) { _docID } }`, r.child, r.fk, arg), r.child
	case "cfiltername":
		q, root = fmt.Sprintf(`query { %s(filter: {%s: {name: {_eq: "%s"}}}) { _docID %s { _docID } } }`, r.child, r.fk, arg, r.fk), r.child
	case "agg":
		q = fmt.Sprintf(`query { %s { _docID _count(%s: {}) _sum(%s: {field: x}) } }`, r.parent, r.kids, r.kids)
	case "aggf":
		q = fmt.Sprintf(`query { %s { _docID _count(%s: {filter: {x: {_gt: %s}}}) } }`, r.parent, r.kids, arg)
	case "kidsor": // alternatives on one field, in the filter of the related list
		ab := strings.Split(arg, ",")
		q = fmt.Sprintf(`query { %s { _docID %s(filter: {_or: [{x: {_eq: %s}}, {x: {_eq: %s}}]}) { _docID } } }`, r.parent, r.kids, ab[0], ab[1])
	case "kidsor2": // an alternative that is a conjunction of two fields
		ab := strings.Split(arg, ",")
		q = fmt.Sprintf(`query { %s { _docID %s(filter: {_or: [{x: {_eq: %s}, name: {_eq: "%s"}}]}) { _docID } } }`, r.parent, r.kids, ab[0], ab[1])
	case "pfilteror": // alternatives nested under the relation field, from the parent side
		ab := strings.Split(arg, ",")
		q = fmt.Sprintf(`query { %s(filter: {%s: {_or: [{x: {_eq: %s}}, {x: {_eq: %s}}]}}) { _docID } }`, r.parent, r.kids, ab[0], ab[1])
	case "cfilteror": // … and from the child side
		ab := strings.Split(arg, ",")
		q, root = fmt.Sprintf(`query { %s(filter: {%s: {_or: [{x: {_eq: %s}}, {x: {_eq: %s}}]}}) { _docID } }`, r.child, r.fk, ab[0], ab[1]), r.child
	case "kidsaggf": // a filtered list of related documents next to an aggregate over a narrower filter
		ab := strings.Split(arg, ",")
		q = fmt.Sprintf(`query { %s { _docID %s(filter: {x: {_gt: %s}}) { _docID } _count(%s: {filter: {x: {_gt: %s, _lt: %s}}}) } }`, r.parent, r.kids, ab[0], r.kids, ab[0], ab[1])
	case "agg2f": // two aggregates over the relation, the second with a narrower filter
		ab := strings.Split(arg, ",")
		q = fmt.Sprintf(`query { %s { _docID c1: _count(%s: {filter: {x: {_gt: %s}}}) c2: _count(%s: {filter: {x: {_gt: %s, _lt: %s}}}) } }`, r.parent, r.kids, ab[0], r.kids, ab[0], ab[1])
	case "corder":
		q, root = fmt.Sprintf(`query { %s(order: {%s: {x: ASC}}) { _docID %s { x } } }`, r.child, r.fk, r.fk), r.child
	case "kidsorder":
		q = fmt.Sprintf(`query { %s { _docID %s(order: {x: DESC}, limit: %s) { x } } }`, r.parent, r.kids, arg)
	case "cfilterne": // children whose parent is not called so (a child without a parent has no such parent either)
		q, root = fmt.Sprintf(`query { %s(filter: {%s: {name: {_ne: "%s"}}}) { _docID } }`, r.child, r.fk, arg), r.child
	case "cfilterown": // a condition on the parent next to one on the child's own field
		ab := strings.Split(arg, ",")
		q, root = fmt.Sprintf(`query { %s(filter: {%s: {name: {_eq: "%s"}}, x: {_gt: %s}}) { _docID } }`, r.child, r.fk, ab[1], ab[0]), r.child
	case "pcountf": // parents chosen through their related documents, with the count of ALL their related documents
		q = fmt.Sprintf(`query { %s(filter: {%s: {x: {_gt: %s}}}) { _docID _count(%s: {}) } }`, r.parent, r.kids, arg, r.kids)
	case "pdocidf": // one parent addressed by identifier, kept or not by a condition on its related documents
		ab := strings.Split(arg, ",")
		q = fmt.Sprintf(`query { %s(docID: "%s", filter: {%s: {x: {_gt: %s}}}) { _docID } }`, r.parent, w.docs[ab[0]].docID, r.kids, ab[1])
	case "cdocidf": // one child addressed by identifier, kept or not by a condition on its parent
		ab := strings.Split(arg, ",")
		q, root = fmt.Sprintf(`query { %s(docID: "%s", filter: {%s: {name: {_eq: "%s"}}}) { _docID } }`, r.child, w.docs[ab[0]].docID, r.fk, ab[1]), r.child
	case "kidsdocid": // the related list narrowed to one identifier
		q = fmt.Sprintf(`query { %s { _docID %s(docID: "%s") { _docID } } }`, r.parent, r.kids, w.docs[arg].docID)
	case "topcount":
		q, root = fmt.Sprintf(`query { _count(%s: {filter: {%s: {x: {_gt: %s}}}}) }`, r.child, r.fk, arg), "_count"
	case "topsum":
		q, root = fmt.Sprintf(`query { _sum(%s: {field: x, filter: {%s: {name: {_eq: "%s"}}}}) }`, r.child, r.fk, arg), "_sum"
	case "psorted":
		q = fmt.Sprintf(`query { %s(order: {x: ASC}) { _docID x %s { _docID } } }`, r.parent, r.kids)
	case "hop2":
		r1 := w.tp.rels[1]
		q, root = fmt.Sprintf(`query { %s { _docID %s { _docID %s { _docID } } } }`, r1.parent, r1.kids, r.kids), r1.parent
	case "hop2filter":
		r1 := w.tp.rels[1]
		q, root = fmt.Sprintf(`query { %s(filter: {%s: {%s: {name: {_eq: "%s"}}}}) { _docID } }`, r.child, r.fk, r1.fk, arg), r.child
	case "hop2up":
		r1 := w.tp.rels[1]
		q, root = fmt.Sprintf(`query { %s { _docID %s { _docID %s { _docID } } } }`, r.child, r.fk, r1.fk), r.child
	default:
		return "bad-kind"
	}
	res := gqlT(w.ctx, n, q)
	if res == "hang" || strings.HasPrefix(res, "panic") || strings.HasPrefix(res, "error") {
		return clip(strings.ReplaceAll(res, " ", "_"), 120)
	}
	var m map[string]any
	if err := json.Unmarshal([]byte(res), &m); err != nil {
		return "unparsable:" + clip(res, 80)
	}
	if root == "_count" || root == "_sum" {
		return num(m[root])
	}
	rows, _ := m[root].([]any)
	var items []string
	kidList := func(v any, key string) string {
		var ks []string
		switch x := v.(type) {
		case []any:
			for _, k := range x {
				ks = append(ks, w.lab(k.(map[string]any)[key]))
			}
		case map[string]any:
			ks = append(ks, w.lab(x[key]))
		case nil:
		}
		sort.Strings(ks)
		return "[" + strings.Join(ks, ",") + "]"
	}
	for _, row := range rows {
		d := row.(map[string]any)
		l := w.lab(d["_docID"])
		switch kind {
		case "kids", "pfilterkids", "pfiltername", "kidsor", "kidsor2", "kidsdocid":
			items = append(items, l+":"+kidList(d[r.kids], "_docID"))
		case "psorted":
			items = append(items, num(d["x"])+"/"+l+":"+kidList(d[r.kids], "_docID"))
		case "parent", "cfiltername":
			p := "-"
			if pm, ok := d[r.fk].(map[string]any); ok && pm != nil {
				p = w.lab(pm["_docID"])
			}
			items = append(items, l+":"+p)
		case "byfk", "pfilter", "cfilter", "hop2filter", "pfilteror", "cfilteror", "cfilterne", "cfilterown", "pdocidf", "cdocidf":
			items = append(items, l)
		case "agg":
			items = append(items, fmt.Sprintf("%s:count=%s,sum=%s", l, num(d["_count"]), num(d["_sum"])))
		case "aggf", "pcountf":
			items = append(items, fmt.Sprintf("%s:count=%s", l, num(d["_count"])))
		case "kidsaggf":
			items = append(items, fmt.Sprintf("%s:%s:count=%s", l, kidList(d[r.kids], "_docID"), num(d["_count"])))
		case "agg2f":
			items = append(items, fmt.Sprintf("%s:c1=%s,c2=%s", l, num(d["c1"]), num(d["c2"])))
		case "corder":
			px := "none"
			if pm, ok := d[r.fk].(map[string]any); ok && pm != nil {
				px = num(pm["x"])
			}
			items = append(items, px)
		case "kidsorder":
			var xs []string
			if ks, ok := d[r.kids].([]any); ok {
				for _, k := range ks {
					xs = append(xs, num(k.(map[string]any)["x"]))
				}
			} else if km, ok := d[r.kids].(map[string]any); ok && km != nil {
				xs = append(xs, num(km["x"]))
			}
			items = append(items, l+":["+strings.Join(xs, ",")+"]")
		case "hop2":
			r1 := w.tp.rels[1]
			var as []string
			if al, ok := d[r1.kids].([]any); ok {
				for _, a := range al {
					am := a.(map[string]any)
					as = append(as, w.lab(am["_docID"])+kidList(am[r.kids], "_docID"))
				}
			}
			sort.Strings(as)
			items = append(items, l+":{"+strings.Join(as, ",")+"}")
		case "hop2up":
			r1 := w.tp.rels[1]
			s := l + ":"
			if am, ok := d[r.fk].(map[string]any); ok && am != nil {
				s += w.lab(am["_docID"]) + ":"
				if pm, ok := am[r1.fk].(map[string]any); ok && pm != nil {
					s += w.lab(pm["_docID"])
				} else {
					s += "-"
				}
			} else {
				s += "-"
			}
			items = append(items, s)
		}
	}
	if kind != "corder" && kind != "psorted" {
		sort.Strings(items)
	} else if kind == "psorted" {
		// the order of parents that tie on x is not defined: sort within equal keys
		sort.SliceStable(items, func(i, j int) bool {
			ki, kj := strings.SplitN(items[i], "/", 2), strings.SplitN(items[j], "/", 2)
			return ki[0] == kj[0] && ki[1] < kj[1]
		})
	}
	return strings.Join(items, " ")
}

func (w *world) q(t []string) string {
	a, b := w.query(w.nodes[0], t), w.query(w.nodes[1], t)
	w.out.Count("q:" + t[1])
	if a != b {
		tag := "index-changes-join"
		if t[1] == "corder" {
			// is the indexed answer the other one without the documents that have no related document?
			var kept []string
			for _, x := range strings.Fields(b) {
				if x != "none" {
					kept = append(kept, x)
				}
			}
			if strings.Join(kept, " ") == a {
				tag = "order-inversion-drops-unrelated"
			}
		}
		w.out.Oracle(w.out.Lines, fmt.Sprintf("[%s] case %d (%s, indexes %s): request %s answers %s with the indexes and %s without", tag, w.caseID, w.tp.name, w.idx, strings.Join(t[1:], " "), a, b))
	}
	for _, x := range []string{a, b} {
		if strings.HasPrefix(x, "panic") || x == "hang" {
			w.out.Oracle(w.out.Lines, fmt.Sprintf("[request-hangs-or-panics] case %d: request %s: %s", w.caseID, strings.Join(t[1:], " "), x))
		}
	}
	if (t[1] == "kidsaggf" || t[1] == "agg2f") && !strings.HasPrefix(b, "panic") && b != "hang" {
		// the property's own statement: the aggregate asked from the parent side equals the same question asked from
		// the child side (documents of the child collection pointing to that parent and passing the filter)
		ri, _ := strconv.Atoi(t[2])
		r := w.tp.rels[ri]
		ab := strings.Split(t[3], ",")
		for _, item := range strings.Fields(b) {
			parts := strings.Split(item, ":")
			last := parts[len(parts)-1]
			var got string
			if t[1] == "kidsaggf" {
				got = strings.TrimPrefix(last, "count=")
			} else {
				got = last[strings.Index(last, "c2=")+3:]
			}
			var pid string
			for _, d := range w.docs {
				if d.label == parts[0] {
					pid = d.docID
				}
			}
			if pid == "" {
				continue
			}
			res := gqlT(w.ctx, w.nodes[1], fmt.Sprintf(`query { _count(%s: {filter: {%s_id: {_eq: "%s"}, x: {_gt: %s, _lt: %s}}}) }`, r.child, r.fk, pid, ab[0], ab[1]))
			var m map[string]any
			if json.Unmarshal([]byte(res), &m) == nil {
				if want := num(m["_count"]); want != got {
					w.out.Oracle(w.out.Lines, fmt.Sprintf("[relation-sides-disagree] case %d (%s): request %s counts %s related documents of %s from the parent side, the child side counts %s", w.caseID, w.tp.name, strings.Join(t[1:], " "), got, parts[0], want))
				}
			}
		}
	}
	if (t[1] == "kidsor" || t[1] == "pfilteror" || t[1] == "cfilteror") && !strings.HasPrefix(b, "panic") && b != "hang" && !strings.HasPrefix(b, "error") {
		// the same question asked from the other side of the relation (top-level filter, no nesting)
		ri, _ := strconv.Atoi(t[2])
		r := w.tp.rels[ri]
		ab := strings.Split(t[3], ",")
		alt := fmt.Sprintf(`_or: [{x: {_eq: %s}}, {x: {_eq: %s}}]`, ab[0], ab[1])
		labelsOf := func(res, root string, pick func(map[string]any) []string) []string {
			var m map[string][]map[string]any
			var out []string
			if json.Unmarshal([]byte(res), &m) == nil {
				for _, d := range m[root] {
					out = append(out, pick(d)...)
				}
			}
			sort.Strings(out)
			return out
		}
		var got, want []string
		switch t[1] {
		case "kidsor":
			// parent side: every (parent, kid) pair listed; child side: the children passing the alternatives, with
			// the parent their own relation field points to
			for _, item := range strings.Fields(b) {
				parts := strings.SplitN(item, ":", 2)
				for _, k := range strings.Split(strings.Trim(parts[1], "[]"), ",") {
					if k != "" {
						got = append(got, parts[0]+">"+k)
					}
				}
			}
			sort.Strings(got)
			res := gqlT(w.ctx, w.nodes[1], fmt.Sprintf(`query { %s(filter: {%s}) { _docID %s { _docID } } }`, r.child, alt, r.fk))
			want = labelsOf(res, r.child, func(d map[string]any) []string {
				if pm, ok := d[r.fk].(map[string]any); ok && pm != nil {
					return []string{w.lab(pm["_docID"]) + ">" + w.lab(d["_docID"])}
				}
				return nil
			})
		case "pfilteror":
			got = strings.Fields(b)
			res := gqlT(w.ctx, w.nodes[1], fmt.Sprintf(`query { %s(filter: {%s}) { %s { _docID } } }`, r.child, alt, r.fk))
			seen := map[string]bool{}
			want = labelsOf(res, r.child, func(d map[string]any) []string {
				if pm, ok := d[r.fk].(map[string]any); ok && pm != nil {
					l := w.lab(pm["_docID"])
					if !seen[l] {
						seen[l] = true
						return []string{l}
					}
				}
				return nil
			})
		case "cfilteror":
			got = strings.Fields(b)
			res := gqlT(w.ctx, w.nodes[1], fmt.Sprintf(`query { %s(filter: {%s}) { %s { _docID } } }`, r.parent, alt, r.kids))
			want = labelsOf(res, r.parent, func(d map[string]any) []string {
				var out []string
				switch ks := d[r.kids].(type) {
				case []any:
					for _, k := range ks {
						out = append(out, w.lab(k.(map[string]any)["_docID"]))
					}
				case map[string]any:
					if ks != nil {
						out = append(out, w.lab(ks["_docID"]))
					}
				}
				return out
			})
		}
		sort.Strings(got)
		if strings.Join(got, " ") != strings.Join(want, " ") {
			w.out.Oracle(w.out.Lines, fmt.Sprintf("[relation-sides-disagree] case %d (%s): request %s answers %v, the same question from the other side of the relation answers %v", w.caseID, w.tp.name, strings.Join(t[1:], " "), got, want))
		}
	}
	if t[1] == "corder" {
		// ordering itself, on the implementation alone: keys never decrease (none and null are both "no value")
		prev := -1 << 62
		for _, x := range strings.Fields(b) {
			k := -1 << 61
			if v, err := strconv.Atoi(x); err == nil {
				k = v
			}
			if k < prev {
				w.out.Oracle(w.out.Lines, fmt.Sprintf("[order-through-relation] case %d: request %s yields keys %s", w.caseID, strings.Join(t[1:], " "), b))
				break
			}
			prev = k
		}
		// canonical for the comparison: the run of documents without a key, none before null
		f := strings.Fields(b)
		sort.SliceStable(f, func(i, j int) bool { return f[i] == "none" && f[j] == "null" })
		b = strings.Join(f, " ")
	}
	if b != "" {
		w.out.Count("q-nonempty")
	}
	// the answer without indexes is the one compared with the model; a difference between the twins is reported above
	return b
}

// uniq: the one-to-one link is held by at most one live document (raw listing of the primary side)
func (w *world) uniq() string {
	if !w.tp.rels[0].single {
		return "n/a"
	}
	r := w.tp.rels[0]
	res := w.nodes[1].GQL(w.ctx, fmt.Sprintf(`query { %s { _docID %s_id } }`, r.child, r.fk))
	var m map[string][]map[string]any
	must(json.Unmarshal([]byte(res), &m))
	holders := map[string][]string{}
	for _, d := range m[r.child] {
		if k := d[r.fk+"_id"]; k != nil {
			holders[fmt.Sprint(k)] = append(holders[fmt.Sprint(k)], w.lab(d["_docID"]))
		}
	}
	bad := 0
	for k, hs := range holders {
		if len(hs) > 1 {
			bad++
			sort.Strings(hs)
			w.out.Oracle(w.out.Lines, fmt.Sprintf("[one-to-one-double-link] case %d: %s is linked by %v at once", w.caseID, w.lab(k), hs))
		}
	}
	return fmt.Sprintf("double=%d", bad)
}

func runCase(ctx context.Context, out *vc.Out, lines []string) {
	w := &world{ctx: ctx, out: out, docs: map[string]*docInfo{}, byID: map[string]string{}}
	defer w.close()
	defer func() {
		if rr := recover(); rr != nil {
			if os.Getenv("VERIF_STACK") != "" {
				debug.PrintStack()
			}
			out.Oracle(out.Lines, fmt.Sprintf("[panic] case %d: %v", w.caseID, rr))
			out.Emit("panic", fmt.Sprint(rr))
		}
	}()
	for _, l := range lines {
		t := strings.Fields(l)
		var res string
		switch t[0] {
		case "case":
			id, _ := strconv.ParseUint(t[1], 10, 64)
			w.caseID = id
			w.tp = topos[strings.TrimPrefix(t[2], "topo=")]
			w.idx = strings.TrimPrefix(t[3], "idx=")
			for i, ix := range []string{w.idx, "none"} {
				n, err := vnode.NewMem(ctx)
				must(err)
				_, err = n.DB.AddSchema(ctx, w.tp.sdl(ix))
				must(err)
				w.nodes[i] = n
			}
			res = "ok"
		case "doc":
			f := strings.SplitN(l, " ", 4)
			res = w.create(f[1], f[2], f[3])
		case "set":
			f := strings.SplitN(l, " ", 4)
			res = w.set(f[1], f[2], f[3])
		case "del":
			res = w.del(t[1])
		case "q":
			res = w.q(t)
		case "uniq":
			res = w.uniq()
		default:
			res = "bad-op"
		}
		out.Emit(l, res)
		out.Count(t[0])
	}
}

var names = []string{"ann", "bob", "cat"}

func genCase(r *vc.Rng, id uint64) []string {
	tn := []string{"t1", "t1", "t2", "t3", "t5"}[r.Intn(5)]
	idx := []string{"fk", "field", "both", "both", "pfield", "cfield"}[r.Intn(6)]
	if tn == "t2" && r.Chance(1, 3) {
		idx = "ufk"
	}
	tp := topos[tn]
	lines := []string{fmt.Sprintf("case %d topo=%s idx=%s", id, tn, idx)}
	xv := func() string {
		if r.Chance(1, 7) {
			return "null"
		}
		return strconv.Itoa(r.Intn(6))
	}
	labels := map[string][]string{}
	salt := 0
	mk := func(col string, parentLabels []string, fk string) {
		l := fmt.Sprintf("%s%d", strings.ToLower(col[:2]), len(labels[col]))
		salt++
		js := fmt.Sprintf(`{"s": %d, "name": "%s", "x": %s`, salt, names[r.Intn(len(names))], xv())
		if fk != "" && len(parentLabels) > 0 && r.Chance(5, 6) {
			js += fmt.Sprintf(`, "%s_id": "@%s"`, fk, parentLabels[r.Intn(len(parentLabels))])
		}
		// unique salt keeps identifiers distinct without affecting the modelled fields
		js += "}"
		lines = append(lines, fmt.Sprintf("doc %s %s %s", l, col, js))
		labels[col] = append(labels[col], l)
	}
	switch tn {
	case "t1":
		for i := 0; i < 2+r.Intn(4); i++ {
			mk("Author", nil, "")
		}
		for i := 0; i < 3+r.Intn(6); i++ {
			mk("Book", labels["Author"], "author")
		}
	case "t2":
		for i := 0; i < 2+r.Intn(4); i++ {
			mk("Address", nil, "")
		}
		for i := 0; i < 2+r.Intn(5); i++ {
			mk("User", labels["Address"], "address")
		}
	case "t3":
		for i := 0; i < 4+r.Intn(6); i++ {
			mk("Emp", labels["Emp"], "boss")
		}
	case "t5":
		for i := 0; i < 2+r.Intn(2); i++ {
			mk("Publisher", nil, "")
		}
		for i := 0; i < 2+r.Intn(4); i++ {
			mk("Author", labels["Publisher"], "publisher")
		}
		for i := 0; i < 3+r.Intn(5); i++ {
			mk("Book", labels["Author"], "author")
		}
	}
	var all []string
	for _, c := range tp.cols {
		all = append(all, labels[c]...)
	}
	// history of relinks, unlinks, value updates, deletes
	for i := 0; i < 2+r.Intn(7); i++ {
		rel := tp.rels[r.Intn(len(tp.rels))]
		kids := labels[rel.child]
		switch x := r.Intn(10); {
		case x < 4 && len(kids) > 0 && len(labels[rel.parent]) > 0:
			lines = append(lines, fmt.Sprintf(`set %s %s_id "@%s"`, kids[r.Intn(len(kids))], rel.fk, labels[rel.parent][r.Intn(len(labels[rel.parent]))]))
		case x < 5 && len(kids) > 0:
			lines = append(lines, fmt.Sprintf(`set %s %s_id null`, kids[r.Intn(len(kids))], rel.fk))
		case x < 8:
			lines = append(lines, fmt.Sprintf(`set %s x %s`, all[r.Intn(len(all))], xv()))
		default:
			lines = append(lines, "del "+all[r.Intn(len(all))])
		}
		if tp.rels[0].single {
			lines = append(lines, "uniq")
		}
	}
	for ri, rel := range tp.rels {
		p := strconv.Itoa(ri)
		lines = append(lines, "q kids "+p, "q parent "+p, "q psorted "+p, "q corder "+p)
		for _, pl := range labels[rel.parent] {
			if r.Chance(1, 2) {
				lines = append(lines, "q byfk "+p+" "+pl)
			}
		}
		for _, v := range []int{-1, r.Intn(5), r.Intn(5)} {
			vs := strconv.Itoa(v)
			lines = append(lines, "q pfilter "+p+" "+vs, "q pfilterkids "+p+" "+vs, "q cfilter "+p+" "+vs, "q topcount "+p+" "+vs)
			if !rel.single {
				lines = append(lines, "q aggf "+p+" "+vs)
				hi := strconv.Itoa(v + 1 + r.Intn(3))
				lines = append(lines, "q kidsaggf "+p+" "+vs+","+hi, "q agg2f "+p+" "+vs+","+hi)
				lines = append(lines, "q kidsor "+p+" "+vs+","+hi, "q kidsor2 "+p+" "+vs+","+names[r.Intn(len(names))])
			}
			{
				hi := strconv.Itoa(v + 1 + r.Intn(3))
				lines = append(lines, "q pfilteror "+p+" "+vs+","+hi, "q cfilteror "+p+" "+vs+","+hi)
			}
		}
		for _, nm := range names {
			lines = append(lines, "q cfiltername "+p+" "+nm, "q pfiltername "+p+" "+nm, "q topsum "+p+" "+nm)
			lines = append(lines, "q cfilterne "+p+" "+nm, "q cfilterown "+p+" "+strconv.Itoa(r.Intn(5)-1)+","+nm)
		}
		for _, v := range []int{-1, r.Intn(5)} {
			if !rel.single {
				lines = append(lines, "q pcountf "+p+" "+strconv.Itoa(v))
			}
			if pls := labels[rel.parent]; len(pls) > 0 {
				lines = append(lines, "q pdocidf "+p+" "+pls[r.Intn(len(pls))]+","+strconv.Itoa(v))
			}
		}
		if cls := labels[rel.child]; len(cls) > 0 {
			for i := 0; i < 2; i++ {
				lines = append(lines, "q cdocidf "+p+" "+cls[r.Intn(len(cls))]+","+names[r.Intn(len(names))])
			}
			if !rel.single {
				lines = append(lines, "q kidsdocid "+p+" "+cls[r.Intn(len(cls))])
			}
		}
		if !rel.single {
			lines = append(lines, "q agg "+p, "q kidsorder "+p+" "+strconv.Itoa(1+r.Intn(2)))
		}
	}
	if tn == "t5" {
		lines = append(lines, "q hop2 0", "q hop2up 0")
		for _, nm := range names {
			lines = append(lines, "q hop2filter 0 "+nm)
		}
	}
	return lines
}

func splitCases(lines []string) [][]string {
	var out [][]string
	for _, l := range lines {
		if strings.HasPrefix(l, "case ") || len(out) == 0 {
			out = append(out, nil)
		}
		out[len(out)-1] = append(out[len(out)-1], l)
	}
	return out
}

func main() {
	f := vc.ParseFlags()
	out := vc.NewOut(f.OutDir)
	ctx := context.Background()
	var cases [][]string
	if f.Replay != "" {
		cases = splitCases(vc.ReadLines(f.Replay))
	} else {
		r := vc.NewRng(f.Seed)
		n := 40
		if f.Tier == "thorough" {
			n = 1200
		}
		if f.N > 0 {
			n = f.N
		}
		for i := 0; i < n; i++ {
			cr, _ := r.Fork()
			cases = append(cases, genCase(cr, uint64(i+1)))
		}
	}
	for _, c := range cases {
		runCase(ctx, out, c)
		out.Nontrivial(strings.Join(c[1:], ";"))
	}
	out.Close(map[string]any{"seed": f.Seed, "cases": len(cases)})
}
