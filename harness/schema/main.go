//go:build verif

// Engine `schema` (C19): one or two nodes start from the same one-field schema; a generated history of add-field
// patches (made active or not), switches of the active version back and forth (also to sibling versions), document
// creates and updates under whatever version is active, and exchanges of all commits between the nodes. After every
// schema operation the documents' identifiers, the values of all fields the old and the new active version share,
// and the commit history must be unchanged (implementation-only oracles); every dump is compared with `drv schema`,
// whose store is keyed by field name and is not touched by schema operations; after exchanges the nodes must agree
// on every field both active versions know.
package main

import (
	"context"
	"encoding/json"
	"fmt"
	"github.com/sourcenetwork/defradb/event"
	"os"
	"runtime/debug"
	"sort"
	"strconv"
	"strings"
	"time"

	"github.com/ipfs/go-cid"
	"github.com/sourcenetwork/immutable"
	"github.com/sourcenetwork/lens/host-go/config/model"

	"github.com/sourcenetwork/defradb/client"
	"github.com/sourcenetwork/defradb/internal/datastore"
	vc "github.com/sourcenetwork/defradb/internal/verifharness/common"
	vnode "github.com/sourcenetwork/defradb/internal/verifharness/node"
)

func must(err error) {
	if err != nil {
		panic(err)
	}
}

type world struct {
	ctx     context.Context
	out     *vc.Out
	caseID  uint64
	nodes   []*vnode.Node
	vlabel  map[string]string // version id -> label
	vid     map[string]string // label -> version id
	docs    map[string]string // label -> docID
	byID    map[string]string
	order   []string
	colID   string
	dropped []map[string]bool // per node: "doc/field" delivered while the node's active version did not know the field
}

func (w *world) close() {
	for _, n := range w.nodes {
		n.Close()
	}
}

func (w *world) label(vid string) string {
	if l, ok := w.vlabel[vid]; ok {
		return l
	}
	l := fmt.Sprintf("v%d", len(w.vlabel)+1)
	w.vlabel[vid] = l
	w.vid[l] = vid
	return l
}

func (w *world) active(n int) (string, []string) {
	col, err := w.nodes[n].DB.GetCollectionByName(w.ctx, "Users")
	must(err)
	var fs []string
	for _, f := range col.Definition().GetFields() {
		if !strings.HasPrefix(f.Name, "_") {
			fs = append(fs, f.Name)
		}
	}
	sort.Strings(fs)
	return col.Version().VersionID, fs
}

type snap struct {
	version string
	fields  []string
	docs    map[string]map[string]string // label -> field -> json value
	commits map[string]bool
	raw     string
}

func (w *world) snapshot(n int) snap {
	vid, fs := w.active(n)
	s := snap{version: vid, fields: fs, docs: map[string]map[string]string{}, commits: map[string]bool{}}
	res := w.nodes[n].GQL(w.ctx, fmt.Sprintf(`query { Users { _docID %s } }`, strings.Join(fs, " ")))
	s.raw = res
	var m map[string][]map[string]any
	if err := json.Unmarshal([]byte(res), &m); err != nil {
		return s
	}
	for _, d := range m["Users"] {
		l := w.byID[fmt.Sprint(d["_docID"])]
		if l == "" {
			l = "?" + fmt.Sprint(d["_docID"])
		}
		s.docs[l] = map[string]string{}
		for _, f := range fs {
			b, _ := json.Marshal(d[f])
			s.docs[l][f] = string(b)
		}
	}
	var cm map[string][]map[string]any
	if json.Unmarshal([]byte(w.nodes[n].GQL(w.ctx, `query { commits { cid docID fieldName height } }`)), &cm) == nil {
		for _, c := range cm["commits"] {
			s.commits[fmt.Sprintf("%v/%v/%v/%v", c["cid"], c["docID"], c["fieldName"], c["height"])] = true
		}
	}
	return s
}

func (s snap) render(w *world) string {
	var ls []string
	for l := range s.docs {
		ls = append(ls, l)
	}
	sort.Strings(ls)
	var parts []string
	for _, l := range ls {
		var fv []string
		for _, f := range s.fields {
			fv = append(fv, f+"="+s.docs[l][f])
		}
		parts = append(parts, l+":{"+strings.Join(fv, ",")+"}")
	}
	if strings.HasPrefix(s.raw, "error") {
		parts = append(parts, strings.ReplaceAll(s.raw, " ", "_"))
	}
	return fmt.Sprintf("%s [%s] %s", w.label(s.version), strings.Join(s.fields, ","), strings.Join(parts, " "))
}

// schemaOp runs a schema operation on node n and checks what the statement promises about existing documents
// everKnown: the fields of every version node n knows
func (w *world) everKnown(n int) map[string]bool {
	out := map[string]bool{}
	cols, err := w.nodes[n].DB.GetCollections(w.ctx, client.CollectionFetchOptions{IncludeInactive: immutable.Some(true)})
	must(err)
	for _, c := range cols {
		if c.Version().CollectionID == w.colID {
			for _, f := range c.Definition().GetFields() {
				out[f.Name] = true
			}
		}
	}
	return out
}

func (w *world) schemaOp(n int, what string, f func() error) string {
	before := w.snapshot(n)
	knownBefore := w.everKnown(n)
	if err := f(); err != nil {
		return "error:" + strings.ReplaceAll(err.Error(), " ", "_")
	}
	after := w.snapshot(n)
	for l, bf := range before.docs {
		af, ok := after.docs[l]
		if !ok {
			w.out.Oracle(w.out.Lines, fmt.Sprintf("[schema-op-loses-document] case %d: after %s document %s is no longer returned (before: %s, after: %s)", w.caseID, what, l, before.render(w), after.render(w)))
			continue
		}
		for f, v := range bf {
			if av, both := af[f]; both && av != v {
				w.out.Oracle(w.out.Lines, fmt.Sprintf("[schema-op-changes-values] case %d: after %s field %s of document %s reads %s, before %s", w.caseID, what, f, l, av, v))
			}
		}
	}
	// a field no version of this node had before reads null for every existing document
	for _, fl := range after.fields {
		if knownBefore[fl] {
			continue
		}
		for l, af := range after.docs {
			if af[fl] != "null" {
				w.out.Oracle(w.out.Lines, fmt.Sprintf("[added-field-not-null] case %d: after %s the new field %s of document %s (written before the field existed) reads %s", w.caseID, what, fl, l, af[fl]))
			}
		}
	}
	for l := range after.docs {
		if _, ok := before.docs[l]; !ok {
			w.out.Oracle(w.out.Lines, fmt.Sprintf("[schema-op-changes-identifiers] case %d: after %s document %s appears that was not returned before", w.caseID, what, l))
		}
	}
	if len(before.commits) == 0 && len(before.docs) > 0 {
		// the commit history could not be listed before the operation (commits of a version this node does not
		// know): nothing to compare
		w.out.Count("history-not-listable")
		after.commits = map[string]bool{}
	}
	for c := range before.commits {
		if !after.commits[c] {
			w.out.Oracle(w.out.Lines, fmt.Sprintf("[schema-op-changes-history] case %d: after %s commit %s is gone", w.caseID, what, c))
		}
	}
	for c := range after.commits {
		if !before.commits[c] {
			w.out.Oracle(w.out.Lines, fmt.Sprintf("[schema-op-changes-history] case %d: after %s commit %s appeared", w.caseID, what, c))
		}
	}
	// label versions that appeared
	cols, err := w.nodes[n].DB.GetCollections(w.ctx, client.CollectionFetchOptions{IncludeInactive: immutable.Some(true)})
	must(err)
	var vids []string
	for _, c := range cols {
		if c.Version().CollectionID == w.colID {
			vids = append(vids, c.Version().VersionID)
		}
	}
	sort.Strings(vids)
	newV := "-"
	for _, v := range vids {
		if _, ok := w.vlabel[v]; !ok {
			newV = w.label(v)
		}
	}
	var actives []string
	for _, c := range cols {
		if c.Version().CollectionID == w.colID && c.Version().IsActive {
			actives = append(actives, w.label(c.Version().VersionID))
		}
	}
	sort.Strings(actives)
	if len(actives) != 1 {
		w.out.Oracle(w.out.Lines, fmt.Sprintf("[several-active-versions] case %d: after %s the versions marked active are %v", w.caseID, what, actives))
	}
	// the version incoming commits are merged under must be the active one
	if mc, err := w.nodes[n].DB.VerifMergeCollectionVersion(w.ctx, w.colID); err == nil && mc != after.version {
		w.out.Oracle(w.out.Lines, fmt.Sprintf("[merge-uses-other-version] case %d: after %s requests use %s but incoming commits are merged under %s", w.caseID, what, w.label(after.version), w.label(mc)))
	}
	return "new=" + newV + " active=" + strings.Join(actives, "+") + " query=" + w.label(after.version)
}

var kinds = map[string]int{"String": 11, "Int": 4, "Boolean": 2}

func gqlInput(js string) string {
	var m map[string]any
	must(json.Unmarshal([]byte(js), &m))
	keys := make([]string, 0, len(m))
	for k := range m {
		keys = append(keys, k)
	}
	sort.Strings(keys)
	var parts []string
	for _, k := range keys {
		b, _ := json.Marshal(m[k])
		parts = append(parts, k+": "+string(b))
	}
	return "{" + strings.Join(parts, ", ") + "}"
}

func (w *world) sync(src, dst int) string {
	// which field commits arrive at a node whose active version does not know the field (they are ignored by design)
	_, dstFields := w.active(dst)
	knows := map[string]bool{"_C": true}
	for _, f := range dstFields {
		knows[f] = true
	}
	var cm map[string][]map[string]any
	if json.Unmarshal([]byte(w.nodes[src].GQL(w.ctx, `query { commits { cid docID fieldName } }`)), &cm) == nil {
		for _, c := range cm["commits"] {
			f := fmt.Sprint(c["fieldName"])
			if knows[f] {
				continue
			}
			cc, err := cid.Decode(fmt.Sprint(c["cid"]))
			if err != nil {
				continue
			}
			if has, _ := datastore.BlockstoreFrom(w.nodes[dst].Root).Has(w.ctx, cc); !has {
				for len(w.dropped) <= dst {
					w.dropped = append(w.dropped, map[string]bool{})
				}
				w.dropped[dst][w.byID[fmt.Sprint(c["docID"])]+"/"+f] = true
				w.out.Count("commits-of-unknown-fields-delivered")
			}
		}
	}
	_, err := vnode.CopyBlocks(w.ctx, w.nodes[src], w.nodes[dst])
	must(err)
	var errs []string
	for _, l := range w.order {
		heads, err := w.nodes[src].Heads(w.ctx, w.docs[l], "C")
		if err != nil {
			continue
		}
		for _, h := range heads {
			if w.caseID%2 == 1 {
				// through the node's own event loop, as a commit received from a peer is
				if why := w.mergeThroughBus(dst, w.docs[l], h.Cid); why != "" {
					errs = append(errs, l+":"+why)
					w.out.Oracle(w.out.Lines, fmt.Sprintf("[merge-error] case %d: merging %s from node %d into node %d through the event bus: %s", w.caseID, l, src, dst, why))
				}
				continue
			}
			if err := w.nodes[dst].DB.VerifExecuteMerge(w.ctx, w.colID, w.docs[l], h.Cid); err != nil {
				errs = append(errs, l+":"+strings.ReplaceAll(err.Error(), " ", "_"))
				w.out.Oracle(w.out.Lines, fmt.Sprintf("[merge-error] case %d: merging %s from node %d into node %d fails: %v", w.caseID, l, src, dst, err))
			}
		}
	}
	if len(errs) > 0 {
		return "error:" + strings.Join(errs, ";")
	}
	return "ok"
}

// mergeThroughBus publishes the merge request the network layer publishes for a received commit and waits for the
// node to report the merge complete
func (w *world) mergeThroughBus(dst int, docID string, c cid.Cid) string {
	bus := w.nodes[dst].DB.Events()
	done, err := bus.Subscribe(event.MergeCompleteName)
	must(err)
	defer bus.Unsubscribe(done)
	bus.Publish(event.NewMessage(event.MergeName, event.Merge{DocID: docID, Cid: c, CollectionID: w.colID}))
	deadline := time.After(10 * time.Second)
	for {
		select {
		case m := <-done.Message():
			if mc, ok := m.Data.(event.MergeComplete); ok && mc.Merge.Cid == c {
				w.out.Count("merges-through-the-event-bus")
				return ""
			}
		case <-deadline:
			return "not_completed_within_10s"
		}
	}
}

func (w *world) agree() string {
	if len(w.nodes) < 2 {
		return "n/a"
	}
	a, b := w.snapshot(0), w.snapshot(1)
	diffs := 0
	for l, af := range a.docs {
		bf, ok := b.docs[l]
		if !ok {
			continue
		}
		for f, v := range af {
			if bv, both := bf[f]; both && bv != v {
				diffs++
				tag := "versions-disagree"
				for _, dm := range w.dropped {
					if dm[l+"/"+f] {
						tag = "field-learned-after-merge"
					}
				}
				w.out.Oracle(w.out.Lines, fmt.Sprintf("["+tag+"] case %d: document %s field %s (known to both active versions %s and %s) reads %s on node 0 and %s on node 1", w.caseID, l, f, w.label(a.version), w.label(b.version), v, bv))
			}
		}
	}
	return fmt.Sprintf("diffs=%d", diffs)
}

func runCase(ctx context.Context, out *vc.Out, lines []string) {
	w := &world{ctx: ctx, out: out, vlabel: map[string]string{}, vid: map[string]string{}, docs: map[string]string{}, byID: map[string]string{}}
	defer w.close()
	defer func() {
		if rr := recover(); rr != nil {
			if os.Getenv("VERIF_STACK") != "" {
				debug.PrintStack()
			}
			out.Oracle(out.Lines, fmt.Sprintf("[panic] case %d: %v", w.caseID, rr))
			out.Emit("panic", strings.ReplaceAll(fmt.Sprint(rr), "\n", " "))
		}
	}()
	noLens := immutable.None[model.Lens]()
	for _, l := range lines {
		t := strings.Fields(l)
		var res string
		switch t[0] {
		case "case":
			id, _ := strconv.ParseUint(t[1], 10, 64)
			w.caseID = id
			res = "ok"
		case "node":
			nd, err := vnode.NewMem(ctx)
			must(err)
			_, err = nd.DB.AddSchema(ctx, `type Users { name: String }`)
			must(err)
			w.nodes = append(w.nodes, nd)
			col, err := nd.DB.GetCollectionByName(ctx, "Users")
			must(err)
			w.colID = col.Version().CollectionID
			vid, _ := w.active(len(w.nodes) - 1)
			res = w.label(vid)
		case "patch": // patch <n> <field> <kind> <setdefault>
			n, _ := strconv.Atoi(t[1])
			p := fmt.Sprintf(`[{ "op": "add", "path": "/Users/Fields/-", "value": {"Name": "%s", "Kind": %d} }]`, t[2], kinds[t[3]])
			res = w.schemaOp(n, l, func() error { return w.nodes[n].DB.PatchSchema(ctx, p, noLens, t[4] == "1") })
		case "active": // active <n> <vlabel>
			n, _ := strconv.Atoi(t[1])
			vid, ok := w.vid[t[2]]
			if !ok {
				res = "error:unknown-version"
				break
			}
			res = w.schemaOp(n, l, func() error { return w.nodes[n].DB.SetActiveSchemaVersion(ctx, vid) })
		case "create": // create <n> <label> <json>
			n, _ := strconv.Atoi(t[1])
			f := strings.SplitN(l, " ", 4)
			r := w.nodes[n].GQL(ctx, fmt.Sprintf(`mutation { create_Users(input: %s) { _docID } }`, gqlInput(f[3])))
			var m map[string][]map[string]any
			if err := json.Unmarshal([]byte(r), &m); err != nil || len(m["create_Users"]) != 1 {
				res = "error:" + strings.ReplaceAll(r, " ", "_")
				break
			}
			id := fmt.Sprint(m["create_Users"][0]["_docID"])
			w.docs[t[2]] = id
			w.byID[id] = t[2]
			w.order = append(w.order, t[2])
			res = "ok"
		case "update": // update <n> <label> <json>
			n, _ := strconv.Atoi(t[1])
			f := strings.SplitN(l, " ", 4)
			r := w.nodes[n].GQL(ctx, fmt.Sprintf(`mutation { update_Users(docID: "%s", input: %s) { _docID } }`, w.docs[t[2]], gqlInput(f[3])))
			if strings.Contains(r, w.docs[t[2]]) {
				res = "ok"
			} else if strings.HasPrefix(r, "error") {
				res = "error"
			} else {
				res = "absent"
			}
		case "dump":
			n, _ := strconv.Atoi(t[1])
			res = w.snapshot(n).render(w)
		case "sync":
			a, _ := strconv.Atoi(t[1])
			b, _ := strconv.Atoi(t[2])
			res = w.sync(a, b)
		case "agree":
			res = w.agree()
		case "raw": // debugging aid: raw stored values of a document by short field id
			n, _ := strconv.Atoi(t[1])
			cs, fs, err := w.nodes[n].DB.VerifShortIDs(ctx, w.colID)
			must(err)
			rd, err := w.nodes[n].RawDoc(ctx, cs, w.docs[t[2]])
			must(err)
			res = fmt.Sprintf("short=%v marker=%q values=%v", fs, rd.Marker, rd.Values)
		default:
			res = "bad-op"
		}
		res = strings.ReplaceAll(res, "\n", " ")
		if len(res) > 600 {
			res = res[:600]
		}
		out.Emit(l, res)
		out.Count(t[0])
	}
}

var fieldPool = []string{"email", "nick", "phone", "city", "zip"}

func val(r *vc.Rng) string { return fmt.Sprintf("%c%c%c", 'a'+r.Intn(4), 'a'+r.Intn(4), 'a'+r.Intn(4)) }

type genNode struct {
	versions map[string][]string // label -> fields
	parent   map[string]string
	active   string
}

func genCase(r *vc.Rng, id uint64) []string {
	lines := []string{fmt.Sprintf("case %d", id), "node 0"}
	two := r.Chance(1, 2)
	if two {
		lines = append(lines, "node 1")
	}
	// the generator mirrors version labels: a version is identified by (parent, added field); labels in order of
	// first appearance over both nodes
	labelOf := map[string]string{"root": "v1"}
	fieldsOf := map[string][]string{"v1": {"name"}}
	nodes := []*genNode{{active: "v1"}, {active: "v1"}}
	known := [][]string{{"v1"}, {"v1"}}
	nn := 1
	if two {
		nn = 2
	}
	ndocs := 0
	var docs []string
	docNode := map[string]int{}
	onNode := []map[string]bool{{}, {}}
	nops := 6 + r.Intn(10)
	for i := 0; i < nops; i++ {
		n := r.Intn(nn)
		g := nodes[n]
		fs := fieldsOf[g.active]
		switch x := r.Intn(12); {
		case x < 3: // patch from the active version
			var cand []string
			for _, f := range fieldPool {
				has := false
				for _, e := range fs {
					has = has || e == f
				}
				if !has {
					cand = append(cand, f)
				}
			}
			if len(cand) == 0 {
				continue
			}
			f := cand[r.Intn(len(cand))]
			setDef := 1
			if r.Chance(1, 4) {
				setDef = 0
			}
			key := g.active + "+" + f
			if _, ok := labelOf[key]; !ok {
				labelOf[key] = fmt.Sprintf("v%d", len(labelOf)+1)
				fieldsOf[labelOf[key]] = append(append([]string{}, fs...), f)
			}
			nl := labelOf[key]
			already := false
			for _, k := range known[n] {
				already = already || k == nl
			}
			if already {
				continue
			}
			lines = append(lines, fmt.Sprintf("patch %d %s String %d", n, f, setDef))
			known[n] = append(known[n], nl)
			if setDef == 1 {
				g.active = nl
			}
		case x < 5 && len(known[n]) > 1: // switch the active version
			to := known[n][r.Intn(len(known[n]))]
			lines = append(lines, fmt.Sprintf("active %d %s", n, to))
			g.active = to
		case x < 8: // create
			l := fmt.Sprintf("d%d", ndocs)
			ndocs++
			var parts []string
			parts = append(parts, fmt.Sprintf(`"name": "%s%d"`, val(r), ndocs))
			for _, f := range fs {
				if f != "name" && r.Chance(2, 3) {
					parts = append(parts, fmt.Sprintf(`"%s": "%s"`, f, val(r)))
				}
			}
			lines = append(lines, fmt.Sprintf("create %d %s {%s}", n, l, strings.Join(parts, ", ")))
			docs = append(docs, l)
			docNode[l] = n
			onNode[n][l] = true
		case x < 10 && len(docs) > 0: // update a document this node has
			var have []string
			for _, d := range docs {
				if onNode[n][d] {
					have = append(have, d)
				}
			}
			if len(have) == 0 {
				continue
			}
			f := fs[r.Intn(len(fs))]
			lines = append(lines, fmt.Sprintf(`update %d %s {"%s": "%s"}`, n, have[r.Intn(len(have))], f, val(r)))
		case two:
			a := r.Intn(2)
			lines = append(lines, fmt.Sprintf("sync %d %d", a, 1-a))
			for d := range onNode[a] {
				onNode[1-a][d] = true
			}
		}
		if r.Chance(1, 3) {
			lines = append(lines, fmt.Sprintf("dump %d", n))
		}
	}
	if two {
		lines = append(lines, "sync 0 1", "sync 1 0", "sync 0 1", "dump 0", "dump 1", "agree")
	} else {
		lines = append(lines, "dump 0")
	}
	return lines
}

func splitCases(lines []string) [][]string {
	var out [][]string
	for _, l := range lines {
		if strings.HasPrefix(l, "case ") || len(out) == 0 {
			out = append(out, nil)
		}
		out[len(out)-1] = append(out[len(out)-1], l)
	}
	return out
}

func main() {
	f := vc.ParseFlags()
	out := vc.NewOut(f.OutDir)
	ctx := context.Background()
	var cases [][]string
	if f.Replay != "" {
		cases = splitCases(vc.ReadLines(f.Replay))
	} else {
		r := vc.NewRng(f.Seed)
		n := 60
		if f.Tier == "thorough" {
			n = 1500
		}
		if f.N > 0 {
			n = f.N
		}
		// directed: sibling versions with data on one of them (v1 -> v2 -> v3a | v3b)
		cases = append(cases, []string{"case 1", "node 0", `create 0 d0 {"name": "ali"}`, "patch 0 email String 1", `create 0 d1 {"name": "bob", "email": "bbb"}`,
			"patch 0 nick String 1", `create 0 d2 {"name": "car", "email": "ccc", "nick": "caz"}`, "dump 0", "active 0 v2", "patch 0 phone String 1", "dump 0",
			`update 0 d2 {"phone": "555"}`, "dump 0", "active 0 v3", "dump 0", "active 0 v4", "dump 0"})
		// directed (delivered through the event bus, odd case id): a node that merged commits of the collection before it
		// was patched receives a commit that writes the added field
		cases = append(cases, []string{"case 1001", "node 0", "node 1", `create 0 d0 {"name": "ali"}`, "sync 0 1", "patch 0 email String 1", "patch 1 email String 1",
			`update 0 d0 {"email": "eee"}`, "sync 0 1", "agree", "dump 1", "patch 0 nick String 1", `update 0 d0 {"nick": "nnn"}`, "patch 1 nick String 1", "sync 0 1", "agree"})
		for i := 0; i < n; i++ {
			cr, _ := r.Fork()
			cases = append(cases, genCase(cr, uint64(i+2)))
		}
	}
	for _, c := range cases {
		runCase(ctx, out, c)
		out.Nontrivial(strings.Join(c[1:], ";"))
	}
	out.Close(map[string]any{"seed": f.Seed, "cases": len(cases)})
}

var _ = client.ErrDocumentNotFoundOrNotAuthorized
