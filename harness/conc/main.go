//go:build verif

// Engine `conc` (C16), built with the race detector: one node; W goroutines issue a generated mix of counter
// increments and register writes on shared documents, creates and deletes of own documents, queries, index creation
// and drops, while commits made on a second node (increments and creates) arrive as merge events; then G goroutines
// share one transaction obtained with NewConcurrentTxn and create documents through it. Every call's outcome is
// recorded (ok / conflict / error). Afterwards the final state is read: counters must equal the sum of the
// acknowledged (and merged) increments, every acknowledged create must exist and every rejected one must not,
// registers must hold a value an acknowledged write wrote. The acknowledged history and the observed final state
// are replayed by `drv conc`. The harness re-executes itself so that the race detector's reports of the run are
// collected and turned into findings.
package main

import (
	"context"
	"encoding/json"
	"fmt"
	"os"
	"os/exec"
	"path/filepath"
	"sort"
	"strconv"
	"strings"
	"sync"
	"time"

	"github.com/ipfs/go-cid"

	"github.com/sourcenetwork/defradb/client"
	"github.com/sourcenetwork/defradb/event"
	"github.com/sourcenetwork/defradb/internal/db"
	vc "github.com/sourcenetwork/defradb/internal/verifharness/common"
	vnode "github.com/sourcenetwork/defradb/internal/verifharness/node"
)

func must(err error) {
	if err != nil {
		panic(err)
	}
}

const schema = `type Acc { name: String
 bal: Int @crdt(type: pcounter)
 note: String }
type Item { k: Int
 v: String }
type Tag { name: String @index
 n: Int }`

type ack struct {
	line string // the history line
}

type world struct {
	ctx     context.Context
	out     *vc.Out
	caseID  uint64
	n       *vnode.Node
	remote  *vnode.Node
	remotes []*vnode.Node // every node commits are made on (independent branches of the same documents)
	accs    []string      // docIDs of the shared accounts
	mu      sync.Mutex
	hist    []string
	panics  int
	burst   bool // deliver the merge events back to back
	onlyInc bool
}

func (w *world) record(l string) {
	w.mu.Lock()
	w.hist = append(w.hist, l)
	w.mu.Unlock()
}

func classify(res string) string {
	switch {
	case strings.Contains(res, "transaction conflict"):
		return "conflict"
	case strings.HasPrefix(res, "error"):
		return "error"
	}
	return "ok"
}

func (w *world) guard(what string) {
	if rr := recover(); rr != nil {
		w.mu.Lock()
		w.panics++
		w.mu.Unlock()
		w.out.Oracle(w.out.Lines, fmt.Sprintf("[panic] case %d: %s panicked: %v", w.caseID, what, rr))
	}
}

// worker runs its planned operations
func (w *world) worker(id int, plan []string, wg *sync.WaitGroup) {
	defer wg.Done()
	own := map[string]string{} // label -> docID of items this worker created
	for seq, op := range plan {
		func() {
			defer w.guard(op)
			t := strings.Fields(op)
			switch t[0] {
			case "inc": // inc <acc> <delta>
				a, _ := strconv.Atoi(t[1])
				res := w.n.GQL(w.ctx, fmt.Sprintf(`mutation { update_Acc(docID: "%s", input: {bal: %s}) { _docID } }`, w.accs[a], t[2]))
				w.record(fmt.Sprintf("ack inc %d %s %s", a, t[2], classify(res)))
			case "set": // set <acc>
				a, _ := strconv.Atoi(t[1])
				v := fmt.Sprintf("w%d-%d", id, seq)
				res := w.n.GQL(w.ctx, fmt.Sprintf(`mutation { update_Acc(docID: "%s", input: {note: "%s"}) { _docID } }`, w.accs[a], v))
				w.record(fmt.Sprintf("ack set %d %s %s", a, v, classify(res)))
			case "create":
				label := fmt.Sprintf("i%d-%d", id, seq)
				res := w.n.GQL(w.ctx, fmt.Sprintf(`mutation { create_Item(input: {k: %d, v: "%s"}) { _docID } }`, id*1000+seq, label))
				c := classify(res)
				if c == "ok" {
					var m map[string][]map[string]any
					if json.Unmarshal([]byte(res), &m) == nil && len(m["create_Item"]) == 1 {
						own[label] = fmt.Sprint(m["create_Item"][0]["_docID"])
					}
				}
				w.record(fmt.Sprintf("ack create %s %s", label, c))
			case "delete":
				for label, docID := range own {
					res := w.n.GQL(w.ctx, fmt.Sprintf(`mutation { delete_Item(docID: "%s") { _docID } }`, docID))
					c := classify(res)
					if c == "ok" && !strings.Contains(res, docID) {
						c = "error"
					}
					w.record(fmt.Sprintf("ack delete %s %s", label, c))
					if c == "ok" {
						delete(own, label)
					}
					break
				}
			case "query":
				res := w.n.GQL(w.ctx, `query { _count(Item: {}) Acc { bal note } Item(filter: {v: {_like: "i%"}}, limit: 3) { k } }`)
				if strings.HasPrefix(res, "error") && !strings.Contains(res, "transaction conflict") {
					w.record("ack query error")
					w.out.Count("query-errors:" + clip(res, 60))
				}
			case "index":
				col, err := w.n.DB.GetCollectionByName(w.ctx, "Item")
				if err == nil {
					_, err = col.CreateIndex(w.ctx, client.IndexCreateRequest{Name: "item_v", Fields: []client.IndexedFieldDescription{{Name: "v"}}})
				}
				w.out.Count("index-create:" + errClass(err))
			case "dropindex":
				col, err := w.n.DB.GetCollectionByName(w.ctx, "Item")
				if err == nil {
					err = col.DropIndex(w.ctx, "item_v")
				}
				w.out.Count("index-drop:" + errClass(err))
			}
		}()
	}
}

func errClass(err error) string {
	if err == nil {
		return "ok"
	}
	if strings.Contains(err.Error(), "transaction conflict") {
		return "conflict"
	}
	return "error"
}

func clip(s string, n int) string {
	if len(s) > n {
		return s[:n]
	}
	return s
}

// remoteWork: increments and creates made on the second node; returns the merge events to deliver
func (w *world) remoteWork(r *vc.Rng, n int) []event.Merge {
	if !w.burst {
		return w.remoteWorkOn(r, w.remote, n, 0)
	}
	// three writers, each with its own branch of the shared documents; their events interleaved
	var per [][]event.Merge
	for i, rn := range w.remotes {
		per = append(per, w.remoteWorkOn(r, rn, n/len(w.remotes), i*1000))
	}
	var out []event.Merge
	for k := 0; ; k++ {
		any := false
		for _, p := range per {
			if k < len(p) {
				out = append(out, p[k])
				any = true
			}
		}
		if !any {
			return out
		}
	}
}

func (w *world) remoteWorkOn(r *vc.Rng, rn *vnode.Node, n int, base int) []event.Merge {
	sub, err := rn.DB.Events().Subscribe(event.UpdateName)
	must(err)
	defer rn.DB.Events().Unsubscribe(sub)
	var out []event.Merge
	collect := func() {
		for {
			select {
			case m := <-sub.Message():
				if u, ok := m.Data.(event.Update); ok {
					out = append(out, event.Merge{DocID: u.DocID, Cid: u.Cid, CollectionID: u.CollectionID})
				}
			case <-time.After(80 * time.Millisecond):
				return
			}
		}
	}
	for i := 0; i < n; i++ {
		if w.onlyInc || r.Chance(2, 3) {
			a := r.Intn(len(w.accs))
			d := 1 + r.Intn(9)
			res := rn.GQL(w.ctx, fmt.Sprintf(`mutation { update_Acc(docID: "%s", input: {bal: %d}) { _docID } }`, w.accs[a], d))
			if classify(res) == "ok" {
				w.record(fmt.Sprintf("remote inc %d %d", a, d))
			}
		} else {
			label := fmt.Sprintf("r%d", base+i)
			res := rn.GQL(w.ctx, fmt.Sprintf(`mutation { create_Item(input: {k: %d, v: "%s"}) { _docID } }`, 900000+base+i, label))
			if classify(res) == "ok" {
				w.record("remote create " + label)
			}
		}
	}
	collect()
	return out
}

func (w *world) runCase(lines []string, seed uint64) {
	defer func() {
		if w.n != nil {
			w.n.Close()
		}
		for _, r := range w.remotes {
			r.Close()
		}
	}()
	r := vc.NewRng(seed)
	var plans [][]string
	nRemote, nShared := 0, 0
	for _, l := range lines {
		t := strings.Fields(l)
		switch t[0] {
		case "case":
			id, _ := strconv.ParseUint(t[1], 10, 64)
			w.caseID = id
			var err error
			w.n, err = vnode.NewMem(w.ctx)
			must(err)
			for i := 0; i < 3; i++ {
				rn, err := vnode.NewMem(w.ctx)
				must(err)
				w.remotes = append(w.remotes, rn)
			}
			w.remote = w.remotes[0]
			for _, nd := range append([]*vnode.Node{w.n}, w.remotes...) {
				_, err = nd.DB.AddSchema(w.ctx, schema)
				must(err)
			}
			w.out.Emit(l, "ok")
		case "accounts":
			k, _ := strconv.Atoi(t[1])
			for i := 0; i < k; i++ {
				// the same document on both nodes (identical content), the counter starts at 0
				js := fmt.Sprintf(`{"name": "acc%d"}`, i)
				var id string
				for _, nd := range append([]*vnode.Node{w.n}, w.remotes...) {
					col, err := nd.DB.GetCollectionByName(w.ctx, "Acc")
					must(err)
					d, err := client.NewDocFromJSON([]byte(js), col.Definition())
					must(err)
					must(col.Create(w.ctx, d))
					id = d.ID().String()
				}
				w.accs = append(w.accs, id)
			}
			w.out.Emit(l, "ok")
		case "plan": // plan <worker> <op> ; <op> ; ...
			plans = append(plans, strings.Split(strings.SplitN(l, " ", 3)[2], " ; "))
			w.out.Emit(l, "ok")
		case "remote":
			nRemote, _ = strconv.Atoi(t[1])
			w.burst = len(t) > 2 && t[2] == "burst"
			w.onlyInc = w.burst
			w.out.Emit(l, "ok")
		case "shared":
			nShared, _ = strconv.Atoi(t[1])
			w.out.Emit(l, "ok")
		case "go":
			w.phaseAPI(r, plans, nRemote)
			w.phaseSharedTxn(nShared)
			w.phaseSharedHandle(nShared)
			w.emitHistory()
		}
	}
}

func (w *world) phaseAPI(r *vc.Rng, plans [][]string, nRemote int) {
	merges := w.remoteWork(r, nRemote)
	for _, rn := range w.remotes {
		_, err := vnode.CopyBlocks(w.ctx, rn, w.n)
		must(err)
	}
	done, err := w.n.DB.Events().Subscribe(event.MergeCompleteName)
	must(err)
	var wg sync.WaitGroup
	for i, p := range plans {
		wg.Add(1)
		go w.worker(i, p, &wg)
	}
	// the merges arrive while the workers run
	wg.Add(1)
	go func() {
		defer wg.Done()
		for _, m := range merges {
			w.n.DB.Events().Publish(event.NewMessage(event.MergeName, m))
			if !w.burst {
				time.Sleep(time.Duration(r.Intn(3)) * time.Millisecond)
			}
		}
	}()
	wg.Wait()
	// wait for the merges to complete (or to have been given up)
	completed := map[cid.Cid]bool{}
	deadline := time.After(8 * time.Second)
	for len(completed) < len(merges) {
		select {
		case m := <-done.Message():
			if mc, ok := m.Data.(event.MergeComplete); ok {
				completed[mc.Merge.Cid] = true
			}
		case <-deadline:
			w.out.Count("merges-not-completed")
			w.record(fmt.Sprintf("merges pending=%d", len(merges)-len(completed)))
			w.n.DB.Events().Unsubscribe(done)
			return
		}
	}
	w.n.DB.Events().Unsubscribe(done)
}

// phaseSharedTxn: G goroutines create documents through one concurrent transaction
func (w *world) phaseSharedTxn(g int) {
	if g == 0 {
		return
	}
	txn, err := w.n.DB.NewConcurrentTxn(w.ctx, false)
	must(err)
	var wg sync.WaitGroup
	results := make([]string, g)
	// the transaction is bound to a context once and the goroutines share that context (as requests handled under one
	// transaction do), or every goroutine binds it to a context of its own
	shared := db.InitContext(w.ctx, txn)
	for i := 0; i < g; i++ {
		wg.Add(1)
		go func(i int) {
			defer wg.Done()
			defer w.guard("shared-transaction create")
			ctx := shared
			if w.caseID%2 == 1 {
				ctx = db.InitContext(w.ctx, txn)
			}
			res := w.n.GQL(ctx, fmt.Sprintf(`mutation { create_Item(input: {k: %d, v: "s%d"}) { _docID } }`, 500000+i, i))
			results[i] = classify(res)
			if results[i] == "error" {
				w.out.Count("shared-create-error:" + clip(res, 80))
			}
		}(i)
	}
	wg.Wait()
	cerr := txn.Commit(w.ctx)
	for i, c := range results {
		if c == "" {
			c = "error"
		}
		if cerr != nil && c == "ok" {
			c = "conflict" // nothing of a transaction whose commit failed may be visible
		}
		w.record(fmt.Sprintf("ack create s%d %s", i, c))
	}
	w.out.Count("shared-commit:" + errClass(cerr))
}

// phaseSharedHandle: G goroutines create (and some delete) documents of an indexed collection through ONE collection
// handle, as an embedding program that keeps the handle in a variable does
func (w *world) phaseSharedHandle(g int) {
	if g == 0 {
		return
	}
	col, err := w.n.DB.GetCollectionByName(w.ctx, "Tag")
	must(err)
	var wg sync.WaitGroup
	for i := 0; i < g; i++ {
		wg.Add(1)
		go func(i int) {
			defer wg.Done()
			defer w.guard("shared-handle create")
			for j := 0; j < 12; j++ {
				label := fmt.Sprintf("h%d-%d", i, j)
				d, err := client.NewDocFromJSON([]byte(fmt.Sprintf(`{"name": "%s", "n": %d}`, label, j)), col.Definition())
				must(err)
				err = col.Create(w.ctx, d)
				c := "ok"
				if err != nil {
					c = classify("error: " + err.Error())
				}
				w.record(fmt.Sprintf("ack create %s %s", label, c))
				if c == "ok" && j%4 == 3 {
					ok, err := col.Delete(w.ctx, d.ID())
					dc := "ok"
					if err != nil {
						dc = classify("error: " + err.Error())
					} else if !ok {
						dc = "error"
					}
					w.record(fmt.Sprintf("ack delete %s %s", label, dc))
				}
			}
		}(i)
	}
	wg.Wait()
	w.out.Count("shared-handle-goroutines:" + strconv.Itoa(g))
}

// emitHistory: the acknowledged history in a canonical order, then the observed final state
func (w *world) emitHistory() {
	sort.Strings(w.hist)
	for _, h := range w.hist {
		w.out.Emit(h, "ok")
		w.out.Count(strings.Join(strings.Fields(h)[:2], " ") + " " + lastField(h))
	}
	res := w.n.GQL(w.ctx, `query { Acc { _docID bal note } Item { v } Tag { name } }`)
	var m struct {
		Acc  []map[string]any
		Item []map[string]any
		Tag  []map[string]any
	}
	if err := json.Unmarshal([]byte(res), &m); err != nil {
		w.out.Emit("final unreadable", clip(res, 200))
		w.out.Oracle(w.out.Lines, fmt.Sprintf("[final-state-unreadable] case %d: %s", w.caseID, clip(res, 300)))
		return
	}
	// the property's own oracle, from the acknowledged history
	sum := map[int]int{}
	okNotes := map[int]map[string]bool{}
	wantItems := map[string]bool{}
	pending := false
	for _, h := range w.hist {
		t := strings.Fields(h)
		switch {
		case t[0] == "ack" && t[1] == "inc" && t[4] == "ok", t[0] == "remote" && t[1] == "inc":
			a, _ := strconv.Atoi(t[2])
			d, _ := strconv.Atoi(t[3])
			sum[a] += d
		case t[0] == "ack" && t[1] == "set" && t[4] == "ok":
			a, _ := strconv.Atoi(t[2])
			if okNotes[a] == nil {
				okNotes[a] = map[string]bool{}
			}
			okNotes[a][t[3]] = true
		case t[0] == "ack" && t[1] == "create" && t[3] == "ok":
			wantItems[t[2]] = true
		case t[0] == "remote" && t[1] == "create":
			wantItems[t[2]] = true
		case t[0] == "merges":
			pending = true
		}
	}
	for _, h := range w.hist {
		t := strings.Fields(h)
		if t[0] == "ack" && t[1] == "delete" && t[3] == "ok" {
			delete(wantItems, t[2])
		}
	}
	for i, id := range w.accs {
		for _, a := range m.Acc {
			if fmt.Sprint(a["_docID"]) == id {
				bal := "0"
				if a["bal"] != nil {
					bal = fmt.Sprint(a["bal"])
				}
				note := "-"
				if a["note"] != nil {
					note = fmt.Sprint(a["note"])
				}
				if bal != strconv.Itoa(sum[i]) {
					tag := "counter-not-sum-of-acknowledged"
					if pending {
						tag = "merge-given-up"
					}
					w.out.Oracle(w.out.Lines, fmt.Sprintf("[%s] case %d: counter of account %d reads %s, the acknowledged and merged increments sum to %d", tag, w.caseID, i, bal, sum[i]))
				}
				if note == "-" && len(okNotes[i]) > 0 || note != "-" && !okNotes[i][note] {
					w.out.Oracle(w.out.Lines, fmt.Sprintf("[register-not-an-acknowledged-write] case %d: note of account %d reads %s, acknowledged writes: %v", w.caseID, i, note, okNotes[i]))
				}
				w.out.Emit(fmt.Sprintf("final counter %d %s", i, bal), "ok")
				w.out.Emit(fmt.Sprintf("final note %d %s", i, note), "ok")
			}
		}
	}
	var items []string
	for _, it := range m.Item {
		items = append(items, fmt.Sprint(it["v"]))
	}
	// documents of the indexed collection count when the scan AND the index lookup for their own value return them
	for _, tg := range m.Tag {
		name := fmt.Sprint(tg["name"])
		via := w.n.GQL(w.ctx, fmt.Sprintf(`query { Tag(filter: {name: {_eq: "%s"}}) { name } }`, name))
		var vm struct{ Tag []map[string]any }
		if json.Unmarshal([]byte(via), &vm) == nil && len(vm.Tag) == 1 && fmt.Sprint(vm.Tag[0]["name"]) == name {
			items = append(items, name)
		} else {
			w.out.Oracle(w.out.Lines, fmt.Sprintf("[index-lost-acknowledged-create] case %d: document %s of the indexed collection is returned by a scan but the index lookup for its value returns %s", w.caseID, name, clip(via, 120)))
		}
	}
	sort.Strings(items)
	got := map[string]bool{}
	for _, it := range items {
		got[it] = true
		if !wantItems[it] {
			w.out.Oracle(w.out.Lines, fmt.Sprintf("[effect-without-acknowledgement] case %d: item %s exists but its create was not acknowledged (or its delete was)", w.caseID, it))
		}
	}
	for it := range wantItems {
		if !got[it] {
			tag := "acknowledged-effect-lost"
			if pending && strings.HasPrefix(it, "r") {
				tag = "merge-given-up"
			}
			w.out.Oracle(w.out.Lines, fmt.Sprintf("[%s] case %d: item %s was acknowledged but is not in the final state", tag, w.caseID, it))
		}
	}
	w.out.Emit("final items "+strings.Join(items, ","), "ok")
	w.out.Emit(fmt.Sprintf("final panics %d", w.panics), "ok")
}

func lastField(s string) string {
	f := strings.Fields(s)
	return f[len(f)-1]
}

func genCase(r *vc.Rng, id uint64) []string {
	lines := []string{fmt.Sprintf("case %d", id), fmt.Sprintf("accounts %d", 1+r.Intn(3))}
	nacc, _ := strconv.Atoi(strings.Fields(lines[1])[1])
	workers := 3 + r.Intn(6)
	for wk := 0; wk < workers; wk++ {
		var ops []string
		for i := 0; i < 6+r.Intn(10); i++ {
			switch x := r.Intn(20); {
			case x < 7:
				ops = append(ops, fmt.Sprintf("inc %d %d", r.Intn(nacc), 1+r.Intn(9)))
			case x < 10:
				ops = append(ops, fmt.Sprintf("set %d", r.Intn(nacc)))
			case x < 14:
				ops = append(ops, "create")
			case x < 16:
				ops = append(ops, "delete")
			case x < 18:
				ops = append(ops, "query")
			case x == 18 && wk == 0:
				ops = append(ops, "index")
			case x == 19 && wk == 0:
				ops = append(ops, "dropindex")
			default:
				ops = append(ops, "query")
			}
		}
		lines = append(lines, fmt.Sprintf("plan %d %s", wk, strings.Join(ops, " ; ")))
	}
	lines = append(lines, fmt.Sprintf("remote %d", 3+r.Intn(8)), fmt.Sprintf("shared %d", 2+r.Intn(6)), "go")
	return lines
}

func splitCases(lines []string) [][]string {
	var out [][]string
	for _, l := range lines {
		if strings.HasPrefix(l, "case ") || len(out) == 0 {
			out = append(out, nil)
		}
		out[len(out)-1] = append(out[len(out)-1], l)
	}
	return out
}

// parent: run the engine as a child so that the race detector's log of the whole run can be read afterwards
func parent(f vc.Flags) {
	logBase := filepath.Join(f.OutDir, "race")
	cmd := exec.Command(os.Args[0], os.Args[1:]...)
	cmd.Env = append(os.Environ(), "VERIF_CONC_CHILD=1", "GORACE=log_path="+logBase+" halt_on_error=0 exitcode=0 history_size=5")
	cmd.Stdout, cmd.Stderr = os.Stdout, os.Stderr
	err := cmd.Run()
	if err != nil {
		fmt.Fprintln(os.Stderr, "child failed:", err)
		os.Exit(1)
	}
	// collect the reports: one finding per distinct pair of top frames
	seen := map[string]bool{}
	var findings []string
	logs, _ := filepath.Glob(logBase + ".*")
	for _, lf := range logs {
		b, _ := os.ReadFile(lf)
		for _, rep := range strings.Split(string(b), "WARNING: DATA RACE")[1:] {
			var frames []string
			for _, ln := range strings.Split(rep, "\n") {
				ln = strings.TrimSpace(ln)
				if strings.HasPrefix(ln, "github.com/") || strings.HasPrefix(ln, "main.") {
					if i := strings.Index(ln, "("); i > 0 {
						ln = ln[:i]
					}
					if !strings.Contains(ln, "verifharness") && !strings.HasPrefix(ln, "main.") {
						frames = append(frames, ln)
					}
				}
				if strings.HasPrefix(ln, "Previous") || strings.HasPrefix(ln, "Goroutine") {
					frames = append(frames, "|")
				}
			}
			key := strings.Join(firstPerSection(frames), " ")
			if !seen[key] {
				seen[key] = true
				findings = append(findings, key)
			}
		}
	}
	sort.Strings(findings)
	if len(findings) > 0 {
		of, err := os.OpenFile(filepath.Join(f.OutDir, "oracle.txt"), os.O_APPEND|os.O_WRONLY, 0o644)
		must(err)
		for _, k := range findings {
			fmt.Fprintf(of, "0\t[data-race] the race detector reports unsynchronised accesses: %s\n", k)
		}
		of.Close()
	}
	// keep the statistics in step with the appended findings
	sp := filepath.Join(f.OutDir, "stats.json")
	var st map[string]any
	if b, err := os.ReadFile(sp); err == nil && json.Unmarshal(b, &st) == nil {
		if v, ok := st["oracle_violations"].(float64); ok {
			st["oracle_violations"] = int(v) + len(findings)
		}
		st["data_race_reports"] = len(findings)
		nb, _ := json.MarshalIndent(st, "", " ")
		_ = os.WriteFile(sp, nb, 0o644)
	}
}

// firstPerSection keeps the innermost repository frame of each access of a report
func firstPerSection(frames []string) []string {
	var out []string
	take := true
	for _, f := range frames {
		if f == "|" {
			take = true
			continue
		}
		if take {
			out = append(out, f)
			take = false
		}
	}
	if len(out) > 2 {
		out = out[:2]
	}
	return out
}

func main() {
	f := vc.ParseFlags()
	if os.Getenv("VERIF_CONC_CHILD") == "" {
		parent(f)
		return
	}
	out := vc.NewOut(f.OutDir)
	ctx := context.Background()
	var cases [][]string
	if f.Replay != "" {
		cases = splitCases(vc.ReadLines(f.Replay))
	} else {
		r := vc.NewRng(f.Seed)
		n := 12
		if f.Tier == "thorough" {
			n = 200
		}
		if f.N > 0 {
			n = f.N
		}
		// directed: many merges of ONE document in flight at once, with local writers on the same document
		for k := 0; k < 2; k++ {
			c := []string{fmt.Sprintf("case %d", k+1), "accounts 1"}
			for wk := 0; wk < 4; wk++ {
				c = append(c, fmt.Sprintf("plan %d inc 0 1 ; query ; inc 0 2 ; set 0 ; inc 0 3", wk))
			}
			cases = append(cases, append(c, "remote 24 burst", "shared 2", "go"))
		}
		for i := 0; i < n; i++ {
			cr, _ := r.Fork()
			cases = append(cases, genCase(cr, uint64(i+3)))
		}
	}
	for i, c := range cases {
		w := &world{ctx: ctx, out: out}
		func() {
			defer func() {
				if rr := recover(); rr != nil {
					out.Oracle(out.Lines, fmt.Sprintf("[panic] case %d: %v", w.caseID, rr))
					out.Emit("panic", strings.ReplaceAll(fmt.Sprint(rr), "\n", " "))
				}
			}()
			w.runCase(c, f.Seed+uint64(i)*7919)
		}()
		out.Nontrivial(strings.Join(c[1:], ";"))
	}
	out.Close(map[string]any{"seed": f.Seed, "cases": len(cases)})
}
