//go:build verif

// Verification hook, mounted into package net at build time with `go build -overlay`.
package net

import (
	"context"
	"net"
	"time"

	"github.com/fxamacker/cbor/v2"
	"github.com/ipfs/boxo/blockservice"
	"github.com/ipfs/go-cid"
	"github.com/libp2p/go-libp2p/core/peer"
	"github.com/libp2p/go-libp2p/p2p/net/swarm"
	"github.com/sourcenetwork/corekv"
	grpcpeer "google.golang.org/grpc/peer"

	"github.com/sourcenetwork/defradb/internal/datastore"
	"github.com/sourcenetwork/defradb/internal/keys"

	coreblock "github.com/sourcenetwork/defradb/internal/core/block"
)

// VerifSyncDAG is the DAG sync entry point of the push-log handler: it stores the received block, loads
// everything it links to through the given block service and verifies every attached signature. The handler
// raises the merge event only if this returns nil.
func VerifSyncDAG(ctx context.Context, bs blockservice.BlockService, block *coreblock.Block) error {
	return syncDAG(ctx, bs, block)
}

// VerifRetryReplicators runs one round of the replicator retry loop as if every retry were due (what
// handleReplicatorRetries does on a tick once the retry interval has elapsed), synchronously: every retry record that
// is not marked as retrying is marked and its retry task is run to completion.
func (p *Peer) VerifRetryReplicators(ctx context.Context) error {
	ps := datastore.PeerstoreFrom(p.db.Rootstore())
	iter, err := ps.Iterator(ctx, corekv.IterOptions{Prefix: []byte(keys.REPLICATOR_RETRY_ID)})
	if err != nil {
		return err
	}
	type due struct {
		key  keys.ReplicatorRetryIDKey
		info retryInfo
	}
	var dues []due
	for {
		ok, err := iter.Next()
		if err != nil || !ok {
			break
		}
		key, err := keys.NewReplicatorRetryIDKeyFromString(string(iter.Key()))
		if err != nil {
			continue
		}
		v, err := iter.Value()
		if err != nil {
			continue
		}
		var ri retryInfo
		if cbor.Unmarshal(v, &ri) != nil || ri.Retrying {
			continue
		}
		dues = append(dues, due{key, ri})
	}
	if err := iter.Close(); err != nil {
		return err
	}
	for _, d := range dues {
		exists, err := ps.Has(ctx, keys.NewReplicatorKey(d.key.PeerID).Bytes())
		if err != nil {
			return err
		}
		if !exists {
			if err := p.deleteReplicatorRetryAndDocs(ctx, d.key.PeerID); err != nil {
				return err
			}
			continue
		}
		if err := p.setReplicatorAsRetrying(ctx, d.key, d.info); err != nil {
			return err
		}
		p.retryReplicator(ctx, d.key.PeerID)
	}
	return nil
}

// VerifClearDialBackoff forgets the dial back-offs for a peer (the passage of the back-off time): the connection
// manager's and the one of the cached gRPC connection.
func (p *Peer) VerifClearDialBackoff(id peer.ID) {
	if sw, ok := p.host.Network().(*swarm.Swarm); ok {
		sw.Backoff().Clear(id)
	}
	// and the connect back-off of the cached gRPC connection to that peer
	p.server.connMu.Lock()
	if conn, ok := p.server.conns[id]; ok {
		conn.ResetConnectBackoff()
		conn.Connect()
	}
	p.server.connMu.Unlock()
}

// VerifSetSyncLinkTimeout sets the time the DAG sync waits for one linked block and returns the previous value. With a
// tiny value a receiver accepts a pushed head and stores it, but every fetch of a block it links to times out: a sync
// cut short by a slow or dropped connection.
func VerifSetSyncLinkTimeout(d time.Duration) time.Duration {
	old := syncBlockLinkTimeout
	syncBlockLinkTimeout = d
	return old
}

// VerifSubscribedTopics lists the pubsub topics the peer is subscribed to right now (the collection topics decide which
// updates of other nodes it hears of).
func (p *Peer) VerifSubscribedTopics() []string {
	p.server.mu.Lock()
	defer p.server.mu.Unlock()
	var out []string
	for name, t := range p.server.topics {
		if t.subscribed {
			out = append(out, name)
		}
	}
	return out
}

type verifAddr string

func (a verifAddr) Network() string { return "libp2p" }
func (a verifAddr) String() string  { return string(a) }

var _ net.Addr = verifAddr("")

// VerifReceivePushLog hands a push-log request to the receive path of the peer exactly as the gRPC handler of a
// replicator push does (processPushlog): decode, DAG sync with signature verification, merge event on success.
func (p *Peer) VerifReceivePushLog(
	ctx context.Context,
	from peer.ID,
	docID string,
	head cid.Cid,
	collectionID string,
	block []byte,
) error {
	ctx = grpcpeer.NewContext(ctx, &grpcpeer.Peer{Addr: verifAddr(from.String())})
	_, err := p.server.processPushlog(ctx, &pushLogRequest{
		DocID:        docID,
		CID:          head.Bytes(),
		CollectionID: collectionID,
		Creator:      from.String(),
		Block:        block,
	}, true)
	return err
}
