//go:build verif

// Verification hook, mounted into package net at build time with `go build -overlay`.
package net

import (
	"context"

	"github.com/ipfs/boxo/blockservice"

	coreblock "github.com/sourcenetwork/defradb/internal/core/block"
)

// VerifSyncDAG is the DAG sync entry point of the push-log handler: it stores the received block, loads
// everything it links to through the given block service and verifies every attached signature. The handler
// raises the merge event only if this returns nil.
func VerifSyncDAG(ctx context.Context, bs blockservice.BlockService, block *coreblock.Block) error {
	return syncDAG(ctx, bs, block)
}
