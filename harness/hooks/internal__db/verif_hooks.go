//go:build verif

// Verification hooks, mounted into package db at build time with `go build -overlay`
// (nothing is committed to the repository). Guard: build tag `verif`.
package db

import (
	"context"

	"github.com/ipfs/go-cid"

	"github.com/sourcenetwork/defradb/event"
	"github.com/sourcenetwork/defradb/internal/db/id"
)

// VerifExecuteMerge runs the merge of one commit synchronously and returns its error
// (what handleMessages does in a goroutine, without the retry loop).
func (db *DB) VerifExecuteMerge(ctx context.Context, collectionID string, docID string, c cid.Cid) error {
	col, err := getCollectionFromCollectionID(ctx, db, collectionID)
	if err != nil {
		return err
	}
	return db.executeMerge(ctx, col, event.Merge{DocID: docID, Cid: c, CollectionID: collectionID})
}

// VerifShortIDs returns the collection short id and the short id of every field of a collection.
func (db *DB) VerifShortIDs(ctx context.Context, collectionID string) (uint32, map[string]uint32, error) {
	ctx, txn, err := ensureContextTxn(ctx, db, true)
	if err != nil {
		return 0, nil, err
	}
	defer txn.Discard(ctx)
	col, err := getCollectionFromCollectionID(ctx, db, collectionID)
	if err != nil {
		return 0, nil, err
	}
	shortID, err := id.GetShortCollectionID(ctx, col.Version().CollectionID)
	if err != nil {
		return 0, nil, err
	}
	out := map[string]uint32{}
	for _, f := range col.Definition().GetFields() {
		fid, err := id.GetShortFieldID(ctx, shortID, f.Name)
		if err != nil {
			continue
		}
		out[f.Name] = fid
	}
	return shortID, out, nil
}

// VerifMergeCollectionVersion returns the version id of the collection version incoming commits are merged under.
func (db *DB) VerifMergeCollectionVersion(ctx context.Context, collectionID string) (string, error) {
	col, err := getCollectionFromCollectionID(ctx, db, collectionID)
	if err != nil {
		return "", err
	}
	return col.Version().VersionID, nil
}
