//go:build verif

// Engine `encr` (C11): a document is created on node A with document-level and/or field-level encryption (or none)
// and then updated, deleted and merged with an unencrypted twin created elsewhere; every written value is a unique
// byte pattern. After every operation the blocks it produced are classified (linked key block: document key,
// field key, none; fresh or inherited) and compared with `drv encr`; `scan` searches every block of A's shared
// blockstore and every update notification handed to the network layer for every written pattern and for the key
// material; `recv nokey` merges A's DAG into a node whose key service is answered with an empty reply and searches
// that node's whole store outside the copied blocks; `recv key` does the same with the real key service
// (internal/kms pubSubService over an in-process transport) and compares what the receiver reads with A.
package main

import (
	"bytes"
	"context"
	"encoding/binary"
	"encoding/hex"
	"encoding/json"
	"fmt"
	"os"
	"runtime/debug"
	"sort"
	"strconv"
	"strings"
	"time"

	"github.com/ipfs/go-cid"
	cidlink "github.com/ipld/go-ipld-prime/linking/cid"
	libpeer "github.com/libp2p/go-libp2p/core/peer"
	rpc "github.com/sourcenetwork/go-libp2p-pubsub-rpc"

	"github.com/sourcenetwork/defradb/acp/dac"
	"github.com/sourcenetwork/defradb/client"
	"github.com/sourcenetwork/defradb/event"
	coreblock "github.com/sourcenetwork/defradb/internal/core/block"
	"github.com/sourcenetwork/defradb/internal/datastore"
	"github.com/sourcenetwork/defradb/internal/kms"
	vc "github.com/sourcenetwork/defradb/internal/verifharness/common"
	vnode "github.com/sourcenetwork/defradb/internal/verifharness/node"
)

const schema = `type Doc {
	a: String @index
	b: String
	n: Int
	blob: Blob
	j: JSON
	arr: [String!]
	pts: Int @crdt(type: pcounter)
}`

var allFields = []string{"a", "arr", "b", "blob", "j", "n", "pts"}

const barrierName = event.Name("verif-barrier")

func must(err error) {
	if err != nil {
		panic(err)
	}
}

// ---- in-process pubsub transport for the real key service ----

type transport struct {
	self    libpeer.ID
	handler rpc.MessageHandler
	peer    *transport // whom requests are sent to; nil: an empty reply (what a peer denying access answers)
}

func (t *transport) AddPubSubTopic(topic string, h rpc.MessageHandler) error {
	t.handler = h
	return nil
}

func (t *transport) SendPubSubMessage(ctx context.Context, topic string, msg []byte) (<-chan rpc.Response, error) {
	ch := make(chan rpc.Response, 1)
	if t.peer == nil || t.peer.handler == nil {
		ch <- rpc.Response{From: "nobody", Data: []byte{0xa0}}
		return ch, nil
	}
	out, err := t.peer.handler(t.self, topic, msg)
	ch <- rpc.Response{From: t.peer.self, Data: out, Err: err}
	return ch, nil
}

type peerNode struct {
	n   *vnode.Node
	col client.Collection
	tr  *transport
	sub event.Subscription
	bar int
}

func newPeer(ctx context.Context, name string) *peerNode {
	nd, err := vnode.NewMem(ctx)
	must(err)
	_, err = nd.DB.AddSchema(ctx, schema)
	must(err)
	col, err := nd.DB.GetCollectionByName(ctx, "Doc")
	must(err)
	tr := &transport{self: libpeer.ID(name)}
	_, err = kms.NewPubSubService(ctx, tr.self, tr, nd.DB.Events(), datastore.EncstoreFrom(nd.Root), dac.NoDocumentACP, nil, "")
	must(err)
	sub, err := nd.DB.Events().Subscribe(event.UpdateName, barrierName)
	must(err)
	return &peerNode{n: nd, col: col, tr: tr, sub: sub}
}

func (p *peerNode) drain() []event.Update {
	var out []event.Update
	p.bar++
	p.n.DB.Events().Publish(event.NewMessage(barrierName, p.bar))
	for {
		select {
		case m := <-p.sub.Message():
			if u, ok := m.Data.(event.Update); ok {
				out = append(out, u)
			} else if n, ok := m.Data.(int); ok && n == p.bar {
				return out
			}
		case <-time.After(20 * time.Second):
			panic("event bus barrier timed out")
		}
	}
}

// ---- secrets ----

type secret struct {
	field string
	op    int
	pats  [][]byte
}

func mix(caseID uint64, op int, field string) uint64 {
	h := caseID*0x9e3779b97f4a7c15 + uint64(op)*0xbf58476d1ce4e5b9
	for _, c := range []byte(field) {
		h = (h ^ uint64(c)) * 0x100000001b3
	}
	h ^= h >> 31
	h *= 0x94d049bb133111eb
	h ^= h >> 29
	return h
}

// value returns the JSON text of the value written for (case, op, field), the Go value for Set, and the byte pattern
// that identifies it in any encoding that stores it in clear.
func value(caseID uint64, op int, field string) (string, any, []byte) {
	h := mix(caseID, op, field)
	str := fmt.Sprintf("ZQ%016x", h)
	switch field {
	case "a", "b":
		return strconv.Quote(str), str, []byte(str)
	case "n", "pts":
		v := int64(1<<48 | (h & (1<<48 - 1)))
		var be [8]byte
		binary.BigEndian.PutUint64(be[:], uint64(v))
		return strconv.FormatInt(v, 10), v, be[:]
	case "blob":
		var raw [12]byte
		binary.BigEndian.PutUint64(raw[:8], h)
		binary.BigEndian.PutUint32(raw[8:], uint32(h>>7))
		hx := hex.EncodeToString(raw[:])
		return strconv.Quote(hx), hx, raw[:]
	case "j":
		return `{"k": "` + str + `"}`, map[string]any{"k": str}, []byte(str)
	case "arr":
		return `["` + str + `", "x"]`, []string{str, "x"}, []byte(str)
	}
	panic("field " + field)
}

// ---- a case ----

type world struct {
	decoyID string // the other document of a list-input create
	ctx     context.Context
	out     *vc.Out
	caseID  uint64
	a       *peerNode
	doc     *client.Document
	docID   string
	colID   string
	secrets []secret
	notes   [][]byte        // blocks handed to the network layer
	seen    map[string]bool // encryption links seen on earlier blocks of the document
	cfgDoc  bool
	cfgFlds map[string]bool
	created map[string]bool // fields set by the creating write
	twinned bool
	opN     int
	final   map[string]string // field -> JSON text of the latest written value (not pts)
	ptsSum  int64
	deleted bool
	others  []*peerNode
}

func (w *world) close() {
	for _, p := range w.others {
		p.n.Close()
	}
	if w.a != nil {
		w.a.n.Close()
	}
}

func parseSet(tok string) []string {
	v := strings.TrimPrefix(tok, "set=")
	if v == "" {
		return nil
	}
	fs := strings.Split(v, ",")
	sort.Strings(fs)
	return fs
}

// classify the blocks of the composite published by the last operation
func (w *world) classify(u event.Update) string {
	nd := w.a.n
	enc := datastore.EncstoreFrom(nd.Root)
	class := func(b *coreblock.Block) string {
		if b.Encryption == nil {
			return "clear"
		}
		raw, err := enc.Get(w.ctx, b.Encryption.Cid)
		if err != nil {
			return "nokeyblock"
		}
		eb, err := coreblock.GetEncryptionBlockFromBytes(raw.RawData())
		must(err)
		c := "doc"
		if eb.FieldName != nil {
			c = "field"
			if b.Delta.GetFieldName() != *eb.FieldName {
				c = "field!" + *eb.FieldName
			}
		}
		if string(eb.DocID) != w.docID {
			c += "!docid"
		}
		if w.seen[b.Encryption.Cid.String()] {
			c += "^"
		}
		return c
	}
	comp, _, err := nd.LoadBlock(w.ctx, u.Cid)
	must(err)
	toks := []string{"C=" + class(comp)}
	var links []string
	var ftoks []string
	for _, l := range comp.Links {
		fb, _, err := nd.LoadBlock(w.ctx, l.Cid)
		must(err)
		ftoks = append(ftoks, l.Name+"="+class(fb))
		if fb.Encryption != nil {
			links = append(links, fb.Encryption.Cid.String())
		}
	}
	sort.Strings(ftoks)
	if comp.Encryption != nil {
		links = append(links, comp.Encryption.Cid.String())
	}
	for _, l := range links {
		w.seen[l] = true
	}
	return strings.Join(append(toks, ftoks...), " ")
}

func (w *world) shouldBeEncrypted(f string) bool { return w.cfgDoc || w.cfgFlds[f] }

func (w *world) record(fs []string) {
	for _, f := range fs {
		txt, v, pat := value(w.caseID, w.opN, f)
		pats := [][]byte{pat}
		if f == "blob" {
			pats = append(pats, []byte(hex.EncodeToString(pat)))
		}
		w.secrets = append(w.secrets, secret{f, w.opN, pats})
		if f == "pts" {
			w.ptsSum += v.(int64)
		} else {
			w.final[f] = txt
		}
	}
}

func (w *world) after() string {
	us := w.a.drain()
	if w.decoyID != "" {
		// the request created a second document next to ours: its notification is not the one judged here
		var own []event.Update
		for _, u := range us {
			if u.DocID != w.decoyID {
				own = append(own, u)
			} else {
				w.notes = append(w.notes, u.Block)
			}
		}
		us = own
	}
	if len(us) != 1 {
		return fmt.Sprintf("events=%d", len(us))
	}
	w.notes = append(w.notes, us[0].Block)
	return w.classify(us[0])
}

func (w *world) create(isDoc bool, flds, set []string) string {
	w.a = newPeer(w.ctx, "peerA")
	w.colID = w.a.col.Version().CollectionID
	w.cfgDoc = isDoc
	for _, f := range flds {
		w.cfgFlds[f] = true
	}
	var parts []string
	for _, f := range set {
		txt, _, _ := value(w.caseID, 0, f)
		parts = append(parts, strconv.Quote(f)+": "+txt)
		w.created[f] = true
	}
	js := "{" + strings.Join(parts, ", ") + "}"
	d, err := client.NewDocFromJSON([]byte(js), w.a.col.Definition())
	must(err)
	var opts []client.DocCreateOption
	if isDoc {
		opts = append(opts, client.CreateDocEncrypted(true))
	}
	if len(flds) > 0 {
		opts = append(opts, client.CreateDocWithEncryptedFields(flds))
	}
	hasJSON := false
	for _, f := range set {
		// JSON objects and integers beyond 32 bits cannot be written as GraphQL literals
		hasJSON = hasJSON || f == "j" || f == "n" || f == "pts"
	}
	if w.caseID%3 == 0 && !hasJSON && len(set) > 0 {
		// through a GraphQL create with a list input: a first document that sets none of the fields, then ours
		var gparts []string
		for _, f := range set {
			txt, _, _ := value(w.caseID, 0, f)
			gparts = append(gparts, f+": "+txt)
		}
		args := ""
		if isDoc {
			args += ", encrypt: true"
		}
		if len(flds) > 0 {
			args += ", encryptFields: [" + strings.Join(flds, ", ") + "]"
		}
		res := w.a.n.GQL(w.ctx, fmt.Sprintf(`mutation { create_Doc(input: [{}, {%s}]%s) { _docID } }`, strings.Join(gparts, ", "), args))
		var m struct {
			Create []struct {
				ID string `json:"_docID"`
			} `json:"create_Doc"`
		}
		if strings.HasPrefix(res, "error") || json.Unmarshal([]byte(res), &m) != nil || len(m.Create) != 2 {
			return "error:" + strings.ReplaceAll(strings.ReplaceAll(res, " ", "_"), "\n", "_")
		}
		other := m.Create[0].ID
		if other == d.ID().String() {
			other = m.Create[1].ID
		}
		w.decoyID = other
		w.out.Count("create-through-graphql-list-input")
	} else if err := w.a.col.Create(w.ctx, d, opts...); err != nil {
		return "error:" + strings.ReplaceAll(err.Error(), " ", "_")
	}
	w.doc = d
	w.docID = d.ID().String()
	w.record(set)
	res := w.after()
	w.opN++
	return res
}

func (w *world) update(set []string) string {
	d, err := w.a.col.Get(w.ctx, w.doc.ID(), false)
	if err != nil {
		return "error:" + strings.ReplaceAll(err.Error(), " ", "_")
	}
	for _, f := range set {
		_, v, _ := value(w.caseID, w.opN, f)
		if f == "arr" {
			var xs []any
			for _, s := range v.([]string) {
				xs = append(xs, s)
			}
			v = xs
		}
		must(d.Set(f, v))
	}
	if err := w.a.col.Update(w.ctx, d); err != nil {
		return "error:" + strings.ReplaceAll(err.Error(), " ", "_")
	}
	w.record(set)
	res := w.after()
	w.opN++
	return res
}

func (w *world) del() string {
	ok, err := w.a.col.Delete(w.ctx, w.doc.ID())
	if err != nil || !ok {
		return fmt.Sprintf("error:%v_%v", ok, err)
	}
	w.deleted = true
	res := w.after()
	w.opN++
	return res
}

// the same document created without encryption on another node arrives at A
func (w *world) twin(set []string) string {
	p := newPeer(w.ctx, "peerP")
	w.others = append(w.others, p)
	var parts []string
	for _, f := range set {
		txt, _, _ := value(w.caseID, 0, f)
		parts = append(parts, strconv.Quote(f)+": "+txt)
	}
	d, err := client.NewDocFromJSON([]byte("{"+strings.Join(parts, ", ")+"}"), p.col.Definition())
	must(err)
	must(p.col.Create(w.ctx, d))
	if d.ID().String() != w.docID {
		return "twin-docid-differs"
	}
	us := p.drain()
	if len(us) != 1 {
		return fmt.Sprintf("events=%d", len(us))
	}
	_, err = vnode.CopyBlocks(w.ctx, p.n, w.a.n)
	must(err)
	if err := w.a.n.DB.VerifExecuteMerge(w.ctx, w.colID, w.docID, us[0].Cid); err != nil {
		return "merge-error:" + strings.ReplaceAll(err.Error(), " ", "_")
	}
	w.twinned = true
	return "ok"
}

func contains(hay [][]byte, pat []byte) bool {
	for _, h := range hay {
		if bytes.Contains(h, pat) {
			return true
		}
	}
	return false
}

func (w *world) leakList(hay [][]byte) []string {
	var out []string
	for _, s := range w.secrets {
		for _, pat := range s.pats {
			if contains(hay, pat) {
				out = append(out, fmt.Sprintf("%s@%d", s.field, s.op))
				break
			}
		}
	}
	sort.Strings(out)
	return out
}

func (w *world) oracleLeaks(where string, leaks []string) {
	for _, l := range leaks {
		f, ops, _ := strings.Cut(l, "@")
		op, _ := strconv.Atoi(ops)
		if !w.shouldBeEncrypted(f) {
			continue
		}
		if w.twinned && op == 0 {
			continue // the creating values were published in clear by the twin's author
		}
		tag := "plaintext-in-shared-store"
		if !w.cfgDoc && !w.created[f] {
			tag = "field-level-first-set-by-update"
		}
		w.out.Oracle(w.out.Lines, fmt.Sprintf("[%s] case %d: the value written to encrypted field %s by operation %d is readable in clear in %s (document-level=%v, encrypted fields=%v, set at creation=%v)",
			tag, w.caseID, f, op, where, w.cfgDoc, keysOf(w.cfgFlds), keysOf(w.created)))
	}
}

func keysOf(m map[string]bool) []string {
	var out []string
	for k := range m {
		out = append(out, k)
	}
	sort.Strings(out)
	return out
}

func (w *world) scan() string {
	kvs, err := w.a.n.ScanRoot(w.ctx, "/db/blocks")
	must(err)
	var hay [][]byte
	for _, kv := range kvs {
		hay = append(hay, kv[1])
	}
	hay = append(hay, w.notes...)
	leaks := w.leakList(hay)
	w.oracleLeaks("node A's shared blockstore or an update notification", leaks)
	// key material stays in the key store
	ekvs, err := w.a.n.ScanRoot(w.ctx, "/db/enc")
	must(err)
	nkeys, keyLeaks := 0, 0
	for _, kv := range ekvs {
		eb, err := coreblock.GetEncryptionBlockFromBytes(kv[1])
		if err != nil || len(eb.Key) == 0 {
			continue
		}
		nkeys++
		if contains(hay, eb.Key) {
			keyLeaks++
			w.out.Oracle(w.out.Lines, fmt.Sprintf("[key-in-shared-store] case %d: an encryption key is present in the shared blockstore or an update notification", w.caseID))
		}
	}
	// every other store of A outside the key store must not hold key blocks either
	all, err := w.a.n.ScanRoot(w.ctx, "/db/blocks")
	must(err)
	for _, kv := range all {
		for _, ek := range ekvs {
			if bytes.Equal(kv[1], ek[1]) {
				keyLeaks++
			}
		}
	}
	if nkeys > 0 {
		w.out.Count("scan-with-keys")
	}
	return fmt.Sprintf("leaks=[%s] keyleaks=%d", strings.Join(leaks, ","), keyLeaks)
}

// the document of the case (a list-input create makes a second one, which is not delivered to the receivers)
func (w *world) readQ() string {
	return fmt.Sprintf(`{ Doc(showDeleted: true, docID: "%s") { _docID _deleted a arr b blob j n pts } }`, w.docID)
}

func (w *world) recv(withKey bool) string {
	name := "peerB"
	if withKey {
		name = "peerC"
	}
	p := newPeer(w.ctx, name)
	w.others = append(w.others, p)
	if withKey {
		p.tr.peer = w.a.tr
	}
	_, err := vnode.CopyBlocks(w.ctx, w.a.n, p.n)
	must(err)
	heads, err := w.a.n.Heads(w.ctx, w.docID, "C")
	must(err)
	for _, h := range heads {
		// the message handler retries a merge that ends in a transaction conflict (the key service stores the
		// fetched key blocks outside the merge transaction)
		var err error
		for try := 0; try < 4; try++ {
			err = p.n.DB.VerifExecuteMerge(w.ctx, w.colID, w.docID, h.Cid)
			if err == nil || !strings.Contains(err.Error(), "transaction conflict") {
				break
			}
			w.out.Count("merge-retries")
		}
		if err != nil {
			return "merge-error:" + strings.ReplaceAll(err.Error(), " ", "_")
		}
	}
	got := p.n.GQL(w.ctx, w.readQ())
	if withKey {
		want := w.a.n.GQL(w.ctx, w.readQ())
		if got == want {
			return "same"
		}
		w.out.Oracle(w.out.Lines, fmt.Sprintf("[key-holder-reads-differently] case %d: a receiver holding the keys reads %s, the author reads %s", w.caseID, got, want))
		return "diff"
	}
	// everything the key-less node stored outside the copied blocks
	kvs, err := p.n.ScanRoot(w.ctx, "/db")
	must(err)
	var hay [][]byte
	for _, kv := range kvs {
		if bytes.HasPrefix(kv[0], []byte("/db/blocks")) {
			continue
		}
		hay = append(hay, kv[0], kv[1])
	}
	var leaks []string
	for _, l := range w.leakList(hay) {
		if !strings.HasPrefix(l, "pts@") {
			leaks = append(leaks, l)
		}
	}
	w.oracleLeaks("the stores of a node that never had the key", leaks)
	vis := 0
	if strings.Contains(got, w.docID) {
		vis = 1
	}
	return fmt.Sprintf("doc=%d stored=[%s]", vis, strings.Join(leaks, ","))
}

func (w *world) read() string {
	got := w.a.n.GQL(w.ctx, w.readQ())
	// expected from what was written
	for f, txt := range w.final {
		var needle string
		switch f {
		case "a", "b":
			needle = txt
		case "n":
			needle = `"n":` + txt
		case "blob":
			needle = txt
		case "j", "arr":
			_, _, pat := value(0, 0, "a")
			_ = pat
			needle = txt[strings.Index(txt, "ZQ") : strings.Index(txt, "ZQ")+18]
		}
		if !strings.Contains(got, needle) {
			w.out.Oracle(w.out.Lines, fmt.Sprintf("[author-reads-differently] case %d: field %s was written as %s, the author reads %s", w.caseID, f, txt, got))
			return "diff:" + f
		}
	}
	// (after a twin merge the counter may or may not count the twin's creating increment as a second one,
	// depending on whether the two blocks are identical; that is not this property's concern)
	if w.ptsSum != 0 && !w.twinned && !strings.Contains(got, `"pts":`+strconv.FormatInt(w.ptsSum, 10)) {
		w.out.Oracle(w.out.Lines, fmt.Sprintf("[author-reads-differently] case %d: counter increments sum to %d, the author reads %s", w.caseID, w.ptsSum, got))
		return "diff:pts"
	}
	return "ok"
}

func runCase(ctx context.Context, out *vc.Out, lines []string) {
	w := &world{ctx: ctx, out: out, seen: map[string]bool{}, cfgFlds: map[string]bool{}, created: map[string]bool{}, final: map[string]string{}}
	defer w.close()
	defer func() {
		if rr := recover(); rr != nil {
			if os.Getenv("VERIF_STACK") != "" {
				debug.PrintStack()
			}
			out.Oracle(out.Lines, fmt.Sprintf("[panic] case %d: %v", w.caseID, rr))
			out.Emit("panic", fmt.Sprint(rr))
		}
	}()
	for _, l := range lines {
		t := strings.Fields(l)
		var res string
		switch t[0] {
		case "case":
			id, _ := strconv.ParseUint(t[1], 10, 64)
			w.caseID = id
			res = "ok"
		case "create":
			isDoc := t[1] == "isdoc=1"
			var flds []string
			if v := strings.TrimPrefix(t[2], "fields="); v != "" {
				flds = strings.Split(v, ",")
			}
			res = w.create(isDoc, flds, parseSet(t[3]))
		case "update":
			res = w.update(parseSet(t[1]))
		case "delete":
			res = w.del()
		case "twin":
			res = w.twin(parseSet(t[1]))
		case "scan":
			res = w.scan()
			// the history of the document, encrypted or not, keeps the height rule (C04)
			for _, why := range w.a.n.CommitHeightProblems(w.ctx, w.docID) {
				out.Oracle(out.Lines, fmt.Sprintf("[dag-height] case %d: %s", w.caseID, why))
			}
		case "recv":
			res = w.recv(t[1] == "key")
		case "read":
			res = w.read()
		default:
			res = "bad-op"
		}
		out.Emit(l, res)
		out.Count(t[0])
		if strings.HasPrefix(res, "error:") || strings.HasPrefix(res, "merge-error:") {
			out.Count("errors")
		}
	}
}

func subset(r *vc.Rng, fs []string, p int) []string {
	var out []string
	for _, f := range fs {
		if r.Chance(p, 100) {
			out = append(out, f)
		}
	}
	return out
}

func genCase(r *vc.Rng, id uint64) []string {
	lines := []string{fmt.Sprintf("case %d", id)}
	mode := r.Intn(10)
	isDoc := 0
	var flds []string
	switch {
	case mode == 0: // no encryption: every value must be found by the scan
	case mode <= 4:
		isDoc = 1
		if r.Chance(1, 4) {
			flds = subset(r, allFields, 30)
		}
	default:
		flds = subset(r, allFields, 45)
		if len(flds) == 0 {
			flds = []string{allFields[r.Intn(len(allFields))]}
		}
	}
	set := subset(r, allFields, 55)
	if len(set) == 0 && !r.Chance(1, 2) {
		// (otherwise: a document created without any value; its fields are first set by updates)
		set = []string{"a"}
	}
	sort.Strings(set)
	lines = append(lines, fmt.Sprintf("create isdoc=%d fields=%s set=%s", isDoc, strings.Join(flds, ","), strings.Join(set, ",")))
	nops := 1 + r.Intn(5)
	twinned, deleted := false, false
	for i := 0; i < nops && !deleted; i++ {
		switch x := r.Intn(12); {
		case x == 0 && !twinned:
			lines = append(lines, "twin set="+strings.Join(set, ","))
			twinned = true
		case x == 1 && i > 0:
			lines = append(lines, "delete")
			deleted = true
		default:
			us := subset(r, allFields, 35)
			if len(us) == 0 {
				us = []string{allFields[r.Intn(len(allFields))]}
			}
			lines = append(lines, "update set="+strings.Join(us, ","))
		}
		if r.Chance(1, 3) {
			lines = append(lines, "scan")
		}
	}
	lines = append(lines, "scan")
	if !deleted {
		lines = append(lines, "read")
	}
	lines = append(lines, "recv nokey", "recv key")
	return lines
}

func splitCases(lines []string) [][]string {
	var out [][]string
	for _, l := range lines {
		if strings.HasPrefix(l, "case ") || len(out) == 0 {
			out = append(out, nil)
		}
		out[len(out)-1] = append(out[len(out)-1], l)
	}
	return out
}

func main() {
	f := vc.ParseFlags()
	out := vc.NewOut(f.OutDir)
	ctx := context.Background()
	var cases [][]string
	if f.Replay != "" {
		cases = splitCases(vc.ReadLines(f.Replay))
	} else {
		r := vc.NewRng(f.Seed)
		n := 60
		if f.Tier == "thorough" {
			n = 1500
		}
		if f.N > 0 {
			n = f.N
		}
		// directed cases first: every field as the only encrypted one, first set by an update; document-level with
		// every field first set by an update; the twin with and without later updates
		id := uint64(1)
		for _, fl := range allFields {
			other := "a"
			if fl == "a" {
				other = "b"
			}
			cases = append(cases, []string{fmt.Sprintf("case %d", id), "create isdoc=1 fields= set=" + other, "update set=" + fl, "update set=" + fl, "scan", "read", "recv nokey", "recv key"})
			id++
			cases = append(cases, []string{fmt.Sprintf("case %d", id), "create isdoc=0 fields=" + fl + " set=" + fl, "twin set=" + fl, "update set=" + fl, "scan", "read", "recv nokey", "recv key"})
			id++
			cases = append(cases, []string{fmt.Sprintf("case %d", id), "create isdoc=0 fields=" + fl + " set=" + other, "update set=" + fl, "scan", "read", "recv nokey", "recv key"})
			id++
		}
		cases = append(cases, []string{fmt.Sprintf("case %d", id), "create isdoc=0 fields= set=a", "update set=a", "delete", "scan", "recv nokey", "recv key"})
		id++
		// a document created without any value under document-level encryption, its fields set by updates only
		cases = append(cases, []string{fmt.Sprintf("case %d", id), "create isdoc=1 fields= set=", "update set=a,b", "update set=a", "scan", "read", "recv nokey", "recv key"})
		id++
		cases = append(cases, []string{fmt.Sprintf("case %d", id), "create isdoc=1 fields= set=a,b", "update set=a", "delete", "scan", "recv nokey", "recv key"})
		id++
		for i := 0; i < n; i++ {
			cr, sub := r.Fork()
			_ = sub
			cases = append(cases, genCase(cr, id))
			id++
		}
	}
	for _, c := range cases {
		runCase(ctx, out, c)
		out.Nontrivial(strings.Join(c[1:], ";"))
	}
	out.Close(map[string]any{"seed": f.Seed, "cases": len(cases)})
}

var _ = cid.Undef
var _ = cidlink.Link{}
