//go:build verif

// Engine `backup` (C18): generated databases (a value collection with every supported kind and edge values,
// a one-to-many relation, a self-referencing one-to-one relation incl. self references and chains) are
// exported (pretty or compact, all or a subset of collections), imported into an empty database with the
// same schema, and compared through GraphQL dumps modulo the old->new identifier mapping recorded in the
// file; the imported database is exported again and the two files compared; a failing import (bad record in
// the middle) must leave the target empty.
package main

import (
	"context"
	"encoding/json"
	"fmt"
	"os"
	"path/filepath"
	"sort"
	"strconv"
	"strings"

	"github.com/sourcenetwork/defradb/client"
	vc "github.com/sourcenetwork/defradb/internal/verifharness/common"
	vnode "github.com/sourcenetwork/defradb/internal/verifharness/node"
)

func must(err error) {
	if err != nil {
		panic(err)
	}
}

const sdl = `type Item {
	name: String
	n: Int
	f: Float
	b: Boolean
	t: DateTime
	blob: Blob
	j: JSON
	tags: [String!]
	nums: [Int!]
	onums: [Int]
	d: Int @default(int: 7)
	ds: String @default(string: "dflt")
}
type Author {
	name: String
	age: Int
	books: [Book]
}
type Book {
	title: String
	author: Author
}
type Emp {
	name: String
	age: Int
	boss: Emp @primary @relation(name: "boss_minion")
	minion: Emp @relation(name: "boss_minion")
	badge: Badge @primary
}
type Badge {
	code: String
	holder: Emp
}`

var ints = []string{"0", "1", "-1", "255", "4294967296", "9007199254740993", "-9007199254740993", "9223372036854775807", "-9223372036854775808", "123456789012345678"}
var floats = []string{"0", "0.5", "-2.25", "1e100", "3.141592653589793", "1.7976931348623157e308", "5e-324", "100", "-0.1"}
var times = []string{`"2021-03-04T05:06:07Z"`, `"2021-03-04T05:06:07.123456789Z"`, `"1999-12-31T23:59:59.5-05:00"`, `"2030-01-01T00:00:00+09:30"`}
var blobs = []string{`"00ff"`, `""`, `"deadbeef"`, `"0a0d"`}
var jsons = []string{`{"a": 1, "b": [true, null, "x"]}`, `[1, 2.5, {"k": "v"}]`, `"str"`, `12345678901234567`, `null`, `{"nested": {"deep": [[]]}}`}
var strs = []string{`""`, `"a"`, `"Ünïcode ✓"`, `"quote\"and\\slash"`, `"line\nbreak"`, `"<html>&"`}

// contentCode stands for an employee's own content (name, age, badge) in the model's symbolic identifiers
func contentCode(emp, age int, badge bool) int {
	c := (emp*1000 + age) * 2
	if badge {
		c++
	}
	return c
}

func pick(r *vc.Rng, xs []string) string { return xs[r.Intn(len(xs))] }

func genItem(r *vc.Rng, i int) string {
	var p []string
	p = append(p, fmt.Sprintf(`"name": "item%d"`, i))
	add := func(k string, pool []string) {
		switch r.Intn(5) {
		case 0: // omitted
		case 1:
			p = append(p, fmt.Sprintf(`"%s": null`, k))
		default:
			p = append(p, fmt.Sprintf(`"%s": %s`, k, pick(r, pool)))
		}
	}
	add("n", ints)
	add("f", floats)
	add("b", []string{"true", "false"})
	add("t", times)
	add("blob", blobs)
	add("j", jsons)
	// fields with a default: omitted takes the default, an explicit null stays null
	add("d", ints[:4])
	add("ds", strs)
	if r.Chance(3, 5) {
		p = append(p, `"tags": [`+pick(r, strs)+`, `+pick(r, strs)+`]`)
	}
	if r.Chance(3, 5) {
		p = append(p, `"nums": [`+pick(r, ints)+`, `+pick(r, ints)+`]`)
	}
	if r.Chance(2, 5) {
		p = append(p, `"onums": [`+pick(r, ints)+`, null]`)
	}
	return "{" + strings.Join(p, ", ") + "}"
}

const dumpQ = `query {
	Item { _docID name n f b t blob j tags nums onums d ds }
	Author { _docID name age books { _docID } }
	Book { _docID title author { _docID } }
	Emp { _docID name age boss { _docID } minion { _docID } badge { _docID } }
	Badge { _docID code holder { _docID } }
}`

// dump returns, per collection, the documents keyed by docID with every id replaced through mapID.
func dump(ctx context.Context, n *vnode.Node, mapID func(string) string) (map[string]map[string]string, string) {
	s := n.GQL(ctx, dumpQ)
	if strings.HasPrefix(s, "error:") {
		return nil, s
	}
	var m map[string][]map[string]any
	dec := json.NewDecoder(strings.NewReader(s))
	dec.UseNumber()
	must(dec.Decode(&m))
	out := map[string]map[string]string{}
	var rewrite func(v any) any
	rewrite = func(v any) any {
		switch t := v.(type) {
		case map[string]any:
			for k, x := range t {
				if k == "_docID" {
					t[k] = mapID(fmt.Sprint(x))
				} else {
					t[k] = rewrite(x)
				}
			}
			return t
		case []any:
			for i := range t {
				t[i] = rewrite(t[i])
			}
			// related-document lists have no defined order
			if len(t) > 0 {
				if _, isObj := t[0].(map[string]any); isObj {
					sort.Slice(t, func(i, j int) bool { return fmt.Sprint(t[i]) < fmt.Sprint(t[j]) })
				}
			}
			return t
		}
		return v
	}
	for col, docs := range m {
		out[col] = map[string]string{}
		for _, d := range docs {
			id := mapID(fmt.Sprint(d["_docID"]))
			delete(d, "_docID")
			rewrite(d)
			b, _ := json.Marshal(d)
			out[col][id] = string(b)
		}
	}
	return out, ""
}

func newNode(ctx context.Context) *vnode.Node {
	n, err := vnode.NewMem(ctx)
	must(err)
	_, err = n.DB.AddSchema(ctx, sdl)
	must(err)
	return n
}

func runCase(ctx context.Context, out *vc.Out, r *vc.Rng, caseID int, dir string) {
	src := newNode(ctx)
	defer src.Close()
	var desc []string
	create := func(col string, js string) string {
		c, err := src.DB.GetCollectionByName(ctx, col)
		must(err)
		d, err := client.NewDocFromJSON([]byte(js), c.Definition())
		if err != nil {
			panic(fmt.Sprintf("%s: %v", js, err))
		}
		must(c.Create(ctx, d))
		return d.ID().String()
	}
	nItems := r.Intn(6)
	var items []string
	for i := 0; i < nItems; i++ {
		js := genItem(r, caseID*100+i)
		desc = append(desc, js)
		items = append(items, create("Item", js))
	}
	// deleted documents are not part of a backup (and must not make the export fail)
	nDeleted := 0
	if r.Chance(1, 3) {
		icol, err := src.DB.GetCollectionByName(ctx, "Item")
		must(err)
		for _, id := range items {
			if r.Chance(1, 2) {
				did, _ := client.NewDocIDFromString(id)
				_, err := icol.Delete(ctx, did)
				must(err)
				nDeleted++
			}
		}
	}
	// one-to-many
	nAuthors := r.Intn(3)
	var authors []string
	for i := 0; i < nAuthors; i++ {
		authors = append(authors, create("Author", fmt.Sprintf(`{"name": "author%d", "age": %s}`, i, pick(r, ints[:5]))))
	}
	nBooks := r.Intn(5)
	for i := 0; i < nBooks; i++ {
		if len(authors) > 0 && r.Chance(3, 4) {
			create("Book", fmt.Sprintf(`{"title": "book%d", "author_id": "%s"}`, i, authors[r.Intn(len(authors))]))
		} else {
			create("Book", fmt.Sprintf(`{"title": "book%d"}`, i))
		}
	}
	// self-referencing one-to-one: chains, a self reference, and later updates (which make _docID != _docIDNew)
	ecol, err := src.DB.GetCollectionByName(ctx, "Emp")
	must(err)
	nEmp := r.Intn(5)
	bossOf := map[string]string{}
	var emps []string
	sym := map[string]string{} // real identifier -> symbolic identifier of the model (content at creation . symbolic id of the boss at creation)
	empNo := map[string]int{}  // real identifier -> number of the employee
	hasBadge := map[int]bool{}
	for i := 0; i < nEmp; i++ {
		js := fmt.Sprintf(`{"name": "emp%d", "age": %d`, i, 20+i)
		if r.Chance(1, 2) {
			// the primary side of a second, one-to-one relation (an import that re-saves the employee must not trip over
			// its own link)
			js += fmt.Sprintf(`, "badge_id": "%s"`, create("Badge", fmt.Sprintf(`{"code": "b%d-%d"}`, caseID, i)))
			hasBadge[i] = true
		}
		boss := ""
		if len(emps) > 0 && r.Chance(1, 2) {
			// boss = an earlier employee that has no minion yet (one-to-one)
			boss = emps[len(emps)-1]
			js += fmt.Sprintf(`, "boss_id": "%s"`, boss)
		}
		js += "}"
		id := create("Emp", js)
		sym[id] = strconv.Itoa(contentCode(i, 20+i, hasBadge[i]))
		if boss != "" {
			bossOf[id] = boss
			sym[id] += "." + sym[boss]
		}
		empNo[id] = i
		emps = append(emps, id)
	}
	for _, id := range emps {
		if r.Chance(1, 3) {
			did, _ := client.NewDocIDFromString(id)
			d, err := ecol.Get(ctx, did, false)
			must(err)
			switch r.Intn(3) {
			case 0:
				must(d.Set("age", int64(60+r.Intn(9))))
			case 1:
				must(d.Set("boss_id", id)) // self reference
			default:
				must(d.Set("boss_id", id))
				_ = ecol.Update(ctx, d)
				d, err = ecol.Get(ctx, did, false)
				must(err)
				must(d.Set("age", int64(70+r.Intn(9))))
			}
			_ = ecol.Update(ctx, d) // a one-to-one violation is rejected; fine
		}
	}
	// an employee leaves: whoever had them as boss keeps a key that no longer resolves
	if nEmp > 0 && r.Chance(1, 5) {
		did, _ := client.NewDocIDFromString(emps[r.Intn(len(emps))])
		_, err := ecol.Delete(ctx, did)
		must(err)
		out.Count("with-deleted-employee")
	}
	// the employees as stored now
	type empState struct {
		id, boss string
		content  int
	}
	live := map[string]empState{}
	for _, id := range emps {
		did, _ := client.NewDocIDFromString(id)
		d, err := ecol.Get(ctx, did, false)
		if err != nil {
			continue // deleted
		}
		st := empState{id: id}
		age, err := d.Get("age")
		must(err)
		st.content = contentCode(empNo[id], int(age.(int64)), hasBadge[empNo[id]])
		if b, err := d.Get("boss_id"); err == nil && b != nil {
			st.boss = b.(string)
		}
		live[id] = st
	}
	// the hypothesis of the round-trip theorem (Backup/Export.lean noChain): no referenced document references another
	// live document; beyond it lies the known finding (the exporter recomputes the identifier of a referenced document
	// without that document's own reference)
	noChain := true
	for _, d := range live {
		if d.boss == "" || d.boss == d.id {
			continue
		}
		if t, ok := live[d.boss]; ok && t.boss != "" && t.boss != t.id {
			if _, ok := live[t.boss]; ok {
				noChain = false
			}
		}
	}
	deepChain := !noChain
	tag := func(t, col string) string {
		if deepChain && col == "Emp" {
			return "export-self-reference-chain"
		}
		return t
	}
	pretty := r.Bool()
	file := filepath.Join(dir, fmt.Sprintf("export%d.json", caseID))
	cfg := &client.BackupConfig{Filepath: file, Pretty: pretty}
	subset := r.Chance(1, 4)
	if subset {
		cfg.Collections = []string{"Item", "Emp", "Badge"}
	}
	line := out.Lines
	out.Emit(fmt.Sprintf("case %d items=%d authors=%d books=%d emps=%d pretty=%v subset=%v", caseID, nItems, nAuthors, nBooks, nEmp, pretty, subset), "ok")
	out.Nontrivial(fmt.Sprintf("case%d", caseID))
	out.Count(fmt.Sprintf("pretty:%v", pretty))
	if nDeleted > 0 {
		out.Count("with-deleted-documents")
	}
	if err := src.DB.BasicExport(ctx, cfg); err != nil {
		out.Oracle(line, fmt.Sprintf("[export-error] case %d: export fails: %v", caseID, err))
		return
	}
	raw, err := os.ReadFile(file)
	must(err)
	// old -> new identifier mapping recorded in the file
	var exported map[string][]map[string]any
	dec := json.NewDecoder(strings.NewReader(string(raw)))
	dec.UseNumber()
	if err := dec.Decode(&exported); err != nil {
		out.Oracle(line, fmt.Sprintf("[export-not-json] case %d: %v", caseID, err))
		return
	}
	idmap := map[string]string{}
	for _, docs := range exported {
		for _, d := range docs {
			idmap[fmt.Sprint(d["_docID"])] = fmt.Sprint(d["_docIDNew"])
		}
	}
	// the self-referencing collection, record by record, against the mirror of the exporter
	recs := exported["Emp"]
	symOf := func(real string) string {
		if s, ok := sym[real]; ok {
			return s
		}
		return "999999" // an identifier that belongs to no employee
	}
	for _, rec := range recs {
		st, ok := live[fmt.Sprint(rec["_docID"])]
		if !ok {
			out.Oracle(line, fmt.Sprintf("[export-unknown-document] case %d: the export holds %v, which is not a live employee", caseID, rec["_docID"]))
			continue
		}
		b := "~"
		if st.boss != "" {
			b = symOf(st.boss)
		}
		out.Emit(fmt.Sprintf("emp %s %d %s", symOf(st.id), st.content, b), "ok")
	}
	if len(recs) != len(live) {
		out.Oracle(line, fmt.Sprintf("[export-lost-document] case %d: %d live employees, %d exported", caseID, len(live), len(recs)))
	}
	str := func(v any) string {
		if v == nil {
			return ""
		}
		return fmt.Sprint(v)
	}
	var sig []string
	roundTrip := true
	for _, rec := range recs {
		p := "diff"
		if str(rec["_docIDNew"]) == str(rec["_docID"]) {
			p = "same"
		}
		fk := str(rec["boss_id"])
		pat := "dangling"
		if fk == "" {
			pat = "none"
		} else {
			found := false
			for j, o := range recs {
				if str(o["_docIDNew"]) == fk {
					pat, found = fmt.Sprintf("new%d", j), true
					break
				}
			}
			if !found {
				for j, o := range recs {
					if str(o["_docID"]) == fk {
						pat = fmt.Sprintf("old%d", j)
						break
					}
				}
			}
		}
		// what the key has to be: the recorded new identifier of the live employee it referenced
		want := ""
		if st := live[str(rec["_docID"])]; st.boss != "" {
			if _, ok := live[st.boss]; ok {
				want = idmap[st.boss]
			}
		}
		if fk != want {
			roundTrip = false
		}
		sig = append(sig, p+":"+pat)
	}
	out.Emit("export", strings.Join(sig, " ")+fmt.Sprintf(" | hyp=%v", noChain))
	dst := newNode(ctx)
	defer dst.Close()
	if err := dst.DB.BasicImport(ctx, file); err != nil {
		out.Oracle(line, fmt.Sprintf("[import-error] case %d: import of the exported file fails: %v", caseID, err))
		return
	}
	// the imported employees, record by record, against the mirror of the importer
	{
		dcol, err := dst.DB.GetCollectionByName(ctx, "Emp")
		must(err)
		type imp struct{ id, boss string }
		byName := map[string]imp{}
		ch, err := dcol.GetAllDocIDs(ctx)
		must(err)
		var ids []client.DocID
		for rr := range ch {
			ids = append(ids, rr.ID)
		}
		for _, did := range ids {
			d, err := dcol.Get(ctx, did, false)
			must(err)
			nm, _ := d.Get("name")
			im := imp{id: did.String()}
			if b, err := d.Get("boss_id"); err == nil && b != nil {
				im.boss = b.(string)
			}
			byName[fmt.Sprint(nm)] = im
		}
		var isig []string
		for _, rec := range recs {
			im, ok := byName[str(rec["name"])]
			if !ok {
				isig = append(isig, "missing")
				roundTrip = false
				continue
			}
			p := "id=other"
			for j, o := range recs {
				if str(o["_docIDNew"]) == im.id {
					p = fmt.Sprintf("id=new%d", j)
					break
				}
			}
			if im.id != str(rec["_docIDNew"]) || im.boss != str(rec["boss_id"]) {
				roundTrip = false
			}
			b := "none"
			if im.boss != "" {
				b = "dangling"
				for j, o := range recs {
					if byName[str(o["name"])].id == im.boss {
						b = fmt.Sprintf("doc%d", j)
						break
					}
				}
			}
			isig = append(isig, p+":"+b)
		}
		out.Emit("import", strings.Join(isig, " ")+fmt.Sprintf(" | roundtrip=%v", roundTrip))
		if noChain && !roundTrip {
			out.Oracle(line, fmt.Sprintf("[round-trip-theorem-refuted-on-the-implementation] case %d: no chain of three employees, yet the exported keys or imported identifiers are not the recorded ones", caseID))
		}
	}
	want, e1 := dump(ctx, src, func(id string) string {
		if n, ok := idmap[id]; ok {
			return n
		}
		return id
	})
	got, e2 := dump(ctx, dst, func(id string) string { return id })
	if e1 != "" || e2 != "" {
		out.Oracle(line, fmt.Sprintf("[dump-error] case %d: %s %s", caseID, e1, e2))
		return
	}
	cols := []string{"Item", "Author", "Book", "Emp", "Badge"}
	if subset {
		cols = []string{"Item", "Emp", "Badge"}
	}
	for _, col := range cols {
		for id, w := range want[col] {
			g, ok := got[col][id]
			if !ok {
				out.Oracle(line, fmt.Sprintf("[%s] case %d: %s document %s (new id) is missing after import; source: %s", tag("import-lost-document", col), caseID, col, id, w))
			} else if g != w {
				out.Oracle(line, fmt.Sprintf("[%s] case %d: %s document %s exported as %s but imported as %s", tag("import-changes-value", col), caseID, col, id, w, g))
			}
		}
		for id := range got[col] {
			if _, ok := want[col][id]; !ok {
				out.Oracle(line, fmt.Sprintf("[%s] case %d: %s document %s exists only in the imported database", tag("import-extra-document", col), caseID, col, id))
			}
		}
	}
	// exporting the imported database again gives an equivalent file (ids are stable now: _docID == _docIDNew)
	file2 := filepath.Join(dir, fmt.Sprintf("reexport%d.json", caseID))
	cfg2 := *cfg
	cfg2.Filepath = file2
	if err := dst.DB.BasicExport(ctx, &cfg2); err != nil {
		out.Oracle(line, fmt.Sprintf("[export-error] case %d: re-export fails: %v", caseID, err))
		return
	}
	raw2, _ := os.ReadFile(file2)
	var re map[string][]map[string]any
	dec2 := json.NewDecoder(strings.NewReader(string(raw2)))
	dec2.UseNumber()
	must(dec2.Decode(&re))
	norm := func(x map[string][]map[string]any, useNew bool) map[string]string {
		o := map[string]string{}
		for col, docs := range x {
			for _, d := range docs {
				id := fmt.Sprint(d["_docIDNew"])
				c := map[string]any{}
				for k, v := range d {
					if k == "_docID" || k == "_docIDNew" {
						continue
					}
					if v == nil && k != "d" && k != "ds" {
						// a null and a missing key are the same content, except for a field with a default value
						continue
					}
					c[k] = v
				}
				b, _ := json.Marshal(c)
				o[col+"/"+id] = string(b)
			}
		}
		return o
	}
	a, b := norm(exported, true), norm(re, true)
	for k, v := range a {
		if b[k] != v {
			out.Oracle(line, fmt.Sprintf("[%s] case %d: %s exported as %s, after import exported as %s", tag("reexport-differs", strings.SplitN(k, "/", 2)[0]), caseID, k, v, b[k]))
		}
	}
	for k := range b {
		if _, ok := a[k]; !ok {
			out.Oracle(line, fmt.Sprintf("[%s] case %d: %s appears only in the second export", tag("reexport-differs", strings.SplitN(k, "/", 2)[0]), caseID, k))
		}
	}
	// atomicity: an import file whose last record is invalid must leave an empty target
	if nItems > 0 {
		bad := strings.Replace(string(raw), `"name"`, `"name"`, 1)
		var ex2 map[string][]map[string]any
		_ = json.Unmarshal([]byte(bad), &ex2)
		ex2["Item"] = append(ex2["Item"], map[string]any{"n": "not-an-int"})
		bb, _ := json.Marshal(ex2)
		badFile := filepath.Join(dir, fmt.Sprintf("bad%d.json", caseID))
		must(os.WriteFile(badFile, bb, 0o644))
		dst2 := newNode(ctx)
		defer dst2.Close()
		err := dst2.DB.BasicImport(ctx, badFile)
		d2, _ := dump(ctx, dst2, func(id string) string { return id })
		total := 0
		for _, c := range d2 {
			total += len(c)
		}
		if err == nil {
			out.Oracle(line, fmt.Sprintf("[import-accepts-bad-record] case %d: import of a file with an invalid record reports success", caseID))
		} else if total != 0 {
			out.Oracle(line, fmt.Sprintf("[import-not-atomic] case %d: failed import left %d documents behind", caseID, total))
		}
		// a file cut short (an interrupted copy) between two tokens — after a complete document, after the comma that
		// follows it, after the closing bracket of a collection — is not the export: nothing of it may be imported
		cuts := truncationPoints(string(raw))
		for ci, cut := range cuts {
			if ci >= 4 {
				break
			}
			cutFile := filepath.Join(dir, fmt.Sprintf("cut%d_%d.json", caseID, ci))
			must(os.WriteFile(cutFile, raw[:cut.at], 0o644))
			dst3 := newNode(ctx)
			err := dst3.DB.BasicImport(ctx, cutFile)
			d3, _ := dump(ctx, dst3, func(id string) string { return id })
			dst3.Close()
			_ = os.Remove(cutFile)
			left := 0
			for _, c := range d3 {
				left += len(c)
			}
			out.Count("truncated-import:" + cut.what)
			if err == nil || left != 0 {
				out.Oracle(line, fmt.Sprintf("[import-truncated-%s] case %d: import of an export cut short %s: error=%v, documents left in the database=%d", cut.tag, caseID, cut.what, err, left))
			}
		}
	}
}

type cutPoint struct {
	at        int
	what, tag string
}

// truncationPoints finds places between two JSON tokens of an export file {"Col":[{..},{..}],"Col2":[..]} at which
// the text so far is a proper prefix: after a top-level document of a collection, after the comma following it, after
// the closing bracket of a collection that is not the last
func truncationPoints(s string) []cutPoint {
	var out []cutPoint
	depth := 0
	inStr, esc := false, false
	for i := 0; i < len(s); i++ {
		c := s[i]
		if inStr {
			switch {
			case esc:
				esc = false
			case c == '\\':
				esc = true
			case c == '"':
				inStr = false
			}
			continue
		}
		switch c {
		case '"':
			inStr = true
		case '{', '[':
			depth++
		case '}', ']':
			depth--
			if c == '}' && depth == 2 && i+1 < len(s) {
				out = append(out, cutPoint{i + 1, "after a complete document", "document"})
				if s[i+1] == ',' {
					out = append(out, cutPoint{i + 2, "after the comma that follows a document", "document"})
				}
			}
			if c == ']' && depth == 1 && i+1 < len(s) && s[i+1] == ',' {
				out = append(out, cutPoint{i + 1, "after the closing bracket of a collection", "collection"})
			}
		}
	}
	// spread: first, last and two in between
	if len(out) > 4 {
		out = []cutPoint{out[0], out[len(out)/3], out[2*len(out)/3], out[len(out)-1]}
	}
	return out
}

func main() {
	f := vc.ParseFlags()
	out := vc.NewOut(f.OutDir)
	ctx := context.Background()
	r := vc.NewRng(f.Seed)
	n := 40
	if f.Tier == "thorough" {
		n = 1500
	}
	if f.N > 0 {
		n = f.N
	}
	for i := 0; i < n; i++ {
		cr, _ := r.Fork()
		func() {
			defer func() {
				if rr := recover(); rr != nil {
					out.Oracle(out.Lines, fmt.Sprintf("[panic] case %d: %v", i, rr))
				}
			}()
			runCase(ctx, out, cr, i, f.OutDir)
		}()
	}
	out.Close(map[string]any{"seed": f.Seed, "cases": n})
}
