//go:build verif

package main

import (
	"context"
	"encoding/json"
	"fmt"
	"os"

	vnode "github.com/sourcenetwork/defradb/internal/verifharness/node"
)

func main() {
	ctx := context.Background()
	n, err := vnode.NewMem(ctx)
	if err != nil {
		panic(err)
	}
	defer n.Close()
	_, err = n.DB.AddSchema(ctx, `type Author { name: String
 x: Int
 books: [Book] }
type Book { name: String
 x: Int
 s: Int
 author: Author }`)
	if err != nil {
		panic(err)
	}
	run := func(q string) {
		res := n.DB.ExecRequest(ctx, q)
		b, _ := json.Marshal(res.GQL.Data)
		fmt.Println(q, "=>", string(b), res.GQL.Errors)
	}
	run(`mutation { create_Author(input: {name: "A", x: 1}) { _docID } }`)
	res := n.DB.ExecRequest(ctx, `query { Author { _docID } }`)
	b, _ := json.Marshal(res.GQL.Data)
	var m map[string][]map[string]any
	_ = json.Unmarshal(b, &m)
	aid := m["Author"][0]["_docID"]
	for i, d := range []string{`name: "a", x: 1, s: 1`, `name: "a", x: 2, s: 2`, `name: "b", x: 1, s: 3`, `name: "c", x: 3, s: 4`} {
		_ = i
		run(fmt.Sprintf(`mutation { create_Book(input: {%s, author_id: "%s"}) { s } }`, d, aid))
	}
	for _, q := range os.Args[1:] {
		run(q)
	}
}
