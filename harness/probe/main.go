//go:build verif

package main

import (
	"context"
	"fmt"
	"sort"

	"github.com/sourcenetwork/defradb/client"
	vnode "github.com/sourcenetwork/defradb/internal/verifharness/node"
)

func ids(ctx context.Context, batches ...string) {
	n, err := vnode.NewMem(ctx)
	if err != nil {
		panic(err)
	}
	defer n.Close()
	for _, b := range batches {
		if _, err := n.DB.AddSchema(ctx, b); err != nil {
			fmt.Println("  error:", err)
			return
		}
	}
	cols, _ := n.DB.GetCollections(ctx, client.CollectionFetchOptions{})
	var ls []string
	for _, c := range cols {
		ls = append(ls, fmt.Sprintf("   %s %s", c.Name(), c.Version().VersionID))
	}
	sort.Strings(ls)
	for _, l := range ls {
		fmt.Println(l)
	}
}

func main() {
	ctx := context.Background()
	cyc := "type Bee { name: String\n r1dog: Dog }\ntype Dog { name: String\n r1cat: Cat }\ntype Cat { name: String\n r1bee: Bee }\n"
	ant := "type Ant { name: String\n r1dog: Dog\n r2bee: Bee }\n"
	fmt.Println("cycle alone")
	ids(ctx, cyc)
	fmt.Println("cycle + Ant, one call")
	ids(ctx, cyc+ant)
	fmt.Println("cycle, then Ant")
	ids(ctx, cyc, ant)
	ant1 := "type Ant { name: String\n r1dog: Dog }\n"
	fmt.Println("cycle + Ant(1 ref), one call")
	ids(ctx, cyc+ant1)
}
