//go:build verif

package main

import (
	"context"
	"fmt"

	"github.com/sourcenetwork/defradb/client"
	vnode "github.com/sourcenetwork/defradb/internal/verifharness/node"
)

func main() {
	ctx := context.Background()
	n, err := vnode.NewMem(ctx)
	if err != nil {
		panic(err)
	}
	defer n.Close()
	_, err = n.DB.AddSchema(ctx, `type T { name: String
 onums: [Int]
 ostrs: [String]
 nums: [Int!] }`)
	if err != nil {
		panic(err)
	}
	col, _ := n.DB.GetCollectionByName(ctx, "T")
	for _, js := range []string{`{"name": "a", "onums": [1, null, 3]}`, `{"name": "a", "onums": [4, 5, 6]}`, `{"name": "a", "onums": [7]}`, `{"name": "a", "ostrs": ["x", null]}`, `{"name": "a", "ostrs": ["y", "z"]}`, `{"name": "a", "nums": [1, 2]}`, `{"name": "a", "nums": [3, 4]}`} {
		d, err := client.NewDocFromJSON([]byte(js), col.Definition())
		if err != nil {
			fmt.Println(js, "ERR", err)
			continue
		}
		b, _ := d.Bytes()
		fmt.Printf("%s -> %s bytes=%x create=%v\n", js, d.ID(), b, col.Create(ctx, d))
	}
}
