//go:build verif

package main

import (
	"context"
	"fmt"
	"os"

	"github.com/sourcenetwork/defradb/client"
	vnode "github.com/sourcenetwork/defradb/internal/verifharness/node"
)

func main() {
	ctx := context.Background()
	n, err := vnode.NewMem(ctx)
	if err != nil {
		panic(err)
	}
	defer n.Close()
	_, err = n.DB.AddSchema(ctx, `type Item { name: String
 n: Int @default(int: 7) }`)
	if err != nil {
		panic(err)
	}
	col, _ := n.DB.GetCollectionByName(ctx, "Item")
	d1, _ := client.NewDocFromJSON([]byte(`{"name": "a", "n": 1}`), col.Definition())
	d2, _ := client.NewDocFromJSON([]byte(`{"name": "b", "n": null}`), col.Definition())
	fmt.Println(col.Create(ctx, d1), col.Create(ctx, d2))
	ok, err := col.Delete(ctx, d1.ID())
	fmt.Println("delete", ok, err)
	func() {
		defer func() {
			if r := recover(); r != nil {
				fmt.Println("PANIC in export:", r)
			}
		}()
		err = n.DB.BasicExport(ctx, &client.BackupConfig{Filepath: "/tmp/probe_export.json"})
		fmt.Println("export", err)
	}()
	b, _ := os.ReadFile("/tmp/probe_export.json")
	fmt.Println(string(b))
	g, err := col.Get(ctx, d2.ID(), false)
	if err == nil {
		v, e := g.GetValue("n")
		if e != nil {
			fmt.Println("Get n err", e)
		} else {
			fmt.Println("Get n =", v.Value())
		}
	}
	res := n.DB.ExecRequest(ctx, `query { Item { name n } }`)
	fmt.Println(res.GQL.Data, res.GQL.Errors)
	_, err = col.CreateIndex(ctx, client.IndexCreateRequest{Fields: []client.IndexedFieldDescription{{Name: "n"}}})
	fmt.Println("index", err)
	res = n.DB.ExecRequest(ctx, `query { Item(filter: {n: {_eq: null}}) { name n } }`)
	fmt.Println("eq null:", res.GQL.Data, res.GQL.Errors)
	res = n.DB.ExecRequest(ctx, `query { Item(filter: {n: {_eq: 7}}) { name n } }`)
	fmt.Println("eq 7:", res.GQL.Data, res.GQL.Errors)
}
