//go:build verif

package main

import (
	"context"
	"fmt"

	"github.com/sourcenetwork/immutable"

	"github.com/sourcenetwork/defradb/acp/dac"
	"github.com/sourcenetwork/defradb/acp/identity"
	"github.com/sourcenetwork/defradb/crypto"
	vnode "github.com/sourcenetwork/defradb/internal/verifharness/node"

	badgerds "github.com/dgraph-io/badger/v4"
	"github.com/sourcenetwork/corekv/badger"
)

const policy = `
name: Verif Policy
description: A Policy
actor:
  name: actor
resources:
  users:
    permissions:
      read:
        expr: owner + reader
      update:
        expr: owner
      delete:
        expr: owner
    relations:
      owner:
        types:
          - actor
      reader:
        types:
          - actor
`

func main() {
	ctx := context.Background()
	root, _ := badger.NewDatastore("", badgerds.DefaultOptions("").WithInMemory(true).WithLoggingLevel(badgerds.ERROR))
	acp, _ := dac.NewLocalDocumentACP("")
	nd, err := vnode.NewOn(ctx, root, immutable.Some(acp))
	if err != nil {
		panic(err)
	}
	defer nd.Close()
	id, _ := identity.Generate(crypto.KeyTypeSecp256k1)
	octx := identity.WithContext(ctx, immutable.Some[identity.Identity](id))
	res, err := nd.DB.AddDACPolicy(octx, policy)
	if err != nil {
		panic(err)
	}
	_, err = nd.DB.AddSchema(ctx, fmt.Sprintf(`type Author @policy(id: "%s", resource: "users") { name: String
 age: Int }`, res.PolicyID))
	if err != nil {
		panic(err)
	}
	show := func(what string, c context.Context, q string) {
		r := nd.DB.ExecRequest(c, q)
		fmt.Println(what, r.GQL.Data, r.GQL.Errors)
	}
	show("owner create", octx, `mutation { create_Author(input: {name: "x", age: 1}) { _docID } }`)
	show("owner update", octx, `mutation { update_Author(filter: {name: {_eq: "x"}}, input: {age: 2}) { _docID age } }`)
	show("owner read", octx, `query { Author { name age } }`)
	show("anonymous read", ctx, `query { Author { name age } }`)
	show("anonymous create same content", ctx, `mutation { create_Author(input: {name: "x", age: 1}) { _docID age } }`)
	show("owner read", octx, `query { Author { name age } }`)
	show("owner commits", octx, `query { commits(fieldName: "_C") { cid height } }`)
}
