//go:build verif

package main

import (
	"context"
	"fmt"
	"strings"

	vnode "github.com/sourcenetwork/defradb/internal/verifharness/node"
)

func main() {
	ctx := context.Background()
	n, err := vnode.NewMem(ctx)
	if err != nil {
		panic(err)
	}
	defer n.Close()
	var fs []string
	for i := 1; i <= 25; i++ {
		fs = append(fs, fmt.Sprintf("f%02d: Int", i))
	}
	_, err = n.DB.AddSchema(ctx, "type T { "+strings.Join(fs, "\n ")+" }")
	if err != nil {
		panic(err)
	}
	var in []string
	for i := 1; i <= 25; i++ {
		in = append(in, fmt.Sprintf("f%02d: %d", i, i))
	}
	r := n.DB.ExecRequest(ctx, "mutation { create_T(input: {"+strings.Join(in, ", ")+"}) { _docID } }")
	id := r.GQL.Data.(map[string]any)["create_T"].([]map[string]any)[0]["_docID"].(string)
	fmt.Println(id, r.GQL.Errors)
	for k := 0; k < 3; k++ {
		r = n.DB.ExecRequest(ctx, fmt.Sprintf(`mutation { update_T(docID: "%s", input: {f20: %d, f22: %d}) { _docID } }`, id, 100+k, 200+k))
		fmt.Println("update", r.GQL.Errors)
	}
	for i := 1; i <= 25; i++ {
		f := fmt.Sprintf("f%02d", i)
		r = n.DB.ExecRequest(ctx, fmt.Sprintf(`query { latestCommits(docID: "%s", fieldName: "%s") { height fieldName } }`, id, f))
		fmt.Println(f, r.GQL.Data, r.GQL.Errors)
	}
	r = n.DB.ExecRequest(ctx, fmt.Sprintf(`mutation { update_T(docID: "%s", input: {f01: 999}) { _docID } }`, id))
	fmt.Println("update f01", r.GQL.Errors)
	r = n.DB.ExecRequest(ctx, fmt.Sprintf(`query { commits(docID: "%s", fieldName: "f01") { height fieldName links { name } heads: links { cid } } }`, id))
	fmt.Println("f01 commits", r.GQL.Data, r.GQL.Errors)
	r = n.DB.ExecRequest(ctx, fmt.Sprintf(`query { T(docID: "%s") { f01 f20 f22 } }`, id))
	fmt.Println(r.GQL.Data, r.GQL.Errors)
}
