//go:build verif

package main

import (
	"context"
	"fmt"

	"github.com/sourcenetwork/defradb/client"
	vnode "github.com/sourcenetwork/defradb/internal/verifharness/node"
)

func main() {
	ctx := context.Background()
	for k := 0; k < 6; k++ {
		n, err := vnode.NewMem(ctx)
		if err != nil {
			panic(err)
		}
		_, err = n.DB.AddSchema(ctx, `type G { a: String
 b: String }`)
		if err != nil {
			panic(err)
		}
		col, _ := n.DB.GetCollectionByName(ctx, "G")
		for _, js := range []string{fmt.Sprintf(`{"a": "x_%d_y", "b": "z"}`, k), fmt.Sprintf(`{"a": "x", "b": "y_%d_z"}`, k)} {
			d, _ := client.NewDocFromJSON([]byte(js), col.Definition())
			if err := col.Create(ctx, d); err != nil {
				panic(err)
			}
		}
		r := n.DB.ExecRequest(ctx, `query { G(groupBy: [a, b]) { a b _count(_group: {}) } }`)
		fmt.Println(k, r.GQL.Data, r.GQL.Errors)
		n.Close()
	}
}
