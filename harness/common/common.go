//go:build verif

// Package vcommon holds what every harness engine shares: the PRNG every random
// choice is derived from, the two-stream writer (ops for the model, results of
// the implementation), statistics and sample collection.
package vcommon

import (
	"bufio"
	"encoding/hex"
	"encoding/json"
	"flag"
	"fmt"
	"os"
	"path/filepath"
	"sort"
	"strings"
)

// Rng is splitmix64.
type Rng struct{ s uint64 }

func NewRng(seed uint64) *Rng {
	// scramble the seed so that consecutive seeds give unrelated streams (splitmix64 advances its state by a
	// constant, so a linear seeding would make seed k+1 the stream of seed k shifted by one)
	z := seed + 0xD6E8FEB86659FD93
	z = (z ^ (z >> 32)) * 0xD6E8FEB86659FD93
	z = (z ^ (z >> 32)) * 0xD6E8FEB86659FD93
	z = z ^ (z >> 32)
	return &Rng{s: z}
}

func (r *Rng) U64() uint64 {
	r.s += 0x9E3779B97F4A7C15
	z := r.s
	z = (z ^ (z >> 30)) * 0xBF58476D1CE4E5B9
	z = (z ^ (z >> 27)) * 0x94D049BB133111EB
	return z ^ (z >> 31)
}

// Intn returns a value in [0,n).
func (r *Rng) Intn(n int) int {
	if n <= 0 {
		return 0
	}
	return int(r.U64() % uint64(n))
}

func (r *Rng) Bool() bool { return r.U64()&1 == 1 }

// Chance returns true with probability num/den.
func (r *Rng) Chance(num, den int) bool { return r.Intn(den) < num }

// Fork derives an independent generator (so one case replays from its own sub-seed).
func (r *Rng) Fork() (*Rng, uint64) {
	s := r.U64()
	return NewRng(s), s
}

func Hex(b []byte) string {
	if len(b) == 0 {
		return "-"
	}
	return hex.EncodeToString(b)
}

func UnHex(s string) []byte {
	if s == "-" {
		return nil
	}
	b, err := hex.DecodeString(s)
	if err != nil {
		panic(err)
	}
	return b
}

// Out writes the ops stream, the implementation's result stream and the oracle stream.
type Out struct {
	Dir     string
	ops     *bufio.Writer
	impl    *bufio.Writer
	oracle  *bufio.Writer
	files   []*os.File
	Lines   int
	Stats   map[string]int
	Samples []string
	Distinct map[string]struct{}
	NOracle int
}

func NewOut(dir string) *Out {
	if err := os.MkdirAll(dir, 0o755); err != nil {
		panic(err)
	}
	o := &Out{Dir: dir, Stats: map[string]int{}, Distinct: map[string]struct{}{}}
	mk := func(n string) *bufio.Writer {
		f, err := os.Create(filepath.Join(dir, n))
		if err != nil {
			panic(err)
		}
		o.files = append(o.files, f)
		return bufio.NewWriterSize(f, 1<<20)
	}
	o.ops = mk("ops.txt")
	o.impl = mk("impl.txt")
	o.oracle = mk("oracle.txt")
	return o
}

// Emit records one operation line and the implementation's canonical result for it.
func (o *Out) Emit(op, result string) {
	if strings.ContainsAny(op, "\n\r") || strings.ContainsAny(result, "\n\r") {
		panic("newline in protocol line: " + op + " => " + result)
	}
	o.ops.WriteString(op)
	o.ops.WriteByte('\n')
	o.impl.WriteString(result)
	o.impl.WriteByte('\n')
	o.Lines++
	if len(o.Samples) < 8 && o.Lines%97 == 1 {
		o.Samples = append(o.Samples, op+" => "+result)
	}
}

// Oracle records a violation of the property's own oracle observed on the implementation
// (independent of the model). line is the zero-based ops line it refers to.
func (o *Out) Oracle(line int, what string) {
	fmt.Fprintf(o.oracle, "%d\t%s\n", line, strings.ReplaceAll(what, "\n", " "))
	o.NOracle++
}

func (o *Out) Count(k string) { o.Stats[k]++ }

// Nontrivial marks a distinct non-trivial case by key.
func (o *Out) Nontrivial(key string) { o.Distinct[key] = struct{}{} }

func (o *Out) Close(extra map[string]any) {
	o.ops.Flush()
	o.impl.Flush()
	o.oracle.Flush()
	for _, f := range o.files {
		f.Close()
	}
	keys := make([]string, 0, len(o.Stats))
	for k := range o.Stats {
		keys = append(keys, k)
	}
	sort.Strings(keys)
	st := map[string]any{
		"lines":               o.Lines,
		"distribution":        o.Stats,
		"samples":             o.Samples,
		"distinct_nontrivial": len(o.Distinct),
		"oracle_violations":   o.NOracle,
	}
	for k, v := range extra {
		st[k] = v
	}
	b, _ := json.MarshalIndent(st, "", " ")
	if err := os.WriteFile(filepath.Join(o.Dir, "stats.json"), b, 0o644); err != nil {
		panic(err)
	}
}

// Flags common to all engines.
type Flags struct {
	Seed   uint64
	Tier   string
	OutDir string
	Replay string
	N      int
}

func ParseFlags() Flags {
	var f Flags
	flag.Uint64Var(&f.Seed, "seed", 1, "VERIF_SEED")
	flag.StringVar(&f.Tier, "tier", "quick", "quick|thorough")
	flag.StringVar(&f.OutDir, "out", "", "output directory")
	flag.StringVar(&f.Replay, "replay", "", "ops file to replay instead of generating")
	flag.IntVar(&f.N, "n", 0, "override case count")
	flag.Parse()
	if f.OutDir == "" {
		fmt.Fprintln(os.Stderr, "need -out")
		os.Exit(2)
	}
	return f
}

// ReadLines reads a replay file.
func ReadLines(path string) []string {
	b, err := os.ReadFile(path)
	if err != nil {
		panic(err)
	}
	var out []string
	for _, l := range strings.Split(string(b), "\n") {
		l = strings.TrimSpace(l)
		if l != "" && !strings.HasPrefix(l, "#") {
			out = append(out, l)
		}
	}
	return out
}
