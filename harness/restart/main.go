//go:build verif

// Engine `restart` (C14): two full nodes (node.New: file-backed Badger store, local document access control with its
// own store, libp2p peer on loopback) receive the same generated history of schema, index, patch, document,
// access-control, P2P-collection and replicator operations; one of them is closed and started again on its
// directories at generated points. At every `dump` both nodes must answer identically (collection, schema and index
// descriptions with their identifiers, every document, the commit history, P2P collections, replicators, what a
// grantee can read) and the operations after a restart must have the same outcomes, including the identifiers they
// allocate. The abstract part of the dump (collections with short identifiers, indexes with identifiers, document
// counts, peer configuration) is compared with `drv restart`.
package main

import (
	"context"
	"encoding/json"
	"fmt"
	defranet "github.com/sourcenetwork/defradb/net"
	"os"
	"path/filepath"
	"runtime/debug"
	"sort"
	"strconv"
	"strings"
	"time"

	"github.com/sourcenetwork/corekv"
	"github.com/sourcenetwork/immutable"
	"github.com/sourcenetwork/lens/host-go/config/model"

	"github.com/sourcenetwork/defradb/acp/identity"
	"github.com/sourcenetwork/defradb/client"
	"github.com/sourcenetwork/defradb/crypto"
	"github.com/sourcenetwork/defradb/internal/db"
	vc "github.com/sourcenetwork/defradb/internal/verifharness/common"
	netConfig "github.com/sourcenetwork/defradb/net/config"
	"github.com/sourcenetwork/defradb/node"
)

func must(err error) {
	if err != nil {
		panic(err)
	}
}

var catalogue = map[string]string{
	"K1": `type K1 { name: String
 n: Int }`,
	"K2": `type K2 { title: String
 k: Int
 flag: Boolean }`,
	"K3": `type K3 { a: String @index
 b: Int }`,
	"K4": `type K4 { x: Int
 y: Int }`,
}

const policy = `
name: Verif Policy
description: A Policy
actor:
  name: actor
resources:
  users:
    permissions:
      read:
        expr: owner + reader
      update:
        expr: owner
      delete:
        expr: owner
    relations:
      owner:
        types:
          - actor
      reader:
        types:
          - actor
`

type inst struct {
	dir  string
	n    *node.Node
	priv []byte
}

type world struct {
	ctx      context.Context
	out      *vc.Out
	caseID   uint64
	base     string
	real     *inst
	twin     *inst
	remotes  map[*inst]map[string]*inst // node -> target name (X, Y) -> replication target of that node
	owner    identity.Identity
	reader   identity.Identity
	docs     map[string][2]string // label -> (collection, docID)
	policyID string
	restarts int
	inflight bool            // the node was closed without waiting for its pushes
	everSet  map[string]bool // "target/collection" ever configured by a replicator set
	copies   int
}

func (w *world) opts(i *inst) []node.Option {
	return []node.Option{
		node.WithStoreType(node.BadgerStore),
		node.WithStorePath(filepath.Join(i.dir, "data")),
		node.WithBadgerInMemory(false),
		node.WithDocumentACPType(node.LocalDocumentACPType),
		node.WithDocumentACPPath(filepath.Join(i.dir, "acp")),
		node.WithDisableAPI(true),
		node.WithDisableP2P(false),
		netConfig.WithListenAddresses("/ip4/127.0.0.1/tcp/0"),
		netConfig.WithEnablePubSub(true),
		netConfig.WithPrivateKey(i.priv),
		netConfig.WithRetryInterval([]time.Duration{time.Hour}),
		db.WithEnabledSigning(false),
	}
}

func (w *world) startInst(name string) *inst {
	i := &inst{dir: filepath.Join(w.base, fmt.Sprintf("c%d-%s", w.caseID, name))}
	must(os.MkdirAll(i.dir, 0o755))
	k, err := crypto.GenerateEd25519()
	must(err)
	i.priv = k
	w.open(i)
	return i
}

func (w *world) open(i *inst) {
	n, err := node.New(w.ctx, w.opts(i)...)
	must(err)
	must(n.Start(w.ctx))
	i.n = n
}

func (w *world) close() {
	all := []*inst{w.real, w.twin}
	for _, m := range w.remotes {
		for _, r := range m {
			all = append(all, r)
		}
	}
	for _, i := range all {
		if i != nil && i.n != nil {
			_ = i.n.Close(w.ctx)
		}
		if i != nil {
			_ = os.RemoveAll(i.dir)
		}
	}
}

func short(err error) string {
	if err == nil {
		return "ok"
	}
	s := strings.ReplaceAll(err.Error(), " ", "_")
	s = strings.ReplaceAll(s, "\n", "_")
	if len(s) > 70 {
		s = s[:70]
	}
	return "error:" + s
}

// both applies an operation to the restarted node and to its twin and insists on the same outcome
func (w *world) both(f func(i *inst) string) string {
	a, b := f(w.real), f(w.twin)
	if a != b {
		w.out.Oracle(w.out.Lines, fmt.Sprintf("[restart-changes-outcome] case %d (after %d restarts): the restarted node answers %s, the twin %s", w.caseID, w.restarts, a, b))
		return "DIFF " + a + " | " + b
	}
	return a
}

func gql(ctx context.Context, i *inst, q string) string {
	res := i.n.DB.ExecRequest(ctx, q)
	if len(res.GQL.Errors) > 0 {
		var es []string
		for _, e := range res.GQL.Errors {
			es = append(es, e.Error())
		}
		sort.Strings(es)
		return "error: " + strings.Join(es, "; ")
	}
	b, _ := json.Marshal(res.GQL.Data)
	return string(b)
}

func gqlInput(js string) string {
	var m map[string]any
	must(json.Unmarshal([]byte(js), &m))
	keys := make([]string, 0, len(m))
	for k := range m {
		keys = append(keys, k)
	}
	sort.Strings(keys)
	var parts []string
	for _, k := range keys {
		b, _ := json.Marshal(m[k])
		parts = append(parts, k+": "+string(b))
	}
	return "{" + strings.Join(parts, ", ") + "}"
}

// full logical dump of one node
// dump: full logical dump of one node (database and peer configuration)
func (w *world) dump(i *inst) (full string, abstract string) {
	return w.dumpOf(i, true)
}

// peerstore: the raw peer configuration records (P2P collections, replicators) as the store holds them
func (w *world) peerstore(i *inst) string {
	it, err := i.n.DB.Rootstore().Iterator(w.ctx, corekv.IterOptions{Prefix: []byte("/db/ps")})
	must(err)
	var out []string
	for {
		ok, err := it.Next()
		if err != nil || !ok {
			break
		}
		k := string(it.Key())
		if strings.Contains(k, "/retry") {
			continue // retry bookkeeping changes in the background
		}
		v, _ := it.Value()
		out = append(out, fmt.Sprintf("%s=%x", k, v))
	}
	_ = it.Close()
	sort.Strings(out)
	return strings.Join(out, ";")
}

func (w *world) dumpOf(i *inst, withPeer bool) (full string, abstract string) {
	ctx := w.ctx
	var sb strings.Builder
	cols, err := i.n.DB.GetCollections(ctx, client.CollectionFetchOptions{IncludeInactive: immutable.Some(true)})
	must(err)
	sort.Slice(cols, func(a, b int) bool { return cols[a].Version().VersionID < cols[b].Version().VersionID })
	var abs []string
	for _, c := range cols {
		vb, _ := json.Marshal(c.Version())
		sb.WriteString("VERSION " + string(vb) + "\n")
		if !c.Version().IsActive {
			continue
		}
		idx, err := c.GetIndexes(ctx)
		must(err)
		sort.Slice(idx, func(a, b int) bool { return idx[a].Name < idx[b].Name })
		ib, _ := json.Marshal(idx)
		sb.WriteString("INDEXES " + c.Name() + " " + string(ib) + "\n")
		var fields, fabs []string
		cs, fs, err := i.n.DB.(*db.DB).VerifShortIDs(ctx, c.Version().CollectionID)
		must(err)
		for _, f := range c.Definition().GetFields() {
			if f.Kind.IsObject() || strings.HasPrefix(f.Name, "_") {
				continue
			}
			fields = append(fields, f.Name)
		}
		sort.Strings(fields)
		for _, f := range fields {
			fabs = append(fabs, fmt.Sprintf("%s#%d", f, fs[f]))
		}
		var iabs []string
		for _, x := range idx {
			iabs = append(iabs, fmt.Sprintf("%s#%d", x.Name, x.ID))
		}
		q := fmt.Sprintf(`query { %s { _docID %s } }`, c.Name(), strings.Join(fields, " "))
		res := gql(identity.WithContext(ctx, immutable.Some(w.owner)), i, q)
		sb.WriteString("DOCS " + c.Name() + " " + res + "\n")
		rres := gql(identity.WithContext(ctx, immutable.Some(w.reader)), i, q)
		sb.WriteString("DOCS-AS-READER " + c.Name() + " " + rres + "\n")
		abs = append(abs, fmt.Sprintf("%s#%d(%s;%s;docs=%d,reader=%d)", c.Name(), cs, strings.Join(fabs, ","), strings.Join(iabs, ","), strings.Count(res, `"_docID"`), strings.Count(rres, `"_docID"`)))
	}
	// the GraphQL type system the node serves (built at start-up from the stored collections, kept up to date by
	// schema operations): the object types of the catalogue's names with their fields
	sb.WriteString("GQLTYPES " + w.gqlTypes(i) + "\n")
	commits := gql(identity.WithContext(ctx, immutable.Some(w.owner)), i, `query { commits(order: {cid: ASC}) { cid docID fieldName height } }`)
	sb.WriteString("COMMITS " + commits + "\n")
	if !withPeer {
		sb.WriteString("PEERSTORE " + w.peerstore(i) + "\n")
		return sb.String(), ""
	}
	p2p, err := i.n.Peer.GetAllP2PCollections(ctx)
	must(err)
	sort.Strings(p2p)
	sb.WriteString("P2P " + strings.Join(p2p, ",") + "\n")
	// the topics of the P2P collections the peer listens on (document topics come and go with traffic)
	listening := map[string]bool{}
	for _, tp := range i.n.Peer.(*defranet.Peer).VerifSubscribedTopics() {
		listening[tp] = true
	}
	var deaf []string
	for _, name := range p2p {
		// the topic of a P2P collection is named by its CollectionID
		id := name
		if c, err := i.n.DB.GetCollectionByName(ctx, name); err == nil {
			id = c.Version().CollectionID
		}
		if !listening[id] {
			deaf = append(deaf, name)
		}
	}
	sb.WriteString("P2P-NOT-LISTENING " + strings.Join(deaf, ",") + "\n")
	reps, err := i.n.Peer.GetAllReplicators(ctx)
	must(err)
	var rs []string
	var repNames []string
	for _, r := range reps {
		cc := append([]string{}, r.CollectionIDs...)
		sort.Strings(cc)
		target := "?"
		for name, rem := range w.remotes[i] {
			if rem.n.Peer.PeerInfo().ID == r.Info.ID {
				target = name
			}
		}
		rs = append(rs, fmt.Sprintf("%s:%s", target, strings.Join(cc, "+")))
		repNames = append(repNames, fmt.Sprintf("%s:%d", target, len(r.CollectionIDs)))
	}
	sort.Strings(rs)
	sort.Strings(repNames)
	sb.WriteString("REPLICATORS " + strings.Join(rs, ",") + "\n")
	sort.Strings(abs)
	abstract = fmt.Sprintf("cols=[%s] p2p=[%s] reps=[%s]", strings.Join(abs, " "), strings.Join(p2p, ","), strings.Join(repNames, ","))
	return sb.String(), abstract
}

func (w *world) gqlTypes(i *inst) string {
	res := i.n.DB.ExecRequest(w.ctx, `query { __schema { types { name fields { name } } } }`)
	if len(res.GQL.Errors) > 0 {
		return fmt.Sprint("error: ", res.GQL.Errors)
	}
	b, _ := json.Marshal(res.GQL.Data)
	var m struct {
		Schema struct {
			Types []struct {
				Name   string
				Fields []struct{ Name string }
			}
		} `json:"__schema"`
	}
	if err := json.Unmarshal(b, &m); err != nil {
		return "error: " + err.Error()
	}
	var out []string
	for _, t := range m.Schema.Types {
		if _, ok := catalogue[t.Name]; !ok && t.Name != "P" {
			continue
		}
		var fs []string
		for _, f := range t.Fields {
			if !strings.HasPrefix(f.Name, "_") {
				fs = append(fs, f.Name)
			}
		}
		sort.Strings(fs)
		out = append(out, t.Name+"("+strings.Join(fs, ",")+")")
	}
	sort.Strings(out)
	return strings.Join(out, " ")
}

// what a replication target holds of the collections it is currently configured to receive from node i (after a
// replicator is deleted, whether pushes that were in flight still arrive is not determined)
func (w *world) targetState(i *inst, name string) string {
	r := w.remotes[i][name]
	reps, err := i.n.Peer.GetAllReplicators(w.ctx)
	must(err)
	configured := map[string]bool{}
	for _, rep := range reps {
		if rep.Info.ID == r.n.Peer.PeerInfo().ID {
			for _, id := range rep.CollectionIDs {
				configured[id] = true
			}
		}
	}
	cols, err := r.n.DB.GetCollections(w.ctx, client.CollectionFetchOptions{})
	must(err)
	var parts []string
	for _, c := range cols {
		if configured[c.SchemaRoot()] {
			parts = append(parts, c.Name()+"="+w.colDocs(r, c.Name()))
		}
	}
	sort.Strings(parts)
	return strings.Join(parts, " ")
}

// colDocs: the documents of one collection on a node, canonical
func (w *world) colDocs(i *inst, name string) string {
	c, err := i.n.DB.GetCollectionByName(w.ctx, name)
	if err != nil {
		return "no-collection"
	}
	var fields []string
	for _, f := range c.Definition().GetFields() {
		if !f.Kind.IsObject() && !strings.HasPrefix(f.Name, "_") {
			fields = append(fields, f.Name)
		}
	}
	sort.Strings(fields)
	return gql(w.ctx, i, fmt.Sprintf(`query { %s { _docID %s } }`, name, strings.Join(fields, " ")))
}

// awaitDelivered waits until every replication target of node i holds the documents of the collections it is
// configured for (or the deadline passes); it returns false if something was not delivered.
func (w *world) awaitDelivered(i *inst) bool {
	deadline := time.Now().Add(20 * time.Second)
	reps, err := i.n.Peer.GetAllReplicators(w.ctx)
	must(err)
	cols, err := i.n.DB.GetCollections(w.ctx, client.CollectionFetchOptions{})
	must(err)
	ok := true
	for _, r := range reps {
		for name, rem := range w.remotes[i] {
			if rem.n.Peer.PeerInfo().ID != r.Info.ID {
				continue
			}
			for _, c := range cols {
				in := false
				for _, id := range r.CollectionIDs {
					in = in || id == c.SchemaRoot()
				}
				if !in {
					continue
				}
				for {
					if w.colDocs(i, c.Name()) == w.colDocs(rem, c.Name()) {
						break
					}
					if time.Now().After(deadline) {
						ok = false
						w.out.Count("not-delivered-to-" + name)
						break
					}
					time.Sleep(30 * time.Millisecond)
				}
			}
		}
	}
	return ok
}

// compareTargets: the replication targets of the restarted node and of the twin end up with the same documents.
// Replication is asynchronous: equality is awaited; a difference that persists is reported.
func (w *world) compareTargets(tag string) {
	// a target never receives documents of a collection that was never configured for it
	for _, i := range []*inst{w.real, w.twin} {
		for name, r := range w.remotes[i] {
			cols, err := r.n.DB.GetCollections(w.ctx, client.CollectionFetchOptions{})
			must(err)
			for _, c := range cols {
				if !w.everSet[name+"/"+c.Name()] && strings.Contains(w.colDocs(r, c.Name()), "_docID") {
					who := "the restarted node"
					if i == w.twin {
						who = "the twin"
					}
					w.out.Oracle(w.out.Lines, fmt.Sprintf("[stray-replication] case %d (after %d restarts): replication target %s of %s holds documents of %s, which was never configured for it: %s", w.caseID, w.restarts, name, who, c.Name(), clip(w.colDocs(r, c.Name()), 300)))
				}
			}
		}
	}
	deadline := time.Now().Add(20 * time.Second)
	for _, name := range []string{"X", "Y"} {
		for {
			a, b := w.targetState(w.real, name), w.targetState(w.twin, name)
			if a == b {
				w.out.Count("targets-equal")
				break
			}
			if time.Now().After(deadline) {
				w.out.Oracle(w.out.Lines, fmt.Sprintf("["+tag+"] case %d (after %d restarts): replication target %s of the restarted node holds %s, the twin's target holds %s", w.caseID, w.restarts, name, clip(a, 600), clip(b, 600)))
				break
			}
			time.Sleep(50 * time.Millisecond)
		}
	}
}

func firstDiff(a, b string) string {
	la, lb := strings.Split(a, "\n"), strings.Split(b, "\n")
	for i := 0; i < len(la) && i < len(lb); i++ {
		if la[i] != lb[i] {
			x, y := la[i], lb[i]
			if len(x) > 400 {
				x = x[:400]
			}
			if len(y) > 400 {
				y = y[:400]
			}
			return x + "   <>   " + y
		}
	}
	return fmt.Sprintf("lengths %d/%d", len(la), len(lb))
}

func (w *world) colID(i *inst, name string) string {
	c, err := i.n.DB.GetCollectionByName(w.ctx, name)
	if err != nil {
		return ""
	}
	return c.Version().CollectionID
}

func runCase(ctx context.Context, out *vc.Out, base string, lines []string) {
	w := &world{ctx: ctx, out: out, base: base, docs: map[string][2]string{}}
	defer w.close()
	defer func() {
		if rr := recover(); rr != nil {
			if os.Getenv("VERIF_STACK") != "" {
				debug.PrintStack()
			}
			out.Oracle(out.Lines, fmt.Sprintf("[panic] case %d: %v", w.caseID, rr))
			out.Emit("panic", strings.ReplaceAll(fmt.Sprint(rr), "\n", " "))
		}
	}()
	noLens := immutable.None[model.Lens]()
	octx := func() context.Context { return identity.WithContext(ctx, immutable.Some(w.owner)) }
	for _, l := range lines {
		t := strings.Fields(l)
		var res string
		switch t[0] {
		case "case":
			id, _ := strconv.ParseUint(t[1], 10, 64)
			w.caseID = id
			res = "ok"
		case "start":
			var err error
			w.owner, err = identity.Generate(crypto.KeyTypeSecp256k1)
			must(err)
			w.reader, err = identity.Generate(crypto.KeyTypeSecp256k1)
			must(err)
			w.real, w.twin = w.startInst("real"), w.startInst("twin")
			w.remotes = map[*inst]map[string]*inst{
				w.real: {"X": w.startInst("real-x"), "Y": w.startInst("real-y")},
				w.twin: {"X": w.startInst("twin-x"), "Y": w.startInst("twin-y")},
			}
			res = "ok"
		case "schema":
			res = w.both(func(i *inst) string {
				_, err := i.n.DB.AddSchema(ctx, catalogue[t[1]])
				if err == nil {
					// the replication targets know every collection
					for _, r := range w.remotes[i] {
						_, _ = r.n.DB.AddSchema(ctx, catalogue[t[1]])
					}
				}
				return short(err)
			})
		case "txschema", "txpatch": // a schema operation inside an explicit transaction that is then discarded
			res = w.both(func(i *inst) string {
				txn, err := i.n.DB.NewTxn(ctx, false)
				if err != nil {
					return short(err)
				}
				tctx := db.InitContext(ctx, txn)
				if t[0] == "txschema" {
					_, err = i.n.DB.AddSchema(tctx, catalogue[t[1]])
				} else {
					p := fmt.Sprintf(`[{ "op": "add", "path": "/%s/Fields/-", "value": {"Name": "%s", "Kind": 11} }]`, t[1], t[2])
					err = i.n.DB.PatchSchema(tctx, p, immutable.None[model.Lens](), true)
				}
				txn.Discard(ctx)
				if err != nil {
					return short(err)
				}
				return "discarded"
			})
		case "policy":
			res = w.both(func(i *inst) string {
				r, err := i.n.DB.AddDACPolicy(octx(), policy)
				if err != nil {
					return short(err)
				}
				w.policyID = r.PolicyID
				_, err = i.n.DB.AddSchema(ctx, fmt.Sprintf(`type P @policy(id: "%s", resource: "users") { name: String
 age: Int }`, r.PolicyID))
				return short(err)
			})
		case "index": // index <T> <field> <unique>
			res = w.both(func(i *inst) string {
				c, err := i.n.DB.GetCollectionByName(ctx, t[1])
				if err != nil {
					return short(err)
				}
				d, err := c.CreateIndex(ctx, client.IndexCreateRequest{Fields: []client.IndexedFieldDescription{{Name: t[2]}}, Unique: t[3] == "1"})
				if err != nil {
					return short(err)
				}
				return fmt.Sprintf("ok name=%s id=%d", d.Name, d.ID)
			})
		case "dropindex": // dropindex <T> <n>: the n-th index by name
			res = w.both(func(i *inst) string {
				c, err := i.n.DB.GetCollectionByName(ctx, t[1])
				if err != nil {
					return short(err)
				}
				idx, err := c.GetIndexes(ctx)
				must(err)
				sort.Slice(idx, func(a, b int) bool { return idx[a].Name < idx[b].Name })
				k, _ := strconv.Atoi(t[2])
				if len(idx) == 0 {
					return "none"
				}
				name := idx[k%len(idx)].Name // (the slice aliases the collection's own list, which DropIndex edits)
				return short(c.DropIndex(ctx, name)) + " " + name
			})
		case "patch": // patch <T> <field>
			res = w.both(func(i *inst) string {
				p := fmt.Sprintf(`[{ "op": "add", "path": "/%s/Fields/-", "value": {"Name": "%s", "Kind": 11} }]`, t[1], t[2])
				err := i.n.DB.PatchSchema(ctx, p, noLens, true)
				if err == nil {
					for _, r := range w.remotes[i] {
						_ = r.n.DB.PatchSchema(ctx, p, noLens, true)
					}
				}
				return short(err)
			})
		case "create": // create <T> <label> <json>
			f := strings.SplitN(l, " ", 4)
			cctx := ctx
			if t[1] == "P" {
				cctx = octx()
			}
			var id string
			res = w.both(func(i *inst) string {
				r := gql(cctx, i, fmt.Sprintf(`mutation { create_%s(input: %s) { _docID } }`, t[1], gqlInput(f[3])))
				var m map[string][]map[string]any
				if err := json.Unmarshal([]byte(r), &m); err != nil || len(m["create_"+t[1]]) != 1 {
					return "error:" + strings.ReplaceAll(clip(r, 70), " ", "_")
				}
				id = fmt.Sprint(m["create_"+t[1]][0]["_docID"])
				return "ok"
			})
			if res == "ok" {
				w.docs[t[2]] = [2]string{t[1], id}
			}
		case "update": // update <label> <json>
			f := strings.SplitN(l, " ", 3)
			d, ok := w.docs[t[1]]
			if !ok {
				res = "no-doc"
				break
			}
			res = w.both(func(i *inst) string {
				r := gql(octx(), i, fmt.Sprintf(`mutation { update_%s(docID: "%s", input: %s) { _docID } }`, d[0], d[1], gqlInput(f[2])))
				if strings.Contains(r, d[1]) {
					return "ok"
				}
				return "failed"
			})
		case "delete":
			d, ok := w.docs[t[1]]
			if !ok {
				res = "no-doc"
				break
			}
			res = w.both(func(i *inst) string {
				r := gql(octx(), i, fmt.Sprintf(`mutation { delete_%s(docID: "%s") { _docID } }`, d[0], d[1]))
				if strings.Contains(r, d[1]) {
					return "ok"
				}
				return "absent"
			})
		case "grant": // grant <label>
			d, ok := w.docs[t[1]]
			if !ok {
				res = "no-doc"
				break
			}
			res = w.both(func(i *inst) string {
				_, err := i.n.DB.AddDACActorRelationship(octx(), d[0], d[1], "reader", w.reader.DID())
				return short(err)
			})
		case "revoke":
			d, ok := w.docs[t[1]]
			if !ok {
				res = "no-doc"
				break
			}
			res = w.both(func(i *inst) string {
				_, err := i.n.DB.DeleteDACActorRelationship(octx(), d[0], d[1], "reader", w.reader.DID())
				return short(err)
			})
		case "p2pcol": // p2pcol add|remove <T>
			res = w.both(func(i *inst) string {
				if t[1] == "add" {
					return short(i.n.Peer.AddP2PCollections(ctx, t[2]))
				}
				return short(i.n.Peer.RemoveP2PCollections(ctx, t[2]))
			})
		case "replicator": // replicator set|del <target> <T>
			res = w.both(func(i *inst) string {
				info := w.remotes[i][t[2]].n.Peer.PeerInfo()
				if t[1] == "set" {
					if w.everSet == nil {
						w.everSet = map[string]bool{}
					}
					w.everSet[t[2]+"/"+t[3]] = true
					return short(i.n.Peer.SetReplicator(ctx, info, t[3]))
				}
				return short(i.n.Peer.DeleteReplicator(ctx, info, t[3]))
			})
		case "restart", "restartnow":
			if t[0] == "restart" {
				// close at a quiescent point: pushes to replication targets that are still in flight when a node
				// closes are not resumed after the restart (known finding, exercised by `restartnow`)
				w.awaitDelivered(w.real)
			} else {
				w.inflight = true
			}
			must(w.real.n.Close(ctx))
			w.open(w.real)
			w.restarts++
			res = "ok"
		case "crashcopy":
			// the store contents as of this completed operation, copied while the node keeps running, opened by a
			// second node: same collections, indexes, documents, history and peer configuration records
			res = w.crashCopy()
		case "dump":
			fa, abs := w.dump(w.real)
			fb, _ := w.dump(w.twin)
			if os.Getenv("VERIF_SHOWDUMP") != "" {
				for _, ln := range strings.Split(fa+fb, "\n") {
					if strings.HasPrefix(ln, "P2P") {
						fmt.Fprintln(os.Stderr, "SHOWDUMP", ln)
					}
				}
			}
			w.awaitDelivered(w.twin)
			if w.inflight {
				w.compareTargets("inflight-push-lost-on-close")
			} else {
				w.compareTargets("restart-changes-replication")
			}
			// peers differ in their identifiers only through the collection ids they list, which are equal
			if fa != fb {
				w.out.Oracle(w.out.Lines, fmt.Sprintf("[restart-changes-state] case %d (after %d restarts): %s", w.caseID, w.restarts, firstDiff(fa, fb)))
				res = "DIFF " + abs
			} else {
				res = abs
			}
		default:
			res = "bad-op"
		}
		out.Emit(l, res)
		out.Count(t[0])
	}
}

func copyTree(src, dst string) error {
	return filepath.Walk(src, func(p string, info os.FileInfo, err error) error {
		if err != nil {
			return err
		}
		rel, _ := filepath.Rel(src, p)
		if info.IsDir() {
			return os.MkdirAll(filepath.Join(dst, rel), 0o755)
		}
		if info.Name() == "LOCK" {
			return nil
		}
		b, err := os.ReadFile(p)
		if err != nil {
			return err
		}
		return os.WriteFile(filepath.Join(dst, rel), b, 0o644)
	})
}

func (w *world) crashCopy() string {
	w.awaitDelivered(w.real)
	var lastErr string
	for attempt := 0; attempt < 2; attempt++ {
		dir := filepath.Join(w.base, fmt.Sprintf("c%d-copy%d", w.caseID, w.copies))
		w.copies++
		if err := copyTree(w.real.dir, dir); err != nil {
			lastErr = "copy:" + short(err)
			_ = os.RemoveAll(dir)
			continue
		}
		cp := &inst{dir: dir, priv: w.real.priv}
		opts := append(w.opts(cp), node.WithDisableP2P(true))
		n, err := node.New(w.ctx, opts...)
		if err == nil {
			err = n.Start(w.ctx)
		}
		if err != nil {
			lastErr = "open:" + short(err)
			_ = os.RemoveAll(dir)
			continue
		}
		cp.n = n
		fa, _ := w.dumpOf(w.real, false)
		fb, _ := w.dumpOf(cp, false)
		_ = n.Close(w.ctx)
		_ = os.RemoveAll(dir)
		if fa != fb {
			w.out.Oracle(w.out.Lines, fmt.Sprintf("[crash-copy-differs] case %d: a node opened on a copy of the store taken after a completed operation differs from the running node: %s", w.caseID, firstDiff(fa, fb)))
			return "DIFF"
		}
		return "same"
	}
	w.out.Oracle(w.out.Lines, fmt.Sprintf("[crash-copy-differs] case %d: a copy of the store taken after a completed operation can not be opened: %s", w.caseID, lastErr))
	return "unopenable"
}

func clip(s string, n int) string {
	if len(s) > n {
		return s[:n]
	}
	return s
}

func genCase(r *vc.Rng, id uint64) []string {
	lines := []string{fmt.Sprintf("case %d", id), "start"}
	types := []string{"K1", "K2", "K3", "K4"}
	fields := map[string][]string{"K1": {"name", "n"}, "K2": {"title", "k", "flag"}, "K3": {"a", "b"}, "K4": {"x", "y"}, "P": {"name", "age"}}
	strField := map[string]string{"K1": "name", "K2": "title", "K3": "a", "P": "name"}
	intField := map[string]string{"K1": "n", "K2": "k", "K3": "b", "K4": "x", "P": "age"}
	var have []string
	hasP := false
	ndoc := 0
	var labels []string
	labelCol := map[string]string{}
	nops := 8 + r.Intn(14)
	extra := []string{"email", "nick", "zip"}
	for i := 0; i < nops; i++ {
		switch x := r.Intn(20); {
		case x < 3 || len(have) == 0:
			var cand []string
			for _, t := range types {
				in := false
				for _, h := range have {
					in = in || h == t
				}
				if !in {
					cand = append(cand, t)
				}
			}
			if len(cand) > 0 {
				t := cand[r.Intn(len(cand))]
				if r.Chance(1, 4) {
					// first inside a transaction that is given up
					lines = append(lines, "txschema "+t)
					if r.Bool() {
						lines = append(lines, "restart", "dump")
					}
				}
				if r.Chance(4, 5) {
					lines = append(lines, "schema "+t)
					have = append(have, t)
				}
			}
		case x == 3 && !hasP:
			lines = append(lines, "policy")
			hasP = true
		case x < 6:
			t := have[r.Intn(len(have))]
			fl := fields[t][r.Intn(len(fields[t]))]
			uniq := 0
			if sf, ok := strField[t]; ok && sf == fl && r.Chance(1, 2) {
				uniq = 1 // values of this field are distinct by construction
			}
			lines = append(lines, fmt.Sprintf("index %s %s %d", t, fl, uniq))
		case x == 6:
			lines = append(lines, fmt.Sprintf("dropindex %s %d", have[r.Intn(len(have))], r.Intn(3)))
		case x == 7:
			t := have[r.Intn(len(have))]
			f := extra[r.Intn(len(extra))]
			dup := false
			for _, e := range fields[t] {
				dup = dup || e == f
			}
			if !dup && r.Chance(1, 4) {
				lines = append(lines, fmt.Sprintf("txpatch %s %s", t, f))
				if r.Bool() {
					lines = append(lines, "restart", "dump")
				}
			}
			if !dup {
				lines = append(lines, fmt.Sprintf("patch %s %s", t, f))
				fields[t] = append(append([]string{}, fields[t]...), f)
			}
		case x < 12:
			t := have[r.Intn(len(have))]
			if hasP && r.Chance(1, 3) {
				t = "P"
			}
			ndoc++
			l := fmt.Sprintf("d%d", ndoc)
			js := fmt.Sprintf(`{"%s": %d}`, intField[t], ndoc*7+r.Intn(5))
			if sf, ok := strField[t]; ok {
				js = fmt.Sprintf(`{"%s": "v%d", "%s": %d}`, sf, ndoc, intField[t], r.Intn(9))
			}
			lines = append(lines, fmt.Sprintf("create %s %s %s", t, l, js))
			labels = append(labels, l)
			labelCol[l] = t
		case x < 14 && len(labels) > 0:
			l := labels[r.Intn(len(labels))]
			lines = append(lines, fmt.Sprintf(`update %s {"%s": %d}`, l, intField[labelCol[l]], 100+r.Intn(50)))
		case x == 14 && len(labels) > 0:
			lines = append(lines, "delete "+labels[r.Intn(len(labels))])
		case x == 15 && len(labels) > 0:
			l := labels[r.Intn(len(labels))]
			if labelCol[l] == "P" {
				if r.Bool() {
					lines = append(lines, "grant "+l)
				} else {
					lines = append(lines, "revoke "+l)
				}
			}
		case x == 16:
			lines = append(lines, fmt.Sprintf("p2pcol %s %s", []string{"add", "add", "remove"}[r.Intn(3)], have[r.Intn(len(have))]))
		case x == 17 || x == 18:
			lines = append(lines, fmt.Sprintf("replicator %s %s %s", []string{"set", "set", "del"}[r.Intn(3)], []string{"X", "Y"}[r.Intn(2)], have[r.Intn(len(have))]))
		default:
			if r.Chance(1, 3) {
				lines = append(lines, "crashcopy")
			} else {
				lines = append(lines, "restart")
				if r.Chance(1, 2) {
					lines = append(lines, "dump")
				}
			}
		}
	}
	lines = append(lines, "crashcopy", "restart", "dump")
	// and the twin must keep behaving the same: a few more operations after the last restart
	if len(have) > 0 {
		t := have[r.Intn(len(have))]
		lines = append(lines, fmt.Sprintf("index %s %s 0", t, fields[t][0]))
		ndoc++
		lines = append(lines, fmt.Sprintf(`create %s d%d {"%s": %d}`, t, ndoc, intField[t], 999))
		for _, c := range types {
			in := false
			for _, h := range have {
				in = in || h == c
			}
			if !in {
				lines = append(lines, "schema "+c)
				break
			}
		}
		lines = append(lines, "dump")
	}
	return lines
}

func splitCases(lines []string) [][]string {
	var out [][]string
	for _, l := range lines {
		if strings.HasPrefix(l, "case ") || len(out) == 0 {
			out = append(out, nil)
		}
		out[len(out)-1] = append(out[len(out)-1], l)
	}
	return out
}

func main() {
	f := vc.ParseFlags()
	out := vc.NewOut(f.OutDir)
	ctx := context.Background()
	base := filepath.Join(f.OutDir, "stores")
	must(os.MkdirAll(base, 0o755))
	defer os.RemoveAll(base)
	var cases [][]string
	if f.Replay != "" {
		cases = splitCases(vc.ReadLines(f.Replay))
	} else {
		r := vc.NewRng(f.Seed)
		n := 10
		if f.Tier == "thorough" {
			n = 200
		}
		if f.N > 0 {
			n = f.N
		}
		// directed: the node is closed right after a replicator was set, while the initial pushes are in flight
		var burst []string
		for i := 1; i <= 30; i++ {
			burst = append(burst, fmt.Sprintf(`create K1 d%d {"name": "v%d", "n": %d}`, i, i, i))
		}
		cases = append(cases, append(append([]string{"case 1", "start", "schema K1"}, burst...), "replicator set X K1", "restartnow", "dump"))
		// directed: two targets with different collections, restart, then writes to both collections
		cases = append(cases, []string{"case 2", "start", "schema K1", "schema K2", "replicator set X K1", "replicator set Y K2", "restart",
			`create K1 d1 {"name": "v1", "n": 1}`, `create K2 d2 {"title": "v2", "k": 2}`, "dump", `update d1 {"n": 5}`, `update d2 {"k": 6}`, "dump"})
		// directed: a P2P collection whose schema was patched before the restart (its topic is named by the collection,
		// not by the version that is active now)
		cases = append(cases, []string{"case 1003", "start", "schema K1", "p2pcol add K1", `create K1 d1 {"name": "v1", "n": 1}`, "patch K1 extra1", "dump", "restart", "dump",
			`create K1 d2 {"name": "v2", "n": 2}`, "patch K1 extra2", "restart", "dump"})
		// directed: documents written before their collection becomes a P2P collection (they are announced on a topic
		// joined for one message; the later subscription needs that topic to have been left again)
		cases = append(cases, []string{"case 1005", "start", "schema K3", `create K3 d1 {"a": "v1", "b": 0}`, "txschema K2", "schema K2", "patch K3 email", `create K3 d2 {"a": "v2", "b": 7}`,
			"schema K1", `create K1 d3 {"name": "v3", "n": 7}`, "p2pcol add K1", "crashcopy", "restart", "dump", "index K1 name 0", `create K1 d4 {"n": 999}`, "schema K4", "dump"})
		cases = append(cases, []string{"case 1007", "start", "schema K1", `create K1 d1 {"name": "v1", "n": 1}`, `create K1 d2 {"name": "v2", "n": 2}`, "p2pcol add K1", "dump", "restart", "dump"})
		for i := 0; i < n; i++ {
			cr, _ := r.Fork()
			cases = append(cases, genCase(cr, uint64(i+3)))
		}
	}
	for _, c := range cases {
		runCase(ctx, out, base, c)
		out.Nontrivial(strings.Join(c[1:], ";"))
	}
	out.Close(map[string]any{"seed": f.Seed, "cases": len(cases)})
}
