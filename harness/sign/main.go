//go:build verif

// Engine `sign` (C12): documents are created and updated on a node with signing enabled, with both key types;
// every produced block is verified through DB.VerifySignature with the right and a wrong key; every signed block
// (and its signature block) is tampered one field at a time, re-encoded, and (a) verified directly, (b) pushed
// through the DAG sync entry point (overlay hook VerifSyncDAG, offline block service holding the genuine blocks)
// — as the pushed head itself and as a block linked from a genuine-looking head; a push that is not rejected would
// raise a merge event. Every outcome is compared with `drv sign`.
package main

import (
	"context"
	"crypto/sha256"
	"fmt"
	"github.com/sourcenetwork/defradb/internal/datastore"
	netConfig "github.com/sourcenetwork/defradb/net/config"
	"github.com/sourcenetwork/defradb/node"
	"os"
	"strings"
	"time"

	"github.com/ipfs/boxo/blockservice"
	"github.com/ipfs/boxo/blockstore"
	"github.com/ipfs/boxo/exchange/offline"
	blocks "github.com/ipfs/go-block-format"
	"github.com/ipfs/go-cid"
	ds "github.com/ipfs/go-datastore"
	dssync "github.com/ipfs/go-datastore/sync"
	cidlink "github.com/ipld/go-ipld-prime/linking/cid"
	"github.com/sourcenetwork/immutable"

	"github.com/sourcenetwork/defradb/acp/identity"
	"github.com/sourcenetwork/defradb/client"
	"github.com/sourcenetwork/defradb/crypto"
	"github.com/sourcenetwork/defradb/event"
	coreblock "github.com/sourcenetwork/defradb/internal/core/block"
	"github.com/sourcenetwork/defradb/internal/db"
	vc "github.com/sourcenetwork/defradb/internal/verifharness/common"
	vnode "github.com/sourcenetwork/defradb/internal/verifharness/node"
	defranet "github.com/sourcenetwork/defradb/net"
)

func must(err error) {
	if err != nil {
		panic(err)
	}
}

func sha256sum(b []byte) []byte {
	h := sha256.Sum256(b)
	return h[:]
}

func errClass(err error) string {
	if err == nil {
		return "ok"
	}
	s := err.Error()
	switch {
	case strings.Contains(s, "missing signature"), strings.Contains(s, "missing required signature"):
		return "missing"
	case strings.Contains(s, "different key"):
		return "mismatch"
	case strings.Contains(s, "signature verification"), strings.Contains(s, "invalid signature"), strings.Contains(s, "verification failed"),
		strings.Contains(s, "public key"):
		return "invalid"
	}
	if len(s) > 70 {
		s = s[:70]
	}
	return "err:" + strings.ReplaceAll(s, " ", "_")
}

type blockRec struct {
	cid    cid.Cid
	block  *coreblock.Block
	raw    []byte
	signed bool
	kind   string
}

// offline block service over a private blockstore seeded with the given raw blocks
func serviceWith(ctx context.Context, raws map[string][]byte) blockservice.BlockService {
	bs := blockstore.NewBlockstore(dssync.MutexWrap(ds.NewMapDatastore()))
	for c, raw := range raws {
		cc, err := cid.Decode(c)
		must(err)
		b, err := blocks.NewBlockWithCid(raw, cc)
		must(err)
		must(bs.Put(ctx, b))
	}
	return blockservice.New(bs, offline.Exchange(bs))
}

func runKeyType(ctx context.Context, out *vc.Out, r *vc.Rng, kt crypto.KeyType, ndocs int) {
	signer, err := identity.Generate(kt)
	must(err)
	other, err := identity.Generate(kt)
	must(err)
	otherType := crypto.KeyTypeEd25519
	if kt == crypto.KeyTypeEd25519 {
		otherType = crypto.KeyTypeSecp256k1
	}
	foreign, err := identity.Generate(otherType)
	must(err)
	// key level: every signature the key makes verifies under it, whatever its length (the encodings of r and s vary), and
	// none of them verifies for another message
	{
		nmsg := 3000
		rejected, forged, first := 0, 0, ""
		lens := map[int]int{}
		for i := 0; i < nmsg; i++ {
			msg := []byte(fmt.Sprintf("message %d under %s salt %d", i, kt, r.Intn(1<<30)))
			sig, err := signer.PrivateKey().Sign(msg)
			must(err)
			lens[len(sig)]++
			if ok, err := signer.PublicKey().Verify(msg, sig); err != nil || !ok {
				rejected++
				if first == "" {
					first = fmt.Sprintf("message %q, signature of %d bytes: ok=%v err=%v", msg, len(sig), ok, err)
				}
			}
			msg[0] ^= 1
			if ok, _ := signer.PublicKey().Verify(msg, sig); ok {
				forged++
			}
		}
		line := out.Lines
		out.Emit(fmt.Sprintf("keysweep %s %d", kt, nmsg), fmt.Sprintf("rejected=%d forged=%d", rejected, forged))
		for l, c := range lens {
			out.Stats[fmt.Sprintf("keysweep:%s:signature-bytes=%d", kt, l)] += c
		}
		if rejected > 0 {
			out.Oracle(line, fmt.Sprintf("[genuine-signature-rejected] key type %s: %d of %d signatures do not verify under the key that made them; first: %s", kt, rejected, nmsg, first))
		}
		if forged > 0 {
			out.Oracle(line, fmt.Sprintf("[signature-verifies-for-another-message] key type %s: %d of %d", kt, forged, nmsg))
		}
	}
	nd, err := vnode.NewMem(ctx, db.WithEnabledSigning(true))
	must(err)
	defer nd.Close()
	_, err = nd.DB.AddSchema(ctx, `type Doc { name: String age: Int points: Int @crdt(type: pcounter) }`)
	must(err)
	col, err := nd.DB.GetCollectionByName(ctx, "Doc")
	must(err)
	sub, err := nd.DB.Events().Subscribe(event.UpdateName)
	must(err)
	sctx := identity.WithContext(ctx, immutable.Some[identity.Identity](signer))
	var heads []cid.Cid
	drain := func() {
		for {
			select {
			case m := <-sub.Message():
				if u, ok := m.Data.(event.Update); ok {
					heads = append(heads, u.Cid)
				}
			case <-time.After(60 * time.Millisecond):
				return
			}
		}
	}
	for i := 0; i < ndocs; i++ {
		d, err := client.NewDocFromJSON([]byte(fmt.Sprintf(`{"name": "doc%d-%s", "age": %d, "points": %d}`, i, kt, 20+i, i)), col.Definition())
		must(err)
		must(col.Create(sctx, d))
		nup := r.Intn(3)
		for u := 0; u < nup; u++ {
			dd, err := col.Get(sctx, d.ID(), false)
			must(err)
			if r.Bool() {
				must(dd.Set("age", int64(30+u)))
			} else {
				must(dd.Set("points", int64(1+u)))
			}
			must(col.Update(sctx, dd))
		}
		if r.Chance(1, 4) {
			_, err := col.Delete(sctx, d.ID())
			must(err)
		}
	}
	drain()
	// collect every block reachable from the heads
	recs := map[string]*blockRec{}
	raws := map[string][]byte{}
	var visit func(c cid.Cid)
	visit = func(c cid.Cid) {
		if _, ok := recs[c.String()]; ok {
			return
		}
		blk, raw, err := nd.LoadBlock(ctx, c)
		must(err)
		kind := "field"
		if blk.Delta.IsComposite() {
			kind = "composite"
		}
		recs[c.String()] = &blockRec{cid: c, block: blk, raw: raw, signed: blk.Signature != nil, kind: kind}
		raws[c.String()] = raw
		if blk.Signature != nil {
			sb := nd.RawBlock(ctx, blk.Signature.Cid)
			raws[blk.Signature.Cid.String()] = sb
		}
		for _, l := range blk.AllLinks() {
			visit(l.Cid)
		}
	}
	for _, h := range heads {
		visit(h)
	}
	emit := func(op, res string) {
		// the property's own oracle, on the implementation alone
		switch {
		case strings.HasPrefix(op, "sync tamper=") && !strings.HasPrefix(op, "sync tamper=none") && res == "ok":
			out.Oracle(out.Lines, fmt.Sprintf("[forged-accepted] key type %s: a pushed DAG containing a signed block with %s passes the DAG sync (a merge event would be raised)", kt, op))
		case strings.HasPrefix(op, "sync tamper=none") && res != "ok":
			out.Oracle(out.Lines, fmt.Sprintf("[genuine-rejected] key type %s: a genuine signed block is rejected by the DAG sync: %s", kt, res))
		case strings.HasPrefix(op, "api sig=1 key=signer") && res != "ok":
			out.Oracle(out.Lines, fmt.Sprintf("[genuine-rejected] key type %s: VerifySignature with the signer's key reports %s", kt, res))
		case strings.HasPrefix(op, "api sig=1 key=") && !strings.HasSuffix(op, "signer") && res == "ok":
			out.Oracle(out.Lines, fmt.Sprintf("[wrong-key-accepted] key type %s: VerifySignature accepts %s", kt, op))
		}
		out.Emit(op, res)
		out.Count("op:" + strings.Fields(op)[0])
		out.Nontrivial(fmt.Sprintf("%s:%d", kt, out.Lines))
	}
	defer receivePath(ctx, out, kt, col, recs, raws, heads, emit)
	for _, rec := range recs {
		hasSig := "0"
		if rec.signed {
			hasSig = "1"
		}
		first := "0"
		if rec.kind == "composite" || rec.block.Delta.GetPriority() == 1 {
			first = "1"
		}
		// which blocks carry a signature: composites and first field blocks
		emit(fmt.Sprintf("carries %s prio1orComposite=%s", rec.kind, first), hasSig)
		// the API with the right key, another key of the same type, a key of the other type
		emit(fmt.Sprintf("api sig=%s key=signer", hasSig), errClass(nd.DB.VerifySignature(ctx, rec.cid.String(), signer.PublicKey())))
		emit(fmt.Sprintf("api sig=%s key=other", hasSig), errClass(nd.DB.VerifySignature(ctx, rec.cid.String(), other.PublicKey())))
		emit(fmt.Sprintf("api sig=%s key=foreign", hasSig), errClass(nd.DB.VerifySignature(ctx, rec.cid.String(), foreign.PublicKey())))
		if !rec.signed {
			continue
		}
		// genuine push of this block: accepted
		emit("sync tamper=none", errClass(defranet.VerifSyncDAG(ctx, serviceWith(ctx, raws), rec.block)))
		// single-field tamperings of the signed block
		type tamper struct {
			name string
			f    func(b *coreblock.Block)
		}
		someCid := rec.cid
		tampers := []tamper{
			{"delta-priority", func(b *coreblock.Block) { b.Delta.GetDelta().SetPriority(b.Delta.GetPriority() + 1) }},
			{"heads-add", func(b *coreblock.Block) {
				b.Heads = append(append([]cidlink.Link{}, b.Heads...), cidlink.Link{Cid: someCid})
			}},
			{"links-drop", func(b *coreblock.Block) {
				if len(b.Links) > 0 {
					b.Links = b.Links[1:]
				} else {
					b.Links = append(b.Links, coreblock.DAGLink{Name: "x", Link: cidlink.Link{Cid: someCid}})
				}
			}},
			{"encryption-link", func(b *coreblock.Block) { b.Encryption = &cidlink.Link{Cid: someCid} }},
		}
		if rec.kind == "field" {
			tampers = append(tampers, tamper{"delta-data", func(b *coreblock.Block) {
				d := append([]byte{}, b.Delta.GetData()...)
				if len(d) == 0 {
					d = []byte{1}
				} else {
					d[len(d)-1] ^= 1
				}
				b.Delta.SetData(d)
			}})
		}
		for _, tm := range tampers {
			tb := rec.block.Clone()
			tb.Signature = rec.block.Signature
			tm.f(tb)
			traw, err := tb.Marshal()
			must(err)
			tl, err := tb.GenerateLink()
			must(err)
			if tl.Cid.Equals(rec.cid) {
				continue // tampering had no effect on the encoding
			}
			// (a) pushed as the head
			emit("sync tamper="+tm.name+" at=head", errClass(defranet.VerifSyncDAG(ctx, serviceWith(ctx, raws), tb)))
			// (b) linked from a parent-less unsigned wrapper block that names it as its only head
			wr := rec.block.Clone()
			wr.Signature = nil
			wr.Heads = []cidlink.Link{tl}
			wr.Links = nil
			r2 := map[string][]byte{}
			for k, v := range raws {
				r2[k] = v
			}
			r2[tl.Cid.String()] = traw
			emit("sync tamper="+tm.name+" at=linked", errClass(defranet.VerifSyncDAG(ctx, serviceWith(ctx, r2), wr)))
		}
		// tamperings of the signature block
		sigRaw := raws[rec.block.Signature.Cid.String()]
		sig, err := coreblock.GetSignatureBlockFromBytes(sigRaw)
		must(err)
		sigTampers := []struct {
			name string
			f    func(s *coreblock.Signature)
		}{
			{"sig-value", func(s *coreblock.Signature) { s.Value = append([]byte{}, s.Value...); s.Value[len(s.Value)/2] ^= 0x40 }},
			{"sig-identity-other", func(s *coreblock.Signature) { s.Header.Identity = []byte(other.PublicKey().String()) }},
			{"sig-type", func(s *coreblock.Signature) {
				if s.Header.Type == coreblock.SignatureTypeEd25519 {
					s.Header.Type = coreblock.SignatureTypeECDSA256K
				} else {
					s.Header.Type = coreblock.SignatureTypeEd25519
				}
			}},
		}
		for _, st := range sigTampers {
			s2 := &coreblock.Signature{Header: sig.Header, Value: sig.Value}
			st.f(s2)
			s2raw, err := s2.Marshal()
			must(err)
			s2link := coreblock.GetLinkPrototype().BuildLink(sha256sum(s2raw))
			tb := rec.block.Clone()
			l := s2link.(cidlink.Link)
			tb.Signature = &l
			r2 := map[string][]byte{}
			for k, v := range raws {
				r2[k] = v
			}
			r2[l.Cid.String()] = s2raw
			emit("sync tamper="+st.name+" at=head", errClass(defranet.VerifSyncDAG(ctx, serviceWith(ctx, r2), tb)))
		}
	}
}

// receivePath: a victim node with a real peer receives forged heads through the push-log handler — twice each, as
// a replicator retry or a second route (pubsub and replicator) delivers them. The forged block stays in the victim's
// block store after the first, rejected delivery; the second one must be rejected all the same.
func receivePath(ctx context.Context, out *vc.Out, kt crypto.KeyType, col client.Collection, recs map[string]*blockRec,
	raws map[string][]byte, heads []cid.Cid, emit func(op, res string)) {
	dir, err := os.MkdirTemp("", "vsign")
	must(err)
	defer os.RemoveAll(dir)
	v, err := node.New(ctx,
		node.WithStoreType(node.BadgerStore), node.WithBadgerInMemory(true), node.WithStorePath(dir),
		node.WithDisableAPI(true), node.WithDisableP2P(false),
		netConfig.WithListenAddresses("/ip4/127.0.0.1/tcp/0"), netConfig.WithEnablePubSub(false),
		db.WithEnabledSigning(true))
	must(err)
	must(v.Start(ctx))
	defer func() { _ = v.Close(ctx) }()
	_, err = v.DB.AddSchema(ctx, `type Doc { name: String age: Int points: Int @crdt(type: pcounter) }`)
	must(err)
	vcol, err := v.DB.GetCollectionByName(ctx, "Doc")
	must(err)
	// what the forged heads link to is available locally (as after an earlier sync)
	bstore := datastore.BlockstoreFrom(v.DB.Rootstore())
	for c, raw := range raws {
		cc, err := cid.Decode(c)
		must(err)
		b, err := blocks.NewBlockWithCid(raw, cc)
		must(err)
		must(bstore.Put(ctx, b))
	}
	sender, err := identity.Generate(crypto.KeyTypeEd25519)
	must(err)
	_ = sender
	from := v.Peer.PeerInfo().ID // any well-formed peer id serves as the sender
	n := 0
	for _, h := range heads {
		rec := recs[h.String()]
		if rec == nil || rec.kind != "composite" || !rec.signed || n >= 3 {
			continue
		}
		n++
		docID := string(rec.block.Delta.GetDocID())
		tb := rec.block.Clone()
		tb.Signature = rec.block.Signature
		tb.Delta.GetDelta().SetPriority(tb.Delta.GetPriority() + 1)
		traw, err := tb.Marshal()
		must(err)
		tl, err := tb.GenerateLink()
		must(err)
		for k := 1; k <= 2; k++ {
			err := v.Peer.(*defranet.Peer).VerifReceivePushLog(ctx, from, docID, tl.Cid, vcol.Version().CollectionID, traw)
			res := errClass(err)
			if res == "ok" {
				out.Oracle(out.Lines, fmt.Sprintf("[forged-accepted] key type %s: delivery %d of a pushed head whose delta priority was changed under the original signature is accepted by the receive path", kt, k))
			}
			emit(fmt.Sprintf("recv tamper=delta-priority delivery=%d", k), res)
		}
		// and nothing of it reached the document
		time.Sleep(150 * time.Millisecond)
		did, err := client.NewDocIDFromString(docID)
		must(err)
		if _, err := vcol.Get(ctx, did, true); err == nil {
			out.Oracle(out.Lines, fmt.Sprintf("[forged-accepted] key type %s: a document exists on the receiver after nothing but forged deliveries", kt))
		}
	}
	_ = col
}

func main() {
	f := vc.ParseFlags()
	out := vc.NewOut(f.OutDir)
	ctx := context.Background()
	r := vc.NewRng(f.Seed)
	n := 4
	if f.Tier == "thorough" {
		n = 120
	}
	if f.N > 0 {
		n = f.N
	}
	for _, kt := range []crypto.KeyType{crypto.KeyTypeSecp256k1, crypto.KeyTypeEd25519} {
		func() {
			defer func() {
				if rr := recover(); rr != nil {
					out.Oracle(out.Lines, fmt.Sprintf("[panic] key type %s: %v", kt, rr))
				}
			}()
			runKeyType(ctx, out, r, kt, n)
		}()
	}
	// the property's own oracle on the implementation alone is the model comparison here: every line states an
	// expected class that follows from the statement (right key ok, any other key / any tampering rejected)
	out.Close(map[string]any{"seed": f.Seed, "docs_per_key_type": n})
}
