//go:build verif

// Engine `fault` (C05, part of C20): for every mutating API operation of a catalogue and every prior
// database of a generator, run the operation once fault-free to learn the number K of storage
// operations it issues, then for EVERY k <= K run it again on a byte-identical copy of the prior store
// with the k-th storage operation failing, and require: error reported and the store byte-identical to
// before (and no update event), or success reported and the store byte-identical to the fault-free
// result (and the same update events).
package main

import (
	"bytes"
	"context"
	"encoding/json"
	"fmt"
	"os"
	"path/filepath"
	"runtime/debug"
	"sort"
	"strings"
	"sync"
	"time"

	badgerds "github.com/dgraph-io/badger/v4"
	"github.com/ipfs/go-cid"
	"github.com/sourcenetwork/corekv"
	"github.com/sourcenetwork/corekv/badger"
	"github.com/sourcenetwork/immutable"
	"github.com/sourcenetwork/lens/host-go/config/model"

	"github.com/sourcenetwork/defradb/acp/dac"
	"github.com/sourcenetwork/defradb/client"
	"github.com/sourcenetwork/defradb/event"
	vc "github.com/sourcenetwork/defradb/internal/verifharness/common"
	vfs "github.com/sourcenetwork/defradb/internal/verifharness/faultstore"
	vnode "github.com/sourcenetwork/defradb/internal/verifharness/node"
)

type kv = [2][]byte

func must(err error) {
	if err != nil {
		panic(err)
	}
}

func newBadger() corekv.TxnStore {
	s, err := badger.NewDatastore("", badgerds.DefaultOptions("").WithInMemory(true).WithLoggingLevel(badgerds.ERROR))
	must(err)
	return s
}

func dump(ctx context.Context, s corekv.Reader) []kv {
	it, err := s.Iterator(ctx, corekv.IterOptions{})
	must(err)
	var out []kv
	for {
		ok, err := it.Next()
		must(err)
		if !ok {
			break
		}
		v, err := it.Value()
		must(err)
		out = append(out, kv{append([]byte{}, it.Key()...), append([]byte{}, v...)})
	}
	must(it.Close())
	sort.Slice(out, func(i, j int) bool { return bytes.Compare(out[i][0], out[j][0]) < 0 })
	return out
}

func load(ctx context.Context, s corekv.Writer, kvs []kv) {
	for _, e := range kvs {
		must(s.Set(ctx, e[0], e[1]))
	}
}

func equalDump(a, b []kv) (bool, string) {
	i, j := 0, 0
	for i < len(a) || j < len(b) {
		switch {
		case i == len(a):
			return false, fmt.Sprintf("extra key %q", b[j][0])
		case j == len(b):
			return false, fmt.Sprintf("missing key %q", a[i][0])
		}
		c := bytes.Compare(a[i][0], b[j][0])
		if c < 0 {
			return false, fmt.Sprintf("missing key %q", a[i][0])
		} else if c > 0 {
			return false, fmt.Sprintf("extra key %q", b[j][0])
		} else if !bytes.Equal(a[i][1], b[j][1]) {
			return false, fmt.Sprintf("different value at %q", a[i][0])
		}
		i++
		j++
	}
	return true, ""
}

// ---------------------------------------------------------------- priors

type prior struct {
	name    string
	kvs     []kv
	colID   string
	docIDs  []string
	pending *pendingMerge // a remote commit whose blocks are stored but not merged
}

type pendingMerge struct {
	docID string
	cid   cid.Cid
}

const sdlUser = `type User {
	name: String
	age: Int
	email: String
	verified: Boolean
}`

const sdlUserIdx = `type User {
	name: String @index
	age: Int @index(direction: DESC)
	email: String @index(unique: true)
	verified: Boolean
}`

func docJSON(i int) string {
	return fmt.Sprintf(`{"name": "user%d", "age": %d, "email": "u%d@x.org", "verified": %v}`, i, 20+i, i, i%2 == 0)
}

func buildPrior(ctx context.Context, name, sdl string, ndocs int, withRemote bool) *prior {
	return buildPriorX(ctx, name, sdl, ndocs, withRemote, false)
}

// concurrent: the local node also updates document 0 after the remote commit was made, so the pending
// remote commit's parent is stored but is no longer a head.
func buildPriorX(ctx context.Context, name, sdl string, ndocs int, withRemote, concurrent bool) *prior {
	root := newBadger()
	n, err := vnode.NewOn(ctx, root, dac.NoDocumentACP)
	must(err)
	_, err = n.DB.AddSchema(ctx, sdl)
	must(err)
	col, err := n.DB.GetCollectionByName(ctx, "User")
	must(err)
	p := &prior{name: name, colID: col.Version().CollectionID}
	for i := 0; i < ndocs; i++ {
		d, err := client.NewDocFromJSON([]byte(docJSON(i)), col.Definition())
		must(err)
		must(col.Create(ctx, d))
		p.docIDs = append(p.docIDs, d.ID().String())
	}
	if withRemote && ndocs > 0 {
		// a second node with the same history updates doc 0; its blocks are copied over, unmerged
		other, err := vnode.NewMem(ctx)
		must(err)
		_, err = other.DB.AddSchema(ctx, sdl)
		must(err)
		_, err = vnode.CopyBlocks(ctx, n, other)
		must(err)
		ocol, err := other.DB.GetCollectionByName(ctx, "User")
		must(err)
		sub, err := other.DB.Events().Subscribe(event.UpdateName)
		must(err)
		// the other node first has to know the documents: merge their genesis commits
		for _, id := range p.docIDs {
			hs, err := n.Heads(ctx, id, "C")
			must(err)
			must(other.DB.VerifExecuteMerge(ctx, p.colID, id, hs[0].Cid))
		}
		did, _ := client.NewDocIDFromString(p.docIDs[0])
		d, err := ocol.Get(ctx, did, false)
		must(err)
		must(d.Set("name", "remote"))
		must(d.Set("age", int64(77)))
		must(ocol.Update(ctx, d))
		select {
		case m := <-sub.Message():
			u := m.Data.(event.Update)
			p.pending = &pendingMerge{docID: u.DocID, cid: u.Cid}
		case <-time.After(5 * time.Second):
			panic("no update event from the remote node")
		}
		_, err = vnode.CopyBlocks(ctx, other, n)
		must(err)
		other.Close()
		if concurrent {
			ld, err := col.Get(ctx, did, false)
			must(err)
			must(ld.Set("email", "local@x.org"))
			must(ld.Set("name", "localname"))
			must(col.Update(ctx, ld))
		}
	}
	p.kvs = dump(ctx, root)
	n.DB.Close()
	_ = root.Close()
	return p
}

// ---------------------------------------------------------------- operations

type env struct {
	ctx context.Context
	n   *vnode.Node
	p   *prior
	dir string
	// the collection handle an index operation was made through (a program keeps using it after the call)
	handle client.Collection
}

type opDef struct {
	name  string
	needs func(p *prior) bool
	run   func(e *env) error
}

func gqlErr(e *env, q string) error {
	res := e.n.DB.ExecRequest(e.ctx, q)
	if len(res.GQL.Errors) > 0 {
		return res.GQL.Errors[0]
	}
	return nil
}

func (e *env) col() (client.Collection, error) { return e.n.DB.GetCollectionByName(e.ctx, "User") }

func hasDocs(k int) func(*prior) bool { return func(p *prior) bool { return len(p.docIDs) >= k } }
func always(*prior) bool              { return true }

var ops = []opDef{
	{"create", always, func(e *env) error {
		col, err := e.col()
		if err != nil {
			return err
		}
		d, err := client.NewDocFromJSON([]byte(`{"name": "new", "age": 99, "email": "new@x.org"}`), col.Definition())
		if err != nil {
			return err
		}
		return col.Create(e.ctx, d)
	}},
	{"create-many", always, func(e *env) error {
		col, err := e.col()
		if err != nil {
			return err
		}
		var docs []*client.Document
		for i := 0; i < 3; i++ {
			d, err := client.NewDocFromJSON([]byte(fmt.Sprintf(`{"name": "many%d", "age": %d, "email": "m%d@x.org"}`, i, 50+i, i)), col.Definition())
			if err != nil {
				return err
			}
			docs = append(docs, d)
		}
		return col.CreateMany(e.ctx, docs)
	}},
	{"gql-create-two", always, func(e *env) error {
		return gqlErr(e, `mutation { create_User(input: [{name: "g1", age: 61, email: "g1@x.org"}, {name: "g2", age: 62, email: "g2@x.org"}]) { _docID } }`)
	}},
	{"update", hasDocs(1), func(e *env) error {
		col, err := e.col()
		if err != nil {
			return err
		}
		did, err := client.NewDocIDFromString(e.p.docIDs[0])
		if err != nil {
			return err
		}
		d, err := col.Get(e.ctx, did, false)
		if err != nil {
			return err
		}
		if err := d.Set("name", "changed"); err != nil {
			return err
		}
		if err := d.Set("age", int64(5)); err != nil {
			return err
		}
		return col.Update(e.ctx, d)
	}},
	{"delete", hasDocs(1), func(e *env) error {
		col, err := e.col()
		if err != nil {
			return err
		}
		did, err := client.NewDocIDFromString(e.p.docIDs[0])
		if err != nil {
			return err
		}
		_, err = col.Delete(e.ctx, did)
		return err
	}},
	{"gql-update-filter", hasDocs(2), func(e *env) error {
		return gqlErr(e, `mutation { update_User(filter: {age: {_ge: 20}}, input: {verified: true, name: "bulk"}) { _docID } }`)
	}},
	{"gql-delete-filter", hasDocs(2), func(e *env) error {
		return gqlErr(e, `mutation { delete_User(filter: {age: {_ge: 21}}) { _docID } }`)
	}},
	{"col-update-with-filter", hasDocs(2), func(e *env) error {
		col, err := e.col()
		if err != nil {
			return err
		}
		_, err = col.UpdateWithFilter(e.ctx, map[string]any{"age": map[string]any{"_ge": 20}}, `{"name": "viaFilter", "verified": false}`)
		return err
	}},
	{"col-delete-with-filter", hasDocs(2), func(e *env) error {
		col, err := e.col()
		if err != nil {
			return err
		}
		_, err = col.DeleteWithFilter(e.ctx, map[string]any{"age": map[string]any{"_ge": 21}})
		return err
	}},
	{"gql-upsert-update", hasDocs(1), func(e *env) error {
		return gqlErr(e, `mutation { upsert_User(filter: {name: {_eq: "user0"}}, create: {name: "user0", age: 1, email: "up@x.org"}, update: {age: 41}) { _docID } }`)
	}},
	{"gql-upsert-create", always, func(e *env) error {
		return gqlErr(e, `mutation { upsert_User(filter: {name: {_eq: "nobody"}}, create: {name: "nobody", age: 1, email: "nb@x.org"}, update: {age: 41}) { _docID } }`)
	}},
	{"create-index", always, func(e *env) error {
		col, err := e.col()
		if err != nil {
			return err
		}
		e.handle = col
		_, err = col.CreateIndex(e.ctx, client.IndexCreateRequest{Name: "verif_idx", Fields: []client.IndexedFieldDescription{{Name: "verified"}, {Name: "age", Descending: true}}})
		return err
	}},
	{"drop-index", func(p *prior) bool { return strings.Contains(p.name, "idx") }, func(e *env) error {
		col, err := e.col()
		if err != nil {
			return err
		}
		idx, err := col.GetIndexes(e.ctx)
		if err != nil {
			return err
		}
		if len(idx) == 0 {
			return fmt.Errorf("no index")
		}
		e.handle = col
		return col.DropIndex(e.ctx, idx[0].Name)
	}},
	{"add-schema", always, func(e *env) error {
		_, err := e.n.DB.AddSchema(e.ctx, `type Book { title: String rating: Float }`)
		return err
	}},
	{"patch-schema", always, func(e *env) error {
		return e.n.DB.PatchSchema(e.ctx, `[{"op": "add", "path": "/User/Fields/-", "value": {"Name": "nick", "Kind": "String"}}]`, immutable.None[model.Lens](), true)
	}},
	{"import", always, func(e *env) error {
		return e.n.DB.BasicImport(e.ctx, filepath.Join(e.dir, "import.json"))
	}},
	{"merge-remote", func(p *prior) bool { return p.pending != nil }, func(e *env) error {
		return e.n.DB.VerifExecuteMerge(e.ctx, e.p.colID, e.p.pending.docID, e.p.pending.cid)
	}},
}

// ---------------------------------------------------------------- one run

type outcome struct {
	err    error
	panicv any
	after  []kv
	events int
	ops    int
	fired  string
	// the GraphQL types the node serves before and after the call (object types and their fields)
	gqlBefore, gqlAfter string
	// the indexes listed by the handle the call was made through and by a handle fetched after the call
	handleIdx, freshIdx string
}

const barrierName = event.Name("verif-barrier")

// servedTypes lists the object types (with their fields) of the GraphQL schema the node serves right now; the types
// generated per collection (filter arguments, mutation inputs) follow from these
func servedTypes(ctx context.Context, n *vnode.Node) string {
	res := n.DB.ExecRequest(ctx, `query { __schema { types { name kind fields { name } } } }`)
	if len(res.GQL.Errors) > 0 {
		return fmt.Sprint("error: ", res.GQL.Errors)
	}
	b, _ := json.Marshal(res.GQL.Data)
	var m struct {
		Schema struct {
			Types []struct {
				Name   string
				Kind   string
				Fields []struct{ Name string }
			}
		} `json:"__schema"`
	}
	if err := json.Unmarshal(b, &m); err != nil {
		return "error: " + err.Error()
	}
	var out []string
	for _, t := range m.Schema.Types {
		if t.Kind != "OBJECT" || strings.HasPrefix(t.Name, "__") {
			continue
		}
		var fs []string
		for _, f := range t.Fields {
			fs = append(fs, f.Name)
		}
		sort.Strings(fs)
		out = append(out, t.Name+"("+strings.Join(fs, ",")+")")
	}
	sort.Strings(out)
	return strings.Join(out, " ")
}

func runOnce(ctx context.Context, p *prior, op opDef, k int, dir string) (o outcome) {
	inner := newBadger()
	load(ctx, inner, p.kvs)
	fs := vfs.Wrap(inner)
	n, err := vnode.NewOn(ctx, fs, dac.NoDocumentACP)
	must(err)
	sub, err := n.DB.Events().Subscribe(event.UpdateName, barrierName)
	must(err)
	e := &env{ctx: ctx, n: n, p: p, dir: dir}
	o.gqlBefore = servedTypes(ctx, n)
	func() {
		defer func() {
			if r := recover(); r != nil {
				o.panicv = r
				if fs.KeepTrace && fmt.Sprint(k) == os.Getenv("VERIF_TRACE") {
					fmt.Fprintf(os.Stderr, "TRACE-PANIC %s %s\n%s\n", p.name, op.name, strings.Join(fs.Trace, "\n"))
				}
				if os.Getenv("VERIF_STACK") != "" {
					fmt.Fprintf(os.Stderr, "PANIC %v\n%s\n", r, debug.Stack())
				}
			}
		}()
		fs.KeepTrace = os.Getenv("VERIF_TRACE") != ""
		fs.Arm(k)
		o.err = op.run(e)
		if fs.KeepTrace && (k == 0 || fmt.Sprint(k) == os.Getenv("VERIF_TRACE")) {
			fmt.Fprintf(os.Stderr, "TRACE %s %s\n%s\n", p.name, op.name, strings.Join(fs.Trace, "\n"))
		}
	}()
	o.ops = fs.Disarm()
	o.fired = fs.Fired
	// all update events published so far have arrived once our barrier comes back
	n.DB.Events().Publish(event.NewMessage(barrierName, 1))
	for done := false; !done; {
		select {
		case m := <-sub.Message():
			if _, ok := m.Data.(event.Update); ok {
				o.events++
			} else {
				done = true
			}
		case <-time.After(10 * time.Second):
			panic("bus barrier timed out")
		}
	}
	if e.handle != nil {
		names := func(c client.Collection) string {
			ds, err := c.GetIndexes(ctx)
			if err != nil {
				return "error:" + err.Error()
			}
			var ns []string
			for _, d := range ds {
				ns = append(ns, fmt.Sprintf("%s(%d fields)", d.Name, len(d.Fields)))
			}
			sort.Strings(ns)
			return "[" + strings.Join(ns, " ") + "]"
		}
		o.handleIdx = names(e.handle)
		if fresh, err := n.DB.GetCollectionByName(ctx, "User"); err == nil {
			o.freshIdx = names(fresh)
		} else {
			o.freshIdx = "error:" + err.Error()
		}
	}
	o.after = dump(ctx, inner)
	o.gqlAfter = servedTypes(ctx, n)
	n.DB.Close()
	_ = inner.Close()
	return o
}

func firstDiffWord(a, b string) string {
	as, bs := strings.Fields(a), strings.Fields(b)
	seen := map[string]bool{}
	for _, x := range as {
		seen[x] = true
	}
	for _, x := range bs {
		if !seen[x] {
			return "now serves " + x
		}
	}
	seenB := map[string]bool{}
	for _, x := range bs {
		seenB[x] = true
	}
	for _, x := range as {
		if !seenB[x] {
			return "no longer serves " + x
		}
	}
	return "order"
}

func main() {
	f := vc.ParseFlags()
	out := vc.NewOut(f.OutDir)
	ctx := context.Background()
	dir := f.OutDir
	must(os.WriteFile(filepath.Join(dir, "import.json"), []byte(`{"User":[{"name":"imp1","age":31,"email":"i1@x.org","verified":true},{"name":"imp2","age":32,"email":"i2@x.org","verified":false},{"name":"imp3","age":33,"email":"i3@x.org","verified":null}]}`), 0o644))

	priors := []*prior{
		buildPrior(ctx, "plain-3docs", sdlUser, 3, true),
		buildPrior(ctx, "idx-4docs", sdlUserIdx, 4, true),
		buildPriorX(ctx, "plain-2docs-concurrent", sdlUser, 2, true, true),
	}
	if f.Tier == "thorough" {
		priors = append(priors,
			buildPrior(ctx, "plain-empty", sdlUser, 0, false),
			buildPrior(ctx, "idx-empty", sdlUserIdx, 0, false),
			buildPrior(ctx, "plain-9docs", sdlUser, 9, true),
			buildPrior(ctx, "idx-9docs", sdlUserIdx, 9, true),
		)
	}

	type job struct {
		p  *prior
		op opDef
		k  int
		ff *outcome
	}
	type result struct {
		j   job
		o   outcome
		cls string
		why string
	}
	var results []result
	var mu sync.Mutex
	jobs := make(chan job, 64)
	var wg sync.WaitGroup
	classify := func(j job, o outcome) (string, string) {
		switch {
		case o.panicv != nil:
			return "panic", fmt.Sprint(o.panicv)
		case o.err != nil:
			if eq, why := equalDump(j.p.kvs, o.after); !eq {
				return "err-changed", why
			}
			if o.events != 0 {
				return "event-without-commit", fmt.Sprintf("%d update events although the call failed", o.events)
			}
			if o.gqlAfter != o.gqlBefore {
				return "err-changed", "the GraphQL types the node serves changed although the call failed: " + firstDiffWord(o.gqlBefore, o.gqlAfter)
			}
			if o.handleIdx != o.freshIdx {
				return "err-changed-handle", fmt.Sprintf("the collection handle the failed call was made through lists the indexes %s, the stored collection has %s", o.handleIdx, o.freshIdx)
			}
			return "atomic", "err-unchanged"
		default:
			if eq, why := equalDump(j.ff.after, o.after); !eq {
				if eq0, _ := equalDump(j.p.kvs, o.after); eq0 {
					return "ok-nothing", "success reported but nothing was stored: " + why
				}
				return "ok-partial", why
			}
			if o.events != j.ff.events {
				return "ok-events-differ", fmt.Sprintf("%d update events, fault-free run publishes %d", o.events, j.ff.events)
			}
			if o.gqlAfter != j.ff.gqlAfter {
				return "ok-partial", "the GraphQL types the node serves differ from those after the fault-free run: " + firstDiffWord(j.ff.gqlAfter, o.gqlAfter)
			}
			if o.handleIdx != o.freshIdx {
				return "ok-partial", fmt.Sprintf("the collection handle the call was made through lists the indexes %s, the stored collection has %s", o.handleIdx, o.freshIdx)
			}
			return "atomic", "ok-complete"
		}
	}
	for w := 0; w < 12; w++ {
		wg.Add(1)
		go func() {
			defer wg.Done()
			for j := range jobs {
				o := runOnce(ctx, j.p, j.op, j.k, dir)
				cls, why := classify(j, o)
				mu.Lock()
				results = append(results, result{j, o, cls, why})
				mu.Unlock()
			}
		}()
	}
	var ffs []*outcome
	for _, p := range priors {
		for _, op := range ops {
			if !op.needs(p) {
				continue
			}
			if only := os.Getenv("VERIF_ONLY"); only != "" && only != op.name {
				continue
			}
			ff := runOnce(ctx, p, op, 0, dir)
			ffs = append(ffs, &ff)
			if ff.err != nil || ff.panicv != nil {
				out.Emit(fmt.Sprintf("faultfree %s %s", p.name, op.name), fmt.Sprintf("setup-error:%v%v", ff.err, ff.panicv))
				out.Oracle(out.Lines-1, fmt.Sprintf("[harness-setup] fault-free run of %s on %s fails: %v %v", op.name, p.name, ff.err, ff.panicv))
				continue
			}
			if eq, _ := equalDump(p.kvs, ff.after); eq {
				out.Oracle(out.Lines, fmt.Sprintf("[harness-setup] fault-free run of %s on %s changes nothing", op.name, p.name))
			}
			out.Count(fmt.Sprintf("K:%s:%s=%d", p.name, op.name, ff.ops))
			for k := 1; k <= ff.ops; k++ {
				jobs <- job{p, op, k, &ff}
			}
		}
	}
	close(jobs)
	wg.Wait()
	sort.Slice(results, func(a, b int) bool {
		x, y := results[a].j, results[b].j
		if x.p.name != y.p.name {
			return x.p.name < y.p.name
		}
		if x.op.name != y.op.name {
			return x.op.name < y.op.name
		}
		return x.k < y.k
	})
	for _, r := range results {
		line := out.Lines
		out.Emit(fmt.Sprintf("fault %s %s %d %s", r.j.p.name, r.j.op.name, r.j.k, r.o.fired), r.cls)
		out.Count("outcome:" + r.why)
		out.Count("fired:" + r.o.fired)
		out.Nontrivial(fmt.Sprintf("%s/%s/%d", r.j.p.name, r.j.op.name, r.j.k))
		if r.cls != "atomic" {
			out.Oracle(line, fmt.Sprintf("[%s] operation %s on prior %s with the %d-th storage operation (%s) failing: %s (error reported: %v)", r.cls, r.j.op.name, r.j.p.name, r.j.k, r.o.fired, r.why, r.o.err))
		}
	}
	out.Close(map[string]any{"seed": f.Seed, "priors": len(priors), "exhaustive_over_k": true})
}
