//go:build verif

package main

import (
	"context"
	"errors"
	"fmt"
	"os"
	"runtime/debug"
	"strings"

	badgerds "github.com/dgraph-io/badger/v4"
	"github.com/sourcenetwork/corekv"
	"github.com/sourcenetwork/corekv/badger"

	"github.com/sourcenetwork/defradb/acp/dac"
	"github.com/sourcenetwork/defradb/client"
	vnode "github.com/sourcenetwork/defradb/internal/verifharness/node"
)

type st struct{ corekv.TxnStore }
type tx struct{ corekv.Txn }

var trace bool

func (s st) NewTxn(ro bool) corekv.Txn { return tx{s.TxnStore.NewTxn(ro)} }
func (t tx) Get(ctx context.Context, k []byte) ([]byte, error) {
	v, err := t.Txn.Get(ctx, k)
	if trace && errors.Is(err, corekv.ErrNotFound) {
		s := string(debug.Stack())
		var keep []string
		for _, l := range strings.Split(s, "\n") {
			if strings.Contains(l, "/repo/") {
				keep = append(keep, strings.TrimSpace(l))
			}
		}
		fmt.Printf("NOTFOUND %q\n  %s\n", k, strings.Join(keep[:min(len(keep), 14)], "\n  "))
	}
	return v, err
}

func main() {
	ctx := context.Background()
	root, _ := badger.NewDatastore("", badgerds.DefaultOptions("").WithInMemory(true).WithLoggingLevel(badgerds.ERROR))
	nd, err := vnode.NewOn(ctx, st{root}, dac.NoDocumentACP)
	if err != nil {
		panic(err)
	}
	sdl := `type Doc { name: String age: Int score: Float }`
	if os.Getenv("IDX") == "2" {
		sdl = `type Doc @index(includes: [{field: "name"}, {field: "age", direction: DESC}]) { name: String age: Int score: Float }`
	} else if os.Getenv("IDX") != "" {
		sdl = `type Doc { name: String age: Int @index score: Float }`
	}
	_, err = nd.DB.AddSchema(ctx, sdl)
	if err != nil {
		panic(err)
	}
	col, _ := nd.DB.GetCollectionByName(ctx, "Doc")
	ages := []any{int64(10), nil, int64(30), int64(40), nil, int64(60)}
	for i, a := range ages {
		m := map[string]any{"name": fmt.Sprint("n", i)}
		if a != nil {
			m["age"] = a
		}
		d, _ := client.NewDocFromMap(m, col.Definition())
		_ = col.Create(ctx, d)
	}
	trace = false
	for _, q := range os.Args[1:] {
		fmt.Println(q, "=>", nd.GQL(ctx, q))
	}
}
