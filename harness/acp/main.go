//go:build verif

// Engine `acp` (C10): a node with local document access control, two related policy-protected collections (Author with
// an indexed field, Book), an owner O, a grantee R, a stranger S and the anonymous requester A. A generated history of
// public and owner-registered documents, relationship grants and revocations, and update/delete attempts by every
// requester. `vis` asks, per requester, which documents each access path yields (scan, index lookup, by-id, both join
// directions, counts, commit history, time travel, deleted listing) and is compared with `drv acp`; `check` rebuilds
// the history on a twin node that never contained the documents the requester cannot read and compares the answers
// to generated requests of many shapes; `sub` probes subscriptions; every denied mutation is checked to change nothing.
package main

import (
	"context"
	"encoding/json"
	"fmt"
	"os"
	"runtime/debug"
	"sort"
	"strconv"
	"strings"
	"time"

	"github.com/sourcenetwork/immutable"

	"github.com/sourcenetwork/defradb/acp/dac"
	"github.com/sourcenetwork/defradb/acp/identity"
	"github.com/sourcenetwork/defradb/client"
	"github.com/sourcenetwork/defradb/crypto"
	vc "github.com/sourcenetwork/defradb/internal/verifharness/common"
	vnode "github.com/sourcenetwork/defradb/internal/verifharness/node"

	badgerds "github.com/dgraph-io/badger/v4"
	"github.com/sourcenetwork/corekv/badger"
)

const policy = `
name: Verif Policy
description: A Policy
actor:
  name: actor
resources:
  users:
    permissions:
      read:
        expr: owner + reader + updater + deleter
      update:
        expr: owner + updater
      delete:
        expr: owner + deleter
    relations:
      owner:
        types:
          - actor
      reader:
        types:
          - actor
      updater:
        types:
          - actor
      deleter:
        types:
          - actor
`

const noteSchema = `
type Note @branchable @policy(id: "%[1]s", resource: "users") {
	text: String
}`

func schemaFor(policyID string, withNote bool) string {
	sdl := authorBookSchema
	if withNote {
		sdl += noteSchema
	}
	return fmt.Sprintf(sdl, policyID)
}

const authorBookSchema = `
type Author @policy(id: "%[1]s", resource: "users") {
	name: String @index
	age: Int
	books: [Book]
}
type Book @policy(id: "%[1]s", resource: "users") {
	title: String
	pages: Int
	author: Author
}`

func must(err error) {
	if err != nil {
		panic(err)
	}
}

type env struct {
	n        *vnode.Node
	policyID string
}

type actors struct {
	ids map[string]immutable.Option[identity.Identity]
}

func (a *actors) ctx(ctx context.Context, who string) context.Context {
	return identity.WithContext(ctx, a.ids[who])
}

func (a *actors) did(who string) string {
	if who == "*" {
		return "*"
	}
	return a.ids[who].Value().DID()
}

func newEnv(ctx context.Context, ac *actors, withNote bool) *env {
	root, err := badger.NewDatastore("", badgerds.DefaultOptions("").WithInMemory(true).WithLoggingLevel(badgerds.ERROR))
	must(err)
	acp, err := dac.NewLocalDocumentACP("")
	must(err)
	nd, err := vnode.NewOn(ctx, root, immutable.Some(acp))
	must(err)
	res, err := nd.DB.AddDACPolicy(ac.ctx(ctx, "O"), policy)
	must(err)
	_, err = nd.DB.AddSchema(ctx, schemaFor(res.PolicyID, withNote))
	must(err)
	return &env{n: nd, policyID: res.PolicyID}
}

type docInfo struct {
	initJS string // the content the document was created with (a create with the same content addresses the same document)
	label   string
	col     string
	private bool
	docID   string
	fields  map[string]any // current values as last successfully written on the real node
	deleted bool
	rels    map[string]map[string]bool // target -> relation -> granted
}

type world struct {
	ctx     context.Context
	out     *vc.Out
	caseID  uint64
	ac      *actors
	real    *env
	docs    map[string]*docInfo
	order   []string // labels in creation order
	history []string // successful mutating lines
	twins   []*env
	rng     *vc.Rng
	note    bool     // the schema has the @branchable collection Note
	bad     []string // requests of the current observation that hung or panicked
}

func (w *world) close() {
	for _, t := range w.twins {
		t.n.Close()
	}
	if w.real != nil {
		w.real.n.Close()
	}
}

// --- the specification of who may do what (used for building twins and for the implementation-only oracles) ---

func (d *docInfo) has(who, rel string) bool {
	if who != "A" && d.rels[who][rel] {
		return true
	}
	return d.rels["*"][rel]
}

func (d *docInfo) canRead(who string) bool {
	if !d.private || who == "O" {
		return true
	}
	return d.has(who, "reader") || d.has(who, "updater") || d.has(who, "deleter")
}

func (d *docInfo) canUpdate(who string) bool {
	if !d.private || who == "O" {
		return true
	}
	return d.has(who, "updater")
}

func (d *docInfo) canDelete(who string) bool {
	if !d.private || who == "O" {
		return true
	}
	return d.has(who, "deleter")
}

// --- executing history lines on an environment ---

func (w *world) substitute(js string) string {
	for l, d := range w.docs {
		js = strings.ReplaceAll(js, `"@`+l+`"`, strconv.Quote(d.docID))
	}
	return js
}

func gqlInput(fields map[string]any) string {
	var parts []string
	keys := make([]string, 0, len(fields))
	for k := range fields {
		keys = append(keys, k)
	}
	sort.Strings(keys)
	for _, k := range keys {
		b, _ := json.Marshal(fields[k])
		parts = append(parts, k+": "+string(b))
	}
	return "{" + strings.Join(parts, ", ") + "}"
}

// apply executes one history line on e; it returns the result class.
func (w *world) apply(e *env, line string) string {
	t := strings.SplitN(line, " ", 5)
	switch t[0] {
	case "doc": // doc <label> <col> <O|-> <json>
		label, colName, owner, js := t[1], t[2], t[3], t[4]
		col, err := e.n.DB.GetCollectionByName(w.ctx, colName)
		must(err)
		d, err := client.NewDocFromJSON([]byte(w.substitute(js)), col.Definition())
		if err != nil {
			return "error:" + short(err)
		}
		cctx := w.ctx
		if owner == "O" {
			cctx = w.ac.ctx(w.ctx, "O")
		}
		if err := col.Create(cctx, d); err != nil {
			return "error:" + short(err)
		}
		if e == w.real {
			var f map[string]any
			must(json.Unmarshal([]byte(js), &f))
			w.docs[label] = &docInfo{label: label, col: colName, private: owner == "O", docID: d.ID().String(), fields: f, rels: map[string]map[string]bool{}, initJS: js}
			w.order = append(w.order, label)
		}
		return "ok"
	case "recreate": // recreate <who> <label>: a create with the content the document was created with
		d := w.docs[t[2]]
		col, err := e.n.DB.GetCollectionByName(w.ctx, d.col)
		must(err)
		nd, err := client.NewDocFromJSON([]byte(w.substitute(d.initJS)), col.Definition())
		must(err)
		if err := col.Create(w.ac.ctx(w.ctx, t[1]), nd); err != nil {
			return "error"
		}
		return "ok"
	case "rel": // rel <grant|revoke> <relation> <label> <target>
		d := w.docs[t[3]]
		octx := w.ac.ctx(w.ctx, "O")
		if t[1] == "grant" {
			_, err := e.n.DB.AddDACActorRelationship(octx, d.col, d.docID, t[2], w.ac.did(t[4]))
			if err != nil {
				return "error"
			}
		} else {
			_, err := e.n.DB.DeleteDACActorRelationship(octx, d.col, d.docID, t[2], w.ac.did(t[4]))
			if err != nil {
				return "error"
			}
		}
		if e == w.real {
			if d.rels[t[4]] == nil {
				d.rels[t[4]] = map[string]bool{}
			}
			d.rels[t[4]][t[2]] = t[1] == "grant"
		}
		return "ok"
	case "upd": // upd <who> <label> <json patch>
		t = strings.SplitN(line, " ", 4)
		d := w.docs[t[2]]
		var patch map[string]any
		must(json.Unmarshal([]byte(t[3]), &patch))
		q := fmt.Sprintf(`mutation { update_%s(docID: "%s", input: %s) { _docID } }`, d.col, d.docID, gqlInput(patch))
		res := e.n.GQL(w.ac.ctx(w.ctx, t[1]), q)
		if strings.Contains(res, d.docID) {
			if e == w.real {
				for k, v := range patch {
					d.fields[k] = v
				}
			}
			return "ok"
		}
		return "denied"
	case "del": // del <who> <label>
		d := w.docs[t[2]]
		q := fmt.Sprintf(`mutation { delete_%s(docID: "%s") { _docID } }`, d.col, d.docID)
		res := e.n.GQL(w.ac.ctx(w.ctx, t[1]), q)
		if strings.Contains(res, d.docID) {
			if e == w.real {
				d.deleted = true
			}
			return "ok"
		}
		return "denied"
	case "updall": // updall <who> <col> <json patch>: update with a filter matching every document
		t = strings.SplitN(line, " ", 4)
		var patch map[string]any
		must(json.Unmarshal([]byte(t[3]), &patch))
		q := fmt.Sprintf(`mutation { update_%s(filter: {_docID: {_ne: "x"}}, input: %s) { _docID } }`, t[2], gqlInput(patch))
		res := e.n.GQL(w.ac.ctx(w.ctx, t[1]), q)
		var labels []string
		for _, l := range w.order {
			d := w.docs[l]
			if d.col == t[2] && strings.Contains(res, d.docID) {
				labels = append(labels, l)
				if e == w.real {
					for k, v := range patch {
						d.fields[k] = v
					}
				}
			}
		}
		sort.Strings(labels)
		if strings.HasPrefix(res, "error") {
			return "error [" + strings.Join(labels, ",") + "]"
		}
		return "[" + strings.Join(labels, ",") + "]"
	}
	return "bad-op"
}

func short(err error) string {
	s := strings.ReplaceAll(err.Error(), " ", "_")
	if len(s) > 60 {
		s = s[:60]
	}
	return s
}

// --- observations ---

func (w *world) labelsIn(res string, col string) []string {
	var out []string
	for _, l := range w.order {
		d := w.docs[l]
		if (col == "" || d.col == col) && strings.Contains(res, d.docID) {
			out = append(out, l)
		}
	}
	sort.Strings(out)
	return out
}

func csv(xs []string) string { return "[" + strings.Join(xs, ",") + "]" }

const timeout = 20 * time.Second

// gqlT runs a request with a deadline: a request that does not return is a finding of its own.
func (w *world) gqlT(e *env, who, q string) string {
	ch := make(chan string, 1)
	go func() {
		defer func() {
			if rr := recover(); rr != nil {
				ch <- fmt.Sprintf("panic: %v", rr)
			}
		}()
		ch <- e.n.GQL(w.ac.ctx(w.ctx, who), q)
	}()
	select {
	case s := <-ch:
		if strings.HasPrefix(s, "panic") {
			w.bad = append(w.bad, "panic")
		}
		return s
	case <-time.After(timeout):
		w.bad = append(w.bad, "hang")
		return "hang"
	}
}

func (w *world) ownerDump() string {
	q := `query { Author { _docID name age } Book { _docID title pages author_id } }`
	if w.note {
		q = `query { Author { _docID name age } Book { _docID title pages author_id } Note { _docID text } }`
	}
	return w.real.n.GQL(w.ac.ctx(w.ctx, "O"), q)
}

// vis: what each access path yields for the requester
func (w *world) vis(who string) string {
	e := w.real
	w.bad = nil
	scanQ, delQ := `query { Author { _docID } Book { _docID } }`, `query { Author(showDeleted: true) { _docID _deleted } Book(showDeleted: true) { _docID _deleted } }`
	if w.note {
		scanQ, delQ = `query { Author { _docID } Book { _docID } Note { _docID } }`, `query { Author(showDeleted: true) { _docID _deleted } Book(showDeleted: true) { _docID _deleted } Note(showDeleted: true) { _docID _deleted } }`
	}
	scan := w.labelsIn(w.gqlT(e, who, scanQ), "")
	var index, byid, tt, commitcid []string
	for _, l := range w.order {
		d := w.docs[l]
		if d.col == "Author" {
			nm, _ := json.Marshal(d.fields["name"])
			if len(w.labelsIn(w.gqlT(e, who, fmt.Sprintf(`query { Author(filter: {name: {_eq: %s}}) { _docID } }`, nm)), "Author")) > 0 {
				for _, x := range w.labelsIn(w.gqlT(e, who, fmt.Sprintf(`query { Author(filter: {name: {_eq: %s}}) { _docID } }`, nm)), "Author") {
					if x == l {
						index = append(index, l)
					}
				}
			}
		}
		if len(w.labelsIn(w.gqlT(e, who, fmt.Sprintf(`query { %s(docID: "%s") { _docID } }`, d.col, d.docID)), d.col)) > 0 {
			byid = append(byid, l)
		}
		// time travel to the latest composite commit of the document
		heads, err := e.n.Heads(w.ctx, d.docID, "C")
		if err == nil && len(heads) > 0 {
			res := w.gqlT(e, who, fmt.Sprintf(`query { %s(cid: "%s") { _docID } }`, d.col, heads[0].Cid))
			if strings.Contains(res, d.docID) {
				tt = append(tt, l)
			}
			// the commit history entered at a commit named by its cid (a cid the requester may have learned elsewhere)
			res = w.gqlT(e, who, fmt.Sprintf(`query { commits(cid: "%s", depth: 3) { cid docID fieldName delta } }`, heads[0].Cid))
			if strings.Contains(res, d.docID) {
				commitcid = append(commitcid, l)
			}
		}
	}
	sort.Strings(index)
	sort.Strings(byid)
	sort.Strings(tt)
	sort.Strings(commitcid)
	// joins
	var join []string
	var m map[string][]map[string]any
	if json.Unmarshal([]byte(w.gqlT(e, who, `query { Author { _docID books { _docID } } }`)), &m) == nil {
		for _, a := range m["Author"] {
			al := w.labelOf(fmt.Sprint(a["_docID"]))
			if bs, ok := a["books"].([]any); ok {
				for _, b := range bs {
					join = append(join, al+">"+w.labelOf(fmt.Sprint(b.(map[string]any)["_docID"])))
				}
			}
		}
	}
	m = nil
	if json.Unmarshal([]byte(w.gqlT(e, who, `query { Book { _docID author { _docID } } }`)), &m) == nil {
		for _, b := range m["Book"] {
			if a, ok := b["author"].(map[string]any); ok && a != nil {
				join = append(join, w.labelOf(fmt.Sprint(b["_docID"]))+"<"+w.labelOf(fmt.Sprint(a["_docID"])))
			}
		}
	}
	sort.Strings(join)
	count := w.gqlT(e, who, `query { _count(Author: {}) }`) + w.gqlT(e, who, `query { _count(Book: {}) }`)
	count = strings.NewReplacer(`{"_count":`, "", "}", "+").Replace(count)
	commits := w.labelsIn(w.gqlT(e, who, `query { commits { docID fieldName } }`), "")
	deleted := w.labelsIn(w.gqlT(e, who, delQ), "")
	res := fmt.Sprintf("scan=%s index=%s byid=%s tt=%s join=%s count=%s commits=%s commitcid=%s withdeleted=%s", csv(scan), csv(index), csv(byid), csv(tt), csv(join), count, csv(commits), csv(commitcid), csv(deleted))
	if w.note {
		// time travel to the head commit of the branchable collection's own DAG: the state of all its documents
		var cm map[string][]map[string]any
		head, best := "", -1.0
		if json.Unmarshal([]byte(w.gqlT(e, "O", `query { commits { cid docID height } }`)), &cm) == nil {
			for _, c := range cm["commits"] {
				if c["docID"] == nil {
					if h, _ := c["height"].(float64); h > best {
						best, head = h, fmt.Sprint(c["cid"])
					}
				}
			}
		}
		ttcol := []string{}
		if head != "" {
			ttcol = w.labelsIn(w.gqlT(e, who, fmt.Sprintf(`query { Note(cid: "%s") { _docID } }`, head)), "Note")
		}
		res += " ttcol=" + csv(ttcol)
	}
	if len(w.bad) > 0 {
		res += " bad=" + strings.Join(w.bad, ",")
	}
	return res
}

func (w *world) labelOf(docID string) string {
	for l, d := range w.docs {
		if d.docID == docID {
			return l
		}
	}
	return "?" + docID
}

// the implementation-only oracle for vis: nothing the requester cannot read appears anywhere
func (w *world) visOracle(who, res string) {
	for _, part := range strings.Fields(res) {
		k, v, _ := strings.Cut(part, "=")
		if k == "count" {
			continue
		}
		v = strings.Trim(v, "[]")
		if v == "" {
			continue
		}
		for _, item := range strings.Split(v, ",") {
			for _, l := range strings.FieldsFunc(item, func(r rune) bool { return r == '>' || r == '<' }) {
				d := w.docs[l]
				if d != nil && !d.canRead(who) {
					tag := "unreadable-document-visible"
					if k == "commits" || k == "commitcid" {
						tag = "commits-without-access-control"
					}
					w.out.Oracle(w.out.Lines, fmt.Sprintf("[%s] case %d: requester %s lacks read permission on %s but path %s yields it", tag, w.caseID, who, l, k))
				}
			}
		}
	}
	if strings.Contains(res, " bad=") {
		w.out.Oracle(w.out.Lines, fmt.Sprintf("[request-hangs-or-panics] case %d: requester %s: %s", w.caseID, who, res))
	}
}

// --- twin ---

func (w *world) buildTwin(who string) *env {
	t := newEnv(w.ctx, w.ac, w.note)
	w.twins = append(w.twins, t)
	if t.policyID != w.real.policyID {
		panic("twin policy id differs")
	}
	for _, line := range w.history {
		f := strings.Fields(line)
		var label string
		switch f[0] {
		case "doc":
			label = f[1]
		case "rel":
			label = f[3]
		case "upd", "del":
			label = f[2]
		case "updall":
			// replayed per document that it changed on the real node: recorded as upd lines instead
			continue
		}
		if d := w.docs[label]; d == nil || !d.canRead(who) {
			continue
		}
		if r := w.apply(t, line); r != "ok" {
			panic(fmt.Sprintf("twin replay of %q gives %s", line, r))
		}
	}
	return t
}

func (w *world) values(col, field string) []string {
	seen := map[string]bool{}
	var out []string
	for _, l := range w.order {
		d := w.docs[l]
		if d.col != col {
			continue
		}
		b, _ := json.Marshal(d.fields[field])
		if !seen[string(b)] {
			seen[string(b)] = true
			out = append(out, string(b))
		}
	}
	return out
}

func (w *world) genQueries() []string {
	r := w.rng
	pick := func(xs []string) string {
		if len(xs) == 0 {
			return "null"
		}
		return xs[r.Intn(len(xs))]
	}
	names, ages := w.values("Author", "name"), w.values("Author", "age")
	titles, pages := w.values("Book", "title"), w.values("Book", "pages")
	var ids []string
	for _, l := range w.order {
		ids = append(ids, strconv.Quote(w.docs[l].docID))
	}
	qs := []string{
		`query { Author { _docID name age } }`,
		`query { Book { _docID title pages author_id } }`,
		`query { Author(order: {age: DESC}) { name age } }`,
		`query { Author(order: {name: ASC}, limit: 2) { name } }`,
		`query { Author(order: {name: ASC}, limit: 2, offset: 1) { name } }`,
		`query { Book(order: {pages: ASC}, limit: 3) { title pages } }`,
		`query { _count(Author: {}) }`,
		`query { _sum(Author: {field: age}) }`,
		`query { _avg(Author: {field: age}) }`,
		`query { _max(Author: {field: age}) }`,
		`query { _min(Book: {field: pages}) }`,
		`query { _sum(Book: {field: pages}) }`,
		`query { Author(groupBy: [age]) { age _count(_group: {}) _group { name } } }`,
		`query { Book(groupBy: [author_id]) { author_id _sum(_group: {field: pages}) } }`,
		`query { Author { name books { title pages } } }`,
		`query { Author { name _count(books: {}) _sum(books: {field: pages}) } }`,
		`query { Author { name books(order: {pages: DESC}, limit: 1) { title } } }`,
		`query { Book { title author { name age } } }`,
		`query { Book(order: {author: {age: ASC}}) { title } }`,
		`query { Author(filter: {_not: {name: {_eq: "zz"}}}) { name } }`,
		`query { Author(filter: {name: {_ne: null}}) { name } }`,
		`query { Author(filter: {name: {_like: "%a%"}}) { name } }`,
	}
	for i := 0; i < 4; i++ {
		qs = append(qs,
			fmt.Sprintf(`query { Author(filter: {name: {_eq: %s}}) { _docID name age } }`, pick(names)),
			fmt.Sprintf(`query { Author(filter: {age: {_ge: %s}}) { name age } }`, pick(ages)),
			fmt.Sprintf(`query { Author(filter: {name: {_in: [%s, %s]}}) { name } }`, pick(names), pick(names)),
			fmt.Sprintf(`query { Author(filter: {_or: [{name: {_eq: %s}}, {age: {_lt: %s}}]}) { name } }`, pick(names), pick(ages)),
			fmt.Sprintf(`query { _count(Author: {filter: {age: {_le: %s}}}) }`, pick(ages)),
			fmt.Sprintf(`query { Book(filter: {author: {name: {_eq: %s}}}) { title } }`, pick(names)),
			fmt.Sprintf(`query { Book(filter: {author: {age: {_gt: %s}}}) { title author { name } } }`, pick(ages)),
			fmt.Sprintf(`query { Author(filter: {books: {pages: {_gt: %s}}}) { name } }`, pick(pages)),
			fmt.Sprintf(`query { Author(filter: {books: {title: {_eq: %s}}}) { name books { title } } }`, pick(titles)),
			fmt.Sprintf(`query { Book(filter: {title: {_eq: %s}}) { title pages author { name } } }`, pick(titles)),
			fmt.Sprintf(`query { Author(docID: %s) { name } }`, pick(ids)),
			fmt.Sprintf(`query { Book(docID: [%s, %s]) { title } }`, pick(ids), pick(ids)),
			fmt.Sprintf(`query { Author(filter: {name: {_eq: %s}}) { name _count(books: {filter: {pages: {_gt: %s}}}) } }`, pick(names), pick(pages)),
			fmt.Sprintf(`query { _count(Book: {filter: {author: {name: {_eq: %s}}}}) }`, pick(names)),
		)
	}
	return qs
}

// check: every generated request answered by the real node for the requester equals the answer of the twin
func (w *world) check(who string) string {
	t := w.buildTwin(who)
	qs := w.genQueries()
	// commit histories and time-travel reads of every document the requester can read
	for _, l := range w.order {
		d := w.docs[l]
		if d.canRead(who) {
			qs = append(qs, fmt.Sprintf(`query { commits(docID: "%s") { cid fieldName height delta } }`, d.docID))
			if heads, err := w.real.n.Heads(w.ctx, d.docID, "C"); err == nil && len(heads) > 0 {
				qs = append(qs, fmt.Sprintf(`query { %s(cid: "%s") { _docID } }`, d.col, heads[0].Cid))
			}
		}
	}
	if !w.note {
		// (the branchable collection's own commits link the composites of all its documents by design: their
		// CIDs and number are not hidden, so the unfiltered history differs from the twin's)
		qs = append(qs, `query { commits { cid docID fieldName height } }`)
	} else {
		qs = append(qs, `query { Note { _docID text } }`, `query { _count(Note: {}) }`, `query { Note(filter: {text: {_like: "%n%"}}) { text } }`)
	}
	diffs := 0
	for _, q := range qs {
		a, b := w.gqlT(w.real, who, q), w.gqlT(t, who, q)
		w.out.Count("twin-queries")
		if a != b {
			diffs++
			tag := "differs-from-twin"
			if strings.Contains(q, "commits") {
				tag = "commits-without-access-control"
			}
			if a == "hang" || strings.HasPrefix(a, "panic") {
				tag = "request-hangs-or-panics"
			}
			if diffs <= 3 {
				w.out.Oracle(w.out.Lines, fmt.Sprintf("[%s] case %d: requester %s, request %s: the node answers %s; a node that never contained the documents %s cannot read answers %s", tag, w.caseID, who, q, clip(a), who, clip(b)))
			}
		} else if len(a) > 30 {
			w.out.Count("twin-queries-nonempty")
		}
	}
	if diffs == 0 {
		return "same"
	}
	return fmt.Sprintf("diff:%d", diffs)
}

func clip(s string) string {
	if len(s) > 500 {
		return s[:500] + "..."
	}
	return s
}

// sub: the requester subscribes to Author; the owner updates the document; does the requester hear of it?
func (w *world) sub(who, label, patchJS string) string {
	d := w.docs[label]
	res := w.real.n.DB.ExecRequest(w.ac.ctx(w.ctx, who), `subscription { Author { _docID name age } }`)
	if len(res.GQL.Errors) > 0 || res.Subscription == nil {
		return "sub-error"
	}
	line := fmt.Sprintf("upd O %s %s", label, patchJS)
	if r := w.apply(w.real, line); r == "ok" {
		w.history = append(w.history, line)
	} else {
		return "update-" + r
	}
	wait := 400 * time.Millisecond
	if d.canRead(who) {
		wait = 5 * time.Second
	}
	got := "none"
	select {
	case m := <-res.Subscription:
		b, _ := json.Marshal(m.Data)
		if strings.Contains(string(b), d.docID) {
			got = "got"
		} else {
			got = "other:" + clip(string(b))
		}
	case <-time.After(wait):
	}
	if got == "got" && !d.canRead(who) {
		w.out.Oracle(w.out.Lines, fmt.Sprintf("[subscription-leak] case %d: requester %s lacks read permission on %s but its subscription reported the update", w.caseID, who, label))
	}
	return got
}

func runCase(ctx context.Context, out *vc.Out, ac *actors, lines []string, seed uint64) {
	w := &world{ctx: ctx, out: out, ac: ac, docs: map[string]*docInfo{}, rng: vc.NewRng(seed)}
	defer w.close()
	defer func() {
		if rr := recover(); rr != nil {
			if os.Getenv("VERIF_STACK") != "" {
				debug.PrintStack()
			}
			out.Oracle(out.Lines, fmt.Sprintf("[panic] case %d: %v", w.caseID, rr))
			out.Emit("panic", fmt.Sprint(rr))
		}
	}()
	for _, l := range lines {
		t := strings.Fields(l)
		var res string
		switch t[0] {
		case "case":
			id, _ := strconv.ParseUint(t[1], 10, 64)
			w.caseID = id
			w.rng = vc.NewRng(seed ^ id*0x9e3779b97f4a7c15)
			w.note = len(t) > 2 && t[2] == "note"
			w.real = newEnv(ctx, ac, w.note)
			res = "ok"
		case "doc", "rel":
			res = w.apply(w.real, l)
			if res == "ok" {
				w.history = append(w.history, l)
			}
		case "upd", "del", "updall":
			before := w.ownerDump()
			res = w.apply(w.real, l)
			if res == "ok" {
				w.history = append(w.history, l)
			} else if t[0] != "updall" {
				if after := w.ownerDump(); after != before {
					out.Oracle(out.Lines, fmt.Sprintf("[denied-mutation-changed-state] case %d: %s was denied but the owner's view changed from %s to %s", w.caseID, l, clip(before), clip(after)))
				}
			}
			if t[0] == "updall" {
				// the documents it changed are replayed on twins as single updates by the same requester
				labels := strings.Split(strings.Trim(strings.TrimPrefix(res, "error "), "[]"), ",")
				patch := strings.SplitN(l, " ", 4)[3]
				for _, lb := range labels {
					if lb == "" {
						continue
					}
					w.history = append(w.history, fmt.Sprintf("upd %s %s %s", t[1], lb, patch))
					if d := w.docs[lb]; !d.canUpdate(t[1]) {
						out.Oracle(out.Lines, fmt.Sprintf("[update-without-permission] case %d: %s changed %s, which requester %s may not update", w.caseID, l, lb, t[1]))
					}
				}
			}
			if res == "ok" && t[0] == "upd" && !w.docs[t[2]].canUpdate(t[1]) {
				out.Oracle(out.Lines, fmt.Sprintf("[update-without-permission] case %d: %s succeeded", w.caseID, l))
			}
			if res == "ok" && t[0] == "del" && !w.docs[t[2]].canDelete(t[1]) {
				out.Oracle(out.Lines, fmt.Sprintf("[delete-without-permission] case %d: %s succeeded", w.caseID, l))
			}
		case "recreate":
			// a create that addresses an existing document never succeeds and never writes (whoever asks: a document the
			// requester may not read looks absent to them, but creating it again must not append to it)
			before := w.ownerDump()
			res = w.apply(w.real, l)
			if after := w.ownerDump(); after != before {
				out.Oracle(out.Lines, fmt.Sprintf("[create-over-existing-document-changed-it] case %d: %s (result %s) changed the owner's view from %s to %s", w.caseID, l, res, clip(before), clip(after)))
			} else if res == "ok" {
				out.Oracle(out.Lines, fmt.Sprintf("[create-over-existing-document-succeeded] case %d: %s", w.caseID, l))
			}
		case "vis":
			res = w.vis(t[1])
			w.visOracle(t[1], res)
		case "check":
			res = w.check(t[1])
		case "sub":
			res = w.sub(t[1], t[2], strings.SplitN(l, " ", 4)[3])
		default:
			res = "bad-op"
		}
		out.Emit(l, res)
		out.Count(t[0])
	}
}

var whos = []string{"R", "S", "A"}

func genCase(r *vc.Rng, id uint64) []string {
	lines := []string{fmt.Sprintf("case %d", id)}
	withNote := r.Chance(1, 3)
	if withNote {
		lines[0] += " note"
	}
	na, nb := 2+r.Intn(4), 2+r.Intn(5)
	var authors, books, all []string
	namePool := []string{"ann", "bob", "cat", "dan"}
	for i := 0; i < na; i++ {
		l := fmt.Sprintf("a%d", i)
		owner := "-"
		if r.Chance(3, 5) {
			owner = "O"
		}
		// unique (name, age) pairs keep identifiers distinct; names repeat across documents
		lines = append(lines, fmt.Sprintf(`doc %s Author %s {"name": "%s", "age": %d}`, l, owner, namePool[r.Intn(len(namePool))], 20+i*3+r.Intn(3)))
		authors = append(authors, l)
	}
	for i := 0; i < nb; i++ {
		l := fmt.Sprintf("b%d", i)
		owner := "-"
		if r.Chance(1, 2) {
			owner = "O"
		}
		lines = append(lines, fmt.Sprintf(`doc %s Book %s {"title": "t%d", "pages": %d, "author_id": "@%s"}`, l, owner, r.Intn(4), 10*(i+1)+r.Intn(5), authors[r.Intn(len(authors))]))
		books = append(books, l)
	}
	all = append(append(all, authors...), books...)
	if withNote {
		for i := 0; i < 2+r.Intn(3); i++ {
			l := fmt.Sprintf("n%d", i)
			owner := "-"
			if r.Chance(3, 5) {
				owner = "O"
			}
			lines = append(lines, fmt.Sprintf(`doc %s Note %s {"text": "note %d"}`, l, owner, i))
			all = append(all, l)
		}
	}
	rels := []string{"reader", "updater", "deleter"}
	nops := 3 + r.Intn(8)
	for i := 0; i < nops; i++ {
		l := all[r.Intn(len(all))]
		switch x := r.Intn(14); {
		case x < 4:
			tgt := "R"
			if r.Chance(1, 6) {
				tgt = "S"
			} else if r.Chance(1, 8) {
				tgt = "*"
			}
			lines = append(lines, fmt.Sprintf("rel grant %s %s %s", rels[r.Intn(3)], l, tgt))
		case x < 6:
			lines = append(lines, fmt.Sprintf("rel revoke %s %s R", rels[r.Intn(3)], l))
		case x < 9:
			who := append([]string{"O"}, whos...)[r.Intn(4)]
			if strings.HasPrefix(l, "a") {
				lines = append(lines, fmt.Sprintf(`upd %s %s {"age": %d}`, who, l, 50+r.Intn(40)))
			} else if strings.HasPrefix(l, "n") {
				lines = append(lines, fmt.Sprintf(`upd %s %s {"text": "note x%d"}`, who, l, r.Intn(40)))
			} else {
				lines = append(lines, fmt.Sprintf(`upd %s %s {"pages": %d}`, who, l, 500+r.Intn(40)))
			}
		case x < 11:
			lines = append(lines, fmt.Sprintf("del %s %s", append([]string{"O"}, whos...)[r.Intn(4)], l))
		case x == 11:
			lines = append(lines, fmt.Sprintf(`updall %s Author {"age": %d}`, whos[r.Intn(3)], 90+r.Intn(9)))
		case x == 12 && r.Bool():
			lines = append(lines, fmt.Sprintf("recreate %s %s", append([]string{"O"}, whos...)[r.Intn(4)], l))
		case x == 12:
			lines = append(lines, "vis "+whos[r.Intn(3)])
		default:
			lines = append(lines, "check "+whos[r.Intn(3)])
		}
	}
	for _, who := range whos {
		lines = append(lines, "vis "+who)
	}
	lines = append(lines, "check "+whos[r.Intn(3)])
	if r.Chance(1, 2) {
		lines = append(lines, fmt.Sprintf(`sub %s %s {"age": %d}`, whos[r.Intn(3)], authors[r.Intn(len(authors))], 70+r.Intn(9)))
	}
	return lines
}

func splitCases(lines []string) [][]string {
	var out [][]string
	for _, l := range lines {
		if strings.HasPrefix(l, "case ") || len(out) == 0 {
			out = append(out, nil)
		}
		out[len(out)-1] = append(out[len(out)-1], l)
	}
	return out
}

func main() {
	f := vc.ParseFlags()
	out := vc.NewOut(f.OutDir)
	ctx := context.Background()
	ac := &actors{ids: map[string]immutable.Option[identity.Identity]{"A": immutable.None[identity.Identity]()}}
	for _, n := range []string{"O", "R", "S"} {
		id, err := identity.Generate(crypto.KeyTypeSecp256k1)
		must(err)
		ac.ids[n] = immutable.Some[identity.Identity](id)
	}
	var cases [][]string
	if f.Replay != "" {
		cases = splitCases(vc.ReadLines(f.Replay))
	} else {
		r := vc.NewRng(f.Seed)
		n := 12
		if f.Tier == "thorough" {
			n = 300
		}
		if f.N > 0 {
			n = f.N
		}
		for i := 0; i < n; i++ {
			cr, _ := r.Fork()
			cases = append(cases, genCase(cr, uint64(i+1)))
		}
	}
	for _, c := range cases {
		runCase(ctx, out, ac, c, f.Seed)
		out.Nontrivial(strings.Join(c[1:], ";"))
	}
	out.Close(map[string]any{"seed": f.Seed, "cases": len(cases)})
}
