//go:build verif

// Engine `idxm` (C07): documents with array and JSON fields in two collections of one node that differ only in their
// secondary indexes — `I` carries generated single-field, composite (array / JSON field leading, in the middle or
// trailing, ascending or descending) and unique indexes, created before or after the data; `P` carries none.
// A generated history of creates, updates and deletes is applied to both (a write the unique index of `I` rejects is
// not applied to `P`); generated filters (scalar comparisons, `_in`, `_any` / `_all` / `_none` on the arrays, paths
// into the JSON field, `_or`) are run on both. The answers must be the same multiset of documents, and `drv idxm`
// derives the expected answer and every unique-index verdict from the documents themselves.
package main

import (
	"context"
	"encoding/json"
	"fmt"
	"github.com/sourcenetwork/immutable"
	"github.com/sourcenetwork/lens/host-go/config/model"
	"os"
	"regexp"
	"runtime/debug"
	"sort"
	"strconv"
	"strings"

	"github.com/sourcenetwork/defradb/client"
	vc "github.com/sourcenetwork/defradb/internal/verifharness/common"
	vnode "github.com/sourcenetwork/defradb/internal/verifharness/node"
)

func must(err error) {
	if err != nil {
		panic(err)
	}
}

const sdl = `type I { k: Int
 name: String
 age: Int @default(int: 7)
 nums: [Int!]
 tags: [String!]
 meta: JSON }
type P { k: Int
 name: String
 age: Int @default(int: 7)
 nums: [Int!]
 tags: [String!]
 meta: JSON }`

type world struct {
	ctx    context.Context
	out    *vc.Out
	caseID uint64
	n      *vnode.Node
	ci, cp client.Collection
	ids    map[string][2]string // k -> docIDs in I and P
	nidx   int
	// the live documents as written: k -> field -> token (arrays / JSON in the op syntax)
	docs map[string]map[string]string
	// first fields / all fields of the indexes created so far
	lead, indexed map[string]bool
}

func gql(ctx context.Context, n *vnode.Node, q string) (string, []map[string]any) {
	res := n.DB.ExecRequest(ctx, q)
	if len(res.GQL.Errors) > 0 {
		var es []string
		for _, e := range res.GQL.Errors {
			es = append(es, e.Error())
		}
		return "error:" + strings.ReplaceAll(strings.Join(es, ";"), " ", "_"), nil
	}
	b, _ := json.Marshal(res.GQL.Data)
	var m map[string][]map[string]any
	if err := json.Unmarshal(b, &m); err != nil {
		return "error:" + err.Error(), nil
	}
	for _, v := range m {
		return "", v
	}
	return "", nil
}

// ks renders the `k` values of the rows as a sorted multiset
func ks(rows []map[string]any) string {
	var l []int
	for _, r := range rows {
		f, _ := r["k"].(float64)
		l = append(l, int(f))
	}
	sort.Ints(l)
	if len(l) == 0 {
		return "-"
	}
	var s []string
	for _, x := range l {
		s = append(s, strconv.Itoa(x))
	}
	return strings.Join(s, ",")
}

func jsonOf(k, name, age, nums, tags, meta string) string {
	m := map[string]any{}
	ki, _ := strconv.Atoi(k)
	m["k"] = ki
	if name != "~" {
		m["name"] = name
	}
	if age != "~" {
		a, _ := strconv.Atoi(age)
		m["age"] = a
	} else {
		// age has a default value: an explicit null is stored as null (an omitted field would take the default)
		m["age"] = nil
	}
	if v, ok := arrOf(nums, true); ok {
		m["nums"] = v
	}
	if v, ok := arrOf(tags, false); ok {
		m["tags"] = v
	}
	if meta != "~" {
		var x any
		must(json.Unmarshal([]byte(meta), &x))
		m["meta"] = x
	}
	b, _ := json.Marshal(m)
	return string(b)
}

func arrOf(s string, ints bool) (any, bool) {
	if s == "~" {
		return nil, false
	}
	if ints {
		out := []int64{}
		if s != "[]" {
			for _, e := range strings.Split(s, ",") {
				x, _ := strconv.ParseInt(e, 10, 64)
				out = append(out, x)
			}
		}
		return out, true
	}
	out := []string{}
	if s != "[]" {
		out = strings.Split(s, ",")
	}
	return out, true
}

// value of one atom operand as GraphQL
func gv(f, v string) string {
	if v == "~" {
		return "null"
	}
	if f == "name" || f == "tags" {
		return strconv.Quote(v)
	}
	return v
}

func gqlAtom(a string) string {
	t := strings.Split(a, ":")
	f := t[0]
	opOf := func(c, vs string) string {
		if c == "in" || c == "nin" {
			var l []string
			for _, v := range strings.Split(vs, ",") {
				l = append(l, gv(f, v))
			}
			return fmt.Sprintf("{_%s: [%s]}", c, strings.Join(l, ", "))
		}
		return fmt.Sprintf("{_%s: %s}", c, gv(f, vs))
	}
	if len(t) == 3 {
		return fmt.Sprintf("%s: %s", f, opOf(t[1], t[2]))
	}
	return fmt.Sprintf("%s: {_%s: %s}", f, t[1], opOf(t[2], t[3]))
}

// a conjunction as one object when its fields are distinct (so that the planner can use an index), else `_and`
func gqlConj(c string) string {
	atoms := strings.Split(c, "&")
	seen := map[string]bool{}
	distinct := true
	var parts []string
	for _, a := range atoms {
		f := strings.SplitN(a, ":", 2)[0]
		distinct = distinct && !seen[f]
		seen[f] = true
		parts = append(parts, gqlAtom(a))
	}
	if distinct {
		return "{" + strings.Join(parts, ", ") + "}"
	}
	for i := range parts {
		parts[i] = "{" + parts[i] + "}"
	}
	return "{_and: [" + strings.Join(parts, ", ") + "]}"
}

func gqlFilter(f string) string {
	ds := strings.Split(f, "|")
	if len(ds) == 1 {
		return gqlConj(ds[0])
	}
	var l []string
	for _, d := range ds {
		l = append(l, gqlConj(d))
	}
	return "{_or: [" + strings.Join(l, ", ") + "]}"
}

func (w *world) query(op, filter string) {
	ri, rowsI := gql(w.ctx, w.n, fmt.Sprintf(`query { I(filter: %s) { k } }`, filter))
	rp, rowsP := gql(w.ctx, w.n, fmt.Sprintf(`query { P(filter: %s) { k } }`, filter))
	if ri == "" {
		ri = ks(rowsI)
	}
	if rp == "" {
		rp = ks(rowsP)
	}
	// and the count aggregate over the same filter
	cntI, cntP := w.count("I", filter), w.count("P", filter)
	tag := w.classify(filter, ri, rp, cntI+cntP)
	switch {
	case strings.HasPrefix(op, "qj "):
		w.out.Emit(op, "ok")
	case ri != rp && !strings.HasPrefix(tag, "index-changes"):
		// the indexed answer is wrong for a recorded reason: the line carries the tag of the finding
		w.out.Emit(op, ri+" ["+tag+"]")
	default:
		w.out.Emit(op, ri)
	}
	if ri != rp {
		w.out.Oracle(w.out.Lines-1, fmt.Sprintf("[%s] case %d: filter %s returns documents k=%s from the indexed collection and k=%s from the identical collection without indexes", tag, w.caseID, filter, ri, rp))
	}
	if cntI != cntP {
		if tag == "index-changes-result" {
			tag = "index-changes-aggregate"
		}
		w.out.Oracle(w.out.Lines-1, fmt.Sprintf("[%s] case %d: _count with filter %s is %s on the indexed collection and %s without indexes", tag, w.caseID, filter, cntI, cntP))
	}
	w.out.Nontrivial(op)
}

var reAll = regexp.MustCompile(`(nums|tags): \{_all:`)
var reJSONNe = regexp.MustCompile(`meta: \{(\w+): \{(?:(\w+): \{)?_ne:`)

// classify names the known root cause of a difference between the twins, if it is one of the recorded findings and
// nothing else: every document the index path lost must be explained by it.
func (w *world) classify(filter, ri, rp, counts string) string {
	const other = "index-changes-result"
	if strings.Contains(ri+rp, "field_or_alias_not_found") || strings.Contains(counts, "field or alias not found") {
		// a path into a JSON value that is not an object fails on whichever documents the plan evaluates
		for _, d := range w.docs {
			if m := d["meta"]; m != "~" && !strings.HasPrefix(m, "{") {
				return "json-path-on-non-object"
			}
		}
		return other
	}
	if strings.HasPrefix(ri, "error") || strings.HasPrefix(rp, "error") || strings.Contains(counts, "error") {
		return other
	}
	set := func(s string) map[string]int {
		m := map[string]int{}
		if s != "-" {
			for _, k := range strings.Split(s, ",") {
				m[k]++
			}
		}
		return m
	}
	si, sp := set(ri), set(rp)
	var lost []string
	for k, n := range sp {
		if si[k] > n {
			return other
		}
		if si[k] < n {
			lost = append(lost, k)
		}
	}
	for k := range si {
		if sp[k] == 0 {
			return other // the index path invented a document
		}
	}
	if len(lost) == 0 {
		return other
	}
	// `_all` holds vacuously on an empty array, which has no element entry in an index that includes the array field
	if ms := reAll.FindAllStringSubmatch(filter, -1); len(ms) > 0 {
		ok := true
		for _, k := range lost {
			explained := false
			for _, m := range ms {
				explained = explained || (w.indexed[m[1]] && w.docs[k][m[1]] == "[]")
			}
			ok = ok && explained
		}
		if ok {
			return "all-on-empty-array"
		}
	}
	// `_ne` on a path of a JSON field matches documents that have nothing, an array or an object at that path; the JSON
	// index holds no scalar entry for them under that path
	if m := reJSONNe.FindStringSubmatch(filter); m != nil && w.indexed["meta"] {
		ok := true
		for _, k := range lost {
			var v any
			ms := w.docs[k]["meta"]
			has := false
			if ms != "~" && json.Unmarshal([]byte(ms), &v) == nil {
				if o, isObj := v.(map[string]any); isObj {
					x, in := o[m[1]]
					if in && m[2] != "" {
						o2, _ := x.(map[string]any)
						x, in = o2[m[2]]
					}
					// a scalar at the path
					_, isMap := x.(map[string]any)
					_, isArr := x.([]any)
					has = in && !isMap && !isArr
				}
			}
			ok = ok && !has
		}
		if ok {
			return "json-ne-on-missing-path"
		}
	}
	return other
}

func (w *world) count(col, filter string) string {
	res := w.n.DB.ExecRequest(w.ctx, fmt.Sprintf(`query { _count(%s: {filter: %s}) }`, col, filter))
	if len(res.GQL.Errors) > 0 {
		return "error:" + fmt.Sprint(res.GQL.Errors)
	}
	b, _ := json.Marshal(res.GQL.Data)
	return string(b)
}

func isUniqueViolation(err error) bool {
	return err != nil && strings.Contains(err.Error(), "unique index")
}

func (w *world) exec(l string) {
	t := strings.Fields(l)
	ctx := w.ctx
	switch t[0] {
	case "idx": // idx u|n f1[:d],f2...
		var fs []client.IndexedFieldDescription
		for _, f := range strings.Split(t[2], ",") {
			p := strings.Split(f, ":")
			fs = append(fs, client.IndexedFieldDescription{Name: p[0], Descending: len(p) > 1 && p[1] == "d"})
		}
		w.nidx++
		_, err := w.ci.CreateIndex(ctx, client.IndexCreateRequest{Name: fmt.Sprintf("ix%d", w.nidx), Fields: fs, Unique: t[1] == "u"})
		switch {
		case err == nil:
			w.lead[fs[0].Name] = true
			for _, f := range fs {
				w.indexed[f.Name] = true
			}
			w.out.Emit(l, "ok")
		case isUniqueViolation(err):
			w.out.Emit(l, "rejected")
		default:
			w.out.Emit(l, "error:"+strings.ReplaceAll(err.Error(), " ", "_"))
		}
	case "patch": // patch n: a field is added to both collections (a new collection version); later indexes belong to it
		for _, c := range []string{"I", "P"} {
			p := fmt.Sprintf(`[{"op": "add", "path": "/%s/Fields/-", "value": {"Name": "extra%s", "Kind": "Int"}}]`, c, t[1])
			must(w.n.DB.PatchSchema(ctx, p, immutable.None[model.Lens](), true))
		}
		var err error
		w.ci, err = w.n.DB.GetCollectionByName(ctx, "I")
		must(err)
		w.cp, err = w.n.DB.GetCollectionByName(ctx, "P")
		must(err)
		w.out.Emit(l, "ok")
	case "doc": // doc k name age nums tags meta
		js := jsonOf(t[1], t[2], t[3], t[4], t[5], strings.Join(t[6:], " "))
		di, err := client.NewDocFromJSON([]byte(js), w.ci.Definition())
		must(err)
		err = w.ci.Create(ctx, di)
		if err != nil {
			if isUniqueViolation(err) {
				w.out.Emit(l, "rejected")
			} else {
				w.out.Emit(l, "error:"+strings.ReplaceAll(err.Error(), " ", "_"))
			}
			return
		}
		dp, err := client.NewDocFromJSON([]byte(js), w.cp.Definition())
		must(err)
		must(w.cp.Create(ctx, dp))
		w.ids[t[1]] = [2]string{di.ID().String(), dp.ID().String()}
		w.docs[t[1]] = map[string]string{"name": t[2], "age": t[3], "nums": t[4], "tags": t[5], "meta": strings.Join(t[6:], " ")}
		w.out.Emit(l, "ok")
	case "upd": // upd k field value
		ids, ok := w.ids[t[1]]
		if !ok {
			w.out.Emit(l, "no-doc")
			return
		}
		set := func(col client.Collection, id string) error {
			did, err := client.NewDocIDFromString(id)
			must(err)
			d, err := col.Get(ctx, did, false)
			if err != nil {
				return err
			}
			var v any
			switch t[2] {
			case "name":
				if t[3] != "~" {
					v = t[3]
				}
			case "age":
				if t[3] != "~" {
					a, _ := strconv.ParseInt(t[3], 10, 64)
					v = a
				}
			case "nums":
				if x, ok := arrOf(t[3], true); ok {
					v = x
				}
			case "tags":
				if x, ok := arrOf(t[3], false); ok {
					v = x
				}
			case "meta":
				s := strings.Join(t[3:], " ")
				if s != "~" {
					var x any
					must(json.Unmarshal([]byte(s), &x))
					v = x
				}
			}
			if err := d.Set(t[2], v); err != nil {
				return err
			}
			return col.Update(ctx, d)
		}
		err := set(w.ci, ids[0])
		opText := l
		if err != nil {
			if isUniqueViolation(err) {
				w.out.Emit(opText, "rejected")
			} else {
				w.out.Emit(opText, "error:"+strings.ReplaceAll(err.Error(), " ", "_"))
			}
			return
		}
		must(set(w.cp, ids[1]))
		w.docs[t[1]][t[2]] = strings.Join(t[3:], " ")
		w.out.Emit(opText, "ok")
	case "del":
		ids, ok := w.ids[t[1]]
		if !ok {
			w.out.Emit(l, "no-doc")
			return
		}
		for i, col := range []client.Collection{w.ci, w.cp} {
			did, err := client.NewDocIDFromString(ids[i])
			must(err)
			_, err = col.Delete(ctx, did)
			must(err)
		}
		delete(w.ids, t[1])
		delete(w.docs, t[1])
		w.out.Emit(l, "ok")
	case "q":
		w.query(l, gqlFilter(t[1]))
	case "qj": // a filter given as GraphQL (JSON paths): compared between the twins only
		w.query(l, strings.Join(t[1:], " "))
	default:
		w.out.Emit(l, "bad-op")
	}
	w.out.Count(t[0])
}

func runCase(out *vc.Out, lines []string) {
	ctx := context.Background()
	nd, err := vnode.NewMem(ctx)
	must(err)
	defer nd.Close()
	_, err = nd.DB.AddSchema(ctx, sdl)
	must(err)
	w := &world{ctx: ctx, out: out, n: nd, ids: map[string][2]string{}, docs: map[string]map[string]string{}, lead: map[string]bool{}, indexed: map[string]bool{}}
	w.ci, err = nd.DB.GetCollectionByName(ctx, "I")
	must(err)
	w.cp, err = nd.DB.GetCollectionByName(ctx, "P")
	must(err)
	defer func() {
		if rr := recover(); rr != nil {
			if os.Getenv("VERIF_STACK") != "" {
				debug.PrintStack()
			}
			out.Oracle(out.Lines, fmt.Sprintf("[panic] case %d: %v", w.caseID, rr))
			out.Emit("panic", "panic")
		}
	}()
	for _, l := range lines {
		t := strings.Fields(l)
		if t[0] == "case" {
			w.caseID, _ = strconv.ParseUint(t[1], 10, 64)
			out.Emit(l, "ok")
			continue
		}
		w.exec(l)
	}
}

var names = []string{"a", "b", "c", "d"}
var tagPool = []string{"x", "y", "z", "w"}

func genArr(r *vc.Rng, ints bool) string {
	switch r.Intn(8) {
	case 0:
		return "~"
	case 1:
		return "[]"
	}
	n := 1 + r.Intn(4)
	var l []string
	for i := 0; i < n; i++ {
		if ints {
			l = append(l, strconv.Itoa(r.Intn(6)))
		} else {
			l = append(l, tagPool[r.Intn(len(tagPool))])
		}
	}
	return strings.Join(l, ",")
}

func genMeta(r *vc.Rng) string {
	switch r.Intn(7) {
	case 0:
		return "~"
	case 1:
		// a JSON value that is not an object makes a filter on a path fail with an error on whichever documents the
		// plan evaluates (known finding json-path-on-non-object): rare
		if r.Chance(1, 6) {
			return strconv.Itoa(r.Intn(4))
		}
		return fmt.Sprintf(`{"s":"%s"}`, names[r.Intn(len(names))])
	case 2:
		return fmt.Sprintf(`{"a":%d}`, r.Intn(4))
	case 3:
		return fmt.Sprintf(`{"a":%d,"b":{"c":%d}}`, r.Intn(4), r.Intn(4))
	case 4:
		return fmt.Sprintf(`{"a":[%d,%d],"s":"%s"}`, r.Intn(4), r.Intn(4), names[r.Intn(len(names))])
	case 5:
		return fmt.Sprintf(`{"b":{"c":%d,"d":%d}}`, r.Intn(4), r.Intn(4))
	default:
		return fmt.Sprintf(`{"a":%d,"s":"%s","t":true}`, r.Intn(4), names[r.Intn(len(names))])
	}
}

func genScalar(r *vc.Rng, f string) string {
	if r.Chance(1, 7) {
		return "~"
	}
	if f == "name" {
		return names[r.Intn(len(names))]
	}
	return strconv.Itoa(r.Intn(8))
}

var cmps = []string{"eq", "ne", "gt", "ge", "lt", "le"}

func genAtom(r *vc.Rng) string {
	switch r.Intn(6) {
	case 0:
		if r.Chance(1, 4) {
			return fmt.Sprintf("name:in:%s,%s", names[r.Intn(4)], names[r.Intn(4)])
		}
		return fmt.Sprintf("name:%s:%s", []string{"eq", "eq", "ne"}[r.Intn(3)], genScalar(r, "name"))
	case 1:
		if r.Chance(1, 4) {
			return fmt.Sprintf("age:%s:%d,%d", []string{"in", "nin"}[r.Intn(2)], r.Intn(8), r.Intn(8))
		}
		return fmt.Sprintf("age:%s:%s", cmps[r.Intn(len(cmps))], genScalar(r, "age"))
	case 2, 3:
		return fmt.Sprintf("nums:%s:%s:%d", []string{"any", "all", "none"}[r.Intn(3)], cmps[r.Intn(len(cmps))], r.Intn(6))
	default:
		return fmt.Sprintf("tags:%s:%s:%s", []string{"any", "all", "none"}[r.Intn(3)], []string{"eq", "ne"}[r.Intn(2)], tagPool[r.Intn(len(tagPool))])
	}
}

func genFilter(r *vc.Rng) string {
	conj := func() string {
		n := 1 + r.Intn(3)
		var l []string
		for i := 0; i < n; i++ {
			l = append(l, genAtom(r))
		}
		return strings.Join(l, "&")
	}
	if r.Chance(1, 5) {
		return conj() + "|" + conj()
	}
	return conj()
}

func genJSONFilter(r *vc.Rng) string {
	lead := ""
	switch r.Intn(4) {
	case 0:
		lead = fmt.Sprintf(`name: {_eq: "%s"}, `, names[r.Intn(4)])
	case 1:
		lead = fmt.Sprintf(`age: {_ge: %d}, `, r.Intn(8))
	}
	switch r.Intn(8) {
	case 0:
		return fmt.Sprintf(`{%smeta: {a: {_eq: %d}}}`, lead, r.Intn(4))
	case 1:
		return fmt.Sprintf(`{%smeta: {b: {c: {_gt: %d}}}}`, lead, r.Intn(4))
	case 2:
		return fmt.Sprintf(`{%smeta: {a: {_any: {_eq: %d}}}}`, lead, r.Intn(4))
	case 3:
		return fmt.Sprintf(`{%smeta: {s: {_eq: "%s"}}}`, lead, names[r.Intn(4)])
	case 4:
		return fmt.Sprintf(`{%smeta: {_eq: %d}}`, lead, r.Intn(4))
	case 5:
		return fmt.Sprintf(`{%smeta: {a: {_ne: %d}}}`, lead, r.Intn(4))
	case 6:
		return fmt.Sprintf(`{%smeta: {_ne: null}}`, lead)
	default:
		if lead == "" {
			lead = fmt.Sprintf(`name: {_ne: "%s"}, `, names[r.Intn(4)])
		}
		return "{" + strings.TrimSuffix(lead, ", ") + "}"
	}
}

var indexPool = []string{
	"n name", "n age", "n nums", "n tags", "n meta", "n age:d", "n nums:d",
	"n name,nums", "n nums,name", "n age,tags", "n tags,age", "n name,age", "n name,meta", "n meta,age", "n age:d,nums", "n name,nums,age", "n name,age,tags",
	"n age,meta:d", "n name:d,tags:d",
	"u name", "u age", "u name,age", "u nums", "u name,nums", "u tags,age",
}

func genCase(r *vc.Rng, id uint64) []string {
	lines := []string{fmt.Sprintf("case %d", id)}
	nidx := 1 + r.Intn(3)
	var pending []string
	for i := 0; i < nidx; i++ {
		ix := "idx " + indexPool[r.Intn(len(indexPool))]
		if r.Chance(2, 3) {
			lines = append(lines, ix)
		} else {
			pending = append(pending, ix)
		}
	}
	nk, npatch := 0, 0
	var live []string
	nops := 10 + r.Intn(14)
	for i := 0; i < nops; i++ {
		switch x := r.Intn(10); {
		case x < 5 || len(live) == 0:
			nk++
			k := strconv.Itoa(nk)
			lines = append(lines, fmt.Sprintf("doc %s %s %s %s %s %s", k, genScalar(r, "name"), genScalar(r, "age"), genArr(r, true), genArr(r, false), genMeta(r)))
			live = append(live, k)
		case x < 8:
			k := live[r.Intn(len(live))]
			f := []string{"name", "age", "nums", "tags", "meta"}[r.Intn(5)]
			var v string
			switch f {
			case "nums":
				v = genArr(r, true)
			case "tags":
				v = genArr(r, false)
			case "meta":
				v = genMeta(r)
			default:
				v = genScalar(r, f)
			}
			lines = append(lines, fmt.Sprintf("upd %s %s %s", k, f, v))
		case x == 8:
			j := r.Intn(len(live))
			lines = append(lines, "del "+live[j])
			live = append(live[:j], live[j+1:]...)
		default:
			if len(pending) > 0 {
				if r.Chance(1, 2) {
					npatch++
					lines = append(lines, fmt.Sprintf("patch %d", npatch))
				}
				lines = append(lines, pending[0])
				pending = pending[1:]
			}
		}
		if r.Chance(1, 4) {
			lines = append(lines, "q "+genFilter(r))
		}
	}
	if len(pending) > 0 && r.Chance(1, 2) {
		npatch++
		lines = append(lines, fmt.Sprintf("patch %d", npatch))
	}
	lines = append(lines, pending...)
	for i := 0; i < 14; i++ {
		lines = append(lines, "q "+genFilter(r))
	}
	for i := 0; i < 6; i++ {
		lines = append(lines, "qj "+genJSONFilter(r))
	}
	return lines
}

func splitCases(lines []string) [][]string {
	var out [][]string
	for _, l := range lines {
		if strings.HasPrefix(l, "case ") || len(out) == 0 {
			out = append(out, nil)
		}
		out[len(out)-1] = append(out[len(out)-1], l)
	}
	return out
}

func main() {
	f := vc.ParseFlags()
	out := vc.NewOut(f.OutDir)
	var cases [][]string
	if f.Replay != "" {
		cases = splitCases(vc.ReadLines(f.Replay))
	} else {
		r := vc.NewRng(f.Seed)
		n := 40
		if f.Tier == "thorough" {
			n = 600
		}
		if f.N > 0 {
			n = f.N
		}
		// directed: composite indexes that end in an array / a JSON field, filtered on the leading field only
		cases = append(cases, []string{"case 1", "idx n name,nums", "idx n age,meta",
			`doc 1 a 3 1,2,3 x,y {"a":1,"b":{"c":2}}`, `doc 2 b 4 4 x ~`, `doc 3 a 3 [] ~ {"a":2}`, `doc 4 a ~ ~ z 7`,
			"q name:eq:a", "q name:ne:b", "q age:ge:3", "q name:eq:a&nums:any:gt:1", `qj {age: {_eq: 3}}`, `qj {name: {_in: ["a", "b"]}}`})
		cases = append(cases, []string{"case 2", "idx u name,nums", `doc 1 a 1 1,2 ~ ~`, `doc 2 a 2 2,3 ~ ~`, `doc 3 ~ 2 2 ~ ~`, `doc 4 b 2 2 ~ ~`,
			"upd 4 name a", "del 1", "upd 4 name a", "q nums:any:eq:2", "idx u age", "q age:eq:2"})
		for i := 0; i < n; i++ {
			cr, _ := r.Fork()
			cases = append(cases, genCase(cr, uint64(i+3)))
		}
	}
	for _, c := range cases {
		runCase(out, c)
	}
	out.Close(map[string]any{"seed": f.Seed, "cases": len(cases)})
}
