//go:build verif

// Engine `crdt` (C01, C02, C03, C04): n in-process nodes sharing a schema; local writes,
// deliveries of commits in generated orders through the synchronous merge hook; after every
// step the raw document state and head sets are printed for comparison with `drv crdt`,
// and the properties' own oracles (replica equality, counter = sum over merged closure,
// no resurrection, DAG well-formedness) are evaluated on the implementation alone.
package main

import (
	"runtime/debug"
	"bytes"
	"context"
	"crypto/sha256"
	"encoding/json"
	"fmt"
	"os"
	"path/filepath"
	"sort"
	"strconv"
	"strings"
	"time"

	"github.com/fxamacker/cbor/v2"
	"github.com/ipfs/go-cid"

	"github.com/sourcenetwork/defradb/client"
	"github.com/sourcenetwork/defradb/event"
	vc "github.com/sourcenetwork/defradb/internal/verifharness/common"
	vnode "github.com/sourcenetwork/defradb/internal/verifharness/node"
)

const schemaPlain = `type Doc {
	name: String @index
	age: Int @index
	score: Float
	flag: Boolean
	points: Int @crdt(type: pcounter)
	bal: Int @crdt(type: pncounter)
}`

const schemaBranchable = `type Doc @branchable {
	name: String
	age: Int
	score: Float
	flag: Boolean
	points: Int @crdt(type: pcounter)
	bal: Int @crdt(type: pncounter)
}`

var lwwFields = []string{"name", "age", "score", "flag"}
var ctrFields = []string{"points", "bal"}
var allFields = []string{"name", "age", "score", "flag", "points", "bal"}

type replica struct {
	gsub     <-chan client.GQLResult
	n        *vnode.Node
	col      client.Collection
	sub      event.Subscription
	merged   map[string]bool // composite labels merged (closure), tracked by the harness
}

type blockInfo struct {
	label   string
	cid     cid.Cid
	kind    string // C, F, K
	field   string
	doc     string // doc label
	docID   string
	height  uint64
	parents []string
	links   []string
	delta   string // lww:<hex> ctr:<int> comp:0|1 col
	ctr     int64
	isDel   bool
}

type world struct {
	ctx      context.Context
	out      *vc.Out
	reps     []*replica
	colID    string
	colShort uint32
	fshort   map[string]uint32 // field -> short id
	fname    map[string]string // short id string -> field
	labels   map[string]string // cid string -> label
	blocks   map[string]*blockInfo
	commits  []string          // composite (and collection) commit labels in creation order
	docIDs   map[string]string // doc label -> docID
	docJSON  map[string]string
	caseID   int
	branch   bool
	caseOps  []string
	failed   bool
	barrier  int
	jsonHex  map[string]map[string]string // field -> JSON text of a written value -> its CBOR hex
	afterLoc map[string]string            // composite label -> ordinary query result right after it was written locally
	genesis  map[string]string            // doc label -> genesis composite label
	linear   map[string]bool              // composite label -> its whole history is linear (every ancestor has <= 1 parent)
}

const barrierName = event.Name("verif-barrier")

func must(err error) {
	if err != nil {
		panic(err)
	}
}

func newWorld(ctx context.Context, out *vc.Out, n int, branchable bool, caseID int) *world {
	w := &world{ctx: ctx, out: out, labels: map[string]string{}, blocks: map[string]*blockInfo{}, docIDs: map[string]string{},
		docJSON: map[string]string{}, caseID: caseID, branch: branchable, jsonHex: map[string]map[string]string{},
		afterLoc: map[string]string{}, linear: map[string]bool{}, genesis: map[string]string{}}
	sdl := schemaPlain
	if branchable {
		sdl = schemaBranchable
	}
	for i := 0; i < n; i++ {
		nd, err := vnode.NewMem(ctx)
		must(err)
		_, err = nd.DB.AddSchema(ctx, sdl)
		must(err)
		col, err := nd.DB.GetCollectionByName(ctx, "Doc")
		must(err)
		sub, err := nd.DB.Events().Subscribe(event.UpdateName, barrierName)
		must(err)
		rep := &replica{n: nd, col: col, sub: sub, merged: map[string]bool{}}
		if !branchable {
			res := nd.DB.ExecRequest(ctx, `subscription { Doc { _docID _deleted name age score flag points bal } }`)
			if len(res.GQL.Errors) > 0 {
				panic(fmt.Sprint(res.GQL.Errors))
			}
			rep.gsub = res.Subscription
		}
		w.reps = append(w.reps, rep)
		if i == 0 {
			w.colID = col.Version().CollectionID
			cs, fs, err := nd.DB.VerifShortIDs(ctx, w.colID)
			must(err)
			w.colShort = cs
			w.fshort = fs
			w.fname = map[string]string{}
			for f, id := range fs {
				w.fname[strconv.Itoa(int(id))] = f
			}
		} else if col.Version().CollectionID != w.colID {
			out.Oracle(out.Lines, fmt.Sprintf("[collection-id-differs] same SDL gives different collection ids on two nodes: %s vs %s", w.colID, col.Version().CollectionID))
		}
	}
	return w
}

func (w *world) close() {
	for _, r := range w.reps {
		r.n.Close()
	}
}

func (w *world) label(c cid.Cid) string {
	k := c.String()
	if l, ok := w.labels[k]; ok {
		return l
	}
	l := "c" + strconv.Itoa(len(w.labels)+1)
	w.labels[k] = l
	return l
}

// register loads block c (and everything it links to that is not yet known) from node n,
// checks content addressing, and emits `block` lines for the model. Returns the label.
func (w *world) register(n *vnode.Node, c cid.Cid, docLabel string) string {
	l := w.label(c)
	if _, ok := w.blocks[l]; ok {
		return l
	}
	blk, raw, err := n.LoadBlock(w.ctx, c)
	if err != nil {
		w.out.Oracle(w.out.Lines, fmt.Sprintf("[dag-missing-block] block %s not readable from the store: %v", l, err))
		w.blocks[l] = &blockInfo{label: l, cid: c, kind: "?"}
		return l
	}
	// C04: filed under the hash of its own bytes
	sum := sha256.Sum256(raw)
	if !bytes.Equal(c.Hash()[2:], sum[:]) {
		w.out.Oracle(w.out.Lines, fmt.Sprintf("[dag-content-address] block %s is not filed under the sha256 of its bytes", l))
	}
	bi := &blockInfo{label: l, cid: c, doc: docLabel, height: blk.Delta.GetPriority()}
	bi.docID = string(blk.Delta.GetDocID())
	switch {
	case blk.Delta.IsComposite():
		bi.kind = "C"
		bi.isDel = blk.Delta.DocCompositeDelta.Status.IsDeleted()
		if bi.isDel {
			bi.delta = "comp:1"
		} else {
			bi.delta = "comp:0"
		}
	case blk.Delta.IsCollection():
		bi.kind = "K"
		bi.delta = "col"
	case blk.Delta.CounterDelta != nil:
		bi.kind = "F"
		bi.field = blk.Delta.GetFieldName()
		var v int64
		if err := cbor.Unmarshal(blk.Delta.GetData(), &v); err != nil {
			panic(err)
		}
		bi.ctr = v
		bi.delta = "ctr:" + strconv.FormatInt(v, 10)
	default:
		bi.kind = "F"
		bi.field = blk.Delta.GetFieldName()
		bi.delta = "lww:" + vc.Hex(blk.Delta.GetData())
		var dv any
		if err := cbor.Unmarshal(blk.Delta.GetData(), &dv); err == nil {
			jb, _ := json.Marshal(dv)
			if w.jsonHex[bi.field] == nil {
				w.jsonHex[bi.field] = map[string]string{}
			}
			w.jsonHex[bi.field][string(jb)] = vc.Hex(blk.Delta.GetData())
		}
	}
	w.blocks[l] = bi
	for _, h := range blk.Heads {
		bi.parents = append(bi.parents, w.register(n, h.Cid, docLabel))
	}
	for _, lk := range blk.Links {
		bi.links = append(bi.links, w.register(n, lk.Cid, docLabel))
	}
	// C04: height = 1 + max parent height
	var mx uint64
	for _, p := range bi.parents {
		if pb := w.blocks[p]; pb != nil && pb.height > mx {
			mx = pb.height
		}
	}
	if bi.height != mx+1 {
		w.out.Oracle(w.out.Lines, fmt.Sprintf("[dag-height] block %s has height %d but greatest parent height %d", l, bi.height, mx))
	}
	kind := bi.kind
	if kind == "F" {
		kind = "F:" + bi.field
	}
	doc := docLabel
	if doc == "" {
		doc = "-"
	}
	w.out.Emit(fmt.Sprintf("block %s %s %s %d %s %s %s", l, kind, doc, bi.height, csv(bi.parents), csv(bi.links), bi.delta), "ok")
	return l
}

func csv(xs []string) string {
	if len(xs) == 0 {
		return "-"
	}
	return strings.Join(xs, ",")
}

func sortedLabels(xs []string) []string {
	ys := append([]string{}, xs...)
	sort.Slice(ys, func(i, j int) bool {
		a, _ := strconv.Atoi(ys[i][1:])
		b, _ := strconv.Atoi(ys[j][1:])
		return a < b
	})
	return ys
}

// view prints the raw state of one document on one replica in canonical form.
func (w *world) view(r int, doc string) string {
	docID, ok := w.docIDs[doc]
	if !ok {
		return "nodoc"
	}
	rep := w.reps[r]
	rd, err := rep.n.RawDoc(w.ctx, w.colShort, docID)
	must(err)
	var sb strings.Builder
	switch rd.Marker {
	case "":
		sb.WriteString("del=-")
	case "active":
		sb.WriteString("del=0")
	case "deleted":
		sb.WriteString("del=1")
	default:
		sb.WriteString("del=?" + rd.Marker)
	}
	sb.WriteString(" vals=")
	first := true
	for _, f := range allFields {
		id := strconv.Itoa(int(w.fshort[f]))
		v, ok := rd.Values[id]
		if !ok {
			continue
		}
		if !first {
			sb.WriteString(",")
		}
		first = false
		fam := rd.Family[id]
		wantFam := "v"
		if rd.Marker == "deleted" {
			wantFam = "d"
		}
		if fam != wantFam {
			w.out.Oracle(w.out.Lines, fmt.Sprintf("[value-key-family] doc %s field %s stored under key family %q while marker is %q", doc, f, fam, rd.Marker))
		}
		if f == "points" || f == "bal" {
			var x int64
			if err := cbor.Unmarshal(v, &x); err != nil {
				sb.WriteString(f + ":bad" + vc.Hex(v))
			} else {
				sb.WriteString(f + ":" + strconv.FormatInt(x, 10))
			}
		} else {
			sb.WriteString(f + ":" + vc.Hex(v))
		}
	}
	if first {
		sb.WriteString("-")
	}
	hs, err := rep.n.Heads(w.ctx, docID, "C")
	must(err)
	var hl []string
	for _, h := range hs {
		l := w.label(h.Cid)
		hl = append(hl, l)
		if b := w.blocks[l]; b != nil && b.height != h.Height {
			w.out.Oracle(w.out.Lines, fmt.Sprintf("[head-height] head %s recorded with height %d, block height %d", l, h.Height, b.height))
		}
	}
	sb.WriteString(" heads=" + csv(sortedLabels(hl)))
	sb.WriteString(" fheads=")
	first = true
	for _, f := range allFields {
		fh, err := rep.n.Heads(w.ctx, docID, strconv.Itoa(int(w.fshort[f])))
		must(err)
		if len(fh) == 0 {
			continue
		}
		var fl []string
		for _, h := range fh {
			fl = append(fl, w.label(h.Cid))
		}
		if !first {
			sb.WriteString(";")
		}
		first = false
		sb.WriteString(f + ":" + csv(sortedLabels(fl)))
	}
	if first {
		sb.WriteString("-")
	}
	return sb.String()
}

func (w *world) colHeads(r int) string {
	kvs, err := w.reps[r].n.ScanRoot(w.ctx, "/db/heads/c/")
	must(err)
	var hl []string
	for _, kv := range kvs {
		parts := strings.Split(string(kv[0]), "/")
		c, err := cid.Decode(parts[len(parts)-1])
		if err != nil {
			continue
		}
		hl = append(hl, w.label(c))
	}
	return csv(sortedLabels(hl))
}

const gqlAll = `query { Doc(showDeleted: true) { _docID _deleted name age score flag points bal } }`

func (w *world) gqlDocs(r int) string {
	s := w.reps[r].n.GQL(w.ctx, gqlAll)
	// canonical: sort documents by _docID
	var m map[string][]map[string]any
	if err := json.Unmarshal([]byte(s), &m); err != nil {
		return s
	}
	docs := m["Doc"]
	sort.Slice(docs, func(i, j int) bool { return fmt.Sprint(docs[i]["_docID"]) < fmt.Sprint(docs[j]["_docID"]) })
	b, _ := json.Marshal(docs)
	return string(b)
}

// docQuery runs the ordinary (cid == "") or time-travel query for one document and renders it in the
// canonical `del= vals=` form of `view`.
func (w *world) docQuery(r int, doc string, cidStr string) string {
	docID := w.docIDs[doc]
	args := fmt.Sprintf(`docID: "%s", showDeleted: true`, docID)
	if cidStr != "" {
		args = fmt.Sprintf(`cid: "%s", docID: "%s", showDeleted: true`, cidStr, docID)
	}
	q := fmt.Sprintf(`query { Doc(%s) { _deleted name age score flag points bal } }`, args)
	s := w.reps[r].n.GQL(w.ctx, q)
	if strings.HasPrefix(s, "error:") {
		e := s
		if len(e) > 120 {
			e = e[:120]
		}
		return "err:" + strings.ReplaceAll(e, " ", "_")
	}
	var m map[string][]map[string]any
	if err := json.Unmarshal([]byte(s), &m); err != nil {
		return "err:unmarshal"
	}
	if len(m["Doc"]) == 0 {
		return "none"
	}
	if len(m["Doc"]) > 1 {
		return fmt.Sprintf("err:%d_docs", len(m["Doc"]))
	}
	return w.renderDoc(m["Doc"][0])
}

func (w *world) renderDoc(d map[string]any) string {
	var sb strings.Builder
	if d["_deleted"] == true {
		sb.WriteString("del=1 vals=")
	} else {
		sb.WriteString("del=0 vals=")
	}
	first := true
	for _, f := range allFields {
		v := d[f]
		if v == nil {
			continue
		}
		if !first {
			sb.WriteString(",")
		}
		first = false
		jb, _ := json.Marshal(v)
		if f == "points" || f == "bal" {
			sb.WriteString(f + ":" + string(jb))
		} else if hx, ok := w.jsonHex[f][string(jb)]; ok {
			sb.WriteString(f + ":" + hx)
		} else {
			sb.WriteString(f + ":?" + string(jb))
		}
	}
	if first {
		sb.WriteString("-")
	}
	return sb.String()
}

// at performs the time-travel read of composite l on replica r, emits it for the model and evaluates
// C03's own oracle on the implementation.
func (w *world) at(r int, doc string, l string) {
	b := w.blocks[l]
	if b == nil || b.kind != "C" {
		return
	}
	got := w.docQuery(r, doc, b.cid.String())
	w.out.Emit(fmt.Sprintf("at %d %s %s", r, doc, l), got)
	w.out.Count("op:at")
	if strings.HasPrefix(got, "err:") {
		w.out.Oracle(w.out.Lines-1, fmt.Sprintf("[at-error] case %d: time-travel read of %s on replica %d fails: %s", w.caseID, l, r, got))
		return
	}
	// (a) locally written linear history: equals the ordinary query right after that commit
	if want, ok := w.afterLoc[l]; ok && w.linear[l] && want != got {
		w.out.Oracle(w.out.Lines-1, fmt.Sprintf("[at-differs-from-then] case %d: %s (linear history) read back as %s but the ordinary query right after writing it returned %s", w.caseID, l, got, want))
	}
	// (b) counters: sum of the increments up to that commit, each once
	cl := map[string]bool{}
	w.closure(l, cl)
	sums := map[string]int64{}
	has := map[string]bool{}
	seen := map[string]bool{}
	for c := range cl {
		cb := w.blocks[c]
		if cb == nil || cb.kind != "C" {
			continue
		}
		for _, lk := range cb.links {
			fb := w.blocks[lk]
			if fb != nil && !seen[lk] && strings.HasPrefix(fb.delta, "ctr:") {
				seen[lk] = true
				sums[fb.field] += fb.ctr
				has[fb.field] = true
			}
		}
	}
	for _, f := range ctrFields {
		if !has[f] {
			continue
		}
		want := fmt.Sprintf("%s:%d", f, sums[f])
		if !strings.Contains(got, want) && got != "none" {
			w.out.Oracle(w.out.Lines-1, fmt.Sprintf("[at-counter] case %d: counter read at %s gives %q, the increments up to that commit sum to %s", w.caseID, l, got, want))
		}
	}
	// (c) at the current single head: equals the ordinary query
	hs, err := w.reps[r].n.Heads(w.ctx, w.docIDs[doc], "C")
	must(err)
	if len(hs) == 1 && hs[0].Cid.Equals(b.cid) {
		if cur := w.docQuery(r, doc, ""); cur != got {
			w.out.Oracle(w.out.Lines-1, fmt.Sprintf("[at-head-differs] case %d: %s is the single head of replica %d; read at it gives %s, the ordinary query gives %s", w.caseID, l, r, got, cur))
		}
	}
	w.out.Nontrivial(fmt.Sprintf("at:%d:%s", w.caseID, l))
}

// subRead reads what the GraphQL subscription of replica r yielded for the local commit l and compares
// it with the time-travel read at l (subscriptions evaluate at the commit that triggered them).
func (w *world) subRead(r int, doc string, l string) {
	rep := w.reps[r]
	b := w.blocks[l]
	if rep.gsub == nil || b == nil {
		return
	}
	wait := 5 * time.Second
	if b.isDel {
		wait = 150 * time.Millisecond // a delete yields an empty selection, which is not sent
	}
	got := "nothing"
	select {
	case res, ok := <-rep.gsub:
		switch {
		case !ok:
			got = "closed"
		case len(res.Errors) > 0:
			got = "err:" + strings.ReplaceAll(fmt.Sprint(res.Errors), " ", "_")
		default:
			jb, _ := json.Marshal(res.Data)
			var m map[string][]map[string]any
			_ = json.Unmarshal(jb, &m)
			if len(m["Doc"]) == 1 {
				got = w.renderDoc(m["Doc"][0])
			} else {
				got = fmt.Sprintf("docs:%d", len(m["Doc"]))
			}
		}
	case <-time.After(wait):
	}
	w.out.Count("op:sub")
	if b.isDel {
		if got != "nothing" && got != "docs:0" {
			w.out.Oracle(w.out.Lines, fmt.Sprintf("[sub-on-delete] case %d: subscription yielded %s for the delete commit %s", w.caseID, got, l))
		}
		return
	}
	w.out.Emit(fmt.Sprintf("sub %d %s %s", r, doc, l), got)
	want := w.docQuery(r, doc, b.cid.String())
	if got != want {
		w.out.Oracle(w.out.Lines-1, fmt.Sprintf("[sub-differs] case %d: the subscription reported %s for commit %s, the read at that commit gives %s", w.caseID, got, l, want))
	}
}

// drain collects the update events published by the last local operation.
func (w *world) drain(r int) []event.Update {
	var out []event.Update
	// the bus is FIFO per subscriber: once our barrier message arrives every earlier update has arrived
	w.barrier++
	w.reps[r].n.DB.Events().Publish(event.NewMessage(barrierName, w.barrier))
	for {
		select {
		case m := <-w.reps[r].sub.Message():
			if u, ok := m.Data.(event.Update); ok {
				out = append(out, u)
			} else if n, ok := m.Data.(int); ok && n == w.barrier {
				return out
			}
		case <-time.After(10 * time.Second):
			panic("event bus barrier timed out")
		}
	}
}

func (w *world) closure(l string, into map[string]bool) {
	if into[l] {
		return
	}
	b := w.blocks[l]
	if b == nil {
		return
	}
	into[l] = true
	for _, p := range b.parents {
		w.closure(p, into)
	}
	if b.kind == "K" {
		for _, lk := range b.links {
			w.closure(lk, into)
		}
	}
}

// afterLocal registers the commits a local write published and emits the model lines.
func (w *world) afterLocal(r int, doc string, errStr string) {
	ups := w.drain(r)
	if errStr != "" {
		if len(ups) > 0 {
			w.out.Oracle(w.out.Lines, fmt.Sprintf("[event-on-failed-op] %d update events after a failed local operation: %s", len(ups), errStr))
		}
		w.out.Emit(fmt.Sprintf("noop %d %s", r, doc), "err")
		return
	}
	for _, u := range ups {
		l := w.register(w.reps[r].n, u.Cid, doc)
		b := w.blocks[l]
		if b.kind == "C" && len(b.parents) == 0 {
			// C04: creating the same initial document on two nodes (no signing) yields the identical genesis commit
			if g, ok := w.genesis[doc]; ok && g != l {
				w.out.Oracle(w.out.Lines, fmt.Sprintf("[genesis-differs] case %d: document %s created on two nodes has different genesis commits %s and %s", w.caseID, doc, g, l))
			}
			w.genesis[doc] = l
		}
		known := false
		for _, c := range w.commits {
			if c == l {
				known = true
			}
		}
		if !known {
			w.commits = append(w.commits, l)
		}
		w.closure(l, w.reps[r].merged)
		if b.kind == "K" {
			w.out.Emit(fmt.Sprintf("localcol %d %s", r, l), "heads="+w.colHeads(r))
		} else {
			if u.DocID != "" && w.docIDs[doc] == "" {
				w.docIDs[doc] = u.DocID
			}
			w.out.Emit(fmt.Sprintf("local %d %s %s", r, doc, l), w.view(r, doc))
			w.afterLoc[l] = w.docQuery(r, doc, "")
			lin := len(b.parents) <= 1
			for _, p := range b.parents {
				lin = lin && w.linear[p]
			}
			w.linear[l] = lin
			w.at(r, doc, l)
			w.subRead(r, doc, l)
		}
	}
	if len(ups) == 0 {
		w.out.Emit(fmt.Sprintf("view %d %s", r, doc), w.view(r, doc))
	}
	w.checkC02(r, doc)
}

// C02 oracle on the implementation alone: counters = sum over merged closure (each once),
// deleted iff a merged commit deleted it.
func (w *world) checkC02(r int, doc string) {
	docID := w.docIDs[doc]
	if docID == "" {
		return
	}
	rep := w.reps[r]
	sums := map[string]int64{}
	seen := map[string]bool{}
	del := false
	any := false
	maxH := map[string]uint64{}        // register field -> greatest height among merged writes
	atMax := map[string]map[string]bool{} // register field -> values (hex) written at that height
	for l := range rep.merged {
		b := w.blocks[l]
		if b == nil || b.kind != "C" || b.doc != doc {
			continue
		}
		any = true
		if b.isDel {
			del = true
		}
		for _, lk := range b.links {
			fb := w.blocks[lk]
			if fb == nil || seen[lk] {
				continue
			}
			seen[lk] = true
			if strings.HasPrefix(fb.delta, "ctr:") {
				sums[fb.field] += fb.ctr
			} else if strings.HasPrefix(fb.delta, "lww:") {
				if fb.height > maxH[fb.field] {
					maxH[fb.field] = fb.height
					atMax[fb.field] = map[string]bool{}
				}
				if fb.height == maxH[fb.field] {
					atMax[fb.field][fb.delta[4:]] = true
				}
			}
		}
	}
	if !any {
		return
	}
	rd, err := rep.n.RawDoc(w.ctx, w.colShort, docID)
	must(err)
	if (rd.Marker == "deleted") != del {
		w.out.Oracle(w.out.Lines, fmt.Sprintf("[deleted-status] case %d replica %d doc %s: marker %q but merged closure has delete=%v", w.caseID, r, doc, rd.Marker, del))
	}
	for _, f := range lwwFields {
		if maxH[f] == 0 {
			continue
		}
		v, ok := rd.Values[strconv.Itoa(int(w.fshort[f]))]
		got := "f6"
		if ok {
			got = vc.Hex(v)
		}
		if !atMax[f][got] {
			w.out.Oracle(w.out.Lines, fmt.Sprintf("[register-not-latest] case %d replica %d doc %s: register %s holds %s, which no merged write of the greatest height %d wrote", w.caseID, r, doc, f, got, maxH[f]))
		}
	}
	for _, f := range ctrFields {
		v, ok := rd.Values[strconv.Itoa(int(w.fshort[f]))]
		var x int64
		if ok {
			_ = cbor.Unmarshal(v, &x)
		}
		if x != sums[f] {
			w.out.Oracle(w.out.Lines, fmt.Sprintf("[counter-sum] case %d replica %d doc %s: counter %s reads %d but the merged commits sum to %d", w.caseID, r, doc, f, x, sums[f]))
		}
	}
}

func errClass(err error) string {
	if err == nil {
		return "ok"
	}
	s := err.Error()
	switch {
	case strings.Contains(s, "transaction conflict"):
		return "err:conflict"
	case strings.Contains(s, "unique index"):
		return "err:unique"
	}
	if len(s) > 80 {
		s = s[:80]
	}
	return "err:" + strings.ReplaceAll(s, " ", "_")
}

func (w *world) exec(op string) {
	w.caseOps = append(w.caseOps, op)
	t := strings.Fields(op)
	ctx := w.ctx
	switch t[0] {
	case "create":
		r, _ := strconv.Atoi(t[1])
		doc := t[2]
		js := strings.Join(t[3:], " ")
		if prev, ok := w.docJSON[doc]; ok {
			js = prev
		} else {
			w.docJSON[doc] = js
		}
		rep := w.reps[r]
		d, err := client.NewDocFromJSON([]byte(js), rep.col.Definition())
		must(err)
		w.docIDs[doc] = d.ID().String()
		err = rep.col.Create(ctx, d)
		es := ""
		if err != nil {
			es = err.Error()
		}
		w.out.Count("op:create")
		w.afterLocal(r, doc, es)
	case "set", "inc":
		r, _ := strconv.Atoi(t[1])
		doc := t[2]
		rep := w.reps[r]
		docID, ok := w.docIDs[doc]
		if !ok {
			w.out.Emit(fmt.Sprintf("noop %d %s", r, doc), "err")
			return
		}
		did, err := client.NewDocIDFromString(docID)
		must(err)
		d, err := rep.col.Get(ctx, did, false)
		if err != nil {
			w.out.Count("op:" + t[0] + ":nodoc")
			w.afterLocal(r, doc, err.Error())
			return
		}
		var v any
		must(json.Unmarshal([]byte(strings.Join(t[4:], " ")), &v))
		if f, ok := v.(float64); ok && (t[3] == "age" || t[3] == "points" || t[3] == "bal") {
			v = int64(f)
		}
		if err := d.Set(t[3], v); err != nil {
			w.afterLocal(r, doc, err.Error())
			return
		}
		err = rep.col.Update(ctx, d)
		es := ""
		if err != nil {
			es = err.Error()
		}
		w.out.Count("op:" + t[0])
		w.afterLocal(r, doc, es)
	case "del":
		r, _ := strconv.Atoi(t[1])
		doc := t[2]
		rep := w.reps[r]
		docID, ok := w.docIDs[doc]
		if !ok {
			w.out.Emit(fmt.Sprintf("noop %d %s", r, doc), "err")
			return
		}
		did, _ := client.NewDocIDFromString(docID)
		found, err := rep.col.Delete(ctx, did)
		es := ""
		if err != nil {
			es = err.Error()
		} else if !found {
			es = "not found"
		}
		w.out.Count("op:del")
		w.afterLocal(r, doc, es)
	case "deliver":
		dst, _ := strconv.Atoi(t[1])
		if len(w.commits) == 0 {
			return
		}
		i, _ := strconv.Atoi(t[2])
		w.deliver(dst, w.commits[i%len(w.commits)])
	case "syncall":
		seed, _ := strconv.ParseUint(t[1], 10, 64)
		rng := vc.NewRng(seed)
		type dl struct {
			dst int
			l   string
		}
		var all []dl
		for d := range w.reps {
			for _, l := range w.commits {
				all = append(all, dl{d, l})
			}
		}
		for i := len(all) - 1; i > 0; i-- {
			j := rng.Intn(i + 1)
			all[i], all[j] = all[j], all[i]
		}
		for _, x := range all {
			w.deliver(x.dst, x.l)
		}
		w.quiescent()
	default:
		panic("bad op " + op)
	}
}

func (w *world) deliver(dst int, l string) {
	b := w.blocks[l]
	rep := w.reps[dst]
	// make every block any node has available to dst (ancestors available)
	for i, src := range w.reps {
		if i != dst {
			_, err := vnode.CopyBlocks(w.ctx, src.n, rep.n)
			must(err)
		}
	}
	docID := b.docID
	if b.kind == "K" {
		docID = ""
	}
	err := rep.n.DB.VerifExecuteMerge(w.ctx, w.colID, docID, b.cid)
	w.drain(dst)
	cls := errClass(err)
	w.out.Count("op:deliver")
	w.out.Count("deliver:" + strings.SplitN(cls, ":", 3)[0])
	if err != nil {
		w.out.Oracle(w.out.Lines, fmt.Sprintf("[merge-error] case %d: merging %s into replica %d failed although all ancestors are available: %v", w.caseID, l, dst, err))
	} else {
		w.closure(l, rep.merged)
	}
	if b.kind == "K" {
		w.out.Emit(fmt.Sprintf("delivercol %d %s", dst, l), cls+" heads="+w.colHeads(dst))
		for doc := range w.docIDs {
			w.out.Emit(fmt.Sprintf("view %d %s", dst, doc), w.view(dst, doc))
			w.checkC02(dst, doc)
		}
		return
	}
	w.out.Emit(fmt.Sprintf("deliver %d %s %s", dst, b.doc, l), cls+" "+w.view(dst, b.doc))
	w.checkC02(dst, b.doc)
	if err == nil {
		w.at(dst, b.doc, l)
	}
}

// indexAgrees compares, for every value an indexed field takes among the live documents of replica r (and null),
// the index-backed equality lookup with the documents holding that value.
func (w *world) indexAgrees(r int) {
	var m map[string][]map[string]any
	if err := json.Unmarshal([]byte(w.reps[r].n.GQL(w.ctx, `query { Doc { _docID name age } }`)), &m); err != nil {
		return
	}
	for _, f := range []string{"name", "age"} {
		want := map[string][]string{}
		for _, d := range m["Doc"] {
			b, _ := json.Marshal(d[f])
			want[string(b)] = append(want[string(b)], fmt.Sprint(d["_docID"]))
		}
		if _, ok := want["null"]; !ok {
			want["null"] = nil
		}
		for v, ids := range want {
			sort.Strings(ids)
			var g map[string][]map[string]any
			res := w.reps[r].n.GQL(w.ctx, fmt.Sprintf(`query { Doc(filter: {%s: {_eq: %s}}) { _docID } }`, f, v))
			if err := json.Unmarshal([]byte(res), &g); err != nil {
				w.out.Oracle(w.out.Lines, fmt.Sprintf("[index-after-merge] case %d replica %d: lookup %s = %s fails: %s", w.caseID, r, f, v, res))
				continue
			}
			var got []string
			for _, d := range g["Doc"] {
				got = append(got, fmt.Sprint(d["_docID"]))
			}
			sort.Strings(got)
			if strings.Join(got, ",") != strings.Join(ids, ",") {
				w.out.Oracle(w.out.Lines, fmt.Sprintf("[index-after-merge] case %d replica %d: index lookup %s = %s returns [%s], the documents holding that value are [%s]", w.caseID, r, f, v, strings.Join(got, ","), strings.Join(ids, ",")))
			}
			w.out.Count("index-lookups")
		}
	}
}

// quiescent: every replica has merged every commit; C01's own oracle.
func (w *world) quiescent() {
	base := w.gqlDocs(0)
	var docs []string
	for d := range w.docIDs {
		docs = append(docs, d)
	}
	sort.Strings(docs)
	for r := 1; r < len(w.reps); r++ {
		if g := w.gqlDocs(r); g != base {
			w.out.Oracle(w.out.Lines, fmt.Sprintf("[replicas-differ] case %d: after merging every commit replica 0 answers %s but replica %d answers %s", w.caseID, base, r, g))
		}
		for _, d := range docs {
			v0, vr := w.view(0, d), w.view(r, d)
			h0, hr := v0[strings.Index(v0, " heads="):], vr[strings.Index(vr, " heads="):]
			if h0 != hr {
				w.out.Oracle(w.out.Lines, fmt.Sprintf("[heads-differ] case %d doc %s: replica 0 reports%s, replica %d reports%s", w.caseID, d, h0, r, hr))
			}
		}
	}
	// C07: the secondary indexes on name and age answer like the documents themselves, on every replica
	if !w.branch {
		for r := range w.reps {
			w.indexAgrees(r)
		}
	}
	// C04: heads = maximal merged commits, on replica 0
	for _, d := range docs {
		mergedC := map[string]bool{}
		hasChild := map[string]bool{}
		for l := range w.reps[0].merged {
			b := w.blocks[l]
			if b != nil && b.kind == "C" && b.doc == d {
				mergedC[l] = true
			}
		}
		for l := range mergedC {
			for _, p := range w.blocks[l].parents {
				hasChild[p] = true
			}
		}
		var want []string
		for l := range mergedC {
			if !hasChild[l] {
				want = append(want, l)
			}
		}
		v := w.view(0, d)
		got := v[strings.Index(v, " heads=")+7:]
		got = got[:strings.Index(got, " ")]
		if got != csv(sortedLabels(want)) {
			w.out.Oracle(w.out.Lines, fmt.Sprintf("[heads-not-maximal] case %d doc %s: heads %s but the childless merged commits are %s", w.caseID, d, got, csv(sortedLabels(want))))
		}
	}
	for _, l := range w.commits {
		if b := w.blocks[l]; b != nil && b.kind == "C" {
			w.at(0, b.doc, l)
		}
	}
	w.out.Emit("quiescent", "ok")
	w.out.Nontrivial(fmt.Sprintf("case%d:%d", w.caseID, len(w.commits)))
}

// ---------------------------------------------------------------- generator

var strVals = []string{`"a"`, `"b"`, `"ab"`, `""`, `"zz"`, `null`}
var intVals = []string{`0`, `1`, `-1`, `5`, `255`, `256`, `null`, `-300`}
var fltVals = []string{`0.5`, `1.5`, `-2.25`, `1e10`, `null`, `3`}
var boolVals = []string{`true`, `false`, `null`}

func genValue(r *vc.Rng, f string) string {
	switch f {
	case "name":
		return strVals[r.Intn(len(strVals))]
	case "age":
		return intVals[r.Intn(len(intVals))]
	case "score":
		return fltVals[r.Intn(len(fltVals))]
	default:
		return boolVals[r.Intn(len(boolVals))]
	}
}

func genCase(r *vc.Rng, tier string) (n int, branch bool, ops []string) {
	n = 2 + r.Intn(3)
	branch = r.Chance(1, 5)
	ndocs := 1 + r.Intn(2)
	nops := 6 + r.Intn(10)
	if tier == "thorough" {
		nops = 6 + r.Intn(30)
	}
	// every doc is created somewhere first
	for d := 0; d < ndocs; d++ {
		js := fmt.Sprintf(`{"name": "doc%d", "age": %d}`, d, d)
		if r.Chance(1, 3) {
			js = fmt.Sprintf(`{"name": "doc%d", "points": %d, "bal": %d}`, d, r.Intn(5), r.Intn(7)-3)
		}
		ops = append(ops, fmt.Sprintf("create %d d%d %s", r.Intn(n), d, js))
		if r.Chance(1, 4) {
			// the same document created independently on a second node (identical genesis)
			ops = append(ops, fmt.Sprintf("create %d d%d %s", r.Intn(n), d, js))
		}
	}
	ops = append(ops, fmt.Sprintf("syncall %d", r.U64()%1000000))
	for i := 0; i < nops; i++ {
		rep := r.Intn(n)
		doc := fmt.Sprintf("d%d", r.Intn(ndocs))
		switch x := r.Intn(20); {
		case x < 6:
			f := lwwFields[r.Intn(len(lwwFields))]
			// small value pools make equal-height ties with equal and different values frequent
			ops = append(ops, fmt.Sprintf("set %d %s %s %s", rep, doc, f, genValue(r, f)))
		case x < 9:
			if r.Bool() {
				ops = append(ops, fmt.Sprintf("inc %d %s points %d", rep, doc, 1+r.Intn(9)))
			} else {
				ops = append(ops, fmt.Sprintf("inc %d %s bal %d", rep, doc, r.Intn(19)-9))
			}
		case x < 10:
			ops = append(ops, fmt.Sprintf("del %d %s", rep, doc))
		case x < 18:
			ops = append(ops, fmt.Sprintf("deliver %d %d", rep, r.Intn(64)))
		default:
			ops = append(ops, fmt.Sprintf("syncall %d", r.U64()%1000000))
		}
	}
	ops = append(ops, fmt.Sprintf("syncall %d", r.U64()%1000000))
	return
}

// directed shapes that run first in every tier (the histories of DESIGN section 7)
func directed() [][]string {
	return [][]string{
		// F1 diamond: G<-A<-{P1,P2}<-M, receiver at G
		{"3 0", `create 0 d0 {"name": "x", "points": 1}`, "syncall 1", "inc 0 d0 points 10", "deliver 1 1", "inc 0 d0 points 100", "inc 1 d0 points 1000", "deliver 0 3", "inc 0 d0 points 10000", "deliver 2 4", "syncall 2"},
		// F2 heads at different heights
		{"3 0", `create 0 d0 {"name": "x", "points": 1}`, "syncall 1", "inc 0 d0 points 10", "inc 0 d0 points 100", "inc 0 d0 points 1000", "inc 1 d0 points 7", "deliver 2 4", "deliver 2 5", "inc 1 d0 points 30", "deliver 2 6", "syncall 3"},
		// F3 tie with null current value
		{"2 0", `create 0 d0 {"name": "x"}`, "syncall 1", "set 0 d0 name null", "set 1 d0 name \"b\"", "syncall 2"},
		{"2 0", `create 0 d0 {"name": "x"}`, "syncall 1", "set 0 d0 name \"b\"", "set 1 d0 name null", "syncall 2"},
		// tie on a deleted document
		{"2 0", `create 0 d0 {"name": "x"}`, "syncall 1", "set 0 d0 name \"a\"", "set 1 d0 name \"b\"", "del 1 d0", "syncall 2"},
		{"2 0", `create 0 d0 {"name": "x"}`, "syncall 1", "set 0 d0 name \"b\"", "set 1 d0 name \"a\"", "del 1 d0", "syncall 2"},
		// F17 shared LWW field block
		{"3 0", `create 0 d0 {"name": "x", "age": 1}`, "syncall 1", "set 0 d0 age 5", "set 1 d0 age 5", "deliver 2 1", "set 0 d0 age 6", "deliver 2 3", "deliver 2 2", "syncall 2"},
		// delete concurrent with update, and redelivery of ancestors
		{"2 0", `create 0 d0 {"name": "x", "bal": 2}`, "syncall 1", "del 0 d0", "inc 1 d0 bal -5", "set 1 d0 name \"q\"", "syncall 2", "deliver 0 0", "deliver 1 1", "deliver 0 2"},
		// merge commit delivered to a replica that has only one of its two parents (either one)
		{"3 0", `create 0 d0 {"name": "x", "points": 10}`, "syncall 1", "inc 0 d0 points 1", "inc 1 d0 points 5", "deliver 0 2", "inc 0 d0 points 100", "deliver 2 1", "deliver 2 3", "deliver 2 2", "deliver 2 0", "syncall 2"},
		{"3 0", `create 0 d0 {"name": "x", "points": 10}`, "syncall 1", "inc 0 d0 points 1", "inc 1 d0 points 5", "deliver 0 2", "inc 0 d0 points 100", "deliver 2 2", "deliver 2 3", "deliver 2 1", "deliver 2 0", "syncall 2"},
		// F16 branchable: document commit then collection commit
		{"2 1", `create 0 d0 {"name": "x", "points": 1}`, "syncall 1", "inc 0 d0 points 10", "deliver 1 2", "deliver 1 3", "syncall 2"},
		{"2 1", `create 0 d0 {"name": "x", "points": 1}`, "syncall 1", "inc 0 d0 points 10", "deliver 1 3", "deliver 1 2", "syncall 2"},
	}
}

func runCase(ctx context.Context, out *vc.Out, caseID int, n int, branch bool, ops []string, f vc.Flags) {
	bi := 0
	if branch {
		bi = 1
	}
	out.Emit(fmt.Sprintf("case %d %d %d", caseID, n, bi), "ok")
	w := newWorld(ctx, out, n, branch, caseID)
	defer w.close()
	before := out.NOracle
	func() {
		defer func() {
			if r := recover(); r != nil {
				if os.Getenv("VERIF_STACK") != "" {
					debug.PrintStack()
				}
				out.Oracle(out.Lines, fmt.Sprintf("[panic] case %d: %v", caseID, r))
			}
		}()
		for _, op := range ops {
			w.exec(op)
		}
	}()
	if branch {
		out.Count("case:branchable")
	} else {
		out.Count("case:plain")
	}
	// keep the generator-level ops of every case so a failing one replays alone
	hdr := fmt.Sprintf("%d %d", n, bi)
	_ = os.MkdirAll(filepath.Join(f.OutDir, "cases"), 0o755)
	if out.NOracle > before || caseID < 40 {
		_ = os.WriteFile(filepath.Join(f.OutDir, "cases", fmt.Sprintf("%d.ops", caseID)), []byte(hdr+"\n"+strings.Join(ops, "\n")+"\n"), 0o644)
	}
}

// wideProbe: a collection with more than twenty fields (field identifiers of one and of two digits): every commit
// of a field names commits of the SAME field as parents and stands one above the highest of them
func wideProbe(ctx context.Context, out *vc.Out) {
	n, err := vnode.NewMem(ctx)
	must(err)
	defer n.Close()
	const nf = 25
	var fs, in []string
	for i := 1; i <= nf; i++ {
		fs = append(fs, fmt.Sprintf("f%02d: Int", i))
		in = append(in, fmt.Sprintf("f%02d: %d", i, i))
	}
	_, err = n.DB.AddSchema(ctx, "type Wide { "+strings.Join(fs, "\n ")+" }")
	must(err)
	res := n.GQL(ctx, "mutation { create_Wide(input: {"+strings.Join(in, ", ")+"}) { _docID } }")
	var cr map[string][]map[string]any
	must(json.Unmarshal([]byte(res), &cr))
	id := fmt.Sprint(cr["create_Wide"][0]["_docID"])
	upd := func(set string) {
		if r := n.GQL(ctx, fmt.Sprintf(`mutation { update_Wide(docID: "%s", input: {%s}) { _docID } }`, id, set)); !strings.Contains(r, id) {
			panic("wide probe update: " + r)
		}
	}
	for k := 0; k < 3; k++ {
		upd(fmt.Sprintf("f20: %d, f22: %d, f11: %d", 100+k, 200+k, 300+k))
	}
	upd("f01: 999, f02: 998")
	upd("f20: 7")
	line := out.Lines
	bad := 0
	for i := 1; i <= nf; i++ {
		f := fmt.Sprintf("f%02d", i)
		r := n.GQL(ctx, fmt.Sprintf(`query { commits(docID: "%s", fieldName: "%s") { cid height links { cid name } } }`, id, f))
		var m struct {
			Commits []struct {
				Cid    string
				Height int
				Links  []struct{ Cid, Name string }
			}
		}
		must(json.Unmarshal([]byte(r), &m))
		height := map[string]int{}
		for _, c := range m.Commits {
			height[c.Cid] = c.Height
		}
		for _, c := range m.Commits {
			mx := 0
			for _, l := range c.Links {
				if l.Name != "_head" {
					continue
				}
				h, own := height[l.Cid]
				if !own {
					bad++
					out.Oracle(line, fmt.Sprintf("[dag-height] collection with %d fields: commit %s of field %s names %s as parent, which is not a commit of that field", nf, c.Cid, f, l.Cid))
				}
				if h > mx {
					mx = h
				}
			}
			if c.Height != mx+1 {
				bad++
				out.Oracle(line, fmt.Sprintf("[dag-height] collection with %d fields: commit %s of field %s has height %d, its highest parent has %d", nf, c.Cid, f, c.Height, mx))
			}
		}
	}
	out.Emit(fmt.Sprintf("wideprobe %d", nf), fmt.Sprintf("bad=%d", bad))
	out.Count("op:wideprobe")
}

func main() {
	f := vc.ParseFlags()
	out := vc.NewOut(f.OutDir)
	ctx := context.Background()
	if f.Replay == "" {
		wideProbe(ctx, out)
	}
	if f.Replay != "" {
		lines := vc.ReadLines(f.Replay)
		hdr := strings.Fields(lines[0])
		n, _ := strconv.Atoi(hdr[0])
		// counter nonces are random, so block ids (and with them the byte order of parents and
		// heads, which some failures depend on) differ between runs: repeat the case
		for rep := 0; rep < 12; rep++ {
			runCase(ctx, out, rep, n, len(hdr) > 1 && hdr[1] == "1", lines[1:], f)
		}
		out.Close(nil)
		return
	}
	caseID := 0
	for _, d := range directed() {
		hdr := strings.Fields(d[0])
		n, _ := strconv.Atoi(hdr[0])
		runCase(ctx, out, caseID, n, hdr[1] == "1", d[1:], f)
		out.Count("case:directed")
		caseID++
	}
	r := vc.NewRng(f.Seed)
	n := 60
	if f.Tier == "thorough" {
		n = 2500
	}
	if f.N > 0 {
		n = f.N
	}
	for i := 0; i < n; i++ {
		cr, _ := r.Fork()
		k, branch, ops := genCase(cr, f.Tier)
		runCase(ctx, out, caseID, k, branch, ops, f)
		caseID++
	}
	out.Close(map[string]any{"seed": f.Seed, "cases": caseID})
}
