//go:build verif

// Engine `ident` (C13): (A) one document content built through every construction route (JSON text with
// permuted keys, JSON with explicit nulls, Go map, GraphQL create on two nodes) must give one docID, and its
// canonical bytes are compared with `drv ident`; (B) one set of type definitions added in every order of the
// SDL, split over several AddSchema calls where the references allow it, and repeatedly (Go map iteration
// varies between repetitions), must give the same version and collection identifiers per type.
package main

import (
	"context"
	"encoding/json"
	"fmt"
	"math"
	"sort"
	"strconv"
	"strings"
	"time"

	"github.com/sourcenetwork/defradb/client"
	vc "github.com/sourcenetwork/defradb/internal/verifharness/common"
	vnode "github.com/sourcenetwork/defradb/internal/verifharness/node"
)

func must(err error) {
	if err != nil {
		panic(err)
	}
}

// ------------------------------------------------------------------ (A) document identifiers

const docSDL = `type Item {
	name: String
	title: String
	n: Int
	m: Int
	f: Float
	b: Boolean
	t: DateTime
	zz_long_field_name: String
	tags: [String!]
	nums: [Int!]
	flags: [Boolean!]
	onums: [Int]
}`

var docFields = []string{"name", "title", "n", "m", "f", "b", "t", "zz_long_field_name", "tags", "nums", "flags", "onums"}
var docKinds = map[string]string{"name": "s", "title": "s", "n": "i", "m": "i", "f": "f", "b": "b", "t": "t", "zz_long_field_name": "s",
	"tags": "as", "nums": "ai", "flags": "ab", "onums": "oi"}

type fval struct {
	k string // n s i f b, arrays: as ai ab, oi (elements may be nil)
	s string
	i int64 // int, or float numerator in eighths
	b bool
	// array elements; an element of an `oi` array with k == "n" is nil
	arr []fval
}

func (v fval) tok() string {
	switch v.k {
	case "as", "ai", "ab":
		var p []string
		for _, e := range v.arr {
			t := e.tok()[1:]
			if t == "" {
				t = "-" // the empty string (an empty list has no elements at all)
			}
			p = append(p, t)
		}
		return v.k + strings.Join(p, ",")
	case "oi":
		// only the length reaches the model: the contents are not part of the serialisation
		return "oi" + strconv.Itoa(len(v.arr))
	case "n":
		return "n"
	case "s", "t":
		if v.s == "" {
			return "s"
		}
		return "s" + vc.Hex([]byte(v.s))
	case "i":
		return "i" + strconv.FormatInt(v.i, 10)
	case "f":
		return "f" + strconv.FormatInt(v.i, 10)
	case "F":
		return "F" + strconv.FormatUint(math.Float64bits(float64(v.i)), 10)
	default:
		if v.b {
			return "b1"
		}
		return "b0"
	}
}

func (v fval) json() string {
	switch v.k {
	case "as", "ai", "ab", "oi":
		var p []string
		for _, e := range v.arr {
			p = append(p, e.json())
		}
		return "[" + strings.Join(p, ", ") + "]"
	case "n":
		return "null"
	case "s", "t":
		b, _ := json.Marshal(v.s)
		return string(b)
	case "i":
		return strconv.FormatInt(v.i, 10)
	case "f":
		return strconv.FormatFloat(float64(v.i)/8, 'f', -1, 64)
	case "F":
		// an integral float written without a fraction (in GraphQL: an integer literal for a Float field)
		return strconv.FormatInt(v.i, 10)
	default:
		return strconv.FormatBool(v.b)
	}
}

func (v fval) goval() any {
	switch v.k {
	case "as", "ai", "ab", "oi":
		xs := []any{}
		for _, e := range v.arr {
			xs = append(xs, e.goval())
		}
		return xs
	case "t":
		tm, err := time.Parse(time.RFC3339Nano, v.s)
		must(err)
		return tm
	case "n":
		return nil
	case "s":
		return v.s
	case "i":
		return v.i
	case "f":
		return float64(v.i) / 8
	case "F":
		return float64(v.i)
	default:
		return v.b
	}
}

func genFval(r *vc.Rng, kind string) fval {
	switch kind {
	case "as", "ai", "ab", "oi":
		v := fval{k: kind}
		n := []int{0, 1, 2, 3, 23, 24, 30}[r.Intn(7)]
		for i := 0; i < n; i++ {
			e := genFval(r, map[string]string{"as": "s", "ai": "i", "ab": "b", "oi": "i"}[kind])
			if kind == "oi" && r.Chance(1, 4) {
				e = fval{k: "n"}
			}
			v.arr = append(v.arr, e)
		}
		return v
	case "t":
		return fval{k: "t", s: []string{"2021-03-04T05:06:07Z", "2021-03-04T05:06:07.123456789Z", "2021-03-04T05:06:07+02:00", "1999-12-31T23:59:59.5-05:00", "2030-01-01T00:00:00.000001+09:30"}[r.Intn(5)]}
	case "s":
		return fval{k: "s", s: []string{"", "a", "hello", "Ünï", "a\"b", strings.Repeat("x", 30), "23 bytes long string..", "24 bytes long string...x"}[r.Intn(8)]}
	case "i":
		return fval{k: "i", i: []int64{0, 1, 23, 24, 255, 256, 65535, 65536, -1, -24, -25, -256, -257, 4294967295, 4294967296, -4294967297, 9007199254740993, -9223372036854775808, 9223372036854775807}[r.Intn(19)]}
	case "f":
		if r.Chance(1, 4) {
			// integral values that need all of binary64 (not exact in binary32)
			return fval{k: "F", i: []int64{16777217, 123456789, 4294967297, -16777219, 9007199254740991}[r.Intn(5)]}
		}
		return fval{k: "f", i: []int64{0, 4, 12, -18, 8, 800, 1, -1, 16376, 7}[r.Intn(10)]}
	default:
		return fval{k: "b", b: r.Bool()}
	}
}

func docCase(ctx context.Context, out *vc.Out, r *vc.Rng, nodes []*vnode.Node, caseID int) {
	// content: a subset of fields with values, some explicitly null
	content := map[string]fval{}
	for _, f := range docFields {
		switch r.Intn(4) {
		case 0: // omitted
		case 1:
			content[f] = fval{k: "n"}
		default:
			content[f] = genFval(r, docKinds[f])
		}
	}
	if len(content) == 0 {
		content["name"] = fval{k: "s", s: "only"}
	}
	// make the content unique per case so that creates do not collide
	content["m"] = fval{k: "i", i: int64(1000000 + caseID)}
	keys := make([]string, 0, len(content))
	for k := range content {
		keys = append(keys, k)
	}
	sort.Strings(keys)
	var toks []string
	for _, k := range keys {
		toks = append(toks, k+"="+content[k].tok())
	}
	col, err := nodes[0].DB.GetCollectionByName(ctx, "Item")
	must(err)
	ids := map[string]string{}
	jsonOf := func(order []string, withNulls bool) string {
		var p []string
		for _, k := range order {
			v := content[k]
			if v.k == "n" && !withNulls {
				continue
			}
			kb, _ := json.Marshal(k)
			p = append(p, string(kb)+": "+v.json())
		}
		return "{" + strings.Join(p, ", ") + "}"
	}
	// route 1: JSON, sorted keys, explicit nulls
	d1, err := client.NewDocFromJSON([]byte(jsonOf(keys, true)), col.Definition())
	must(err)
	ids["json-sorted-nulls"] = d1.ID().String()
	bytes1, err := d1.Bytes()
	must(err)
	// route 2: JSON, permuted keys, nulls omitted
	perm := append([]string{}, keys...)
	for i := len(perm) - 1; i > 0; i-- {
		j := r.Intn(i + 1)
		perm[i], perm[j] = perm[j], perm[i]
	}
	d2, err := client.NewDocFromJSON([]byte(jsonOf(perm, false)), col.Definition())
	must(err)
	ids["json-permuted-omitted"] = d2.ID().String()
	// route 3: Go map (with nils)
	m := map[string]any{}
	for k, v := range content {
		m[k] = v.goval()
	}
	d3, err := client.NewDocFromMap(m, col.Definition())
	must(err)
	ids["map-nils"] = d3.ID().String()
	// route 4: Go map without the nil entries
	m2 := map[string]any{}
	for k, v := range content {
		if v.k != "n" {
			m2[k] = v.goval()
		}
	}
	d4, err := client.NewDocFromMap(m2, col.Definition())
	must(err)
	ids["map-omitted"] = d4.ID().String()
	// routes 5, 6: GraphQL create on two different nodes
	for ni, nd := range nodes {
		var p []string
		skip := false
		for _, k := range perm {
			v := content[k]
			if v.k == "i" && (v.i > 2147483647 || v.i < -2147483648) {
				skip = true // GraphQL Int literals are 32-bit
			}
			for _, e := range v.arr {
				if e.k == "i" && (e.i > 2147483647 || e.i < -2147483648) {
					skip = true
				}
			}
			if v.k == "n" && ni == 1 {
				continue
			}
			p = append(p, k+": "+v.json())
		}
		if skip {
			continue
		}
		res := nd.GQL(ctx, "mutation { create_Item(input: {"+strings.Join(p, ", ")+"}) { _docID } }")
		var rr map[string][]map[string]any
		if err := json.Unmarshal([]byte(res), &rr); err != nil || len(rr["create_Item"]) != 1 {
			ids[fmt.Sprintf("graphql-node%d", ni)] = "ERR:" + res
			continue
		}
		ids[fmt.Sprintf("graphql-node%d", ni)] = fmt.Sprint(rr["create_Item"][0]["_docID"])
	}
	line := out.Lines
	out.Emit("docbytes "+strings.Join(toks, " "), vc.Hex(bytes1))
	out.Count("op:docbytes")
	out.Nontrivial(fmt.Sprintf("doc%d", caseID))
	ref := ids["json-sorted-nulls"]
	var routes []string
	for k := range ids {
		routes = append(routes, k)
	}
	sort.Strings(routes)
	for _, k := range routes {
		if ids[k] != ref {
			out.Oracle(line, fmt.Sprintf("[docid-depends-on-route] case %d: content {%s} gets docID %s via json-sorted-nulls but %s via %s", caseID, strings.Join(toks, " "), ref, ids[k], k))
		}
	}
}

// ------------------------------------------------------------------ (B) schema / collection identifiers

type typeDef struct {
	name    string
	scalar  []string // scalar field lines
	refs    []string // names of referenced types (one relation field each)
	ordered bool     // relation fields are named so that their name order is the order of refs
}

func (t typeDef) sdl(primary map[string]bool) string { return t.sdlShuffled(primary, nil) }

// sdlShuffled writes the fields in a random order when given a generator
func (t typeDef) sdlShuffled(primary map[string]bool, shuffle *vc.Rng) string {
	var lines []string
	for _, s := range t.scalar {
		lines = append(lines, "\t"+s+"\n")
	}
	for k, ref := range t.refs {
		fname := strings.ToLower(ref) + "Of" + t.name
		if t.ordered {
			fname = fmt.Sprintf("r%d%s", k+1, strings.ToLower(ref))
		}
		key := t.name + ">" + ref
		if ref == t.name {
			lines = append(lines, "\t"+fname+": "+ref+"\n")
		} else if primary[key] {
			lines = append(lines, "\t"+fname+": "+ref+" @primary\n")
		} else {
			lines = append(lines, "\t"+fname+": "+ref+"\n")
		}
	}
	return render(t.name, lines, shuffle)
}

func render(name string, lines []string, shuffle *vc.Rng) string {
	if shuffle != nil {
		for a := len(lines) - 1; a > 0; a-- {
			b := shuffle.Intn(a + 1)
			lines[a], lines[b] = lines[b], lines[a]
		}
	}
	var out strings.Builder
	out.WriteString("type " + name + " {\n")
	for _, l := range lines {
		out.WriteString(l)
	}
	out.WriteString("}\n")
	return out.String()
}

// ids of every type after adding the given batches of SDL to a fresh node
func addAndCollect(ctx context.Context, batches []string) (map[string]string, error) {
	nd, err := vnode.NewMem(ctx)
	if err != nil {
		return nil, err
	}
	defer nd.Close()
	for _, b := range batches {
		if _, err := nd.DB.AddSchema(ctx, b); err != nil {
			return nil, err
		}
	}
	cols, err := nd.DB.GetCollections(ctx, client.CollectionFetchOptions{})
	if err != nil {
		return nil, err
	}
	out := map[string]string{}
	for _, c := range cols {
		out[c.Name()] = c.Version().VersionID + "|" + c.Version().CollectionID
	}
	return out, nil
}

func genGraph(r *vc.Rng) []typeDef {
	n := 2 + r.Intn(3)
	names := []string{"Alpha", "Beta", "Gamma", "Delta", "Eps"}[:n]
	var ts []typeDef
	for i, nm := range names {
		t := typeDef{name: nm, scalar: []string{"name: String", fmt.Sprintf("v%d: Int", i)}}
		if r.Chance(1, 2) {
			// names that differ only in letter case (a canonical field order has to tell them apart)
			t.scalar = append(t.scalar, [][]string{{"userId: Int", "userID: Int"}, {"penName: String", "penname: String"}, {"Tag: String", "tag: String", "TAG: String"}}[r.Intn(3)]...)
		}
		ts = append(ts, t)
	}
	// relations: one-to-one pairs (each unordered pair at most once; both sides get a field)
	for i := 0; i < n; i++ {
		for j := i + 1; j < n; j++ {
			if r.Chance(2, 5) {
				ts[i].refs = append(ts[i].refs, names[j])
				ts[j].refs = append(ts[j].refs, names[i])
			}
		}
	}
	return ts
}

// genDigraph: 5-10 types with one-sided relations (a field on the referencing type only): dangling chains of
// different lengths next to cycles of three or more types, several relations per type
func genDigraph(r *vc.Rng, caseID int) []typeDef {
	if caseID == 1 {
		// a type with two dangling relation chains of different length followed by two relations into a cycle
		mk := func(name string, refs ...string) typeDef {
			return typeDef{name: name, scalar: []string{"name: String"}, refs: refs, ordered: true}
		}
		return []typeDef{mk("Ant", "Tick", "Toad", "Dog", "Bee"), mk("Tick", "Ulna"), mk("Ulna", "LeafA"), mk("LeafA"), mk("Toad", "LeafB"), mk("LeafB"),
			mk("Bee", "Dog"), mk("Dog", "Cat"), mk("Cat", "Bee")}
	}
	if caseID == 3 {
		// two circles; a member of the first one refers to the second one AFTER its relation into its own circle: when
		// the second circle was added by an earlier call, that relation is dropped from the list and must not take the
		// one before it along
		mk := func(name string, refs ...string) typeDef {
			return typeDef{name: name, scalar: []string{"name: String"}, refs: refs, ordered: true}
		}
		return []typeDef{mk("Xa", "Cat", "Pig"), mk("Cat", "Dog"), mk("Dog", "Xa"), mk("Pig", "Rat"), mk("Rat", "Sow"), mk("Sow", "Pig")}
	}
	n := 5 + r.Intn(6)
	names := []string{"Ant", "Bee", "Cat", "Dog", "Eel", "Fox", "Gnu", "Hen", "Ibis", "Jay"}[:n]
	ts := make([]typeDef, n)
	edge := map[[2]int]bool{}
	for i, nm := range names {
		ts[i] = typeDef{name: nm, scalar: []string{"name: String"}, ordered: true}
	}
	for i := range ts {
		d := r.Intn(5)
		for k := 0; k < d; k++ {
			j := r.Intn(n)
			if j == i || edge[[2]int{i, j}] || edge[[2]int{j, i}] {
				continue
			}
			edge[[2]int{i, j}] = true
			ts[i].refs = append(ts[i].refs, names[j])
		}
	}
	return ts
}

// dependencyBatches: the strongly connected components of the reference graph in an order in which every type comes
// after the types it refers to
func dependencyBatches(ts []typeDef) [][]int {
	idx := map[string]int{}
	for i, t := range ts {
		idx[t.name] = i
	}
	n := len(ts)
	reach := make([][]bool, n)
	for i := range reach {
		reach[i] = make([]bool, n)
		for _, ref := range ts[i].refs {
			reach[i][idx[ref]] = true
		}
	}
	for k := 0; k < n; k++ {
		for i := 0; i < n; i++ {
			for j := 0; j < n; j++ {
				if reach[i][k] && reach[k][j] {
					reach[i][j] = true
				}
			}
		}
	}
	comp := make([]int, n)
	for i := range comp {
		comp[i] = -1
	}
	var comps [][]int
	for i := 0; i < n; i++ {
		if comp[i] >= 0 {
			continue
		}
		c := len(comps)
		comps = append(comps, nil)
		for j := i; j < n; j++ {
			if j == i || (reach[i][j] && reach[j][i]) {
				comp[j] = c
				comps[c] = append(comps[c], j)
			}
		}
	}
	// emit a component once all components it refers to are out
	done := make([]bool, len(comps))
	var out [][]int
	for len(out) < len(comps) {
		for c := range comps {
			if done[c] {
				continue
			}
			ready := true
			for _, i := range comps[c] {
				for j := 0; j < n; j++ {
					if reach[i][j] && comp[j] != c && !done[comp[j]] {
						ready = false
					}
				}
			}
			if ready {
				done[c] = true
				out = append(out, comps[c])
			}
		}
	}
	return out
}

func schemaCase(ctx context.Context, out *vc.Out, r *vc.Rng, caseID int, tier string) {
	ts := genGraph(r)
	oneSided := caseID%2 == 1
	if oneSided {
		ts = genDigraph(r, caseID)
	}
	primary := map[string]bool{}
	for _, t := range ts {
		for _, ref := range t.refs {
			if t.name < ref && !oneSided {
				primary[t.name+">"+ref] = true
			}
		}
	}
	var desc []string
	for _, t := range ts {
		desc = append(desc, t.name+"->"+strings.Join(t.refs, "+"))
	}
	sdlOf := func(order []int) string {
		var sb strings.Builder
		for _, i := range order {
			sb.WriteString(ts[i].sdl(primary))
		}
		return sb.String()
	}
	base := make([]int, len(ts))
	for i := range base {
		base[i] = i
	}
	ref, err := addAndCollect(ctx, []string{sdlOf(base)})
	line := out.Lines
	out.Emit("schema "+strings.Join(desc, ","), "ok")
	out.Count("op:schema")
	if err != nil {
		out.Count("schema-error")
		return
	}
	out.Nontrivial(fmt.Sprintf("schema%d", caseID))
	// the schema sets visible in the identifiers against the specification (drv ident): the edges are the relations
	// the schema descriptions hold (the primary side of a two-sided relation, every one-sided relation)
	{
		var spec []string
		names := []string{}
		for _, t := range ts {
			var es []string
			for _, rf := range t.refs {
				if oneSided || rf == t.name || primary[t.name+">"+rf] {
					es = append(es, rf)
				}
			}
			spec = append(spec, t.name+"->"+strings.Join(es, "+"))
			names = append(names, t.name)
		}
		sort.Strings(names)
		base := func(n string) (string, string) {
			v := strings.SplitN(ref[n], "|", 2)[0]
			if i := strings.LastIndex(v, "-"); i >= 0 {
				return v[:i], v[i+1:]
			}
			return v, ""
		}
		var parts []string
		for _, n := range names {
			b, ix := base(n)
			if ix == "" {
				parts = append(parts, n+"=-")
				continue
			}
			leader := n
			for _, m := range names {
				if mb, mi := base(m); mb == b && mi != "" {
					leader = m
					break
				}
			}
			parts = append(parts, fmt.Sprintf("%s=%s#%s", n, leader, ix))
		}
		out.Emit("sets "+strings.Join(spec, ","), strings.Join(parts, " "))
		out.Count("op:sets")
	}
	reps := 6
	if tier == "thorough" {
		reps = 20
	}
	check := func(what string, got map[string]string, err error) {
		if err != nil {
			out.Oracle(line, fmt.Sprintf("[schema-id-order] case %d graph {%s}: %s fails: %v", caseID, strings.Join(desc, ","), what, err))
			return
		}
		for _, t := range ts {
			if got[t.name] != ref[t.name] {
				out.Oracle(line, fmt.Sprintf("[schema-id-order] case %d graph {%s}: type %s gets identifiers %s in SDL order, %s with %s", caseID, strings.Join(desc, ","), t.name, ref[t.name], got[t.name], what))
				return
			}
		}
	}
	// repetitions of the same SDL (map iteration order varies inside getSchemaSets)
	for i := 0; i < reps; i++ {
		got, err := addAndCollect(ctx, []string{sdlOf(base)})
		check(fmt.Sprintf("repetition %d of the same SDL", i), got, err)
	}
	// permutations of the type order
	for i := 0; i < reps; i++ {
		perm := append([]int{}, base...)
		for a := len(perm) - 1; a > 0; a-- {
			b := r.Intn(a + 1)
			perm[a], perm[b] = perm[b], perm[a]
		}
		got, err := addAndCollect(ctx, []string{sdlOf(perm)})
		check(fmt.Sprintf("type order %v", perm), got, err)
	}
	// permutations of the field order inside every type
	for i := 0; i < reps; i++ {
		var sb strings.Builder
		for _, t := range ts {
			sb.WriteString(t.sdlShuffled(primary, r))
		}
		got, err := addAndCollect(ctx, []string{sb.String()})
		check("permuted field order inside the types", got, err)
	}
	// one-sided relations: a type can be added after the types it refers to, in a call of its own (types of a
	// reference cycle stay in one call)
	if oneSided {
		if batches := dependencyBatches(ts); len(batches) > 1 {
			var sdls []string
			for _, b := range batches {
				sdls = append(sdls, sdlOf(b))
			}
			got, err := addAndCollect(ctx, sdls)
			check(fmt.Sprintf("%d separate AddSchema calls (referenced types first)", len(batches)), got, err)
			out.Count("dependency-ordered-partition")
		}
	}
	// partitions: connected components can be added in separate calls
	comp := map[string]int{}
	var visit func(i, c int)
	visit = func(i, c int) {
		if _, ok := comp[ts[i].name]; ok {
			return
		}
		comp[ts[i].name] = c
		for _, ref := range ts[i].refs {
			for j := range ts {
				if ts[j].name == ref {
					visit(j, c)
				}
			}
		}
		// (relations may be one-sided: a component is connected through either direction)
		for j := range ts {
			for _, ref := range ts[j].refs {
				if ref == ts[i].name {
					visit(j, c)
				}
			}
		}
	}
	nc := 0
	for i := range ts {
		if _, ok := comp[ts[i].name]; !ok {
			visit(i, nc)
			nc++
		}
	}
	if nc > 1 {
		var batches []string
		for c := nc - 1; c >= 0; c-- {
			var idx []int
			for i := range ts {
				if comp[ts[i].name] == c {
					idx = append(idx, i)
				}
			}
			batches = append(batches, sdlOf(idx))
		}
		got, err := addAndCollect(ctx, batches)
		check(fmt.Sprintf("%d separate AddSchema calls (one per connected component)", nc), got, err)
	}
}

func main() {
	f := vc.ParseFlags()
	out := vc.NewOut(f.OutDir)
	ctx := context.Background()
	r := vc.NewRng(f.Seed)
	var nodes []*vnode.Node
	for i := 0; i < 2; i++ {
		nd, err := vnode.NewMem(ctx)
		must(err)
		_, err = nd.DB.AddSchema(ctx, docSDL)
		must(err)
		nodes = append(nodes, nd)
	}
	nDocs, nSchemas := 400, 25
	if f.Tier == "thorough" {
		nDocs, nSchemas = 20000, 600
	}
	if f.N > 0 {
		nSchemas = f.N
	}
	for i := 0; i < nDocs; i++ {
		docCase(ctx, out, r, nodes, i)
	}
	for _, nd := range nodes {
		nd.Close()
	}
	for i := 0; i < nSchemas; i++ {
		cr, _ := r.Fork()
		schemaCase(ctx, out, cr, i, f.Tier)
	}
	out.Close(map[string]any{"seed": f.Seed, "doc_cases": nDocs, "schema_cases": nSchemas})
}
