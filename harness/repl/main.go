//go:build verif

// Engine `repl` (C15): two full nodes A and B (node.New: file-backed stores, libp2p on loopback; B on a fixed port
// and key so that it comes back as the same peer). A replicates a collection to B. A generated history interleaves
// writes on A (creates, updates, several per document), B going down and coming back, add-field schema patches on
// both nodes, and rounds of A's replicator retry loop (run through an overlay hook instead of waiting for its
// ticker). After every step A's retry bookkeeping (retry record, retrying flag, documents owed, replicator status)
// is read from its peer store and compared with `drv repl`; `settle` waits for quiescence and compares B's
// documents with A's: once traffic stops and B is reachable, B must equal A.
package main

import (
	"context"
	"encoding/json"
	"fmt"
	"google.golang.org/grpc"
	"net"
	"os"
	"path/filepath"
	"runtime/debug"
	"sort"
	"strconv"
	"strings"
	"sync/atomic"
	"time"

	"github.com/fxamacker/cbor/v2"
	"github.com/sourcenetwork/corekv"
	"github.com/sourcenetwork/immutable"
	"github.com/sourcenetwork/lens/host-go/config/model"

	"github.com/sourcenetwork/defradb/client"
	"github.com/sourcenetwork/defradb/crypto"
	"github.com/sourcenetwork/defradb/internal/db"
	vc "github.com/sourcenetwork/defradb/internal/verifharness/common"
	defranet "github.com/sourcenetwork/defradb/net"
	netConfig "github.com/sourcenetwork/defradb/net/config"
	"github.com/sourcenetwork/defradb/node"
)

func must(err error) {
	if err != nil {
		panic(err)
	}
}

type inst struct {
	dir  string
	n    *node.Node
	priv []byte
	port int
	up   bool
	isB  bool
}

// until this time (unix nanoseconds) B's push-log handler does not answer: a hung process or a black-holed link, as
// opposed to a closed port
var hangUntil atomic.Int64

type world struct {
	ctx    context.Context
	out    *vc.Out
	caseID uint64
	base   string
	a, b   *inst
	docs   map[string]string // label -> docID
	byID   map[string]string
	order  []string
	fields []string
	mode   string // rep: replicator A->B ; sub: B subscribes to the collection (pubsub), no replicator
	// the DAG sync's link timeout before "slow" (0: not slow)
	slowOld time.Duration
	// A's push timeout before "hang" (0: unchanged)
	pushOld time.Duration
}

func freePort() int {
	l, err := net.Listen("tcp", "127.0.0.1:0")
	must(err)
	defer l.Close()
	return l.Addr().(*net.TCPAddr).Port
}

func (w *world) opts(i *inst) []node.Option {
	return []node.Option{
		node.WithStoreType(node.BadgerStore),
		node.WithStorePath(filepath.Join(i.dir, "data")),
		node.WithBadgerInMemory(false),
		node.WithDisableAPI(true),
		node.WithDisableP2P(false),
		netConfig.WithListenAddresses(fmt.Sprintf("/ip4/127.0.0.1/tcp/%d", i.port)),
		netConfig.WithEnablePubSub(true),
		netConfig.WithPrivateKey(i.priv),
		// the retry loop's own ticker never fires a retry in a run: rounds are triggered through the hook
		netConfig.WithRetryInterval([]time.Duration{time.Hour}),
		netConfig.NodeOpt(func(o *netConfig.Options) {
			if !i.isB {
				return
			}
			o.GRPCServerOptions = append(o.GRPCServerOptions, grpc.UnaryInterceptor(
				func(ctx context.Context, req any, info *grpc.UnaryServerInfo, handler grpc.UnaryHandler) (any, error) {
					for time.Now().UnixNano() < hangUntil.Load() {
						time.Sleep(20 * time.Millisecond)
					}
					return handler(ctx, req)
				}))
		}),
		db.WithEnabledSigning(false),
	}
}

func (w *world) newInst(name string) *inst {
	i := &inst{dir: filepath.Join(w.base, fmt.Sprintf("c%d-%s", w.caseID, name)), port: freePort(), isB: name == "b"}
	must(os.MkdirAll(i.dir, 0o755))
	k, err := crypto.GenerateEd25519()
	must(err)
	i.priv = k
	w.open(i)
	return i
}

func (w *world) open(i *inst) {
	n, err := node.New(w.ctx, w.opts(i)...)
	must(err)
	must(n.Start(w.ctx))
	i.n = n
	i.up = true
}

func (w *world) close() {
	hangUntil.Store(0)
	if w.pushOld != 0 {
		defranet.PushTimeout = w.pushOld
		w.pushOld = 0
	}
	if w.slowOld != 0 {
		defranet.VerifSetSyncLinkTimeout(w.slowOld)
		w.slowOld = 0
	}
	for _, i := range []*inst{w.a, w.b} {
		if i != nil && i.up {
			_ = i.n.Close(w.ctx)
		}
		if i != nil {
			_ = os.RemoveAll(i.dir)
		}
	}
}

func gql(ctx context.Context, i *inst, q string) string {
	res := i.n.DB.ExecRequest(ctx, q)
	if len(res.GQL.Errors) > 0 {
		var es []string
		for _, e := range res.GQL.Errors {
			es = append(es, e.Error())
		}
		return "error: " + strings.Join(es, "; ")
	}
	b, _ := json.Marshal(res.GQL.Data)
	return string(b)
}

func gqlInput(js string) string {
	var m map[string]any
	must(json.Unmarshal([]byte(js), &m))
	keys := make([]string, 0, len(m))
	for k := range m {
		keys = append(keys, k)
	}
	sort.Strings(keys)
	var parts []string
	for _, k := range keys {
		b, _ := json.Marshal(m[k])
		parts = append(parts, k+": "+string(b))
	}
	return "{" + strings.Join(parts, ", ") + "}"
}

// state of a node's documents, by label
func (w *world) docsOf(i *inst) map[string]string {
	out := map[string]string{}
	res := gql(w.ctx, i, fmt.Sprintf(`query { K1 { _docID %s } }`, strings.Join(w.fields, " ")))
	var m map[string][]map[string]any
	if json.Unmarshal([]byte(res), &m) != nil {
		out["?"] = res
		return out
	}
	for _, d := range m["K1"] {
		l := w.byID[fmt.Sprint(d["_docID"])]
		delete(d, "_docID")
		b, _ := json.Marshal(d)
		out[l] = string(b)
	}
	return out
}

type retryInfo struct {
	NextRetry  time.Time
	NumRetries int
	Retrying   bool
}

// book reads A's retry bookkeeping for B from the peer store
func (w *world) book() string {
	bID := ""
	if w.b != nil {
		bID = w.bPeerID()
	}
	kvs := scanRoot(w.ctx, w.a, "/db/ps/rep/retry")
	record, retrying := 0, 0
	var owed []string
	for _, kv := range kvs {
		k := string(kv[0])
		switch {
		case strings.HasPrefix(k, "/db/ps/rep/retry/id/"+bID):
			record = 1
			var ri retryInfo
			if cbor.Unmarshal(kv[1], &ri) == nil && ri.Retrying {
				retrying = 1
			}
		case strings.HasPrefix(k, "/db/ps/rep/retry/doc/"+bID+"/"):
			owed = append(owed, w.byID[strings.TrimPrefix(k, "/db/ps/rep/retry/doc/"+bID+"/")])
		}
	}
	sort.Strings(owed)
	status := "none"
	reps, err := w.a.n.Peer.GetAllReplicators(w.ctx)
	if err == nil {
		for _, r := range reps {
			if r.Info.ID.String() == bID {
				status = "active"
				if r.Status == client.ReplicatorStatusInactive {
					status = "inactive"
				}
			}
		}
	}
	return fmt.Sprintf("record=%d retrying=%d owed=[%s] status=%s", record, retrying, strings.Join(owed, ","), status)
}

var bPeer string

func (w *world) bPeerID() string { return bPeer }

func scanRoot(ctx context.Context, i *inst, prefix string) [][2][]byte {
	it, err := i.n.DB.Rootstore().Iterator(ctx, corekv.IterOptions{Prefix: []byte(prefix)})
	must(err)
	var out [][2][]byte
	for {
		ok, err := it.Next()
		if err != nil || !ok {
			break
		}
		v, _ := it.Value()
		out = append(out, [2][]byte{append([]byte{}, it.Key()...), append([]byte{}, v...)})
	}
	_ = it.Close()
	return out
}

// awaitStable polls the bookkeeping until it has been the same for a while (pushes and failure handling are
// asynchronous) and B, if up, has caught up with what is not owed
func (w *world) awaitStable() string {
	deadline := time.Now().Add(8 * time.Second)
	last, since := "", time.Now()
	for {
		cur := w.book()
		if w.b.up {
			cur += " | " + fmt.Sprint(w.docsOf(w.b))
		}
		if cur != last {
			last, since = cur, time.Now()
		}
		need := 400 * time.Millisecond
		if time.Now().UnixNano() < hangUntil.Load() {
			need += defranet.PushTimeout // a push that gets no answer is given up after this long
		}
		if time.Since(since) > need || time.Now().After(deadline) {
			return w.book()
		}
		time.Sleep(40 * time.Millisecond)
	}
}

func (w *world) settle() string {
	deadline := time.Now().Add(25 * time.Second)
	for {
		da, db := w.docsOf(w.a), w.docsOf(w.b)
		var missing []string
		for l, v := range da {
			if db[l] != v {
				missing = append(missing, l)
			}
		}
		sort.Strings(missing)
		if len(missing) == 0 {
			return "equal"
		}
		if time.Now().After(deadline) {
			return "differs:" + strings.Join(missing, ",")
		}
		time.Sleep(60 * time.Millisecond)
	}
}

func runCase(ctx context.Context, out *vc.Out, base string, lines []string) {
	w := &world{ctx: ctx, out: out, base: base, docs: map[string]string{}, byID: map[string]string{}, fields: []string{"name", "n"}}
	defer w.close()
	defer func() {
		if rr := recover(); rr != nil {
			if os.Getenv("VERIF_STACK") != "" {
				debug.PrintStack()
			}
			out.Oracle(out.Lines, fmt.Sprintf("[panic] case %d: %v", w.caseID, rr))
			out.Emit("panic", strings.ReplaceAll(fmt.Sprint(rr), "\n", " "))
		}
	}()
	noLens := immutable.None[model.Lens]()
	for _, l := range lines {
		t := strings.Fields(l)
		var res string
		switch t[0] {
		case "case":
			id, _ := strconv.ParseUint(t[1], 10, 64)
			w.caseID = id
			w.mode = "rep"
			if len(t) > 2 {
				w.mode = t[2]
			}
			res = "ok"
		case "start":
			w.a, w.b = w.newInst("a"), w.newInst("b")
			bPeer = w.b.n.Peer.PeerInfo().ID.String()
			for _, i := range []*inst{w.a, w.b} {
				_, err := i.n.DB.AddSchema(ctx, `type K1 { name: String
 n: Int }`)
				must(err)
			}
			if w.mode == "rep" {
				must(w.a.n.Peer.SetReplicator(ctx, w.b.n.Peer.PeerInfo(), "K1"))
			} else {
				must(w.b.n.Peer.AddP2PCollections(ctx, "K1"))
				must(w.a.n.Peer.Connect(ctx, w.b.n.Peer.PeerInfo()))
				time.Sleep(300 * time.Millisecond) // the subscription has to reach A before it publishes
			}
			res = w.awaitStable()
		case "create": // create <label> <json>
			f := strings.SplitN(l, " ", 3)
			r := gql(ctx, w.a, fmt.Sprintf(`mutation { create_K1(input: %s) { _docID } }`, gqlInput(f[2])))
			var m map[string][]map[string]any
			if err := json.Unmarshal([]byte(r), &m); err != nil || len(m["create_K1"]) != 1 {
				res = "error:" + strings.ReplaceAll(r, " ", "_")
				break
			}
			id := fmt.Sprint(m["create_K1"][0]["_docID"])
			w.docs[t[1]] = id
			w.byID[id] = t[1]
			w.order = append(w.order, t[1])
			res = w.awaitStable()
		case "update": // update <label> <json>
			f := strings.SplitN(l, " ", 3)
			r := gql(ctx, w.a, fmt.Sprintf(`mutation { update_K1(docID: "%s", input: %s) { _docID } }`, w.docs[t[1]], gqlInput(f[2])))
			if !strings.Contains(r, w.docs[t[1]]) {
				res = "error:" + strings.ReplaceAll(r, " ", "_")
				break
			}
			res = w.awaitStable()
		case "down":
			if w.b.up {
				must(w.b.n.Close(ctx))
				w.b.up = false
			}
			res = "ok"
		case "up":
			if !w.b.up {
				w.open(w.b)
				// B is reachable again: the connection manager's dial back-off for it has run out
				deadline := time.Now().Add(8 * time.Second)
				for {
					w.a.n.Peer.(*defranet.Peer).VerifClearDialBackoff(w.b.n.Peer.PeerInfo().ID)
					if err := w.a.n.Peer.Connect(ctx, w.b.n.Peer.PeerInfo()); err == nil {
						w.a.n.Peer.(*defranet.Peer).VerifClearDialBackoff(w.b.n.Peer.PeerInfo().ID)
						time.Sleep(150 * time.Millisecond) // the gRPC connection re-establishes in the background
						break
					}
					if time.Now().After(deadline) {
						res = "cannot-connect"
						break
					}
					time.Sleep(100 * time.Millisecond)
				}
			}
			if res == "" {
				res = "ok"
			}
		case "slow": // B stays reachable and accepts pushes, but its DAG sync cannot fetch any linked block in time
			if w.slowOld == 0 {
				w.slowOld = defranet.VerifSetSyncLinkTimeout(time.Nanosecond)
			}
			res = "ok"
		case "hang": // B does not answer pushes (it neither refuses nor fails): A gives up after its push timeout
			if w.pushOld == 0 {
				w.pushOld = defranet.PushTimeout
				defranet.PushTimeout = time.Second
			}
			hangUntil.Store(time.Now().Add(time.Hour).UnixNano())
			res = "ok"
		case "unhang":
			hangUntil.Store(0)
			time.Sleep(100 * time.Millisecond) // the held handlers answer now
			res = "ok"
		case "fast":
			if w.slowOld != 0 {
				defranet.VerifSetSyncLinkTimeout(w.slowOld)
				w.slowOld = 0
			}
			res = "ok"
		case "patch": // patch <field>: the same add-field patch on A and on B (B must be up)
			p := fmt.Sprintf(`[{ "op": "add", "path": "/K1/Fields/-", "value": {"Name": "%s", "Kind": 11} }]`, t[1])
			ea := w.a.n.DB.PatchSchema(ctx, p, noLens, true)
			eb := w.b.n.DB.PatchSchema(ctx, p, noLens, true)
			if ea != nil || eb != nil {
				res = fmt.Sprintf("error:%v/%v", ea, eb)
				break
			}
			w.fields = append(w.fields, t[1])
			res = "ok"
		case "retry":
			if err := w.a.n.Peer.(*defranet.Peer).VerifRetryReplicators(ctx); err != nil {
				res = "hook-error:" + strings.ReplaceAll(err.Error(), " ", "_")
				break
			}
			res = w.awaitStable()
		case "settle":
			res = w.settle()
			if res != "equal" {
				out.Oracle(out.Lines, fmt.Sprintf("[not-delivered] case %d (%s): traffic stopped, B is reachable, retry rounds ran, yet B %s; A's bookkeeping: %s", w.caseID, w.mode, res, w.book()))
			}
		default:
			res = "bad-op"
		}
		out.Emit(l, res)
		out.Count(t[0])
	}
}

func genCase(r *vc.Rng, id uint64) []string {
	mode := "rep"
	if r.Chance(1, 5) {
		mode = "sub"
	}
	lines := []string{fmt.Sprintf("case %d %s", id, mode), "start"}
	ndoc := 0
	var docs []string
	up, slow, hung := true, false, false
	patches := []string{"email", "nick"}
	np := 0
	hasField := func(f string) bool { return false }
	_ = hasField
	for i := 0; i < 6+r.Intn(10); i++ {
		switch x := r.Intn(12); {
		case x < 4:
			ndoc++
			l := fmt.Sprintf("d%d", ndoc)
			lines = append(lines, fmt.Sprintf(`create %s {"name": "v%d", "n": %d}`, l, ndoc, r.Intn(9)))
			docs = append(docs, l)
		case x < 7 && len(docs) > 0:
			l := docs[r.Intn(len(docs))]
			if np > 0 && r.Chance(1, 2) {
				lines = append(lines, fmt.Sprintf(`update %s {"%s": "e%d"}`, l, patches[r.Intn(np)], i))
			} else {
				lines = append(lines, fmt.Sprintf(`update %s {"n": %d}`, l, 100+i))
			}
		case x < 9 && mode == "rep":
			switch {
			case up && r.Chance(1, 4):
				lines = append(lines, "hang")
				hung = true
			case up && r.Chance(1, 3):
				lines = append(lines, "slow")
				slow = true
			case up:
				lines = append(lines, "down")
			case hung:
				lines = append(lines, "unhang")
				hung = false
			case slow:
				lines = append(lines, "fast")
				slow = false
			default:
				lines = append(lines, "up")
			}
			up = !up
		case x == 9 && (up || slow || hung) && np < len(patches):
			lines = append(lines, "patch "+patches[np])
			np++
		case x >= 10 && mode == "rep":
			lines = append(lines, "retry")
		}
	}
	if !up {
		if hung {
			lines = append(lines, "unhang")
		} else if slow {
			lines = append(lines, "fast")
		} else {
			lines = append(lines, "up")
		}
	}
	if mode == "rep" {
		lines = append(lines, "retry", "retry")
	}
	lines = append(lines, "settle")
	return lines
}

func splitCases(lines []string) [][]string {
	var out [][]string
	for _, l := range lines {
		if strings.HasPrefix(l, "case ") || len(out) == 0 {
			out = append(out, nil)
		}
		out[len(out)-1] = append(out[len(out)-1], l)
	}
	return out
}

func main() {
	f := vc.ParseFlags()
	out := vc.NewOut(f.OutDir)
	ctx := context.Background()
	base := filepath.Join(f.OutDir, "stores")
	must(os.MkdirAll(base, 0o755))
	defer os.RemoveAll(base)
	var cases [][]string
	if f.Replay != "" {
		cases = splitCases(vc.ReadLines(f.Replay))
	} else {
		r := vc.NewRng(f.Seed)
		n := 8
		if f.Tier == "thorough" {
			n = 150
		}
		if f.N > 0 {
			n = f.N
		}
		// directed: two consecutive outages; an outage across a schema patch with writes of the new field
		cases = append(cases, []string{"case 1 rep", "start", `create d1 {"name": "v1", "n": 1}`, "down", `update d1 {"n": 2}`, `create d2 {"name": "v2", "n": 2}`, "up", "retry", "retry",
			"down", `update d2 {"n": 3}`, `create d3 {"name": "v3", "n": 3}`, "up", "retry", "retry", "settle"})
		cases = append(cases, []string{"case 2 rep", "start", `create d1 {"name": "v1", "n": 1}`, "patch email", "down", `update d1 {"email": "e1"}`, `create d2 {"name": "v2", "n": 2, "email": "e2"}`,
			"up", "retry", "retry", "settle"})
		// directed: a sync cut short (B holds the pushed head but nothing behind it), then the retry
		cases = append(cases, []string{"case 3 rep", "start", `create d1 {"name": "v1", "n": 1}`, "slow", `update d1 {"n": 2, "name": "w1"}`, `create d2 {"name": "v2", "n": 2}`, "fast", "retry", "retry", "settle"})
		// directed: documents written under a schema version that is no longer the active one when they are retried
		cases = append(cases, []string{"case 4 rep", "start", "patch email", "down", `create d1 {"name": "v1", "n": 1}`, `create d2 {"name": "v2", "n": 2, "email": "e2"}`, "up", "patch nick",
			"retry", "retry", "settle"})
		cases = append(cases, []string{"case 5 rep", "start", "slow", "patch email", `create d1 {"name": "v1", "n": 7}`, `create d2 {"name": "v2", "n": 4}`, "fast", "patch nick",
			`update d1 {"email": "e8"}`, "retry", "retry", "settle"})
		// directed: B does not answer one push (no refusal, no error), then answers again
		cases = append(cases, []string{"case 6 rep", "start", `create d1 {"name": "v1", "n": 1}`, "hang", `update d1 {"n": 2}`, `create d2 {"name": "v2", "n": 2}`, "unhang",
			"retry", "retry", `create d3 {"name": "v3", "n": 3}`, "settle"})
		for i := 0; i < n; i++ {
			cr, _ := r.Fork()
			cases = append(cases, genCase(cr, uint64(i+7)))
		}
	}
	for _, c := range cases {
		runCase(ctx, out, base, c)
		out.Nontrivial(strings.Join(c[1:], ";"))
	}
	out.Close(map[string]any{"seed": f.Seed, "cases": len(cases)})
}
