//go:build verif

// Package vfaultstore wraps a corekv.TxnStore (public interface, no hook in the repository) and fails the
// k-th storage operation with an injected error. Every operation of the store, of its transactions and of
// their iterators is counted: get, has, set, delete, iterator, next, value, seek, commit.
package vfaultstore

import (
	"context"
	"errors"
	"fmt"
	"sync"

	"github.com/sourcenetwork/corekv"
)

var ErrInjected = errors.New("verif: injected storage fault")

type Store struct {
	inner corekv.TxnStore
	mu    sync.Mutex
	on    bool
	n     int    // operations counted since Arm
	failAt int   // 1-based index of the operation to fail; 0 = none
	iters  int
	Fired  string // kind of the operation that was failed ("" if none)
	Trace  []string
	KeepTrace bool
}

func Wrap(inner corekv.TxnStore) *Store { return &Store{inner: inner} }

// Arm starts counting; the failAt-th operation from now on fails (0: count only).
func (s *Store) Arm(failAt int) {
	s.mu.Lock()
	defer s.mu.Unlock()
	s.on, s.n, s.failAt, s.Fired, s.Trace = true, 0, failAt, "", nil
}

// Disarm stops counting and returns the number of operations seen.
func (s *Store) Disarm() int {
	s.mu.Lock()
	defer s.mu.Unlock()
	s.on = false
	return s.n
}

func (s *Store) tick(kind string, key []byte) error {
	s.mu.Lock()
	defer s.mu.Unlock()
	if !s.on {
		return nil
	}
	s.n++
	if s.KeepTrace {
		s.Trace = append(s.Trace, fmt.Sprintf("%d %s %q", s.n, kind, key))
	}
	if s.n == s.failAt {
		s.Fired = kind
		return ErrInjected
	}
	return nil
}

type rw struct {
	s     *Store
	inner corekv.ReaderWriter
}

func (r rw) Get(ctx context.Context, key []byte) ([]byte, error) {
	if err := r.s.tick("get", key); err != nil {
		return nil, err
	}
	return r.inner.Get(ctx, key)
}

func (r rw) Has(ctx context.Context, key []byte) (bool, error) {
	if err := r.s.tick("has", key); err != nil {
		return false, err
	}
	return r.inner.Has(ctx, key)
}

func (r rw) Set(ctx context.Context, key, value []byte) error {
	if err := r.s.tick("set", key); err != nil {
		return err
	}
	return r.inner.Set(ctx, key, value)
}

func (r rw) Delete(ctx context.Context, key []byte) error {
	if err := r.s.tick("delete", key); err != nil {
		return err
	}
	return r.inner.Delete(ctx, key)
}

func (r rw) Iterator(ctx context.Context, opts corekv.IterOptions) (corekv.Iterator, error) {
	if err := r.s.tick("iterator", append(append(append([]byte{}, opts.Prefix...), opts.Start...), opts.End...)); err != nil {
		return nil, err
	}
	it, err := r.inner.Iterator(ctx, opts)
	if err != nil {
		return nil, err
	}
	r.s.mu.Lock()
	r.s.iters++
	id := r.s.iters
	if r.s.KeepTrace {
		r.s.Trace = append(r.s.Trace, fmt.Sprintf("  open iterator #%d", id))
	}
	r.s.mu.Unlock()
	return &iter{s: r.s, inner: it, id: id}, nil
}

type iter struct {
	s     *Store
	inner corekv.Iterator
	id    int
}

func (i *iter) Next() (bool, error) {
	if err := i.s.tick("next", nil); err != nil {
		return false, err
	}
	return i.inner.Next()
}
func (i *iter) Key() []byte { return i.inner.Key() }
func (i *iter) Value() ([]byte, error) {
	if err := i.s.tick("value", nil); err != nil {
		return nil, err
	}
	return i.inner.Value()
}
func (i *iter) Seek(k []byte) (bool, error) {
	if err := i.s.tick("seek", k); err != nil {
		return false, err
	}
	return i.inner.Seek(k)
}
func (i *iter) Reset()       { i.inner.Reset() }
func (i *iter) Close() error {
	i.s.mu.Lock()
	if i.s.KeepTrace {
		i.s.Trace = append(i.s.Trace, fmt.Sprintf("  close iterator #%d", i.id))
	}
	i.s.mu.Unlock()
	return i.inner.Close()
}

func (s *Store) Get(ctx context.Context, key []byte) ([]byte, error) { return rw{s, s.inner}.Get(ctx, key) }
func (s *Store) Has(ctx context.Context, key []byte) (bool, error)   { return rw{s, s.inner}.Has(ctx, key) }
func (s *Store) Set(ctx context.Context, key, value []byte) error    { return rw{s, s.inner}.Set(ctx, key, value) }
func (s *Store) Delete(ctx context.Context, key []byte) error        { return rw{s, s.inner}.Delete(ctx, key) }
func (s *Store) Iterator(ctx context.Context, o corekv.IterOptions) (corekv.Iterator, error) {
	return rw{s, s.inner}.Iterator(ctx, o)
}
func (s *Store) Close() error { return s.inner.Close() }

// Inner gives unwrapped access (dumps, seeding).
func (s *Store) Inner() corekv.TxnStore { return s.inner }

type txn struct {
	rw
	s     *Store
	inner corekv.Txn
}

func (s *Store) NewTxn(readonly bool) corekv.Txn {
	t := s.inner.NewTxn(readonly)
	return &txn{rw: rw{s, t}, s: s, inner: t}
}

func (t *txn) Commit() error {
	if err := t.s.tick("commit", nil); err != nil {
		// a failed commit leaves nothing behind
		t.inner.Discard()
		return err
	}
	return t.inner.Commit()
}

func (t *txn) Discard() { t.inner.Discard() }
