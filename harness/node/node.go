//go:build verif

// Package vnode: in-process DefraDB nodes on Badger in-memory stores and raw access to
// their block / head / data stores for the harness engines.
package vnode

import (
	"context"
	"errors"
	"encoding/json"
	"fmt"
	"sort"
	"strings"

	badgerds "github.com/dgraph-io/badger/v4"
	"github.com/ipfs/go-cid"
	"github.com/sourcenetwork/corekv"
	"github.com/sourcenetwork/corekv/badger"
	"github.com/sourcenetwork/immutable"

	"github.com/sourcenetwork/defradb/acp/dac"
	"github.com/sourcenetwork/defradb/client"
	coreblock "github.com/sourcenetwork/defradb/internal/core/block"
	"github.com/sourcenetwork/defradb/internal/datastore"
	"github.com/sourcenetwork/defradb/internal/db"
	"github.com/sourcenetwork/defradb/internal/keys"
	"github.com/sourcenetwork/defradb/node"
)

type Node struct {
	DB   *db.DB
	Root corekv.TxnStore
}

// NewMem opens a node on a fresh Badger in-memory store.
func NewMem(ctx context.Context, opts ...db.Option) (*Node, error) {
	root, err := badger.NewDatastore("", badgerds.DefaultOptions("").WithInMemory(true).WithLoggingLevel(badgerds.ERROR))
	if err != nil {
		return nil, err
	}
	return NewOn(ctx, root, dac.NoDocumentACP, opts...)
}

func NewOn(ctx context.Context, root corekv.TxnStore, acp immutable.Option[dac.DocumentACP], opts ...db.Option) (*Node, error) {
	nac, err := db.NewNACInfo(ctx, "", false)
	if err != nil {
		return nil, err
	}
	lens, err := node.NewLens(ctx)
	if err != nil {
		return nil, err
	}
	d, err := db.NewDB(ctx, root, nac, acp, lens, opts...)
	if err != nil {
		return nil, err
	}
	return &Node{DB: d, Root: root}, nil
}

func (n *Node) Close() {
	n.DB.Close()
	_ = n.Root.Close()
}

// scan returns all key/value pairs with the given prefix, sorted by key.
func scan(ctx context.Context, s corekv.Reader, prefix []byte) ([][2][]byte, error) {
	it, err := s.Iterator(ctx, corekv.IterOptions{Prefix: prefix})
	if err != nil {
		return nil, err
	}
	var out [][2][]byte
	for {
		ok, err := it.Next()
		if err != nil {
			_ = it.Close()
			return nil, err
		}
		if !ok {
			break
		}
		v, err := it.Value()
		if err != nil {
			_ = it.Close()
			return nil, err
		}
		out = append(out, [2][]byte{append([]byte{}, it.Key()...), append([]byte{}, v...)})
	}
	return out, it.Close()
}

// ScanRoot scans the raw root store.
func (n *Node) ScanRoot(ctx context.Context, prefix string) ([][2][]byte, error) {
	return scan(ctx, n.Root, []byte(prefix))
}

// CopyBlocks copies every block of src's shared blockstore that dst does not have.
func CopyBlocks(ctx context.Context, src, dst *Node) (int, error) {
	kvs, err := scan(ctx, src.Root, []byte("/db/blocks"))
	if err != nil {
		return 0, err
	}
	n := 0
	for _, kv := range kvs {
		has, err := dst.Root.Has(ctx, kv[0])
		if err != nil {
			return n, err
		}
		if !has {
			if err := dst.Root.Set(ctx, kv[0], kv[1]); err != nil {
				return n, err
			}
			n++
		}
	}
	return n, nil
}

// LoadBlock reads and decodes a block from the shared blockstore.
func (n *Node) LoadBlock(ctx context.Context, c cid.Cid) (*coreblock.Block, []byte, error) {
	bs := datastore.BlockstoreFrom(n.Root)
	b, err := bs.Get(ctx, c)
	if err != nil {
		return nil, nil, err
	}
	blk, err := coreblock.GetFromBytes(b.RawData())
	return blk, b.RawData(), err
}

type Head struct {
	Cid    cid.Cid
	Height uint64
}

// Heads lists the head set stored under the exact namespace /d/<docID>/<fieldID>/ .
func (n *Node) Heads(ctx context.Context, docID, fieldID string) ([]Head, error) {
	hs := datastore.HeadstoreFrom(n.Root)
	prefix := keys.HeadstoreDocKey{DocID: docID, FieldID: fieldID}.ToString() + "/"
	kvs, err := scan(ctx, hs, []byte(prefix))
	if err != nil {
		return nil, err
	}
	var out []Head
	for _, kv := range kvs {
		k, err := keys.NewHeadstoreDocKey(string(kv[0]))
		if err != nil {
			return nil, err
		}
		h, _ := uvarint(kv[1])
		out = append(out, Head{Cid: k.Cid, Height: h})
	}
	return out, nil
}

func uvarint(b []byte) (uint64, int) {
	var x uint64
	var s uint
	for i, c := range b {
		if c < 0x80 {
			return x | uint64(c)<<s, i + 1
		}
		x |= uint64(c&0x7f) << s
		s += 7
	}
	return 0, 0
}

// RawDoc is the raw datastore content of one document.
type RawDoc struct {
	Marker  string            // "" (absent), "active", "deleted", or hex
	Values  map[string][]byte // fieldShortID -> value, from whichever of the v / d key families holds it
	Family  map[string]string // fieldShortID -> "v" or "d"
}

func (n *Node) RawDoc(ctx context.Context, colShort uint32, docID string) (*RawDoc, error) {
	ds := datastore.DatastoreFrom(n.Root)
	out := &RawDoc{Values: map[string][]byte{}, Family: map[string]string{}}
	mk, err := ds.Get(ctx, keys.PrimaryDataStoreKey{CollectionShortID: colShort, DocID: docID}.Bytes())
	switch {
	case err != nil && !errors.Is(err, corekv.ErrNotFound):
		return nil, err
	case err != nil:
		out.Marker = ""
	case len(mk) == 1 && mk[0] == 0xff:
		out.Marker = "active"
	case len(mk) == 1 && mk[0] == 0xfe:
		out.Marker = "deleted"
	default:
		out.Marker = fmt.Sprintf("%x", mk)
	}
	for _, fam := range []keys.InstanceType{keys.ValueKey, keys.DeletedKey} {
		k := keys.DataStoreKey{CollectionShortID: colShort, DocID: docID, InstanceType: fam}
		kvs, err := scan(ctx, ds, k.Bytes())
		if err != nil {
			return nil, err
		}
		for _, kv := range kvs {
			dk, err := keys.NewDataStoreKey(string(kv[0]))
			if err != nil {
				return nil, err
			}
			if dk.DocID != docID {
				continue
			}
			if dk.FieldID == "" {
				continue
			}
			if _, dup := out.Values[dk.FieldID]; dup {
				out.Family[dk.FieldID] = "both"
				continue
			}
			out.Values[dk.FieldID] = kv[1]
			out.Family[dk.FieldID] = string(fam)
		}
	}
	return out, nil
}

// GQL executes a request and returns canonical JSON of data or "error: ...".
func (n *Node) GQL(ctx context.Context, q string, opts ...client.RequestOption) string {
	res := n.DB.ExecRequest(ctx, q, opts...)
	if len(res.GQL.Errors) > 0 {
		var es []string
		for _, e := range res.GQL.Errors {
			es = append(es, e.Error())
		}
		sort.Strings(es)
		return "error: " + strings.Join(es, "; ")
	}
	b, err := json.Marshal(res.GQL.Data)
	if err != nil {
		return "error: marshal: " + err.Error()
	}
	return string(b)
}

// RawBlock reads the raw bytes stored under a cid in the shared blockstore (any block kind).
func (n *Node) RawBlock(ctx context.Context, c cid.Cid) []byte {
	bs := datastore.BlockstoreFrom(n.Root)
	b, err := bs.Get(ctx, c)
	if err != nil {
		panic(err)
	}
	return b.RawData()
}

// CommitHeightProblems checks, over the whole history of a document as `commits` reports it, that every commit stands one
// above the highest of the commits it names as parents (`_head` links), and none above nothing but the first.
func (n *Node) CommitHeightProblems(ctx context.Context, docID string) []string {
	r := n.GQL(ctx, fmt.Sprintf(`query { commits(docID: "%s") { cid height fieldName links { cid name } } }`, docID))
	var m struct {
		Commits []struct {
			Cid       string
			Height    int
			FieldName any
			Links     []struct{ Cid, Name string }
		}
	}
	if err := json.Unmarshal([]byte(r), &m); err != nil {
		return []string{"commits query: " + r}
	}
	height := map[string]int{}
	for _, c := range m.Commits {
		height[c.Cid] = c.Height
	}
	var out []string
	for _, c := range m.Commits {
		mx := 0
		for _, l := range c.Links {
			if l.Name == "_head" && height[l.Cid] > mx {
				mx = height[l.Cid]
			}
		}
		if c.Height != mx+1 {
			out = append(out, fmt.Sprintf("commit %s (field %v) has height %d, its highest parent has %d", c.Cid, c.FieldName, c.Height, mx))
		}
	}
	return out
}
