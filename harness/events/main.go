//go:build verif

// Engine `events` (C20): mutation histories incl. multi-document requests, updates that change nothing,
// failing operations and explicit transactions that commit or discard, with 1-5 bus subscribers that come
// and go and a filtered GraphQL subscription. After every step the new document-level (and, for branchable
// collections, collection-level) commits in the block store are compared with what every subscriber received.
package main

import (
	"bytes"
	"context"
	"encoding/json"
	"fmt"
	"os"
	"sort"
	"strconv"
	"strings"
	"sync"
	"time"

	"github.com/ipfs/go-cid"

	"github.com/sourcenetwork/defradb/client"
	"github.com/sourcenetwork/defradb/event"
	coreblock "github.com/sourcenetwork/defradb/internal/core/block"
	"github.com/sourcenetwork/defradb/internal/db"
	vc "github.com/sourcenetwork/defradb/internal/verifharness/common"
	vnode "github.com/sourcenetwork/defradb/internal/verifharness/node"
)

const barrierName = event.Name("verif-barrier")

func must(err error) {
	if err != nil {
		panic(err)
	}
}

type subscriber struct {
	id  int
	sub event.Subscription
}

type world struct {
	ctx     context.Context
	out     *vc.Out
	n       *vnode.Node
	col     client.Collection
	subs    []*subscriber
	nextSub int
	labels  map[string]string
	known   map[string]bool // block keys seen
	docIDs  []string
	ages    map[string]int64
	gsub    <-chan client.GQLResult
	// results of the GraphQL subscription received / expected so far in this case
	gqlGot, gqlWant int
	// documents deleted so far; documents of the events raised inside the open explicit transaction
	deleted      map[string]bool
	savedDeleted map[string]bool
	txnMatches   int
	caseID       int
	barrier      int
	txn          client.Txn
	txnCtx       context.Context
	branch       bool
	savedAges    map[string]int64
	savedDocs    []string
}

func (w *world) label(c cid.Cid) string {
	k := c.String()
	if l, ok := w.labels[k]; ok {
		return l
	}
	l := "c" + strconv.Itoa(len(w.labels)+1)
	w.labels[k] = l
	return l
}

func (w *world) addSub() {
	s, err := w.n.DB.Events().Subscribe(event.UpdateName, barrierName)
	must(err)
	w.nextSub++
	w.subs = append(w.subs, &subscriber{id: w.nextSub, sub: s})
}

// newCommits returns the labels of the document-level / collection-level commits stored since the last call.
func (w *world) newCommits() ([]string, map[string][]byte) {
	kvs, err := w.n.ScanRoot(w.ctx, "/db/blocks")
	must(err)
	var out []string
	raws := map[string][]byte{}
	for _, kv := range kvs {
		k := string(kv[0])
		if w.known[k] {
			continue
		}
		w.known[k] = true
		blk, err := coreblock.GetFromBytes(kv[1])
		if err != nil {
			continue
		}
		if blk.Delta.IsComposite() || blk.Delta.IsCollection() {
			l, err := blk.GenerateLink()
			must(err)
			lab := w.label(l.Cid)
			out = append(out, lab)
			raws[lab] = kv[1]
		}
	}
	sort.Strings(out)
	return out, raws
}

// collect drains every subscriber up to a barrier and returns, per subscriber, the received labels in order.
// The subscribers are drained concurrently (and the GraphQL subscription next to them): the bus hands a message to
// every subscriber before it takes the next one, so with more undelivered messages than a subscriber's buffer holds a
// reader that waits for one subscriber's barrier while the others are full would wait for ever.
func (w *world) collect(raws map[string][]byte) map[int][]string {
	w.barrier++
	w.n.DB.Events().Publish(event.NewMessage(barrierName, w.barrier))
	msgs := make([][]event.Message, len(w.subs))
	timedOut := make([]bool, len(w.subs))
	var wg sync.WaitGroup
	for i, s := range w.subs {
		wg.Add(1)
		go func(i int, s *subscriber) {
			defer wg.Done()
			for {
				select {
				case m, ok := <-s.sub.Message():
					if !ok {
						return
					}
					if n, isB := m.Data.(int); isB && n == w.barrier {
						return
					}
					msgs[i] = append(msgs[i], m)
				case <-time.After(20 * time.Second):
					timedOut[i] = true
					return
				}
			}
		}(i, s)
	}
	allDone := make(chan struct{})
	go func() { wg.Wait(); close(allDone) }()
	for waiting := true; waiting; {
		if w.gsub == nil {
			<-allDone
			break
		}
		select {
		case <-allDone:
			waiting = false
		case res, ok := <-w.gsub:
			if !ok {
				<-allDone
				waiting = false
				break
			}
			w.countGQL(res)
		}
	}
	for i := range timedOut {
		if timedOut[i] {
			// the barrier is a message like any other: when it does not arrive, the bus lost it (or stopped)
			w.out.Oracle(w.out.Lines, fmt.Sprintf("[events-not-commits] case %d: subscriber %d did not receive the barrier message published after the step within 20 s (%d messages received before it)", w.caseID, w.subs[i].id, len(msgs[i])))
		}
	}
	got := map[int][]string{}
	for i, s := range w.subs {
		for _, m := range msgs[i] {
			if u, isU := m.Data.(event.Update); isU {
				lab := w.label(u.Cid)
				got[s.id] = append(got[s.id], lab)
				// the announced block is readable from the store and carries the same bytes
				blk, raw, err := w.n.LoadBlock(w.ctx, u.Cid)
				if err != nil || blk == nil {
					w.out.Oracle(w.out.Lines, fmt.Sprintf("[event-block-missing] case %d: update event announces %s but the block is not in the store: %v", w.caseID, lab, err))
				} else if !bytes.Equal(raw, u.Block) {
					w.out.Oracle(w.out.Lines, fmt.Sprintf("[event-block-differs] case %d: update event for %s carries bytes different from the stored block", w.caseID, lab))
				}
			}
		}
	}
	return got
}

// countGQL counts one answer of the filtered subscription when it carries a document.
func (w *world) countGQL(res client.GQLResult) {
	jb, _ := json.Marshal(res.Data)
	var m map[string][]map[string]any
	_ = json.Unmarshal(jb, &m)
	if len(m["User"]) > 0 {
		w.gqlGot++
	}
}

func sortedCopy(x []string) []string {
	y := append([]string{}, x...)
	sort.Strings(y)
	return y
}

// step closes one observable step: what was committed vs what every subscriber saw.
func (w *world) step(what string, expectGQL int) {
	commits, raws := w.newCommits()
	got := w.collect(raws)
	var parts []string
	var first []string
	for i, s := range w.subs {
		parts = append(parts, fmt.Sprintf("s%d:%s", s.id, csv(sortedCopy(got[s.id]))))
		if i == 0 {
			first = got[s.id]
		} else if strings.Join(first, ",") != strings.Join(got[s.id], ",") {
			w.out.Oracle(w.out.Lines, fmt.Sprintf("[subscribers-order-differs] case %d step %q: subscriber %d received %v, subscriber %d received %v", w.caseID, what, w.subs[0].id, first, s.id, got[s.id]))
		}
		if strings.Join(sortedCopy(got[s.id]), ",") != strings.Join(commits, ",") {
			w.out.Oracle(w.out.Lines, fmt.Sprintf("[events-not-commits] case %d step %q: new commits in the store %v, subscriber %d received %v", w.caseID, what, commits, s.id, got[s.id]))
		}
	}
	var ids []string
	for _, s := range w.subs {
		ids = append(ids, strconv.Itoa(s.id))
	}
	w.out.Emit(fmt.Sprintf("step %s %s", csv(ids), csv(commits)), strings.Join(parts, " "))
	w.out.Count("step:" + strings.Fields(what)[0])
	w.out.Nontrivial(fmt.Sprintf("%d:%d:%s", w.caseID, w.out.Lines, what))
	// GraphQL subscription with a filter: one result per committed matching change. Delivery is asynchronous, so the
	// comparison is cumulative over the case: a result that arrives after its step's wait is not counted twice as
	// "missing here, extra there".
	if w.gsub != nil && expectGQL >= 0 {
		w.gqlWant += expectGQL
		for waiting := true; waiting; {
			wait := 40 * time.Millisecond
			if w.gqlGot < w.gqlWant {
				wait = 15 * time.Second
			}
			select {
			case res, ok := <-w.gsub:
				if !ok {
					waiting = false
					break
				}
				w.countGQL(res)
			case <-time.After(wait):
				waiting = false
			}
		}
		if os.Getenv("VERIF_DEBUG_OPS") != "" {
			fmt.Fprintf(os.Stderr, "  case %d step %q expect+%d -> want %d got %d\n", w.caseID, what, expectGQL, w.gqlWant, w.gqlGot)
		}
		if w.gqlGot != w.gqlWant {
			w.out.Oracle(w.out.Lines-1, fmt.Sprintf("[gql-subscription-count] case %d up to step %q: the filtered subscription yielded %d results, %d committed changes match its filter", w.caseID, what, w.gqlGot, w.gqlWant))
			// report a difference once
			w.gqlWant = w.gqlGot
		}
	}
}

func csv(x []string) string {
	if len(x) == 0 {
		return "-"
	}
	return strings.Join(x, ",")
}

func (w *world) cctx() context.Context {
	if w.txn != nil {
		return w.txnCtx
	}
	return w.ctx
}

const gqlFilterAge = 50

func (w *world) exec(op string) {
	t := strings.Fields(op)
	ctx := w.cctx()
	// documents of the update events this operation raises; the subscription answers each event with the document as
	// it is at the event's commit (a read at that commit)
	var evDocs []string
	switch t[0] {
	case "create":
		k, _ := strconv.Atoi(t[1])
		var docs []*client.Document
		for i := 0; i < k; i++ {
			age := int64(30 + (len(w.docIDs)*7+i*13)%60)
			d, err := client.NewDocFromJSON([]byte(fmt.Sprintf(`{"name": "u%d_%d", "age": %d}`, len(w.docIDs), i, age)), w.col.Definition())
			must(err)
			docs = append(docs, d)
		}
		var err error
		if t[2] == "many" {
			err = w.col.CreateMany(ctx, docs)
		} else {
			for _, d := range docs {
				if err = w.col.Create(ctx, d); err != nil {
					break
				}
			}
		}
		if err == nil {
			for _, d := range docs {
				w.docIDs = append(w.docIDs, d.ID().String())
				v, _ := d.GetValue("age")
				a := v.Value().(int64)
				w.ages[d.ID().String()] = a
				evDocs = append(evDocs, d.ID().String())
			}
		}
	case "update", "update-noop", "update-same":
		if len(w.docIDs) == 0 {
			return
		}
		i, _ := strconv.Atoi(t[1])
		id := w.docIDs[i%len(w.docIDs)]
		did, _ := client.NewDocIDFromString(id)
		d, err := w.col.Get(ctx, did, false)
		if err == nil {
			switch t[0] {
			case "update":
				na, _ := strconv.ParseInt(t[2], 10, 64)
				must(d.Set("age", na))
				if err = w.col.Update(ctx, d); err == nil {
					w.ages[id] = na
				}
			case "update-same":
				must(d.Set("age", w.ages[id]))
				err = w.col.Update(ctx, d)
			default:
				err = w.col.Update(ctx, d)
			}
			if err == nil {
				evDocs = append(evDocs, id)
			}
		}
	case "delete":
		if len(w.docIDs) == 0 {
			return
		}
		i, _ := strconv.Atoi(t[1])
		id := w.docIDs[i%len(w.docIDs)]
		did, _ := client.NewDocIDFromString(id)
		if ok, err := w.col.Delete(ctx, did); err == nil && ok {
			w.deleted[id] = true
		}
	case "dup-create":
		if len(w.docIDs) == 0 {
			return
		}
		// creating a document that exists fails
		d, err := client.NewDocFromJSON([]byte(`{"name": "u0_0", "age": 30}`), w.col.Definition())
		must(err)
		_ = w.col.Create(ctx, d)
	case "gql-create":
		age := 40 + len(w.docIDs)%30
		res := w.n.DB.ExecRequest(ctx, fmt.Sprintf(`mutation { create_User(input: [{name: "g%d", age: %d}, {name: "h%d", age: %d}]) { _docID age } }`, len(w.docIDs), age, len(w.docIDs), age+20))
		if len(res.GQL.Errors) == 0 {
			jb, _ := json.Marshal(res.GQL.Data)
			var m map[string][]map[string]any
			_ = json.Unmarshal(jb, &m)
			for _, r := range m["create_User"] {
				id := fmt.Sprint(r["_docID"])
				w.docIDs = append(w.docIDs, id)
				// the answer lists the documents in key order, not in input order
				af, _ := r["age"].(float64)
				a := int64(af)
				w.ages[id] = a
				evDocs = append(evDocs, id)
			}
		}
	case "txn-begin":
		if w.txn != nil {
			return
		}
		txn, err := w.n.DB.NewTxn(w.ctx, false)
		must(err)
		w.txn = txn
		w.txnCtx = db.InitContext(w.ctx, txn)
		w.txnMatches = 0
		w.savedAges = map[string]int64{}
		for k, v := range w.ages {
			w.savedAges[k] = v
		}
		w.savedDeleted = map[string]bool{}
		for k, v := range w.deleted {
			w.savedDeleted[k] = v
		}
		w.savedDocs = append([]string{}, w.docIDs...)
		return
	case "txn-commit", "txn-discard":
		if w.txn == nil {
			return
		}
		// nothing may have been published while the transaction was open
		expect := 0
		if t[0] == "txn-commit" {
			if err := w.txn.Commit(w.ctx); err == nil {
				expect = w.txnMatches
			} else {
				w.ages, w.docIDs, w.deleted = w.savedAges, w.savedDocs, w.savedDeleted
			}
		} else {
			w.txn.Discard(w.ctx)
			w.ages, w.docIDs, w.deleted = w.savedAges, w.savedDocs, w.savedDeleted
		}
		w.txn = nil
		w.step(op, expect)
		return
	case "sub+":
		if len(w.subs) < 5 {
			w.addSub()
		}
		return
	case "sub-":
		if len(w.subs) > 1 {
			s := w.subs[len(w.subs)-1]
			w.n.DB.Events().Unsubscribe(s.sub)
			w.subs = w.subs[:len(w.subs)-1]
		}
		return
	default:
		panic("bad op " + op)
	}
	if w.txn != nil {
		// inside an open explicit transaction: nothing is committed, nothing may be published
		commitsBefore, _ := w.newCommitsPeek()
		got := w.collect(nil)
		for id, g := range got {
			if len(g) > 0 {
				w.out.Oracle(w.out.Lines, fmt.Sprintf("[event-before-commit] case %d: subscriber %d received %v while the explicit transaction is still open (%s)", w.caseID, id, g, op))
			}
		}
		if len(commitsBefore) > 0 {
			w.out.Oracle(w.out.Lines, fmt.Sprintf("[visible-before-commit] case %d: blocks %v are in the committed store while the explicit transaction is still open", w.caseID, commitsBefore))
		}
		w.txnMatches += w.matching(evDocs)
		return
	}
	w.step(op, w.matching(evDocs))
}

// matching counts the events whose document, as it is now, passes the subscription's filter
func (w *world) matching(docs []string) int {
	n := 0
	for _, id := range docs {
		if !w.deleted[id] && w.ages[id] > gqlFilterAge {
			n++
		}
	}
	return n
}

// newCommitsPeek looks for new commits without marking them as seen.
func (w *world) newCommitsPeek() ([]string, error) {
	kvs, err := w.n.ScanRoot(w.ctx, "/db/blocks")
	if err != nil {
		return nil, err
	}
	var out []string
	for _, kv := range kvs {
		if !w.known[string(kv[0])] {
			if blk, err := coreblock.GetFromBytes(kv[1]); err == nil && (blk.Delta.IsComposite() || blk.Delta.IsCollection()) {
				out = append(out, string(kv[0]))
			}
		}
	}
	return out, nil
}

func genCase(r *vc.Rng, tier string) (branch bool, nsubs int, ops []string) {
	branch = r.Chance(1, 4)
	nsubs = 1 + r.Intn(4)
	n := 10 + r.Intn(14)
	if tier == "thorough" {
		n = 10 + r.Intn(50)
	}
	ops = append(ops, fmt.Sprintf("create %d many", 1+r.Intn(3)))
	inTxn := false
	for i := 0; i < n; i++ {
		switch x := r.Intn(22); {
		case x < 3:
			k := "many"
			if r.Bool() {
				k = "each"
			}
			ops = append(ops, fmt.Sprintf("create %d %s", 1+r.Intn(3), k))
		case x < 8:
			ops = append(ops, fmt.Sprintf("update %d %d", r.Intn(16), 20+r.Intn(70)))
		case x < 10:
			ops = append(ops, fmt.Sprintf("update-noop %d", r.Intn(16)))
		case x < 11:
			ops = append(ops, fmt.Sprintf("update-same %d", r.Intn(16)))
		case x < 13:
			ops = append(ops, fmt.Sprintf("delete %d", r.Intn(16)))
		case x < 14:
			ops = append(ops, "dup-create")
		case x < 16:
			ops = append(ops, "gql-create")
		case x < 18:
			if !inTxn {
				ops = append(ops, "txn-begin")
				inTxn = true
			} else if r.Bool() {
				ops = append(ops, "txn-commit")
				inTxn = false
			} else {
				ops = append(ops, "txn-discard")
				inTxn = false
			}
		case x < 20:
			ops = append(ops, "sub+")
		default:
			ops = append(ops, "sub-")
		}
	}
	if inTxn {
		ops = append(ops, "txn-commit")
	}
	return
}

func runCase(ctx context.Context, out *vc.Out, caseID int, branch bool, nsubs int, ops []string) {
	nd, err := vnode.NewMem(ctx)
	must(err)
	defer nd.Close()
	sdl := `type User { name: String age: Int }`
	if branch {
		sdl = `type User @branchable { name: String age: Int }`
	}
	_, err = nd.DB.AddSchema(ctx, sdl)
	must(err)
	col, err := nd.DB.GetCollectionByName(ctx, "User")
	must(err)
	w := &world{ctx: ctx, out: out, n: nd, col: col, labels: map[string]string{}, known: map[string]bool{}, ages: map[string]int64{}, deleted: map[string]bool{}, caseID: caseID, branch: branch}
	for i := 0; i < nsubs; i++ {
		w.addSub()
	}
	if !branch {
		res := nd.DB.ExecRequest(ctx, fmt.Sprintf(`subscription { User(filter: {age: {_gt: %d}}) { _docID age } }`, gqlFilterAge))
		if len(res.GQL.Errors) > 0 {
			panic(fmt.Sprint(res.GQL.Errors))
		}
		w.gsub = res.Subscription
	}
	b := 0
	if branch {
		b = 1
	}
	out.Emit(fmt.Sprintf("case %d %d", caseID, b), "ok")
	// the generated operations of the case, so that a replay cut out of the op stream can be run again
	out.Emit(fmt.Sprintf("gen %d %d %s", b, nsubs, strings.ReplaceAll(strings.Join(ops, "|"), " ", "_")), "ok")
	if os.Getenv("VERIF_DEBUG_OPS") != "" {
		fmt.Fprintf(os.Stderr, "CASE %d %d %d: %s\n", caseID, b, nsubs, strings.Join(ops, " | "))
	}
	w.newCommits()
	func() {
		defer func() {
			if r := recover(); r != nil {
				out.Oracle(out.Lines, fmt.Sprintf("[panic] case %d: %v", caseID, r))
			}
		}()
		for _, op := range ops {
			w.exec(op)
		}
	}()
}

func main() {
	f := vc.ParseFlags()
	out := vc.NewOut(f.OutDir)
	ctx := context.Background()
	if f.Replay != "" {
		lines := vc.ReadLines(f.Replay)
		ran := false
		for _, l := range lines {
			// a case cut out of an op stream: its `gen` line carries the generated operations
			if t := strings.Fields(l); len(t) == 4 && t[0] == "gen" {
				ns, _ := strconv.Atoi(t[2])
				runCase(ctx, out, 0, t[1] == "1", ns, strings.Split(strings.ReplaceAll(t[3], "_", " "), "|"))
				ran = true
			}
		}
		if !ran {
			hdr := strings.Fields(lines[0])
			ns, _ := strconv.Atoi(hdr[1])
			runCase(ctx, out, 0, hdr[0] == "1", ns, lines[1:])
		}
		out.Close(nil)
		return
	}
	r := vc.NewRng(f.Seed)
	n := 60
	if f.Tier == "thorough" {
		n = 1500
	}
	if f.N > 0 {
		n = f.N
	}
	// directed: no-change updates, multi-create, discard
	directed := [][]string{
		{"0 2", "create 2 many", "update-noop 0", "update-same 1", "update 0 77", "dup-create", "delete 1"},
		{"0 3", "create 1 each", "txn-begin", "create 2 many", "update 0 66", "txn-discard", "txn-begin", "update 0 55", "gql-create", "txn-commit"},
		{"1 2", "create 2 many", "update 0 71", "update-noop 1", "delete 0"},
		// a document created and changed inside one transaction: the notification of its first commit is judged at that
		// commit (age 30, below the subscription's filter), not at the state the transaction ends in
		{"0 2", "txn-begin", "create 1 each", "update 0 77", "txn-commit", "update 0 20", "txn-begin", "create 1 each", "update 1 88", "update 1 40", "txn-commit"},
		// one request that commits more documents than a subscriber's buffer holds (eventBufferSize = 100), read only
		// after it returned: every commit is still announced to every subscriber (plain: 130 events; branchable: 2 x 60)
		{"0 2", "create 130 many", "update 0 77"},
		{"1 2", "create 60 many", "delete 3"},
	}
	caseID := 0
	for _, d := range directed {
		hdr := strings.Fields(d[0])
		ns, _ := strconv.Atoi(hdr[1])
		runCase(ctx, out, caseID, hdr[0] == "1", ns, d[1:])
		caseID++
	}
	for i := 0; i < n; i++ {
		cr, _ := r.Fork()
		branch, ns, ops := genCase(cr, f.Tier)
		runCase(ctx, out, caseID, branch, ns, ops)
		caseID++
	}
	out.Close(map[string]any{"seed": f.Seed, "cases": caseID})
}
