//go:build verif

// Engine `enc` (C17): drives /repo/internal/encoding and the index key encoder on
// generated values and prints canonical results for comparison with `drv enc`.
package main

import (
	"bytes"
	"encoding/hex"
	"fmt"
	"math"
	"strconv"
	"strings"
	"time"

	"github.com/sourcenetwork/defradb/client"
	"github.com/sourcenetwork/defradb/internal/encoding"
	"github.com/sourcenetwork/defradb/internal/keys"
	vc "github.com/sourcenetwork/defradb/internal/verifharness/common"
)

type val struct {
	kind  string // null bool int f32 f64 str time json
	b     bool
	i     int64
	bits  uint64
	s     []byte
	unix  int64
	nanos int64
	path  []string // "i" or "p<hex>"
	jk    string   // s n b z
}

func (v val) spec() string {
	switch v.kind {
	case "null":
		return "null"
	case "bool":
		if v.b {
			return "bool 1"
		}
		return "bool 0"
	case "int":
		return "int " + strconv.FormatInt(v.i, 10)
	case "f32", "f64":
		return v.kind + " " + strconv.FormatUint(v.bits, 16)
	case "str":
		return "str " + vc.Hex(v.s)
	case "time":
		return fmt.Sprintf("time %d %d", v.unix, v.nanos)
	case "json":
		var sb strings.Builder
		fmt.Fprintf(&sb, "json %d", len(v.path))
		for _, p := range v.path {
			if p == "i" {
				sb.WriteString(" i")
			} else {
				sb.WriteString(" p " + p[1:])
			}
		}
		switch v.jk {
		case "s":
			sb.WriteString(" s " + vc.Hex(v.s))
		case "n":
			sb.WriteString(" n " + strconv.FormatUint(v.bits, 16))
		case "b":
			if v.b {
				sb.WriteString(" b 1")
			} else {
				sb.WriteString(" b 0")
			}
		case "z":
			sb.WriteString(" z")
		}
		return sb.String()
	}
	panic("kind")
}

func parseVal(t []string) (val, []string) {
	switch t[0] {
	case "null":
		return val{kind: "null"}, t[1:]
	case "bool":
		return val{kind: "bool", b: t[1] == "1"}, t[2:]
	case "int":
		i, err := strconv.ParseInt(t[1], 10, 64)
		if err != nil {
			panic(err)
		}
		return val{kind: "int", i: i}, t[2:]
	case "f32", "f64":
		u, err := strconv.ParseUint(t[1], 16, 64)
		if err != nil {
			panic(err)
		}
		return val{kind: t[0], bits: u}, t[2:]
	case "str":
		return val{kind: "str", s: vc.UnHex(t[1])}, t[2:]
	case "time":
		a, _ := strconv.ParseInt(t[1], 10, 64)
		b, _ := strconv.ParseInt(t[2], 10, 64)
		return val{kind: "time", unix: a, nanos: b}, t[3:]
	case "json":
		n, _ := strconv.Atoi(t[1])
		t = t[2:]
		v := val{kind: "json"}
		for k := 0; k < n; k++ {
			if t[0] == "i" {
				v.path = append(v.path, "i")
				t = t[1:]
			} else {
				v.path = append(v.path, "p"+t[1])
				t = t[2:]
			}
		}
		v.jk = t[0]
		switch t[0] {
		case "s":
			v.s = vc.UnHex(t[1])
			return v, t[2:]
		case "n":
			u, _ := strconv.ParseUint(t[1], 16, 64)
			v.bits = u
			return v, t[2:]
		case "b":
			v.b = t[1] == "1"
			return v, t[2:]
		case "z":
			return v, t[1:]
		}
	}
	panic("bad val spec " + strings.Join(t, " "))
}

func (v val) normal() client.NormalValue {
	switch v.kind {
	case "null":
		n, _ := client.NewNormalNil(client.FieldKind_NILLABLE_INT)
		return n
	case "bool":
		return client.NewNormalBool(v.b)
	case "int":
		return client.NewNormalInt(v.i)
	case "f32":
		return client.NewNormalFloat32(math.Float32frombits(uint32(v.bits)))
	case "f64":
		return client.NewNormalFloat64(math.Float64frombits(v.bits))
	case "str":
		return client.NewNormalString(string(v.s))
	case "time":
		return client.NewNormalTime(time.Unix(v.unix, v.nanos).UTC())
	case "json":
		var p client.JSONPath
		for _, part := range v.path {
			if part == "i" {
				p = p.AppendIndex(0)
			} else {
				p = p.AppendProperty(string(vc.UnHex(part[1:])))
			}
		}
		var x any
		switch v.jk {
		case "s":
			x = string(v.s)
		case "n":
			x = math.Float64frombits(v.bits)
		case "b":
			x = v.b
		case "z":
			x = nil
		}
		j, err := client.NewJSONWithPath(x, p)
		if err != nil {
			panic(err)
		}
		return client.NewNormalJSON(j)
	}
	panic("kind")
}

func showNormal(n client.NormalValue) string {
	if n.IsNil() {
		return "null"
	}
	if v, ok := n.Bool(); ok {
		if v {
			return "bool 1"
		}
		return "bool 0"
	}
	if v, ok := n.Int(); ok {
		return "int " + strconv.FormatInt(v, 10)
	}
	if v, ok := n.Float32(); ok {
		return "f32 " + strconv.FormatUint(uint64(math.Float32bits(v)), 16)
	}
	if v, ok := n.Float64(); ok {
		return "f64 " + strconv.FormatUint(math.Float64bits(v), 16)
	}
	if v, ok := n.String(); ok {
		return "str " + vc.Hex([]byte(v))
	}
	if v, ok := n.Time(); ok {
		return fmt.Sprintf("time %d %d", v.Unix(), v.Nanosecond())
	}
	return "other"
}

func sgn(i int) int {
	if i < 0 {
		return -1
	}
	if i > 0 {
		return 1
	}
	return 0
}

func cmpF(a, b float64) string {
	if a != a || b != b {
		return "x"
	}
	if a < b {
		return "-1"
	}
	if a > b {
		return "1"
	}
	return "0"
}

func cmpB(a, b bool) string {
	if a == b {
		return "0"
	}
	if !a && b {
		return "-1"
	}
	return "1"
}

// value order by Go's own comparisons
func cmpVal(a, b val) string {
	if a.kind == "null" && b.kind == "null" {
		return "0"
	}
	if a.kind == "null" {
		return "-1"
	}
	if b.kind == "null" {
		return "1"
	}
	if a.kind != b.kind {
		return "x"
	}
	switch a.kind {
	case "bool":
		return cmpB(a.b, b.b)
	case "int":
		if a.i < b.i {
			return "-1"
		} else if a.i == b.i {
			return "0"
		}
		return "1"
	case "f32":
		return cmpF(float64(math.Float32frombits(uint32(a.bits))), float64(math.Float32frombits(uint32(b.bits))))
	case "f64":
		return cmpF(math.Float64frombits(a.bits), math.Float64frombits(b.bits))
	case "str":
		return strconv.Itoa(sgn(strings.Compare(string(a.s), string(b.s))))
	case "time":
		return strconv.Itoa(time.Unix(a.unix, a.nanos).Compare(time.Unix(b.unix, b.nanos)))
	case "json":
		if strings.Join(a.path, "/") != strings.Join(b.path, "/") || a.jk != b.jk {
			return "x"
		}
		switch a.jk {
		case "s":
			return strconv.Itoa(sgn(strings.Compare(string(a.s), string(b.s))))
		case "n":
			return cmpF(math.Float64frombits(a.bits), math.Float64frombits(b.bits))
		case "b":
			return cmpB(a.b, b.b)
		case "z":
			return "0"
		}
	}
	return "x"
}

var tail = []byte{0x2f, 0x99}

func exec(op string) (res string) {
	defer func() {
		if r := recover(); r != nil {
			res = "panic"
		}
	}()
	t := strings.Fields(op)
	switch t[0] {
	case "val":
		desc := t[1] == "1"
		v, _ := parseVal(t[2:])
		e := encoding.EncodeFieldValue(nil, v.normal(), desc)
		dec := "-"
		if v.kind != "json" {
			buf := append(append([]byte{}, e...), tail...)
			rest, n, err := encoding.DecodeFieldValue(buf, desc, client.FieldKind_NILLABLE_INT)
			if err != nil {
				dec = "err"
			} else if !bytes.Equal(rest, tail) {
				dec = "badrest"
			} else {
				dec = showNormal(n)
			}
		}
		return vc.Hex(e) + " " + dec
	case "cmp":
		desc := t[1] == "1"
		a, r := parseVal(t[2:])
		b, _ := parseVal(r)
		ea := encoding.EncodeFieldValue(nil, a.normal(), desc)
		eb := encoding.EncodeFieldValue(nil, b.normal(), desc)
		return cmpVal(a, b) + " " + strconv.Itoa(bytes.Compare(ea, eb))
	case "key":
		c, _ := strconv.ParseUint(t[1], 10, 32)
		i, _ := strconv.ParseUint(t[2], 10, 32)
		n, _ := strconv.Atoi(t[3])
		r := t[4:]
		var fs []keys.IndexedField
		for k := 0; k < n; k++ {
			d := r[0] == "1"
			var v val
			v, r = parseVal(r[1:])
			fs = append(fs, keys.IndexedField{Value: v.normal(), Descending: d})
		}
		k := keys.NewIndexDataStoreKey(uint32(c), uint32(i), fs)
		return vc.Hex(k.Bytes()) + " " + vc.Hex(k.PrefixEnd())
	case "uv":
		v, _ := strconv.ParseUint(t[1], 10, 64)
		a := encoding.EncodeUvarintAscending(nil, v)
		d := encoding.EncodeUvarintDescending(nil, v)
		da, dd := "err", "err"
		if r, x, err := encoding.DecodeUvarintAscending(a); err == nil && len(r) == 0 {
			da = strconv.FormatUint(x, 10)
		}
		if r, x, err := encoding.DecodeUvarintDescending(d); err == nil && len(r) == 0 {
			dd = strconv.FormatUint(x, 10)
		}
		return vc.Hex(a) + " " + vc.Hex(d) + " " + da + " " + dd
	case "dec":
		desc := t[1] == "1"
		b := vc.UnHex(t[2])
		rest, n, err := encoding.DecodeFieldValue(b, desc, client.FieldKind_NILLABLE_INT)
		if err != nil {
			return "err"
		}
		return showNormal(n) + " " + vc.Hex(rest)
	}
	return "bad-op"
}

// ---------------------------------------------------------------- generators

var intEdges []int64
var f64Edges, f32Edges []uint64
var strEdges [][]byte

func init() {
	for w := 0; w <= 8; w++ {
		var p uint64 = 1
		if w < 8 {
			p = uint64(1) << (8 * uint(w))
		} else {
			p = 0
		}
		for d := int64(-2); d <= 2; d++ {
			intEdges = append(intEdges, int64(p)+d, -int64(p)+d)
		}
	}
	intEdges = append(intEdges, 109, 110, 108, -109, math.MaxInt64, math.MinInt64, math.MaxInt64-1, math.MinInt64+1, 0, 1, -1)
	f64 := []float64{0, math.Copysign(0, -1), 1, -1, math.Inf(1), math.Inf(-1), math.MaxFloat64, -math.MaxFloat64,
		math.SmallestNonzeroFloat64, -math.SmallestNonzeroFloat64, 2.2250738585072014e-308, -2.2250738585072014e-308,
		0.5, -0.5, 1e16, -1e16, 255, 256, -255, -256}
	for _, f := range f64 {
		f64Edges = append(f64Edges, math.Float64bits(f), math.Float64bits(f)+1, math.Float64bits(f)-1)
	}
	f64Edges = append(f64Edges, 0x7FF8000000000001, 0xFFF8000000000001, 0x7FF0000000000001, 0x7FFFFFFFFFFFFFFF, 0xFFFFFFFFFFFFFFFF)
	f32 := []float32{0, float32(math.Copysign(0, -1)), 1, -1, float32(math.Inf(1)), float32(math.Inf(-1)), math.MaxFloat32, -math.MaxFloat32,
		math.SmallestNonzeroFloat32, -math.SmallestNonzeroFloat32, 1.17549435e-38, -1.17549435e-38, 0.5, -0.5}
	for _, f := range f32 {
		u := uint64(math.Float32bits(f))
		f32Edges = append(f32Edges, u, (u+1)&0xffffffff, (u-1)&0xffffffff)
	}
	f32Edges = append(f32Edges, 0x7FC00001, 0xFFC00001, 0x7F800001, 0x7FFFFFFF, 0xFFFFFFFF)
	strEdges = [][]byte{nil, {0}, {0, 0}, {0xff}, {0xff, 0xff}, {0, 0xff}, {0xff, 0}, {0, 1}, {1}, {0, 0xff, 0}, {'a'}, {'a', 0}, {'a', 0, 'b'}, {'a', 'b'},
		{0xfe}, {0x00, 0x01, 0x02}, {0x2f}, {'a', 0x2f, 'b'}}
}

func genInt(r *vc.Rng) int64 {
	switch r.Intn(4) {
	case 0:
		return intEdges[r.Intn(len(intEdges))]
	case 1:
		return int64(r.Intn(512)) - 256
	case 2:
		w := uint(r.Intn(64))
		v := int64(r.U64() >> w)
		if r.Bool() {
			v = -v
		}
		return v
	default:
		return int64(r.U64())
	}
}

func genBits(r *vc.Rng, k string) uint64 {
	if k == "f32" {
		switch r.Intn(3) {
		case 0:
			return f32Edges[r.Intn(len(f32Edges))]
		case 1:
			return uint64(math.Float32bits(float32(r.Intn(2000)-1000) / 8))
		default:
			return r.U64() & 0xffffffff
		}
	}
	switch r.Intn(3) {
	case 0:
		return f64Edges[r.Intn(len(f64Edges))]
	case 1:
		return math.Float64bits(float64(r.Intn(2000)-1000) / 8)
	default:
		return r.U64()
	}
}

func genStr(r *vc.Rng) []byte {
	switch r.Intn(3) {
	case 0:
		return strEdges[r.Intn(len(strEdges))]
	case 1:
		n := r.Intn(6)
		b := make([]byte, n)
		al := []byte{0, 0xff, 1, 0xfe, 'a', 'b'}
		for i := range b {
			b[i] = al[r.Intn(len(al))]
		}
		return b
	default:
		n := r.Intn(12)
		b := make([]byte, n)
		for i := range b {
			b[i] = byte(r.U64())
		}
		return b
	}
}

func genTime(r *vc.Rng) (int64, int64) {
	var u int64
	switch r.Intn(4) {
	case 0:
		u = int64(r.Intn(5)) - 2
	case 1:
		u = genInt(r) % 253402300800 // year 9999
	case 2:
		u = 1700000000 + int64(r.Intn(3))
	default:
		u = -62135596800 + int64(r.Intn(1000)) // year 1
	}
	var n int64
	switch r.Intn(3) {
	case 0:
		n = []int64{0, 1, 999999999, 999999998, 109, 110, 255, 256, 65535, 65536, 16777215, 16777216}[r.Intn(12)]
	default:
		n = int64(r.Intn(1000000000))
	}
	return u, n
}

func genVal(r *vc.Rng, kind string) val {
	switch kind {
	case "null":
		return val{kind: "null"}
	case "bool":
		return val{kind: "bool", b: r.Bool()}
	case "int":
		return val{kind: "int", i: genInt(r)}
	case "f32", "f64":
		return val{kind: kind, bits: genBits(r, kind)}
	case "str":
		return val{kind: "str", s: genStr(r)}
	case "time":
		u, n := genTime(r)
		return val{kind: "time", unix: u, nanos: n}
	}
	panic(kind)
}

// neighbour of a value (for pairs that differ minimally)
func near(r *vc.Rng, v val) val {
	w := v
	switch v.kind {
	case "int":
		w.i = v.i + int64(r.Intn(5)) - 2
	case "f32":
		w.bits = (v.bits + uint64(r.Intn(5)) - 2) & 0xffffffff
	case "f64":
		w.bits = v.bits + uint64(r.Intn(5)) - 2
	case "str":
		w.s = append([]byte{}, v.s...)
		switch r.Intn(3) {
		case 0:
			w.s = append(w.s, []byte{0, 0xff, 1, 'a'}[r.Intn(4)])
		case 1:
			if len(w.s) > 0 {
				w.s = w.s[:len(w.s)-1]
			}
		default:
			if len(w.s) > 0 {
				w.s[r.Intn(len(w.s))] += byte(r.Intn(3)) - 1
			}
		}
	case "time":
		if r.Bool() {
			w.nanos = (v.nanos + int64(r.Intn(3)) - 1 + 1000000000) % 1000000000
		} else {
			w.unix = v.unix + int64(r.Intn(3)) - 1
		}
	case "bool":
		w.b = !v.b
	}
	return w
}

var kinds = []string{"int", "f64", "f32", "str", "time", "bool"}

func genJSON(r *vc.Rng) val {
	v := val{kind: "json"}
	n := r.Intn(3)
	for i := 0; i < n; i++ {
		if r.Chance(1, 4) {
			v.path = append(v.path, "i")
		} else {
			s := genStr(r)
			if len(s) == 0 {
				s = []byte{'k'}
			}
			v.path = append(v.path, "p"+vc.Hex(s))
		}
	}
	v.jk = []string{"s", "n", "b", "z"}[r.Intn(4)]
	switch v.jk {
	case "s":
		v.s = genStr(r)
	case "n":
		v.bits = genBits(r, "f64")
	case "b":
		v.b = r.Bool()
	}
	return v
}

func b2s(b bool) string {
	if b {
		return "1"
	}
	return "0"
}

func main() {
	f := vc.ParseFlags()
	out := vc.NewOut(f.OutDir)
	run := func(op string) {
		line := out.Lines
		res := exec(op)
		out.Emit(op, res)
		t := strings.Fields(op)
		out.Count("op:" + t[0])
		if res == "panic" {
			out.Oracle(line, "panic in encoder/decoder: "+op)
			return
		}
		rf := strings.Fields(res)
		switch t[0] {
		case "cmp":
			// the property's own oracle: byte order == value order (reversed when descending)
			if rf[0] != "x" {
				want, _ := strconv.Atoi(rf[0])
				if t[1] == "1" {
					// null sorts last in descending: nullDesc = ff; handled by reversing too
					want = -want
				}
				got, _ := strconv.Atoi(rf[1])
				if want != got {
					out.Oracle(line, fmt.Sprintf("byte order %d contradicts value order %d: %s", got, want, op))
				}
				out.Nontrivial(op)
			}
		case "val":
			a, _ := parseVal(t[2:])
			out.Count("kind:" + a.kind)
			if a.kind != "json" {
				if rf[1] == "err" || rf[1] == "badrest" {
					out.Oracle(line, "decode failed: "+op)
				} else {
					d, _ := parseVal(rf[1:])
					if cmpVal(a, d) != "0" && !(a.kind[0] == 'f' && cmpVal(a, a) == "x" && cmpVal(d, d) == "x") {
						out.Oracle(line, "decode(encode(v)) != v: "+op+" => "+res)
					}
				}
			}
			out.Nontrivial(op)
		case "uv":
			if rf[2] != t[1] || rf[3] != t[1] {
				out.Oracle(line, "uvarint roundtrip: "+op+" => "+res)
			}
			out.Nontrivial(op)
		case "key":
			// the end of the range scanned for "all entries with this value" (createRangeBoundaries: _le ascending,
			// _ge descending, equality prefixes) must lie above the key and above every extension of it
			if len(rf) == 2 {
				k, e1 := hex.DecodeString(rf[0])
				end, e2 := hex.DecodeString(rf[1])
				if e1 == nil && e2 == nil && len(k) > 0 {
					ext := append(append([]byte{}, k...), 0xff, 0xff)
					if bytes.Compare(end, k) <= 0 || bytes.Compare(end, ext) <= 0 {
						out.Oracle(line, "prefix end does not bound the entries of the value (a range filter served from the index loses them): "+op+" => "+res)
					}
				}
			}
			out.Nontrivial(op)
		}
	}
	if f.Replay != "" {
		for _, l := range vc.ReadLines(f.Replay) {
			run(l)
		}
		out.Close(nil)
		return
	}
	r := vc.NewRng(f.Seed)
	n := 6000
	if f.Tier == "thorough" {
		n = 400000
	}
	if f.N > 0 {
		n = f.N
	}
	// exhaustive edge pools first
	for _, d := range []string{"0", "1"} {
		for _, a := range intEdges {
			run("val " + d + " int " + strconv.FormatInt(a, 10))
			for _, b := range intEdges {
				run("cmp " + d + " int " + strconv.FormatInt(a, 10) + " int " + strconv.FormatInt(b, 10))
			}
		}
		for _, a := range f64Edges {
			run("val " + d + " f64 " + strconv.FormatUint(a, 16))
			for _, b := range f64Edges {
				run("cmp " + d + " f64 " + strconv.FormatUint(a, 16) + " f64 " + strconv.FormatUint(b, 16))
			}
		}
		for _, a := range f32Edges {
			run("val " + d + " f32 " + strconv.FormatUint(a, 16))
			for _, b := range f32Edges {
				run("cmp " + d + " f32 " + strconv.FormatUint(a, 16) + " f32 " + strconv.FormatUint(b, 16))
			}
		}
		for _, a := range strEdges {
			run("val " + d + " str " + vc.Hex(a))
			for _, b := range strEdges {
				run("cmp " + d + " str " + vc.Hex(a) + " str " + vc.Hex(b))
			}
		}
		run("val " + d + " null")
		run("val " + d + " bool 0")
		run("val " + d + " bool 1")
	}
	for i := 0; i < n; i++ {
		d := b2s(r.Bool())
		switch r.Intn(10) {
		case 0, 1, 2, 3:
			k := kinds[r.Intn(len(kinds))]
			a := genVal(r, k)
			var b val
			switch r.Intn(4) {
			case 0:
				b = near(r, a)
			case 1:
				b = val{kind: "null"}
				if r.Bool() {
					a, b = b, a
				}
			default:
				b = genVal(r, k)
			}
			run("cmp " + d + " " + a.spec() + " " + b.spec())
		case 4, 5:
			a := genVal(r, kinds[r.Intn(len(kinds))])
			run("val " + d + " " + a.spec())
		case 6:
			a := genJSON(r)
			run("val " + d + " " + a.spec())
			b := a
			switch a.jk {
			case "s":
				b.s = genStr(r)
			case "n":
				b.bits = genBits(r, "f64")
			case "b":
				b.b = r.Bool()
			}
			run("cmp " + d + " " + a.spec() + " " + b.spec())
		case 7:
			var v uint64
			if r.Bool() {
				v = uint64(genInt(r))
			} else {
				v = r.U64() >> uint(r.Intn(64))
			}
			run("uv " + strconv.FormatUint(v, 10))
		case 8:
			nf := 1 + r.Intn(3)
			var sb strings.Builder
			fmt.Fprintf(&sb, "key %d %d %d", 1+r.Intn(300), 1+r.Intn(300), nf)
			for j := 0; j < nf; j++ {
				var a val
				if r.Chance(1, 6) {
					a = val{kind: "null"}
				} else if r.Chance(1, 8) {
					a = genJSON(r)
				} else {
					a = genVal(r, kinds[r.Intn(len(kinds))])
				}
				sb.WriteString(" " + b2s(r.Bool()) + " " + a.spec())
			}
			run(sb.String())
		case 9:
			// malformed decode stream: mutate a valid encoding (never starting with the JSON marker)
			a := genVal(r, kinds[r.Intn(len(kinds))])
			e := encoding.EncodeFieldValue(nil, a.normal(), d == "1")
			e = append([]byte{}, e...)
			switch r.Intn(4) {
			case 0:
				if len(e) > 1 {
					e = e[:1+r.Intn(len(e)-1)]
				}
			case 1:
				e[r.Intn(len(e))] ^= byte(1 << uint(r.Intn(8)))
			case 2:
				e = append(e, byte(r.U64()), byte(r.U64()))
			default:
				e[0] = byte(r.U64())
			}
			if len(e) > 0 && e[0] == 11 {
				e[0] = 12
			}
			run("dec " + d + " " + vc.Hex(e))
		}
	}
	out.Close(map[string]any{"seed": f.Seed})
}
