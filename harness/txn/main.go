//go:build verif

// Engine `txn` (C06): (1) KV level — random interleavings of get/set/delete/commit/discard on up to three
// concurrent transactions of the real Badger store (validates the storage-engine assumption of the Lean
// model); (2) API level — up to three explicit DefraDB transactions with document operations and
// non-transactional reads, every interleaving position generated single-threaded (the schedule IS the
// input, so every failure replays). Both streams are replayed on `drv mvcc`; the property's own oracles
// (no dirty read, snapshot + own writes, no trace of discarded/failed transactions, no lost update) are
// evaluated on the implementation alone.
package main

import (
	"context"
	"encoding/json"
	"errors"
	"fmt"
	"sort"
	"strconv"
	"strings"

	badgerds "github.com/dgraph-io/badger/v4"
	"github.com/sourcenetwork/corekv"
	"github.com/sourcenetwork/corekv/badger"

	"github.com/sourcenetwork/defradb/client"
	"github.com/sourcenetwork/defradb/internal/db"
	vc "github.com/sourcenetwork/defradb/internal/verifharness/common"
	vnode "github.com/sourcenetwork/defradb/internal/verifharness/node"
)

func must(err error) {
	if err != nil {
		panic(err)
	}
}

// ------------------------------------------------------------------ KV level

func kvCase(out *vc.Out, caseID int, ops []string) {
	ctx := context.Background()
	store, err := badger.NewDatastore("", badgerds.DefaultOptions("").WithInMemory(true).WithLoggingLevel(badgerds.ERROR))
	must(err)
	defer store.Close()
	out.Emit(fmt.Sprintf("case %d kv", caseID), "ok")
	txns := map[string]corekv.Txn{}
	key := func(k string) []byte { return []byte("/k/" + k) }
	for _, op := range ops {
		t := strings.Fields(op)
		switch t[0] {
		case "begin":
			if old, ok := txns[t[1]]; ok {
				old.Discard()
			}
			txns[t[1]] = store.NewTxn(false)
			out.Emit(op, "ok")
		case "get":
			var r corekv.Reader = store
			if t[1] != "0" {
				tx, ok := txns[t[1]]
				if !ok {
					out.Emit(op, "notlive")
					continue
				}
				r = tx
			}
			v, err := r.Get(ctx, key(t[2]))
			if errors.Is(err, corekv.ErrNotFound) {
				out.Emit(op, "-")
			} else {
				must(err)
				out.Emit(op, string(v))
			}
		case "blindset":
			if tx, ok := txns[t[1]]; ok {
				must(tx.Set(ctx, key(t[2]), []byte(t[3])))
			}
			out.Emit(op, "ok")
		case "blinddel":
			if tx, ok := txns[t[1]]; ok {
				must(tx.Delete(ctx, key(t[2])))
			}
			out.Emit(op, "ok")
		case "commit":
			tx, ok := txns[t[1]]
			if !ok {
				out.Emit(op+" ok", "notlive")
				continue
			}
			err := tx.Commit()
			delete(txns, t[1])
			res := "ok"
			if errors.Is(err, corekv.ErrTxnConflict) {
				res = "conflict"
			} else if err != nil {
				res = "err:" + err.Error()
			}
			out.Emit(op+" "+res, res)
			out.Count("kv-commit:" + res)
		case "discard":
			if tx, ok := txns[t[1]]; ok {
				tx.Discard()
				delete(txns, t[1])
			}
			out.Emit(op, "ok")
		}
	}
	for _, tx := range txns {
		tx.Discard()
	}
	out.Nontrivial(fmt.Sprintf("kv%d", caseID))
}

func genKV(r *vc.Rng) []string {
	var ops []string
	n := 12 + r.Intn(20)
	live := map[int]bool{}
	for i := 0; i < n; i++ {
		id := 1 + r.Intn(3)
		k := strconv.Itoa(1 + r.Intn(3))
		switch x := r.Intn(12); {
		case !live[id] || x == 0:
			if r.Chance(1, 4) {
				ops = append(ops, fmt.Sprintf("beginro %d", id))
			} else {
				ops = append(ops, fmt.Sprintf("begin %d", id))
			}
			live[id] = true
		case x < 4:
			ops = append(ops, fmt.Sprintf("get %d %s", id, k))
		case x < 7:
			ops = append(ops, fmt.Sprintf("blindset %d %s %d", id, k, 1+r.Intn(99)))
		case x < 8:
			ops = append(ops, fmt.Sprintf("blinddel %d %s", id, k))
		case x < 10:
			ops = append(ops, fmt.Sprintf("commit %d", id))
			live[id] = false
		case x < 11:
			ops = append(ops, fmt.Sprintf("discard %d", id))
			live[id] = false
		default:
			ops = append(ops, fmt.Sprintf("get 0 %s", k))
		}
	}
	return ops
}

// ------------------------------------------------------------------ API level

type txState struct {
	txn      client.Txn
	ctx      context.Context
	snapshot map[string]string // doc label -> age ("-" absent) as of begin
	writes   map[string]string
	wrote    map[string]bool
	began    int // step index
	readonly bool
}

type world struct {
	ctx       context.Context
	out       *vc.Out
	n         *vnode.Node
	col       client.Collection
	txs       map[string]*txState
	committed map[string]string // doc label -> age or "-"
	docIDs    map[string]string
	caseID    int
	stepNo    int
	commits   []commitRec
	// commits made inside transactions that have not committed (still open, discarded, refused): cid -> transaction
	hidden map[string]string
}

type commitRec struct {
	id         string
	began, end int
	wrote      map[string]bool
}

func docJSON(label string, age string) string {
	return fmt.Sprintf(`{"name": "doc%s", "age": %s}`, label, age)
}

// the document id depends on the initial content; fix the initial age per label so a label is one document
func (w *world) docID(label string) client.DocID {
	if id, ok := w.docIDs[label]; ok {
		did, _ := client.NewDocIDFromString(id)
		return did
	}
	d, err := client.NewDocFromJSON([]byte(docJSON(label, "0")), w.col.Definition())
	must(err)
	w.docIDs[label] = d.ID().String()
	return d.ID()
}

func (w *world) cctx(i string) (context.Context, *txState) {
	if i == "0" {
		return w.ctx, nil
	}
	ts := w.txs[i]
	if ts == nil {
		return nil, nil
	}
	return ts.ctx, ts
}

func (w *world) readDoc(ctx context.Context, label string) string {
	d, err := w.col.Get(ctx, w.docID(label), false)
	if err != nil {
		if errors.Is(err, client.ErrDocumentNotFoundOrNotAuthorized) {
			return "-"
		}
		return "err:" + strings.ReplaceAll(err.Error(), " ", "_")
	}
	v, err := d.GetValue("age")
	if err != nil || v.Value() == nil {
		return "null"
	}
	return fmt.Sprint(v.Value())
}

func (w *world) queryAll(ctx context.Context) map[string]string {
	res := w.n.DB.ExecRequest(ctx, `query { Doc { name age } }`)
	outm := map[string]string{}
	if len(res.GQL.Errors) > 0 {
		outm["error"] = fmt.Sprint(res.GQL.Errors)
		return outm
	}
	jb, _ := json.Marshal(res.GQL.Data)
	var m map[string][]map[string]any
	_ = json.Unmarshal(jb, &m)
	for _, d := range m["Doc"] {
		outm[strings.TrimPrefix(fmt.Sprint(d["name"]), "doc")] = fmt.Sprint(d["age"])
	}
	return outm
}

// expectedView is what a reader sees; a soft-deleted document ("D" in the bookkeeping) reads as absent
func (w *world) expectedView(ts *txState, label string) string {
	if v := w.rawView(ts, label); v != "D" {
		return v
	}
	return "-"
}

func (w *world) rawView(ts *txState, label string) string {
	if ts == nil {
		if v, ok := w.committed[label]; ok {
			return v
		}
		return "-"
	}
	if v, ok := ts.writes[label]; ok {
		return v
	}
	if v, ok := ts.snapshot[label]; ok {
		return v
	}
	return "-"
}

// after anything that must not be visible outside: every document read without a transaction equals the
// committed state
func (w *world) checkCommittedUntouched(why string) {
	w.checkHiddenCommits(why)
	all := w.queryAll(w.ctx)
	var labels []string
	for l := range w.docIDs {
		labels = append(labels, l)
	}
	sort.Strings(labels)
	for _, l := range labels {
		want := w.expectedView(nil, l)
		got, ok := all[l]
		if !ok {
			got = "-"
		}
		if got != want {
			w.out.Oracle(w.out.Lines, fmt.Sprintf("[uncommitted-visible] case %d after %s: a non-transactional query shows document %s with age %s, the committed value is %s", w.caseID, why, l, got, want))
		}
	}
}

// commitCids lists the commits of a document as a requester sees them
func (w *world) commitCids(ctx context.Context, docID string) []string {
	res := w.n.GQL(ctx, fmt.Sprintf(`query { commits(docID: "%s") { cid } }`, docID))
	var m struct{ Commits []struct{ Cid string } }
	if json.Unmarshal([]byte(res), &m) != nil {
		return nil
	}
	var out []string
	for _, c := range m.Commits {
		out = append(out, c.Cid)
	}
	return out
}

// noteHiddenCommits: the commits of the document that the transaction sees and a requester outside does not
func (w *world) noteHiddenCommits(tid string, ctx context.Context, label string) {
	id, ok := w.docIDs[label]
	if !ok {
		return
	}
	public := map[string]bool{}
	for _, c := range w.commitCids(w.ctx, id) {
		public[c] = true
	}
	if w.hidden == nil {
		w.hidden = map[string]string{}
	}
	for _, c := range w.commitCids(ctx, id) {
		if !public[c] {
			w.hidden[c] = tid + " " + id
		}
	}
}

// checkHiddenCommits: a commit made by a transaction that has not committed cannot be addressed from outside, neither
// in the history nor by a read at that commit
func (w *world) checkHiddenCommits(why string) {
	n := 0
	for c, tid := range w.hidden {
		if n++; n > 6 {
			break
		}
		res := w.n.GQL(w.ctx, fmt.Sprintf(`query { commits(cid: "%s") { cid docID } }`, c))
		// commits are content-addressed: another transaction that made the same write on the same heads and did commit
		// made this very commit public
		public := false
		for _, pc := range w.commitCids(w.ctx, strings.Fields(tid)[1]) {
			public = public || pc == c
		}
		if public {
			delete(w.hidden, c)
			continue
		}
		tid = strings.Fields(tid)[0]
		if !strings.HasPrefix(res, "error") && strings.Contains(res, c) {
			w.out.Oracle(w.out.Lines, fmt.Sprintf("[uncommitted-visible] case %d after %s: commit %s, made inside transaction %s which has not committed, is returned to a request outside the transaction: %s", w.caseID, why, c, tid, res))
		}
		w.out.Count("hidden-commit-probes")
	}
}

func (w *world) exec(op string) {
	w.stepNo++
	t := strings.Fields(op)
	switch t[0] {
	case "begin", "beginro":
		if old := w.txs[t[1]]; old != nil {
			old.txn.Discard(w.ctx)
		}
		// `beginro`: a read-only transaction — the same snapshot reads, every write refused
		txn, err := w.n.DB.NewTxn(w.ctx, t[0] == "beginro")
		must(err)
		ts := &txState{txn: txn, ctx: db.InitContext(w.ctx, txn), snapshot: map[string]string{}, writes: map[string]string{}, wrote: map[string]bool{}, began: w.stepNo, readonly: t[0] == "beginro"}
		for k, v := range w.committed {
			ts.snapshot[k] = v
		}
		w.txs[t[1]] = ts
		w.out.Emit(op, "ok")
	case "get":
		ctx, ts := w.cctx(t[1])
		if ctx == nil {
			w.out.Emit(op, "notlive")
			return
		}
		got := w.readDoc(ctx, t[2])
		w.out.Emit(op, got)
		if want := w.expectedView(ts, t[2]); got != want {
			tag := "snapshot-violated"
			if ts == nil {
				tag = "uncommitted-visible"
			}
			w.out.Oracle(w.out.Lines-1, fmt.Sprintf("[%s] case %d: %s returned %s; the state as of the transaction's start plus its own writes is %s", tag, w.caseID, op, got, want))
		}
	case "query":
		ctx, ts := w.cctx(t[1])
		if ctx == nil {
			return
		}
		all := w.queryAll(ctx)
		w.out.Emit(op, "ok")
		for l := range w.docIDs {
			got, ok := all[l]
			if !ok {
				got = "-"
			}
			if want := w.expectedView(ts, l); got != want {
				w.out.Oracle(w.out.Lines, fmt.Sprintf("[snapshot-violated] case %d: GraphQL query inside transaction %s shows document %s with age %s, expected %s", w.caseID, t[1], l, got, want))
			}
		}
	case "mkindex":
		// a secondary index on `age` created inside the transaction: it must cover the transaction's view — the
		// snapshot plus its own writes — and nothing committed by others since its start
		ctx, _ := w.cctx(t[1])
		if ctx == nil {
			return
		}
		_, err := w.col.CreateIndex(ctx, client.IndexCreateRequest{Name: fmt.Sprintf("age_ix%d", w.stepNo), Fields: []client.IndexedFieldDescription{{Name: "age"}}})
		if err != nil {
			w.out.Oracle(w.out.Lines, fmt.Sprintf("[snapshot-violated] case %d: CreateIndex inside transaction %s failed: %v", w.caseID, t[1], err))
		}
		w.out.Emit(op, "ok")
		w.out.Count("mkindex")
	case "iquery":
		// a request answered from the index on `age`
		ctx, ts := w.cctx(t[1])
		if ctx == nil {
			return
		}
		res := w.n.DB.ExecRequest(ctx, `query { Doc(filter: {age: {_ge: 0}}) { name age } }`)
		w.out.Emit(op, "ok")
		if len(res.GQL.Errors) > 0 {
			w.out.Oracle(w.out.Lines, fmt.Sprintf("[snapshot-violated] case %d: index-served query inside transaction %s fails: %v", w.caseID, t[1], res.GQL.Errors))
			return
		}
		jb, _ := json.Marshal(res.GQL.Data)
		var m map[string][]map[string]any
		_ = json.Unmarshal(jb, &m)
		all := map[string]string{}
		for _, d := range m["Doc"] {
			all[strings.TrimPrefix(fmt.Sprint(d["name"]), "doc")] = fmt.Sprint(d["age"])
		}
		for l := range w.docIDs {
			got, ok := all[l]
			if !ok {
				got = "-"
			}
			if want := w.expectedView(ts, l); got != want {
				w.out.Oracle(w.out.Lines, fmt.Sprintf("[snapshot-violated] case %d: index-served query inside transaction %s shows document %s with age %s, expected %s", w.caseID, t[1], l, got, want))
			}
		}
		w.out.Count("iquery")
	case "ids":
		ctx, ts := w.cctx(t[1])
		if ctx == nil {
			return
		}
		ch, err := w.col.GetAllDocIDs(ctx)
		if err != nil {
			return
		}
		w.out.Emit(op, "ok")
		got := map[string]bool{}
		for r := range ch {
			if r.Err == nil {
				got[r.ID.String()] = true
			}
		}
		for l, id := range w.docIDs {
			// soft-deleted documents keep their (marked) primary key and are listed
			want := w.rawView(ts, l) != "-"
			if got[id] != want {
				w.out.Oracle(w.out.Lines, fmt.Sprintf("[snapshot-violated] case %d: GetAllDocIDs inside transaction %s lists document %s: %v, the transaction's view has it: %v", w.caseID, t[1], l, got[id], want))
			}
		}
	case "set":
		ctx, ts := w.cctx(t[1])
		if ctx == nil {
			return
		}
		label, age := t[2], t[3]
		cur := w.expectedView(ts, label)
		var err error
		roWrite := ts != nil && ts.readonly
		if cur == "-" {
			if _, known := w.docIDs[label]; known && ts != nil && ts.snapshot[label] == "-" && false {
				return
			}
			// create (the initial content is fixed per label; then set the age)
			d, e := client.NewDocFromJSON([]byte(docJSON(label, "0")), w.col.Definition())
			must(e)
			w.docIDs[label] = d.ID().String()
			err = w.col.Create(ctx, d)
			if err == nil && age != "0" {
				d2, e2 := w.col.Get(ctx, d.ID(), false)
				if e2 == nil {
					a, _ := strconv.ParseInt(age, 10, 64)
					must(d2.Set("age", a))
					err = w.col.Update(ctx, d2)
				} else {
					err = e2
				}
			}
		} else {
			d, e := w.col.Get(ctx, w.docID(label), false)
			if e != nil {
				err = e
			} else {
				a, _ := strconv.ParseInt(age, 10, 64)
				must(d.Set("age", a))
				err = w.col.Update(ctx, d)
			}
		}
		if roWrite {
			if err == nil {
				w.out.Oracle(w.out.Lines, fmt.Sprintf("[readonly-txn-wrote] case %d: %s succeeded inside a read-only transaction", w.caseID, op))
			}
			w.out.Count("set-refused-readonly")
			return
		}
		if err != nil {
			// e.g. the document was deleted before (deleted documents cannot be re-created): not part of the model
			w.out.Count("set-error")
			return
		}
		if ts != nil {
			ts.writes[label] = age
			ts.wrote[label] = true
			w.noteHiddenCommits(t[1], ctx, label)
			w.out.Emit(op, "ok")
			w.checkCommittedUntouched(op)
		} else {
			w.committed[label] = age
			w.out.Emit(fmt.Sprintf("begin 9"), "ok")
			w.out.Emit(fmt.Sprintf("set 9 %s %s", label, age), "ok")
			w.out.Emit("commit 9 ok", "ok")
		}
	case "setf", "delf":
		// setf <txn> <bound> <age>: UpdateWithFilter(age < bound, age := <age>); delf <txn> <bound>: DeleteWithFilter(age < bound).
		// The filter has to select by the transaction's own view (its snapshot plus its own writes).
		id := t[1]
		ctx, ts := w.cctx(id)
		if ctx == nil || (ts != nil && ts.readonly) {
			return
		}
		if ts == nil {
			// without a transaction the call runs in its own one: the model sees begin / the call / commit
			w.out.Emit("begin 9", "ok")
			op = strings.Join(append([]string{t[0], "9"}, t[2:]...), " ")
		}
		bound, _ := strconv.Atoi(t[2])
		var want []string
		for l := range w.docIDs {
			if v := w.expectedView(ts, l); v != "-" {
				if a, _ := strconv.Atoi(v); a < bound {
					want = append(want, l)
				}
			}
		}
		sort.Strings(want)
		filter := fmt.Sprintf(`{age: {_lt: %d}}`, bound)
		var ids []string
		var err error
		if t[0] == "setf" {
			var r *client.UpdateResult
			r, err = w.col.UpdateWithFilter(ctx, filter, fmt.Sprintf(`{"age": %s}`, t[3]))
			if err == nil {
				ids = r.DocIDs
			}
		} else {
			var r *client.DeleteResult
			r, err = w.col.DeleteWithFilter(ctx, filter)
			if err == nil {
				ids = r.DocIDs
			}
		}
		var got []string
		byID := map[string]string{}
		for l, d := range w.docIDs {
			byID[d] = l
		}
		for _, d := range ids {
			got = append(got, byID[d])
		}
		sort.Strings(got)
		res := strings.Join(got, ",")
		if res == "" {
			res = "-"
		}
		if err != nil {
			res = "err:" + strings.ReplaceAll(err.Error(), " ", "_")
		}
		w.out.Emit(op, res)
		w.out.Count("api-" + t[0])
		wantS := strings.Join(want, ",")
		if wantS == "" {
			wantS = "-"
		}
		if res != wantS {
			w.out.Oracle(w.out.Lines-1, fmt.Sprintf("[snapshot-violated] case %d: %s inside transaction %s selected %s; the documents with age < %d in the transaction's view (its snapshot plus its own writes) are %s", w.caseID, t[0], id, res, bound, wantS))
		}
		if err == nil {
			nv, rb := "D", "-"
			if t[0] == "setf" {
				nv, rb = t[3], t[3]
			}
			for _, l := range want {
				if ts != nil {
					ts.writes[l] = nv
					ts.wrote[l] = true
				} else {
					w.committed[l] = nv
				}
			}
			// what the caller now reads back
			for _, l := range want {
				if g := w.readDoc(ctx, l); g != rb {
					w.out.Oracle(w.out.Lines-1, fmt.Sprintf("[snapshot-violated] case %d: after %s (transaction %s) document %s reads as %s, expected %s", w.caseID, op, id, l, g, rb))
				}
			}
		}
		if ts == nil {
			w.out.Emit("commit 9 ok", "ok")
		}
		w.checkCommittedUntouched(op)
	case "commit":
		ts := w.txs[t[1]]
		if ts == nil {
			return
		}
		err := ts.txn.Commit(w.ctx)
		delete(w.txs, t[1])
		res := "ok"
		if errors.Is(err, corekv.ErrTxnConflict) || (err != nil && strings.Contains(err.Error(), "conflict")) {
			res = "conflict"
		} else if err != nil {
			res = "err:" + strings.ReplaceAll(err.Error(), " ", "_")
		}
		w.out.Emit(op+" "+res, res)
		w.out.Count("api-commit:" + res)
		if res == "ok" {
			for c, id := range w.hidden {
				if strings.Fields(id)[0] == t[1] {
					delete(w.hidden, c) // public now
				}
			}
			for k, v := range ts.writes {
				w.committed[k] = v
			}
			// lost update: an overlapping transaction that committed and wrote a common document
			for _, c := range w.commits {
				if c.end > ts.began { // overlapped
					for d := range ts.wrote {
						if c.wrote[d] {
							w.out.Oracle(w.out.Lines-1, fmt.Sprintf("[lost-update] case %d: transactions %s and %s overlapped, both modified document %s, and both committed", w.caseID, c.id, t[1], d))
						}
					}
				}
			}
			w.commits = append(w.commits, commitRec{t[1], ts.began, w.stepNo, ts.wrote})
		}
		w.checkCommittedUntouched(op + " -> " + res)
	case "discard":
		ts := w.txs[t[1]]
		if ts == nil {
			return
		}
		ts.txn.Discard(w.ctx)
		delete(w.txs, t[1])
		w.out.Emit(op, "ok")
		w.checkCommittedUntouched(op)
	}
}

func boolInt(b bool) int {
	if b {
		return 1
	}
	return 0
}

func genAPI(r *vc.Rng, tier string) []string {
	var ops []string
	n := 14 + r.Intn(16)
	if tier == "thorough" {
		n = 14 + r.Intn(40)
	}
	live := map[int]bool{}
	// a few committed documents first
	for d := 1; d <= 2; d++ {
		ops = append(ops, fmt.Sprintf("set 0 %d %d", d, 10*d))
	}
	for i := 0; i < n; i++ {
		id := 1 + r.Intn(3)
		d := 1 + r.Intn(3)
		switch x := r.Intn(17); {
		case x == 14:
			ops = append(ops, fmt.Sprintf("setf %d %d %d", id*boolInt(live[id]), 1+r.Intn(99), 1+r.Intn(99)))
		case x == 15:
			ops = append(ops, fmt.Sprintf("delf %d %d", id*boolInt(live[id]), 1+r.Intn(60)))
		case x == 16:
			ops = append(ops, fmt.Sprintf("setf 0 %d %d", 1+r.Intn(99), 1+r.Intn(99)))
		case !live[id] || x == 0:
			if r.Chance(1, 4) {
				ops = append(ops, fmt.Sprintf("beginro %d", id))
			} else {
				ops = append(ops, fmt.Sprintf("begin %d", id))
			}
			live[id] = true
		case x < 4:
			ops = append(ops, fmt.Sprintf("get %d %d", id, d))
		case x < 8:
			ops = append(ops, fmt.Sprintf("set %d %d %d", id, d, 1+r.Intn(99)))
		case x < 9:
			if r.Bool() {
				ops = append(ops, fmt.Sprintf("query %d", id))
			} else {
				ops = append(ops, fmt.Sprintf("ids %d", id))
			}
		case x < 11:
			ops = append(ops, fmt.Sprintf("commit %d", id))
			live[id] = false
		case x < 12:
			ops = append(ops, fmt.Sprintf("discard %d", id))
			live[id] = false
		case x < 13:
			ops = append(ops, fmt.Sprintf("get 0 %d", d))
		default:
			ops = append(ops, fmt.Sprintf("set 0 %d %d", d, 1+r.Intn(99)))
		}
	}
	for id := range live {
		if live[id] {
			ops = append(ops, fmt.Sprintf("commit %d", id))
		}
	}
	return ops
}

func apiCase(out *vc.Out, caseID int, ops []string) {
	ctx := context.Background()
	nd, err := vnode.NewMem(ctx)
	must(err)
	defer nd.Close()
	_, err = nd.DB.AddSchema(ctx, `type Doc { name: String age: Int }`)
	must(err)
	col, err := nd.DB.GetCollectionByName(ctx, "Doc")
	must(err)
	w := &world{ctx: ctx, out: out, n: nd, col: col, txs: map[string]*txState{}, committed: map[string]string{}, docIDs: map[string]string{}, caseID: caseID}
	out.Emit(fmt.Sprintf("case %d api", caseID), "ok")
	func() {
		defer func() {
			if r := recover(); r != nil {
				out.Oracle(out.Lines, fmt.Sprintf("[panic] case %d: %v", caseID, r))
			}
		}()
		for _, op := range ops {
			w.exec(op)
		}
	}()
	for _, ts := range w.txs {
		ts.txn.Discard(ctx)
	}
	out.Nontrivial(fmt.Sprintf("api%d", caseID))
}

func main() {
	f := vc.ParseFlags()
	out := vc.NewOut(f.OutDir)
	if f.Replay != "" {
		lines := vc.ReadLines(f.Replay)
		if strings.HasPrefix(lines[0], "case ") {
			// a case cut out of an ops stream: "case <n> kv|api" followed by its lines
			kind := strings.Fields(lines[0])[2]
			var ops []string
			for _, l := range lines[1:] {
				t := strings.Fields(l)
				if t[0] == "commit" && len(t) > 2 {
					l = t[0] + " " + t[1]
				}
				if t[0] == "begin" && t[1] == "9" || len(t) > 1 && t[1] == "9" {
					// the three lines a non-transactional write was expanded to for the model
					if t[0] == "set" {
						l = fmt.Sprintf("set 0 %s %s", t[2], t[3])
					} else {
						continue
					}
				}
				ops = append(ops, l)
			}
			lines = append([]string{kind}, ops...)
		}
		if lines[0] == "kv" {
			kvCase(out, 0, lines[1:])
		} else {
			apiCase(out, 0, lines[1:])
		}
		out.Close(nil)
		return
	}
	r := vc.NewRng(f.Seed)
	nKV, nAPI := 300, 80
	if f.Tier == "thorough" {
		nKV, nAPI = 20000, 3000
	}
	if f.N > 0 {
		nAPI = f.N
	}
	caseID := 0
	// directed: the lost-update shape at both levels
	kvCase(out, caseID, []string{"begin 1", "begin 2", "get 1 1", "get 2 1", "blindset 1 1 5", "blindset 2 1 6", "commit 1", "get 0 1", "commit 2", "get 0 1"})
	caseID++
	apiCase(out, caseID, []string{"set 0 1 10", "begin 1", "begin 2", "set 1 1 11", "set 2 1 12", "get 0 1", "commit 1", "get 2 1", "commit 2", "get 0 1"})
	caseID++
	apiCase(out, caseID, []string{"set 0 1 10", "begin 1", "set 1 1 11", "set 1 2 21", "get 0 2", "query 1", "discard 1", "get 0 1", "begin 2", "get 2 1", "set 0 1 15", "get 2 1", "query 2", "commit 2"})
	caseID++
	// an index created inside a transaction covers the transaction's view: its own earlier writes (and, after the
	// commit, everybody sees them through the index), not what others committed after its start
	apiCase(out, caseID, []string{"set 0 1 10", "begin 1", "set 1 2 21", "set 1 1 11", "mkindex 1", "iquery 1", "commit 1", "iquery 0", "get 0 2"})
	caseID++
	apiCase(out, caseID, []string{"set 0 1 10", "begin 1", "get 1 1", "set 0 2 20", "mkindex 1", "iquery 1", "query 1", "discard 1", "iquery 0"})
	caseID++
	for i := 0; i < nKV; i++ {
		cr, _ := r.Fork()
		kvCase(out, caseID, genKV(cr))
		caseID++
	}
	for i := 0; i < nAPI; i++ {
		cr, _ := r.Fork()
		apiCase(out, caseID, genAPI(cr, f.Tier))
		caseID++
	}
	out.Close(map[string]any{"seed": f.Seed, "kv_cases": nKV, "api_cases": nAPI})
}
