HOOK_COMMITS = []
NOTES = ("All checks: Lean 4 theorems about a hand-written model (lean/DefraModel) + differential correspondence "
         "run against /repo on every invocation (harness/*, mounted with go build -overlay). See DESIGN.md.")
NA = {}
