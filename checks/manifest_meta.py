HOOK_COMMITS = []
NOTES = ("All checks: Lean 4 theorems about a hand-written model (lean/DefraModel) + differential correspondence "
         "run against /repo on every invocation (harness/*, mounted with go build -overlay). See DESIGN.md.")
ENGINES = [
    {"name": "lean", "path": "lean/", "serves_properties": [], "kind_free_text": "Lean 4 model, theorems (Props/), compiled model driver drv"},
    {"name": "enc", "path": "harness/enc", "serves_properties": ["C17"], "kind_free_text": "Go in-process driver of internal/encoding + keys; byte-exact diff against drv enc"},
]
NA = {}
META = {
    "C17": dict(
        text="Lean theorems (all values, no bound) that the model's key encoders are order embeddings (ascending), order reversing (descending), prefix-free, null-first, compose lexicographically and round-trip through the decoders; the model is tied to internal/encoding and keys byte-for-byte on generated values each run.",
        design_ref="DESIGN.md section 8, C07/C17",
        note="Trusted: Lean kernel; harness/enc + Driver/Enc.lean; float value order is defined on bit patterns (sign-magnitude) and compared with Go's < on every generated pair. JSON path encoding is modelled and compared, its order theorem covers scalars under an equal path only.",
        technique="Lean 4 proof over hand-written model + differential correspondence",
    ),
}
