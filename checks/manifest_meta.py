HOOK_COMMITS = []
NOTES = ("All checks: Lean 4 theorems about a hand-written model (lean/DefraModel) + differential correspondence "
         "run against /repo on every invocation (harness/*, mounted with go build -overlay). See DESIGN.md.")
ENGINES = [
    {"name": "lean", "path": "lean/", "serves_properties": [], "kind_free_text": "Lean 4 model, theorems (Props/), compiled model driver drv"},
    {"name": "enc", "path": "harness/enc", "serves_properties": ["C17"], "kind_free_text": "Go in-process driver of internal/encoding + keys; byte-exact diff against drv enc"},
    {"name": "crdt", "path": "harness/crdt", "serves_properties": ["C01", "C02", "C04"], "kind_free_text": "2-4 in-process nodes, local writes + deliveries through the synchronous merge hook; per-step diff of raw doc state and head sets against drv crdt; impl-only oracles (replica equality, counter sums, heads maximal, DAG well-formedness)"},
]
NA = {}
_CRDT_NOTE = ("Trusted: Lean kernel; harness/crdt, harness/node, overlay hook VerifExecuteMerge, Driver/Crdt.lean. PARTIAL: the theorems cover the CRDT algebra "
              "(order independence, sums, max, sticky delete, head-set step invariant) for all histories; that the walk (isMerged/loadComposites) hands each unmerged "
              "ancestor to it exactly once, parents first, is checked by executing mirror = canon(merged set) = implementation after every delivery, not yet proved. "
              "Float counters are outside the model (IEEE addition is not associative).")
META = {
    "C01": dict(
        text="Lean theorems: any two application orders of the same commits (each once) give the same visible document state (all register/counter/delete kinds, null and equal-height ties); head set determined by the merged set; tie-break deterministic. Tied to /repo by running n in-process nodes and the compiled mirror on the same histories and comparing after every write and delivery; replica-vs-replica equality at quiescence is evaluated on the implementation alone.",
        design_ref="DESIGN.md section 8, C01/C02/C04", note=_CRDT_NOTE,
        technique="Lean 4 proof (CRDT algebra) + differential correspondence of the merge mirror"),
    "C02": dict(
        text="Lean theorems: counter = initial + sum of applied increments (one term per application), order-free; deleted iff some applied commit deletes, never resurrected; a register holds a written value that no applied write exceeds in (height, bytes), hence of greatest height; redelivery of a merged commit collects nothing. Tie as C01, with per-prefix oracles on the implementation (counter = sum over merged closure, register written at greatest merged height, deleted flag).",
        design_ref="DESIGN.md section 8, C01/C02/C04", note=_CRDT_NOTE,
        technique="Lean 4 proof (fold characterisations) + differential correspondence of the merge mirror"),
    "C04": dict(
        text="Lean theorems: updateHeads computes exactly (heads minus named parents/links) plus the new block, without duplicates, and preserves 'heads = merged commits no merged commit names as parent' for every parents-first history. Content addressing, closure under links, the height rule and genesis determinism are observed on every block of every generated history; the AddDelta rule is re-derived by the mirror for every local write.",
        design_ref="DESIGN.md section 8, C01/C02/C04", note=_CRDT_NOTE,
        technique="Lean 4 proof (head-set invariant) + differential correspondence + DAG well-formedness oracles"),
    "C17": dict(
        text="Lean theorems (all values, no bound) that the model's key encoders are order embeddings (ascending), order reversing (descending), prefix-free, null-first, compose lexicographically and round-trip through the decoders; the model is tied to internal/encoding and keys byte-for-byte on generated values each run.",
        design_ref="DESIGN.md section 8, C07/C17",
        note="Trusted: Lean kernel; harness/enc + Driver/Enc.lean; float value order is defined on bit patterns (sign-magnitude) and compared with Go's < on every generated pair. JSON path encoding is modelled and compared, its order theorem covers scalars under an equal path only.",
        technique="Lean 4 proof over hand-written model + differential correspondence",
    ),
}
