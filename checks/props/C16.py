PROP = dict(
    lean_modules=["DefraModel.Props.C16", "DefraModel.Oblig.C16"],
    extract=dict(obligations=['Defra.Oblig.C16.concurrent_txn_stores_go_through_its_mutex']),
    oblig_modules=["DefraModel.Oblig.C16"],
    props_modules=["DefraModel.Props.C16"],
    engines=[dict(name="conc", drv="conc", race=True, timeout=5400)],
    rule=("the engine is built with the Go race detector and re-executes itself so that the detector's reports of the whole run are collected (one finding per distinct pair of racing frames); per case: one node with "
          "1-3 shared account documents (a positive counter and a register each) and an item collection; 3-8 goroutines each run 6-15 generated calls (counter increments and register writes on the shared accounts, creates and "
          "deletes of own items, multi-collection queries, creation and drop of an index by one of them) while 3-10 commits made on a second node (increments of the same accounts, creates) are delivered through the merge "
          "event path; then 2-7 goroutines create items through ONE transaction obtained with NewConcurrentTxn, which is then committed; then the same number of goroutines create (and partly delete) documents of an indexed collection through ONE collection handle, and every remaining document must be returned both by a scan and by the index lookup for its own value. Every call's outcome (ok / conflict / error) is recorded. Final state: every counter "
          "equals the sum of acknowledged + merged increments, every register holds the value of an acknowledged write, the item set is exactly acknowledged creates + merged creates - acknowledged deletes, no panic; the "
          "acknowledged history and the observed final state are replayed by the model; a case is one concurrent run (schedule chosen by the Go scheduler); distinct = distinct plans"),
    assumptions=[
        "schedules are those the Go scheduler produces in repeated runs on 16 cores under the race detector; the theorems quantify over all orders of the acknowledged calls, the runs sample interleavings",
        "the race detector reports only races that occur in the executed schedule",
        "merges are awaited through merge-complete events with a deadline; a merge the node gave up on (transaction conflicts beyond its retry budget) is reported under its own tag",
    ],
    trusted_base=["tools/extract (which transaction value the concurrent transaction's multistore is built from) and the expectation in DefraModel/Oblig/C16.lean", "harness/conc built with -race (self re-execution, GORACE log), harness/node, Driver/Conc.lean"],
)
META = dict(
    text=("Lean theorems about acknowledged histories: for every order of the acknowledged calls the counter reads the sum of the increments that reported success and of the merged ones, calls that reported a conflict or an "
          "error change nothing, the register holds a value an acknowledged write wrote, an acknowledged create is present unless an acknowledged delete followed; and for the shared transaction: under its mutex every "
          "interleaving of two goroutines' writes to disjoint keys leaves each key as its own goroutine's writes alone would. Tied to /repo by concurrent runs under the race detector whose recorded acknowledgements and "
          "final state are judged by the model and by the same oracle on the implementation alone."),
    design_ref="DESIGN.md section 8, C16",
    note=("Trusted: Lean kernel; harness/conc; the Go race detector. PARTIAL: absence of data races and panics is a property of executions and is checked on sampled schedules, not proved; the model carries the logic of "
          "acknowledgements (what a finished run must look like) and of the shared transaction's locking discipline."),
    technique="Lean 4 proof (order-independence of acknowledged effects; interleavings under the transaction mutex) + differential correspondence on race-detector runs",
)
ENGINES = [{"name": "conc", "path": "harness/conc", "serves_properties": ["C16"], "kind_free_text": "race-detector build; goroutines issuing API calls, incoming merges and a shared concurrent transaction; acknowledged history + final state judged by drv conc; race reports turned into findings"}]
