PROP = dict(
    lean_modules=["DefraModel.Props.C13"],
    props_modules=["DefraModel.Props.C13"],
    engines=[dict(name="ident", drv="ident", timeout=3600)],
    rule=("(A) 400 (thorough: 20000) generated document contents over String/Int/Float/Boolean/DateTime fields and [String!] / [Int!] / [Boolean!] / [Int] arrays (0-30 elements; of an array with nillable elements only the length reaches the serialisation) (edge values: CBOR head-width boundaries 23/24/255/256/65535/65536/2^32, negative and 64-bit extremes, "
          "empty/UTF-8/escaped strings, date-times with offsets and nanoseconds), each with omitted and explicitly nil fields, built through six routes (JSON sorted keys + nulls, JSON permuted keys without nulls, "
          "Go map with and without nil entries, GraphQL create on two different nodes); all docIDs must agree and Document.Bytes() is compared with the model's canonical CBOR; "
          "(B) 25 (thorough: 600) generated type graphs with 2-5 types and one-to-one relations incl. circular sets: the same definitions in the given order, 6-20 repetitions (Go map iteration varies), 6-20 random type orders, "
          "permuted field order inside the types (half of the types carry field names that differ only in letter case), one AddSchema call per connected component, and — for graphs with one-sided relations — one AddSchema call per strongly connected component in dependency order (referenced types first); VersionID and CollectionID per type must agree; a case is one content or one graph"),
    assumptions=[
        "sha256 and uuid5 are opaque functions of the bytes (the identifier is compared across routes on the implementation)",
        "floats are multiples of 1/8 that fit IEEE binary16 (the canonical encoder's shortest-float rule is mirrored for those); GraphQL Int literals are 32-bit, larger integers skip the GraphQL route",
        "the grouping of types into schema sets is modelled as a specification (mutual reachability), not as a mirror of getSchemaSets' pruning loop and recursive walk; the implementation's sets are compared with it on every generated graph; the hash of a set is opaque",
    ],
    trusted_base=["harness/ident, Driver/Ident.lean"],
)
META = dict(
    text=("Lean theorems about the byte-exact mirror of Document.Bytes(): the canonical CBOR — hence the docID, for any hash — does not depend on the order of the fields (sorted form is unique: stable merge sort + antisymmetry of the canonical key order on distinct names) "
          "nor on nil versus omitted fields. Schema sets: two types share a set exactly when each reaches the other through relations between types of the call; proved: the sets do not depend on the order of the definitions, and when the definitions are added in two calls (the earlier not referring to the later) both calls form exactly the sets of a single call, the later call from its own definitions alone; the executable closure the driver uses is proved exact wherever it reached its fixed point (checked at run time on every graph). Tied to /repo byte for byte on every generated document; route/node/run independence of docIDs and order/partition/repetition independence of schema and collection identifiers are evaluated on the implementation."),
    design_ref="DESIGN.md section 8, C13",
    note="Trusted: Lean kernel; harness/ident. PARTIAL: the schema-set grouping is tied to the implementation as a specification compared on generated graphs, not by a statement-level mirror of getSchemaSets (pruning loop, mapSchemaSetIDs, circlesBack); repetition independence (Go map iteration) is an implementation-only oracle.",
    technique="Lean 4 proof (canonical serialisation is permutation- and nil-invariant; schema sets are order- and partition-invariant) + byte-exact correspondence + metamorphic identifier oracle",
)
ENGINES = [{"name": "ident", "path": "harness/ident", "serves_properties": ["C13"], "kind_free_text": "document construction routes and SDL permutations/partitions/repetitions; canonical CBOR bytes vs model"}]
