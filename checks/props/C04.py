import _crdt
PROP = _crdt.prop("DefraModel.Props.C04", ["dag-content-address", "dag-missing-block", "dag-height", "head-height", "heads-not-maximal", "genesis-differs", "panic"])
META = dict(
    text="Lean theorems: updateHeads computes exactly (heads minus named parents/links) plus the new block, without duplicates, and preserves 'heads = merged commits no merged commit names as parent' for every parents-first history; the height rule holds for every commit after every history of local writes and merges of rule-conformant commits, because the heights recorded in the head store — all AddDelta reads — are the parents' true heights in every reachable state (invariant), and under the rule heights strictly increase along parent links (no cycle). Content addressing, closure under links, the height rule and genesis determinism are observed on every block of every generated history; the AddDelta rule is re-derived by the mirror for every local write.",
    design_ref="DESIGN.md section 8, C01/C02/C04", note=_crdt.NOTE,
    technique="Lean 4 proof (head-set invariant) + differential correspondence + DAG well-formedness oracles")
# the encr engine (C11) also runs for C04: its histories of encrypted documents (incl. encrypted counters) are judged by the
# height rule through the commits query
PROP = dict(PROP, engines=PROP["engines"] + [dict(name="encr", drv="encr", timeout=3600)])
ENGINES = [_crdt.ENGINE]
