"""C17 — index key encoding."""
PROP = dict(
    lean_modules=["DefraModel.Props.C17"],
    props_modules=["DefraModel.Props.C17"],
    engines=[dict(name="enc", drv="enc")],
    rule="edge pools (all pairs of varint-width boundaries +-2, float specials +-1ulp, 00/ff-rich strings) exhaustively, then PRNG-generated values/pairs/composite keys/malformed decoder inputs; a case is non-trivial when it is a value round-trip, a comparable pair, a uvarint round-trip or a composite key; distinct = distinct op lines",
    assumptions=[
        "IEEE-754 order on non-NaN floats equals sign-magnitude order of the bit patterns (definition of the model's value order; compared with Go's < on every generated pair)",
        "the hand-written Lean encoders are the Go encoders (checked byte-for-byte on every generated value each run)",
    ],
    trusted_base=["Go harness harness/enc (generator, oracle), Driver/Enc.lean (parsing/printing)"],
)
META = dict(
    text="Lean theorems (all values, no bound) that the model's key encoders are order embeddings (ascending), order reversing (descending), prefix-free, null-first, compose lexicographically and round-trip through the decoders; the model is tied to internal/encoding and keys byte-for-byte on generated values each run.",
    design_ref="DESIGN.md section 8, C07/C17",
    note="Trusted: Lean kernel; harness/enc + Driver/Enc.lean; float value order is defined on bit patterns (sign-magnitude) and compared with Go's < on every generated pair. JSON path encoding is modelled and compared, its order theorem covers scalars under an equal path only.",
    technique="Lean 4 proof over hand-written model + differential correspondence",
)
ENGINES = [{"name": "enc", "path": "harness/enc", "serves_properties": ["C17"], "kind_free_text": "Go in-process driver of internal/encoding + keys; byte-exact diff against drv enc"}]
