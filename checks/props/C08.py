PROP = dict(
    lean_modules=["DefraModel.Props.C08"],
    props_modules=["DefraModel.Props.C08"],
    engines=[dict(name="query", drv="query", timeout=3600)],
    oracle_tags=["panic-or-hang", "panic", "multi-key-order", "order-wrong", "limit-slice", "filter-partition", "aggregate-wrong", "group-by-several-fields"],
    rule=("PRNG-generated collections (0-24 documents, thorough: 0-59; String/Int/Float/Boolean columns drawn from small pools so duplicates, ties and nulls are frequent) and queries generated as programs "
          "(filters of depth <= 2 over _eq _ne _gt _ge _lt _le _in _nin incl. null operands, _and/_or/_not; 1-3 ordering keys with directions; limit; offset; documents or _count/_sum/_avg/_min/_max), "
          "each executed through ExecRequest and compared with the compiled model; metamorphic oracles on the implementation alone (lexicographic sortedness, limit/offset = slice of the unlimited result, "
          "filter and _not filter partition the collection, aggregates = arithmetic over the listed documents); then 1500 (thorough: 100000) malformed requests (span deletion/duplication, byte flips, deep nesting, "
          "splices, token swaps) under recover and a deadline; four groupings by one to three fields per case (with and without a filter; the groups and their sizes compared with the model); one group probe per run (a collection whose values are chosen so that the printed forms of different value tuples run into each other, grouped by two and three fields: the groups must be the distinct tuples with their multiplicities); a case is one (collection, query); distinct = distinct query lines per collection"),
    assumptions=[
        "floats are multiples of 1/8 of moderate size, so IEEE sums are exact; averages are one correctly rounded division, computed the same way by the model driver",
        "the fields of a collection are typed: two non-nil values of one field have the same kind (for other pairs the Go comparison would panic; the model orders by kind)",
        "the no-panic / no-hang clause is exploration of a generated request stream, not proof",
    ],
    trusted_base=["harness/query, Driver/Query.lean"],
)
META = dict(
    text=("Lean theorems for every document list and query of the modelled language: the filter keeps exactly the matching documents, _not/_and/_or are complement/intersection/union, the documented ordering is a stable sort "
          "(permutation, sorted for the lexicographic extension of the keys — proved via total-preorder laws of the value comparison —, ties keep their order), limit/offset cut a slice, aggregates are the stated folds, _avg lists only non-nil values. "
          "The mirror of the repository's comparator is proved equal to the documented one for zero or one key and different for two (known finding). Tied to /repo by executing generated queries on generated collections against the compiled mirror."),
    design_ref="DESIGN.md section 8, C08",
    note=("Trusted: Lean kernel; harness/query; Driver/Query.lean. PARTIAL: the no-panic/no-hang clause is explored by a malformed-request stream, not proved; grouping, _like, arrays, relations and aliases are outside the modelled language. "
          "Known finding multi-key-order is reported as KNOWN-FINDING."),
    technique="Lean 4 proof (filter/sort/limit/aggregate semantics) + differential correspondence + metamorphic oracles",
)
ENGINES = [{"name": "query", "path": "harness/query", "serves_properties": ["C07", "C08"], "kind_free_text": "generated collections and query programs through ExecRequest vs the compiled query model; metamorphic oracles; malformed-request stream; optional twin database with secondary indexes"}]
