"""Shared configuration of the crdt engine (C01, C02, C03, C04)."""
RULE = ("a probe of a collection with 25 fields (field identifiers of one and two digits: parents of a field's commits are commits of that field, heights follow them), then directed histories (diamond, heads at different heights, null/value ties in both directions, tie on a deleted "
        "document, shared register block, delete concurrent with update + redelivery of ancestors, merge commit delivered with one parent missing, "
        "branchable doc/collection commit orders) then PRNG-generated histories over 2-4 replicas: creates (incl. the same document on two nodes), "
        "register writes from small value pools (ties frequent), increments/decrements, deletes, deliveries of arbitrary "
        "earlier commits in arbitrary order incl. redelivery, full syncs; a case is non-trivial when it reached a quiescent "
        "point with all replicas compared; distinct = distinct (case, commit count)")
ASSUME = [
    "the Lean mirror of updateHeads/setValue/incrementValue/Merge/isMerged/loadComposites/processBlock is the Go code (compared after every local write and every delivery, incl. head sets)",
    "mirror state = canon(merged set) is checked by execution at every step (SPEC-DIFFERS marker); proved about the walk for every block store: it collects each commit at most once, skips only commits reachable from the heads (isMerged is sound), and reaches every commit reachable through unmerged commits; and, in a well-formed store, isMerged decides exactly 'head or ancestor of a head' (merged_commit_is_recognised); proved end to end at the composite level (Props/C02 merge_applies_exactly_the_unmerged_ancestors_once, about mergeDoc itself): the applied blocks are exactly the commit and its unmerged ancestors, once each, parents first; merged set after = merged set before + ancestors; its hypotheses (wfCheck, headsCheck) are evaluated by drv crdt on every store of the run (MERGE-THEOREM-HYPOTHESIS-FALSE marker); and for the whole document state (Props/C02 merge_end_to_end_whole_document, counter_gains_each_new_increment_once): every head set, composite and per field, grows by exactly the processed blocks of its kind, and the values are the old ones with the deltas of the applied blocks - the processed blocks not merged before, each once, equal content-addressed field blocks linked by several composites counted once; hypotheses wfCheck3 / kinvCheck / linkInvCheck evaluated on every store and state of the run; and for every history (Props/C01 same_commits_same_document, values_are_the_merged_deltas_once; Proofs/CrdtConverge): after any sequence of deliveries from the empty state the values are the deltas of the merged blocks, each once, so two replicas that merged the same commits show the same values; the closed form canon(merged set) (max / sum formulas) is additionally compared by execution",
    "every block a delivery refers to is available (the harness copies the block store before each delivery), i.e. `known` is always true",
    "cid is a function of content (SHA-256 collision freedom); labels are assigned per cid",
]
NOTE = ("Trusted: Lean kernel; harness/crdt, harness/node, overlay hook VerifExecuteMerge, Driver/Crdt.lean. PARTIAL: the theorems cover the CRDT algebra "
        "(order independence, sums, max, sticky delete, head-set step invariant) for all histories; the walk is proved to hand each commit over at most once, to skip only merged commits "
        "and to reach every unmerged ancestor (Props/C02); isMerged is proved exact for well-formed stores; one delivered commit is proved end to end for the composite level of mergeDoc (applied = commit + unmerged ancestors, each once, parents first; merged set grows by exactly them; Props/C01 same_merged_set_after_same_delivery), under hypotheses evaluated on every store of the run; and for the whole document (every head set and the values: applied = processed blocks not merged before, each once; counters gain each new increment once); the closed form canon(merged set) is checked by execution after every delivery. "
        "Float counters are outside the model (IEEE addition is not associative).")

def prop(props_module, tags):
    return dict(
        lean_modules=[props_module],
        props_modules=[props_module],
        engines=[dict(name="crdt", drv="crdt")],
        oracle_tags=tags,
        rule=RULE,
        assumptions=ASSUME,
        trusted_base=["Go harness harness/crdt + harness/node + overlay hook internal/db/verif_hooks.go (synchronous executeMerge), Driver/Crdt.lean"],
    )

ENGINE = {"name": "crdt", "path": "harness/crdt", "serves_properties": ["C01", "C02", "C03", "C04", "C07"], "kind_free_text": "2-4 in-process nodes, local writes + deliveries through the synchronous merge hook; per-step diff of raw doc state and head sets against drv crdt; impl-only oracles (replica equality, counter sums, heads maximal, DAG well-formedness)"}
