PROP = dict(
    lean_modules=["DefraModel.Props.C05", "DefraModel.Oblig.C05"],
    props_modules=["DefraModel.Props.C05"],
    extract=dict(obligations=[
        "Defra.Oblig.C05.write_path_errors_propagate",
        "Defra.Oblig.C05.api_calls_follow_the_txn_discipline",
        "Defra.Oblig.C05.update_events_only_from_commit_callbacks",
        "Defra.Oblig.C05.facts_non_empty"]),
    oblig_modules=["DefraModel.Oblig.C05"],
    engines=[dict(name="fault", drv="fault", timeout=3600)],
    rule=("catalogue of 17 mutating operations (Create, CreateMany, GraphQL multi-create, Update, Delete, GraphQL filtered update/delete, "
          "Collection.UpdateWithFilter/DeleteWithFilter, upsert hitting update and create, CreateIndex, DropIndex, AddSchema, PatchSchema, "
          "BasicImport, merge of a remote commit) x prior databases (plain, indexed incl. unique, with a concurrent remote commit; more and larger in the thorough tier); "
          "for each pair the number K of storage operations of the fault-free run is measured and EVERY k in 1..K is run on a byte-identical copy of the prior store "
          "with the k-th operation (get/has/set/delete/iterator/next/value/seek/commit) failing; the whole key space is compared byte for byte with the prior "
          "(on error) or with the fault-free result (on success), and the update events on the bus are counted; a case is one (prior, operation, k); all are distinct and non-trivial; after a faulted index operation the indexes listed by the collection handle the call was made through are compared with those of a handle fetched afterwards"),
    assumptions=[
        "a storage operation that fails has no effect and a failed commit leaves nothing behind (torn writes inside Badger are out of scope)",
        "single faults per call in the quick tier (the theorems cover any number of faults)",
        "the Prog model cannot swallow an error; that the real write path does not is the generated obligation write_path_errors_propagate (syntactic extractor, trusted)",
    ],
    trusted_base=["tools/extract (syntactic go/ast fact extractor) and the hand-written expectations in DefraModel/Oblig/C05.lean",
                  "harness/fault + harness/faultstore (fault-injecting corekv.TxnStore wrapper), Driver/Fault.lean"],
)
META = dict(
    text=("Lean theorems for every program, store and fault oracle: a call either fails leaving the committed store and the event stream untouched, or succeeds with exactly the "
          "store and events of the fault-free run; events only if committed; failed calls leave no trace in any later history, and a whole history under arbitrary per-call faults has exactly the final store and notification sequence of the fault-free run of its successful calls; explicit transactions all-or-nothing at the creator's commit. "
          "Tied to /repo by (1) kernel-checked obligations over facts regenerated from the sources each run (every write-path error is returned, every read-write transaction is "
          "discarded on all paths and committed once, update events only from commit callbacks) and (2) exhaustive single-fault enumeration on the real code over all storage operation indices of 17 operations."),
    design_ref="DESIGN.md section 8, C05",
    note=("Trusted: Lean kernel; the syntactic extractor and its expectations; the fault-store wrapper. The model abstracts an API body to a tree of storage operations; "
          "which keys a body touches is not modelled (the byte-level comparison of the whole store on the real code covers it). Faults inside Badger's own commit are out of scope."),
    technique="Lean 4 proof (transaction monad) + regenerated kernel-checked obligations + exhaustive fault enumeration",
)
ENGINES = [{"name": "fault", "path": "harness/fault", "serves_properties": ["C05", "C20"], "kind_free_text": "fault-injecting store wrapper; every storage operation index of every catalogued operation; byte comparison of the whole key space + event counts"}]
