PROP = dict(
    lean_modules=["DefraModel.Props.C06"],
    props_modules=["DefraModel.Props.C06"],
    engines=[dict(name="txn", drv="mvcc", timeout=3600)],
    rule=("5 directed schedules (the lost-update shape at KV and API level; discard and snapshot under a concurrent non-transactional write; a secondary index created inside a transaction after its own writes / while others commit, then index-served queries inside and outside) then PRNG-generated schedules: "
          "KV level — up to 3 concurrent transactions of the real Badger store over 3 keys (begin/get/blind set/blind delete/commit/discard + non-transactional gets); "
          "API level — up to 3 explicit DefraDB transactions over 3 documents (create-or-update, Get, GraphQL query, GetAllDocIDs, commit, discard) interleaved with non-transactional "
          "writes and reads, all single-threaded so the schedule is the input; every operation's result is compared with the multi-version model; a case is one schedule; distinct = schedules; commits made inside transactions that are open, discarded or refused must not be addressable by cid from outside (a commit that the document's committed history lists is public: content addressing)"),
    assumptions=[
        "Badger detects a conflict at commit iff a key the transaction read from the store (not from its own pending writes) has a newer committed version, and commits of write-less transactions always succeed (the model's rule; compared with the real store on every KV-level schedule)",
        "a document update reads the document it writes (footprint of the API operations; a conflict the model does not require is accepted from the implementation, a missing required conflict is not)",
        "goroutine-level concurrency is C16; here schedules are sequentialised",
    ],
    trusted_base=["harness/txn, Driver/Mvcc.lean"],
)
META = dict(
    text=("Lean theorems over arbitrary finite schedules of any number of transactions: a transaction's reads are its start snapshot plus its own writes whatever others do (snapshot stability by induction over steps), "
          "writes are invisible until commit and installed at one timestamp, discarded and conflicting transactions leave no trace, and of two transactions that read and write a common key from overlapping snapshots the second to commit conflicts, forever; a read-write transaction that commits finds every key it read unchanged at its commit point (its reads are current there: commit order is a serial order), a read-only transaction always commits; only a successful commit changes the committed versions, so any schedule without one leaves no trace. "
          "Tied to /repo by replaying generated schedules on the real Badger store (validating the commit rule) and on explicit DefraDB transactions at document level against the compiled model."),
    design_ref="DESIGN.md section 8, C06",
    note="Trusted: Lean kernel; harness/txn; the commit rule of the storage engine is an assumption validated by the KV-level stream, not proved. The corekv memory store is not covered (its iterators ignore the snapshot; a dependency behaviour).",
    technique="Lean 4 proof (MVCC invariants over schedules) + differential correspondence at KV and API level",
)
ENGINES = [{"name": "txn", "path": "harness/txn", "serves_properties": ["C06"], "kind_free_text": "sequentialised schedules of concurrent transactions on Badger (KV level) and on explicit DefraDB transactions (document level) vs the MVCC model"}]
