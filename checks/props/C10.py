PROP = dict(
    lean_modules=["DefraModel.Props.C10", "DefraModel.Oblig.C10"],
    extract=dict(obligations=['Defra.Oblig.C10.every_source_is_behind_the_permission_filter', 'Defra.Oblig.C10.raw_sources_only_inside_the_wrapping_fetcher', 'Defra.Oblig.C10.facts_non_empty']),
    oblig_modules=["DefraModel.Oblig.C10"],
    props_modules=["DefraModel.Props.C10"],
    engines=[dict(name="acp", drv="acp", timeout=5400)],
    rule=("a node with local document access control, two related policy-protected collections (Author with an indexed field, Book with a foreign key), owner O, grantee R, stranger S and the anonymous requester A; "
          "PRNG-generated histories: 2-5 authors and 2-6 books, each public or registered by O; grants and revocations of reader/updater/deleter to R, S and to everybody ('*'), also on public documents (rejected); "
          "update, delete and update-by-filter attempts by all four requesters. `vis` (per requester): the documents yielded by the primary scan, the index-backed lookup of every stored value, by-id reads, time travel "
          "to every document's latest commit, both join directions, counts, the commit history and the listing including deleted documents — compared with the model; every path result is also checked against the "
          "harness's own copy of the grant table. `check`: the successful history restricted to the documents the requester can read is replayed on a fresh twin node (same policy, same identities, same commit CIDs) "
          "and ~80 generated requests (filters incl. on values of unreadable documents, ordering, limit/offset, aggregates, grouping, joins and aggregates through both relation directions, relation filters, "
          "docID lists, commit histories with deltas, time travel) must be answered identically. `sub`: a subscription of the requester while the owner updates a document. After every denied mutation the owner's "
          "view is compared with before. Every request runs under a deadline (a request that does not return is a finding); a case is one history; distinct = distinct histories; `recreate`: a create with the content an existing document was created with, by every requester: it must fail and leave the owner's view unchanged"),
    assumptions=[
        "the policy grants read = owner+reader+updater+deleter, update = owner+updater, delete = owner+deleter (the model's decision function is this policy, not the general policy language of the access-control engine)",
        "time travel by the CID of a commit of an unreadable document is not generated for the twin comparison (the twin does not know the CID and reports a missing block, the node reports an empty result): "
        "both disclose no content; `vis` checks that such reads yield nothing",
        "collection-level commits of @branchable collections (which link the composites of all documents) are not generated",
        "the relationship store of the local access-control engine is trusted (acp_core): the model keeps the grant table as a list",
    ],
    trusted_base=["harness/acp (twin construction from the harness's own grant table), harness/node, Driver/Acp.lean",
                  "tools/extract (syntactic go/ast fact extractor: fetcher constructions in source order) and the expectations in DefraModel/Oblig/C10.lean"],
)
META = dict(
    text=("Lean theorems about the access-control model in which every access path (scan, index lookup, by-id, time travel, both join directions, count, commit history, listing with deleted) applies the permission "
          "check where the code applies it: each path's answer equals its answer on the database that never contained the unreadable documents; inserting an unreadable document anywhere changes no answer; a mutation "
          "attempt without permission changes nothing and is answered like an attempt on a missing document; a grant / the revocation of the last relation decide the very next state. Tied to /repo by comparing, per "
          "requester, what every path yields with the model, and by answering ~80 generated requests on the node and on a twin node that never contained the unreadable documents; and by kernel-checked obligations over facts regenerated from the sources each run "
          "(every raw document source of wrappingFetcher.Start is constructed before the permission wrap; raw sources are constructed only inside the fetcher package)."),
    design_ref="DESIGN.md section 8, C10",
    note=("Trusted: Lean kernel; harness/acp; the local access-control engine's relationship store. PARTIAL: the model's query language is the list of access paths above; that the planner composes only these paths "
          "(every fetch goes through the permissioned wrapper) is what the twin comparison over generated request shapes checks, it is not proved from the planner's source."),
    technique="Lean 4 proof (non-interference of every access path, denied mutations) + differential correspondence with a twin database",
)
ENGINES = [{"name": "acp", "path": "harness/acp", "serves_properties": ["C10"], "kind_free_text": "node with local document ACP + twin nodes rebuilt per requester; per-path visibility against drv acp; generated request shapes compared with the twin; subscription and denied-mutation probes"}]
