PROP = dict(
    lean_modules=["DefraModel.Props.C09"],
    props_modules=["DefraModel.Props.C09"],
    engines=[dict(name="rel", drv="rel", timeout=5400)],
    oracle_tags=["index-changes-join", "index-changes-mutation", "order-inversion-drops-unrelated", "order-through-relation", "one-to-one-double-link", "relation-sides-disagree", "request-hangs-or-panics", "panic"],
    rule=("twin nodes differing only in secondary indexes (on the foreign key, on the filtered fields, or both) in four topologies: one-to-many, one-to-one, self-referencing one-to-many, two hops "
          "(Publisher -> Author -> Book); PRNG-generated documents (names from a pool of 3, x in 0..5 or null, 5/6 linked), then relinks, unlinks, value updates and deletes of either side "
          "(and attempts at a second holder of a one-to-one link); then requests from both sides: related lists, parents, by-foreign-key filters, filters through the relation in both directions "
          "(with and without the related documents selected), aggregates over related documents (with filters), ordering by a related field, ordered + limited sub-selections, parents ordered by own field, "
          "top-level aggregates filtered through the relation, two-hop reads down and up and a two-hop filter. Every request is answered by both twins (must agree) and by the model from the documents' own "
          "relation fields; after every one-to-one write the raw foreign keys are checked for a double link; a case is one history; distinct = distinct histories; index variants on the parent's fields only and on the child's fields only; requests with a condition on the parent next to one on the child's own field, `_ne` through the relation, a count of all related documents next to a relation filter, and docID arguments on either side and on the related list"),
    assumptions=[
        "documents that tie on an ordering key may come in any order: ordered answers are compared as key sequences",
        "a related document that is deleted counts as absent from both sides (the child keeps its foreign key)",
        "one-to-one uniqueness is about LOCAL writes (the statement); concurrent links made on different nodes and merged are not generated",
        "many-to-many relations do not exist in DefraDB; relations across views are not generated",
    ],
    trusted_base=["harness/rel, harness/node, Driver/Rel.lean"],
)
META = dict(
    text=("Lean theorems about the relation model: membership in a parent's related list is exactly 'own relation field points to it'; the join driven from the parent side and the join driven from the child side relate the "
          "same pairs; the inverted join (children visited in the order of ANY index) yields each parent once, with all its children, and exactly the parents the direct evaluation selects; the inverted join from the "
          "parent side yields exactly the specification's pairs; over every history of local creates, relinks, unlinks, updates and deletes accepted by the mirrored check no one-to-one link has two live holders. "
          "Tied to /repo by answering ~20 request kinds from both sides on twin nodes with and without indexes and comparing with the model."),
    design_ref="DESIGN.md section 8, C09",
    note=("Trusted: Lean kernel; harness/rel. PARTIAL: the planner's choice between the direct and inverted joins, batching and sub-selection ordering are tied by correspondence (twin answers + model answers), not proved from "
          "the planner's source. Known finding order-inversion-drops-unrelated."),
    technique="Lean 4 proof (join strategies equal the specification for any visiting order; one-to-one invariant by induction over histories) + twin-database correspondence",
)
ENGINES = [{"name": "rel", "path": "harness/rel", "serves_properties": ["C09"], "kind_free_text": "twin nodes with/without indexes in 4 relation topologies; generated link/unlink/delete histories; ~20 request kinds from both sides vs drv rel"}]
