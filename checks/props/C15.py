PROP = dict(
    lean_modules=["DefraModel.Props.C15"],
    props_modules=["DefraModel.Props.C15"],
    engines=[dict(name="repl", drv="repl", timeout=5400)],
    rule=("two full nodes A and B (node.New, file-backed stores, libp2p on loopback; B on a fixed port and key so that it returns as the same peer); A replicates a collection to B (4 of 5 cases) or B subscribes to it over pubsub; "
          "directed cases (two consecutive outages each followed by a retry round; an outage across an add-field patch with writes of the new field) then PRNG-generated histories of 6-15 steps: creates and repeated updates on A, "
          "B going down and coming back, add-field patches applied to both nodes, rounds of A's replicator retry loop. The retry interval is set to one hour so that the loop's own ticker never acts; rounds are run through an "
          "overlay hook that treats every retry as due, and B's return clears A's dial back-offs (the passage of time). After every step A's bookkeeping in its peer store (retry record, retrying flag, documents owed, "
          "replicator status) is read and compared with the model; at the end B is up, retry rounds have run, and B's documents must equal A's; a case is one history; distinct = distinct histories; two directed cases retry documents written under a schema version that is no longer the active one"),
    assumptions=[
        "time is abstracted: 'the retry interval elapsed' and 'the dial back-off for B expired' are events the harness injects (hooks VerifRetryReplicators, VerifClearDialBackoff); the real loop runs the same functions on a 2 s ticker",
        "B is down or up between operations; B failing in the middle of receiving one push is not generated",
        "outages are generated for the replicator configuration; with pubsub alone a commit published while the subscriber is down is not redelivered by design (no retry bookkeeping exists for it) and is outside the statement's 'replicator configured' clause",
        "libp2p, gRPC and Badger are trusted",
    ],
    trusted_base=["harness/repl (node.New on scratch directories), overlay hooks net.VerifRetryReplicators / net.VerifClearDialBackoff, Driver/Repl.lean"],
)
META = dict(
    text=("Lean theorems about the replication bookkeeping model for every history of writes, outages and retry rounds: at every point every document whose latest write B lacks is marked as owed under a retry record that is not stuck "
          "in the retrying state; a retry round while B is reachable delivers everything owed and clears the bookkeeping; hence after ANY history, once B is reachable and one round has run, B holds what A holds; no record means "
          "nothing is missing; B never holds more than A wrote, what B holds never shrinks, and the replicator status is active exactly while no retry record exists, so an active replicator owes nothing. Tied to /repo by reading A's retry records, owed-document markers and replicator status from its peer store after every step of generated outage histories on real libp2p nodes and by the final "
          "comparison of B with A."),
    design_ref="DESIGN.md section 8, C15",
    note=("Trusted: Lean kernel; harness/repl and its two hooks. PARTIAL: the model is sequential (one event at a time): races between a running retry task and concurrent writes, and message loss inside libp2p, are not modelled; "
          "'eventually' is made an explicit event (retry round, back-off expiry) rather than a fairness assumption over wall-clock time."),
    technique="Lean 4 proof (owed-set invariant by induction over histories; delivery by a retry round) + differential correspondence of the peer-store bookkeeping on real nodes",
)
ENGINES = [{"name": "repl", "path": "harness/repl", "serves_properties": ["C02", "C15"], "kind_free_text": "two libp2p nodes, generated write/outage/patch/retry histories, per-step comparison of the peer-store retry bookkeeping with drv repl, final B = A"}]
