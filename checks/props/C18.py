PROP = dict(
    lean_modules=["DefraModel.Props.C18"],
    props_modules=["DefraModel.Props.C18"],
    engines=[dict(name="backup", drv="backup", timeout=3600)],
    oracle_tags=None,
    rule=("generated databases: a value collection with String/Int/Float/Boolean/DateTime/Blob/JSON/[String!]/[Int!]/[Int] fields drawn from edge pools (integers up to +-2^63 and beyond 2^53, extreme and subnormal floats, "
          "nanosecond and offset date-times, empty/UTF-8/escaped strings, nested JSON, nulls and omitted fields), a one-to-many relation (authors/books incl. orphans) and a self-referencing one-to-one relation (chains, self references, later updates "
          "so that old and new identifiers differ); export pretty or compact, all collections or a subset; import into an empty database with the same schema; GraphQL dumps compared under the old->new mapping recorded in the file; second export compared with the first; "
          "an import file with an invalid last record must fail and leave the target empty; a case is one database"),
    assumptions=["sha256/uuid5 are opaque (identifiers are compared, not recomputed)", "the model stream covers the identifier rewriting of the self-referencing collection (symbolic injective hash: equal identifiers in the model = equal under a collision-free hash); value rendering per kind is evaluated on the implementation"],
    trusted_base=["harness/backup, Driver/Backup.lean"],
)
META = dict(
    text=("Lean theorems: an importer that keeps the digits reproduces every integer, while decoding through IEEE double is the identity exactly up to 53 bits (witnesses of the repaired defect by decide); when the exporter writes every foreign key as the new identifier of its target, "
          "the identifiers of the imported documents are the recorded _docIDNew for every hash and every acyclic reference structure (proved from a fold characterisation of the identifiers); the mirror of the repository's exporter agrees with that for chains of two and is shown to differ for a chain of three (known finding). "
          "The statement-by-statement mirror of basicExport / basicImport for a self-referencing collection (loop in key order, keyChangeCache, foreign document recomputed without its own reference, self-reference fix-up, the importer's self-reference detection) "
          "is proved to write, for EVERY store in which no referenced document references another one (any size and order, changed documents, self references, references to deleted documents), the new identifier of every target, and the importer to give every record its recorded identifier "
          "(cache invariant by induction over the loop); the chain of three is proved to fail on the same mirror. "
          "Tied to /repo by running that mirror on every generated reference graph and comparing identifier equality patterns with the real file and the real imported database, by export -> import -> dump comparison and re-export, plus the atomicity and truncation probes."),
    design_ref="DESIGN.md section 8, C18",
    note="Trusted: Lean kernel; harness/backup; Driver/Backup.lean. PARTIAL: the round-trip theorem excludes chains of three documents, where the unchanged tree really fails (known finding); value rendering of the exporter for each kind is compared on the implementation only (no byte-level model of the export file). Known finding export-self-reference-chain is reported as KNOWN-FINDING.",
    technique="Lean 4 proof (number decoding; mirror of the exporter/importer: cache invariant over the export loop, round trip exact without chains of three) + differential correspondence on identifier equality patterns + round-trip oracle",
)
ENGINES = [{"name": "backup", "path": "harness/backup", "serves_properties": ["C18"], "kind_free_text": "export / import / re-export round trips on generated databases with edge values and relation graphs; reference graph replayed by drv backup"}]
