PROP = dict(
    lean_modules=["DefraModel.Props.C18"],
    props_modules=["DefraModel.Props.C18"],
    engines=[dict(name="backup", timeout=3600)],
    oracle_tags=None,
    rule=("generated databases: a value collection with String/Int/Float/Boolean/DateTime/Blob/JSON/[String!]/[Int!]/[Int] fields drawn from edge pools (integers up to +-2^63 and beyond 2^53, extreme and subnormal floats, "
          "nanosecond and offset date-times, empty/UTF-8/escaped strings, nested JSON, nulls and omitted fields), a one-to-many relation (authors/books incl. orphans) and a self-referencing one-to-one relation (chains, self references, later updates "
          "so that old and new identifiers differ); export pretty or compact, all collections or a subset; import into an empty database with the same schema; GraphQL dumps compared under the old->new mapping recorded in the file; second export compared with the first; "
          "an import file with an invalid last record must fail and leave the target empty; a case is one database"),
    assumptions=["sha256/uuid5 are opaque (identifiers are compared, not recomputed)", "this engine has no model stream: the Lean model covers number decoding and identifier rewriting, the harness evaluates the property itself on the implementation"],
    trusted_base=["harness/backup"],
)
META = dict(
    text=("Lean theorems: an importer that keeps the digits reproduces every integer, while decoding through IEEE double is the identity exactly up to 53 bits (witnesses of the repaired defect by decide); when the exporter writes every foreign key as the new identifier of its target, "
          "the identifiers of the imported documents are the recorded _docIDNew for every hash and every acyclic reference structure (proved from a fold characterisation of the identifiers); the mirror of the repository's exporter agrees with that for chains of two and is shown to differ for a chain of three (known finding). "
          "Tied to /repo by export -> import -> dump comparison and re-export on generated databases, plus the atomicity probe."),
    design_ref="DESIGN.md section 8, C18",
    note="Trusted: Lean kernel; harness/backup. PARTIAL: value rendering of the exporter for each kind is compared on the implementation only (no byte-level model of the export file). Known finding export-self-reference-chain is reported as KNOWN-FINDING.",
    technique="Lean 4 proof (number decoding, identifier rewriting over acyclic references) + round-trip oracle on the implementation",
)
ENGINES = [{"name": "backup", "path": "harness/backup", "serves_properties": ["C18"], "kind_free_text": "export / import / re-export round trips on generated databases with edge values and relation graphs"}]
