import _crdt
PROP = _crdt.prop("DefraModel.Props.C02", ["counter-sum", "register-not-latest", "deleted-status", "value-key-family", "panic", "event-on-failed-op", "not-delivered"])
# the repl engine (C15) also runs for C02: a commit pushed again after a first delivery that stored its head but did not
# merge it (a sync cut short, a target that did not answer) must still be applied - nothing lost
PROP["engines"] = PROP["engines"] + [dict(name="repl", drv="repl", timeout=5400)]
META = dict(
    text="Lean theorems: counter = initial + sum of applied increments (one term per application), order-free; deleted iff some applied commit deletes, never resurrected; a register holds a written value that no applied write exceeds in (height, bytes), hence of greatest height; redelivery of a merged commit collects nothing. Tie as C01, with per-prefix oracles on the implementation (counter = sum over merged closure, register written at greatest merged height, deleted flag).",
    design_ref="DESIGN.md section 8, C01/C02/C04", note=_crdt.NOTE,
    technique="Lean 4 proof (fold characterisations) + differential correspondence of the merge mirror")
ENGINES = [_crdt.ENGINE]
