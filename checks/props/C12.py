PROP = dict(
    lean_modules=["DefraModel.Props.C12"],
    props_modules=["DefraModel.Props.C12"],
    engines=[dict(name="sign", drv="sign", timeout=3600)],
    rule=("for both key types (secp256k1, ed25519): generated documents with updates, counter increments and deletes written with a signing identity; for EVERY block reachable from the published heads: "
          "whether it carries a signature (composites and first field blocks do), DB.VerifySignature with the signer's key, another key of the same type and a key of the other type; for every signed block "
          "every single-field tampering (delta priority, delta data, added parent, dropped/added link, encryption link) re-encoded under the original signature, and every tampering of the signature block "
          "(value bit flip, identity replaced by another public key, type swapped), each pushed through the DAG-sync entry point as the head and as a block linked from a wrapper head, with an offline block "
          "service holding the genuine blocks; a case is one (block, operation); all distinct; per key type 3000 messages are signed and verified under the key (and must not verify after a bit flip)"),
    assumptions=[
        "ECDSA secp256k1 / Ed25519 are correct, unforgeable and binding in the idealised sense of the Scheme structure (the toy instance shows the laws are consistent)",
        "the merge event is raised by the push-log handler iff the DAG sync entry point returns nil (net/server.go, read; the hook calls the same function)",
        "field blocks above height 1 carry no signature by design and are outside the statement",
    ],
    trusted_base=["harness/sign, overlay hook net.VerifSyncDAG, Driver/Sign.lean"],
)
META = dict(
    text=("Lean theorems for every signature scheme satisfying correctness, unforgeability and binding: a signed commit verifies under the signer's key, reports a mismatch under any other key and is invalid after any change of its signed content; "
          "a push is accepted only if every reachable signed block was signed over exactly its content by the identity it names, so one non-verifying attached signature anywhere rejects the push (no merge event); whatever verifies against the author's signature is the authored content, so with content-hash identifiers every field block a verifying composite links is one the author linked (the unsigned later field blocks are covered by the composite). "
          "Tied to /repo with real keys of both types: API outcomes and DAG-sync outcomes for every block and every single-field tampering are compared with the model."),
    design_ref="DESIGN.md section 8, C12",
    note="Trusted: Lean kernel; harness/sign; the cryptographic primitives (parameters of the model). The reachable-set walk of loadBlockLinks is modelled as 'all reachable blocks are checked' and exercised at depth 0 and 1.",
    technique="Lean 4 proof (abstract signature scheme) + differential correspondence over exhaustive single-field tampering",
)
ENGINES = [{"name": "sign", "path": "harness/sign", "serves_properties": ["C12"], "kind_free_text": "real-key signing, API verification per key, exhaustive single-field tampering pushed through the DAG sync entry point"}]
