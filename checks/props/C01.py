import _crdt
PROP = _crdt.prop("DefraModel.Props.C01", ["replicas-differ", "heads-differ", "merge-error", "panic", "collection-id-differs"])
META = dict(
    text="Lean theorems: any two application orders of the same commits (each once) give the same visible document state (all register/counter/delete kinds, null and equal-height ties); head set determined by the merged set; tie-break deterministic. Tied to /repo by running n in-process nodes and the compiled mirror on the same histories and comparing after every write and delivery; replica-vs-replica equality at quiescence is evaluated on the implementation alone.",
    design_ref="DESIGN.md section 8, C01/C02/C04", note=_crdt.NOTE,
    technique="Lean 4 proof (CRDT algebra) + differential correspondence of the merge mirror")
ENGINES = [_crdt.ENGINE]
