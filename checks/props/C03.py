import _crdt
PROP = _crdt.prop("DefraModel.Props.C03", ["at-error", "at-differs-from-then", "at-counter", "at-head-differs", "sub-differs", "sub-on-delete", "panic"])
PROP["rule"] = _crdt.RULE + "; every composite commit is read back (time-travel query) right after it is written or delivered and again from replica 0 at every quiescent point; a GraphQL subscription on every replica records what it yields per local write"
META = dict(
    text="Lean theorems about the mirror of the versioned fetcher: for every DAG and commit the read is a fold of the CRDT merges over a duplicate-free block list (each block at most once), hence counters are sums with one term per block, deletes sticky, replay order immaterial. Tied to /repo by reading every commit of every generated history (linear, branching, merged) through the GraphQL cid argument and through subscriptions and comparing with the mirror and with canon(closure of the commit); the statement's three clauses (equals the ordinary query right after a local linear commit; counters = prefix sums; equals the current query at the single head) are evaluated on the implementation alone.",
    design_ref="DESIGN.md section 8, C03", note=_crdt.NOTE + " For C03: the replay is proved to reach every stored ancestor and every linked block exactly once (read_at_commit_replays_every_ancestor_once).",
    technique="Lean 4 proof (at-most-once replay, fold characterisation) + differential correspondence of time-travel reads")
ENGINES = [_crdt.ENGINE]
