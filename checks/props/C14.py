PROP = dict(
    lean_modules=["DefraModel.Props.C14"],
    props_modules=["DefraModel.Props.C14"],
    engines=[dict(name="restart", drv="restart", timeout=5400)],
    rule=("two full nodes started through node.New (file-backed Badger store, local document access control with its own store directory, libp2p peer on loopback with pubsub) plus a third node as replication target; "
          "PRNG-generated histories of 8-21 operations: schemas from a catalogue of four types (one with an index in its SDL), a policy with a protected type, index creation (also unique) and drops, add-field patches, "
          "document creates / updates / deletes (also on the protected type), relationship grants and revocations, P2P-collection adds/removes, replicator sets/deletes - applied to both nodes; the first node is closed "
          "and started again on its directories at generated points (1-6 per case) and once more before the final operations. Every operation's outcome (incl. generated index names and identifiers) must be the same on "
          "both nodes; at every dump: all collection versions (JSON of the descriptions), indexes, every document as the owner and as a grantee, the commit history, P2P collections and replicators must be identical; "
          "at generated points (and before the last restart) the store directories of the running node are copied after a completed operation and a second node is opened on the copy: collection versions, indexes, documents as owner and grantee, commit history, served GraphQL types and the raw peer-configuration records must equal the running node's (crash-copy-differs); after the last restart further operations (index, document, new collection) are applied and compared; the abstract dump (collections with short identifiers, fields with short identifiers, indexes with identifiers, "
          "document counts, peer configuration) is compared with the model; a case is one history; distinct = distinct histories; the dump lists the P2P collections whose topic the peer is not subscribed to; a directed case patches the schema of a P2P collection before restarting"),
    assumptions=[
        "restarts happen between operations; a close waits for the node's own shutdown path (node.Close); the store contents as of a completed operation WITHOUT a close are covered by the crash-copy comparison (files copied while the node runs; Badger's background compaction is assumed idle on these small stores); crash points INSIDE an operation at storage-commit boundaries are covered for the document store by C05's fault engine (atomicity of every operation), not replayed here as reopen points",
        "Badger's own recovery of a closed store directory is trusted",
        "replicator targets are identified by the number of collections they carry in the abstract dump (peer identifiers differ between the two nodes' peer stores only by construction and are compared verbatim between twins)",
    ],
    trusted_base=["harness/restart (node.New / node.Close on scratch directories under the check's work directory), overlay hook VerifShortIDs, Driver/Restart.lean"],
)
META = dict(
    text=("Lean theorems about the persisted-state / cache model: after every history the in-memory state equals what start-up rebuilds from the store, so a restart anywhere (any number of them) leaves store and memory - hence every "
          "later observation and outcome - exactly as without it; identifier counters only grow and are part of the store, so collections and indexes created later, across drops and restarts, never reuse an identifier. "
          "Tied to /repo by lock-step comparison of a restarted full node with a never-restarted twin over generated histories (descriptions, identifiers, documents, history, ACP visibility, peer configuration, and the "
          "outcomes of further operations) and of the abstract state with the model."),
    design_ref="DESIGN.md section 8, C14",
    note=("Trusted: Lean kernel; harness/restart. PARTIAL: the model's caches are the collection/index descriptions, the identifier sequences, the P2P collection set and the replicator table; the GraphQL type system and the lens registry "
          "are rebuilt by loadSchema and are tied only through the twin comparison of request answers. Reopening at commit boundaries inside an operation is not replayed (see assumptions)."),
    technique="Lean 4 proof (cache = load(store) invariant, restart is the identity, monotone identifier counters) + lock-step twin correspondence on restarted full nodes",
)
ENGINES = [{"name": "restart", "path": "harness/restart", "serves_properties": ["C14"], "kind_free_text": "full nodes via node.New on scratch directories, restarted at generated points, compared in lock-step with a never-restarted twin and with drv restart"}]
