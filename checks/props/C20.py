PROP = dict(
    lean_modules=["DefraModel.Props.C20", "DefraModel.Oblig.C05"],
    props_modules=["DefraModel.Props.C20"],
    extract=dict(obligations=["Defra.Oblig.C05.update_events_only_from_commit_callbacks"]),
    oblig_modules=["DefraModel.Oblig.C05"],
    engines=[dict(name="events", drv="events", timeout=3600)],
    oracle_tags=["events-not-commits", "subscribers-order-differs", "event-block-missing", "event-block-differs",
                 "event-before-commit", "visible-before-commit", "gql-subscription-count", "panic"],
    rule=("6 directed histories (a request committing more documents than a subscriber buffer holds, plain and branchable; updates that change nothing / re-set the same value, failing create, multi-create, explicit transaction discarded and committed, branchable) then PRNG-generated "
          "histories: single and multi-document creates (CreateMany, one by one, GraphQL list input), updates incl. no-change updates, deletes, failing creates, explicit transactions with "
          "several operations that commit or discard, 1-5 bus subscribers that subscribe and unsubscribe in between, plain and branchable collections, plus a GraphQL subscription with a filter; "
          "after every step the new document-level and collection-level commits in the block store are compared with what each subscriber received (as a multiset against the model, in order across subscribers, "
          "block bytes against the store); a case is a (history, step); all steps are distinct"),
    assumptions=[
        "the bus model delivers to buffers of unbounded size (a full subscriber buffer blocks the real bus; liveness under slow subscribers is not modelled; the burst cases compare the real bus, read only after more than a buffer's worth of events was published, with this model: blocking and then delivering everything is what agrees, dropping is not)",
        "publication sites are commit-success callbacks: generated obligation update_events_only_from_commit_callbacks (syntactic extractor, trusted)",
        "fault-injected histories are covered by the C05 engine, which counts update events for every fault position",
    ],
    trusted_base=["harness/events, Driver/Events.lean, tools/extract"],
)
META = dict(
    text=("Lean theorems: a (multi-document) request under any storage faults publishes either nothing (and stores nothing) or exactly its new commits, once each, in write order; an announced block is stored; rolled-back calls publish nothing; "
          "the bus delivers to every subscriber exactly the matching publications in publication order whatever other subscribers do (FIFO invariant by induction over the command queue); a branchable collection publishes exactly the document-level then the collection-level commit per write or nothing; over ANY command history what a subscriber received is an in-order sub-sequence of the publications (no duplicate, nothing invented), nothing reaches a subscriber without a subscription or after close, and the whole lifetime subscribe..unsubscribe receives exactly the matching publications of that stretch; a filtered subscription yields one result per passing publication. "
          "Tied to /repo by the regenerated obligation on publication sites and by running generated histories against the real bus and database and the compiled bus model."),
    design_ref="DESIGN.md section 8, C20",
    note="Trusted: Lean kernel; harness/events; extractor. Goroutine scheduling of the real bus is sampled, not modelled; unbounded buffers in the model.",
    technique="Lean 4 proof (transaction monad + bus FIFO invariant) + regenerated obligation + differential correspondence",
)
ENGINES = [{"name": "events", "path": "harness/events", "serves_properties": ["C03", "C20"], "kind_free_text": "mutation histories with bus subscribers and a GraphQL subscription; per step: new commits in the store vs events received"}]
