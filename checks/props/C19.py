PROP = dict(
    lean_modules=["DefraModel.Props.C19"],
    props_modules=["DefraModel.Props.C19"],
    engines=[dict(name="schema", drv="schema", timeout=3600)],
    rule=("a directed case (v1 -> v2 -> v3a with data, back to v2, sibling v3b, write there, back and forth) and PRNG-generated histories on one or two nodes that start from the same one-field schema: "
          "add-field patches from whatever version is active (made active or not; the same patch on the other node yields the same version), switches of the active version to any known version "
          "(older, newer, sibling), creates and updates under the active version, exchanges of all commits between the nodes in both directions (also before the receiver knows the version the commits were written under). "
          "After every schema operation: same documents, same values for every field the old and new active version share, same commit history, exactly one active version, and incoming commits are merged under the "
          "version requests use (implementation-only oracles); every dump (active version, its fields, every document) is compared with the model; after the final exchanges the nodes must agree on every field "
          "both active versions have; a case is one history; distinct = distinct histories; in cases with an odd number commits are delivered through the node's event bus (merge request / merge complete) instead of the merge entry point; a directed case delivers a commit, patches both nodes, and delivers a commit that writes the added field"),
    assumptions=[
        "only add-field patches (the statement's scope); field kinds String; no lens migrations (wasm modules are not available offline)",
        "values are equal-length strings so that the register tie-break on encoded bytes is the order of the model's numbers",
        "the commit history is compared only when it can be listed: a `commits` request fails as a whole while the node holds commits written under a version it does not know (observed, recorded as a counter)",
    ],
    trusted_base=["harness/schema, overlay hooks VerifExecuteMerge / VerifMergeCollectionVersion, Driver/Schema.lean"],
)
META = dict(
    text=("Lean theorems about the schema model (storage keyed by document and field NAME, versions as field lists): patches and switches of the active version leave documents, history and store untouched, so every field shared "
          "by the old and new active version reads the same, switching back restores every read, a field no known version had reads null after the patch that adds it (invariant over all histories: the store only "
          "holds fields of known versions), any version reads the stored register of each of its fields whichever version wrote it; the stored value is the maximum over the SET of applied commits, hence two nodes "
          "that applied the same commits agree on every field both know. The full agreement statement is refuted in the model by a concrete history (commit delivered before the receiver learned the field), "
          "which is the known finding on the implementation."),
    design_ref="DESIGN.md section 8, C19",
    note="Trusted: Lean kernel; harness/schema. PARTIAL: GraphQL type regeneration, description storage and lens migrations are not modelled; the tie is the per-operation dump comparison. Known finding field-learned-after-merge.",
    technique="Lean 4 proof (store untouched by schema operations; stored value = maximum over the set of applied commits) + differential correspondence on generated version trees and two-node exchanges",
)
ENGINES = [{"name": "schema", "path": "harness/schema", "serves_properties": ["C19"], "kind_free_text": "one or two nodes, generated add-field patch trees with sibling versions, active-version switches, writes and commit exchanges; per-operation dumps vs drv schema; invariance oracles around every schema operation"}]
