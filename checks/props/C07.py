PROP = dict(
    lean_modules=["DefraModel.Props.C07", "DefraModel.Oblig.C07"],
    extract=dict(obligations=['Defra.Oblig.C07.index_scans_are_refiltered', 'Defra.Oblig.C07.nil_operand_matchers_follow_the_filter']),
    oblig_modules=["DefraModel.Oblig.C07"],
    props_modules=["DefraModel.Props.C07"],
    engines=[dict(name="query", drv="query", args=["twin"], timeout=3600), dict(name="crdt", drv="crdt"), dict(name="idxm", drv="idxm", timeout=3600)],
    oracle_tags=["index-changes-result", "index-changes-order", "index-changes-aggregate", "index-panic-or-hang", "panic", "multi-key-order", "index-after-merge",
                 "all-on-empty-array", "json-ne-on-missing-path", "json-path-on-non-object"],
    rule=("twin databases with identical documents, one of them with 1-3 generated secondary indexes (single-field and composite, ascending/descending, on String/Int/Float/Boolean columns, created before or "
          "after the data), a generated history of updates and deletes applied to both; then (a) the raw index entries of the real store are compared byte for byte with the entries the model derives from the live "
          "documents through the C17 key encoders, (b) generated queries (filters incl. _in/_nin/_or/_not and null operands, 1-3 ordering keys, limit/offset, aggregates) are run on both twins: same multiset of documents, "
          "same sequence of first sort keys, same aggregates; a case is one (collection, index set, query); distinct = distinct query lines per collection; "
          "(d) the idxm engine: two collections of one node with array ([Int!], [String!]) and JSON fields that differ only in 1-3 generated indexes (single-field, composite with the array / JSON field leading, in the middle or trailing, "
          "descending components, unique indexes on scalars, arrays and composites, created before or after the data); creates, updates and deletes go to both unless the unique index rejects them; generated filters (scalar comparisons, _in/_nin, "
          "_any/_all/_none on the arrays, _or, paths into the JSON field) and _count run on both and must agree; every accepted / rejected write and every array-filter answer is compared with the model of Index/Multi.lean; "
          "(c) the crdt engine's replicas carry indexes on name and age: at every quiescent point of its generated multi-replica histories (remote merges, concurrent writes, deletes) every index-backed equality lookup "
          "(every value present, and null) is compared with the documents holding that value; idxm: `patch` operations put later indexes on a later collection version, `age` has a default value and its nulls are stored explicitly; query: every comparison with a null and a non-null operand on a non-leading field of each composite index behind a pinned leading field"),
    assumptions=[
        "limit/offset without an ordering that makes the sequence unique select an implementation-defined slice: such queries are compared through the ordered-sequence oracle only",
        "relations under indexes are covered by C09's engine; JSON filters are compared between the twin collections only (the model evaluates scalar and array conditions); merged remote commits are covered by the crdt engine's lookups only",
        "the theorems cover the candidate interval of a condition on the first indexed field of non-JSON kinds; value matchers on further composite fields only remove candidates, the complete filter is re-applied in any case",
    ],
    trusted_base=["tools/extract (the `condition == nil` branch of internal/connor gt/ge/lt/le and the nil-operand branch of createValueMatcher) and the expectation in DefraModel/Oblig/C07.lean", "harness/query (twin mode), Driver/Query.lean", "harness/idxm, Driver/Idxm.lean",
                  "tools/extract (fetcher constructions in source order) and the expectation in DefraModel/Oblig/C07.lean"],
)
META = dict(
    text=("Lean theorems: for all eight comparison-operator x direction cases, every condition value and every stored value satisfying the condition, the index entry lies inside the interval createRangeBoundaries scans "
          "(from C17's order embedding and a proved characterisation of bytesPrefixEnd as least upper bound of a prefix); equality lookups cover their prefix; re-filtering a duplicate-free complete candidate set is exact; the index-maintenance model (build on a populated collection, then any create/update/delete history) holds exactly one entry per live document with its current values; a multi-entry (array) index scan, de-duplicated and re-filtered, is exact; "
          "under the unique-index rule no two live documents share a key without nil component after any history, and a write is rejected exactly when it would make two share one. "
          "Tied to /repo by byte-comparison of raw index entries after generated mutation histories, by twin-database query comparison, and by a kernel-checked obligation over facts regenerated from the sources each run "
          "(the index fetcher is constructed only in wrappingFetcher.Start and the filtering wrap after it: the premise of the re-filter theorems)."),
    design_ref="DESIGN.md section 8, C07",
    note=("Trusted: Lean kernel; harness/query twin mode. PARTIAL: index maintenance is proved for the model and tied by byte-equal entries; the planner's choice of index conditions is tied by correspondence (twin queries), not proved; JSON filter semantics are not modelled (twin comparison only). "
          "Differences only in the order of documents that tie on the first sort key are the known finding multi-key-order (C08)."),
    technique="Lean 4 proof (range completeness from the C17 order embedding; index-maintenance invariant by induction over histories) + byte-level and twin-database correspondence",
)
ENGINES = [{"name": "idxm", "path": "harness/idxm", "serves_properties": ["C07"], "kind_free_text": "two collections of one node with array and JSON fields, one with generated single / composite / unique indexes; generated writes and filters on both; unique-index verdicts and array-filter answers vs drv idxm"}]
