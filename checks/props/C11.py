PROP = dict(
    lean_modules=["DefraModel.Props.C11"],
    props_modules=["DefraModel.Props.C11"],
    engines=[dict(name="encr", drv="encr", timeout=3600)],
    rule=("directed cases (every field kind as the only encrypted field / under document-level encryption, first set by a later update; concurrent unencrypted twin of the same document; create-update-delete) then "
          "PRNG-generated documents over String, Int, Blob, JSON, [String] and counter fields: creation with document-level and/or field-level encryption or none, 1-5 updates of random field subsets, deletes, "
          "a merge of the same document created without encryption on another node; every written value is a unique byte pattern. After every operation the blocks it produced are classified "
          "(key block linked: document key / field key / none; fresh or inherited) and compared with the model; `scan` searches every block of the shared blockstore and every update notification for every "
          "written pattern and for every key; a key-less receiver (real key service answered with an empty reply) and a key-holding receiver (real key service over an in-process transport) merge the DAG; "
          "a case is one document history; distinct = distinct histories; every third case creates its document through a GraphQL create with a list input whose first element sets none of the fields"),
    assumptions=[
        "AES-GCM ciphertext does not contain its plaintext and decrypts to it under the same key (Cipher.sound is the modelled half; the scan checks the other half on every generated value)",
        "update notifications reach the network layer only as event.Update messages on the node's bus (net/peer.go handleLog reads exactly these)",
        "the key-less receiver is a node whose key request is answered with an empty reply (what a peer answers when access is denied); a node whose request is never answered blocks in the merge and stores nothing",
        "a merge that ends in a transaction conflict is retried (as internal/db/messages.go does): the key service stores fetched key blocks outside the merge transaction",
        "histories in which a peer overwrites an encrypted head with an unencrypted successor are not generated: the author's next update would inherit 'no encryption' from it (documented limitation of inheritance from heads)",
    ],
    trusted_base=["harness/encr (with internal/kms pubSubService over an in-process transport), overlay hook VerifExecuteMerge, Driver/Encr.lean"],
)
META = dict(
    text=("Lean theorems about the mirror of determineBlockEncryption/AddDelta for every creation configuration and every history of updates, deletes and merges of concurrent unencrypted heads: under document-level "
          "encryption every field block the author writes links a key (also fields first set by a later update: inherited from the composite); a field encrypted at creation stays encrypted in every later block; "
          "a key-less receiver stores only values of clear blocks and, of a document-level encrypted document, cannot read any composite the author wrote (the document is invisible there: the `doc=` value of the `recv nokey` line); a receiver holding some keys stores only values of blocks that are clear or under a key it holds (a value under a key it lacks is never stored), more keys never lose a value, and a holder of every linked key stores the value of every field block; decrypting with the linked key returns the written value. The full field-level statement is refuted in the model by a concrete history "
          "(field named for encryption but first written by an update), which is the known finding on the implementation. Tied to /repo by classifying every produced block and by searching every stored byte and "
          "notification for every written pattern."),
    design_ref="DESIGN.md section 8, C11",
    note=("Trusted: Lean kernel; harness/encr; the cipher (a parameter of the model). PARTIAL: block data is modelled as (operation, field) secrets, not bytes; the absence of plaintext inside ciphertext is "
          "checked by the scan on every generated value, not proved. Known finding field-level-first-set-by-update."),
    technique="Lean 4 proof (inheritance invariants of the encryption decision) + differential correspondence with byte-pattern search of all shared blocks and notifications",
)
ENGINES = [{"name": "encr", "path": "harness/encr", "serves_properties": ["C04", "C11"], "kind_free_text": "author node + unencrypted twin + key-less and key-holding receivers; per-operation block classification against drv encr; byte-pattern search of shared blocks, notifications and receiver stores"}]
