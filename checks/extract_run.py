"""Runs the fact extractor (tools/extract) on the current /repo and refreshes lean/DefraModel/Generated/Facts.lean."""
import os, subprocess, shutil, json


def run(ROOT, REPO, LEAN, BUILD, GOENV, cfg):
    exe = os.path.join(BUILD, "extract")
    os.makedirs(BUILD, exist_ok=True)
    p = subprocess.run(["go", "build", "-o", exe, "."], cwd=os.path.join(ROOT, "tools", "extract"),
                       env=GOENV, stdout=subprocess.PIPE, stderr=subprocess.STDOUT, text=True)
    if p.returncode != 0:
        raise SystemExit("CHECK-BROKEN: extractor does not build:\n" + p.stdout)
    out = os.path.join(BUILD, "extract_out")
    shutil.rmtree(out, ignore_errors=True)  # never reuse stale generated files
    p = subprocess.run([exe, REPO, out], stdout=subprocess.PIPE, stderr=subprocess.STDOUT, text=True)
    if p.returncode != 0:
        raise SystemExit("CHECK-BROKEN: extractor failed:\n" + p.stdout)
    dst = os.path.join(LEAN, "DefraModel", "Generated", "Facts.lean")
    new = open(os.path.join(out, "Facts.lean")).read()
    if not os.path.exists(dst) or open(dst).read() != new:
        with open(dst, "w") as fh:
            fh.write(new)
    facts = json.load(open(os.path.join(out, "facts.json")))
    return {
        "obligations": cfg.get("obligations", []),
        "summary": p.stdout.strip(),
        "facts_counts": {k: (len(v) if isinstance(v, list) else v) for k, v in facts.items()},
    }
