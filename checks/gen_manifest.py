"""Writes MANIFEST.json from checks/registry.py and checks/manifest_meta.py."""
import json, os, sys
ROOT = os.path.dirname(os.path.dirname(os.path.abspath(__file__)))
sys.path.insert(0, os.path.join(ROOT, "checks"))
import registry, manifest_meta as mm
props = [json.loads(l) for l in open(os.path.join(ROOT, "properties.jsonl"))]
checks = []
na = []
for p in props:
    pid = p["id"]
    if pid in registry.PROPS:
        m = registry.META[pid]
        checks.append({
            "property_id": pid,
            "quick_cmd": f"./check {pid} --tier quick",
            "thorough_cmd": f"./check {pid} --tier thorough",
            "evidence_file": f"evidence/{pid}.json",
            "replay_cmd_template": f"./check {pid} --replay {{path}}",
            "engine": ",".join(e["name"] for e in registry.PROPS[pid].get("engines", [])) or "lean",
            "level_claimed": {"category": registry.PROPS[pid].get("level", "proof"), "text": m["text"], "design_ref": m["design_ref"]},
            "level_note": m["note"],
            "technique": m["technique"],
        })
    else:
        na.append({"property_id": pid, "reason": mm.NA.get(pid, "check not built yet; see DESIGN.md section 8 for the planned model and tie")})
man = {
    "version": 1,
    "setup_cmd": "./setup.sh",
    "hooks": {
        "guard": "verif",
        "enable": "go build -tags verif -overlay /verif/.build/overlay.json (harness packages and hook files live in /verif/harness and are mounted into the module at build time; /repo carries no hook code)",
        "baseline_off_cmd": "cd /repo && GOFLAGS=-mod=mod GOPROXY=off go test -json -vet=off -count=1 -timeout 25m ./...",
        "source_commits": mm.HOOK_COMMITS,
        "add_only": True,
    },
    "engines": [{"name": "lean", "path": "lean/", "serves_properties": sorted(registry.PROPS), "kind_free_text": "Lean 4 model, theorems (Props/), compiled model driver drv"}] + [registry.ENGINES[k] for k in sorted(registry.ENGINES)],
    "checks": checks,
    "not_applicable": na,
    "notes": mm.NOTES,
}
json.dump(man, open(os.path.join(ROOT, "MANIFEST.json"), "w"), indent=1)
print("claimed:", [c["property_id"] for c in checks])
