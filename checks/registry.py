"""Per-property configuration of ./check."""

COMPARE = {}

PROPS = {
    "C17": dict(
        lean_modules=["DefraModel.Props.C17"],
        props_modules=["DefraModel.Props.C17"],
        engines=[dict(name="enc", drv="enc")],
        rule="edge pools (all pairs of varint-width boundaries +-2, float specials +-1ulp, 00/ff-rich strings) exhaustively, then PRNG-generated values/pairs/composite keys/malformed decoder inputs; a case is non-trivial when it is a value round-trip, a comparable pair, a uvarint round-trip or a composite key; distinct = distinct op lines",
        assumptions=[
            "IEEE-754 order on non-NaN floats equals sign-magnitude order of the bit patterns (definition of the model's value order; compared with Go's < on every generated pair)",
            "the hand-written Lean encoders are the Go encoders (checked byte-for-byte on every generated value each run)",
        ],
        trusted_base=["Go harness harness/enc (generator, oracle), Driver/Enc.lean (parsing/printing)"],
    ),
}

_CRDT_RULE = ("10 directed histories (diamond, heads at different heights, null/value ties in both directions, tie on a deleted "
              "document, shared register block, delete concurrent with update + redelivery of ancestors, branchable doc/collection "
              "commit orders) then PRNG-generated histories over 2-4 replicas: creates (incl. the same document on two nodes), "
              "register writes from small value pools (ties frequent), increments/decrements, deletes, deliveries of arbitrary "
              "earlier commits in arbitrary order incl. redelivery, full syncs; a case is non-trivial when it reached a quiescent "
              "point with all replicas compared; distinct = distinct (case, commit count)")
_CRDT_ASSUME = [
    "the Lean mirror of updateHeads/setValue/incrementValue/Merge/isMerged/loadComposites/processBlock is the Go code (compared after every local write and every delivery, incl. head sets)",
    "mirror state = canon(merged set) is checked by execution at every step (SPEC-DIFFERS marker), not proved: exactness of isMerged/loadComposites is not yet a theorem",
    "every block a delivery refers to is available (the harness copies the block store before each delivery), i.e. `known` is always true",
    "cid is a function of content (SHA-256 collision freedom); labels are assigned per cid",
]

def _crdt(props_module, tags, extra_rule=""):
    return dict(
        lean_modules=[props_module],
        props_modules=[props_module],
        engines=[dict(name="crdt", drv="crdt")],
        oracle_tags=tags,
        rule=_CRDT_RULE + extra_rule,
        assumptions=_CRDT_ASSUME,
        trusted_base=["Go harness harness/crdt + harness/node + overlay hook internal/db/verif_hooks.go (synchronous executeMerge), Driver/Crdt.lean"],
    )

PROPS["C01"] = _crdt("DefraModel.Props.C01", ["replicas-differ", "heads-differ", "merge-error", "panic", "collection-id-differs"])
PROPS["C02"] = _crdt("DefraModel.Props.C02", ["counter-sum", "register-not-latest", "deleted-status", "value-key-family", "panic", "event-on-failed-op"])
PROPS["C04"] = _crdt("DefraModel.Props.C04", ["dag-content-address", "dag-missing-block", "dag-height", "head-height", "heads-not-maximal", "genesis-differs", "panic"])
