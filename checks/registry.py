"""Per-property configuration of ./check."""

COMPARE = {}

PROPS = {
    "C17": dict(
        lean_modules=["DefraModel.Props.C17"],
        props_modules=["DefraModel.Props.C17"],
        engines=[dict(name="enc", drv="enc")],
        rule="edge pools (all pairs of varint-width boundaries +-2, float specials +-1ulp, 00/ff-rich strings) exhaustively, then PRNG-generated values/pairs/composite keys/malformed decoder inputs; a case is non-trivial when it is a value round-trip, a comparable pair, a uvarint round-trip or a composite key; distinct = distinct op lines",
        assumptions=[
            "IEEE-754 order on non-NaN floats equals sign-magnitude order of the bit patterns (definition of the model's value order; compared with Go's < on every generated pair)",
            "the hand-written Lean encoders are the Go encoders (checked byte-for-byte on every generated value each run)",
        ],
        trusted_base=["Go harness harness/enc (generator, oracle), Driver/Enc.lean (parsing/printing)"],
    ),
}
