"""Per-property configuration of ./check: one file per property under checks/props/ defining
PROP (check configuration), META (MANIFEST texts) and ENGINES (MANIFEST engines entries)."""
import os, sys, importlib.util

_DIR = os.path.join(os.path.dirname(os.path.abspath(__file__)), "props")
sys.path.insert(0, _DIR)

COMPARE = {}
PROPS = {}
META = {}
ENGINES = {}

for _f in sorted(os.listdir(_DIR)):
    if not _f.endswith(".py") or _f.startswith("_"):
        continue
    _pid = _f[:-3]
    _spec = importlib.util.spec_from_file_location("prop_" + _pid, os.path.join(_DIR, _f))
    _m = importlib.util.module_from_spec(_spec)
    _spec.loader.exec_module(_m)
    PROPS[_pid] = _m.PROP
    META[_pid] = _m.META
    for _e in getattr(_m, "ENGINES", []):
        ENGINES[_e["name"]] = _e
    COMPARE.update(getattr(_m, "COMPARE", {}))
