"""Warm-up build of every harness engine against /repo so per-check builds are incremental."""
import os, sys, subprocess, json
ROOT = os.path.dirname(os.path.dirname(os.path.abspath(__file__)))
sys.path.insert(0, os.path.join(ROOT, "checks"))
import importlib.util
spec = importlib.util.spec_from_loader("check", loader=None)
src = open(os.path.join(ROOT, "check")).read()
mod = type(sys)("check")
mod.__file__ = os.path.join(ROOT, "check")
exec(compile(src.replace('if __name__ == "__main__":\n    main()', ''), mod.__file__, "exec"), mod.__dict__)
import registry
seen = set()
for p, cfg in registry.PROPS.items():
    for e in cfg.get("engines", []):
        k = (e["name"], e.get("race", False))
        if k in seen:
            continue
        seen.add(k)
        ok, log, _ = mod.go_build(*k)
        print("warmup", k, "ok" if ok else "FAILED\n" + log[-2000:])
        if not ok:
            sys.exit(1)
