#!/usr/bin/env python3
"""tools/cmp_baseline.py <go test -json output> : compare the pass set with BASELINE.json stable_pass."""
import json,sys
base=json.load(open('/root/.vp/BASELINE.json'))
stable=set(base['stable_pass'])
res={}
for l in open(sys.argv[1], errors='replace'):
    try: e=json.loads(l)
    except Exception: continue
    if e.get('Test') and e.get('Action') in ('pass','fail','skip'):
        res[e['Package']+'::'+e['Test']]=e['Action']
passed={k for k,v in res.items() if v=='pass'}
missing=sorted(stable-passed)
print('tests seen',len(res),'pass',len(passed),'fail',sum(1 for v in res.values() if v=='fail'))
print('stable_pass',len(stable),'missing from pass set',len(missing))
for m in missing[:40]: print('  MISSING',m,res.get(m))
sys.exit(1 if missing else 0)
