#!/usr/bin/env python3
"""tools/seed_sweep.py [ids...] : apply each stored seeded mutation to /repo, run the quick check of its property
(and of the properties sharing engines, if given in meta 'also'), restore /repo, and write seeded/RESULTS.json."""
import json, os, subprocess, sys, re
ROOT = os.path.dirname(os.path.dirname(os.path.abspath(__file__)))
def sh(cmd, **kw):
    return subprocess.run(cmd, shell=True, capture_output=True, text=True, **kw)
res = {}
rp = os.path.join(ROOT, "seeded", "RESULTS.json")
if os.path.exists(rp):
    res = json.load(open(rp))
ids = sys.argv[1:] or sorted(d for d in os.listdir(os.path.join(ROOT, "seeded")) if re.match(r"C\d\d[a-z]$", d))
assert sh("git -C /repo status --porcelain").stdout.strip() == "", "/repo must be clean"
for sid in ids:
    d = os.path.join(ROOT, "seeded", sid)
    patch = os.path.join(d, "patch_ported.diff")
    if not os.path.exists(patch):
        patch = os.path.join(d, "patch.diff")
    prop = sid[:3]
    a = sh(f"git -C /repo apply {patch}")
    if a.returncode != 0:
        res[sid] = {"applies": False, "error": a.stderr[-300:]}
        sh("git -C /repo checkout -- .")
        continue
    b = sh("cd /repo && GOFLAGS=-mod=mod GOPROXY=off go build ./...")
    r = sh(f"cd {ROOT} && ./check {prop}")
    last = [l for l in r.stdout.strip().split("\n") if l.startswith(("OK", "VIOLATION", "CHECK-BROKEN"))]
    verdict = last[-1] if last else r.stdout[-200:]
    res[sid] = {"applies": True, "patch": os.path.basename(patch), "builds": b.returncode == 0, "check": prop,
                "caught": verdict.startswith("VIOLATION"), "with_failing_input": verdict.startswith("VIOLATION") and "no-failing-input-found" not in verdict,
                "verdict": verdict[:200]}
    sh("git -C /repo checkout -- .")
    print(sid, res[sid]["verdict"][:120], flush=True)
    json.dump(res, open(rp, "w"), indent=1, sort_keys=True)
# the runs above wrote evidence of mutated trees: rewrite it from the restored tree
for prop in sorted({sid[:3] for sid in ids}):
    r = sh(f"cd {ROOT} && ./check {prop}")
    last = [l for l in r.stdout.strip().split("\n") if l.startswith(("OK", "VIOLATION", "CHECK-BROKEN"))]
    print("restored", prop, (last[-1] if last else r.stdout[-200:])[:100], flush=True)
