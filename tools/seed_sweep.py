#!/usr/bin/env python3
"""tools/seed_sweep.py [--scratch] [ids...] : apply each stored seeded mutation, run the quick check of its property,
restore the tree, and write seeded/RESULTS.json.
Without --scratch the mutation is applied to /repo itself (nothing else may use /repo or /verif meanwhile) and the
evidence of the swept properties is rewritten from the restored tree at the end.
With --scratch the sweep works on a scratch git worktree of /repo and a scratch copy of /verif under /tmp/sweep (removed
at the end), so that /repo and /verif stay usable; only seeded/RESULTS.json is copied back."""
import json, os, subprocess, sys, re
ROOT = os.path.dirname(os.path.dirname(os.path.abspath(__file__)))
def sh(cmd, **kw):
    return subprocess.run(cmd, shell=True, capture_output=True, text=True, **kw)
args = sys.argv[1:]
scratch = "--scratch" in args
args = [a for a in args if a != "--scratch"]
res = {}
rp = os.path.join(ROOT, "seeded", "RESULTS.json")
if os.path.exists(rp):
    res = json.load(open(rp))
ids = args or sorted(d for d in os.listdir(os.path.join(ROOT, "seeded")) if re.match(r"C\d\d[a-z]$", d))
repo, vroot = "/repo", ROOT
if scratch:
    base = "/tmp/sweep"
    sh(f"git -C /repo worktree remove --force {base}/repo; rm -rf {base}; mkdir -p {base}")
    a = sh(f"git -C /repo worktree add --detach {base}/repo HEAD")
    assert a.returncode == 0, a.stderr
    sh(f"rsync -a --exclude .build --exclude .work --exclude replays --exclude .git --exclude evidence {ROOT}/ {base}/verif/ && mkdir -p {base}/verif/evidence")
    repo, vroot = f"{base}/repo", f"{base}/verif"
else:
    assert sh("git -C /repo status --porcelain").stdout.strip() == "", "/repo must be clean"
env = dict(os.environ, VERIF_REPO=repo)
for sid in ids:
    d = os.path.join(ROOT, "seeded", sid)
    patch = os.path.join(d, "patch_ported.diff")
    if not os.path.exists(patch):
        patch = os.path.join(d, "patch.diff")
    prop = sid[:3]
    a = sh(f"git -C {repo} apply {patch}")
    if a.returncode != 0:
        res[sid] = {"applies": False, "error": a.stderr[-300:]}
        sh(f"git -C {repo} checkout -- .")
        print(sid, "DOES NOT APPLY", a.stderr[-200:], flush=True)
        continue
    b = sh(f"cd {repo} && GOFLAGS=-mod=mod GOPROXY=off go build ./...")
    r = sh(f"cd {vroot} && ./check {prop}", env=env)
    last = [l for l in r.stdout.strip().split("\n") if l.startswith(("OK", "VIOLATION", "CHECK-BROKEN"))]
    verdict = last[-1] if last else r.stdout[-200:]
    res[sid] = {"applies": True, "patch": os.path.basename(patch), "builds": b.returncode == 0, "check": prop,
                "caught": verdict.startswith("VIOLATION"), "with_failing_input": verdict.startswith("VIOLATION") and "no-failing-input-found" not in verdict,
                "verdict": verdict[:200].replace(vroot, ROOT)}
    sh(f"git -C {repo} checkout -- ." + (f" && git -C {repo} clean -fdq" if scratch else ""))
    print(sid, res[sid]["verdict"][:120], flush=True)
    json.dump(res, open(rp, "w"), indent=1, sort_keys=True)
if scratch:
    sh("git -C /repo worktree remove --force /tmp/sweep/repo; rm -rf /tmp/sweep")
else:
    # the runs above wrote evidence of mutated trees: rewrite it from the restored tree
    for prop in sorted({sid[:3] for sid in ids}):
        r = sh(f"cd {ROOT} && ./check {prop}")
        last = [l for l in r.stdout.strip().split("\n") if l.startswith(("OK", "VIOLATION", "CHECK-BROKEN"))]
        print("restored", prop, (last[-1] if last else r.stdout[-200:])[:100], flush=True)
