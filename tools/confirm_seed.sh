#!/bin/bash
# tools/confirm_seed.sh <id> <out-dir-of-agent> <demo-dest-path-in-repo> <go test pkg> <run-regex> [extra test pkgs...]
# Confirms a seeded change in a scratch worktree: builds, demo fails with / passes without, given existing tests pass with.
set -u
ID=$1; SRC=$2; DEST=$3; PKG=$4; RUN=$5; shift 5
export GOFLAGS=-mod=mod GOPROXY=off
WT=/tmp/confirm_$ID
git -C /repo worktree remove --force $WT 2>/dev/null
git -C /repo worktree add -q --detach $WT HEAD || exit 2
LOG=/tmp/confirm_$ID.log; : > $LOG
res() { echo "$1" | tee -a $LOG; }
cp $SRC/demo_test.go $WT/$DEST
(cd $WT && go test -vet=off -count=1 -timeout 10m -run "$RUN" $PKG >> $LOG 2>&1); R0=$?
res "demo_without_patch_exit=$R0"
git -C $WT apply $SRC/patch.diff || { res "patch does not apply"; exit 2; }
(cd $WT && go build ./... >> $LOG 2>&1); res "build_with_patch_exit=$?"
(cd $WT && go test -vet=off -count=1 -timeout 10m -run "$RUN" $PKG >> $LOG 2>&1); R1=$?
res "demo_with_patch_exit=$R1"
rm -f $WT/$DEST
for p in "$@"; do
  (cd $WT && go test -vet=off -count=1 -timeout 25m $p > /tmp/confirm_$ID.tests.log 2>&1); res "existing_tests[$p]_exit=$? $(grep -c '^ok' /tmp/confirm_$ID.tests.log) ok, $(grep -c '^FAIL' /tmp/confirm_$ID.tests.log) FAIL: $(grep '^FAIL\|^--- FAIL' /tmp/confirm_$ID.tests.log | head -5 | tr '\n' ';')"
done
git -C /repo worktree remove --force $WT
grep -E "exit=" $LOG
