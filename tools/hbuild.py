#!/usr/bin/env python3
"""tools/hbuild.py <engine> [race] : build one harness engine against /repo (development helper)."""
import sys,os
ROOT=os.path.dirname(os.path.dirname(os.path.abspath(__file__)))
sys.path.insert(0,os.path.join(ROOT,'checks'))
src=open(os.path.join(ROOT,'check')).read()
mod=type(sys)('check'); mod.__file__=os.path.join(ROOT,'check')
exec(compile(src.replace('if __name__ == "__main__":\n    main()',''),mod.__file__,'exec'),mod.__dict__)
ok,log,out=mod.go_build(sys.argv[1], race=len(sys.argv)>2)
print(log[-4000:]); print("OK" if ok else "FAILED", out)
sys.exit(0 if ok else 1)
