// Fact extractor (the "translator" half of the tie between the Lean model and /repo).
// Purely syntactic (go/parser + go/ast, no dependencies). It reads the current sources under <repo> and
// writes facts as Lean data (<out>/*.lean) and as JSON (<out>/facts.json):
//
//   ErrFlow      every `if <errvar> != nil { ... }` on the write path that does NOT propagate that error
//                (substituted / loggedOnly / dropped), plus `_ = f(...)` discards; propagated sites are counted
//   ApiSkeletons every function that opens a read-write transaction with ensureContextTxn(.., false):
//                deferred discard present, number of Commit calls, success returns before the commit
//   EventSites   every publication of an update event and whether it sits inside an OnSuccess callback
//   TxnWiring    which transaction value the multistore of the (concurrent) transaction is built from
//   PlanSources  every planner/fetcher construction site of a document source and whether it is wrapped by
//                the permissioned fetcher
package main

import (
	"encoding/json"
	"fmt"
	"go/ast"
	"go/parser"
	"go/printer"
	"go/token"
	"os"
	"path/filepath"
	"sort"
	"strings"
)

type ErrSite struct {
	File, Func, Var, Kind string
	Line                  int
	Snippet               string
}
type ApiSkel struct {
	File, Func               string
	Line                     int
	DeferDiscard             bool
	Commits                  int
	NilErrReturnsBeforeCommit int
	ErrCheckedAfterBegin     bool
}
type EventSite struct {
	File, Func  string
	Line        int
	InOnSuccess bool
	What        string
}
type Wiring struct {
	File, Func, Arg string
	Line            int
}
type Facts struct {
	ErrFlow        []ErrSite
	Propagated     int
	ApiSkeletons   []ApiSkel
	EventSites     []EventSite
	TxnWiring      []Wiring
	FetcherSites   []Wiring
	// what a nil operand of an ordering comparison means: to the filter evaluation (internal/connor) and to the value
	// matchers of the index fetcher
	NilSemantics []Wiring
}

var fset = token.NewFileSet()

func src(n ast.Node) string {
	var sb strings.Builder
	_ = printer.Fprint(&sb, fset, n)
	s := strings.Join(strings.Fields(sb.String()), " ")
	if len(s) > 90 {
		s = s[:90]
	}
	return s
}

func isErrIdent(name string) bool {
	l := strings.ToLower(name)
	return l == "err" || strings.HasSuffix(l, "err") || l == "e"
}

// errVarOfCond returns the identifier X if cond contains `X != nil` with X error-like.
func errVarOfCond(cond ast.Expr) string {
	found := ""
	ast.Inspect(cond, func(n ast.Node) bool {
		if be, ok := n.(*ast.BinaryExpr); ok && be.Op == token.NEQ {
			if id, ok := be.X.(*ast.Ident); ok && isErrIdent(id.Name) {
				if y, ok := be.Y.(*ast.Ident); ok && y.Name == "nil" {
					found = id.Name
				}
			}
		}
		return true
	})
	return found
}

func mentions(n ast.Node, name string) bool {
	m := false
	ast.Inspect(n, func(x ast.Node) bool {
		if id, ok := x.(*ast.Ident); ok && id.Name == name {
			m = true
		}
		return true
	})
	return m
}

// classify the body of `if X != nil { body }`
func classify(body *ast.BlockStmt, x string) string {
	hasReturn, returnsX, hasLog, otherExit, assignsX := false, false, false, false, false
	ast.Inspect(body, func(n ast.Node) bool {
		switch s := n.(type) {
		case *ast.FuncLit:
			return false
		case *ast.ReturnStmt:
			hasReturn = true
			for _, r := range s.Results {
				if mentions(r, x) {
					returnsX = true
				}
			}
			if len(s.Results) == 0 {
				returnsX = true // named results: the error variable is the result
			}
		case *ast.BranchStmt:
			otherExit = true
		case *ast.CallExpr:
			c := src(s.Fun)
			if strings.HasPrefix(c, "log.") {
				hasLog = true
			}
			if c == "panic" {
				returnsX = true
				hasReturn = true
			}
			// passing the error on (results channel, errors.Join into another variable, callback)
			for _, a := range s.Args {
				if mentions(a, x) && !strings.HasPrefix(c, "log.") {
					assignsX = true
				}
			}
		case *ast.AssignStmt:
			for _, r := range s.Rhs {
				if mentions(r, x) {
					assignsX = true
				}
			}
		case *ast.SendStmt:
			if mentions(s.Value, x) {
				assignsX = true
			}
		}
		return true
	})
	switch {
	case hasReturn && returnsX:
		return "propagated"
	case hasReturn && !returnsX:
		return "substituted"
	case assignsX:
		return "forwarded"
	case hasLog && !otherExit:
		return "loggedOnly"
	case hasLog && otherExit:
		return "loggedAndSkipped"
	default:
		return "handled"
	}
}

func funcName(fd *ast.FuncDecl) string {
	if fd.Recv != nil && len(fd.Recv.List) > 0 {
		return strings.TrimPrefix(src(fd.Recv.List[0].Type), "*") + "." + fd.Name.Name
	}
	return fd.Name.Name
}

func main() {
	repo, out := os.Args[1], os.Args[2]
	var facts Facts
	writeDirs := []string{"internal/db", "internal/core/block", "internal/core/crdt", "internal/datastore", "internal/db/fetcher", "internal/db/sequence", "internal/db/description", "internal/db/id"}
	plannerFiles := map[string]bool{"create.go": true, "update.go": true, "delete.go": true, "upsert.go": true}
	var files []string
	for _, d := range writeDirs {
		ents, _ := os.ReadDir(filepath.Join(repo, d))
		for _, e := range ents {
			if strings.HasSuffix(e.Name(), ".go") && !strings.HasSuffix(e.Name(), "_test.go") {
				files = append(files, filepath.Join(d, e.Name()))
			}
		}
	}
	ents, _ := os.ReadDir(filepath.Join(repo, "internal/planner"))
	for _, e := range ents {
		if plannerFiles[e.Name()] {
			files = append(files, filepath.Join("internal/planner", e.Name()))
		}
	}
	sort.Strings(files)
	for _, rel := range files {
		f, err := parser.ParseFile(fset, filepath.Join(repo, rel), nil, parser.SkipObjectResolution)
		if err != nil {
			fmt.Fprintln(os.Stderr, "parse error:", err)
			os.Exit(1)
		}
		for _, d := range f.Decls {
			fd, ok := d.(*ast.FuncDecl)
			if !ok || fd.Body == nil {
				continue
			}
			fn := funcName(fd)
			// ---- ErrFlow
			ast.Inspect(fd.Body, func(n ast.Node) bool {
				switch s := n.(type) {
				case *ast.IfStmt:
					if x := errVarOfCond(s.Cond); x != "" {
						k := classify(s.Body, x)
						if k == "propagated" {
							facts.Propagated++
						} else {
							facts.ErrFlow = append(facts.ErrFlow, ErrSite{rel, fn, x, k, fset.Position(s.Pos()).Line, src(s.Cond)})
						}
					}
				case *ast.AssignStmt:
					allBlank := len(s.Lhs) > 0
					for _, l := range s.Lhs {
						if id, ok := l.(*ast.Ident); !ok || id.Name != "_" {
							allBlank = false
						}
					}
					if allBlank && len(s.Rhs) == 1 {
						if _, isCall := s.Rhs[0].(*ast.CallExpr); isCall {
							facts.ErrFlow = append(facts.ErrFlow, ErrSite{rel, fn, "_", "dropped", fset.Position(s.Pos()).Line, src(s)})
						}
					}
				}
				return true
			})
			// ---- ApiSkeletons: functions that begin a read-write transaction
			var beginIdx = -1
			for i, st := range fd.Body.List {
				if as, ok := st.(*ast.AssignStmt); ok && len(as.Rhs) == 1 {
					if ce, ok := as.Rhs[0].(*ast.CallExpr); ok && src(ce.Fun) == "ensureContextTxn" && len(ce.Args) == 3 && src(ce.Args[2]) == "false" {
						beginIdx = i
					}
				}
			}
			if beginIdx >= 0 {
				sk := ApiSkel{File: rel, Func: fn, Line: fset.Position(fd.Pos()).Line}
				for i := beginIdx + 1; i < len(fd.Body.List) && i <= beginIdx+3; i++ {
					switch st := fd.Body.List[i].(type) {
					case *ast.IfStmt:
						if errVarOfCond(st.Cond) != "" && classify(st.Body, errVarOfCond(st.Cond)) == "propagated" {
							sk.ErrCheckedAfterBegin = true
						}
					case *ast.DeferStmt:
						if strings.HasPrefix(src(st.Call), "txn.Discard(") {
							sk.DeferDiscard = true
						}
					}
				}
				var firstCommit token.Pos
				ast.Inspect(fd.Body, func(n ast.Node) bool {
					if ce, ok := n.(*ast.CallExpr); ok && src(ce.Fun) == "txn.Commit" {
						sk.Commits++
						if firstCommit == 0 || ce.Pos() < firstCommit {
							firstCommit = ce.Pos()
						}
					}
					return true
				})
				ast.Inspect(fd.Body, func(n ast.Node) bool {
					if _, ok := n.(*ast.FuncLit); ok {
						return false
					}
					if rs, ok := n.(*ast.ReturnStmt); ok && len(rs.Results) > 0 && (firstCommit == 0 || rs.Pos() < firstCommit) {
						last := rs.Results[len(rs.Results)-1]
						if id, ok := last.(*ast.Ident); ok && id.Name == "nil" && !strings.Contains(src(rs), "txn.Commit") {
							sk.NilErrReturnsBeforeCommit++
						}
					}
					return true
				})
				facts.ApiSkeletons = append(facts.ApiSkeletons, sk)
			}
			// ---- EventSites: publication of update events
			var walk func(n ast.Node, inOnSuccess bool)
			walk = func(n ast.Node, inOnSuccess bool) {
				ast.Inspect(n, func(x ast.Node) bool {
					ce, ok := x.(*ast.CallExpr)
					if !ok {
						return true
					}
					fun := src(ce.Fun)
					if strings.HasSuffix(fun, ".OnSuccess") || strings.HasSuffix(fun, ".OnSuccessAsync") {
						for _, a := range ce.Args {
							walk(a, true)
						}
						return false
					}
					if strings.HasSuffix(fun, ".Publish") && strings.Contains(src(ce), "event.UpdateName") {
						facts.EventSites = append(facts.EventSites, EventSite{rel, fn, fset.Position(ce.Pos()).Line, inOnSuccess, "Publish(UpdateName)"})
					}
					return true
				})
			}
			walk(fd.Body, false)
			// ---- TxnWiring
			if rel == "internal/datastore/concurrent_txn.go" || rel == "internal/datastore/txn.go" {
				ast.Inspect(fd.Body, func(n ast.Node) bool {
					if ce, ok := n.(*ast.CallExpr); ok && src(ce.Fun) == "NewMultistore" && len(ce.Args) == 1 {
						facts.TxnWiring = append(facts.TxnWiring, Wiring{rel, fn, src(ce.Args[0]), fset.Position(ce.Pos()).Line})
					}
					return true
				})
			}
		}
	}
	// ---- FetcherSites: who constructs document sources in planner / fetcher
	for _, d := range []string{"internal/planner", "internal/db/fetcher", "internal/db", "internal/lens"} {
		ents, _ := os.ReadDir(filepath.Join(repo, d))
		for _, e := range ents {
			if !strings.HasSuffix(e.Name(), ".go") || strings.HasSuffix(e.Name(), "_test.go") {
				continue
			}
			rel := filepath.Join(d, e.Name())
			f, err := parser.ParseFile(fset, filepath.Join(repo, rel), nil, parser.SkipObjectResolution)
			if err != nil {
				continue
			}
			for _, dd := range f.Decls {
				fd, ok := dd.(*ast.FuncDecl)
				if !ok || fd.Body == nil {
					continue
				}
				ast.Inspect(fd.Body, func(n ast.Node) bool {
					if ce, ok := n.(*ast.CallExpr); ok {
						fun := src(ce.Fun)
						switch fun {
						case "newPrefixFetcher", "newIndexFetcher", "newDocumentFetcher", "newPermissionedFetcher", "newFilteredFetcher", "newMultiFetcher",
							"fetcher.NewDocumentFetcher", "NewDocumentFetcher", "new(fetcher.VersionedFetcher)", "lens.NewFetcher":
							facts.FetcherSites = append(facts.FetcherSites, Wiring{rel, funcName(fd), fun, fset.Position(ce.Pos()).Line})
						}
					}
					return true
				})
			}
		}
	}

	// ---- NilSemantics
	// (a) internal/connor/<op>.go, func <op>: `if condition == nil { return <expr>, nil }`
	for _, op := range []string{"gt", "ge", "lt", "le"} {
		rel := filepath.Join("internal/connor", op+".go")
		f, err := parser.ParseFile(fset, filepath.Join(repo, rel), nil, parser.SkipObjectResolution)
		if err != nil {
			continue
		}
		for _, dd := range f.Decls {
			fd, ok := dd.(*ast.FuncDecl)
			if !ok || fd.Body == nil || fd.Name.Name != op {
				continue
			}
			for _, st := range fd.Body.List {
				is, ok := st.(*ast.IfStmt)
				if !ok || src(is.Cond) != "condition == nil" {
					continue
				}
				for _, bs := range is.Body.List {
					if rs, ok := bs.(*ast.ReturnStmt); ok && len(rs.Results) == 2 {
						facts.NilSemantics = append(facts.NilSemantics, Wiring{rel, op, src(rs.Results[0]), fset.Position(rs.Pos()).Line})
					}
				}
			}
		}
	}
	// (b) createValueMatcher: inside `if condition.val.IsNil() { .. }` the switch on condition.op and the final
	//     nilMatcher whose matchNil is a disjunction of `condition.op == <op>`
	{
		rel := "internal/db/fetcher/indexer_matchers.go"
		if f, err := parser.ParseFile(fset, filepath.Join(repo, rel), nil, parser.SkipObjectResolution); err == nil {
			for _, dd := range f.Decls {
				fd, ok := dd.(*ast.FuncDecl)
				if !ok || fd.Body == nil || fd.Name.Name != "createValueMatcher" {
					continue
				}
				for _, st := range fd.Body.List {
					is, ok := st.(*ast.IfStmt)
					if !ok || src(is.Cond) != "condition.val.IsNil()" {
						continue
					}
					var matcherOf func(e ast.Expr) string
					matcherOf = func(e ast.Expr) string {
						if u, ok := e.(*ast.UnaryExpr); ok {
							e = u.X
						}
						if cl, ok := e.(*ast.CompositeLit); ok {
							return src(cl.Type)
						}
						return src(e)
					}
					for _, bs := range is.Body.List {
						switch t := bs.(type) {
						case *ast.SwitchStmt:
							if src(t.Tag) != "condition.op" {
								facts.NilSemantics = append(facts.NilSemantics, Wiring{rel, "nil:unrecognised", src(t.Tag), 0})
								continue
							}
							for _, cc := range t.Body.List {
								c := cc.(*ast.CaseClause)
								kind := "unrecognised"
								for _, cs := range c.Body {
									if rs, ok := cs.(*ast.ReturnStmt); ok && len(rs.Results) == 2 {
										kind = matcherOf(rs.Results[0])
									}
								}
								for _, e := range c.List {
									facts.NilSemantics = append(facts.NilSemantics, Wiring{rel, "nil:" + src(e), kind, fset.Position(c.Pos()).Line})
								}
							}
						case *ast.ReturnStmt:
							if len(t.Results) != 2 {
								continue
							}
							e := t.Results[0]
							if u, ok := e.(*ast.UnaryExpr); ok {
								e = u.X
							}
							cl, ok := e.(*ast.CompositeLit)
							if !ok || src(cl.Type) != "nilMatcher" || len(cl.Elts) != 1 {
								facts.NilSemantics = append(facts.NilSemantics, Wiring{rel, "nil:unrecognised", src(t.Results[0]), 0})
								continue
							}
							kv, ok := cl.Elts[0].(*ast.KeyValueExpr)
							if !ok || src(kv.Key) != "matchNil" {
								facts.NilSemantics = append(facts.NilSemantics, Wiring{rel, "nil:unrecognised", src(cl), 0})
								continue
							}
							// matchNil: condition.op == a || condition.op == b ...
							var ops []string
							okAll := true
							var walk func(x ast.Expr)
							walk = func(x ast.Expr) {
								if b, ok := x.(*ast.BinaryExpr); ok && b.Op.String() == "||" {
									walk(b.X)
									walk(b.Y)
									return
								}
								if b, ok := x.(*ast.BinaryExpr); ok && b.Op.String() == "==" && src(b.X) == "condition.op" {
									ops = append(ops, src(b.Y))
									return
								}
								okAll = false
							}
							walk(kv.Value)
							if !okAll {
								facts.NilSemantics = append(facts.NilSemantics, Wiring{rel, "nil:unrecognised", src(kv.Value), 0})
								continue
							}
							for _, o := range ops {
								facts.NilSemantics = append(facts.NilSemantics, Wiring{rel, "nilMatcher:true", o, fset.Position(t.Pos()).Line})
							}
						default:
							facts.NilSemantics = append(facts.NilSemantics, Wiring{rel, "nil:unrecognised", src(bs), 0})
						}
					}
				}
			}
		}
	}

	_ = os.MkdirAll(out, 0o755)
	jb, _ := json.MarshalIndent(facts, "", " ")
	_ = os.WriteFile(filepath.Join(out, "facts.json"), jb, 0o644)

	q := func(s string) string { return "\"" + strings.ReplaceAll(strings.ReplaceAll(s, "\\", "\\\\"), "\"", "\\\"") + "\"" }
	b := func(x bool) string {
		if x {
			return "true"
		}
		return "false"
	}
	var sb strings.Builder
	sb.WriteString("/- GENERATED by tools/extract from the current /repo sources on every check run. Do not edit. -/\n")
	sb.WriteString("import DefraModel.Generated.Types\nnamespace Defra.Generated\n\n")
	sb.WriteString(fmt.Sprintf("def propagatedSites : Nat := %d\n\n", facts.Propagated))
	sb.WriteString("def errFlow : List ErrSite := [\n")
	for i, e := range facts.ErrFlow {
		c := ","
		if i == len(facts.ErrFlow)-1 {
			c = ""
		}
		sb.WriteString(fmt.Sprintf("  ⟨%s, %s, %s, %s⟩%s\n", q(e.File), q(e.Func), q(e.Var), q(e.Kind), c))
	}
	sb.WriteString("]\n\ndef apiSkeletons : List ApiSkel := [\n")
	for i, s := range facts.ApiSkeletons {
		c := ","
		if i == len(facts.ApiSkeletons)-1 {
			c = ""
		}
		sb.WriteString(fmt.Sprintf("  ⟨%s, %s, %s, %s, %d, %d⟩%s\n", q(s.File), q(s.Func), b(s.ErrCheckedAfterBegin), b(s.DeferDiscard), s.Commits, s.NilErrReturnsBeforeCommit, c))
	}
	sb.WriteString("]\n\ndef eventSites : List EventSite := [\n")
	for i, s := range facts.EventSites {
		c := ","
		if i == len(facts.EventSites)-1 {
			c = ""
		}
		sb.WriteString(fmt.Sprintf("  ⟨%s, %s, %s⟩%s\n", q(s.File), q(s.Func), b(s.InOnSuccess), c))
	}
	sb.WriteString("]\n\ndef txnWiring : List Wiring := [\n")
	for i, s := range facts.TxnWiring {
		c := ","
		if i == len(facts.TxnWiring)-1 {
			c = ""
		}
		sb.WriteString(fmt.Sprintf("  ⟨%s, %s, %s⟩%s\n", q(s.File), q(s.Func), q(s.Arg), c))
	}
	sb.WriteString("]\n\ndef fetcherSites : List Wiring := [\n")
	for i, s := range facts.FetcherSites {
		c := ","
		if i == len(facts.FetcherSites)-1 {
			c = ""
		}
		sb.WriteString(fmt.Sprintf("  ⟨%s, %s, %s⟩%s\n", q(s.File), q(s.Func), q(s.Arg), c))
	}
	sb.WriteString("]\n\ndef nilSemantics : List Wiring := [\n")
	for i, s := range facts.NilSemantics {
		c := ","
		if i == len(facts.NilSemantics)-1 {
			c = ""
		}
		sb.WriteString(fmt.Sprintf("  ⟨%s, %s, %s⟩%s\n", q(s.File), q(s.Func), q(s.Arg), c))
	}
	sb.WriteString("]\n\nend Defra.Generated\n")
	_ = os.WriteFile(filepath.Join(out, "Facts.lean"), []byte(sb.String()), 0o644)
	fmt.Printf("extract: %d non-propagated error sites (%d propagated), %d api skeletons, %d event sites, %d txn wirings, %d fetcher sites\n",
		len(facts.ErrFlow), facts.Propagated, len(facts.ApiSkeletons), len(facts.EventSites), len(facts.TxnWiring), len(facts.FetcherSites))
}
