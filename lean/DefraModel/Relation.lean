/-!
# Model of relations (C09)

Collections linked by a foreign key held on the primary side. Mirrors `internal/planner/type_join.go`:

* the join driven from the secondary ("one") side: for every parent, the primary collection is scanned with the
  added condition `fk = parent.id` (`fetchPrimaryDocsReferencingSecondaryDoc`, `addFilterOnIDField`);
* the join driven from the primary side: for every child the parent is fetched by identifier
  (`fetchRelatedSecondaryDocWithChildren`, `fetchDocWithIDAndItsSubDocs`);
* the inverted join the planner selects when the child side has a usable index: children are visited in index
  order, the parent of each is fetched unless it was already encountered (`encounteredDocIDs`);
* the inverted join from the other side: parents are visited in index order and their children collected.

and `validateOneToOneLinkDoesntAlreadyExist` of `internal/db/collection.go` (reject a link another live document
already holds).
-/
namespace Defra.Relation

structure Doc where
  id : Nat
  col : Nat
  name : String := ""
  x : Option Int := none
  /-- the foreign key held by a primary-side document -/
  fk : Option Nat := none
  deleted : Bool := false
deriving Repr, DecidableEq

abbrev DB := List Doc

/-- a relation: documents of collection `child` point to documents of collection `parent` -/
structure Rel where
  parent : Nat
  child : Nat
deriving Repr, DecidableEq

def live (db : DB) (col : Nat) : List Doc := db.filter (fun d => d.col == col && !d.deleted)

/-! ## Specification -/

/-- the related documents of `p`: exactly the live children whose own relation field points to `p` -/
def children (db : DB) (r : Rel) (p : Doc) : List Doc :=
  (live db r.child).filter (fun c => c.fk == some p.id)

/-- the parent a child's relation field points to, if it is a live document of the parent collection -/
def parentOf (db : DB) (r : Rel) (c : Doc) : Option Doc :=
  match c.fk with
  | none => none
  | some k => (live db r.parent).find? (fun p => p.id == k)

/-! ## Join strategies -/

/-- driven from the secondary side: every parent with the scan of the primary side filtered on the key -/
def joinFromParent (db : DB) (r : Rel) : List (Doc × List Doc) :=
  (live db r.parent).map (fun p => (p, (live db r.child).filter (fun c => c.fk == some p.id)))

/-- driven from the primary side: every child with the parent fetched by identifier -/
def joinFromChild (db : DB) (r : Rel) : List (Doc × Option Doc) :=
  (live db r.child).map (fun c => (c, parentOf db r c))

/-- the inverted join for a parent-side request filtered through the relation: the matching children are visited
    in the order `visit` (the index order), each child's parent is fetched unless already encountered; the parent
    is yielded with all its children -/
def invertedFromChildren (db : DB) (r : Rel) : List Doc → List Nat → List (Doc × List Doc)
  | [], _ => []
  | c :: rest, seen =>
    match c.fk with
    | none => invertedFromChildren db r rest seen
    | some k =>
      if seen.contains k then invertedFromChildren db r rest seen
      else match (live db r.parent).find? (fun p => p.id == k) with
        | none => invertedFromChildren db r rest (k :: seen)
        | some p => (p, children db r p) :: invertedFromChildren db r rest (k :: seen)

/-- the inverted join for a child-side request filtered through the relation: the matching parents are visited in
    index order and the children referencing each are yielded; a parent without children yields nothing and the
    walk continues -/
def invertedFromParents (db : DB) (r : Rel) (visit : List Doc) : List (Doc × Doc) :=
  visit.flatMap (fun p => (children db r p).map (fun c => (c, p)))

/-! ## Requests through the relation -/

/-- parents having a child that satisfies `q` (evaluated the direct way: per parent, over its children) -/
def parentsWith (db : DB) (r : Rel) (q : Doc → Bool) : List Doc :=
  (live db r.parent).filter (fun p => (children db r p).any q)

/-- children whose parent satisfies `q` -/
def childrenWith (db : DB) (r : Rel) (q : Doc → Bool) : List Doc :=
  (live db r.child).filter (fun c => match parentOf db r c with
    | some p => q p
    | none => false)

def sumX (l : List Doc) : Int := (l.map (fun d => d.x.getD 0)).sum

/-! ## One-to-one links: local writes -/

inductive Op where
  | create (d : Doc)
  | setFk (id : Nat) (fk : Option Nat)
  | setX (id : Nat) (x : Option Int)
  | delete (id : Nat)
deriving Repr

/-- is the link `k` already held by a live document of collection `col` other than `self`? -/
def linkTaken (db : DB) (col : Nat) (self : Nat) (k : Nat) : Bool :=
  (live db col).any (fun d => d.id != self && d.fk == some k)

/-- `oneToOne col = true`: the collection's foreign key is one side of a one-to-one relation -/
def step (oneToOne : Nat → Bool) (db : DB) : Op → DB × Bool
  | .create d =>
    if db.any (fun e => e.id == d.id) then (db, false)   -- a document with this identifier exists
    else match d.fk with
    | some k => if oneToOne d.col && linkTaken db d.col d.id k then (db, false) else (db ++ [d], true)
    | none => (db ++ [d], true)
  | .setFk id fk =>
    match db.find? (fun d => d.id == id && !d.deleted) with
    | none => (db, false)
    | some d =>
      match fk with
      | some k => if oneToOne d.col && linkTaken db d.col id k then (db, false)
                  else (db.map (fun e => if e.id == id then { e with fk := some k } else e), true)
      | none => (db.map (fun e => if e.id == id then { e with fk := none } else e), true)
  | .setX id x =>
    match db.find? (fun d => d.id == id && !d.deleted) with
    | none => (db, false)
    | some _ => (db.map (fun e => if e.id == id then { e with x := x } else e), true)
  | .delete id =>
    match db.find? (fun d => d.id == id && !d.deleted) with
    | none => (db, false)
    | some _ => (db.map (fun e => if e.id == id then { e with deleted := true } else e), true)

def run (oneToOne : Nat → Bool) (ops : List Op) : DB := ops.foldl (fun db op => (step oneToOne db op).1) []

/-- no link of a one-to-one collection is held by two live documents -/
def Unique (db : DB) (col : Nat) : Prop :=
  ∀ a ∈ live db col, ∀ b ∈ live db col, ∀ k, a.fk = some k → b.fk = some k → a.id = b.id

end Defra.Relation
