/-
Mirror of the exporter and the importer of /repo/internal/db/backup.go for one self-referencing collection
(`type Emp { boss: Emp @primary, minion: Emp }`), statement by statement: the loop over the documents in key order,
the `keyChangeCache`, the recomputation of the identifier of a referenced document from its content WITHOUT its own
reference, the self-reference handling, `_docIDNew`; and `basicImport`'s self-reference detection.
Identifiers are symbolic: the hash of (content, foreign key) is the list `content :: foreign key`, which is injective,
so two identifiers are equal in the model exactly when a collision-free hash makes them equal.
`drv backup` runs this on the reference graphs of the generated databases and the harness compares equality patterns.
Core-only.
-/
namespace Defra.Backup.Export

abbrev Id := List Nat

/-- identifier of a document with content `c` and foreign key `fk` -/
def h (c : Nat) : Option Id → Id
  | none => [c]
  | some i => c :: i

/-- a stored document: the identifier it was created with, its current content, its current foreign key -/
structure Emp where
  id : Id
  content : Nat
  boss : Option Id
  deriving Repr, DecidableEq

/-- a record of the export file -/
structure Rec where
  old : Id          -- _docID
  content : Nat
  fk : Option Id    -- boss_id as written
  new : Id          -- _docIDNew
  deriving Repr, DecidableEq

abbrev Cache := List (Id × Id)

def cacheGet (c : Cache) (k : Id) : Option Id := (c.find? (fun p => p.1 == k)).map (·.2)
def cacheSet (c : Cache) (k v : Id) : Cache := (k, v) :: c

/-- `foreignCol.Get`: the live document with that identifier -/
def find (store : List Emp) (k : Id) : Option Emp := store.find? (fun e => e.id == k)

/-- the foreign-key block of `basicExport`: the foreign key to write (before the self-reference fix-up), whether the
    document references itself, and the cache afterwards -/
def resolve (store : List Emp) (cache : Cache) (d : Emp) : Option Id × Bool × Cache :=
  match d.boss with
  | none => (none, false, cache)
  | some fk =>
    match cacheGet cache fk with
    | some nk => (some nk, fk == d.id, cache)
    | none =>
      match find store fk with
      | none => (none, false, cache)          -- the referenced document cannot be read: the key is set to nil
      | some t =>
        let nf := h t.content none            -- the referenced document re-created without its own reference
        (if t.id == d.id then some fk else some nf, t.id == d.id,
         if nf != t.id then cacheSet cache t.id nf else cache)

def recOf (d : Emp) (fk : Option Id) (self : Bool) : Rec :=
  let newId := h d.content (if self then none else fk)
  ⟨d.id, d.content, if self then some newId else fk, newId⟩

def exportStep (store : List Emp) (st : Cache × List Rec) (d : Emp) : Cache × List Rec :=
  let r := resolve store st.1 d
  let rec_ := recOf d r.1 r.2.1
  (if rec_.new != d.id then cacheSet r.2.2 d.id rec_.new else r.2.2, st.2 ++ [rec_])

/-- `basicExport` over the documents in key order -/
def exportImpl (store : List Emp) : List Rec := (store.foldl (exportStep store) ([], [])).2

/-- `basicImport` of one record: a foreign key equal to `_docIDNew` is a self reference (created without it, then
    updated) -/
def importRec (r : Rec) : Emp :=
  if r.fk == some r.new then ⟨h r.content none, r.content, r.fk⟩ else ⟨h r.content r.fk, r.content, r.fk⟩

def importImpl (file : List Rec) : List Emp := file.map importRec

/-- the new identifier recorded for the document that had identifier `k` -/
def newOf (file : List Rec) (k : Id) : Option Id := (file.find? (fun r => r.old == k)).map (·.new)

/-- what the foreign key of `d` has to be in the file: the recorded new identifier of the live document it references -/
def expectedFk (store : List Emp) (file : List Rec) (d : Emp) : Option Id :=
  d.boss.bind (fun fk => if (find store fk).isSome then newOf file fk else none)

/-- **the round trip reproduces the data**: one record per document with its content, every foreign key is the recorded
    new identifier of the document it referenced, and the importer gives every record the identifier recorded for it -/
def roundTripOk (store : List Emp) : Bool :=
  let file := exportImpl store
  file.length == store.length &&
  (store.zip file).all (fun p =>
    p.2.old == p.1.id && p.2.content == p.1.content && p.2.fk == expectedFk store file p.1 &&
    (importRec p.2).id == p.2.new && (importRec p.2).boss == p.2.fk)

/-- **no chain of three**: the document referenced by another document references nothing but itself (or a document
    that cannot be read) -/
def noChain (store : List Emp) : Bool :=
  store.all (fun d =>
    match d.boss with
    | none => true
    | some fk => fk == d.id ||
      match find store fk with
      | none => true
      | some t =>
        match t.boss with
        | none => true
        | some g => g == t.id || (find store g).isNone)

end Defra.Backup.Export
