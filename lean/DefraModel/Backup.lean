/-
Model of export / import (/repo/internal/db/backup.go) for the two things that can go wrong:
(1) numbers: the file holds decimal integers; an importer that decodes them through IEEE double (`roundF64`)
    alters integers beyond 2^53, one that keeps the digits does not;
(2) identifiers: a document's identifier is a hash of its content INCLUDING the identifiers of the documents it
    references, so after any change the identifiers of all (transitive) referrers change; the exporter records
    for every document its new identifier and rewrites foreign keys to the new identifiers of their targets.
Core-only.
-/
namespace Defra.Backup

/-- round an integer to the nearest IEEE double (ties to even) and back: identity up to 53 bits -/
def roundF64 (n : Int) : Int :=
  let m := n.natAbs
  let bits := Nat.log2 m + 1
  if bits ≤ 53 then n
  else
    let sh := bits - 53
    let q := m / 2 ^ sh
    let rem := m % 2 ^ sh
    let half := 2 ^ (sh - 1)
    let q' := if rem > half ∨ (rem = half ∧ q % 2 = 1) then q + 1 else q
    let r : Int := (q' * 2 ^ sh : Nat)
    if n < 0 then -r else r

/-- a document: its own content and an optional reference to an EARLIER document of the list (acyclic graphs) -/
structure D where
  content : Nat
  ref : Option Nat
  deriving Repr, DecidableEq

/-- identifiers of all documents, given the hash of (content, identifier of the referenced document) -/
def ids {ι : Type} (H : Nat → Option ι → ι) : List D → List ι
  | [] => []
  | ds =>
    ds.foldl (fun acc d => acc ++ [H d.content (d.ref.bind (fun j => acc[j]?))]) []

/-- what the exporter is meant to write for document `d`: its content and the NEW identifier of its target -/
def exportSpec {ι : Type} (H : Nat → Option ι → ι) (docs : List D) : List (Nat × Option ι × ι) :=
  let new := ids H docs
  (docs.zip new).map (fun (d, nid) => (d.content, d.ref.bind (fun j => new[j]?), nid))

/-- the exporter as it is in the repository: the new identifier of the TARGET is recomputed from the target's
    content alone, without the target's own reference -/
def exportPinned {ι : Type} (H : Nat → Option ι → ι) (docs : List D) : List (Nat × Option ι × ι) :=
  let new := ids H docs
  (docs.zip new).map (fun (d, nid) =>
    (d.content, d.ref.bind (fun j => (docs[j]?).map (fun t => H t.content none)), nid))

/-- the importer: every record is created from its content and the foreign key written in the file;
    returns the identifiers the imported documents get -/
def importIds {ι : Type} (H : Nat → Option ι → ι) (file : List (Nat × Option ι × ι)) : List ι :=
  file.map (fun (c, fk, _) => H c fk)

/-- the identifiers recorded in the file (`_docIDNew`) -/
def recordedIds {ι : Type} (file : List (Nat × Option ι × ι)) : List ι := file.map (fun (_, _, nid) => nid)

end Defra.Backup
