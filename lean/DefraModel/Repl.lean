/-!
# Model of replication with retries (C15)

Mirrors the bookkeeping of `net/p2p_replicator.go`: `handleLog`/`pushLogToReplicators` push every update of a
replicated collection to the replicator; a failed push runs `handleReplicatorFailure` (replicator status inactive,
a retry record for the peer unless one exists, a marker for the document); a retry round (`retryReplicators` →
`retryReplicator`) marks the record as retrying, pushes the heads of every marked document in turn, stops at the
first failure (`handleCompletedReplicatorRetry false`: not retrying any more, next retry later) and, when all went
through, deletes the markers and the record and sets the status active. A push of a document's head lets the
receiver fetch the whole DAG behind it (`syncDAG`), so one successful push brings the receiver up to date for that
document.

Documents are numbered; a node's copy of a document is the number of writes it has seen.
-/
namespace Defra.Repl

structure St where
  /-- writes made on A per document -/
  a : List (Nat × Nat) := []
  /-- writes B has received per document -/
  b : List (Nat × Nat) := []
  bUp : Bool := true
  /-- A has a replicator entry for B -/
  hasRep : Bool := true
  record : Bool := false
  retrying : Bool := false
  owed : List Nat := []
  active : Bool := true
deriving Repr, DecidableEq

def ver (m : List (Nat × Nat)) (d : Nat) : Nat := ((m.find? (·.1 == d)).map (·.2)).getD 0

def setVer (m : List (Nat × Nat)) (d v : Nat) : List (Nat × Nat) := (d, v) :: m.filter (·.1 != d)

inductive Ev where
  | write (d : Nat)
  | down
  | up
  | retry
deriving Repr, DecidableEq

/-- push of document `d`'s heads to B -/
def push (s : St) (d : Nat) : St :=
  if s.bUp then { s with b := setVer s.b d (ver s.a d) }
  else { s with active := false, record := true, owed := if s.owed.contains d then s.owed else s.owed ++ [d] }

def step (s : St) : Ev → St
  | .write d =>
    let s := { s with a := setVer s.a d (ver s.a d + 1) }
    if s.hasRep then push s d else s
  | .down => { s with bUp := false }
  | .up => { s with bUp := true }
  | .retry =>
    if s.hasRep && s.record && !s.retrying then
      if s.bUp then
        -- every marked document is pushed, the markers and the record are deleted
        { s with b := s.owed.foldl (fun b d => setVer b d (ver s.a d)) s.b, owed := [], record := false, active := true }
      else s   -- the first push fails: the round ends, the record stays, not retrying
    else s

def run (evs : List Ev) : St := evs.foldl step {}

/-- B holds what A holds -/
def Synced (s : St) : Prop := ∀ d, ver s.b d = ver s.a d

/-- the safety invariant: whatever B lacks is marked as owed under a live retry record -/
def Inv (s : St) : Prop :=
  s.hasRep = true ∧ s.retrying = false ∧
  (∀ d, ver s.b d ≠ ver s.a d → d ∈ s.owed) ∧ (s.owed ≠ [] → s.record = true)

end Defra.Repl
