/-
Model of DefraDB's query evaluation over one collection:
  internal/connor (filter operators `_eq _ne _gt _ge _lt _le _in _nin _and _or _not`, incl. their null rules),
  internal/db/base/compare.go (`Compare`, nil least), internal/planner/values.go (`docValueLess` under
  `sort.Stable`), limit.go (row counter), count.go / sum.go / average.go / min.go / max.go.
Floats are restricted to multiples of 1/8 of moderate size (exact in IEEE double), represented by their
numerator; strings are byte lists.  Core-only.
-/
import DefraModel.Bytes
namespace Defra.Query

inductive V where
  | null
  | bool (b : Bool)
  | int (i : Int)
  | flt (n8 : Int)          -- the float n8 / 8
  | str (s : Bytes)
  deriving DecidableEq, Repr, Inhabited

structure Doc where
  id : Nat
  fields : List (String × V)
  deriving Repr, Inhabited

def Doc.get (d : Doc) (f : String) : V := ((d.fields.find? (·.1 == f)).map (·.2)).getD .null

/-- numeric value in eighths, if numeric (`numbers.TryUpcast`) -/
def V.num8 : V → Option Int
  | .int i => some (i * 8)
  | .flt n => some n
  | _ => none

/-- `eq` on a scalar condition -/
def vEq (cond data : V) : Bool :=
  match cond, data with
  | .null, d => d == .null
  | .str a, .str b => a == b
  | .str _, _ => false
  | .bool a, .bool b => a == b
  | .bool _, _ => false
  | c, d => match c.num8, d.num8 with
    | some x, some y => x == y
    | _, _ => false

def vGt (cond data : V) : Bool :=
  match cond with
  | .null => data != .null
  | c => match c.num8, data.num8 with
    | some x, some y => y > x
    | _, _ => false

def vGe (cond data : V) : Bool :=
  match cond with
  | .null => true
  | c => match c.num8, data.num8 with
    | some x, some y => y ≥ x
    | _, _ => false

def vLt (cond data : V) : Bool :=
  match cond with
  | .null => false
  | c => match c.num8, data.num8 with
    | some x, some y => y < x
    | _, _ => false

def vLe (cond data : V) : Bool :=
  match cond with
  | .null => data == .null
  | c => match c.num8, data.num8 with
    | some x, some y => y ≤ x
    | _, _ => false

inductive F where
  | tt
  | eq (f : String) (v : V)
  | ne (f : String) (v : V)
  | gt (f : String) (v : V)
  | ge (f : String) (v : V)
  | lt (f : String) (v : V)
  | le (f : String) (v : V)
  | inn (f : String) (vs : List V)
  | nin (f : String) (vs : List V)
  /-- `_like` family: `mode` 0 = equal, 1 = contains (`%x%`), 2 = ends with (`%x`), 3 = starts with (`x%`);
      `neg` for `_nlike/_nilike`, `ci` for the case-insensitive variants -/
  | like (f : String) (mode : Nat) (pat : Bytes) (neg ci : Bool)
  | and (a b : F)
  | or (a b : F)
  | not (a : F)
  deriving Repr, Inhabited

def lowerAscii (b : Bytes) : Bytes := b.map (fun c => if 65 ≤ c ∧ c ≤ 90 then c + 32 else c)

def isInfix (p : Bytes) : Bytes → Bool
  | [] => p.isEmpty
  | x :: xs => Bytes.isPrefix p (x :: xs) || isInfix p xs

def likeMatch (mode : Nat) (pat d : Bytes) : Bool :=
  match mode with
  | 1 => isInfix pat d
  | 2 => Bytes.isPrefix pat.reverse d.reverse
  | 3 => Bytes.isPrefix pat d
  | _ => pat == d

def F.matches : F → Doc → Bool
  | .tt, _ => true
  | .eq f v, d => vEq v (d.get f)
  | .ne f v, d => !vEq v (d.get f)
  | .gt f v, d => vGt v (d.get f)
  | .ge f v, d => vGe v (d.get f)
  | .lt f v, d => vLt v (d.get f)
  | .le f v, d => vLe v (d.get f)
  | .inn f vs, d => vs.any (fun v => vEq v (d.get f))
  | .nin f vs, d => !(vs.any (fun v => vEq v (d.get f)))
  | .like f mode pat neg ci, d =>
    let m := match d.get f with
      | .str s => if ci then likeMatch mode (lowerAscii pat) (lowerAscii s) else likeMatch mode pat s
      | _ => false
    if neg then !m else m
  | .and a b, d => a.matches d && b.matches d
  | .or a b, d => a.matches d || b.matches d
  | .not a, d => !a.matches d

/-- kind of a value: nil, bool, number, string. The fields of a collection are typed, so two values of one
    field have the same kind or one is nil. -/
def V.tag : V → Nat
  | .null => 0
  | .bool _ => 1
  | .int _ => 2
  | .flt _ => 2
  | .str _ => 3

def intCmp (p q : Int) : Int := if p < q then -1 else if p > q then 1 else 0

/-- `base.Compare`: -1 / 0 / 1, nil least; values of one field have one kind (for two non-nil values of
    different kinds, which typed fields never produce and on which the Go type assertion would panic, the
    model orders by kind so that the comparison is total) -/
def vCompare (a b : V) : Int :=
  if a.tag < b.tag then -1
  else if a.tag > b.tag then 1
  else match a, b with
    | .bool x, .bool y => intCmp (if x then 1 else 0) (if y then 1 else 0)
    | .str x, .str y => Bytes.cmp x y
    | x, y => intCmp (x.num8.getD 0) (y.num8.getD 0)

structure OrderKey where
  field : String
  desc : Bool
  deriving Repr

/-- `docValueLess` as it is in the repository: the FIRST ordering key decides, ties included -/
def lessPinned (keys : List OrderKey) (a b : Doc) : Bool :=
  match keys with
  | [] => false
  | k :: _ =>
    let c := vCompare (a.get k.field) (b.get k.field)
    if k.desc then c > 0 else c < 0

/-- the documented ordering: the first key decides and ties are broken by each following key -/
def lessLex : List OrderKey → Doc → Doc → Bool
  | [], _, _ => false
  | k :: rest, a, b =>
    let c := vCompare (a.get k.field) (b.get k.field)
    if c == 0 then lessLex rest a b
    else if k.desc then c > 0 else c < 0

/-- `sort.Stable` with comparator `less` -/
def stableSort (less : Doc → Doc → Bool) (l : List Doc) : List Doc :=
  l.mergeSort (fun a b => !less b a)

/-- `limitNode`: skip `offset` rows, then pass `limit` rows (0 = unlimited) -/
def limitOffset (limit offset : Nat) (l : List Doc) : List Doc :=
  let l := l.drop offset
  if limit == 0 then l else l.take limit

inductive Sel where
  | docs
  | count
  | sum (f : String)
  | avg (f : String)
  /-- `_sum` / `_avg` over two sources: field `f` of the selected documents and field `g` (`v`: Int, `w`: Float) of the
      second collection -/
  | sum2 (f g : String)
  | avg2 (f g : String)
  | min (f : String)
  | max (f : String)
  deriving Repr

structure Q where
  filter : F := .tt
  order : List OrderKey := []
  limit : Nat := 0
  offset : Nat := 0
  sel : Sel := .docs

/-- filter → order → limit/offset, with the comparator as a parameter -/
def pipeline (less : List OrderKey → Doc → Doc → Bool) (q : Q) (docs : List Doc) : List Doc :=
  let l := docs.filter q.filter.matches
  let l := if q.order.isEmpty then l else stableSort (less q.order) l
  limitOffset q.limit q.offset l

/-- result of an aggregate: value in eighths with a float flag, or null -/
inductive AggRes where
  | docs (ids : List Nat)
  | int (i : Int)
  | num8 (n : Int)
  | ratio (sum8 : Int) (count : Nat)   -- average = sum8 / 8 / count
  | null
  deriving Repr, DecidableEq

def isFloatField (f : String) : Bool := f == "score"

/-- the values (in eighths) of the second source: its Int field `v` (absent values skipped) or its Float field `w` -/
def auxVals (aux : List (Option Int × Int)) (g : String) : List Int :=
  if g == "w" then aux.map (·.2) else aux.filterMap (fun a => a.1.map (· * 8))

/-- an aggregate over two sources: the arithmetic over all values; a float as soon as one source is a float -/
def aggregate2 (sel : Sel) (l : List Doc) (aux : List (Option Int × Int)) : Option AggRes :=
  match sel with
  | .sum2 f g =>
    let s := ((l.filterMap (fun d => (d.get f).num8)) ++ auxVals aux g).foldl (· + ·) 0
    some (if isFloatField f || g == "w" then .num8 s else .int (s / 8))
  | .avg2 f g =>
    let vs := (l.filterMap (fun d => (d.get f).num8)) ++ auxVals aux g
    some (if vs.isEmpty then .ratio 0 1 else .ratio (vs.foldl (· + ·) 0) vs.length)
  | _ => none

def aggregate (sel : Sel) (l : List Doc) : AggRes :=
  match sel with
  | .sum2 _ _ => .null
  | .avg2 _ _ => .null
  | .docs => .docs (l.map (·.id))
  | .count => .int l.length
  | .sum f =>
    let s := (l.filterMap (fun d => (d.get f).num8)).foldl (· + ·) 0
    if isFloatField f then .num8 s else .int (s / 8)
  | .avg f =>
    let vs := l.filterMap (fun d => (d.get f).num8)
    if vs.isEmpty then .ratio 0 1 else .ratio (vs.foldl (· + ·) 0) vs.length
  | .min f =>
    match l.filterMap (fun d => (d.get f).num8) with
    | [] => .null
    | v :: vs => let m := vs.foldl (fun a b => if b < a then b else a) v
                 if isFloatField f then .num8 m else .int (m / 8)
  | .max f =>
    match l.filterMap (fun d => (d.get f).num8) with
    | [] => .null
    | v :: vs => let m := vs.foldl (fun a b => if b > a then b else a) v
                 if isFloatField f then .num8 m else .int (m / 8)

/-- `_avg` skips nil items: its document list is selected with the additional condition "field is not nil"
    BEFORE limit/offset are applied (mapper.appendUnderlyingAggregates) -/
def effective (q : Q) : Q :=
  match q.sel with
  | .avg f => { q with filter := .and q.filter (.ne f .null) }
  | _ => q

/-- aggregates over the groups of `groupBy: [flag]`, several in one request, each with its own filter on the group:
    per group (key, count age > a, count a < age < b, count age > a with name ≠ "a", sum age > a, sum a < age < b) -/
def groupedPair (docs : List Doc) (a b : Int) : List (V × Nat × Nat × Nat × Int × Int) :=
  let keys := (docs.map (fun d => d.get "flag")).eraseDups
  keys.map (fun k =>
    let g := docs.filter (fun d => d.get "flag" == k)
    let ageOf (d : Doc) : Option Int := match d.get "age" with | .int i => some i | _ => none
    let wide := g.filter (fun d => match ageOf d with | some i => decide (i > a) | none => false)
    let narrow := wide.filter (fun d => match ageOf d with | some i => decide (i < b) | none => false)
    let named := wide.filter (fun d => d.get "name" != .str [0x61])
    let sumAge (l : List Doc) : Int := (l.filterMap ageOf).foldl (· + ·) 0
    (k, wide.length, narrow.length, named.length, sumAge wide, sumAge narrow))

def evalPinned (q : Q) (docs : List Doc) : AggRes := aggregate q.sel (pipeline lessPinned (effective q) docs)
def evalSpec (q : Q) (docs : List Doc) : AggRes := aggregate q.sel (pipeline lessLex (effective q) docs)

end Defra.Query
