/-
Grouping by several fields (`groupBy: [f1, f2, ...]` with `_count(_group: {})`), as
/repo/internal/planner/group.go + arbitrary_join.go do it: the documents are visited in order, each joins the group
of its tuple of values (a new group at the end when the tuple is new).  Two tuples are the same group exactly when
they are equal value by value — the implementation reaches that through a string key, which must therefore be
injective (repaired defect 0a88df2).  Core-only.
-/
import DefraModel.Query.Model
namespace Defra.Query

def tupleOf (fs : List String) (d : Doc) : List V := fs.map d.get

/-- the document joins the group of its tuple -/
def bump (t : List V) : List (List V × Nat) → List (List V × Nat)
  | [] => [(t, 1)]
  | (k, c) :: rest => if k = t then (k, c + 1) :: rest else (k, c) :: bump t rest

/-- the groups with their sizes, in order of first appearance -/
def groupCounts (fs : List String) (docs : List Doc) : List (List V × Nat) :=
  docs.foldl (fun acc d => bump (tupleOf fs d) acc) []

end Defra.Query
