/-!
# Model of document access control (C10)

Mirrors the decision `internal/db/permission/check.go` takes for a policy whose resource grants
`read = owner + reader + updater + deleter`, `update = owner + updater`, `delete = owner + deleter`
(the harness's policy), and the places where the code applies it:

* every document fetch goes through the permissioned fetcher (`internal/db/fetcher/wrapper.go`,
  `permissioned.go`): the primary scan, the index-backed fetch (entries exist for every document, each fetched
  document is checked), by-identifier reads, both directions of a join (each side has its own fetcher), the
  versioned fetcher of time-travel reads;
* the commit-history scan checks the document each commit belongs to (`internal/planner/commit.go`);
* `update`, `delete` check the respective permission before writing (`internal/db/collection.go`,
  `collection_delete.go`).

Each access path is written out with its own check, not as a function of a pre-filtered list; that they all equal
the same path run on a database that never contained the unreadable documents is the theorem.
-/
namespace Defra.Acp

inductive Who where
  | owner
  | actor (n : Nat)
  | anon
deriving Repr, DecidableEq

inductive Rel where
  | reader | updater | deleter
deriving Repr, DecidableEq

inductive Target where
  | actor (n : Nat)
  | all
deriving Repr, DecidableEq

structure Doc where
  label : String
  /-- 0 = Author, 1 = Book, 2 = Note (branchable) -/
  col : Nat
  /-- registered with the access control system (created with an identity); otherwise public -/
  registered : Bool
  deleted : Bool := false
  /-- the indexed field's value -/
  name : String := ""
  /-- a Book's author -/
  parent : Option String := none
  grants : List (Target × Rel) := []
deriving Repr, DecidableEq

abbrev DB := List Doc

/-- does `w` hold relation `r` on `d` (directly or through a grant to everybody)? -/
def holds (d : Doc) (w : Who) (r : Rel) : Bool :=
  (match w with
    | .actor n => d.grants.contains (.actor n, r)
    | _ => false) || d.grants.contains (.all, r)

def canRead (w : Who) (d : Doc) : Bool :=
  !d.registered || w == .owner || holds d w .reader || holds d w .updater || holds d w .deleter

def canUpdate (w : Who) (d : Doc) : Bool :=
  !d.registered || w == .owner || holds d w .updater

def canDelete (w : Who) (d : Doc) : Bool :=
  !d.registered || w == .owner || holds d w .deleter

/-- the database that never contained the documents `w` cannot read -/
def restrict (w : Who) (db : DB) : DB := db.filter (canRead w)

/-! ## Access paths, each with the check where the code has it -/

/-- primary scan: every live document of the collection is fetched, then checked -/
def scan (w : Who) (db : DB) (col : Nat) : List String :=
  (db.filter (fun d => d.col == col && !d.deleted && canRead w d)).map (·.label)

/-- scan including deleted documents (`showDeleted`) -/
def scanAll (w : Who) (db : DB) (col : Nat) : List String :=
  (db.filter (fun d => d.col == col && canRead w d)).map (·.label)

/-- index entries exist for every live document, whoever may read it -/
def indexEntries (db : DB) (v : String) : List Doc :=
  db.filter (fun d => d.col == 0 && !d.deleted && d.name == v)

/-- index-backed lookup: the documents the entries point to are fetched through the permissioned fetcher -/
def indexLookup (w : Who) (db : DB) (v : String) : List String :=
  ((indexEntries db v).filter (canRead w)).map (·.label)

def byId (w : Who) (db : DB) (l : String) : List String :=
  ((db.filter (fun d => d.label == l && !d.deleted)).filter (canRead w)).map (·.label)

/-- time travel to the latest commit of document `l`: the rebuilt state (empty for a deleted document) is read
    through the permissioned fetcher -/
def timeTravel (w : Who) (db : DB) (l : String) : List String :=
  ((db.filter (fun d => d.label == l && !d.deleted)).filter (canRead w)).map (·.label)

/-- time travel to the head commit of a branchable collection's own DAG: the state of all its documents is rebuilt
    in a scratch store and read through the permissioned fetcher -/
def timeTravelCollection (w : Who) (db : DB) (col : Nat) : List String :=
  ((db.filter (fun d => d.col == col && !d.deleted)).filter (canRead w)).map (·.label)

/-- one-to-many from the parent side: for every readable parent, its readable children -/
def joinChildren (w : Who) (db : DB) : List (String × String) :=
  (db.filter (fun a => a.col == 0 && !a.deleted && canRead w a)).flatMap (fun a =>
    ((db.filter (fun b => b.col == 1 && !b.deleted && b.parent == some a.label)).filter (canRead w)).map
      (fun b => (a.label, b.label)))

/-- from the child side: for every readable child, its parent if readable -/
def joinParent (w : Who) (db : DB) : List (String × String) :=
  (db.filter (fun b => b.col == 1 && !b.deleted && canRead w b)).flatMap (fun b =>
    ((db.filter (fun a => a.col == 0 && !a.deleted && b.parent == some a.label)).filter (canRead w)).map
      (fun a => (b.label, a.label)))

def count (w : Who) (db : DB) (col : Nat) : Nat := (scan w db col).length

/-- commit history: one check per document the commits belong to (also of deleted documents) -/
def commits (w : Who) (db : DB) : List String :=
  (db.filter (canRead w)).map (·.label)

/-- the commit history entered at a commit of document `l` named by its cid: the commits of a document the requester
    can not read are skipped wherever the walk starts (`dagScanNode.Next`) -/
def commitsByCid (w : Who) (db : DB) (l : String) : List String :=
  ((db.filter (fun d => d.label == l)).filter (canRead w)).map (·.label)

/-! ## Mutations -/

inductive Op where
  | create (d : Doc)
  | grant (l : String) (t : Target) (r : Rel)
  | revoke (l : String) (t : Target) (r : Rel)
  | update (w : Who) (l : String) (name : Option String)
  | delete (w : Who) (l : String)
deriving Repr

def modify (db : DB) (l : String) (f : Doc → Doc) : DB :=
  db.map (fun d => if d.label == l then f d else d)

def find (db : DB) (l : String) : Option Doc := db.find? (·.label == l)

inductive Outcome where
  | ok | denied | error
deriving Repr, DecidableEq

/-- one operation: the new database and what the caller is told -/
def step (db : DB) : Op → DB × Outcome
  | .create d =>
    -- a document's identifier is a function of its initial content: a create that addresses an existing document
    -- (deleted or not, readable by the requester or not) fails and writes nothing
    if (find db d.label).isSome then (db, .error) else (db ++ [d], .ok)
  | .grant l t r =>
    match find db l with
    | some d => if d.registered then (modify db l (fun d => { d with grants := (t, r) :: d.grants.filter (· != (t, r)) }), .ok)
                else (db, .error)
    | none => (db, .error)
  | .revoke l t r =>
    match find db l with
    | some d => if d.registered then (modify db l (fun d => { d with grants := d.grants.filter (· != (t, r)) }), .ok)
                else (db, .error)
    | none => (db, .error)
  | .update w l nm =>
    match find db l with
    | some d => if !d.deleted && canUpdate w d then
                  (modify db l (fun d => { d with name := nm.getD d.name }), .ok)
                else (db, .denied)
    | none => (db, .denied)
  | .delete w l =>
    match find db l with
    | some d => if !d.deleted && canDelete w d then (modify db l (fun d => { d with deleted := true }), .ok)
                else (db, .denied)
    | none => (db, .denied)

/-- the create as it was before the repair 5526613: existence is judged through the requester's read permission, and
    a requester without identity passes the registration, so its create over a document it may not read goes on to
    write the initial content over the document's fields -/
def createPinned (w : Who) (db : DB) (d : Doc) : DB × Outcome :=
  match find db d.label with
  | some e =>
    if canRead w e then (db, .error)
    else if w == .anon then (modify db d.label (fun e => { e with name := d.name }), .ok)
    else (db, .error)
  | none => (db ++ [d], .ok)

def run (db : DB) (ops : List Op) : DB := ops.foldl (fun db op => (step db op).1) db

end Defra.Acp
