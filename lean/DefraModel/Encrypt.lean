/-!
# Model of block encryption (C11)

Mirrors `internal/core/block/store.go` (`AddDelta`, `determineBlockEncryption`, `encryptBlock`),
`internal/encryption/encryptor.go` (`shouldEncryptDocField`, `shouldEncryptIndividualField`) and the receiving
side of `internal/db/merge.go` (`processEncryptedBlock`, `processBlock`): which blocks of a document carry an
encryption link, which key block the link names, and which blocks a receiver can read.

A block's delta data is not modelled as bytes: a field block written by operation number `op` for field `f`
carries the secret `(op, f)`, in clear when the block has no encryption link and as ciphertext under the linked
key otherwise. Composite blocks carry no field data (`encryptBlock` leaves them alone).
-/
namespace Defra.Encrypt

abbrev FName := String

/-- `encryption.DocEncConfig` -/
structure Cfg where
  isDoc : Bool
  fields : List FName
deriving Repr, DecidableEq

/-- `shouldEncryptIndividualField` -/
def individual (c : Option Cfg) (f : Option FName) : Bool :=
  match c, f with
  | some c, some f => c.fields.contains f
  | _, _ => false

/-- `shouldEncryptDocField` -/
def should (c : Option Cfg) (f : Option FName) : Bool :=
  match c with
  | none => false
  | some c => c.isDoc || (match f with
      | some f => c.fields.contains f
      | none => false)

/-- an encryption-key block in the key store: its identity and its `FieldName` -/
structure Key where
  id : Nat
  field : Option FName
deriving Repr, DecidableEq

/-- a block in the shared blockstore; `field = none` is the composite -/
structure Blk where
  field : Option FName
  op : Nat
  enc : Option Key
  remote : Bool
deriving Repr, DecidableEq

/-- the secret a block exposes to anyone reading the shared store -/
def Blk.plain (b : Blk) : Option (Nat × FName) :=
  match b.field, b.enc with
  | some f, none => some (b.op, f)
  | _, _ => none

structure St where
  blocks : List Blk := []
  encs : List Key := []
  /-- heads of the composite DAG -/
  cheads : List Blk := []
  /-- heads of each field DAG -/
  fheads : List (FName × List Blk) := []
  nextKey : Nat := 0
  nextOp : Nat := 0
deriving Repr

def St.headsOf (s : St) (f : Option FName) : List Blk :=
  match f with
  | none => s.cheads
  | some f => ((s.fheads.find? (·.1 == f)).map (·.2)).getD []

def setHeads (fh : List (FName × List Blk)) (f : FName) (hs : List Blk) : List (FName × List Blk) :=
  (f, hs) :: fh.filter (fun p => !(p.1 == f))

def St.withHeads (s : St) (f : Option FName) (hs : List Blk) : St :=
  match f with
  | none => { s with cheads := hs }
  | some f => { s with fheads := setHeads s.fheads f hs }

/-- the link of the first head that has one (the loop over `heads` in `determineBlockEncryption`) -/
def firstEnc (hs : List Blk) : Option Key :=
  match hs with
  | [] => none
  | h :: t => match h.enc with
    | some k => some k
    | none => firstEnc t

/-- the document-level link of the first composite head that has one -/
def firstDocEnc (hs : List Blk) : Option Key :=
  match hs with
  | [] => none
  | h :: t => match h.enc with
    | some k => if k.field.isNone then some k else firstDocEnc t
    | none => firstDocEnc t

/-- `determineBlockEncryption`: the key block to link, and whether it is a fresh one.
    New encryption when the request context asks for it; otherwise the encryption of a previous head of the same
    DAG; otherwise, for a field DAG without heads that has one, the document-level encryption of the composite. -/
def determine (s : St) (ctx : Option Cfg) (f : Option FName) : Option Key × Bool :=
  if should ctx f then
    (some ⟨s.nextKey, if individual ctx f then f else none⟩, true)
  else match firstEnc (s.headsOf f) with
    | some k => (some k, false)
    | none =>
      match f with
      | some _ => (match firstDocEnc s.cheads with
          | some k => (some k, false)
          | none => (none, false))
      | none => (none, false)

/-- `AddDelta` for one DAG of the document in the current operation -/
def addDelta (s : St) (ctx : Option Cfg) (f : Option FName) : St :=
  let (k, fresh) := determine s ctx f
  let b : Blk := ⟨f, s.nextOp, k, false⟩
  let s := { s with blocks := s.blocks ++ [b] }
  let s := match k, fresh with
    | some k, true => { s with encs := s.encs ++ [k], nextKey := s.nextKey + 1 }
    | _, _ => s
  s.withHeads f [b]

/-- a save: one field block per written field, then the composite -/
def save (s : St) (ctx : Option Cfg) (fs : List FName) : St :=
  let s := fs.foldl (fun s f => addDelta s ctx (some f)) s
  let s := addDelta s ctx none
  { s with nextOp := s.nextOp + 1 }

inductive Op where
  | update (fs : List FName)
  | delete
  /-- the same document created without encryption elsewhere arrives: concurrent plain heads -/
  | twin (fs : List FName)
deriving Repr

def mergeTwinField (s : St) (f : FName) : St :=
  let b : Blk := ⟨some f, 0, none, true⟩
  { s with blocks := s.blocks ++ [b], fheads := setHeads s.fheads f (s.headsOf (some f) ++ [b]) }

def mergeTwin (s : St) (fs : List FName) : St :=
  let s := fs.foldl mergeTwinField s
  let b : Blk := ⟨none, 0, none, true⟩
  { s with blocks := s.blocks ++ [b], cheads := s.cheads ++ [b] }

def step (s : St) : Op → St
  | .update fs => save s none fs
  | .delete => save s none []
  | .twin fs => mergeTwin s fs

/-- a document created with configuration `cfg` and fields `fs`, followed by a history -/
def create (cfg : Option Cfg) (fs : List FName) : St := save {} cfg fs

def run (cfg : Option Cfg) (fs : List FName) (ops : List Op) : St := ops.foldl step (create cfg fs)

/-- the fields the property calls encrypted for a document created with `cfg` -/
def encryptedField (cfg : Option Cfg) (f : FName) : Bool :=
  match cfg with
  | none => false
  | some c => c.isDoc || c.fields.contains f

/-! ## Receiver (`processEncryptedBlock` / `processBlock`) -/

/-- can a node holding the key blocks `keys` read block `b`? -/
def canRead (keys : List Key) (b : Blk) : Bool :=
  match b.enc with
  | none => true
  | some k => keys.contains k

/-- the secrets a receiver writes to its own datastore when merging `blocks`: those of the field blocks it can read.
    A keyless receiver (`keys = []`) can decrypt nothing, so everything it stores comes from clear blocks. -/
def stored (keys : List Key) (blocks : List Blk) : List (Nat × FName) :=
  blocks.filterMap (fun b => match b.field with
    | some f => if canRead keys b then some (b.op, f) else none
    | none => none)

/-- the document is visible on the receiver iff it can read one of the composites -/
def docVisible (keys : List Key) (blocks : List Blk) : Bool :=
  blocks.any (fun b => b.field.isNone && canRead keys b)

/-! ## The cipher, abstractly -/

/-- What is assumed of AES-GCM (`crypto/aes.go`): decryption with the same key inverts encryption. -/
structure Cipher (K P C : Type) where
  enc : K → P → C
  dec : K → C → Option P
  sound : ∀ k p, dec k (enc k p) = some p

/-- `encryptBlock` then `decryptBlock` -/
def roundTrip {K P C} (c : Cipher K P C) (k : K) (p : P) : Option P := c.dec k (c.enc k p)

end Defra.Encrypt
