import DefraModel.Query.Model
import DefraModel.Proofs.BytesLemmas
namespace Defra.Query
open Defra.Bytes

/-- a three-way comparison that is a total preorder -/
structure CmpLaws {α : Type} (c : α → α → Int) : Prop where
  antisymm : ∀ a b, c a b = - c b a
  trans : ∀ a b d, c a b ≤ 0 → c b d ≤ 0 → c a d ≤ 0

theorem CmpLaws.refl {α : Type} {c : α → α → Int} (h : CmpLaws c) (a : α) : c a a = 0 := by
  have := h.antisymm a a; omega

/-- a strict step followed by a weak one is strict -/
theorem CmpLaws.lt_of_lt_of_le {α : Type} {c : α → α → Int} (h : CmpLaws c) (a b d : α)
    (h1 : c a b < 0) (h2 : c b d ≤ 0) : c a d < 0 := by
  have hle := h.trans a b d (by omega) h2
  by_cases he : c a d = 0
  · -- then d ≤ a, so b ≤ d ≤ a, contradiction with a < b
    have hda : c d a ≤ 0 := by have := h.antisymm d a; omega
    have hba := h.trans b d a h2 hda
    have := h.antisymm a b
    omega
  · omega

theorem CmpLaws.lt_of_le_of_lt {α : Type} {c : α → α → Int} (h : CmpLaws c) (a b d : α)
    (h1 : c a b ≤ 0) (h2 : c b d < 0) : c a d < 0 := by
  have hle := h.trans a b d h1 (by omega)
  by_cases he : c a d = 0
  · have hda : c d a ≤ 0 := by have := h.antisymm d a; omega
    have hdb := h.trans d a b hda h1
    have := h.antisymm b d
    omega
  · omega

theorem intCmp_laws : CmpLaws intCmp := by
  constructor
  · intro a b; unfold intCmp; split <;> split <;> omega
  · intro a b d; unfold intCmp; repeat' split
    all_goals omega

theorem bytesCmp_le (a b : Bytes) : Bytes.cmp a b ≤ 0 ↔ Bytes.lt b a = false := by
  unfold Bytes.cmp
  cases hab : Bytes.lt a b <;> cases hba : Bytes.lt b a <;> simp
  have := lt_asymm a b hab; rw [hba] at this; cases this

theorem bytesCmp_laws : CmpLaws Bytes.cmp := by
  constructor
  · intro a b
    unfold Bytes.cmp
    cases hab : Bytes.lt a b <;> cases hba : Bytes.lt b a <;> simp
    have := lt_asymm a b hab; rw [hba] at this; cases this
  · intro a b d h1 h2
    rw [bytesCmp_le] at *
    cases hda : Bytes.lt d a
    · rfl
    · exfalso
      by_cases hab : a = b
      · subst hab; rw [hda] at h2; cases h2
      · rcases lt_total a b hab with h | h
        · have := lt_trans d a b hda h; rw [this] at h2; cases h2
        · rw [h] at h1; cases h1

/-- `vCompare` is a total preorder on values -/
theorem vCompare_laws : CmpLaws vCompare := by
  constructor
  · intro a b
    unfold vCompare
    by_cases h1 : a.tag < b.tag
    · have : ¬ b.tag < a.tag := by omega
      have : b.tag > a.tag := by omega
      simp [h1, *]
    · by_cases h2 : a.tag > b.tag
      · have : b.tag < a.tag := by omega
        simp [h1, h2, this]
      · have e : a.tag = b.tag := by omega
        have h3 : ¬ b.tag < a.tag := by omega
        have h4 : ¬ b.tag > a.tag := by omega
        simp only [h1, h2, h3, h4, if_false]
        cases a <;> cases b <;> simp only [V.tag] at e <;>
          first | exact intCmp_laws.antisymm _ _ | exact bytesCmp_laws.antisymm _ _ | omega
  · intro a b d h1 h2
    unfold vCompare at *
    by_cases ab : a.tag < b.tag
    · by_cases bd : b.tag < d.tag
      · have : a.tag < d.tag := by omega
        simp [this]
      · by_cases bd' : b.tag > d.tag
        · simp [bd, bd'] at h2
        · have : a.tag < d.tag := by omega
          simp [this]
    · by_cases ab' : a.tag > b.tag
      · simp [ab, ab'] at h1
      · have e1 : a.tag = b.tag := by omega
        by_cases bd : b.tag < d.tag
        · have : a.tag < d.tag := by omega
          simp [this]
        · by_cases bd' : b.tag > d.tag
          · simp [bd, bd'] at h2
          · have e2 : b.tag = d.tag := by omega
            have n1 : ¬ a.tag < d.tag := by omega
            have n2 : ¬ a.tag > d.tag := by omega
            simp only [ab, ab', bd, bd', n1, n2, if_false] at h1 h2 ⊢
            cases a <;> cases b <;> simp only [V.tag] at e1 <;> try omega
            all_goals (cases d <;> simp only [V.tag] at e2 <;> try omega)
            all_goals first
              | exact intCmp_laws.trans _ _ _ h1 h2
              | exact bytesCmp_laws.trans _ _ _ h1 h2

/-- comparison of two documents on one ordering key, normalised so that negative means "first" -/
def keyCmp (k : OrderKey) (a b : Doc) : Int :=
  let c := vCompare (a.get k.field) (b.get k.field)
  if k.desc then -c else c

theorem keyCmp_laws (k : OrderKey) : CmpLaws (keyCmp k) := by
  constructor
  · intro a b
    unfold keyCmp
    have := vCompare_laws.antisymm (a.get k.field) (b.get k.field)
    cases k.desc <;> simp <;> omega
  · intro a b d h1 h2
    unfold keyCmp at *
    cases hd : k.desc <;> simp only [hd, Bool.false_eq_true, if_false, if_true] at h1 h2 ⊢
    · exact vCompare_laws.trans _ _ _ h1 h2
    · have a1 := vCompare_laws.antisymm (a.get k.field) (b.get k.field)
      have a2 := vCompare_laws.antisymm (b.get k.field) (d.get k.field)
      have a3 := vCompare_laws.antisymm (a.get k.field) (d.get k.field)
      have := vCompare_laws.trans (d.get k.field) (b.get k.field) (a.get k.field) (by omega) (by omega)
      omega

/-- lexicographic combination of the keys: the first key with a non-zero comparison decides -/
def lexCmp : List OrderKey → Doc → Doc → Int
  | [], _, _ => 0
  | k :: rest, a, b => if keyCmp k a b = 0 then lexCmp rest a b else keyCmp k a b

theorem lexCmp_laws : ∀ (keys : List OrderKey), CmpLaws (lexCmp keys)
  | [] => ⟨fun _ _ => rfl, fun _ _ _ _ _ => by simp [lexCmp]⟩
  | k :: rest => by
    have hk := keyCmp_laws k
    have hr := lexCmp_laws rest
    constructor
    · intro a b
      simp only [lexCmp]
      have := hk.antisymm a b
      by_cases h : keyCmp k a b = 0
      · have h' : keyCmp k b a = 0 := by omega
        simp [h, h', hr.antisymm a b]
      · have h' : ¬ keyCmp k b a = 0 := by omega
        simp [h, h', this]
    · intro a b d h1 h2
      simp only [lexCmp] at *
      by_cases e1 : keyCmp k a b = 0 <;> by_cases e2 : keyCmp k b d = 0
      · have e3 : keyCmp k a d = 0 := by
          have l1 := hk.trans a b d (by omega) (by omega)
          have := hk.antisymm a b; have := hk.antisymm b d; have := hk.antisymm a d
          have l2 := hk.trans d b a (by omega) (by omega)
          omega
        simp only [e1, e2, e3, if_true] at h1 h2 ⊢
        exact hr.trans a b d h1 h2
      · simp only [e1, e2, if_true, if_false] at h1 h2 ⊢
        have lt := hk.lt_of_le_of_lt a b d (by omega) (by omega)
        have : ¬ keyCmp k a d = 0 := by omega
        simp only [this, if_false]; omega
      · simp only [e1, e2, if_true, if_false] at h1 h2 ⊢
        have lt := hk.lt_of_lt_of_le a b d (by omega) (by omega)
        have : ¬ keyCmp k a d = 0 := by omega
        simp only [this, if_false]; omega
      · simp only [e1, e2, if_false] at h1 h2 ⊢
        have lt := hk.lt_of_lt_of_le a b d (by omega) (by omega)
        have : ¬ keyCmp k a d = 0 := by omega
        simp only [this, if_false]; omega

theorem lessLex_iff (keys : List OrderKey) (a b : Doc) : lessLex keys a b = decide (lexCmp keys a b < 0) := by
  induction keys with
  | nil => simp [lessLex, lexCmp]
  | cons k rest ih =>
    simp only [lessLex, lexCmp, keyCmp]
    by_cases hd : k.desc = true
    · simp only [hd, if_true]
      by_cases h : vCompare (a.get k.field) (b.get k.field) = 0
      · simp [h, ih]
      · have : ¬ (-vCompare (a.get k.field) (b.get k.field) = 0) := by omega
        simp only [this, if_false]
        have h' : (vCompare (a.get k.field) (b.get k.field) == 0) = false := by simpa using h
        simp only [h', Bool.false_eq_true, if_false]
        congr 1; apply propext; omega
    · have hd' : k.desc = false := by simpa using hd
      simp only [hd', Bool.false_eq_true, if_false]
      by_cases h : vCompare (a.get k.field) (b.get k.field) = 0
      · simp [h, ih]
      · have h' : (vCompare (a.get k.field) (b.get k.field) == 0) = false := by simpa using h
        simp only [h, h', Bool.false_eq_true, if_false]

/-- the relation the stable sort is run with: `a` may stay before `b` -/
def leLex (keys : List OrderKey) (a b : Doc) : Bool := !lessLex keys b a

theorem leLex_iff (keys : List OrderKey) (a b : Doc) : leLex keys a b = true ↔ lexCmp keys a b ≤ 0 := by
  unfold leLex
  rw [lessLex_iff]
  have := (lexCmp_laws keys).antisymm a b
  simp; omega

theorem leLex_trans (keys : List OrderKey) (a b d : Doc) (h1 : leLex keys a b = true) (h2 : leLex keys b d = true) :
    leLex keys a d = true := by
  rw [leLex_iff] at *
  exact (lexCmp_laws keys).trans a b d h1 h2

theorem leLex_total (keys : List OrderKey) (a b : Doc) : (leLex keys a b || leLex keys b a) = true := by
  have := (lexCmp_laws keys).antisymm a b
  rw [Bool.or_eq_true, leLex_iff, leLex_iff]
  omega

end Defra.Query
