import DefraModel.Schema

/-! The data store of the schema model is a per-(document, field) maximum: helper lemmas for Props/C19.lean. -/
namespace Defra.Schema

/-- does the commit belong to register (d, f)? -/
def at_ (d : Nat) (f : Field) (c : Commit) : Bool := c.doc == d && c.field == f

/-- the better of an optional current register and a commit of the same register -/
def better (o : Option Commit) (c : Commit) : Commit :=
  match o with
  | none => c
  | some e => if le e.height e.value c.height c.value then c else e

/-- what one commit does to the register (d, f) -/
def combine (d : Nat) (f : Field) (o : Option Commit) (c : Commit) : Option Commit :=
  if at_ d f c then some (better o c) else o

theorem lookup_append_single (s : List Commit) (c : Commit) (d : Nat) (f : Field) (h : lookup s c.doc c.field = none) :
    lookup (s ++ [c]) d f = if at_ d f c then (match lookup s d f with | some e => some e | none => some c) else lookup s d f := by
  unfold lookup at *
  rw [List.find?_append]
  by_cases hc : at_ d f c = true
  · simp only [hc, if_true]
    unfold at_ at hc
    simp only [Bool.and_eq_true, beq_iff_eq] at hc
    cases hs : s.find? (fun e => e.doc == d && e.field == f) with
    | some e => simp
    | none => simp [List.find?, hc.1, hc.2]
  · simp only [hc, Bool.false_eq_true, if_false]
    cases hs : s.find? (fun e => e.doc == d && e.field == f) with
    | some e => simp
    | none =>
      unfold at_ at hc
      simp only [Option.none_or, List.find?_cons, List.find?_nil]
      split
      · rename_i h2; exact absurd h2 hc
      · rfl

theorem lookup_map_replace (s : List Commit) (c : Commit) (d : Nat) (f : Field) :
    lookup (s.map (fun x => if x.doc == c.doc && x.field == c.field then c else x)) d f =
      if at_ d f c then (lookup s d f).map (fun _ => c) else lookup s d f := by
  unfold lookup
  induction s with
  | nil => simp
  | cons x t ih =>
    simp only [List.map_cons, List.find?_cons]
    by_cases hx : (x.doc == c.doc && x.field == c.field) = true
    · simp only [hx, if_true]
      have hxe : x.doc = c.doc ∧ x.field = c.field := by simpa using hx
      by_cases hc : at_ d f c = true
      · have : (c.doc == d && c.field == f) = true := hc
        have hx2 : (x.doc == d && x.field == f) = true := by rw [hxe.1, hxe.2]; exact this
        simp [this, hx2, hc]
      · have hc' : (c.doc == d && c.field == f) = false := by simpa [at_] using hc
        have hx2 : (x.doc == d && x.field == f) = false := by rw [hxe.1, hxe.2]; exact hc'
        simp only [hc', hx2, hc, Bool.false_eq_true, if_false] at ih ⊢
        exact ih
    · simp only [hx, Bool.false_eq_true, if_false]
      by_cases hx2 : (x.doc == d && x.field == f) = true
      · simp only [hx2]
        by_cases hc : at_ d f c = true
        · -- then x would be at (c.doc, c.field): contradiction
          have : (c.doc == d && c.field == f) = true := hc
          have h1 : x.doc = d ∧ x.field = f := by simpa using hx2
          have h2 : c.doc = d ∧ c.field = f := by simpa using this
          exact absurd (by simp [h1.1, h1.2, h2.1, h2.2]) hx
        · simp [hc]
      · simp only [hx2, Bool.false_eq_true]
        exact ih

/-- one commit changes exactly its own register, to the better of the two -/
theorem lookup_applyCommit (s : List Commit) (c : Commit) (d : Nat) (f : Field) :
    lookup (applyCommit s c) d f = combine d f (lookup s d f) c := by
  unfold applyCommit combine
  cases hl : lookup s c.doc c.field with
  | none =>
    simp only
    rw [lookup_append_single s c d f hl]
    by_cases hc : at_ d f c = true
    · simp only [hc, if_true]
      have hcd : c.doc = d ∧ c.field = f := by simpa [at_] using hc
      rw [hcd.1, hcd.2] at hl
      rw [hl]; rfl
    · simp [hc]
  | some e =>
    simp only
    by_cases hle : le e.height e.value c.height c.value = true
    · simp only [hle, if_true]
      rw [lookup_map_replace]
      by_cases hc : at_ d f c = true
      · simp only [hc, if_true]
        have hcd : c.doc = d ∧ c.field = f := by simpa [at_] using hc
        rw [hcd.1, hcd.2] at hl
        rw [hl]
        simp [better, hle]
      · simp [hc]
    · simp only [hle, Bool.false_eq_true, if_false]
      by_cases hc : at_ d f c = true
      · simp only [hc, if_true]
        have hcd : c.doc = d ∧ c.field = f := by simpa [at_] using hc
        rw [hcd.1, hcd.2] at hl
        rw [hl]
        simp [better, hle]
      · simp [hc]

theorem lookup_fold (cs : List Commit) (s : List Commit) (d : Nat) (f : Field) :
    lookup (cs.foldl applyCommit s) d f = cs.foldl (combine d f) (lookup s d f) := by
  induction cs generalizing s with
  | nil => rfl
  | cons c t ih =>
    simp only [List.foldl_cons]
    rw [ih, lookup_applyCommit]

/-- the register order on commits -/
def cle (a b : Commit) : Prop := a.height < b.height ∨ (a.height = b.height ∧ a.value ≤ b.value)

theorem le_iff (a b : Commit) : le a.height a.value b.height b.value = true ↔ cle a b := by
  simp [le, cle]

theorem cle_total (a b : Commit) : cle a b ∨ cle b a := by
  unfold cle; omega

theorem cle_trans {a b c : Commit} (h1 : cle a b) (h2 : cle b c) : cle a c := by
  unfold cle at *; omega

theorem cle_refl (a : Commit) : cle a a := by unfold cle; omega

/-- two commits of the same register that dominate each other carry the same height and value -/
theorem cle_antisymm {a b : Commit} (h1 : cle a b) (h2 : cle b a) : a.height = b.height ∧ a.value = b.value := by
  unfold cle at *; omega

/-- the fold's result is one of the register's commits (or the start) and dominates all of them -/
theorem fold_combine_spec (cs : List Commit) (d : Nat) (f : Field) (o : Option Commit) :
    ∀ r, cs.foldl (combine d f) o = some r →
      (o = some r ∨ (r ∈ cs ∧ at_ d f r = true)) ∧ (∀ e, o = some e → cle e r) ∧
      (∀ c ∈ cs, at_ d f c = true → cle c r) := by
  induction cs generalizing o with
  | nil =>
    intro r h
    simp only [List.foldl_nil] at h
    refine ⟨Or.inl h, ?_, ?_⟩
    · intro e he; rw [h] at he; cases he; exact cle_refl _
    · intro c hc; cases hc
  | cons c t ih =>
    intro r h
    simp only [List.foldl_cons] at h
    obtain ⟨h1, h2, h3⟩ := ih (combine d f o c) r h
    by_cases hc : at_ d f c = true
    · have hcomb : combine d f o c = some (better o c) := by simp [combine, hc]
      have hb : cle (better o c) r := h2 _ hcomb
      have hcb : cle c (better o c) := by
        unfold better
        cases o with
        | none => exact cle_refl _
        | some e =>
          simp only
          split
          · exact cle_refl _
          · rename_i hn
            rcases cle_total e c with h | h
            · exact absurd ((le_iff e c).mpr h) hn
            · exact h
      have hob : ∀ e, o = some e → cle e (better o c) := by
        intro e he
        subst he
        unfold better
        simp only
        split
        · rename_i hl; exact (le_iff e c).mp hl
        · exact cle_refl _
      refine ⟨?_, ?_, ?_⟩
      · rcases h1 with h1 | ⟨hm, ha⟩
        · rw [hcomb] at h1
          simp only [Option.some.injEq] at h1
          -- r is better o c: either the old register or c
          unfold better at h1
          cases o with
          | none => simp only at h1; subst h1; exact Or.inr ⟨List.mem_cons_self, hc⟩
          | some e =>
            simp only at h1
            split at h1
            · subst h1; exact Or.inr ⟨List.mem_cons_self, hc⟩
            · subst h1; exact Or.inl rfl
        · exact Or.inr ⟨List.mem_cons_of_mem _ hm, ha⟩
      · intro e he; exact cle_trans (hob e he) hb
      · intro x hx hax
        rcases List.mem_cons.mp hx with rfl | hx
        · exact cle_trans hcb hb
        · exact h3 x hx hax
    · have hcomb : combine d f o c = o := by simp [combine, hc]
      rw [hcomb] at h1 h2
      refine ⟨?_, h2, ?_⟩
      · rcases h1 with h1 | ⟨hm, ha⟩
        · exact Or.inl h1
        · exact Or.inr ⟨List.mem_cons_of_mem _ hm, ha⟩
      · intro x hx hax
        rcases List.mem_cons.mp hx with rfl | hx
        · exact absurd hax hc
        · exact h3 x hx hax

theorem fold_combine_none (cs : List Commit) (d : Nat) (f : Field) :
    cs.foldl (combine d f) none = none ↔ ∀ c ∈ cs, at_ d f c = false := by
  constructor
  · intro h c hc
    induction cs with
    | nil => cases hc
    | cons x t ih =>
      simp only [List.foldl_cons] at h
      by_cases hx : at_ d f x = true
      · -- the fold from `some _` never returns none
        exfalso
        have hs : combine d f none x = some (better none x) := by simp [combine, hx]
        rw [hs] at h
        have : ∀ (l : List Commit) (e : Commit), l.foldl (combine d f) (some e) ≠ none := by
          intro l
          induction l with
          | nil => intro e h; cases h
          | cons y l ihl =>
            intro e
            simp only [List.foldl_cons]
            unfold combine
            split
            · exact ihl _
            · exact ihl _
        exact this t _ h
      · have hs : combine d f none x = none := by simp [combine, hx]
        rw [hs] at h
        rcases List.mem_cons.mp hc with rfl | hc
        · simpa using hx
        · exact ih h hc
  · intro h
    induction cs with
    | nil => rfl
    | cons x t ih =>
      simp only [List.foldl_cons]
      have hx := h x List.mem_cons_self
      have hs : combine d f none x = none := by simp [combine, hx]
      rw [hs]
      exact ih (fun c hc => h c (List.mem_cons_of_mem _ hc))

/-- **The stored value depends on the SET of applied commits only.** -/
theorem stored_value_of_same_members (cs1 cs2 : List Commit) (d : Nat) (f : Field)
    (hm : ∀ c, at_ d f c = true → (c ∈ cs1 ↔ c ∈ cs2)) :
    (lookup (cs1.foldl applyCommit []) d f).map (fun e => (e.height, e.value)) =
    (lookup (cs2.foldl applyCommit []) d f).map (fun e => (e.height, e.value)) := by
  rw [lookup_fold, lookup_fold]
  have hl : lookup ([] : List Commit) d f = none := rfl
  rw [hl]
  cases h1 : cs1.foldl (combine d f) none with
  | none =>
    have a1 := (fold_combine_none cs1 d f).mp h1
    have : cs2.foldl (combine d f) none = none := by
      apply (fold_combine_none cs2 d f).mpr
      intro c hc
      cases ha : at_ d f c with
      | false => rfl
      | true =>
        have := a1 c ((hm c ha).mpr hc)
        rw [ha] at this; cases this
    rw [this]
  | some r1 =>
    cases h2 : cs2.foldl (combine d f) none with
    | none =>
      have a2 := (fold_combine_none cs2 d f).mp h2
      obtain ⟨hr, _, _⟩ := fold_combine_spec cs1 d f none r1 h1
      rcases hr with hr | ⟨hm1, ha1⟩
      · cases hr
      · have := a2 r1 ((hm r1 ha1).mp hm1)
        rw [ha1] at this; cases this
    | some r2 =>
      obtain ⟨hr1, _, hd1⟩ := fold_combine_spec cs1 d f none r1 h1
      obtain ⟨hr2, _, hd2⟩ := fold_combine_spec cs2 d f none r2 h2
      rcases hr1 with hr1 | ⟨hm1, ha1⟩
      · cases hr1
      rcases hr2 with hr2 | ⟨hm2, ha2⟩
      · cases hr2
      have c12 : cle r1 r2 := hd2 r1 ((hm r1 ha1).mp hm1) ha1
      have c21 : cle r2 r1 := hd1 r2 ((hm r2 ha2).mpr hm2) ha2
      obtain ⟨hh, hv⟩ := cle_antisymm c12 c21
      simp [hh, hv]

end Defra.Schema
