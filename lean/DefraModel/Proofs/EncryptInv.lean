import DefraModel.Encrypt

/-! Invariants of the block-encryption model used by Props/C11.lean. -/
namespace Defra.Encrypt

/-! ### helper lemmas (local to this file: they are about the model's bookkeeping only) -/

theorem firstEnc_some_of_mem {hs : List Blk} {h : Blk} (hm : h ∈ hs) (he : h.enc.isSome) :
    (firstEnc hs).isSome := by
  induction hs with
  | nil => cases hm
  | cons x t ih =>
    unfold firstEnc
    cases hx : x.enc with
    | some k => simp
    | none =>
      simp only
      cases hm with
      | head => rw [hx] at he; cases he
      | tail _ hm => exact ih hm

theorem firstEnc_mem {hs : List Blk} {k : Key} (h : firstEnc hs = some k) : ∃ b ∈ hs, b.enc = some k := by
  induction hs with
  | nil => simp [firstEnc] at h
  | cons x t ih =>
    unfold firstEnc at h
    cases hx : x.enc with
    | some k' =>
      rw [hx] at h
      simp only [Option.some.injEq] at h
      exact ⟨x, List.mem_cons_self, by rw [hx, h]⟩
    | none =>
      rw [hx] at h
      obtain ⟨b, hb, hk⟩ := ih h
      exact ⟨b, List.mem_cons_of_mem _ hb, hk⟩

theorem firstDocEnc_some_of_mem {hs : List Blk} {h : Blk} {k : Key} (hm : h ∈ hs) (he : h.enc = some k)
    (hk : k.field = none) : (firstDocEnc hs).isSome := by
  induction hs with
  | nil => cases hm
  | cons x t ih =>
    unfold firstDocEnc
    cases hm with
    | head => rw [he]; simp [hk]
    | tail _ hm =>
      cases hx : x.enc with
      | some k' =>
        simp only
        split
        · simp
        · exact ih hm
      | none => exact ih hm

/-- the state invariant for a document-level encrypted document -/
structure DocInv (s : St) : Prop where
  /-- some composite head links a document-level key -/
  chead : ∃ h ∈ s.cheads, ∃ k, h.enc = some k ∧ k.field = none
  /-- every local field block is encrypted -/
  blocks : ∀ b ∈ s.blocks, b.remote = false → b.field.isSome → b.enc.isSome

theorem determine_field_enc_of_docInv {s : St} (hi : DocInv s) (ctx : Option Cfg) (f : FName) :
    (determine s ctx (some f)).1.isSome := by
  unfold determine
  split
  · simp
  · cases h1 : firstEnc (s.headsOf (some f)) with
    | some k => simp
    | none =>
      simp only
      obtain ⟨h, hm, k, he, hk⟩ := hi.chead
      have := firstDocEnc_some_of_mem hm he hk
      cases h2 : firstDocEnc s.cheads with
      | some k => simp
      | none => rw [h2] at this; cases this

theorem addDelta_cheads_field (s : St) (ctx : Option Cfg) (f : FName) :
    (addDelta s ctx (some f)).cheads = s.cheads := by
  unfold addDelta St.withHeads
  simp only
  split <;> rfl

theorem addDelta_blocks (s : St) (ctx : Option Cfg) (f : Option FName) :
    (addDelta s ctx f).blocks = s.blocks ++ [⟨f, s.nextOp, (determine s ctx f).1, false⟩] := by
  unfold addDelta St.withHeads
  cases f <;> simp only <;> split <;> rfl

theorem addDelta_field_docInv {s : St} (hi : DocInv s) (ctx : Option Cfg) (f : FName) :
    DocInv (addDelta s ctx (some f)) := by
  refine ⟨?_, ?_⟩
  · rw [addDelta_cheads_field]; exact hi.chead
  · intro b hb hr hf
    rw [addDelta_blocks] at hb
    rcases List.mem_append.mp hb with hb | hb
    · exact hi.blocks b hb hr hf
    · simp only [List.mem_singleton] at hb
      subst hb
      exact determine_field_enc_of_docInv hi ctx f

theorem fold_field_docInv {s : St} (hi : DocInv s) (ctx : Option Cfg) (fs : List FName) :
    DocInv (fs.foldl (fun s f => addDelta s ctx (some f)) s) := by
  induction fs generalizing s with
  | nil => exact hi
  | cons f t ih => exact ih (addDelta_field_docInv hi ctx f)

/-- every composite head's key is a document-level one -/
def CompKeysDoc (s : St) : Prop := ∀ h ∈ s.cheads, ∀ k, h.enc = some k → k.field = none

theorem addDelta_comp_cheads (s : St) (ctx : Option Cfg) :
    (addDelta s ctx none).cheads = [⟨none, s.nextOp, (determine s ctx none).1, false⟩] := by
  unfold addDelta St.withHeads
  simp only

theorem determine_comp_inherits {s : St} (hi : DocInv s) (hc : CompKeysDoc s) :
    ∃ k, (determine s none none).1 = some k ∧ k.field = none := by
  unfold determine
  simp only [should]
  obtain ⟨h, hm, k, he, _⟩ := hi.chead
  have hs := firstEnc_some_of_mem hm (by rw [he]; rfl)
  cases h1 : firstEnc (s.headsOf none) with
  | none => unfold St.headsOf at h1; rw [h1] at hs; cases hs
  | some k' =>
    obtain ⟨b, hb, hk⟩ := firstEnc_mem h1
    exact ⟨k', by simp, hc b hb k' hk⟩

theorem addDelta_comp_docInv {s : St} (hi : DocInv s) (hc : CompKeysDoc s) :
    DocInv (addDelta s none none) ∧ CompKeysDoc (addDelta s none none) := by
  obtain ⟨k, hk, hf⟩ := determine_comp_inherits hi hc
  refine ⟨⟨?_, ?_⟩, ?_⟩
  · rw [addDelta_comp_cheads]
    exact ⟨_, List.mem_singleton.mpr rfl, k, hk, hf⟩
  · intro b hb hr hfld
    rw [addDelta_blocks] at hb
    rcases List.mem_append.mp hb with hb | hb
    · exact hi.blocks b hb hr hfld
    · simp only [List.mem_singleton] at hb
      subst hb; cases hfld
  · intro h hm k' hk'
    rw [addDelta_comp_cheads] at hm
    simp only [List.mem_singleton] at hm
    subst hm
    simp only at hk'
    rw [hk] at hk'
    cases hk'; exact hf

theorem fold_field_compKeys {s : St} (hc : CompKeysDoc s) (ctx : Option Cfg) (fs : List FName) :
    CompKeysDoc (fs.foldl (fun s f => addDelta s ctx (some f)) s) := by
  induction fs generalizing s with
  | nil => exact hc
  | cons f t ih =>
    apply ih
    intro h hm; rw [addDelta_cheads_field] at hm; exact hc h hm

theorem nextOp_docInv {s : St} (hi : DocInv s) : DocInv { s with nextOp := s.nextOp + 1 } :=
  ⟨hi.chead, hi.blocks⟩

theorem save_none_docInv {s : St} (hi : DocInv s) (hc : CompKeysDoc s) (fs : List FName) :
    DocInv (save s none fs) ∧ CompKeysDoc (save s none fs) := by
  unfold save
  have h1 := fold_field_docInv hi none fs
  have h2 := fold_field_compKeys hc none fs
  have := addDelta_comp_docInv h1 h2
  exact ⟨nextOp_docInv this.1, this.2⟩

theorem mergeTwinField_cheads (s : St) (f : FName) : (mergeTwinField s f).cheads = s.cheads := rfl

theorem mergeTwinField_docInv {s : St} (hi : DocInv s) (f : FName) : DocInv (mergeTwinField s f) := by
  refine ⟨hi.chead, ?_⟩
  intro b hb hr hf
  unfold mergeTwinField at hb
  simp only at hb
  rcases List.mem_append.mp hb with hb | hb
  · exact hi.blocks b hb hr hf
  · simp only [List.mem_singleton] at hb
    subst hb; cases hr

theorem mergeTwin_docInv {s : St} (hi : DocInv s) (hc : CompKeysDoc s) (fs : List FName) :
    DocInv (mergeTwin s fs) ∧ CompKeysDoc (mergeTwin s fs) := by
  unfold mergeTwin
  have h1 : DocInv (fs.foldl mergeTwinField s) ∧ CompKeysDoc (fs.foldl mergeTwinField s) := by
    induction fs generalizing s with
    | nil => exact ⟨hi, hc⟩
    | cons f t ih => exact ih (mergeTwinField_docInv hi f) (by intro h hm; exact hc h hm)
  refine ⟨⟨?_, ?_⟩, ?_⟩
  · obtain ⟨h, hm, k, he, hk⟩ := h1.1.chead
    exact ⟨h, List.mem_append_left _ hm, k, he, hk⟩
  · intro b hb hr hf
    simp only at hb
    rcases List.mem_append.mp hb with hb | hb
    · exact h1.1.blocks b hb hr hf
    · simp only [List.mem_singleton] at hb
      subst hb; cases hr
  · intro h hm k hk
    simp only at hm
    rcases List.mem_append.mp hm with hm | hm
    · exact h1.2 h hm k hk
    · simp only [List.mem_singleton] at hm
      subst hm; cases hk

theorem step_docInv {s : St} (hi : DocInv s) (hc : CompKeysDoc s) (op : Op) :
    DocInv (step s op) ∧ CompKeysDoc (step s op) := by
  cases op with
  | update fs => exact save_none_docInv hi hc fs
  | delete => exact save_none_docInv hi hc []
  | twin fs => exact mergeTwin_docInv hi hc fs

/-- the creating save of a document-level configuration establishes the invariant -/
theorem create_docInv (c : Cfg) (hd : c.isDoc = true) (fs : List FName) :
    DocInv (create (some c) fs) ∧ CompKeysDoc (create (some c) fs) := by
  unfold create save
  -- every field block of the creating save is encrypted because the context asks for it
  have hshould : ∀ f, should (some c) f = true := by intro f; simp [should, hd]
  have hblocks : ∀ (fs : List FName) (s : St), (∀ b ∈ s.blocks, b.remote = false → b.field.isSome → b.enc.isSome) →
      ∀ b ∈ (fs.foldl (fun s f => addDelta s (some c) (some f)) s).blocks, b.remote = false → b.field.isSome → b.enc.isSome := by
    intro fs
    induction fs with
    | nil => intro s h; exact h
    | cons f t ih =>
      intro s h
      apply ih
      intro b hb hr hf
      rw [addDelta_blocks] at hb
      rcases List.mem_append.mp hb with hb | hb
      · exact h b hb hr hf
      · simp only [List.mem_singleton] at hb
        subst hb
        simp [determine, hshould]
  let s1 := fs.foldl (fun s f => addDelta s (some c) (some f)) ({} : St)
  have hb1 := hblocks fs {} (by intro b hb; cases hb)
  have hdet : (determine s1 (some c) none).1 = some ⟨s1.nextKey, none⟩ := by
    simp [determine, hshould, individual]
  refine ⟨⟨?_, ?_⟩, ?_⟩
  · simp only
    rw [addDelta_comp_cheads]
    exact ⟨_, List.mem_singleton.mpr rfl, ⟨s1.nextKey, none⟩, hdet, rfl⟩
  · intro b hb hr hf
    simp only at hb
    rw [addDelta_blocks] at hb
    rcases List.mem_append.mp hb with hb | hb
    · exact hb1 b hb hr hf
    · simp only [List.mem_singleton] at hb
      subst hb; cases hf
  · intro h hm k hk
    simp only at hm
    rw [addDelta_comp_cheads] at hm
    simp only [List.mem_singleton] at hm
    subst hm
    simp only at hk
    rw [hdet] at hk
    cases hk; rfl

theorem run_docInv (c : Cfg) (hd : c.isDoc = true) (fs : List FName) (ops : List Op) :
    DocInv (run (some c) fs ops) ∧ CompKeysDoc (run (some c) fs ops) := by
  unfold run
  have h0 := create_docInv c hd fs
  generalize create (some c) fs = s at h0
  induction ops generalizing s with
  | nil => exact h0
  | cons op t ih => exact ih _ (step_docInv h0.1 h0.2 op)

/-! ### field-level -/

/-- invariant for a field encrypted at creation: some head of its DAG is encrypted, and all its local blocks are -/
structure FieldInv (f : FName) (s : St) : Prop where
  head : ∃ h ∈ s.headsOf (some f), h.enc.isSome
  blocks : ∀ b ∈ s.blocks, b.remote = false → b.field = some f → b.enc.isSome

theorem headsOf_setHeads_same (fh : List (FName × List Blk)) (f : FName) (hs : List Blk) :
    (((setHeads fh f hs).find? (·.1 == f)).map (·.2)).getD [] = hs := by
  simp [setHeads]

theorem headsOf_setHeads_other (fh : List (FName × List Blk)) (f g : FName) (hs : List Blk) (hne : g ≠ f) :
    (((setHeads fh g hs).find? (·.1 == f)).map (·.2)).getD [] = ((fh.find? (·.1 == f)).map (·.2)).getD [] := by
  unfold setHeads
  have hgf : ((g, hs).1 == f) = false := by simp [hne]
  rw [List.find?_cons_of_neg (by simp [hgf])]
  congr 2
  induction fh with
  | nil => rfl
  | cons x t ih =>
    simp only [List.filter_cons, List.find?_cons]
    by_cases hx : x.1 = g
    · have h2 : (g == f) = false := by simp [hne]
      simp [hx, h2, ih]
    · have h1 : (x.1 == g) = false := by simp [hx]
      simp only [h1, Bool.not_false, if_true, List.find?_cons, ih]

theorem addDelta_headsOf_same (s : St) (ctx : Option Cfg) (f : FName) :
    (addDelta s ctx (some f)).headsOf (some f) = [⟨some f, s.nextOp, (determine s ctx (some f)).1, false⟩] := by
  unfold addDelta St.withHeads St.headsOf
  simp only
  split <;> simp only <;> exact headsOf_setHeads_same _ _ _

theorem addDelta_headsOf_other (s : St) (ctx : Option Cfg) (f g : FName) (hne : g ≠ f) :
    (addDelta s ctx (some g)).headsOf (some f) = s.headsOf (some f) := by
  unfold addDelta St.withHeads St.headsOf
  simp only
  split <;> simp only <;> exact headsOf_setHeads_other _ _ _ _ hne

theorem addDelta_comp_headsOf (s : St) (ctx : Option Cfg) (f : FName) :
    (addDelta s ctx none).headsOf (some f) = s.headsOf (some f) := by
  unfold addDelta St.withHeads St.headsOf
  simp only
  split <;> rfl

theorem determine_enc_of_fieldInv {f : FName} {s : St} (hi : FieldInv f s) (ctx : Option Cfg) :
    (determine s ctx (some f)).1.isSome := by
  unfold determine
  split
  · simp
  · obtain ⟨h, hm, he⟩ := hi.head
    have := firstEnc_some_of_mem hm he
    cases h1 : firstEnc (s.headsOf (some f)) with
    | some k => simp
    | none => rw [h1] at this; cases this

theorem addDelta_fieldInv {f : FName} {s : St} (hi : FieldInv f s) (ctx : Option Cfg) (g : Option FName) :
    FieldInv f (addDelta s ctx g) := by
  refine ⟨?_, ?_⟩
  · cases g with
    | none => rw [addDelta_comp_headsOf]; exact hi.head
    | some g =>
      by_cases hg : g = f
      · subst hg
        rw [addDelta_headsOf_same]
        exact ⟨_, List.mem_singleton.mpr rfl, determine_enc_of_fieldInv hi ctx⟩
      · rw [addDelta_headsOf_other _ _ _ _ hg]; exact hi.head
  · intro b hb hr hf
    rw [addDelta_blocks] at hb
    rcases List.mem_append.mp hb with hb | hb
    · exact hi.blocks b hb hr hf
    · simp only [List.mem_singleton] at hb
      subst hb
      simp only at hf
      subst hf
      exact determine_enc_of_fieldInv hi ctx

theorem save_fieldInv {f : FName} {s : St} (hi : FieldInv f s) (ctx : Option Cfg) (fs : List FName) :
    FieldInv f (save s ctx fs) := by
  unfold save
  have h1 : FieldInv f (fs.foldl (fun s g => addDelta s ctx (some g)) s) := by
    induction fs generalizing s with
    | nil => exact hi
    | cons g t ih => exact ih (addDelta_fieldInv hi ctx (some g))
  have h2 := addDelta_fieldInv h1 ctx none
  exact ⟨h2.head, h2.blocks⟩

theorem mergeTwinField_fieldInv {f : FName} {s : St} (hi : FieldInv f s) (g : FName) :
    FieldInv f (mergeTwinField s g) := by
  refine ⟨?_, ?_⟩
  · obtain ⟨h, hm, he⟩ := hi.head
    by_cases hg : g = f
    · subst hg
      refine ⟨h, ?_, he⟩
      unfold mergeTwinField St.headsOf
      simp only
      rw [headsOf_setHeads_same]
      exact List.mem_append_left _ hm
    · refine ⟨h, ?_, he⟩
      unfold mergeTwinField St.headsOf
      simp only
      rw [headsOf_setHeads_other _ _ _ _ hg]
      exact hm
  · intro b hb hr hf
    unfold mergeTwinField at hb
    simp only at hb
    rcases List.mem_append.mp hb with hb | hb
    · exact hi.blocks b hb hr hf
    · simp only [List.mem_singleton] at hb
      subst hb; cases hr

theorem step_fieldInv {f : FName} {s : St} (hi : FieldInv f s) (op : Op) : FieldInv f (step s op) := by
  cases op with
  | update fs => exact save_fieldInv hi none fs
  | delete => exact save_fieldInv hi none []
  | twin fs =>
    unfold step mergeTwin
    have h1 : FieldInv f (fs.foldl mergeTwinField s) := by
      induction fs generalizing s with
      | nil => exact hi
      | cons g t ih => exact ih (mergeTwinField_fieldInv hi g)
    refine ⟨h1.head, ?_⟩
    intro b hb hr hf
    simp only at hb
    rcases List.mem_append.mp hb with hb | hb
    · exact h1.blocks b hb hr hf
    · simp only [List.mem_singleton] at hb
      subst hb; cases hr

/-- a state in which no block of `f` exists yet and the pending creating save still has `f` to write, or already
    satisfies the invariant -/
theorem create_fieldInv (c : Cfg) (f : FName) (hf : c.fields.contains f = true) (fs : List FName) (hm : f ∈ fs) :
    FieldInv f (create (some c) fs) := by
  unfold create save
  have hshould : should (some c) (some f) = true := by
    simp only [should, hf, Bool.or_true]
  -- before `f` is written no local block of `f` exists; once written the invariant holds and is preserved
  have key : ∀ (fs : List FName) (s : St), f ∈ fs → (∀ b ∈ s.blocks, b.field ≠ some f) →
      FieldInv f (fs.foldl (fun s g => addDelta s (some c) (some g)) s) := by
    intro fs
    induction fs with
    | nil => intro s h; cases h
    | cons g t ih =>
      intro s hmem hno
      by_cases hg : g = f
      · subst hg
        have hinv : FieldInv g (addDelta s (some c) (some g)) := by
          refine ⟨?_, ?_⟩
          · rw [addDelta_headsOf_same]
            exact ⟨_, List.mem_singleton.mpr rfl, by simp [determine, hshould]⟩
          · intro b hb _ hfb
            rw [addDelta_blocks] at hb
            rcases List.mem_append.mp hb with hb | hb
            · exact absurd hfb (hno b hb)
            · simp only [List.mem_singleton] at hb
              subst hb
              simp [determine, hshould]
        clear ih hmem
        induction t generalizing s with
        | nil => exact hinv
        | cons x t ih2 =>
          simp only [List.foldl_cons] at *
          have := addDelta_fieldInv hinv (some c) (some x)
          -- fold the rest from a state satisfying the invariant
          have gen : ∀ (t : List FName) (s : St), FieldInv g s → FieldInv g (t.foldl (fun s g => addDelta s (some c) (some g)) s) := by
            intro t
            induction t with
            | nil => intro s h; exact h
            | cons y t ih3 => intro s h; exact ih3 _ (addDelta_fieldInv h (some c) (some y))
          exact gen t _ this
      · have hmem' : f ∈ t := by
          cases hmem with
          | head => exact absurd rfl hg
          | tail _ h => exact h
        apply ih _ hmem'
        intro b hb
        rw [addDelta_blocks] at hb
        rcases List.mem_append.mp hb with hb | hb
        · exact hno b hb
        · simp only [List.mem_singleton] at hb
          subst hb
          simp only [ne_eq, Option.some.injEq]
          exact hg
  have h1 := key fs {} hm (by intro b hb; cases hb)
  have h2 := addDelta_fieldInv h1 (some c) none
  exact ⟨h2.head, h2.blocks⟩

theorem run_fieldInv (c : Cfg) (f : FName) (hf : c.fields.contains f = true) (fs : List FName) (hm : f ∈ fs)
    (ops : List Op) : FieldInv f (run (some c) fs ops) := by
  unfold run
  have h0 := create_fieldInv c f hf fs hm
  generalize create (some c) fs = s at h0
  induction ops generalizing s with
  | nil => exact h0
  | cons op t ih => exact ih (step s op) (step_fieldInv h0 op)

end Defra.Encrypt
