import DefraModel.Crdt.Versioned
import DefraModel.Proofs.CrdtFolds
namespace Defra.Crdt

/-- what one call of `vmerge` (and any fold of calls) does to the pair (state, visited):
    it applies a list of blocks that were not visited before, each once, and records exactly them -/
def Applies (bs : Blocks) (before after : Vals × List Nat) : Prop :=
  ∃ (ids : List Nat) (applied : List Block),
    after.2 = before.2 ++ ids ∧
    after.1 = applied.foldl applyDelta before.1 ∧
    (∀ i ∈ ids, i ∉ before.2) ∧
    ids.Nodup ∧
    -- the applied blocks are the stored blocks among the newly visited ids, in visiting order
    applied = ids.filterMap bs.get?

theorem Applies.refl (bs : Blocks) (x : Vals × List Nat) : Applies bs x x :=
  ⟨[], [], by simp, rfl, by simp, by simp, rfl⟩

theorem Applies.trans {bs : Blocks} {a b c : Vals × List Nat} (h1 : Applies bs a b) (h2 : Applies bs b c) :
    Applies bs a c := by
  obtain ⟨i1, l1, e1, s1, d1, n1, f1⟩ := h1
  obtain ⟨i2, l2, e2, s2, d2, n2, f2⟩ := h2
  refine ⟨i1 ++ i2, l1 ++ l2, ?_, ?_, ?_, ?_, ?_⟩
  · rw [e2, e1, List.append_assoc]
  · rw [s2, s1, List.foldl_append]
  · intro i hi
    rcases List.mem_append.mp hi with h | h
    · exact d1 i h
    · intro hb; exact d2 i h (by rw [e1]; exact List.mem_append_left _ hb)
  · rw [List.nodup_append]
    refine ⟨n1, n2, ?_⟩
    intro a ha b hb e
    subst e
    exact d2 a hb (by rw [e1]; exact List.mem_append_right _ ha)
  · rw [f1, f2, List.filterMap_append]

theorem applies_foldl {α : Type} (bs : Blocks) (f : (Vals × List Nat) → α → (Vals × List Nat))
    (hf : ∀ acc x, Applies bs acc (f acc x)) (l : List α) (acc : Vals × List Nat) :
    Applies bs acc (l.foldl f acc) := by
  induction l generalizing acc with
  | nil => exact Applies.refl bs acc
  | cons x l ih => exact Applies.trans (hf acc x) (ih (f acc x))

theorem vmerge_applies (bs : Blocks) : ∀ (fuel : Nat) (acc : Vals × List Nat) (c : Nat),
    Applies bs acc (vmerge bs fuel acc c)
  | 0, acc, _ => Applies.refl bs acc
  | fuel + 1, (s, merged), c => by
    unfold vmerge
    by_cases hc : merged.contains c = true
    · simp only [hc, if_true]; exact Applies.refl bs _
    · simp only [hc, Bool.false_eq_true, if_false]
      have hnot : c ∉ merged := fun m => hc (List.contains_iff_mem.mpr m)
      cases hg : bs.get? c with
      | none =>
        simp only
        exact ⟨[c], [], rfl, rfl, by simpa using hnot, by simp, by simp [hg]⟩
      | some b =>
        simp only
        have step : Applies bs (s, merged) (applyDelta s b, merged ++ [c]) :=
          ⟨[c], [b], rfl, rfl, by simpa using hnot, by simp, by simp [hg]⟩
        exact Applies.trans step (applies_foldl bs _ (fun acc l => vmerge_applies bs fuel acc l) b.links _)

/-- **the versioned read applies every block at most once**: its result is the fold of `applyDelta` over a
    duplicate-free list of stored blocks, starting from the empty state of the scratch store -/
theorem versionedVals_is_fold_once (bs : Blocks) (c : Nat) :
    ∃ (ids : List Nat), ids.Nodup ∧
      versionedVals bs c = (ids.filterMap bs.get?).foldl applyDelta {} := by
  unfold versionedVals
  have := applies_foldl bs (fun acc (b : Block) => vmerge bs (bs.length + 1) acc b.id)
    (fun acc b => vmerge_applies bs (bs.length + 1) acc b.id)
    (sortByHeight ((seekQueue bs c).filterMap bs.get?)) (({} : Vals), ([] : List Nat))
  obtain ⟨ids, applied, _, hs, _, hn, hf⟩ := this
  exact ⟨ids, hn, by rw [hs, hf]⟩

end Defra.Crdt
