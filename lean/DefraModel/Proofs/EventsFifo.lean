import DefraModel.Events
namespace Defra.Events

/-- "subscriber `id` is subscribed exactly to `names`" -/
def SubscribedTo (b : Bus) (id : Nat) (names : List Name) : Prop :=
  b.closed = false ∧ ∀ n, b.wants id n = (names.contains n || names.contains wildcard)

theorem wants_filter_ne (subs : List (Nat × List Name)) (id j : Nat) (n : Name) (h : j ≠ id) :
    (subs.filter (fun s => s.1 != j)).any (fun s => s.1 == id && (s.2.contains n || s.2.contains wildcard)) =
    subs.any (fun s => s.1 == id && (s.2.contains n || s.2.contains wildcard)) := by
  induction subs with
  | nil => rfl
  | cons s rest ih =>
    simp only [List.filter_cons]
    by_cases hs : s.1 = j
    · have hne : (s.1 == id) = false := by
        cases hb : (s.1 == id)
        · rfl
        · exact absurd ((hs ▸ (by simpa using hb : s.1 = id)) : j = id) h
      have hf : (s.1 != j) = false := by simp [hs]
      simp only [hf, Bool.false_eq_true, if_false, List.any_cons, hne, Bool.false_and, Bool.false_or, ih]
    · have : (s.1 != j) = true := by simp [hs]
      simp only [this, if_true, List.any_cons, ih]

theorem step_keeps (b : Bus) (c : Cmd) (id : Nat) (names : List Name)
    (h : SubscribedTo b id names) (hk : c.keeps id = true) : SubscribedTo (step b c) id names := by
  obtain ⟨hc, hw⟩ := h
  cases c with
  | close => simp [Cmd.keeps] at hk
  | subscribe j ns =>
    have hj : j ≠ id := by simpa [Cmd.keeps] using hk
    refine ⟨by simp [step, hc], fun n => ?_⟩
    rw [← hw n]
    simp only [step, hc, Bool.false_eq_true, if_false, Bus.wants, List.any_append, List.any_cons, List.any_nil, Bool.or_false]
    rw [wants_filter_ne _ _ _ _ hj]
    have : ¬ (j == id) = true := by simpa using hj
    simp [this]
  | unsubscribe j =>
    have hj : j ≠ id := by simpa [Cmd.keeps] using hk
    refine ⟨by simp [step, hc], fun n => ?_⟩
    rw [← hw n]
    simp only [step, hc, Bool.false_eq_true, if_false, Bus.wants]
    rw [wants_filter_ne _ _ _ _ hj]
  | publish n p =>
    refine ⟨by simp [step, hc], fun m => ?_⟩
    rw [← hw m]
    simp [step, hc, Bus.wants]

theorem step_received (b : Bus) (c : Cmd) (id : Nat) (names : List Name)
    (h : SubscribedTo b id names) (hk : c.keeps id = true) :
    (step b c).received id = b.received id ++ matching names [c] := by
  obtain ⟨hc, hw⟩ := h
  cases c with
  | close => simp [Cmd.keeps] at hk
  | subscribe j ns => simp [step, hc, matching]
  | unsubscribe j => simp [step, hc, matching]
  | publish n p =>
    simp only [step, hc, Bool.false_eq_true, if_false, matching, List.filterMap_cons, List.filterMap_nil]
    rw [hw n]
    cases hx : (names.contains n || names.contains wildcard) <;> simp

/-- **FIFO per subscriber**: while a subscriber stays subscribed, what it receives is exactly the matching
    publications, in the order they were queued — for any number of other subscribers coming and going -/
theorem fifo (cmds : List Cmd) : ∀ (b : Bus) (id : Nat) (names : List Name),
    SubscribedTo b id names → (∀ c ∈ cmds, c.keeps id = true) →
    (run b cmds).received id = b.received id ++ matching names cmds ∧ SubscribedTo (run b cmds) id names := by
  induction cmds with
  | nil => intro b id names h _; exact ⟨by simp [run, matching], h⟩
  | cons c rest ih =>
    intro b id names h hk
    have hc := hk c (by simp)
    have hrest : ∀ c' ∈ rest, c'.keeps id = true := fun c' hc' => hk c' (by simp [hc'])
    obtain ⟨r1, s1⟩ := ih (step b c) id names (step_keeps b c id names h hc) hrest
    refine ⟨?_, s1⟩
    show (run (step b c) rest).received id = _
    rw [r1, step_received b c id names h hc, List.append_assoc]
    congr 1
    unfold matching
    rw [← List.filterMap_append]
    rfl

end Defra.Events
