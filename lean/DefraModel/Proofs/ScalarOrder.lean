import DefraModel.Encoding.Scalars
import DefraModel.Proofs.IntOrder
namespace Defra.Enc
open Defra.Bytes

/-! ### escape-terminated byte strings -/

theorem escBody_isBytes : ∀ (d : Bytes), IsBytes d → IsBytes (escBody d)
  | [], _ => isBytes_nil
  | x :: xs, h => by
    have hx : x < 256 := h x (by simp)
    have hxs : IsBytes xs := fun y hy => h y (by simp [hy])
    unfold escBody
    split
    · exact isBytes_cons (by omega) (isBytes_cons (by omega) (escBody_isBytes xs hxs))
    · exact isBytes_cons hx (escBody_isBytes xs hxs)

theorem esc_slt : ∀ (a b : Bytes), lt a b = true →
    slt (escBody a ++ [0, 1]) (escBody b ++ [0, 1]) = true
  | [], [], h => by simp at h
  | [], y :: bs, _ => by
    unfold escBody
    by_cases hy : y = 0
    · simp [hy]
    · simp [hy]; omega
  | _ :: _, [], h => by simp at h
  | x :: as, y :: bs, h => by
    simp only [lt_cons, Bool.or_eq_true, Bool.and_eq_true, decide_eq_true_eq, beq_iff_eq] at h
    rcases h with h | ⟨rfl, h⟩
    · by_cases hx : x = 0
      · have hy : y ≠ 0 := by omega
        simp [escBody, hx, hy]; omega
      · have hy : y ≠ 0 := by omega
        simp [escBody, hx, hy, h]
    · have ih := esc_slt as bs h
      by_cases hx : x = 0
      · simp [escBody, hx, ih]
      · simp [escBody, hx, ih]

theorem bytesAsc_mono (a b : Bytes) (h : lt a b = true) : slt (bytesAsc a) (bytesAsc b) = true := by
  simp [bytesAsc, esc_slt a b h]

theorem bytesDesc_anti (a b : Bytes) (ha : IsBytes a) (hb : IsBytes b) (h : lt a b = true) :
    slt (bytesDesc b) (bytesDesc a) = true := by
  simp only [bytesDesc, slt_cons, beq_self_eq_true, Bool.true_and, Bool.or_eq_true]
  refine Or.inr (slt_compl _ _ ?_ ?_ (esc_slt a b h))
  · exact isBytes_append (escBody_isBytes a ha) (isBytes_cons (by omega) (isBytes_cons (by omega) isBytes_nil))
  · exact isBytes_append (escBody_isBytes b hb) (isBytes_cons (by omega) (isBytes_cons (by omega) isBytes_nil))

theorem dec_body_asc : ∀ (d r : Bytes), decBody 0 1 255 0 (escBody d ++ [0, 1] ++ r) = some (d, r)
  | [], r => by simp [escBody, decBody]
  | x :: xs, r => by
    have ih := dec_body_asc xs r
    by_cases hx : x = 0
    · subst hx
      simp only [List.append_assoc, List.cons_append, List.nil_append] at ih
      simp [escBody, decBody, ih]
    · -- the tail is non-empty
      have : ∃ y rest, escBody xs ++ [0, 1] ++ r = y :: rest := by
        cases h : escBody xs with
        | nil => exact ⟨0, 1 :: r, by simp⟩
        | cons y ys => exact ⟨y, ys ++ [0, 1] ++ r, by simp⟩
      obtain ⟨y, rest, hyr⟩ := this
      simp only [escBody, hx, if_false, List.cons_append]
      rw [hyr] at ih ⊢
      simp [decBody, hx, ih]

theorem dec_bytesAsc (d r : Bytes) : decBytesAsc (bytesAsc d ++ r) = some (d, r) := by
  simp only [bytesAsc, List.cons_append, decBytesAsc, if_true]
  have := dec_body_asc d r
  simpa using this

theorem dec_body_desc : ∀ (d r : Bytes), IsBytes d →
    decBody 255 254 0 255 (compl (escBody d ++ [0, 1]) ++ r) = some (compl d, r)
  | [], r, _ => by simp [escBody, decBody, compl]
  | x :: xs, r, h => by
    have hx256 : x < 256 := h x (by simp)
    have hxs : IsBytes xs := fun y hy => h y (by simp [hy])
    have ih := dec_body_desc xs r hxs
    by_cases hx : x = 0
    · subst hx
      simp only [compl, List.map_append, List.map_cons, List.map_nil, List.append_assoc, List.cons_append, List.nil_append] at ih
      simp [escBody, decBody, compl, ih]
    · have : ∃ y rest, compl (escBody xs ++ [0, 1]) ++ r = y :: rest := by
        cases h : escBody xs with
        | nil => exact ⟨255, 254 :: r, by simp [compl]⟩
        | cons y ys => exact ⟨255 - y, compl (ys ++ [0, 1]) ++ r, by simp [compl]⟩
      obtain ⟨y, rest, hyr⟩ := this
      have hne : ¬ (255 - x = 255) := by omega
      have e : compl (escBody (x :: xs) ++ [0, 1]) ++ r = (255 - x) :: (compl (escBody xs ++ [0, 1]) ++ r) := by
        simp [escBody, hx, compl]
      rw [e, hyr]
      rw [hyr] at ih
      simp [decBody, hne, ih, compl]

theorem dec_bytesDesc (d r : Bytes) (h : IsBytes d) : decBytesDesc (bytesDesc d ++ r) = some (d, r) := by
  simp only [bytesDesc, List.cons_append, decBytesDesc, if_true]
  rw [dec_body_desc d r h]
  simp [compl_compl d h]

/-! ### floats -/

/-- what the proofs need of a format: marker order/distinctness and byte width -/
structure FFmt.Good (f : FFmt) : Prop where
  neg_zero : f.neg < f.zero
  zero_pos : f.zero < f.pos
  nan_lo : f.nan < f.neg
  nanDesc_hi : f.pos < f.nanDesc
  bytesW : 256 ^ f.bytes = 2 ^ f.width

theorem f64_good : f64.Good := by
  constructor <;> simp [f64, FFmt.width, FFmt.bytes]

theorem f32_good : f32.Good := by
  constructor <;> simp [f32, FFmt.width, FFmt.bytes]

theorem FFmt.two_sign (f : FFmt) : 2 ^ f.width = 2 * f.signBit := by
  unfold FFmt.width FFmt.signBit
  rw [Nat.add_assoc, Nat.add_comm 1, Nat.pow_succ]; omega

theorem FFmt.sign_pos (f : FFmt) : 0 < f.signBit := Nat.pow_pos (by decide)

theorem FFmt.mag_eq (f : FFmt) (u : Nat) (hu : u < 2 ^ f.width) :
    f.mag u = if u ≥ f.signBit then u - f.signBit else u := by
  have h2 := f.two_sign
  unfold FFmt.mag
  split
  · rename_i h
    rw [Nat.mod_eq_sub_mod h, Nat.mod_eq_of_lt (by omega)]
  · rw [Nat.mod_eq_of_lt (by omega)]

theorem FFmt.mag_negate (f : FFmt) (u : Nat) (hu : u < 2 ^ f.width) :
    f.negate u < 2 ^ f.width ∧ f.mag (f.negate u) = f.mag u ∧ f.isNeg (f.negate u) = !f.isNeg u := by
  have h2 := f.two_sign
  have hp := f.sign_pos
  have hlt : f.negate u < 2 ^ f.width := by
    unfold FFmt.negate FFmt.isNeg; split <;> simp_all <;> omega
  refine ⟨hlt, ?_, ?_⟩
  · rw [f.mag_eq _ hlt, f.mag_eq _ hu]
    unfold FFmt.negate FFmt.isNeg
    by_cases h : u ≥ f.signBit
    · simp only [h, decide_true, if_true]
      have : ¬ (u - f.signBit ≥ f.signBit) := by omega
      simp [this]
    · simp only [h, decide_false, if_false]
      have : u + f.signBit ≥ f.signBit := by omega
      simp [this]
  · unfold FFmt.negate FFmt.isNeg
    by_cases h : u ≥ f.signBit
    · simp only [h, decide_true, if_true]; simp <;> omega
    · simp only [h, decide_false]; simp <;> omega

theorem FFmt.key_negate (f : FFmt) (u : Nat) (hu : u < 2 ^ f.width) : f.key (f.negate u) = - f.key u := by
  obtain ⟨_, hm, hn⟩ := f.mag_negate u hu
  unfold FFmt.key
  rw [hm, hn]
  cases f.isNeg u <;> simp

theorem FFmt.isNaN_negate (f : FFmt) (u : Nat) (hu : u < 2 ^ f.width) : f.isNaN (f.negate u) = f.isNaN u := by
  unfold FFmt.isNaN; rw [(f.mag_negate u hu).2.1]

theorem floatAsc_mono (f : FFmt) (g : f.Good) (u v : Nat) (hu : u < 2 ^ f.width) (hv : v < 2 ^ f.width)
    (nu : f.isNaN u = false) (nv : f.isNaN v = false) (h : f.key u < f.key v) :
    slt (floatAsc f u) (floatAsc f v) = true := by
  have h2 := f.two_sign
  have hp := f.sign_pos
  have mu := f.mag_eq u hu
  have mv := f.mag_eq v hv
  unfold floatAsc
  simp only [nu, nv, Bool.false_eq_true, if_false]
  unfold FFmt.key at h
  unfold FFmt.isZero FFmt.isNeg at *
  have gn := g.neg_zero; have gz := g.zero_pos
  by_cases zu : f.mag u = 0 <;> by_cases zv : f.mag v = 0 <;>
    by_cases su : u ≥ f.signBit <;> by_cases sv : v ≥ f.signBit <;>
    simp only [zu, zv, su, sv, decide_true, decide_false, if_true, if_false, Bool.false_eq_true] at h mu mv ⊢ <;>
    try (first | (exfalso; omega) | (simp only [slt_cons]; simp; omega))
  · -- both negative, non-zero
    simp only [slt_cons, beq_self_eq_true, Bool.true_and, Bool.or_eq_true]
    refine Or.inr (be_slt _ _ _ ?_)
    rw [g.bytesW, Nat.mod_eq_of_lt (by omega), Nat.mod_eq_of_lt (by omega)]; omega
  · -- both positive, non-zero
    simp only [slt_cons, beq_self_eq_true, Bool.true_and, Bool.or_eq_true]
    refine Or.inr (be_slt _ _ _ ?_)
    rw [g.bytesW, Nat.mod_eq_of_lt hu, Nat.mod_eq_of_lt hv]; omega

theorem floatDesc_anti (f : FFmt) (g : f.Good) (u v : Nat) (hu : u < 2 ^ f.width) (hv : v < 2 ^ f.width)
    (nu : f.isNaN u = false) (nv : f.isNaN v = false) (h : f.key u < f.key v) :
    slt (floatDesc f v) (floatDesc f u) = true := by
  unfold floatDesc
  simp only [nu, nv, Bool.false_eq_true, if_false]
  apply floatAsc_mono f g _ _ (f.mag_negate v hv).1 (f.mag_negate u hu).1
  · rw [f.isNaN_negate v hv]; exact nv
  · rw [f.isNaN_negate u hu]; exact nu
  · rw [f.key_negate u hu, f.key_negate v hv]; omega

/-- equal keys give equal codes (`-0` and `+0` share a key) -/
theorem floatAsc_eq_of_key (f : FFmt) (u v : Nat) (hu : u < 2 ^ f.width) (hv : v < 2 ^ f.width)
    (nu : f.isNaN u = false) (nv : f.isNaN v = false) (h : f.key u = f.key v) :
    floatAsc f u = floatAsc f v := by
  have h2 := f.two_sign
  have hp := f.sign_pos
  have mu := f.mag_eq u hu
  have mv := f.mag_eq v hv
  unfold floatAsc
  simp only [nu, nv, Bool.false_eq_true, if_false]
  unfold FFmt.key at h
  unfold FFmt.isZero FFmt.isNeg at *
  by_cases zu : f.mag u = 0 <;> by_cases zv : f.mag v = 0 <;>
    by_cases su : u ≥ f.signBit <;> by_cases sv : v ≥ f.signBit <;>
    simp only [zu, zv, su, sv, decide_true, decide_false, if_true, if_false, Bool.false_eq_true] at h mu mv ⊢ <;>
    try (first | rfl | (exfalso; omega))
  · have : u = v := by omega
    rw [this]
  · have : u = v := by omega
    rw [this]

/-! ### time -/

theorem timeAsc_mono (s n s' n' : Int)
    (hs : -(2 ^ 63) ≤ s ∧ s < 2 ^ 63) (hs' : -(2 ^ 63) ≤ s' ∧ s' < 2 ^ 63)
    (hn : -(2 ^ 63) ≤ n ∧ n < 2 ^ 63) (hn' : -(2 ^ 63) ≤ n' ∧ n' < 2 ^ 63)
    (h : s < s' ∨ (s = s' ∧ n < n')) :
    slt (timeAsc s n) (timeAsc s' n') = true := by
  simp only [timeAsc, slt_cons, beq_self_eq_true, Bool.true_and, Bool.or_eq_true]
  refine Or.inr ?_
  rcases h with h | ⟨rfl, h⟩
  · exact slt_append _ _ _ _ (varintAsc_mono s s' hs.1 hs'.2 h)
  · rw [slt_prefix]; exact varintAsc_mono n n' hn.1 hn'.2 h

theorem timeDesc_anti (s n s' n' : Int)
    (hs : -(2 ^ 63) ≤ s ∧ s < 2 ^ 63) (hs' : -(2 ^ 63) ≤ s' ∧ s' < 2 ^ 63)
    (hn : -(2 ^ 63) ≤ n ∧ n < 2 ^ 63) (hn' : -(2 ^ 63) ≤ n' ∧ n' < 2 ^ 63)
    (h : s < s' ∨ (s = s' ∧ n < n')) :
    slt (timeDesc s' n') (timeDesc s n) = true := by
  unfold timeDesc
  have := timeAsc_mono (inot s') (inot n') (inot s) (inot n)
    (by unfold inot; omega) (by unfold inot; omega) (by unfold inot; omega) (by unfold inot; omega)
    (by unfold inot; omega)
  simpa [timeAsc] using this

theorem normTime_id (s n : Int) (h0 : 0 ≤ n) (h1 : n < 1000000000) : normTime s n = (s, n) := by
  unfold normTime
  rw [Int.ediv_eq_zero_of_lt h0 h1, Int.emod_eq_of_lt h0 h1]; simp

theorem dec_timeAsc (s n : Int) (hs : -(2 ^ 63) ≤ s ∧ s < 2 ^ 63) (h0 : 0 ≤ n) (h1 : n < 1000000000) (r : Bytes) :
    decTimeAsc (timeAsc s n ++ r) = some ((s, n), r) := by
  simp only [timeAsc, List.cons_append, decTimeAsc, if_true, List.append_assoc]
  rw [dec_varintAsc s hs.1 hs.2]
  simp only
  rw [dec_varintAsc n (by omega) (by omega)]
  simp [normTime_id s n h0 h1]

theorem dec_timeDesc (s n : Int) (hs : -(2 ^ 63) ≤ s ∧ s < 2 ^ 63) (h0 : 0 ≤ n) (h1 : n < 1000000000) (r : Bytes) :
    decTimeDesc (timeDesc s n ++ r) = some ((s, n), r) := by
  simp only [timeDesc, List.cons_append, decTimeDesc, if_true, List.append_assoc]
  rw [dec_varintAsc (inot s) (by unfold inot; omega) (by unfold inot; omega)]
  simp only
  rw [dec_varintAsc (inot n) (by unfold inot; omega) (by unfold inot; omega)]
  simp [inot_inot, normTime_id s n h0 h1]

end Defra.Enc
