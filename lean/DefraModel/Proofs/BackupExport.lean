import DefraModel.Backup.Export
/-! The exporter of `Backup/Export.lean` writes, for every store without a chain of three documents, exactly the
    records `specRec` — content, the recorded new identifier of the referenced document, the new identifier. -/
namespace Defra.Backup.Export

/-- the new identifier of a document whose target references nothing (else) -/
def newIdOf (store : List Emp) (d : Emp) : Id :=
  match d.boss with
  | none => h d.content none
  | some fk =>
    if fk = d.id then h d.content none
    else match find store fk with
      | none => h d.content none
      | some t => h d.content (some (h t.content none))

/-- the foreign key to be written for `d` -/
def specFk (store : List Emp) (d : Emp) : Option Id :=
  d.boss.bind (fun fk => (find store fk).map (newIdOf store))

def specRec (store : List Emp) (d : Emp) : Rec := ⟨d.id, d.content, specFk store d, newIdOf store d⟩

theorem find_some {store : List Emp} {k : Id} {t : Emp} (hf : find store k = some t) : t ∈ store ∧ t.id = k := by
  unfold find at hf
  exact ⟨List.mem_of_find?_eq_some hf, by simpa using List.find?_some hf⟩

theorem find_self : ∀ {store : List Emp} {d : Emp}, d ∈ store → (store.map (·.id)).Nodup → find store d.id = some d
  | e :: es, d, hm, hn => by
    simp only [List.map_cons, List.nodup_cons] at hn
    by_cases he : e.id = d.id
    · rcases List.mem_cons.mp hm with rfl | hm'
      · simp [find]
      · exact absurd (he ▸ List.mem_map_of_mem (f := (·.id)) hm') hn.1
    · rcases List.mem_cons.mp hm with rfl | hm'
      · exact absurd rfl he
      · have := find_self hm' hn.2
        unfold find at this ⊢
        simp [he, this]

/-- the cache only ever maps the identifier of a live document to that document's new identifier -/
def CInv (store : List Emp) (cache : Cache) : Prop :=
  ∀ k v, cacheGet cache k = some v → ∃ t, find store k = some t ∧ v = newIdOf store t

theorem cinv_nil (store : List Emp) : CInv store [] := by
  intro k v hk; simp [cacheGet] at hk

theorem cinv_set {store : List Emp} {cache : Cache} {t : Emp} (hc : CInv store cache)
    (ht : find store t.id = some t) : CInv store (cacheSet cache t.id (newIdOf store t)) := by
  intro k v hk
  by_cases he : t.id = k
  · subst he
    simp [cacheSet, cacheGet] at hk
    exact ⟨t, ht, hk.symm⟩
  · have : cacheGet (cacheSet cache t.id (newIdOf store t)) k = cacheGet cache k := by
      simp [cacheSet, cacheGet, he]
    rw [this] at hk
    exact hc k v hk

/-- what `noChain` says about one document -/
theorem noChain_at {store : List Emp} (hn : noChain store = true) {d t : Emp} (hd : d ∈ store) {fk : Id}
    (hb : d.boss = some fk) (hne : fk ≠ d.id) (hf : find store fk = some t) : newIdOf store t = h t.content none := by
  unfold noChain at hn
  have := List.all_eq_true.mp hn d hd
  simp only [hb, hf, Bool.or_eq_true, beq_iff_eq, hne, false_or] at this
  unfold newIdOf
  cases hg : t.boss with
  | none => rfl
  | some g =>
    simp only [hg, Bool.or_eq_true, beq_iff_eq] at this
    by_cases hs : g = t.id
    · simp [hs]
    · rcases this with h1 | h1
      · exact absurd h1 hs
      · cases hfg : find store g with
        | none => simp [hs, hfg]
        | some x => simp [hfg] at h1

theorem h_ne_tail (c : Nat) (i : Id) : h c (some i) ≠ i := by
  intro e
  have := congrArg List.length e
  simp [h] at this

/-- the foreign-key block writes the expected key and keeps the cache right -/
theorem resolve_spec {store : List Emp} (hn : noChain store = true) (hnd : (store.map (·.id)).Nodup)
    {cache : Cache} {d : Emp} (hd : d ∈ store) (hc : CInv store cache) :
    CInv store (resolve store cache d).2.2 ∧ recOf d (resolve store cache d).1 (resolve store cache d).2.1 = specRec store d := by
  have hself := find_self hd hnd
  unfold resolve
  cases hb : d.boss with
  | none => exact ⟨hc, by simp [recOf, specRec, specFk, newIdOf, hb]⟩
  | some fk =>
    simp only
    cases hg : cacheGet cache fk with
    | some nk =>
      obtain ⟨t, hft, hv⟩ := hc fk nk hg
      refine ⟨hc, ?_⟩
      by_cases hs : fk = d.id
      · subst hs
        simp [recOf, specRec, specFk, newIdOf, hb, hself]
      · have htn := noChain_at hn hd hb hs hft
        have hdn : newIdOf store d = h d.content (some (h t.content none)) := by simp [newIdOf, hb, hs, hft]
        simp [recOf, specRec, specFk, hdn, hb, hs, hft, hv, htn]
    | none =>
      simp only
      cases hft : find store fk with
      | none => exact ⟨hc, by simp [recOf, specRec, specFk, newIdOf, hb, hft]⟩
      | some t =>
        simp only
        obtain ⟨htm, hti⟩ := find_some hft
        by_cases hs : fk = d.id
        · -- the document references itself
          have htd : t = d := by
            rw [hs, hself] at hft; exact (Option.some.inj hft).symm
          subst htd
          have hnew : newIdOf store t = h t.content none := by simp [newIdOf, hb, hs]
          refine ⟨?_, ?_⟩
          · split
            · rw [← hnew]; exact cinv_set hc hself
            · exact hc
          · simp [recOf, specRec, specFk, hnew, hb, hs, hself]
        · have hne : t.id ≠ d.id := by rw [hti]; exact hs
          have htn := noChain_at hn hd hb hs hft
          have htself := find_self htm hnd
          refine ⟨?_, ?_⟩
          · split
            · rw [← htn]; exact cinv_set hc htself
            · exact hc
          · have hdn : newIdOf store d = h d.content (some (h t.content none)) := by simp [newIdOf, hb, hs, hft]
            simp [recOf, specRec, specFk, hdn, hb, hft, htn, hne]

/-- one step of the export loop -/
theorem exportStep_spec {store : List Emp} (hn : noChain store = true) (hnd : (store.map (·.id)).Nodup)
    {cache : Cache} {out : List Rec} {d : Emp} (hd : d ∈ store) (hc : CInv store cache) :
    CInv store (exportStep store (cache, out) d).1 ∧
    (exportStep store (cache, out) d).2 = out ++ [specRec store d] := by
  obtain ⟨h1, h2⟩ := resolve_spec hn hnd hd hc
  unfold exportStep
  simp only [h2, and_true]
  split
  · exact cinv_set h1 (find_self hd hnd)
  · exact h1

theorem export_fold {store : List Emp} (hn : noChain store = true) (hnd : (store.map (·.id)).Nodup) :
    ∀ (ds : List Emp) (cache : Cache) (out : List Rec), (∀ d ∈ ds, d ∈ store) → CInv store cache →
    (ds.foldl (exportStep store) (cache, out)).2 = out ++ ds.map (specRec store)
  | [], _, _, _, _ => by simp
  | d :: ds, cache, out, hsub, hc => by
    obtain ⟨h1, h2⟩ := exportStep_spec (out := out) hn hnd (hsub d (List.mem_cons_self)) hc
    rw [List.foldl_cons]
    have : exportStep store (cache, out) d = ((exportStep store (cache, out) d).1, out ++ [specRec store d]) := by
      rw [← h2]
    rw [this, export_fold hn hnd ds _ _ (fun x hx => hsub x (List.mem_cons_of_mem _ hx)) h1]
    simp

/-- **the exporter writes exactly the expected records** when no referenced document references another one -/
theorem exportImpl_eq_spec {store : List Emp} (hn : noChain store = true) (hnd : (store.map (·.id)).Nodup) :
    exportImpl store = store.map (specRec store) := by
  unfold exportImpl
  rw [export_fold hn hnd store [] [] (fun _ h => h) (cinv_nil store)]
  simp

theorem newOf_spec (store0 : List Emp) : ∀ (store : List Emp) (k : Id),
    newOf (store.map (specRec store0)) k = (find store k).map (newIdOf store0)
  | [], _ => rfl
  | e :: es, k => by
    have ih := newOf_spec store0 es k
    unfold newOf find at ih ⊢
    by_cases he : e.id = k
    · simp [specRec, he]
    · rw [List.map_cons, List.find?_cons, List.find?_cons]
      have hb : (e.id == k) = false := by simpa using he
      simp only [specRec, hb] at ih ⊢
      exact ih

/-- the importer gives a record of the expected form the identifier recorded in it, and the foreign key written -/
theorem importRec_spec {store : List Emp} (hn : noChain store = true) (hnd : (store.map (·.id)).Nodup)
    {d : Emp} (hd : d ∈ store) :
    (importRec (specRec store d)).id = (specRec store d).new ∧ (importRec (specRec store d)).boss = (specRec store d).fk := by
  unfold importRec
  refine ⟨?_, by split <;> rfl⟩
  cases hb : d.boss with
  | none => simp [specRec, specFk, newIdOf, hb]
  | some fk =>
    by_cases hs : fk = d.id
    · -- self reference: created without the key, the identifier is h content none
      have hdn : newIdOf store d = h d.content none := by simp [newIdOf, hb, hs]
      split
      · simp [specRec, hdn]
      · rename_i hne
        exfalso; apply hne
        have hself := find_self hd hnd
        subst hs
        simp [specRec, specFk, hb, hself]
    · cases hft : find store fk with
      | none =>
        have hdn : newIdOf store d = h d.content none := by simp [newIdOf, hb, hs, hft]
        simp [specRec, specFk, hb, hft, hdn]
      | some t =>
        have htn := noChain_at hn hd hb hs hft
        have hdn : newIdOf store d = h d.content (some (h t.content none)) := by simp [newIdOf, hb, hs, hft]
        have hne : h t.content none ≠ h d.content (some (h t.content none)) := fun e => h_ne_tail _ _ e.symm
        simp [specRec, specFk, hb, hft, hdn, htn, hne]

theorem all_zip_map {α β : Type} (f : α → β) (P : α × β → Bool) : ∀ (l : List α),
    (∀ a ∈ l, P (a, f a) = true) → (l.zip (l.map f)).all P = true
  | [], _ => rfl
  | a :: l, hall => by
    simp only [List.map_cons, List.zip_cons_cons, List.all_cons, Bool.and_eq_true]
    exact ⟨hall a List.mem_cons_self, all_zip_map f P l (fun x hx => hall x (List.mem_cons_of_mem _ hx))⟩

/-- **export followed by import reproduces the documents and their references** for every store in which no
    referenced document references another one -/
theorem roundTrip_of_noChain {store : List Emp} (hn : noChain store = true) (hnd : (store.map (·.id)).Nodup) :
    roundTripOk store = true := by
  unfold roundTripOk
  rw [exportImpl_eq_spec hn hnd]
  simp only [List.length_map, beq_self_eq_true, Bool.true_and]
  apply all_zip_map
  intro d hd
  obtain ⟨h1, h2⟩ := importRec_spec hn hnd hd
  simp only [h1, h2, beq_self_eq_true, Bool.and_true, Bool.and_eq_true, beq_iff_eq]
  refine ⟨⟨rfl, rfl⟩, ?_⟩
  unfold expectedFk
  simp only [specRec, specFk]
  cases hb : d.boss with
  | none => rfl
  | some fk =>
    simp only [Option.bind_some, newOf_spec]
    cases find store fk <;> rfl

end Defra.Backup.Export
