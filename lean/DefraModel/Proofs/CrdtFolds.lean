import DefraModel.Proofs.CrdtAlgebra
namespace Defra.Crdt
open Defra.Bytes

/-- the increment a block contributes to counter `f` -/
def ctrOf (f : String) (b : Block) : Int :=
  match b.kind, b.delta with
  | .field g, .ctr i => if g = f then i else 0
  | _, _ => 0

/-- the (height, value) a block writes to register `f`, if any -/
def lwwOf (f : String) (b : Block) : Option (Nat × Bytes) :=
  match b.kind, b.delta with
  | .field g, .lww v => if g = f then some (b.height, v) else none
  | _, _ => none

def isDelete (b : Block) : Bool := b.kind == .comp && b.delta == .comp true

theorem applyDelta_ctr (s : Vals) (b : Block) (f : String) :
    ((applyDelta s b).ctr f).getD 0 = (s.ctr f).getD 0 + ctrOf f b := by
  unfold applyDelta ctrOf
  cases hk : b.kind <;> cases hd : b.delta <;> simp only [] <;> try simp
  case field.ctr g i =>
    by_cases h : f = g
    · subst h; simp [FMap.set]
    · have : ¬ g = f := fun e => h e.symm
      simp [FMap.set, h, this]

theorem foldl_ctr (l : List Block) (s : Vals) (f : String) :
    ((l.foldl applyDelta s).ctr f).getD 0 = (s.ctr f).getD 0 + (l.map (ctrOf f)).sum := by
  induction l generalizing s with
  | nil => simp
  | cons b l ih =>
    rw [List.foldl_cons, ih, applyDelta_ctr]
    simp only [List.map_cons, List.sum_cons]; omega

theorem applyDelta_marker (s : Vals) (b : Block) :
    (applyDelta s b).marker = some true ↔ (s.marker = some true ∨ isDelete b = true) := by
  unfold applyDelta isDelete
  cases hk : b.kind <;> cases hd : b.delta <;> simp only [] <;> try simp
  case comp.comp d =>
    unfold markerMerge
    cases d <;> cases hm : s.marker <;> simp

theorem foldl_marker (l : List Block) (s : Vals) :
    (l.foldl applyDelta s).marker = some true ↔ (s.marker = some true ∨ ∃ b ∈ l, isDelete b = true) := by
  induction l generalizing s with
  | nil => simp
  | cons b l ih =>
    rw [List.foldl_cons, ih, applyDelta_marker]
    simp only [List.mem_cons, exists_eq_or_imp]
    constructor
    · rintro ((h | h) | h)
      · exact Or.inl h
      · exact Or.inr (Or.inl h)
      · exact Or.inr (Or.inr h)
    · rintro (h | h | h)
      · exact Or.inl (Or.inl h)
      · exact Or.inl (Or.inr h)
      · exact Or.inr h

theorem applyDelta_lww (s : Vals) (b : Block) (f : String) :
    (applyDelta s b).lww f =
      match lwwOf f b with
      | none => s.lww f
      | some x => some (lwwMerge (s.lww f) x.1 x.2) := by
  unfold applyDelta lwwOf
  cases hk : b.kind <;> cases hd : b.delta <;> simp only [] <;> try rfl
  case field.lww g v =>
    by_cases h : g = f
    · subst h; simp [FMap.set]
    · have : ¬ f = g := fun e => h e.symm
      simp [FMap.set, h, this]

/-- after applying a list of blocks, the register holds an upper bound (in (height, bytes) order)
    of every value written by the list -/
theorem foldl_lww_upper (l : List Block) (s : Vals) (f : String) :
    (∀ b ∈ l, ∀ x, lwwOf f b = some x → ∃ r, (l.foldl applyDelta s).lww f = some r ∧ ple x r) ∧
    (∀ c, s.lww f = some c → ∃ r, (l.foldl applyDelta s).lww f = some r ∧ ple c r) := by
  induction l generalizing s with
  | nil =>
    refine ⟨by simp, fun c h => ⟨c, by simpa using h, Or.inr ⟨rfl, lt_irrefl _⟩⟩⟩
  | cons b l ih =>
    obtain ⟨ih1, ih2⟩ := ih (applyDelta s b)
    rw [List.foldl_cons]
    constructor
    · intro b' hb' x hx
      rcases List.mem_cons.mp hb' with rfl | hb'
      · -- the head block: its value is absorbed into the state, then bounded by ih2
        have h1 := applyDelta_lww s b' f
        rw [hx] at h1
        simp only at h1
        obtain ⟨r, hr, hle⟩ := ih2 _ h1
        refine ⟨r, hr, ple_trans _ _ _ ?_ hle⟩
        cases hc : s.lww f with
        | none => exact Or.inr ⟨rfl, lt_irrefl _⟩
        | some c =>
          rw [lwwMerge_some, lwwMax_comm]
          exact ple_lwwMax_left _ _
      · exact ih1 b' hb' x hx
    · intro c hc
      have h1 := applyDelta_lww s b f
      cases hx : lwwOf f b with
      | none =>
        rw [hx] at h1; simp only at h1
        exact ih2 c (by rw [h1, hc])
      | some x =>
        rw [hx] at h1; simp only at h1
        obtain ⟨r, hr, hle⟩ := ih2 _ h1
        refine ⟨r, hr, ple_trans _ _ _ ?_ hle⟩
        rw [hc, lwwMerge_some]
        exact ple_lwwMax_left _ _

/-- ... and that value is one that was written (by the list or before it) -/
theorem foldl_lww_mem (l : List Block) (s : Vals) (f : String) (r : Nat × Bytes)
    (h : (l.foldl applyDelta s).lww f = some r) :
    s.lww f = some r ∨ ∃ b ∈ l, lwwOf f b = some r := by
  induction l generalizing s with
  | nil => exact Or.inl (by simpa using h)
  | cons b l ih =>
    rw [List.foldl_cons] at h
    rcases ih _ h with h' | ⟨b', hb', hx⟩
    · have h1 := applyDelta_lww s b f
      rw [h'] at h1
      cases hx : lwwOf f b with
      | none => rw [hx] at h1; simp only at h1; exact Or.inl h1.symm
      | some x =>
        rw [hx] at h1; simp only [Option.some.injEq] at h1
        cases hc : s.lww f with
        | none =>
          rw [hc] at h1
          have : lwwMerge none x.1 x.2 = x := rfl
          rw [this] at h1
          exact Or.inr ⟨b, by simp, by rw [hx, h1]⟩
        | some c =>
          rw [hc, lwwMerge_some] at h1
          rcases ple_total c x with hle | hle
          · rw [(lwwMax_spec c x).1 hle] at h1
            exact Or.inr ⟨b, by simp, by rw [hx, h1]⟩
          · rw [(lwwMax_spec c x).2 hle] at h1
            exact Or.inl (by rw [h1])
    · exact Or.inr ⟨b', List.mem_cons_of_mem _ hb', hx⟩

end Defra.Crdt
