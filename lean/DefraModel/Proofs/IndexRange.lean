import DefraModel.Index.Range
import DefraModel.Proofs.PrefixEnd
import DefraModel.Props.C17
namespace Defra.Index
open Defra Defra.Enc Defra.Bytes Defra.Props.C17

theorem lt_append_self : ∀ (p s : Bytes), lt (p ++ s) p = false
  | [], s => by cases s <;> rfl
  | x :: p, s => by simp [lt_append_self p s]

theorem pe_cons_ne_ff (x : Nat) (xs : Bytes) (hx : x ≠ 255) : ∃ e, pe (x :: xs) = some e := by
  simp only [pe]
  cases pe xs with
  | some r => exact ⟨_, rfl⟩
  | none => simp [hx]

theorem pe_base (col idx : Nat) : ∃ e, pe (baseKey col idx) = some e := by
  unfold baseKey; exact pe_cons_ne_ff 0x2f _ (by decide)

theorem pe_valueKey (col idx : Nat) (d : Bool) (v : Val) : ∃ e, pe (valueKey col idx d v) = some e := by
  unfold valueKey baseKey; exact pe_cons_ne_ff 0x2f _ (by decide)

theorem floatAsc_isBytes (f : FFmt) (h : f.nan < 256 ∧ f.zero < 256 ∧ f.neg < 256 ∧ f.pos < 256) (u : Nat) :
    IsBytes (floatAsc f u) := by
  unfold floatAsc
  repeat' split
  · exact isBytes_cons h.1 isBytes_nil
  · exact isBytes_cons h.2.1 isBytes_nil
  · exact isBytes_cons h.2.2.1 (be_isBytes _ _)
  · exact isBytes_cons h.2.2.2 (be_isBytes _ _)

theorem floatDesc_isBytes (f : FFmt) (h : f.nan < 256 ∧ f.zero < 256 ∧ f.neg < 256 ∧ f.pos < 256)
    (hd : f.nanDesc < 256) (u : Nat) : IsBytes (floatDesc f u) := by
  unfold floatDesc
  split
  · exact isBytes_cons hd isBytes_nil
  · exact floatAsc_isBytes f h _

theorem isBytes_two (a b : Nat) (ha : a < 256) (hb : b < 256) : IsBytes [a, b] :=
  isBytes_cons ha (isBytes_cons hb isBytes_nil)

theorem bytesAsc_isBytes (s : Bytes) (hs : IsBytes s) : IsBytes (bytesAsc s) := by
  unfold bytesAsc
  exact isBytes_cons (by decide) (isBytes_append (escBody_isBytes s hs) (isBytes_two 0 1 (by decide) (by decide)))

theorem bytesDesc_isBytes (s : Bytes) : IsBytes (bytesDesc s) := by
  unfold bytesDesc
  exact isBytes_cons (by decide) (isBytes_compl _)

/-- every (non-JSON) field value encodes to bytes -/
theorem fieldValue_isBytes (d : Bool) (v : Val) (hv : Val.Wf v) (hj : ∀ p x, v ≠ .json p x) :
    IsBytes (fieldValue d v) := by
  have f64b : f64.nan < 256 ∧ f64.zero < 256 ∧ f64.neg < 256 ∧ f64.pos < 256 := by decide
  have f32b : f32.nan < 256 ∧ f32.zero < 256 ∧ f32.neg < 256 ∧ f32.pos < 256 := by decide
  cases v with
  | null => cases d <;> exact isBytes_cons (by decide) isBytes_nil
  | bool b => cases d <;> cases b <;> exact isBytes_cons (by decide) isBytes_nil
  | int i => cases d <;> simp only [fieldValue, varintDesc, Bool.false_eq_true, if_false, if_true] <;> exact varintAsc_isBytes _
  | f32 u =>
    cases d <;> simp only [fieldValue, Bool.false_eq_true, if_false, if_true]
    · exact floatAsc_isBytes f32 f32b u
    · exact floatDesc_isBytes f32 f32b (by decide) u
  | f64 u =>
    cases d <;> simp only [fieldValue, Bool.false_eq_true, if_false, if_true]
    · exact floatAsc_isBytes f64 f64b u
    · exact floatDesc_isBytes f64 f64b (by decide) u
  | str s =>
    cases d <;> simp only [fieldValue, Bool.false_eq_true, if_false, if_true]
    · exact bytesAsc_isBytes s hv
    · exact bytesDesc_isBytes s
  | time s n =>
    cases d <;> simp only [fieldValue, Bool.false_eq_true, if_false, if_true, timeAsc, timeDesc]
    · exact isBytes_cons (by decide) (isBytes_append (varintAsc_isBytes _) (varintAsc_isBytes _))
    · exact isBytes_cons (by decide) (isBytes_append (varintAsc_isBytes _) (varintAsc_isBytes _))
  | json p x => exact absurd rfl (hj p x)

end Defra.Index
