import DefraModel.Crdt.Versioned
import DefraModel.Proofs.CrdtIsMerged

/-! The worklist walk `closureAux` (the versioned fetcher's `seekNext`) reaches every stored ancestor. -/
namespace Defra.Crdt

/-- weight still to be paid by blocks not yet in `acc` -/
def pot (bs : Blocks) (acc : List Nat) : Nat :=
  ((bs.filter (fun b => !acc.contains b.id)).map (fun b => b.parents.length + 1)).sum

theorem sum_filter_le {α} (l : List α) (w : α → Nat) (p q : α → Bool) (h : ∀ x ∈ l, p x = true → q x = true) :
    ((l.filter p).map w).sum ≤ ((l.filter q).map w).sum := by
  induction l with
  | nil => simp
  | cons x t ih =>
    have iht := ih (fun y hy => h y (List.mem_cons_of_mem _ hy))
    simp only [List.filter_cons]
    by_cases hp : p x = true
    · have hq := h x List.mem_cons_self hp
      simp only [hp, hq, if_true, List.map_cons, List.sum_cons]; omega
    · simp only [hp, Bool.false_eq_true, if_false]
      split
      · simp only [List.map_cons, List.sum_cons]; omega
      · exact iht

theorem sum_filter_drop {α} (l : List α) (w : α → Nat) (p q : α → Bool) (h : ∀ x ∈ l, p x = true → q x = true)
    (b : α) (hb : b ∈ l) (hqb : q b = true) (hpb : p b = false) :
    ((l.filter p).map w).sum + w b ≤ ((l.filter q).map w).sum := by
  induction l with
  | nil => cases hb
  | cons x t ih =>
    have himp := fun y hy => h y (List.mem_cons_of_mem _ hy)
    simp only [List.filter_cons]
    rcases List.mem_cons.mp hb with rfl | hbt
    · have := sum_filter_le t w p q himp
      simp only [hpb, hqb, Bool.false_eq_true, if_false, if_true, List.map_cons, List.sum_cons]; omega
    · have iht := ih himp hbt
      by_cases hp : p x = true
      · have hq := h x List.mem_cons_self hp
        simp only [hp, hq, if_true, List.map_cons, List.sum_cons]; omega
      · simp only [hp, Bool.false_eq_true, if_false]
        split
        · simp only [List.map_cons, List.sum_cons]; omega
        · exact iht

theorem pot_visit (bs : Blocks) (acc : List Nat) (c : Nat) (b : Block) (hg : bs.get? c = some b) (hc : c ∉ acc) :
    pot bs (acc ++ [c]) + (b.parents.length + 1) ≤ pot bs acc := by
  unfold pot
  have hmem : b ∈ bs := by unfold Blocks.get? at hg; exact List.mem_of_find?_eq_some hg
  have hid := Blocks.get?_id hg
  apply sum_filter_drop bs (fun b => b.parents.length + 1) _ _ _ b hmem
  · simp only [Bool.not_eq_true', List.contains_eq_mem, decide_eq_false_iff_not, hid]; exact hc
  · simp [hid]
  · intro x _ hx
    simp only [Bool.not_eq_true', List.contains_eq_mem, decide_eq_false_iff_not, List.mem_append, not_or] at hx ⊢
    exact hx.1

/-- what the worklist walk guarantees -/
structure ClosurePost (bs : Blocks) (work acc res : List Nat) : Prop where
  keep : ∀ x ∈ acc, x ∈ res
  work_ : ∀ w ∈ work, (bs.get? w).isSome → w ∈ res
  closed : ∀ x ∈ res, x ∉ acc → ∃ b, bs.get? x = some b ∧ ∀ p ∈ b.parents, (bs.get? p).isSome → p ∈ res

theorem closureAux_post (bs : Blocks) :
    ∀ (fuel : Nat) (work acc : List Nat), work.length + pot bs acc < fuel →
      ClosurePost bs work acc (closureAux bs fuel work acc) := by
  intro fuel
  induction fuel with
  | zero => intro work acc h; omega
  | succ n ih =>
    intro work acc hf
    cases work with
    | nil =>
      simp only [closureAux]
      refine ⟨fun x hx => hx, ?_, fun x hx hnx => absurd hx hnx⟩
      intro w hw
      cases hw
    | cons c rest =>
      unfold closureAux
      by_cases hc : acc.contains c = true
      · simp only [hc, if_true]
        have hcm : c ∈ acc := by simpa using hc
        have r := ih rest acc (by simp only [List.length_cons] at hf; omega)
        refine ⟨r.keep, ?_, r.closed⟩
        intro w hw hs
        rcases List.mem_cons.mp hw with rfl | hw
        · exact r.keep _ hcm
        · exact r.work_ w hw hs
      · simp only [hc, Bool.false_eq_true, if_false]
        have hcn : c ∉ acc := by simpa using hc
        cases hg : bs.get? c with
        | none =>
          simp only
          have r := ih rest acc (by simp only [List.length_cons] at hf; omega)
          refine ⟨r.keep, ?_, r.closed⟩
          intro w hw hs
          rcases List.mem_cons.mp hw with rfl | hw
          · rw [hg] at hs; cases hs
          · exact r.work_ w hw hs
        | some b =>
          simp only
          have hpot := pot_visit bs acc c b hg hcn
          have r := ih (b.parents ++ rest) (acc ++ [c]) (by
            simp only [List.length_cons, List.length_append] at hf ⊢; omega)
          have hcr : c ∈ closureAux bs n (b.parents ++ rest) (acc ++ [c]) :=
            r.keep c (List.mem_append_right _ (List.mem_singleton.mpr rfl))
          refine ⟨fun x hx => r.keep x (List.mem_append_left _ hx), ?_, ?_⟩
          · intro w hw hs
            rcases List.mem_cons.mp hw with rfl | hw
            · exact hcr
            · exact r.work_ w (List.mem_append_right _ hw) hs
          · intro x hx hnx
            by_cases hxc : x = c
            · subst hxc
              exact ⟨b, hg, fun p hp hs => r.work_ p (List.mem_append_left _ hp) hs⟩
            · apply r.closed x hx
              intro hm
              rcases List.mem_append.mp hm with h | h
              · exact hnx h
              · simp only [List.mem_singleton] at h; exact hxc h

theorem Path.unsnoc {bs : Blocks} : ∀ {n y t : Nat}, Path bs y t (n + 1) →
    ∃ z b, Path bs y z n ∧ bs.get? z = some b ∧ t ∈ b.parents := by
  intro n
  induction n with
  | zero =>
    intro y t h
    cases h with
    | succ hg hp rest =>
      cases rest
      exact ⟨y, _, Path.zero, hg, hp⟩
  | succ m ih =>
    intro y t h
    cases h with
    | succ hg hp rest =>
      obtain ⟨z, b', hz, hgz, ht⟩ := ih rest
      exact ⟨z, b', Path.succ hg hp hz, hgz, ht⟩

/-- **The queue of the versioned read contains every stored ancestor** of the requested commit (and the commit). -/
theorem seekQueue_complete (bs : Blocks) (c : Nat) : ∀ (n x : Nat), Path bs c x n → (bs.get? x).isSome →
    x ∈ seekQueue bs c := by
  have hfuel : ([c] : List Nat).length + pot bs [] < seekFuel bs := by
    unfold seekFuel pot
    have := sum_filter_le bs (fun b => b.parents.length + 1) (fun b => !([] : List Nat).contains b.id) (fun _ => true)
      (fun _ _ _ => rfl)
    have hall : bs.filter (fun _ => true) = bs := List.filter_eq_self.mpr (fun _ _ => rfl)
    rw [hall] at this
    simp only [List.length_singleton]; omega
  have post := closureAux_post bs (seekFuel bs) [c] [] hfuel
  intro n
  induction n with
  | zero =>
    intro x hp hx
    cases hp
    exact post.work_ _ List.mem_cons_self hx
  | succ m ih =>
    intro x hp hx
    obtain ⟨z, b, hz, hgz, hxb⟩ := hp.unsnoc
    have hzq : z ∈ seekQueue bs c := ih z hz (by rw [hgz]; rfl)
    obtain ⟨b', hb', hcl⟩ := post.closed z hzq (by simp)
    rw [hgz] at hb'; cases hb'
    exact hcl x hxb hx

end Defra.Crdt
