import DefraModel.Proofs.CrdtWalk

/-! `isMerged` recognises every merged commit in a well-formed block store (completeness; soundness is in CrdtWalk). -/
namespace Defra.Crdt

/-- a path of `n` parent links from `y` to the target `t` on which every block before the target is available and
    has a height above `h` (so the breadth-first walk expands it) -/
inductive PathU (bs : Blocks) (h t : Nat) : Nat → Nat → Prop where
  | zero : PathU bs h t t 0
  | succ {y p : Nat} {b : Block} {n : Nat} : bs.get? y = some b → h < b.height → p ∈ b.parents →
      PathU bs h t p n → PathU bs h t y (n + 1)

/-- one level of the walk, as a function: the parents of the expanded frontier blocks, without those seen -/
def level (bs : Blocks) (height : Nat) (frontier seen : List Nat) : List Nat × List Nat :=
  frontier.foldl (fun (acc : List Nat × List Nat) c =>
    match bs.get? c with
    | none => acc
    | some blk =>
      if blk.height ≤ height then acc
      else blk.parents.foldl (fun (a : List Nat × List Nat) p =>
        if a.2.contains p then a else (a.1 ++ [p], a.2 ++ [p])) acc) ([], seen)

theorem isMergedAux_succ (bs : Blocks) (target height fuel : Nat) (c : Nat) (t : List Nat) (seen : List Nat) :
    isMergedAux bs target height (fuel + 1) (c :: t) seen =
      if (c :: t).contains target then true
      else isMergedAux bs target height fuel (level bs height (c :: t) seen).1 (level bs height (c :: t) seen).2 := by
  rw [isMergedAux]
  · rfl
  · intro h; cases h

/-- the inner fold: what it appends are parents of the block, `seen` only grows, and a parent ends up either
    appended or was seen before -/
structure InnerSpec (ps : List Nat) (a r : List Nat × List Nat) : Prop where
  keep1 : ∀ x ∈ a.1, x ∈ r.1
  keep2 : ∀ x ∈ a.2, x ∈ r.2
  new1 : ∀ x ∈ r.1, x ∈ a.1 ∨ x ∈ ps
  new2 : ∀ x ∈ r.2, x ∈ a.2 ∨ x ∈ r.1
  got : ∀ p ∈ ps, p ∈ r.1 ∨ p ∈ a.2

theorem inner_spec (ps : List Nat) (a : List Nat × List Nat) :
    InnerSpec ps a (ps.foldl (fun (a : List Nat × List Nat) p =>
      if a.2.contains p then a else (a.1 ++ [p], a.2 ++ [p])) a) := by
  induction ps generalizing a with
  | nil => exact ⟨fun x h => h, fun x h => h, fun x h => Or.inl h, fun x h => Or.inl h, fun p h => by cases h⟩
  | cons p t ih =>
    simp only [List.foldl_cons]
    by_cases hc : a.2.contains p = true
    · simp only [hc, if_true]
      have s := ih a
      refine ⟨s.keep1, s.keep2, fun x hx => (s.new1 x hx).imp id (List.mem_cons_of_mem _), s.new2, ?_⟩
      intro q hq
      rcases List.mem_cons.mp hq with rfl | hq
      · exact Or.inr (by simpa using hc)
      · exact s.got q hq
    · simp only [hc, Bool.false_eq_true, if_false]
      have s := ih (a.1 ++ [p], a.2 ++ [p])
      refine ⟨fun x hx => s.keep1 x (List.mem_append_left _ hx), fun x hx => s.keep2 x (List.mem_append_left _ hx), ?_, ?_, ?_⟩
      · intro x hx
        rcases s.new1 x hx with h | h
        · rcases List.mem_append.mp h with h | h
          · exact Or.inl h
          · simp only [List.mem_singleton] at h; subst h; exact Or.inr List.mem_cons_self
        · exact Or.inr (List.mem_cons_of_mem _ h)
      · intro x hx
        rcases s.new2 x hx with h | h
        · rcases List.mem_append.mp h with h | h
          · exact Or.inl h
          · simp only [List.mem_singleton] at h; subst h
            exact Or.inr (s.keep1 _ (List.mem_append_right _ (List.mem_singleton.mpr rfl)))
        · exact Or.inr h
      · intro q hq
        rcases List.mem_cons.mp hq with rfl | hq
        · exact Or.inl (s.keep1 _ (List.mem_append_right _ (List.mem_singleton.mpr rfl)))
        · rcases s.got q hq with h | h
          · exact Or.inl h
          · rcases List.mem_append.mp h with h | h
            · exact Or.inr h
            · simp only [List.mem_singleton] at h; subst h
              exact Or.inl (s.keep1 _ (List.mem_append_right _ (List.mem_singleton.mpr rfl)))

/-- one level: everything in the next frontier is a parent of an expanded frontier block; the new `seen` is the old
    one plus the next frontier; every parent of an expanded frontier block is in the next frontier or was seen -/
structure LevelSpec (bs : Blocks) (height : Nat) (frontier seen : List Nat) (r : List Nat × List Nat) : Prop where
  new1 : ∀ x ∈ r.1, ∃ c ∈ frontier, ∃ b, bs.get? c = some b ∧ height < b.height ∧ x ∈ b.parents
  new2 : ∀ x ∈ r.2, x ∈ seen ∨ x ∈ r.1
  got : ∀ c ∈ frontier, ∀ b, bs.get? c = some b → height < b.height → ∀ p ∈ b.parents, p ∈ r.1 ∨ p ∈ seen

theorem level_spec_aux (bs : Blocks) (height : Nat) (frontier : List Nat) (a : List Nat × List Nat) :
    let r := frontier.foldl (fun (acc : List Nat × List Nat) c =>
      match bs.get? c with
      | none => acc
      | some blk =>
        if blk.height ≤ height then acc
        else blk.parents.foldl (fun (a : List Nat × List Nat) p =>
          if a.2.contains p then a else (a.1 ++ [p], a.2 ++ [p])) acc) a
    (∀ x ∈ a.1, x ∈ r.1) ∧ (∀ x ∈ a.2, x ∈ r.2) ∧
    (∀ x ∈ r.1, x ∈ a.1 ∨ ∃ c ∈ frontier, ∃ b, bs.get? c = some b ∧ height < b.height ∧ x ∈ b.parents) ∧
    (∀ x ∈ r.2, x ∈ a.2 ∨ x ∈ r.1) ∧
    (∀ c ∈ frontier, ∀ b, bs.get? c = some b → height < b.height → ∀ p ∈ b.parents, p ∈ r.1 ∨ p ∈ a.2) := by
  induction frontier generalizing a with
  | nil =>
    exact ⟨fun x h => h, fun x h => h, fun x h => Or.inl h, fun x h => Or.inl h, fun c hc => by cases hc⟩
  | cons c t ih =>
    simp only [List.foldl_cons]
    cases hg : bs.get? c with
    | none =>
      simp only
      obtain ⟨k1, k2, n1, n2, g⟩ := ih a
      refine ⟨k1, k2, ?_, n2, ?_⟩
      · intro x hx
        rcases n1 x hx with h | ⟨c', hc', hb⟩
        · exact Or.inl h
        · exact Or.inr ⟨c', List.mem_cons_of_mem _ hc', hb⟩
      · intro c' hc' b hb hh p hp
        rcases List.mem_cons.mp hc' with rfl | hc'
        · rw [hg] at hb; cases hb
        · exact g c' hc' b hb hh p hp
    | some blk =>
      simp only
      by_cases hle : blk.height ≤ height
      · simp only [hle, if_true]
        obtain ⟨k1, k2, n1, n2, g⟩ := ih a
        refine ⟨k1, k2, ?_, n2, ?_⟩
        · intro x hx
          rcases n1 x hx with h | ⟨c', hc', hb⟩
          · exact Or.inl h
          · exact Or.inr ⟨c', List.mem_cons_of_mem _ hc', hb⟩
        · intro c' hc' b hb hh p hp
          rcases List.mem_cons.mp hc' with rfl | hc'
          · rw [hg] at hb; cases hb; omega
          · exact g c' hc' b hb hh p hp
      · simp only [hle, if_false]
        have s := inner_spec blk.parents a
        obtain ⟨k1, k2, n1, n2, g⟩ := ih (blk.parents.foldl (fun (a : List Nat × List Nat) p =>
          if a.2.contains p then a else (a.1 ++ [p], a.2 ++ [p])) a)
        refine ⟨fun x hx => k1 x (s.keep1 x hx), fun x hx => k2 x (s.keep2 x hx), ?_, ?_, ?_⟩
        · intro x hx
          rcases n1 x hx with h | ⟨c', hc', hb⟩
          · rcases s.new1 x h with h | h
            · exact Or.inl h
            · exact Or.inr ⟨c, List.mem_cons_self, blk, hg, by omega, h⟩
          · exact Or.inr ⟨c', List.mem_cons_of_mem _ hc', hb⟩
        · intro x hx
          rcases n2 x hx with h | h
          · rcases s.new2 x h with h | h
            · exact Or.inl h
            · exact Or.inr (k1 x h)
          · exact Or.inr h
        · intro c' hc' b hb hh p hp
          rcases List.mem_cons.mp hc' with rfl | hc'
          · rw [hg] at hb; cases hb
            rcases s.got p hp with h | h
            · exact Or.inl (k1 p h)
            · exact Or.inr h
          · rcases g c' hc' b hb hh p hp with h | h
            · exact Or.inl h
            · rcases s.new2 p h with h | h
              · exact Or.inr h
              · exact Or.inl (k1 p h)

theorem level_spec (bs : Blocks) (height : Nat) (frontier seen : List Nat) :
    LevelSpec bs height frontier seen (level bs height frontier seen) := by
  obtain ⟨_, _, n1, n2, g⟩ := level_spec_aux bs height frontier ([], seen)
  refine ⟨?_, n2, g⟩
  intro x hx
  rcases n1 x hx with h | h
  · cases h
  · exact h

/-- the state of the walk at one level, relative to the distance `n`: some frontier block is `n` links from the
    target, no frontier block and no seen block is closer -/
structure Good (bs : Blocks) (h t n : Nat) (frontier seen : List Nat) : Prop where
  some_ : ∃ y ∈ frontier, PathU bs h t y n
  front : ∀ f ∈ frontier, ∀ m, PathU bs h t f m → n ≤ m
  seen_ : ∀ z ∈ seen, ∀ m, PathU bs h t z m → n ≤ m

theorem isMergedAux_complete (bs : Blocks) (h t : Nat) :
    ∀ (n fuel : Nat) (frontier seen : List Nat), Good bs h t n frontier seen → n < fuel →
      isMergedAux bs t h fuel frontier seen = true := by
  intro n
  induction n with
  | zero =>
    intro fuel frontier seen g hf
    obtain ⟨y, hy, hp⟩ := g.some_
    cases hp
    cases fuel with
    | zero => omega
    | succ k =>
      cases frontier with
      | nil => cases hy
      | cons c tl =>
        rw [isMergedAux_succ]
        have : (c :: tl).contains t = true := by simpa using hy
        rw [if_pos this]
  | succ n ih =>
    intro fuel frontier seen g hf
    cases fuel with
    | zero => omega
    | succ k =>
      obtain ⟨y, hy, hp⟩ := g.some_
      cases frontier with
      | nil => cases hy
      | cons c tl =>
        rw [isMergedAux_succ]
        by_cases hc : (c :: tl).contains t = true
        · rw [if_pos hc]
        · rw [if_neg hc]
          have ls := level_spec bs h (c :: tl) seen
          apply ih k _ _ _ (by omega)
          cases hp with
          | succ hg hh hpar hrest =>
            rename_i p b
            refine ⟨?_, ?_, ?_⟩
            · -- the next block of the path is in the next frontier: it cannot have been seen (it is closer)
              rcases ls.got y hy b hg hh p hpar with h1 | h1
              · exact ⟨p, h1, hrest⟩
              · have := g.seen_ p h1 n hrest; omega
            · intro f hf' m hm
              obtain ⟨c', hc', b', hb', hh', hp'⟩ := ls.new1 f hf'
              have := g.front c' hc' (m + 1) (PathU.succ hb' hh' hp' hm)
              omega
            · intro z hz m hm
              rcases ls.new2 z hz with h1 | h1
              · have := g.seen_ z h1 m hm; omega
              · obtain ⟨c', hc', b', hb', hh', hp'⟩ := ls.new1 z h1
                have := g.front c' hc' (m + 1) (PathU.succ hb' hh' hp' hm)
                omega

/-- among the lengths of paths from the heads there is a least one -/
theorem exists_min_path (bs : Blocks) (h t : Nat) (heads : List Nat) (k : Nat)
    (hk : ∃ y ∈ heads, PathU bs h t y k) :
    ∃ n, n ≤ k ∧ (∃ y ∈ heads, PathU bs h t y n) ∧ ∀ m, (∃ y ∈ heads, PathU bs h t y m) → n ≤ m := by
  induction k using Nat.strongRecOn with
  | _ k ih =>
    by_cases hsm : ∃ m, m < k ∧ ∃ y ∈ heads, PathU bs h t y m
    · obtain ⟨m, hm, hpm⟩ := hsm
      obtain ⟨n, hn, hp, hmin⟩ := ih m hm hpm
      exact ⟨n, by omega, hp, hmin⟩
    · refine ⟨k, Nat.le_refl _, hk, ?_⟩
      intro m hm
      apply Classical.byContradiction
      intro hlt
      exact hsm ⟨m, by omega, hm⟩

/-- **Completeness, given the fuel suffices:** if some head is `k` expandable links away from the target and the
    fuel exceeds `k`, `isMerged` says yes. -/
theorem isMerged_complete_of_path (bs : Blocks) (heads : List Nat) (t h k : Nat)
    (hk : ∃ y ∈ heads, PathU bs h t y k) (hfuel : k < bs.length + 2) : isMerged bs heads t h = true := by
  obtain ⟨n, hn, hp, hmin⟩ := exists_min_path bs h t heads k hk
  unfold isMerged
  apply isMergedAux_complete bs h t n _ heads []
  · refine ⟨hp, ?_, ?_⟩
    · intro f hf m hm; exact hmin m ⟨f, hf, hm⟩
    · intro z hz; cases hz
  · omega

end Defra.Crdt

namespace Defra.Crdt

/-- a well-formed block store: every parent of a stored block is stored and lies strictly lower (C04: closed under
    ancestry, height one more than the greatest parent height) -/
def WellFormed (bs : Blocks) : Prop :=
  ∀ y b, bs.get? y = some b → ∀ p ∈ b.parents, ∃ pb, bs.get? p = some pb ∧ pb.height < b.height

/-- a plain path of parent links through stored blocks -/
inductive Path (bs : Blocks) : Nat → Nat → Nat → Prop where
  | zero {t : Nat} : Path bs t t 0
  | succ {y p t : Nat} {b : Block} {n : Nat} : bs.get? y = some b → p ∈ b.parents → Path bs p t n → Path bs y t (n + 1)

theorem Path.snoc {bs : Blocks} {y z p : Nat} {b : Block} {n : Nat} (h : Path bs y z n) (hg : bs.get? z = some b)
    (hp : p ∈ b.parents) : Path bs y p (n + 1) := by
  induction h with
  | zero => exact Path.succ hg hp Path.zero
  | succ hg' hp' _ ih => exact Path.succ hg' hp' (ih hg)

theorem reach_path {bs : Blocks} {heads : List Nat} {t : Nat} (h : Reach bs heads t) :
    ∃ y ∈ heads, ∃ n, Path bs y t n := by
  induction h with
  | head hx => exact ⟨_, hx, 0, Path.zero⟩
  | parent _ hg hp ih =>
    obtain ⟨y, hy, n, hpath⟩ := ih
    exact ⟨y, hy, n + 1, hpath.snoc hg hp⟩

/-- along a path in a well-formed store heights do not increase, and the heights met are those of stored blocks,
    strictly decreasing: the list of heights from `y` down to (and including) `t` -/
theorem path_heights {bs : Blocks} (wf : WellFormed bs) {y t n : Nat} (h : Path bs y t n) (tb : Block)
    (ht : bs.get? t = some tb) :
    ∃ yb, bs.get? y = some yb ∧ tb.height ≤ yb.height ∧ PathU bs tb.height t y n ∧
      ∃ hs : List Nat, hs.length = n + 1 ∧ hs.Pairwise (· > ·) ∧ (∀ x ∈ hs, x ∈ bs.map (·.height)) ∧
        (∀ x ∈ hs, x ≤ yb.height) := by
  induction h with
  | zero =>
    refine ⟨tb, ht, Nat.le_refl _, PathU.zero, [tb.height], rfl, List.pairwise_singleton _ _, ?_, ?_⟩
    · intro x hx
      simp only [List.mem_singleton] at hx; subst hx
      exact List.mem_map.mpr ⟨tb, by unfold Blocks.get? at ht; exact List.mem_of_find?_eq_some ht, rfl⟩
    · intro x hx; simp only [List.mem_singleton] at hx; subst hx; exact Nat.le_refl _
  | @succ y p t' b n hg hp _ ih =>
    obtain ⟨pb, hpb, hle, hpu, hs, hlen, hdec, hmem, hub⟩ := ih ht
    obtain ⟨pb', hpb', hlt⟩ := wf y b hg p hp
    rw [hpb] at hpb'; cases hpb'
    refine ⟨b, hg, by omega, PathU.succ hg (by omega) hp hpu, b.height :: hs, by simp [hlen], ?_, ?_, ?_⟩
    · rw [List.pairwise_cons]
      exact ⟨fun x hx => by have := hub x hx; omega, hdec⟩
    · intro x hx
      rcases List.mem_cons.mp hx with rfl | hx
      · exact List.mem_map.mpr ⟨b, by unfold Blocks.get? at hg; exact List.mem_of_find?_eq_some hg, rfl⟩
      · exact hmem x hx
    · intro x hx
      rcases List.mem_cons.mp hx with rfl | hx
      · exact Nat.le_refl _
      · have := hub x hx; omega

theorem nodup_of_pairwise_gt {l : List Nat} (h : l.Pairwise (· > ·)) : l.Nodup := by
  induction l with
  | nil => exact List.nodup_nil
  | cons x t ih =>
    rw [List.pairwise_cons] at h
    rw [List.nodup_cons]
    exact ⟨fun hm => by have := h.1 x hm; omega, ih h.2⟩

/-- **`isMerged` recognises every merged commit.** In a well-formed block store, a stored commit that is one of the
    heads or an ancestor of a head is reported as merged (asked with its own height). With `isMerged_sound`:
    `isMerged` decides exactly "is a head or an ancestor of a head". -/
theorem isMerged_complete (bs : Blocks) (wf : WellFormed bs) (heads : List Nat) (t : Nat) (tb : Block)
    (ht : bs.get? t = some tb) (hr : Reach bs heads t) : isMerged bs heads t tb.height = true := by
  obtain ⟨y, hy, n, hpath⟩ := reach_path hr
  obtain ⟨_, _, _, hpu, hs, hlen, hdec, hmem, _⟩ := path_heights wf hpath tb ht
  have hle : hs.length ≤ (bs.map (·.height)).length :=
    (nodup_of_pairwise_gt hdec).length_le_of_subset (fun x hx => hmem x hx)
  rw [List.length_map] at hle
  exact isMerged_complete_of_path bs heads t tb.height n ⟨y, hy, hpu⟩ (by omega)

theorem isMerged_iff (bs : Blocks) (wf : WellFormed bs) (heads : List Nat) (t : Nat) (tb : Block)
    (ht : bs.get? t = some tb) : isMerged bs heads t tb.height = true ↔ Reach bs heads t :=
  ⟨isMerged_sound bs heads t tb.height, isMerged_complete bs wf heads t tb ht⟩

end Defra.Crdt
