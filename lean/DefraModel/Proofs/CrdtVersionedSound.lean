import DefraModel.Proofs.CrdtVersionedComplete
import DefraModel.Proofs.CrdtConverge

/-!
The versioned read replays nothing but the ancestors of the requested commit and what they link — and therefore
shows exactly the values of a replica that has merged that commit and nothing else (for Props/C03).
-/
namespace Defra.Crdt

/-! ### the worklist walk only reaches ancestors -/

theorem closureAux_sound (bs : Blocks) (P : Nat → Prop)
    (hstep : ∀ y b p, P y → bs.get? y = some b → p ∈ b.parents → P p) :
    ∀ (fuel : Nat) (work acc : List Nat), (∀ w ∈ work, P w) → (∀ a ∈ acc, P a) →
      ∀ x ∈ closureAux bs fuel work acc, P x := by
  intro fuel
  induction fuel with
  | zero => intro work acc _ ha x hx; unfold closureAux at hx; exact ha x hx
  | succ n ih =>
    intro work acc hw ha x hx
    cases work with
    | nil => unfold closureAux at hx; exact ha x hx
    | cons c rest =>
      unfold closureAux at hx
      have hrest : ∀ w ∈ rest, P w := fun w h => hw w (List.mem_cons_of_mem _ h)
      by_cases hc : acc.contains c = true
      · simp only [hc, if_true] at hx
        exact ih rest acc hrest ha x hx
      · simp only [hc, Bool.false_eq_true, if_false] at hx
        cases hg : bs.get? c with
        | none =>
          simp only [hg] at hx
          exact ih rest acc hrest ha x hx
        | some b =>
          simp only [hg] at hx
          apply ih (b.parents ++ rest) (acc ++ [c]) _ _ x hx
          · intro w hw'
            rcases List.mem_append.mp hw' with h | h
            · exact hstep c b w (hw c List.mem_cons_self) hg h
            · exact hrest w h
          · intro a ha'
            rcases List.mem_append.mp ha' with h | h
            · exact ha a h
            · simp only [List.mem_singleton] at h; subst h; exact hw a List.mem_cons_self

theorem seekQueue_sound (bs : Blocks) (c x : Nat) (hx : x ∈ seekQueue bs c) : Anc bs c x := by
  unfold seekQueue at hx
  apply closureAux_sound bs (Anc bs c) _ (seekFuel bs) [c] [] _ _ x hx
  · intro y b p ⟨n, hn⟩ hg hp
    exact ⟨n + 1, hn.snoc hg hp⟩
  · intro w hw; simp only [List.mem_singleton] at hw; subst hw; exact ⟨0, Path.zero⟩
  · intro a ha; cases ha

/-! ### `vmerge` only visits the block and what it links -/

/-- reachable through links -/
inductive LReach (bs : Blocks) (c : Nat) : Nat → Prop where
  | self : LReach bs c c
  | link {y l : Nat} {b : Block} : LReach bs c y → bs.get? y = some b → l ∈ b.links → LReach bs c l

theorem LReach.trans {bs : Blocks} {a b c : Nat} (h1 : LReach bs a b) (h2 : LReach bs b c) : LReach bs a c := by
  induction h2 with
  | self => exact h1
  | link _ hg hl ih => exact LReach.link ih hg hl

theorem vmerge_sound (bs : Blocks) : ∀ (fuel : Nat) (acc : Vals × List Nat) (c : Nat),
    ∀ x ∈ (vmerge bs fuel acc c).2, x ∈ acc.2 ∨ LReach bs c x := by
  intro fuel
  induction fuel with
  | zero => intro acc c x hx; unfold vmerge at hx; exact Or.inl hx
  | succ n ih =>
    intro acc c x hx
    obtain ⟨s, merged⟩ := acc
    unfold vmerge at hx
    by_cases hc : merged.contains c = true
    · simp only [hc, if_true] at hx; exact Or.inl hx
    · simp only [hc, Bool.false_eq_true, if_false] at hx
      cases hg : bs.get? c with
      | none =>
        simp only [hg] at hx
        rcases List.mem_append.mp hx with h | h
        · exact Or.inl h
        · simp only [List.mem_singleton] at h; subst h; exact Or.inr LReach.self
      | some b =>
        simp only [hg] at hx
        -- the fold over the links
        have fold : ∀ (ls : List Nat) (a : Vals × List Nat),
            ∀ x ∈ (ls.foldl (fun acc l => vmerge bs n acc l) a).2, x ∈ a.2 ∨ ∃ l ∈ ls, LReach bs l x := by
          intro ls
          induction ls with
          | nil => intro a x hx; exact Or.inl hx
          | cons l t iht =>
            intro a x hx
            simp only [List.foldl_cons] at hx
            rcases iht _ x hx with h | ⟨l', hl', hr⟩
            · rcases ih a l x h with h | h
              · exact Or.inl h
              · exact Or.inr ⟨l, List.mem_cons_self, h⟩
            · exact Or.inr ⟨l', List.mem_cons_of_mem _ hl', hr⟩
        rcases fold b.links _ x hx with h | ⟨l, hl, hr⟩
        · rcases List.mem_append.mp h with h | h
          · exact Or.inl h
          · simp only [List.mem_singleton] at h; subst h; exact Or.inr LReach.self
        · exact Or.inr ((LReach.link LReach.self hg hl).trans hr)

theorem vmerge_queue_sound (bs : Blocks) : ∀ (queue : List Block) (a : Vals × List Nat),
    ∀ x ∈ (queue.foldl (fun acc (b : Block) => vmerge bs (bs.length + 1) acc b.id) a).2,
      x ∈ a.2 ∨ ∃ q ∈ queue, LReach bs q.id x := by
  intro queue
  induction queue with
  | nil => intro a x hx; exact Or.inl hx
  | cons b t ih =>
    intro a x hx
    simp only [List.foldl_cons] at hx
    rcases ih _ x hx with h | ⟨q, hq, hr⟩
    · rcases vmerge_sound bs _ a b.id x h with h | h
      · exact Or.inl h
      · exact Or.inr ⟨b, List.mem_cons_self, h⟩
    · exact Or.inr ⟨q, List.mem_cons_of_mem _ hq, hr⟩

/-- **The versioned read replays exactly the ancestors and what they link, each once.** -/
theorem versionedVals_exact_sound (bs : Blocks) (c : Nat) :
    ∃ (ids : List Nat), ids.Nodup ∧
      versionedVals bs c = (ids.filterMap bs.get?).foldl applyDelta {} ∧
      (∀ (n x : Nat) (b : Block), Path bs c x n → bs.get? x = some b → x ∈ ids ∧ ∀ l ∈ b.links, l ∈ ids) ∧
      (∀ x ∈ ids, ∃ q qb, bs.get? q = some qb ∧ Anc bs c q ∧ LReach bs q x) := by
  unfold versionedVals
  have happ := applies_foldl bs (fun acc (b : Block) => vmerge bs (bs.length + 1) acc b.id)
    (fun acc b => vmerge_applies bs (bs.length + 1) acc b.id)
    (sortByHeight ((seekQueue bs c).filterMap bs.get?)) (({} : Vals), ([] : List Nat))
  obtain ⟨ids, applied, hv, hs, _, hn, hf⟩ := happ
  have hq := vmerge_queue_post bs (sortByHeight ((seekQueue bs c).filterMap bs.get?))
  simp only [List.nil_append] at hv
  refine ⟨ids, hn, by rw [hs, hf], ?_, ?_⟩
  · intro n x b hp hg
    have hxq : x ∈ seekQueue bs c := seekQueue_complete bs c n x hp (by rw [hg]; rfl)
    have hbq : b ∈ sortByHeight ((seekQueue bs c).filterMap bs.get?) := by
      apply (sortByHeight_perm _).mem_iff.mpr
      exact List.mem_filterMap.mpr ⟨x, hxq, hg⟩
    have hid := Blocks.get?_id hg
    have hx : x ∈ ids := by rw [← hv, ← hid]; exact hq.1 b hbq
    refine ⟨hx, ?_⟩
    intro l hl
    rw [← hv]
    exact hq.2 x (by rw [hv]; exact hx) b hg l hl
  · intro x hx
    rw [← hv] at hx
    rcases vmerge_queue_sound bs _ _ x hx with h | ⟨q, hq', hr⟩
    · cases h
    · have hq'' := (sortByHeight_perm _).mem_iff.mp hq'
      obtain ⟨i, hi, hgi⟩ := List.mem_filterMap.mp hq''
      have hid := Blocks.get?_id hgi
      refine ⟨q.id, q, by rw [hid]; exact hgi, ?_, hr⟩
      rw [hid]; exact seekQueue_sound bs c i hi

end Defra.Crdt

namespace Defra.Crdt

theorem lreach_comp (bs : Blocks) (swf : StoreWF2 bs) (q : Nat) (qb : Block) (hq : bs.get? q = some qb)
    (hk : qb.kind = .comp) (x : Nat) (h : LReach bs q x) : x = q ∨ x ∈ qb.links := by
  induction h with
  | self => exact Or.inl rfl
  | @link y l yb _ hg hl ih =>
    rcases ih with rfl | hy
    · rw [hq] at hg; cases hg; exact Or.inr hl
    · obtain ⟨_, hnl⟩ := swf.fieldLinks _ _ hq hk y hy yb hg
      rw [hnl] at hl; cases hl

/-- **A document read at a commit shows exactly the state of that commit**: the values the versioned read computes
    for commit `c` are the values of a replica that started empty and was delivered `c` — which has merged `c`, its
    ancestors, what they link, and nothing else. -/
theorem versioned_eq_delivered (cx : Ctx) (swf : StoreWF3 cx.blocks)
    (hknown : ∀ l, (cx.blocks.get? l).isSome = true → cx.known l = true)
    (c : Block) (hc : cx.blocks.get? c.id = some c) (hck : c.kind = .comp) :
    versionedVals cx.blocks c.id = ((mergeDoc cx {} c).doc c.doc).vals := by
  have hs0 : (({} : Replica).doc c.doc) = ({} : DocState) := rfl
  obtain ⟨hk0, hli0, ha0, _⟩ := docInv_empty cx.blocks
  have hk0' : KInv cx.blocks (({} : Replica).doc c.doc) := by rw [hs0]; exact hk0
  have hli0' : LinkInv cx.blocks (({} : Replica).doc c.doc) := by rw [hs0]; exact hli0
  have ha0' : Accounted cx.blocks (({} : Replica).doc c.doc) := by rw [hs0]; exact ha0
  obtain ⟨wfacts, hok, _, hreach, _⟩ := mergeDoc_full cx swf hknown {} c hc hck hk0' hli0'
  obtain ⟨l, hln, hlm, hlv⟩ := mergeDoc_accounted cx swf hknown {} c hc hck hk0' hli0' ha0'
  obtain ⟨ids, hin, hiv, hicomplete, hisound⟩ := versionedVals_exact_sound cx.blocks c.id
  rw [hs0] at wfacts hreach hok
  generalize hL : sortByHeight (loadComposites cx.blocks ({} : DocState).heads (cx.blocks.length + 1) c.id ([], [])).1 = L
    at wfacts hok hreach
  have hnoreach : ∀ k t, ¬ Reach cx.blocks (headsOf ({} : DocState) k) t := by
    intro k t; rw [headsOf_empty]; exact reach_nil cx.blocks t
  have swf2 := swf.base2
  -- both sides are folds over duplicate-free lists with the same members
  have hlvn : (ids.filterMap cx.blocks.get?).Nodup := by
    apply nodup_of_ids
    rw [childBlocks_ids]
    exact hin.sublist List.filter_sublist
  have hperm : (ids.filterMap cx.blocks.get?).Perm l := by
    apply (List.perm_ext_iff_of_nodup hlvn (nodup_of_ids hln)).mpr
    intro b
    rw [hlm b]
    constructor
    · intro hb
      obtain ⟨i, hi, hgi⟩ := List.mem_filterMap.mp hb
      have hid := Blocks.get?_id hgi
      have hbst : cx.blocks.get? b.id = some b := by rw [hid]; exact hgi
      obtain ⟨q, qb, hq, ⟨n, hn⟩, hlr⟩ := hisound i hi
      have hqk : qb.kind = .comp := (path_doc cx.blocks swf2 hn c hc hck qb hq).1
      have hqid := Blocks.get?_id hq
      have hqL : qb ∈ L := (wfacts.mem qb).mpr
        ⟨by rw [hqid]; exact hq, by rw [hqid]; exact ⟨n, hn⟩, hnoreach .comp _⟩
      have hbseq : b ∈ flatSeq cx.blocks L := by
        rcases lreach_comp cx.blocks swf2 q qb hq hqk i hlr with h | h
        · have : b = qb := by rw [h, hq] at hgi; exact (Option.some.inj hgi).symm
          rw [this]; exact mem_flatSeq.mpr (Or.inl hqL)
        · exact mem_flatSeq.mpr (Or.inr ⟨qb, hqL, mem_childBlocks.mpr ⟨i, h, hgi⟩⟩)
      exact ⟨hbst, (hok b hbseq).notCol, (hreach _ _).mpr (Or.inr ⟨b, hbseq, rfl, rfl⟩)⟩
    · rintro ⟨hbst, _, hr⟩
      rcases (hreach _ _).mp hr with h | ⟨e, he, hid, _⟩
      · exact absurd h (hnoreach _ _)
      · have heb : e = b := by
          have hest := (hok e he).stored
          rw [hid, hbst] at hest
          exact (Option.some.inj hest).symm
        subst heb
        apply List.mem_filterMap.mpr
        refine ⟨e.id, ?_, hbst⟩
        rcases mem_flatSeq.mp he with hL' | ⟨a, ha, hca⟩
        · obtain ⟨h1, ⟨n, hn⟩, _⟩ := (wfacts.mem e).mp hL'
          exact (hicomplete n e.id e hn h1).1
        · obtain ⟨h1, ⟨n, hn⟩, _⟩ := (wfacts.mem a).mp ha
          obtain ⟨l', hl', hg'⟩ := mem_childBlocks.mp hca
          rw [Blocks.get?_id hg']
          exact (hicomplete n a.id a hn h1).2 l' hl'
  rw [hiv, hlv]
  exact applyAll_perm {} _ _ hperm

end Defra.Crdt
