import DefraModel.Bytes
namespace Defra.Bytes

/-- strict lexicographic order decided at a position where the bytes differ
    (neither string is a prefix of the other) -/
def slt : Bytes → Bytes → Bool
  | a :: as, b :: bs => a < b || (a == b && slt as bs)
  | _, _ => false

@[simp] theorem slt_nil_left (b : Bytes) : slt [] b = false := by cases b <;> rfl
@[simp] theorem slt_nil_right (a : Bytes) : slt a [] = false := by cases a <;> rfl
@[simp] theorem slt_cons (a b : Nat) (as bs : Bytes) :
    slt (a :: as) (b :: bs) = (decide (a < b) || (a == b && slt as bs)) := rfl
@[simp] theorem lt_cons (a b : Nat) (as bs : Bytes) :
    lt (a :: as) (b :: bs) = (decide (a < b) || (a == b && lt as bs)) := rfl
@[simp] theorem lt_nil_nil : lt [] [] = false := rfl
@[simp] theorem lt_nil_cons (b : Nat) (bs : Bytes) : lt [] (b :: bs) = true := rfl
@[simp] theorem lt_cons_nil (a : Nat) (as : Bytes) : lt (a :: as) [] = false := rfl

theorem slt_imp_lt : ∀ (a b : Bytes), slt a b = true → lt a b = true
  | [], b, h => by simp at h
  | _ :: _, [], h => by simp at h
  | a :: as, b :: bs, h => by
    simp only [slt_cons, Bool.or_eq_true, Bool.and_eq_true, decide_eq_true_eq, beq_iff_eq] at h
    simp only [lt_cons, Bool.or_eq_true, Bool.and_eq_true, decide_eq_true_eq, beq_iff_eq]
    rcases h with h | ⟨h1, h2⟩
    · exact Or.inl h
    · exact Or.inr ⟨h1, slt_imp_lt as bs h2⟩

theorem lt_irrefl : ∀ (a : Bytes), lt a a = false
  | [] => rfl
  | a :: as => by simp [lt_irrefl as]

theorem lt_asymm : ∀ (a b : Bytes), lt a b = true → lt b a = false
  | [], [], h => by simp at h
  | [], _ :: _, _ => rfl
  | _ :: _, [], h => by simp at h
  | a :: as, b :: bs, h => by
    simp only [lt_cons, Bool.or_eq_true, Bool.and_eq_true, decide_eq_true_eq, beq_iff_eq] at h
    simp only [lt_cons, Bool.or_eq_false_iff, decide_eq_false_iff_not, Bool.and_eq_false_iff]
    rcases h with h | ⟨h1, h2⟩
    · exact ⟨by omega, Or.inl (by simp; omega)⟩
    · exact ⟨by omega, Or.inr (lt_asymm as bs h2)⟩

theorem lt_trans : ∀ (a b c : Bytes), lt a b = true → lt b c = true → lt a c = true
  | [], [], _, h, _ => by simp at h
  | [], _ :: _, [], _, h => by simp at h
  | [], _ :: _, _ :: _, _, _ => rfl
  | _ :: _, [], _, h, _ => by simp at h
  | _ :: _, _ :: _, [], _, h => by simp at h
  | a :: as, b :: bs, c :: cs, h1, h2 => by
    simp only [lt_cons, Bool.or_eq_true, Bool.and_eq_true, decide_eq_true_eq, beq_iff_eq] at *
    rcases h1 with h1 | ⟨e1, h1⟩ <;> rcases h2 with h2 | ⟨e2, h2⟩
    · exact Or.inl (by omega)
    · exact Or.inl (by omega)
    · exact Or.inl (by omega)
    · exact Or.inr ⟨by omega, lt_trans as bs cs h1 h2⟩

/-- total: two different strings are ordered one way or the other -/
theorem lt_total : ∀ (a b : Bytes), a ≠ b → lt a b = true ∨ lt b a = true
  | [], [], h => by simp at h
  | [], _ :: _, _ => Or.inl rfl
  | _ :: _, [], _ => Or.inr rfl
  | a :: as, b :: bs, h => by
    simp only [lt_cons, Bool.or_eq_true, Bool.and_eq_true, decide_eq_true_eq, beq_iff_eq]
    by_cases hab : a = b
    · subst hab
      have : as ≠ bs := fun e => h (by rw [e])
      rcases lt_total as bs this with h | h
      · exact Or.inl (Or.inr ⟨rfl, h⟩)
      · exact Or.inr (Or.inr ⟨rfl, h⟩)
    · rcases Nat.lt_or_gt_of_ne hab with h | h
      · exact Or.inl (Or.inl h)
      · exact Or.inr (Or.inl h)

theorem slt_append : ∀ (a b s t : Bytes), slt a b = true → slt (a ++ s) (b ++ t) = true
  | [], b, _, _, h => by simp at h
  | _ :: _, [], _, _, h => by simp at h
  | a :: as, b :: bs, s, t, h => by
    simp only [slt_cons, Bool.or_eq_true, Bool.and_eq_true, decide_eq_true_eq, beq_iff_eq] at h
    simp only [List.cons_append, slt_cons, Bool.or_eq_true, Bool.and_eq_true, decide_eq_true_eq, beq_iff_eq]
    rcases h with h | ⟨h1, h2⟩
    · exact Or.inl h
    · exact Or.inr ⟨h1, slt_append as bs s t h2⟩

@[simp] theorem slt_prefix : ∀ (p a b : Bytes), slt (p ++ a) (p ++ b) = slt a b
  | [], _, _ => rfl
  | x :: p, a, b => by simp [slt_prefix p a b]

@[simp] theorem lt_prefix : ∀ (p a b : Bytes), lt (p ++ a) (p ++ b) = lt a b
  | [], _, _ => rfl
  | x :: p, a, b => by simp [lt_prefix p a b]

theorem slt_cons_same (x : Nat) (a b : Bytes) : slt (x :: a) (x :: b) = slt a b := by simp

/-- `slt` excludes the prefix relation in both directions -/
theorem slt_not_prefix_left : ∀ (a b : Bytes), slt a b = true → isPrefix a b = false
  | [], b, h => by simp at h
  | _ :: _, [], _ => rfl
  | a :: as, b :: bs, h => by
    simp only [slt_cons, Bool.or_eq_true, Bool.and_eq_true, decide_eq_true_eq, beq_iff_eq] at h
    simp only [isPrefix, Bool.and_eq_false_iff]
    rcases h with h | ⟨_, h2⟩
    · exact Or.inl (by simp; omega)
    · exact Or.inr (slt_not_prefix_left as bs h2)

theorem slt_not_prefix_right : ∀ (a b : Bytes), slt a b = true → isPrefix b a = false
  | [], b, h => by simp at h
  | _ :: _, [], h => by simp at h
  | a :: as, b :: bs, h => by
    simp only [slt_cons, Bool.or_eq_true, Bool.and_eq_true, decide_eq_true_eq, beq_iff_eq] at h
    simp only [isPrefix, Bool.and_eq_false_iff]
    rcases h with h | ⟨_, h2⟩
    · exact Or.inl (by simp; omega)
    · exact Or.inr (slt_not_prefix_right as bs h2)

theorem isPrefix_iff : ∀ (p b : Bytes), isPrefix p b = true ↔ ∃ s, b = p ++ s
  | [], b => by simp [isPrefix]
  | _ :: _, [] => by simp [isPrefix]
  | x :: p, y :: b => by
    simp only [isPrefix, Bool.and_eq_true, beq_iff_eq, List.cons_append, List.cons.injEq]
    rw [isPrefix_iff p b]
    constructor
    · rintro ⟨rfl, s, rfl⟩; exact ⟨s, rfl, rfl⟩
    · rintro ⟨s, rfl, rfl⟩; exact ⟨rfl, s, rfl⟩

/-- ones-complement reverses `slt` on byte strings -/
theorem slt_compl : ∀ (a b : Bytes), IsBytes a → IsBytes b → slt a b = true → slt (compl b) (compl a) = true
  | [], b, _, _, h => by simp at h
  | _ :: _, [], _, _, h => by simp at h
  | a :: as, b :: bs, ha, hb, h => by
    simp only [slt_cons, Bool.or_eq_true, Bool.and_eq_true, decide_eq_true_eq, beq_iff_eq] at h
    have ha0 : a < 256 := ha a (by simp)
    have hb0 : b < 256 := hb b (by simp)
    have ha' : IsBytes as := fun x hx => ha x (by simp [hx])
    have hb' : IsBytes bs := fun x hx => hb x (by simp [hx])
    simp only [compl, List.map_cons, slt_cons, Bool.or_eq_true, Bool.and_eq_true, decide_eq_true_eq, beq_iff_eq]
    rcases h with h | ⟨h1, h2⟩
    · exact Or.inl (by omega)
    · exact Or.inr ⟨by omega, slt_compl as bs ha' hb' h2⟩

theorem isBytes_append {a b : Bytes} (ha : IsBytes a) (hb : IsBytes b) : IsBytes (a ++ b) := by
  intro x hx
  rcases List.mem_append.mp hx with h | h
  · exact ha x h
  · exact hb x h

theorem isBytes_cons {x : Nat} {a : Bytes} (hx : x < 256) (ha : IsBytes a) : IsBytes (x :: a) := by
  intro y hy
  rcases List.mem_cons.mp hy with h | h
  · omega
  · exact ha y h

theorem isBytes_nil : IsBytes [] := by intro x hx; simp at hx

theorem isBytes_compl (a : Bytes) : IsBytes (compl a) := by
  intro x hx
  simp only [compl, List.mem_map] at hx
  obtain ⟨y, _, rfl⟩ := hx
  omega

theorem compl_compl : ∀ (a : Bytes), IsBytes a → compl (compl a) = a
  | [], _ => rfl
  | x :: a, h => by
    have hx : x < 256 := h x (by simp)
    have ha : IsBytes a := fun y hy => h y (by simp [hy])
    have := compl_compl a ha
    simp only [compl, List.map_cons, List.map_map] at this ⊢
    rw [List.cons.injEq]; exact ⟨by omega, by simpa using this⟩

/-- from "strictly increasing into slt" to the iff with `lt`, for any linear order given by trichotomy -/
theorem iff_of_mono {α : Type} (r : α → α → Prop) (enc : α → Bytes)
    (tri : ∀ a b, r a b ∨ a = b ∨ r b a)
    (mono : ∀ a b, r a b → slt (enc a) (enc b) = true)
    (a b : α) :
    r a b ↔ lt (enc a) (enc b) = true := by
  constructor
  · intro h; exact slt_imp_lt _ _ (mono a b h)
  · intro h
    rcases tri a b with h' | h' | h'
    · exact h'
    · subst h'; rw [lt_irrefl] at h; cases h
    · have := lt_asymm _ _ (slt_imp_lt _ _ (mono b a h')); rw [h] at this; cases this

end Defra.Bytes
