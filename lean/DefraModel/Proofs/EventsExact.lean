/-
Whole-history facts about the bus model (no hypothesis on what the subscriber in question does):
what any subscriber receives is an in-order sub-sequence of what was published (never a duplicate, never an
invented message); a closed bus stays as it is; a subscriber that is not subscribed receives nothing.
Core-only.
-/
import DefraModel.Proofs.EventsFifo
namespace Defra.Events

/-- all publications of a command list, in queue order -/
def pubs (cmds : List Cmd) : List (Name × Nat) :=
  cmds.filterMap (fun c => match c with
    | .publish n p => some (n, p)
    | _ => none)

theorem pubs_cons (c : Cmd) (rest : List Cmd) : pubs (c :: rest) = pubs [c] ++ pubs rest := by
  unfold pubs
  rw [← List.filterMap_append]
  rfl

theorem step_received_sub (b : Bus) (c : Cmd) (id : Nat) :
    ∃ l, (step b c).received id = b.received id ++ l ∧ l.Sublist (pubs [c]) := by
  cases c with
  | close =>
    refine ⟨[], ?_, by simp⟩
    simp only [step]; split <;> simp
  | subscribe j ns =>
    refine ⟨[], ?_, by simp⟩
    simp only [step]; split <;> simp
  | unsubscribe j =>
    refine ⟨[], ?_, by simp⟩
    simp only [step]; split <;> simp
  | publish n p =>
    by_cases hc : b.closed = true
    · exact ⟨[], by simp [step, hc], by simp⟩
    · by_cases hw : b.wants id n = true
      · exact ⟨[(n, p)], by simp [step, hc, hw], by simp [pubs]⟩
      · exact ⟨[], by simp [step, hc, hw], by simp⟩

/-- **never more than what was published, and in publication order**: over ANY command history — the
    subscriber itself and all others subscribing, unsubscribing and re-subscribing at will, the bus being
    closed at any point — what a subscriber has received beyond its earlier buffer is a sub-sequence of the
    publications queued: no message twice, none invented, none out of order -/
theorem received_sublist (cmds : List Cmd) : ∀ (b : Bus) (id : Nat),
    ∃ l, (run b cmds).received id = b.received id ++ l ∧ l.Sublist (pubs cmds) := by
  induction cmds with
  | nil => intro b id; exact ⟨[], by simp [run], by simp⟩
  | cons c rest ih =>
    intro b id
    obtain ⟨l1, h1, s1⟩ := step_received_sub b c id
    obtain ⟨l2, h2, s2⟩ := ih (step b c) id
    refine ⟨l1 ++ l2, ?_, ?_⟩
    · show (run (step b c) rest).received id = _
      rw [h2, h1, List.append_assoc]
    · rw [pubs_cons]; exact List.Sublist.append s1 s2

theorem step_closed (b : Bus) (c : Cmd) (h : b.closed = true) : step b c = b := by
  cases c <;> simp [step, h]

/-- a closed bus delivers nothing and accepts nobody -/
theorem run_closed (cmds : List Cmd) (b : Bus) (h : b.closed = true) : run b cmds = b := by
  induction cmds with
  | nil => rfl
  | cons c rest ih => show run (step b c) rest = b; rw [step_closed b c h]; exact ih

/-- "subscriber `id` is not subscribed to anything" -/
def Unsubscribed (b : Bus) (id : Nat) : Prop := ∀ s ∈ b.subs, s.1 ≠ id

theorem unsubscribed_wants (b : Bus) (id : Nat) (h : Unsubscribed b id) (n : Name) : b.wants id n = false := by
  unfold Bus.wants
  rw [List.any_eq_false]
  intro s hs
  have := h s hs
  simp [this]

/-- commands other than a subscription of `id` -/
def Cmd.notSubscribe (id : Nat) : Cmd → Bool
  | .subscribe i _ => i != id
  | _ => true

theorem step_unsubscribed (b : Bus) (c : Cmd) (id : Nat) (h : Unsubscribed b id)
    (hc : c.notSubscribe id = true) : Unsubscribed (step b c) id ∧ (step b c).received id = b.received id := by
  cases c with
  | close =>
    by_cases hcl : b.closed = true
    · simp [step, hcl, h]
    · refine ⟨?_, by simp [step, hcl]⟩
      intro s hs; simp [step, hcl] at hs
  | subscribe j ns =>
    have hj : j ≠ id := by simpa [Cmd.notSubscribe] using hc
    by_cases hcl : b.closed = true
    · simp [step, hcl, h]
    · refine ⟨?_, by simp [step, hcl]⟩
      intro s hs
      simp only [step, hcl, Bool.false_eq_true, if_false, List.mem_append, List.mem_filter, List.mem_singleton] at hs
      rcases hs with ⟨hm, _⟩ | rfl
      · exact h s hm
      · exact hj
  | unsubscribe j =>
    by_cases hcl : b.closed = true
    · simp [step, hcl, h]
    · refine ⟨?_, by simp [step, hcl]⟩
      intro s hs
      simp only [step, hcl, Bool.false_eq_true, if_false, List.mem_filter] at hs
      exact h s hs.1
  | publish n p =>
    by_cases hcl : b.closed = true
    · simp [step, hcl, h]
    · refine ⟨by simpa [step, hcl, Unsubscribed] using h, ?_⟩
      simp [step, hcl, unsubscribed_wants b id h n]

/-- **nothing for those who did not ask**: a subscriber that is not subscribed (never was, or unsubscribed)
    receives nothing until it subscribes, whatever is published and whatever the others do -/
theorem unsubscribed_receives_nothing (cmds : List Cmd) : ∀ (b : Bus) (id : Nat),
    Unsubscribed b id → (∀ c ∈ cmds, c.notSubscribe id = true) →
    (run b cmds).received id = b.received id := by
  induction cmds with
  | nil => intro b id _ _; rfl
  | cons c rest ih =>
    intro b id h hk
    obtain ⟨u1, r1⟩ := step_unsubscribed b c id h (hk c (by simp))
    show (run (step b c) rest).received id = _
    rw [ih (step b c) id u1 (fun c' hc' => hk c' (by simp [hc'])), r1]

/-- after `unsubscribe id` on an open bus the subscriber is unsubscribed -/
theorem unsubscribe_unsubscribes (b : Bus) (id : Nat) : Unsubscribed (step b (.unsubscribe id)) id ∨ b.closed = true := by
  by_cases hcl : b.closed = true
  · exact Or.inr hcl
  · refine Or.inl ?_
    intro s hs
    simp only [step, hcl, Bool.false_eq_true, if_false, List.mem_filter] at hs
    simpa using hs.2

/-- after `subscribe id names` on an open bus the subscriber is subscribed exactly to `names`
    (a re-subscription replaces the earlier one) -/
theorem subscribe_subscribes (b : Bus) (id : Nat) (names : List Name) (h : b.closed = false) :
    SubscribedTo (step b (.subscribe id names)) id names := by
  refine ⟨by simp [step, h], fun n => ?_⟩
  simp only [step, h, Bool.false_eq_true, if_false, Bus.wants, List.any_append, List.any_cons, List.any_nil,
    Bool.or_false, beq_self_eq_true, Bool.true_and]
  have : (b.subs.filter (fun s => s.1 != id)).any
      (fun s => s.1 == id && (s.2.contains n || s.2.contains wildcard)) = false := by
    rw [List.any_eq_false]
    intro s hs
    have := (List.mem_filter.mp hs).2
    have hne : s.1 ≠ id := by simpa using this
    simp [hne]
  rw [this, Bool.false_or]

end Defra.Events
