import DefraModel.Index.Maint

/-! The index holds exactly the entries of the live documents after every history (for Props/C07). -/
namespace Defra.IndexMaint

variable {α κ : Type} [DecidableEq κ]

theorem inv_build (key : α → κ) (docs : List (Nat × α)) (h : (docs.map (·.1)).Nodup) : Inv key (build key docs) :=
  ⟨h, List.Perm.refl _⟩

theorem expected_map_update (key : α → κ) (docs : List (Nat × α)) (id : Nat) (a : α) (old : Nat × α)
    (hn : (docs.map (·.1)).Nodup) (hf : docs.find? (·.1 == id) = some old) :
    (expected key (docs.map (fun d => if d.1 == id then (id, a) else d))).Perm
      (((expected key docs).erase (key old.2, id)) ++ [(key a, id)]) := by
  induction docs with
  | nil => simp at hf
  | cons d t ih =>
    simp only [List.map_cons, List.nodup_cons] at hn
    simp only [List.find?_cons] at hf
    by_cases hd : (d.1 == id) = true
    · simp only [hd] at hf
      obtain rfl : d = old := by simpa using hf
      have hid : d.1 = id := by simpa using hd
      -- no other document has this identifier: the rest is untouched
      have hrest : t.map (fun d => if d.1 == id then (id, a) else d) = t := by
        refine (List.map_congr_left ?_).trans (List.map_id _)
        intro x hx
        have : x.1 ≠ id := by
          intro h; apply hn.1; rw [hid, ← h]; exact List.mem_map.mpr ⟨x, hx, rfl⟩
        simp [this]
      simp only [expected, List.map_cons, hd, if_true, hrest]
      rw [← hid, List.erase_cons_head]
      exact (List.perm_append_singleton _ _).symm
    · simp only [hd] at hf
      have hne : (key d.2, d.1) ≠ (key old.2, id) := by
        intro h
        have : d.1 = id := (Prod.mk.inj h).2
        exact hd (by simp [this])
      have iht := ih hn.2 hf
      simp only [expected, List.map_cons, hd, Bool.false_eq_true, if_false]
      rw [List.erase_cons_tail (by simpa using hne)]
      exact List.Perm.cons _ iht

theorem mem_expected_of_find (key : α → κ) (docs : List (Nat × α)) (id : Nat) (old : Nat × α)
    (hf : docs.find? (·.1 == id) = some old) : (key old.2, id) ∈ expected key docs := by
  have hm := List.mem_of_find?_eq_some hf
  have hid : old.1 = id := by simpa using List.find?_some hf
  exact List.mem_map.mpr ⟨old, hm, by rw [hid]⟩

theorem expected_filter_delete (key : α → κ) (docs : List (Nat × α)) (id : Nat) (old : Nat × α)
    (hn : (docs.map (·.1)).Nodup) (hf : docs.find? (·.1 == id) = some old) :
    (expected key (docs.filter (fun d => !(d.1 == id)))).Perm ((expected key docs).erase (key old.2, id)) := by
  induction docs with
  | nil => simp at hf
  | cons d t ih =>
    simp only [List.map_cons, List.nodup_cons] at hn
    simp only [List.find?_cons] at hf
    by_cases hd : (d.1 == id) = true
    · simp only [hd] at hf
      obtain rfl : d = old := by simpa using hf
      have hid : d.1 = id := by simpa using hd
      have hrest : t.filter (fun d => !(d.1 == id)) = t := by
        apply List.filter_eq_self.mpr
        intro x hx
        have : x.1 ≠ id := by
          intro h; apply hn.1; rw [hid, ← h]; exact List.mem_map.mpr ⟨x, hx, rfl⟩
        simp [this]
      simp only [expected, List.filter_cons, hd, Bool.not_true, Bool.false_eq_true, if_false, hrest, List.map_cons]
      rw [← hid, List.erase_cons_head]
    · simp only [hd] at hf
      have hne : (key d.2, d.1) ≠ (key old.2, id) := by
        intro h
        have : d.1 = id := (Prod.mk.inj h).2
        exact hd (by simp [this])
      have iht := ih hn.2 hf
      simp only [expected, List.filter_cons, hd, Bool.not_false, if_true, List.map_cons]
      rw [List.erase_cons_tail (by simpa using hne)]
      exact List.Perm.cons _ iht

theorem ids_update (docs : List (Nat × α)) (id : Nat) (a : α) :
    (docs.map (fun d => if d.1 == id then (id, a) else d)).map (·.1) = docs.map (·.1) := by
  induction docs with
  | nil => rfl
  | cons d t ih =>
    simp only [List.map_cons, ih]
    congr 1
    by_cases hd : (d.1 == id) = true
    · simp only [hd, if_true]; exact (by simpa using hd : d.1 = id).symm
    · simp [hd]

theorem step_inv (key : α → κ) (s : St α κ) (op : Op α) (h : Inv key s) : Inv key (step key s op) := by
  obtain ⟨hn, hp⟩ := h
  cases op with
  | create id a =>
    simp only [step]
    by_cases hany : s.docs.any (·.1 == id) = true
    · simp only [hany, if_true]; exact ⟨hn, hp⟩
    · simp only [hany, Bool.false_eq_true, if_false]
      refine ⟨?_, ?_⟩
      · simp only [List.map_append, List.map_cons, List.map_nil]
        rw [List.nodup_append]
        refine ⟨hn, by simp, ?_⟩
        intro x hx y hy hxy
        simp only [List.mem_singleton] at hy
        subst hy; subst hxy
        obtain ⟨d, hd, hdx⟩ := List.mem_map.mp hx
        exact hany (List.any_eq_true.mpr ⟨d, hd, by simp [hdx]⟩)
      · simp only [expected, List.map_append, List.map_cons, List.map_nil]
        exact List.Perm.append_right _ hp
  | update id a =>
    simp only [step]
    cases hf : s.docs.find? (·.1 == id) with
    | none => exact ⟨hn, hp⟩
    | some old =>
      simp only
      refine ⟨by rw [ids_update]; exact hn, ?_⟩
      refine List.Perm.trans ?_ (expected_map_update key s.docs id a old hn hf).symm
      exact List.Perm.append_right _ (hp.erase _)
  | delete id =>
    simp only [step]
    cases hf : s.docs.find? (·.1 == id) with
    | none => exact ⟨hn, hp⟩
    | some old =>
      simp only
      refine ⟨?_, ?_⟩
      · exact (List.filter_sublist.map _).nodup hn
      · exact List.Perm.trans (hp.erase _) (expected_filter_delete key s.docs id old hn hf).symm

theorem run_inv (key : α → κ) (s : St α κ) (ops : List (Op α)) (h : Inv key s) :
    Inv key (ops.foldl (step key) s) := by
  induction ops generalizing s with
  | nil => exact h
  | cons op t ih => exact ih _ (step_inv key s op h)

end Defra.IndexMaint
