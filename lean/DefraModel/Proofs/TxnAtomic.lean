import DefraModel.Kv.TxnM
namespace Defra.Kv

/-- a program that ends in `ok` met no fault: it behaves exactly as in the fault-free run -/
theorem run_ok_eq_faultfree {α : Type} (fails : Nat → Bool) :
    ∀ (p : Prog α) (t : Txn) (a : α) (t' : Txn), run fails p t = (.ok a, t') →
      run (fun _ => false) p t = (.ok a, t')
  | .pure x, t, a, t', h => by simpa [run] using h
  | .fail, t, a, t', h => by simp [run] at h
  | .get k cont, t, a, t', h => by
    simp only [run] at h ⊢
    by_cases hf : fails (t.ticks + 1) = true
    · simp [hf] at h
    · simp only [hf, Bool.false_eq_true, if_false] at h ⊢
      exact run_ok_eq_faultfree fails _ _ a t' h
  | .has k cont, t, a, t', h => by
    simp only [run] at h ⊢
    by_cases hf : fails (t.ticks + 1) = true
    · simp [hf] at h
    · simp only [hf, Bool.false_eq_true, if_false] at h ⊢
      exact run_ok_eq_faultfree fails _ _ a t' h
  | .set k v cont, t, a, t', h => by
    simp only [run] at h ⊢
    by_cases hf : fails (t.ticks + 1) = true
    · simp [hf] at h
    · simp only [hf, Bool.false_eq_true, if_false] at h ⊢
      exact run_ok_eq_faultfree fails _ _ a t' h
  | .del k cont, t, a, t', h => by
    simp only [run] at h ⊢
    by_cases hf : fails (t.ticks + 1) = true
    · simp [hf] at h
    · simp only [hf, Bool.false_eq_true, if_false] at h ⊢
      exact run_ok_eq_faultfree fails _ _ a t' h
  | .scan p keys cont, t, a, t', h => by
    simp only [run] at h ⊢
    by_cases hf : fails (t.ticks + 1) = true
    · simp [hf] at h
    · simp only [hf, Bool.false_eq_true, if_false] at h ⊢
      exact run_ok_eq_faultfree fails _ _ a t' h
  | .onSuccess e cont, t, a, t', h => by
    simp only [run] at h ⊢
    exact run_ok_eq_faultfree fails _ _ a t' h

/-- running a program never touches the snapshot: writes only go to the buffer -/
theorem run_snapshot {α : Type} (fails : Nat → Bool) :
    ∀ (p : Prog α) (t : Txn), (run fails p t).2.snapshot = t.snapshot
  | .pure _, t => rfl
  | .fail, t => rfl
  | .get k cont, t => by
    simp only [run]; split
    · rfl
    · rw [run_snapshot fails _ _]
  | .has k cont, t => by
    simp only [run]; split
    · rfl
    · rw [run_snapshot fails _ _]
  | .set k v cont, t => by
    simp only [run]; split
    · rfl
    · rw [run_snapshot fails _ _]
  | .del k cont, t => by
    simp only [run]; split
    · rfl
    · rw [run_snapshot fails _ _]
  | .scan p keys cont, t => by
    simp only [run]; split
    · rfl
    · rw [run_snapshot fails _ _]
  | .onSuccess e cont, t => by
    simp only [run]; rw [run_snapshot fails _ _]

theorem withTxn_cases {α : Type} (fails : Nat → Bool) (body : Prog α) (store : Store) :
    ((withTxn fails body store).res = .err ∧ (withTxn fails body store).store = store ∧
      (withTxn fails body store).published = []) ∨
    (∃ a t, run fails body { snapshot := store } = (.ok a, t) ∧ fails (t.ticks + 1) = false ∧
      (withTxn fails body store).res = .ok a ∧ (withTxn fails body store).store = t.view ∧
      (withTxn fails body store).published = t.callbacks) := by
  unfold withTxn
  cases h : run fails body { snapshot := store } with
  | mk r t =>
    cases r with
    | err => exact Or.inl ⟨rfl, rfl, rfl⟩
    | ok a =>
      simp only
      by_cases hf : fails (t.ticks + 1) = true
      · simp [hf]
      · simp only [hf, Bool.false_eq_true, if_false]
        refine Or.inr ⟨a, t, rfl, by simpa using hf, ?_, ?_, ?_⟩ <;> simp

theorem runCalls_append {α : Type} (l₁ l₂ : List ((Nat → Bool) × Prog α)) (s : Store) :
    runCalls (l₁ ++ l₂) s =
      ((runCalls l₂ (runCalls l₁ s).1).1, (runCalls l₁ s).2 ++ (runCalls l₂ (runCalls l₁ s).1).2) := by
  induction l₁ generalizing s with
  | nil => simp [runCalls]
  | cons c l ih =>
    obtain ⟨f, p⟩ := c
    simp only [List.cons_append, runCalls]
    rw [ih]
    simp [List.append_assoc]

end Defra.Kv
