import DefraModel.Proofs.CrdtWalk
import DefraModel.Proofs.CrdtIsMerged
import DefraModel.Proofs.CrdtHeads

/-!
End to end at the composite level: one incoming commit merged by `executeMerge` (`loadComposites`, `sortByHeight`,
then per block `isMerged` / `updateHeads` / the delta) — for Props/C01 and Props/C02.
-/
namespace Defra.Crdt

/-! ### the walk only collects stored, unmerged ancestors of the start -/

theorem loadComposites_sound (bs : Blocks) (heads : List Nat) (c0 : Nat)
    (P : Block → Prop)
    (hP : ∀ x b, UPath bs heads c0 x → bs.get? x = some b → isMerged bs heads x b.height = false → P b) :
    ∀ (fuel c : Nat) (acc : List Block × List Nat), UPath bs heads c0 c → (∀ b ∈ acc.1, P b) →
      ∀ b ∈ (loadComposites bs heads fuel c acc).1, P b := by
  intro fuel
  induction fuel with
  | zero => intro c acc _ h; simpa [loadComposites] using h
  | succ n ih =>
    intro c acc hc h
    obtain ⟨coll, visited⟩ := acc
    unfold loadComposites
    by_cases hv : visited.contains c = true
    · simp only [hv, if_true]; exact h
    · simp only [hv, Bool.false_eq_true, if_false]
      cases hg : bs.get? c with
      | none => exact h
      | some blk =>
        simp only
        by_cases hm : isMerged bs heads c blk.height = true
        · simp only [hm, if_true]; exact h
        · simp only [hm, Bool.false_eq_true, if_false]
          have hm' : isMerged bs heads c blk.height = false := by simpa using hm
          have hstart : ∀ b ∈ ((blk :: coll, visited ++ [c]) : List Block × List Nat).1, P b := by
            intro b hb
            rcases List.mem_cons.mp hb with rfl | hb
            · exact hP c _ hc hg hm'
            · exact h b hb
          have hps : ∀ p ∈ blk.parents, UPath bs heads c0 p := fun p hp => UPath.step hc hg hm' hp
          generalize blk.parents = ps at hps
          generalize ((blk :: coll, visited ++ [c]) : List Block × List Nat) = acc0 at hstart
          induction ps generalizing acc0 with
          | nil => exact hstart
          | cons p t iht =>
            simp only [List.foldl_cons]
            exact iht (fun q hq => hps q (List.mem_cons_of_mem _ hq)) _ (ih p acc0 (hps p List.mem_cons_self) hstart)

/-! ### `sortByHeight` sorts -/

theorem insertByHeight_sorted (b : Block) (l : List Block) (h : l.Pairwise (fun x y => x.height ≤ y.height)) :
    (insertByHeight b l).Pairwise (fun x y => x.height ≤ y.height) := by
  induction l with
  | nil => simp [insertByHeight]
  | cons x xs ih =>
    unfold insertByHeight
    rw [List.pairwise_cons] at h
    split
    · rename_i hlt
      rw [List.pairwise_cons]
      refine ⟨?_, List.pairwise_cons.mpr h⟩
      intro y hy
      rcases List.mem_cons.mp hy with rfl | hy
      · exact Nat.le_of_lt hlt
      · exact Nat.le_trans (Nat.le_of_lt hlt) (h.1 y hy)
    · rename_i hge
      rw [List.pairwise_cons]
      refine ⟨?_, ih h.2⟩
      intro y hy
      have := (insertByHeight_perm b xs).mem_iff.mp hy
      rcases List.mem_cons.mp this with rfl | hy'
      · exact Nat.le_of_not_lt hge
      · exact h.1 y hy'

theorem sortByHeight_sorted (l : List Block) : (sortByHeight l).Pairwise (fun x y => x.height ≤ y.height) := by
  unfold sortByHeight
  have : ∀ (l acc : List Block), acc.Pairwise (fun x y => x.height ≤ y.height) →
      (l.foldl (fun acc b => insertByHeight b acc) acc).Pairwise (fun x y => x.height ≤ y.height) := by
    intro l
    induction l with
    | nil => intro acc h; exact h
    | cons x xs ih => intro acc h; exact ih _ (insertByHeight_sorted x acc h)
  exact this l [] List.Pairwise.nil

/-! ### the merged set after `updateHeads` -/

theorem reach_updateHeads (bs : Blocks) (heads : List Nat) (b : Block) (hn : heads.Nodup)
    (hget : bs.get? b.id = some b) (hself : b.id ∉ b.parents ++ b.links)
    (hpar : ∀ p ∈ b.parents, Reach bs heads p) (hlinks : ∀ l ∈ b.links, l ∉ heads) (t : Nat) :
    Reach bs (updateHeads (fun _ => true) heads b) t ↔ (Reach bs heads t ∨ t = b.id) := by
  have hmem := updateHeads_mem heads b hn hself
  constructor
  · intro h
    induction h with
    | head hx =>
      rcases (hmem _).mp hx with rfl | ⟨h1, _⟩
      · exact Or.inr rfl
      · exact Or.inl (Reach.head h1)
    | parent _ hg hp ih =>
      rcases ih with ih | ih
      · exact Or.inl (Reach.parent ih hg hp)
      · subst ih
        rw [hget] at hg; cases hg
        exact Or.inl (hpar _ hp)
  · rintro (h | rfl)
    · induction h with
      | head hx =>
        rename_i x
        by_cases hxp : x ∈ b.parents
        · exact Reach.parent (Reach.head ((hmem _).mpr (Or.inl rfl))) hget hxp
        · refine Reach.head ((hmem _).mpr (Or.inr ⟨hx, ?_⟩))
          intro hm
          rcases List.mem_append.mp hm with hm | hm
          · exact hxp hm
          · exact hlinks _ hm hx
      | parent _ hg hp ih => exact Reach.parent ih hg hp
    · exact Reach.head ((hmem _).mpr (Or.inl rfl))

/-! ### the composite projection of one document and its merge -/

/-- heads and delete marker of one document -/
structure CompSt where
  heads : List Nat
  marker : Option Bool

def markerOf (b : Block) (m : Option Bool) : Option Bool :=
  match b.delta with
  | .comp d => markerMerge m d
  | _ => m

/-- `processBlock` on a composite block, seen on the document's heads and marker -/
def compStep (bs : Blocks) (s : CompSt) (b : Block) : CompSt :=
  if isMerged bs s.heads b.id b.height then s
  else ⟨updateHeads (fun _ => true) s.heads b, markerOf b s.marker⟩

/-- `executeMerge` for the commit `c`, seen on the document's heads and marker -/
def mergeComp (bs : Blocks) (s : CompSt) (c : Nat) : CompSt :=
  (sortByHeight (loadComposites bs s.heads (bs.length + 1) c ([], [])).1).foldl (compStep bs) s

def Comp (bs : Blocks) (x : Nat) : Prop := ∃ b, bs.get? x = some b ∧ b.kind = .comp

/-- the block store of C04: parents stored and strictly lower; the parents of a composite are composites; its links
    are not (they are field blocks) -/
structure StoreWF (bs : Blocks) : Prop where
  wf : WellFormed bs
  compParents : ∀ y b, bs.get? y = some b → b.kind = .comp → ∀ p ∈ b.parents, Comp bs p
  compLinks : ∀ y b, bs.get? y = some b → b.kind = .comp → ∀ l ∈ b.links, ¬ Comp bs l

def HInv (bs : Blocks) (heads : List Nat) : Prop := heads.Nodup ∧ ∀ h ∈ heads, Comp bs h

/-- `c` or an ancestor of `c` -/
def Anc (bs : Blocks) (c t : Nat) : Prop := ∃ n, Path bs c t n

/-- every block of the list finds its parents merged before or earlier in the list -/
def Ready (R0 : Nat → Prop) : List Nat → List Block → Prop
  | _, [] => True
  | D, b :: tl => (∀ p ∈ b.parents, R0 p ∨ p ∈ D) ∧ Ready R0 (D ++ [b.id]) tl

theorem ready_of_sorted (bs : Blocks) (wf : WellFormed bs) (R0 : Nat → Prop) :
    ∀ (L : List Block) (D : List Nat), L.Pairwise (fun x y => x.height ≤ y.height) →
      (∀ b ∈ L, bs.get? b.id = some b) →
      (∀ b ∈ L, ∀ p ∈ b.parents, R0 p ∨ p ∈ D ∨ p ∈ L.map (·.id)) → Ready R0 D L := by
  intro L
  induction L with
  | nil => intro D _ _ _; trivial
  | cons b tl ih =>
    intro D hs hst hpar
    rw [List.pairwise_cons] at hs
    refine ⟨?_, ?_⟩
    · intro p hp
      rcases hpar b List.mem_cons_self p hp with h | h | h
      · exact Or.inl h
      · exact Or.inr h
      · exfalso
        obtain ⟨pb, hpb, hlt⟩ := wf b.id b (hst b List.mem_cons_self) p hp
        rw [List.map_cons] at h
        rcases List.mem_cons.mp h with h | h
        · subst h
          rw [hst b List.mem_cons_self] at hpb; cases hpb
          exact Nat.lt_irrefl _ hlt
        · obtain ⟨x, hx, hxid⟩ := List.mem_map.mp h
          have hgx := hst x (List.mem_cons_of_mem _ hx)
          have hxe : pb = x := by rw [hxid, hpb] at hgx; exact Option.some.inj hgx
          rw [hxe] at hlt
          exact Nat.lt_irrefl _ (Nat.lt_of_lt_of_le hlt (hs.1 x hx))
    · apply ih (D ++ [b.id]) hs.2 (fun x hx => hst x (List.mem_cons_of_mem _ hx))
      intro x hx p hp
      rcases hpar x (List.mem_cons_of_mem _ hx) p hp with h | h | h
      · exact Or.inl h
      · exact Or.inr (Or.inl (List.mem_append_left _ h))
      · rw [List.map_cons] at h
        rcases List.mem_cons.mp h with h | h
        · exact Or.inr (Or.inl (List.mem_append_right _ (List.mem_singleton.mpr h)))
        · exact Or.inr (Or.inr h)

theorem fold_compStep (bs : Blocks) (swf : StoreWF bs) (R0 : Nat → Prop) (m0 : Option Bool) :
    ∀ (rest D : List Block) (s : CompSt),
      HInv bs s.heads →
      (∀ t, Reach bs s.heads t ↔ (R0 t ∨ t ∈ D.map (·.id))) →
      s.marker = D.foldl (fun m b => markerOf b m) m0 →
      (∀ b ∈ rest, bs.get? b.id = some b ∧ b.kind = .comp ∧ ¬ R0 b.id) →
      ((D ++ rest).map (·.id)).Nodup →
      Ready R0 (D.map (·.id)) rest →
      HInv bs (rest.foldl (compStep bs) s).heads ∧
      (∀ t, Reach bs (rest.foldl (compStep bs) s).heads t ↔ (R0 t ∨ t ∈ (D ++ rest).map (·.id))) ∧
      (rest.foldl (compStep bs) s).marker = (D ++ rest).foldl (fun m b => markerOf b m) m0 := by
  intro rest
  induction rest with
  | nil =>
    intro D s hi hr hm _ _ _
    simp only [List.foldl_nil, List.append_nil]
    exact ⟨hi, hr, hm⟩
  | cons b tl ih =>
    intro D s hi hr hm hrest hnd hready
    obtain ⟨hget, hkind, hnr0⟩ := hrest b List.mem_cons_self
    have hbD : b.id ∉ D.map (·.id) := by
      rw [List.map_append, List.map_cons] at hnd
      intro h
      exact (List.nodup_append.mp hnd).2.2 _ h _ List.mem_cons_self rfl
    have hnreach : ¬ Reach bs s.heads b.id := fun h => by
      rcases (hr _).mp h with h | h
      · exact hnr0 h
      · exact hbD h
    have hnm : isMerged bs s.heads b.id b.height = false := by
      cases h : isMerged bs s.heads b.id b.height with
      | false => rfl
      | true => exact absurd (isMerged_sound bs s.heads b.id b.height h) hnreach
    have hcomp : Comp bs b.id := ⟨b, hget, hkind⟩
    have hself : b.id ∉ b.parents ++ b.links := by
      intro h
      rcases List.mem_append.mp h with h | h
      · obtain ⟨pb, hpb, hlt⟩ := swf.wf b.id b hget _ h
        rw [hget] at hpb; cases hpb
        exact Nat.lt_irrefl _ hlt
      · exact swf.compLinks b.id b hget hkind _ h hcomp
    have hpar : ∀ p ∈ b.parents, Reach bs s.heads p := fun p hp => (hr p).mpr (hready.1 p hp)
    have hlinks : ∀ l ∈ b.links, l ∉ s.heads := fun l hl hh =>
      swf.compLinks b.id b hget hkind l hl (hi.2 l hh)
    have hstep : compStep bs s b = ⟨updateHeads (fun _ => true) s.heads b, markerOf b s.marker⟩ := by
      unfold compStep; simp [hnm]
    simp only [List.foldl_cons, hstep]
    have hi' : HInv bs (updateHeads (fun _ => true) s.heads b) := by
      refine ⟨updateHeads_nodup s.heads b hi.1 hself, ?_⟩
      intro h hh
      rcases (updateHeads_mem s.heads b hi.1 hself h).mp hh with rfl | ⟨h1, _⟩
      · exact hcomp
      · exact hi.2 h h1
    have hr' : ∀ t, Reach bs (updateHeads (fun _ => true) s.heads b) t ↔ (R0 t ∨ t ∈ (D ++ [b]).map (·.id)) := by
      intro t
      rw [reach_updateHeads bs s.heads b hi.1 hget hself hpar hlinks t, hr t]
      simp only [List.map_append, List.map_cons, List.map_nil, List.mem_append, List.mem_singleton]
      constructor
      · rintro ((h | h) | h)
        · exact Or.inl h
        · exact Or.inr (Or.inl h)
        · exact Or.inr (Or.inr h)
      · rintro (h | h | h)
        · exact Or.inl (Or.inl h)
        · exact Or.inl (Or.inr h)
        · exact Or.inr h
    have hm' : markerOf b s.marker = (D ++ [b]).foldl (fun m b => markerOf b m) m0 := by
      rw [List.foldl_append, ← hm]; rfl
    have := ih (D ++ [b]) ⟨updateHeads (fun _ => true) s.heads b, markerOf b s.marker⟩ hi' hr' hm'
      (fun x hx => hrest x (List.mem_cons_of_mem _ hx))
      (by simpa using hnd)
      (by simpa using hready.2)
    simpa using this

theorem upath_comp (bs : Blocks) (swf : StoreWF bs) (heads : List Nat) (c x : Nat) (hc : Comp bs c)
    (h : UPath bs heads c x) : Comp bs x := by
  induction h with
  | self => exact hc
  | step _ hg _ hp ih =>
    obtain ⟨b', hb', hk⟩ := ih
    rw [hg] at hb'; cases hb'
    exact swf.compParents _ _ hg hk _ hp

theorem upath_anc (bs : Blocks) (heads : List Nat) (c x : Nat) (h : UPath bs heads c x) : Anc bs c x := by
  induction h with
  | self => exact ⟨0, Path.zero⟩
  | step _ hg _ hp ih =>
    obtain ⟨n, hn⟩ := ih
    exact ⟨n + 1, hn.snoc hg hp⟩

theorem reach_path_closed (bs : Blocks) (heads : List Nat) {y t n : Nat} (hp : Path bs y t n)
    (hr : Reach bs heads y) : Reach bs heads t := by
  induction hp with
  | zero => exact hr
  | succ hg hpar _ ih => exact ih (Reach.parent hr hg hpar)

theorem path_upath (bs : Blocks) (heads : List Nat) (c : Nat) {y t n : Nat} (hp : Path bs y t n)
    (hu : UPath bs heads c y) (hnr : ¬ Reach bs heads t) : UPath bs heads c t := by
  induction hp with
  | zero => exact hu
  | @succ y p t b n hg hpar hrest ih =>
    have hnm : isMerged bs heads y b.height = false := by
      cases h : isMerged bs heads y b.height with
      | false => rfl
      | true =>
        exact absurd (reach_path_closed bs heads (Path.succ hg hpar hrest) (isMerged_sound bs heads y b.height h)) hnr
    exact ih (UPath.step hu hg hnm hpar) hnr

/-- **One merge, end to end (composite level).** In a well-formed store, merging the stored commit `c` into a
    document whose heads are composites: afterwards the merged set (the heads and their ancestors) is exactly the old
    merged set together with `c` and its ancestors; the blocks applied are exactly the ancestors-or-self of `c` that
    were not merged before, each once, in an order in which parents come first; the heads stay duplicate-free
    composites. -/
theorem mergeComp_exact (bs : Blocks) (swf : StoreWF bs) (s : CompSt) (hi : HInv bs s.heads)
    (c : Nat) (hc : Comp bs c) :
    ∃ news : List Block,
      (news.map (·.id)).Nodup ∧
      news.Pairwise (fun x y => x.height ≤ y.height) ∧
      (∀ b, b ∈ news ↔ (bs.get? b.id = some b ∧ Anc bs c b.id ∧ ¬ Reach bs s.heads b.id)) ∧
      HInv bs (mergeComp bs s c).heads ∧
      (∀ t, Reach bs (mergeComp bs s c).heads t ↔ (Reach bs s.heads t ∨ (Anc bs c t ∧ ∃ b, bs.get? t = some b))) ∧
      (mergeComp bs s c).marker = news.foldl (fun m b => markerOf b m) s.marker := by
  let coll := (loadComposites bs s.heads (bs.length + 1) c ([], [])).1
  let L := sortByHeight coll
  have hperm : L.Perm coll := sortByHeight_perm coll
  -- what the walk collected
  have hsound : ∀ b ∈ coll, bs.get? b.id = some b ∧ isMerged bs s.heads b.id b.height = false ∧
      UPath bs s.heads c b.id := by
    apply loadComposites_sound bs s.heads c
      (fun b => bs.get? b.id = some b ∧ isMerged bs s.heads b.id b.height = false ∧ UPath bs s.heads c b.id)
    · intro x b hu hg hm
      have hid := Blocks.get?_id hg
      rw [hid]; exact ⟨hg, hm, hu⟩
    · exact UPath.self
    · intro b hb; cases hb
  have hnodup : (coll.map (·.id)).Nodup :=
    (loadComposites_inv bs s.heads (bs.length + 1) c ([], []) ⟨by simp, by intro b hb; cases hb⟩).1
  have hnotreach : ∀ x b, bs.get? x = some b → isMerged bs s.heads x b.height = false → ¬ Reach bs s.heads x := by
    intro x b hg hm hr
    rw [isMerged_complete bs swf.wf s.heads x b hg hr] at hm; cases hm
  have hunm : ∀ x b, bs.get? x = some b → ¬ Reach bs s.heads x → isMerged bs s.heads x b.height = false := by
    intro x b _ hnr
    cases h : isMerged bs s.heads x b.height with
    | false => rfl
    | true => exact absurd (isMerged_sound bs s.heads x b.height h) hnr
  have hcomplete : ∀ x b, bs.get? x = some b → UPath bs s.heads c x → ¬ Reach bs s.heads x → b ∈ coll :=
    fun x b hg hu hnr => (walk_reaches bs s.heads c x hu).2 b hg (hunm x b hg hnr)
  -- membership of the sorted list
  have hmemL : ∀ b, b ∈ L ↔ (bs.get? b.id = some b ∧ Anc bs c b.id ∧ ¬ Reach bs s.heads b.id) := by
    intro b
    rw [hperm.mem_iff]
    constructor
    · intro hb
      obtain ⟨h1, h2, h3⟩ := hsound b hb
      exact ⟨h1, upath_anc bs s.heads c b.id h3, hnotreach _ _ h1 h2⟩
    · rintro ⟨h1, ⟨n, hn⟩, h3⟩
      exact hcomplete _ _ h1 (path_upath bs s.heads c hn UPath.self h3) h3
  have hLnodup : (L.map (·.id)).Nodup := ((hperm.map _).nodup_iff).mpr hnodup
  have hrestL : ∀ b ∈ L, bs.get? b.id = some b ∧ b.kind = .comp ∧ ¬ Reach bs s.heads b.id := by
    intro b hb
    obtain ⟨h1, h2, h3⟩ := hsound b (hperm.mem_iff.mp hb)
    obtain ⟨b', hb', hk⟩ := upath_comp bs swf s.heads c b.id hc h3
    rw [h1] at hb'; cases hb'
    exact ⟨h1, hk, hnotreach _ _ h1 h2⟩
  have hready : Ready (Reach bs s.heads) (([] : List Block).map (·.id)) L := by
    apply ready_of_sorted bs swf.wf (Reach bs s.heads) L [] (sortByHeight_sorted coll)
      (fun b hb => (hrestL b hb).1)
    intro b hb p hp
    obtain ⟨h1, h2, h3⟩ := hsound b (hperm.mem_iff.mp hb)
    obtain ⟨pb, hpb, _⟩ := swf.wf b.id b h1 p hp
    by_cases hr : Reach bs s.heads p
    · exact Or.inl hr
    · right; right
      have hup : UPath bs s.heads c p := UPath.step h3 h1 h2 hp
      have hin : pb ∈ coll := hcomplete p pb hpb hup hr
      have hid := Blocks.get?_id hpb
      exact List.mem_map.mpr ⟨pb, hperm.mem_iff.mpr hin, hid⟩
  obtain ⟨r1, r2, r3⟩ := fold_compStep bs swf (Reach bs s.heads) s.marker L [] s hi
    (by intro t; simp) rfl hrestL (by simpa using hLnodup) hready
  have hmc : mergeComp bs s c = L.foldl (compStep bs) s := rfl
  rw [hmc]
  refine ⟨L, hLnodup, sortByHeight_sorted coll, hmemL, r1, ?_, by simpa using r3⟩
  intro t
  have := r2 t
  simp only [List.nil_append] at this
  rw [this]
  constructor
  · rintro (h | h)
    · exact Or.inl h
    · obtain ⟨b, hb, rfl⟩ := List.mem_map.mp h
      obtain ⟨h1, h2, _⟩ := (hmemL b).mp hb
      exact Or.inr ⟨h2, b, h1⟩
  · rintro (h | ⟨h2, b, h1⟩)
    · exact Or.inl h
    · by_cases hr : Reach bs s.heads t
      · exact Or.inl hr
      · right
        have hid := Blocks.get?_id h1
        have : b ∈ L := (hmemL b).mpr ⟨by rw [hid]; exact h1, by rw [hid]; exact h2, by rw [hid]; exact hr⟩
        exact List.mem_map.mpr ⟨b, this, hid⟩

end Defra.Crdt
