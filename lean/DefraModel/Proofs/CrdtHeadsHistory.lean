import DefraModel.Proofs.CrdtHeads

/-! The head-set invariant lifted to every causally ordered history of merged commits (for Props/C04). -/
namespace Defra.Crdt

/-- the head set after merging the commits of `bs` in order -/
def foldHeads (bs : List Block) : List Nat := bs.foldl (updateHeads (fun _ => true)) []

/-- the reported heads are the merged commits that no merged commit names as parent -/
def HeadsExact (merged : List Block) (heads : List Nat) : Prop :=
  heads.Nodup ∧ ∀ x, x ∈ heads ↔ (x ∈ merged.map (·.id) ∧ ∀ b ∈ merged, x ∉ b.parents)

/-- a history in which every commit arrives after its parents, identifiers are distinct, and links name blocks of
    other DAGs (field blocks), never commits of this one -/
structure Causal (bs : List Block) : Prop where
  ids : (bs.map (·.id)).Nodup
  parentsFirst : ∀ pre b post, bs = pre ++ b :: post → ∀ p ∈ b.parents, p ∈ pre.map (·.id)
  links : ∀ b ∈ bs, ∀ l ∈ b.links, l ∉ bs.map (·.id)

theorem headsExact_step (pre : List Block) (b : Block) (post : List Block) (hc : Causal (pre ++ b :: post))
    (heads : List Nat) (h : HeadsExact pre heads) :
    HeadsExact (pre ++ [b]) (updateHeads (fun _ => true) heads b) := by
  obtain ⟨hn, hx⟩ := h
  have hids := hc.ids
  have hbpre : b.id ∉ pre.map (·.id) := by
    rw [List.map_append, List.map_cons] at hids
    have := (List.nodup_append.mp hids).2.2
    intro hm
    exact this _ hm _ List.mem_cons_self rfl
  have hpar : ∀ p ∈ b.parents, p ∈ pre.map (·.id) := hc.parentsFirst pre b post rfl
  have hlink : ∀ l ∈ b.links, l ∉ (pre ++ b :: post).map (·.id) :=
    hc.links b (List.mem_append_right _ List.mem_cons_self)
  have hself : b.id ∉ b.parents ++ b.links := by
    intro hm
    rcases List.mem_append.mp hm with hm | hm
    · exact hbpre (hpar _ hm)
    · exact hlink _ hm (by simp)
  refine ⟨updateHeads_nodup heads b hn hself, ?_⟩
  intro x
  rw [updateHeads_mem heads b hn hself x, hx x]
  constructor
  · rintro (rfl | ⟨⟨hxm, hxc⟩, hxn⟩)
    · refine ⟨by simp, ?_⟩
      intro b' hb' hp
      rcases List.mem_append.mp hb' with hb' | hb'
      · -- a commit of `pre` cannot name `b` as parent: its parents come before it
        obtain ⟨l1, l2, rfl⟩ := List.append_of_mem hb'
        have := hc.parentsFirst l1 b' (l2 ++ b :: post) (by simp)
        have hin : b.id ∈ (l1 ++ b' :: l2).map (·.id) := by
          rw [List.map_append]; exact List.mem_append_left _ (this _ hp)
        exact hbpre hin
      · simp only [List.mem_singleton] at hb'
        subst hb'
        exact hself (List.mem_append_left _ hp)
    · refine ⟨by rw [List.map_append]; exact List.mem_append_left _ hxm, ?_⟩
      intro b' hb' hp
      rcases List.mem_append.mp hb' with hb' | hb'
      · exact hxc b' hb' hp
      · simp only [List.mem_singleton] at hb'
        subst hb'
        exact hxn (List.mem_append_left _ hp)
  · rintro ⟨hxm, hxc⟩
    rw [List.map_append, List.map_cons, List.map_nil] at hxm
    rcases List.mem_append.mp hxm with hxm | hxm
    · right
      refine ⟨⟨hxm, fun b' hb' => hxc b' (List.mem_append_left _ hb')⟩, ?_⟩
      intro hm
      rcases List.mem_append.mp hm with hm | hm
      · exact hxc b (List.mem_append_right _ (List.mem_singleton.mpr rfl)) hm
      · exact hlink x hm (by rw [List.map_append]; exact List.mem_append_left _ hxm)
    · simp only [List.mem_singleton] at hxm
      exact Or.inl hxm

theorem headsExact_fold (pre rest : List Block) (hc : Causal (pre ++ rest)) (heads : List Nat)
    (h : HeadsExact pre heads) : HeadsExact (pre ++ rest) (rest.foldl (updateHeads (fun _ => true)) heads) := by
  induction rest generalizing pre heads with
  | nil => simpa using h
  | cons b t ih =>
    simp only [List.foldl_cons]
    have hstep := headsExact_step pre b t hc heads h
    have := ih (pre ++ [b]) (by simpa using hc) _ hstep
    simpa using this

/-- for every causally ordered history the head set is exactly the set of childless merged commits -/
theorem foldHeads_exact (bs : List Block) (hc : Causal bs) : HeadsExact bs (foldHeads bs) := by
  have := headsExact_fold [] bs (by simpa using hc) [] ⟨List.nodup_nil, by intro x; simp⟩
  simpa [foldHeads] using this

end Defra.Crdt
