import DefraModel.Crdt.Model

/-! The merge walk (`loadComposites`, `sortByHeight`) collects every block at most once: lemmas for Props/C02. -/
namespace Defra.Crdt

theorem Blocks.get?_id {bs : Blocks} {c : Nat} {b : Block} (h : bs.get? c = some b) : b.id = c := by
  unfold Blocks.get? at h
  have := List.find?_some h
  simpa using this

/-- the walk's accumulator: collected blocks have distinct identifiers, all of them visited -/
def WalkInv (p : List Block × List Nat) : Prop :=
  (p.1.map (·.id)).Nodup ∧ ∀ b ∈ p.1, b.id ∈ p.2

theorem loadComposites_inv (bs : Blocks) (heads : List Nat) :
    ∀ (fuel c : Nat) (acc : List Block × List Nat), WalkInv acc → WalkInv (loadComposites bs heads fuel c acc) := by
  intro fuel
  induction fuel with
  | zero => intro c acc h; simpa [loadComposites] using h
  | succ n ih =>
    intro c acc h
    obtain ⟨coll, visited⟩ := acc
    unfold loadComposites
    by_cases hv : visited.contains c = true
    · simp only [hv, if_true]; exact h
    · simp only [hv, Bool.false_eq_true, if_false]
      have hvn : c ∉ visited := by simpa using hv
      have hgrow : WalkInv (coll, visited ++ [c]) :=
        ⟨h.1, fun b hb => List.mem_append_left _ (h.2 b hb)⟩
      cases hg : bs.get? c with
      | none => exact hgrow
      | some blk =>
        simp only
        split
        · exact hgrow
        · have hid := Blocks.get?_id hg
          have hstart : WalkInv (blk :: coll, visited ++ [c]) := by
            refine ⟨?_, ?_⟩
            · simp only [List.map_cons, List.nodup_cons]
              refine ⟨?_, h.1⟩
              intro hm
              obtain ⟨b, hb, hbid⟩ := List.mem_map.mp hm
              have := h.2 b hb
              rw [hbid, hid] at this
              exact hvn this
            · intro b hb
              rcases List.mem_cons.mp hb with rfl | hb
              · rw [hid]; exact List.mem_append_right _ (List.mem_singleton.mpr rfl)
              · exact List.mem_append_left _ (h.2 b hb)
          -- the fold over the parents keeps the invariant
          generalize blk.parents = ps
          generalize (blk :: coll, visited ++ [c]) = acc0 at hstart
          induction ps generalizing acc0 with
          | nil => exact hstart
          | cons p t iht =>
            simp only [List.foldl_cons]
            exact iht _ (ih p acc0 hstart)

theorem insertByHeight_perm (b : Block) (l : List Block) : (insertByHeight b l).Perm (b :: l) := by
  induction l with
  | nil => exact List.Perm.refl _
  | cons x xs ih =>
    unfold insertByHeight
    split
    · exact List.Perm.refl _
    · exact (List.Perm.cons x ih).trans (List.Perm.swap b x xs)

theorem sortByHeight_perm_aux (l acc : List Block) :
    (l.foldl (fun acc b => insertByHeight b acc) acc).Perm (l ++ acc) := by
  induction l generalizing acc with
  | nil => exact List.Perm.refl _
  | cons x xs ih =>
    simp only [List.foldl_cons, List.cons_append]
    refine (ih (insertByHeight x acc)).trans ?_
    refine (List.Perm.append_left xs (insertByHeight_perm x acc)).trans ?_
    exact List.perm_middle

theorem sortByHeight_perm (l : List Block) : (sortByHeight l).Perm l := by
  have := sortByHeight_perm_aux l []
  simpa [sortByHeight] using this

end Defra.Crdt
