import DefraModel.Crdt.Model

/-! The merge walk (`loadComposites`, `sortByHeight`) collects every block at most once: lemmas for Props/C02. -/
namespace Defra.Crdt

theorem Blocks.get?_id {bs : Blocks} {c : Nat} {b : Block} (h : bs.get? c = some b) : b.id = c := by
  unfold Blocks.get? at h
  have := List.find?_some h
  simpa using this

/-- the walk's accumulator: collected blocks have distinct identifiers, all of them visited -/
def WalkInv (p : List Block × List Nat) : Prop :=
  (p.1.map (·.id)).Nodup ∧ ∀ b ∈ p.1, b.id ∈ p.2

theorem loadComposites_inv (bs : Blocks) (heads : List Nat) :
    ∀ (fuel c : Nat) (acc : List Block × List Nat), WalkInv acc → WalkInv (loadComposites bs heads fuel c acc) := by
  intro fuel
  induction fuel with
  | zero => intro c acc h; simpa [loadComposites] using h
  | succ n ih =>
    intro c acc h
    obtain ⟨coll, visited⟩ := acc
    unfold loadComposites
    by_cases hv : visited.contains c = true
    · simp only [hv, if_true]; exact h
    · simp only [hv, Bool.false_eq_true, if_false]
      have hvn : c ∉ visited := by simpa using hv
      have hgrow : WalkInv (coll, visited ++ [c]) :=
        ⟨h.1, fun b hb => List.mem_append_left _ (h.2 b hb)⟩
      cases hg : bs.get? c with
      | none => exact hgrow
      | some blk =>
        simp only
        split
        · exact hgrow
        · have hid := Blocks.get?_id hg
          have hstart : WalkInv (blk :: coll, visited ++ [c]) := by
            refine ⟨?_, ?_⟩
            · simp only [List.map_cons, List.nodup_cons]
              refine ⟨?_, h.1⟩
              intro hm
              obtain ⟨b, hb, hbid⟩ := List.mem_map.mp hm
              have := h.2 b hb
              rw [hbid, hid] at this
              exact hvn this
            · intro b hb
              rcases List.mem_cons.mp hb with rfl | hb
              · rw [hid]; exact List.mem_append_right _ (List.mem_singleton.mpr rfl)
              · exact List.mem_append_left _ (h.2 b hb)
          -- the fold over the parents keeps the invariant
          generalize blk.parents = ps
          generalize (blk :: coll, visited ++ [c]) = acc0 at hstart
          induction ps generalizing acc0 with
          | nil => exact hstart
          | cons p t iht =>
            simp only [List.foldl_cons]
            exact iht _ (ih p acc0 hstart)

theorem insertByHeight_perm (b : Block) (l : List Block) : (insertByHeight b l).Perm (b :: l) := by
  induction l with
  | nil => exact List.Perm.refl _
  | cons x xs ih =>
    unfold insertByHeight
    split
    · exact List.Perm.refl _
    · exact (List.Perm.cons x ih).trans (List.Perm.swap b x xs)

theorem sortByHeight_perm_aux (l acc : List Block) :
    (l.foldl (fun acc b => insertByHeight b acc) acc).Perm (l ++ acc) := by
  induction l generalizing acc with
  | nil => exact List.Perm.refl _
  | cons x xs ih =>
    simp only [List.foldl_cons, List.cons_append]
    refine (ih (insertByHeight x acc)).trans ?_
    refine (List.Perm.append_left xs (insertByHeight_perm x acc)).trans ?_
    exact List.perm_middle

theorem sortByHeight_perm (l : List Block) : (sortByHeight l).Perm l := by
  have := sortByHeight_perm_aux l []
  simpa [sortByHeight] using this

end Defra.Crdt

namespace Defra.Crdt

/-- reachable from the heads by following parent links of available blocks -/
inductive Reach (bs : Blocks) (heads : List Nat) : Nat → Prop where
  | head {x : Nat} : x ∈ heads → Reach bs heads x
  | parent {y p : Nat} {b : Block} : Reach bs heads y → bs.get? y = some b → p ∈ b.parents → Reach bs heads p

/-- one level of the breadth-first walk only adds parents of reachable blocks -/
theorem expand_parents_reach (bs : Blocks) (heads : List Nat) (ps : List Nat) (acc : List Nat × List Nat)
    (hps : ∀ p ∈ ps, Reach bs heads p) (hacc : ∀ x ∈ acc.1, Reach bs heads x) :
    ∀ x ∈ (ps.foldl (fun (a : List Nat × List Nat) p =>
      if a.2.contains p then a else (a.1 ++ [p], a.2 ++ [p])) acc).1, Reach bs heads x := by
  induction ps generalizing acc with
  | nil => exact hacc
  | cons p t ih =>
    simp only [List.foldl_cons]
    apply ih _ (fun q hq => hps q (List.mem_cons_of_mem _ hq))
    split
    · exact hacc
    · intro x hx
      rcases List.mem_append.mp hx with hx | hx
      · exact hacc x hx
      · simp only [List.mem_singleton] at hx
        subst hx
        exact hps _ List.mem_cons_self

theorem expand_frontier_reach (bs : Blocks) (heads : List Nat) (height : Nat) (frontier : List Nat)
    (acc : List Nat × List Nat) (hf : ∀ c ∈ frontier, Reach bs heads c) (hacc : ∀ x ∈ acc.1, Reach bs heads x) :
    ∀ x ∈ (frontier.foldl (fun (acc : List Nat × List Nat) c =>
        match bs.get? c with
        | none => acc
        | some blk =>
          if blk.height ≤ height then acc
          else blk.parents.foldl (fun (a : List Nat × List Nat) p =>
            if a.2.contains p then a else (a.1 ++ [p], a.2 ++ [p])) acc) acc).1, Reach bs heads x := by
  induction frontier generalizing acc with
  | nil => exact hacc
  | cons c t ih =>
    simp only [List.foldl_cons]
    apply ih _ (fun q hq => hf q (List.mem_cons_of_mem _ hq))
    cases hg : bs.get? c with
    | none => exact hacc
    | some blk =>
      simp only
      split
      · exact hacc
      · exact expand_parents_reach bs heads blk.parents acc
          (fun p hp => Reach.parent (hf c List.mem_cons_self) hg hp) hacc

theorem isMergedAux_sound (bs : Blocks) (heads : List Nat) (target height : Nat) :
    ∀ (fuel : Nat) (frontier seen : List Nat), (∀ c ∈ frontier, Reach bs heads c) →
      isMergedAux bs target height fuel frontier seen = true → Reach bs heads target := by
  intro fuel
  induction fuel with
  | zero => intro frontier seen _ h; simp [isMergedAux] at h
  | succ n ih =>
    intro frontier seen hf h
    cases frontier with
    | nil => simp [isMergedAux] at h
    | cons c t =>
      unfold isMergedAux at h
      by_cases hc : (c :: t).contains target = true
      · have : target ∈ c :: t := by simpa using hc
        exact hf target this
      · simp only [hc, Bool.false_eq_true, if_false] at h
        exact ih _ _ (expand_frontier_reach bs heads height (c :: t) ([], seen) hf (by intro x hx; cases hx)) h

/-- **`isMerged` never claims more than the truth:** a commit it reports as merged is one of the heads or an
    ancestor of a head. -/
theorem isMerged_sound (bs : Blocks) (heads : List Nat) (target height : Nat)
    (h : isMerged bs heads target height = true) : Reach bs heads target :=
  isMergedAux_sound bs heads target height _ heads [] (fun _ hc => Reach.head hc) h

end Defra.Crdt

namespace Defra.Crdt

/-! ### the walk reaches every unmerged ancestor -/

/-- a block the walk expands: available and not reported as merged -/
def Expanded (bs : Blocks) (heads : List Nat) (x : Nat) : Prop :=
  ∃ b, bs.get? x = some b ∧ isMerged bs heads x b.height = false

/-- blocks not yet visited (the walk's fuel only has to exceed this) -/
def unvisited (bs : Blocks) (visited : List Nat) : Nat := (bs.filter (fun b => !visited.contains b.id)).length

theorem filter_length_le_of_imp {α} (l : List α) (p q : α → Bool) (h : ∀ x ∈ l, p x = true → q x = true) :
    (l.filter p).length ≤ (l.filter q).length := by
  induction l with
  | nil => simp
  | cons x t ih =>
    have iht := ih (fun y hy => h y (List.mem_cons_of_mem _ hy))
    simp only [List.filter_cons]
    by_cases hp : p x = true
    · have hq := h x List.mem_cons_self hp
      simp only [hp, hq, if_true, List.length_cons]; omega
    · simp only [hp, Bool.false_eq_true, if_false]
      split
      · simp only [List.length_cons]; omega
      · exact iht

theorem filter_length_lt_of_imp {α} (l : List α) (p q : α → Bool) (h : ∀ x ∈ l, p x = true → q x = true)
    (hw : ∃ x ∈ l, q x = true ∧ p x = false) : (l.filter p).length < (l.filter q).length := by
  induction l with
  | nil => obtain ⟨x, hx, _⟩ := hw; cases hx
  | cons x t ih =>
    have himp := fun y hy => h y (List.mem_cons_of_mem _ hy)
    simp only [List.filter_cons]
    obtain ⟨w, hwm, hwq, hwp⟩ := hw
    rcases List.mem_cons.mp hwm with rfl | hwt
    · have := filter_length_le_of_imp t p q himp
      simp only [hwp, hwq, Bool.false_eq_true, if_false, if_true, List.length_cons]; omega
    · have iht := ih himp ⟨w, hwt, hwq, hwp⟩
      by_cases hp : p x = true
      · have hq := h x List.mem_cons_self hp
        simp only [hp, hq, if_true, List.length_cons]; omega
      · simp only [hp, Bool.false_eq_true, if_false]
        split
        · simp only [List.length_cons]; omega
        · exact iht

theorem unvisited_mono (bs : Blocks) (v1 v2 : List Nat) (h : ∀ x ∈ v1, x ∈ v2) : unvisited bs v2 ≤ unvisited bs v1 := by
  unfold unvisited
  apply filter_length_le_of_imp
  intro b _ hb
  simp only [Bool.not_eq_true', List.contains_eq_mem, decide_eq_false_iff_not] at hb ⊢
  exact fun hm => hb (h _ hm)

theorem unvisited_lt (bs : Blocks) (visited : List Nat) (c : Nat) (b : Block) (hg : bs.get? c = some b)
    (hc : c ∉ visited) : unvisited bs (visited ++ [c]) < unvisited bs visited := by
  unfold unvisited
  apply filter_length_lt_of_imp
  · intro x _ hx
    simp only [Bool.not_eq_true', List.contains_eq_mem, decide_eq_false_iff_not, List.mem_append, not_or] at hx ⊢
    exact hx.1
  · have hmem : b ∈ bs := by unfold Blocks.get? at hg; exact List.mem_of_find?_eq_some hg
    have hid := Blocks.get?_id hg
    refine ⟨b, hmem, ?_, ?_⟩
    · simp only [Bool.not_eq_true', List.contains_eq_mem, decide_eq_false_iff_not, hid]; exact hc
    · simp [hid]

/-- what a call of the walk guarantees: visited only grows and contains the start; collected only grows; every block
    visited by this call that the walk expands has all its parents visited and is collected -/
structure WalkPost (bs : Blocks) (heads : List Nat) (c : Nat) (acc res : List Block × List Nat) : Prop where
  vmono : ∀ x ∈ acc.2, x ∈ res.2
  start : c ∈ res.2
  cmono : ∀ b ∈ acc.1, b ∈ res.1
  closed : ∀ x ∈ res.2, x ∉ acc.2 → ∀ b, bs.get? x = some b → isMerged bs heads x b.height = false →
    (∀ p ∈ b.parents, p ∈ res.2) ∧ b ∈ res.1

theorem loadComposites_post (bs : Blocks) (heads : List Nat) :
    ∀ (fuel c : Nat) (acc : List Block × List Nat), unvisited bs acc.2 < fuel →
      WalkPost bs heads c acc (loadComposites bs heads fuel c acc) := by
  intro fuel
  induction fuel with
  | zero => intro c acc h; omega
  | succ n ih =>
    intro c acc hfuel
    obtain ⟨coll, visited⟩ := acc
    unfold loadComposites
    by_cases hv : visited.contains c = true
    · simp only [hv, if_true]
      exact ⟨fun x hx => hx, by simpa using hv, fun b hb => hb, fun x hx hnx => absurd hx hnx⟩
    · simp only [hv, Bool.false_eq_true, if_false]
      have hvn : c ∉ visited := by simpa using hv
      have hcv : c ∈ visited ++ [c] := List.mem_append_right _ (List.mem_singleton.mpr rfl)
      cases hg : bs.get? c with
      | none =>
        refine ⟨fun x hx => List.mem_append_left _ hx, hcv, fun b hb => hb, ?_⟩
        intro x hx hnx b hb _
        rcases List.mem_append.mp hx with hx | hx
        · exact absurd hx hnx
        · simp only [List.mem_singleton] at hx; subst hx; rw [hg] at hb; cases hb
      | some blk =>
        simp only
        by_cases hm : isMerged bs heads c blk.height = true
        · simp only [hm, if_true]
          refine ⟨fun x hx => List.mem_append_left _ hx, hcv, fun b hb => hb, ?_⟩
          intro x hx hnx b hb hnm
          rcases List.mem_append.mp hx with hx | hx
          · exact absurd hx hnx
          · simp only [List.mem_singleton] at hx
            subst hx
            rw [hg] at hb; cases hb
            rw [hm] at hnm; cases hnm
        · simp only [hm, Bool.false_eq_true, if_false]
          -- fold over the parents, starting from (blk :: coll, visited ++ [c])
          have hfuel0 : unvisited bs (visited ++ [c]) < n := by
            have := unvisited_lt bs visited c blk hg hvn
            simp only at hfuel; omega
          -- generalised statement about the fold
          have fold : ∀ (ps : List Nat) (a : List Block × List Nat),
              unvisited bs a.2 < n →
              let r := ps.foldl (fun acc p => loadComposites bs heads n p acc) a
              (∀ x ∈ a.2, x ∈ r.2) ∧ (∀ b ∈ a.1, b ∈ r.1) ∧ (∀ p ∈ ps, p ∈ r.2) ∧
              (∀ x ∈ r.2, x ∉ a.2 → ∀ b, bs.get? x = some b → isMerged bs heads x b.height = false →
                (∀ p ∈ b.parents, p ∈ r.2) ∧ b ∈ r.1) := by
            intro ps
            induction ps with
            | nil =>
              intro a _
              refine ⟨fun x hx => hx, fun b hb => hb, ?_, fun x hx hnx => absurd hx hnx⟩
              intro p hp
              cases hp
            | cons p t iht =>
              intro a ha
              simp only [List.foldl_cons]
              have h1 := ih p a ha
              have ha' : unvisited bs (loadComposites bs heads n p a).2 < n :=
                Nat.lt_of_le_of_lt (unvisited_mono bs _ _ h1.vmono) ha
              obtain ⟨t1, t2, t3, t4⟩ := iht (loadComposites bs heads n p a) ha'
              refine ⟨fun x hx => t1 x (h1.vmono x hx), fun b hb => t2 b (h1.cmono b hb), ?_, ?_⟩
              · intro q hq
                rcases List.mem_cons.mp hq with rfl | hq
                · exact t1 _ h1.start
                · exact t3 q hq
              · intro x hx hnx b hb hnm
                by_cases hx1 : x ∈ (loadComposites bs heads n p a).2
                · obtain ⟨c1, c2⟩ := h1.closed x hx1 hnx b hb hnm
                  exact ⟨fun q hq => t1 q (c1 q hq), t2 b c2⟩
                · exact t4 x hx hx1 b hb hnm
          obtain ⟨f1, f2, f3, f4⟩ := fold blk.parents (blk :: coll, visited ++ [c]) hfuel0
          refine ⟨fun x hx => f1 x (List.mem_append_left _ hx), f1 c hcv,
            fun b hb => f2 b (List.mem_cons_of_mem _ hb), ?_⟩
          intro x hx hnx b hb hnm
          by_cases hxc : x = c
          · subst hxc
            rw [hg] at hb; cases hb
            exact ⟨f3, f2 _ List.mem_cons_self⟩
          · have hnx' : x ∉ visited ++ [c] := by
              intro hmem
              rcases List.mem_append.mp hmem with h | h
              · exact hnx h
              · simp only [List.mem_singleton] at h; exact hxc h
            exact f4 x hx hnx' b hb hnm

/-- an ancestor-or-self of `c` reached through blocks the walk expands -/
inductive UPath (bs : Blocks) (heads : List Nat) (c : Nat) : Nat → Prop where
  | self : UPath bs heads c c
  | step {y p : Nat} {b : Block} : UPath bs heads c y → bs.get? y = some b →
      isMerged bs heads y b.height = false → p ∈ b.parents → UPath bs heads c p

/-- **The walk reaches every unmerged ancestor:** whatever can be reached from the start through available blocks
    that are not reported as merged is visited, and if it is itself such a block it is collected. -/
theorem walk_reaches (bs : Blocks) (heads : List Nat) (c x : Nat) (hp : UPath bs heads c x) :
    x ∈ (loadComposites bs heads (bs.length + 1) c ([], [])).2 ∧
    ∀ b, bs.get? x = some b → isMerged bs heads x b.height = false →
      b ∈ (loadComposites bs heads (bs.length + 1) c ([], [])).1 := by
  have hfuel : unvisited bs ([] : List Nat) < bs.length + 1 := by
    unfold unvisited
    exact Nat.lt_succ_of_le (List.length_filter_le _ _)
  have post := loadComposites_post bs heads (bs.length + 1) c ([], []) hfuel
  have hvis : x ∈ (loadComposites bs heads (bs.length + 1) c ([], [])).2 := by
    induction hp with
    | self => exact post.start
    | step _ hg hnm hpar ih => exact (post.closed _ ih (by simp) _ hg hnm).1 _ hpar
  exact ⟨hvis, fun b hb hnm => (post.closed x hvis (by simp) b hb hnm).2⟩

end Defra.Crdt
