import DefraModel.Proofs.CrdtConverge

/-!
The heads of every kind are exactly the merged blocks of that kind that no merged block names as parent — kept by
every applied block, hence after every history of deliveries (for Props/C04).
-/
namespace Defra.Crdt

/-- no merged block names a head as parent -/
def HeadsChildless (bs : Blocks) (s : DocState) : Prop :=
  ∀ k x, x ∈ headsOf s k → ∀ y yb, Reach bs (headsOf s k) y → bs.get? y = some yb → x ∉ yb.parents

theorem headsOf_applied (s : DocState) (e : Block) (hk : e.kind ≠ .col) (k : Kind) :
    headsOf (applied s e) k =
      if k = e.kind then updateHeads (fun _ => true) (headsOf s e.kind) e else headsOf s k := by
  unfold applied
  rw [headsOf_setHeadsOf _ _ _ _ hk]
  split
  · rfl
  · exact headsOf_vals _ _ _

theorem headsChildless_applied (bs : Blocks) (s : DocState) (e : Block) (g : GoodStep bs s e)
    (h : HeadsChildless bs s) : HeadsChildless bs (applied s e) := by
  intro k x hx y yb hry hgy hxp
  rw [headsOf_applied s e g.notCol k] at hx hry
  by_cases hke : k = e.kind
  · subst hke
    simp only [if_true] at hx hry
    have hmem := (updateHeads_mem _ e g.nodup g.notSelf x).mp hx
    have hreach := (reach_updateHeads bs _ e g.nodup g.stored g.notSelf g.parents g.links y).mp hry
    rcases hmem with rfl | ⟨hxh, hxn⟩
    · rcases hreach with hr | rfl
      · exact g.unmerged (Reach.parent hr hgy hxp)
      · rw [g.stored] at hgy; cases hgy
        exact g.notSelf (List.mem_append_left _ hxp)
    · rcases hreach with hr | rfl
      · exact h _ x hxh y yb hr hgy hxp
      · rw [g.stored] at hgy; cases hgy
        exact hxn (List.mem_append_left _ hxp)
  · simp only [hke, if_false] at hx hry
    exact h k x hx y yb hry hgy hxp

/-- under `HeadsChildless` the heads are exactly the merged blocks without a merged child -/
theorem heads_exact (bs : Blocks) (s : DocState) (h : HeadsChildless bs s) (k : Kind) (x : Nat) :
    x ∈ headsOf s k ↔
      (Reach bs (headsOf s k) x ∧ ∀ y yb, Reach bs (headsOf s k) y → bs.get? y = some yb → x ∉ yb.parents) := by
  constructor
  · intro hx; exact ⟨Reach.head hx, h k x hx⟩
  · rintro ⟨hr, hc⟩
    cases hr with
    | head hx => exact hx
    | parent hy hg hp => exact absurd hp (hc _ _ hy hg)

theorem headsChildless_empty (bs : Blocks) : HeadsChildless bs {} := by
  intro k x hx; rw [headsOf_empty] at hx; cases hx

theorem mergeDoc_headsChildless (cx : Ctx) (swf : StoreWF3 cx.blocks)
    (hknown : ∀ l, (cx.blocks.get? l).isSome = true → cx.known l = true)
    (r : Replica) (c : Block) (hc : cx.blocks.get? c.id = some c) (hck : c.kind = .comp)
    (hk : KInv cx.blocks (r.doc c.doc)) (hli : LinkInv cx.blocks (r.doc c.doc))
    (h : HeadsChildless cx.blocks (r.doc c.doc)) : HeadsChildless cx.blocks ((mergeDoc cx r c).doc c.doc) :=
  (mergeDoc_full_inv cx swf hknown (HeadsChildless cx.blocks)
    (fun s e g hs => headsChildless_applied cx.blocks s e g hs) r c hc hck hk hli h).2.2.2.2.2

/-- **Every history.** Whatever stored commits are delivered, in whatever order: the heads of every kind of every
    document are exactly the merged blocks of that kind that no merged block names as parent. -/
theorem deliveries_headsChildless (cx : Ctx) (swf : StoreWF3 cx.blocks)
    (hknown : ∀ l, (cx.blocks.get? l).isSome = true → cx.known l = true) (d : String) :
    ∀ (cs : List Block) (r : Replica), (∀ c ∈ cs, cx.blocks.get? c.id = some c ∧ c.kind = .comp) →
      DocInv cx.blocks (r.doc d) → HeadsChildless cx.blocks (r.doc d) →
      HeadsChildless cx.blocks ((cs.foldl (mergeDoc cx) r).doc d) := by
  intro cs
  induction cs with
  | nil => intro r _ _ h; exact h
  | cons c t ih =>
    intro r hcs hinv h
    simp only [List.foldl_cons]
    obtain ⟨hc, hck⟩ := hcs c List.mem_cons_self
    by_cases hd : d = c.doc
    · subst hd
      exact ih _ (fun x hx => hcs x (List.mem_cons_of_mem _ hx))
        (mergeDoc_docInv cx swf hknown r c hc hck hinv)
        (mergeDoc_headsChildless cx swf hknown r c hc hck hinv.1 hinv.2.1 h)
    · apply ih _ (fun x hx => hcs x (List.mem_cons_of_mem _ hx))
      · rw [mergeDoc_other_doc cx swf r c hc hck d hd]; exact hinv
      · rw [mergeDoc_other_doc cx swf r c hc hck d hd]; exact h

end Defra.Crdt
