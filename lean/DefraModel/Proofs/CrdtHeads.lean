import DefraModel.Crdt.Model
namespace Defra.Crdt

/-- one iteration of the `for _, l := range block.AllLinks()` loop of `updateHeads` -/
def headStep (known : Nat → Bool) (bid : Nat) (h : List Nat) (l : Nat) : List Nat :=
  if h.contains l then (h.erase l |> fun h' => if h'.contains bid then h' else h' ++ [bid])
  else if known l then (if h.contains bid then h else h ++ [bid])
  else h

theorem updateHeads_eq (known : Nat → Bool) (heads : List Nat) (b : Block) :
    updateHeads known heads b =
      (b.parents ++ b.links).foldl (headStep known b.id)
        (if b.parents.isEmpty then (if heads.contains b.id then heads else heads ++ [b.id]) else heads) := rfl

theorem nodup_append_singleton {l : List Nat} {x : Nat} (h : l.Nodup) (hx : x ∉ l) : (l ++ [x]).Nodup := by
  rw [List.nodup_append]
  refine ⟨h, by simp, ?_⟩
  intro a ha b hb
  simp at hb; subst hb
  intro e; subst e; exact hx ha

theorem headStep_spec (bid : Nat) (h : List Nat) (l : Nat) (hn : h.Nodup) (hl : l ≠ bid) :
    (headStep (fun _ => true) bid h l).Nodup ∧
    ∀ x, x ∈ headStep (fun _ => true) bid h l ↔ (x = bid ∨ (x ∈ h ∧ x ≠ l)) := by
  unfold headStep
  by_cases hc : h.contains l = true
  · simp only [hc, if_true]
    have hne : (h.erase l).Nodup := hn.erase l
    have hmem : ∀ x, x ∈ h.erase l ↔ x ≠ l ∧ x ∈ h := fun x => hn.mem_erase_iff
    by_cases hb : (h.erase l).contains bid = true
    · simp only [hb, if_true]
      refine ⟨hne, fun x => ?_⟩
      rw [hmem]
      constructor
      · rintro ⟨a, b⟩; exact Or.inr ⟨b, a⟩
      · rintro (rfl | ⟨a, b⟩)
        · have := List.contains_iff_mem.mp hb
          exact (hmem x).mp this
        · exact ⟨b, a⟩
    · simp only [hb, Bool.false_eq_true, if_false]
      have hb' : bid ∉ h.erase l := fun m => hb (List.contains_iff_mem.mpr m)
      refine ⟨nodup_append_singleton hne hb', fun x => ?_⟩
      rw [List.mem_append, hmem]
      simp only [List.mem_singleton]
      constructor
      · rintro (⟨a, b⟩ | rfl)
        · exact Or.inr ⟨b, a⟩
        · exact Or.inl rfl
      · rintro (rfl | ⟨a, b⟩)
        · exact Or.inr rfl
        · exact Or.inl ⟨b, a⟩
  · simp only [hc, Bool.false_eq_true, if_false, if_true]
    have hl' : l ∉ h := fun m => hc (List.contains_iff_mem.mpr m)
    by_cases hb : h.contains bid = true
    · simp only [hb, if_true]
      refine ⟨hn, fun x => ?_⟩
      constructor
      · intro m; exact Or.inr ⟨m, fun e => hl' (e ▸ m)⟩
      · rintro (rfl | ⟨a, _⟩)
        · exact List.contains_iff_mem.mp hb
        · exact a
    · simp only [hb, Bool.false_eq_true, if_false]
      have hb' : bid ∉ h := fun m => hb (List.contains_iff_mem.mpr m)
      refine ⟨nodup_append_singleton hn hb', fun x => ?_⟩
      rw [List.mem_append]
      simp only [List.mem_singleton]
      constructor
      · rintro (m | rfl)
        · exact Or.inr ⟨m, fun e => hl' (e ▸ m)⟩
        · exact Or.inl rfl
      · rintro (rfl | ⟨a, _⟩)
        · exact Or.inr rfl
        · exact Or.inl a

theorem foldl_headStep_spec (bid : Nat) : ∀ (ls : List Nat) (h : List Nat), h.Nodup → bid ∉ ls →
    ((ls.foldl (headStep (fun _ => true) bid) h).Nodup ∧
     ∀ x, x ∈ ls.foldl (headStep (fun _ => true) bid) h ↔
       ((x = bid ∧ (ls ≠ [] ∨ bid ∈ h)) ∨ (x ∈ h ∧ x ∉ ls)))
  | [], h, hn, _ => by
    refine ⟨hn, fun x => ?_⟩
    simp only [List.foldl_nil, ne_eq, not_true_eq_false, false_or, List.not_mem_nil, not_false_eq_true, and_true]
    constructor
    · intro m; exact Or.inr m
    · rintro (⟨rfl, m⟩ | m) <;> exact m
  | l :: ls, h, hn, hb => by
    have hl : l ≠ bid := fun e => hb (by simp [e])
    have hbs : bid ∉ ls := fun m => hb (by simp [m])
    obtain ⟨n1, m1⟩ := headStep_spec bid h l hn hl
    obtain ⟨n2, m2⟩ := foldl_headStep_spec bid ls _ n1 hbs
    refine ⟨n2, fun x => ?_⟩
    rw [List.foldl_cons, m2, m1, m1]
    simp only [ne_eq, reduceCtorEq, not_false_eq_true, true_or, and_true, List.mem_cons, not_or]
    constructor
    · rintro (⟨rfl, _⟩ | ⟨(rfl | ⟨a, b⟩), c⟩)
      · exact Or.inl rfl
      · exact Or.inl rfl
      · exact Or.inr ⟨a, b, c⟩
    · rintro (rfl | ⟨a, b, c⟩)
      · exact Or.inl ⟨rfl, Or.inr trivial⟩
      · exact Or.inr ⟨Or.inr ⟨a, b⟩, c⟩

/-- **`updateHeads` as a set operation** (all referenced blocks stored): the new block becomes a head
    and exactly the heads it names as parent or link stop being heads -/
theorem updateHeads_mem (heads : List Nat) (b : Block) (hn : heads.Nodup)
    (hself : b.id ∉ b.parents ++ b.links) (x : Nat) :
    x ∈ updateHeads (fun _ => true) heads b ↔ (x = b.id ∨ (x ∈ heads ∧ x ∉ b.parents ++ b.links)) := by
  rw [updateHeads_eq]
  by_cases hp : b.parents.isEmpty = true
  · simp only [hp, if_true]
    by_cases hc : heads.contains b.id = true
    · simp only [hc, if_true]
      have hm := List.contains_iff_mem.mp hc
      rw [(foldl_headStep_spec b.id _ heads hn hself).2]
      constructor
      · rintro (⟨rfl, _⟩ | h); exact Or.inl rfl; exact Or.inr h
      · rintro (rfl | h); exact Or.inl ⟨rfl, Or.inr hm⟩; exact Or.inr h
    · simp only [hc, Bool.false_eq_true, if_false]
      have hm : b.id ∉ heads := fun m => hc (List.contains_iff_mem.mpr m)
      rw [(foldl_headStep_spec b.id _ _ (nodup_append_singleton hn hm) hself).2]
      simp only [List.mem_append, List.mem_singleton]
      constructor
      · rintro (⟨rfl, _⟩ | ⟨(h | rfl), h2⟩)
        · exact Or.inl rfl
        · exact Or.inr ⟨h, h2⟩
        · exact Or.inl rfl
      · rintro (rfl | ⟨h, h2⟩)
        · exact Or.inl ⟨rfl, Or.inr (Or.inr trivial)⟩
        · exact Or.inr ⟨Or.inl h, h2⟩
  · simp only [hp, Bool.false_eq_true, if_false]
    have hne : b.parents ++ b.links ≠ [] := by
      intro e
      have : b.parents = [] := (List.append_eq_nil_iff.mp e).1
      simp [this] at hp
    rw [(foldl_headStep_spec b.id _ heads hn hself).2]
    constructor
    · rintro (⟨rfl, _⟩ | h); exact Or.inl rfl; exact Or.inr h
    · rintro (rfl | h); exact Or.inl ⟨rfl, Or.inl hne⟩; exact Or.inr h

theorem updateHeads_nodup (heads : List Nat) (b : Block) (hn : heads.Nodup)
    (hself : b.id ∉ b.parents ++ b.links) : (updateHeads (fun _ => true) heads b).Nodup := by
  rw [updateHeads_eq]
  by_cases hp : b.parents.isEmpty = true
  · simp only [hp, if_true]
    by_cases hc : heads.contains b.id = true
    · simp only [hc, if_true]; exact (foldl_headStep_spec b.id _ heads hn hself).1
    · simp only [hc, Bool.false_eq_true, if_false]
      have hm : b.id ∉ heads := fun m => hc (List.contains_iff_mem.mpr m)
      exact (foldl_headStep_spec b.id _ _ (nodup_append_singleton hn hm) hself).1
  · simp only [hp, Bool.false_eq_true, if_false]; exact (foldl_headStep_spec b.id _ heads hn hself).1

/-! ### heads are exactly the childless merged commits -/

/-- `S` merged commits (a predicate), `par` the parent relation: `heads` lists the members of `S`
    that no member of `S` names as parent -/
def HeadsAreMaximal (par : Nat → Nat → Prop) (S : Nat → Prop) (heads : List Nat) : Prop :=
  ∀ x, x ∈ heads ↔ (S x ∧ ∀ y, S y → ¬ par y x)

/-- **step invariant**: merging a new block `b` whose parents are merged, into a downward-closed set,
    keeps "heads = childless merged commits" -/
theorem heads_maximal_step (par : Nat → Nat → Prop) (S : Nat → Prop) (heads : List Nat) (b : Block)
    (hn : heads.Nodup)
    (hpar : ∀ y x, par y x ↔ ∃ blk, blk = y ∧ (if y = b.id then x ∈ b.parents else par y x))
    (hclosed : ∀ y x, S y → par y x → S x)
    (hnew : ¬ S b.id)
    (hself : b.id ∉ b.parents ++ b.links)
    (hlinks : ∀ l ∈ b.links, l ∉ heads)
    (hinv : HeadsAreMaximal par S heads) :
    HeadsAreMaximal par (fun x => S x ∨ x = b.id) (updateHeads (fun _ => true) heads b) := by
  intro x
  rw [updateHeads_mem heads b hn hself]
  have parb : ∀ x, par b.id x ↔ x ∈ b.parents := by
    intro x
    rw [hpar]
    simp
  constructor
  · rintro (rfl | ⟨hx, hnot⟩)
    · refine ⟨Or.inr rfl, ?_⟩
      rintro y (hy | rfl) hp
      · exact hnew (hclosed y _ hy hp)
      · rw [parb] at hp; exact hself (List.mem_append_left _ hp)
    · have := (hinv x).mp hx
      refine ⟨Or.inl this.1, ?_⟩
      rintro y (hy | rfl) hp
      · exact this.2 y hy hp
      · rw [parb] at hp; exact hnot (List.mem_append_left _ hp)
  · rintro ⟨(hx | rfl), hmax⟩
    · refine Or.inr ⟨(hinv x).mpr ⟨hx, fun y hy => hmax y (Or.inl hy)⟩, ?_⟩
      intro hm
      rcases List.mem_append.mp hm with hm | hm
      · exact hmax b.id (Or.inr rfl) ((parb x).mpr hm)
      · exact hlinks x hm ((hinv x).mpr ⟨hx, fun y hy => hmax y (Or.inl hy)⟩)
    · exact Or.inl rfl

end Defra.Crdt
