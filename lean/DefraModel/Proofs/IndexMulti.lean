import DefraModel.Index.Multi

/-! De-duplication of multi-entry index scans and the unique-index invariant (for Props/C07). -/
namespace Defra.IndexMulti
open Defra Defra.Query

/-! ### `memorizingIndexIterator` -/

theorem mem_dedupSeen {α : Type} [DecidableEq α] (l : List α) :
    ∀ (seen : List α) (x : α), x ∈ dedupSeen seen l ↔ (x ∈ l ∧ x ∉ seen) := by
  induction l with
  | nil => intro seen x; simp [dedupSeen]
  | cons y ys ih =>
    intro seen x
    unfold dedupSeen
    by_cases hy : y ∈ seen
    · simp only [hy, if_true, ih, List.mem_cons]
      constructor
      · rintro ⟨h1, h2⟩; exact ⟨Or.inr h1, h2⟩
      · rintro ⟨h1 | h1, h2⟩
        · subst h1; exact absurd hy h2
        · exact ⟨h1, h2⟩
    · simp only [hy, if_false, List.mem_cons, ih]
      constructor
      · rintro (h | ⟨h1, h2⟩)
        · subst h; exact ⟨Or.inl rfl, hy⟩
        · exact ⟨Or.inr h1, fun h => h2 (Or.inr h)⟩
      · rintro ⟨h1 | h1, h2⟩
        · exact Or.inl h1
        · by_cases hxy : x = y
          · exact Or.inl hxy
          · exact Or.inr ⟨h1, fun h => by rcases h with h | h; exact hxy h; exact h2 h⟩

theorem nodup_dedupSeen {α : Type} [DecidableEq α] (l : List α) : ∀ (seen : List α), (dedupSeen seen l).Nodup := by
  induction l with
  | nil => intro seen; simp [dedupSeen]
  | cons y ys ih =>
    intro seen
    unfold dedupSeen
    by_cases hy : y ∈ seen
    · simp only [hy, if_true]; exact ih seen
    · simp only [hy, if_false, List.nodup_cons]
      refine ⟨?_, ih _⟩
      intro hm
      have := (mem_dedupSeen ys (y :: seen) y).mp hm
      exact this.2 (List.mem_cons_self)

/-! ### unique indexes -/

/-- two documents share a key without nil component -/
def Shares (fs : List String) (a b : MDoc) : Prop := ∃ key, key ∈ nonNilKeys a fs ∧ key ∈ nonNilKeys b fs

theorem Shares.symm {fs : List String} {a b : MDoc} (h : Shares fs a b) : Shares fs b a := by
  obtain ⟨k, h1, h2⟩ := h; exact ⟨k, h2, h1⟩

theorem conflicts_iff (fs : List String) (d : MDoc) (others : List MDoc) :
    conflicts fs d others = true ↔ ∃ o ∈ others, o.k ≠ d.k ∧ Shares fs d o := by
  unfold conflicts Shares
  simp only [List.any_eq_true, Bool.and_eq_true, bne_iff_ne, ne_eq, List.contains_iff_mem]

/-- identifiers are distinct and no two live documents share a non-nil key of any unique index -/
def UInv (s : St) : Prop :=
  (s.docs.map (·.k)).Nodup ∧
  ∀ fs ∈ s.uniq, ∀ a ∈ s.docs, ∀ b ∈ s.docs, a.k ≠ b.k → ¬ Shares fs a b

theorem not_rejected {s : St} {d : MDoc} (h : rejectedBy s d = false) :
    ∀ fs ∈ s.uniq, ∀ o ∈ s.docs, o.k ≠ d.k → ¬ Shares fs d o := by
  intro fs hfs o ho hk hs
  have : rejectedBy s d = true := by
    unfold rejectedBy
    exact List.any_eq_true.mpr ⟨fs, hfs, (conflicts_iff fs d s.docs).mpr ⟨o, ho, hk, hs⟩⟩
  rw [h] at this; cases this

theorem map_k_replace (docs : List MDoc) (d : MDoc) :
    (docs.map (fun o => if o.k == d.k then d else o)).map (·.k) = docs.map (·.k) := by
  induction docs with
  | nil => rfl
  | cons x t ih =>
    simp only [List.map_cons, ih]
    by_cases h : (x.k == d.k) = true
    · simp only [h, if_true]; congr 1; exact (by simpa using h : x.k = d.k).symm
    · simp only [h]; rfl

theorem step_inv (s : St) (op : Op) (h : UInv s) : UInv (step s op).1 := by
  obtain ⟨hn, hu⟩ := h
  cases op with
  | create d =>
    simp only [step]
    split
    · exact ⟨hn, hu⟩
    · rename_i hnew
      split
      · exact ⟨hn, hu⟩
      · rename_i hrej
        have hrej' : rejectedBy s d = false := by simpa using hrej
        have hfresh : d.k ∉ s.docs.map (·.k) := by
          intro hm
          obtain ⟨o, ho, hk⟩ := List.mem_map.mp hm
          apply hnew
          exact List.any_eq_true.mpr ⟨o, ho, by simp [hk]⟩
        refine ⟨?_, ?_⟩
        · simp only [List.map_append, List.map_cons, List.map_nil]
          rw [List.nodup_append]
          refine ⟨hn, by simp, ?_⟩
          intro a ha b hb
          simp at hb; subst hb
          intro e; subst e; exact hfresh ha
        · intro fs hfs a ha b hb hk
          simp only [List.mem_append, List.mem_singleton] at ha hb
          rcases ha with ha | ha <;> rcases hb with hb | hb
          · exact hu fs hfs a ha b hb hk
          · subst hb; exact fun hs => not_rejected hrej' fs hfs a ha hk hs.symm
          · subst ha; exact not_rejected hrej' fs hfs b hb (Ne.symm hk)
          · subst ha; subst hb; exact absurd rfl hk
  | update d =>
    simp only [step]
    split
    · exact ⟨hn, hu⟩
    · split
      · exact ⟨hn, hu⟩
      · rename_i hrej
        have hrej' : rejectedBy s d = false := by simpa using hrej
        refine ⟨by simp only; rw [map_k_replace]; exact hn, ?_⟩
        intro fs hfs a ha b hb hk
        simp only [List.mem_map] at ha hb
        obtain ⟨a0, ha0, rfl⟩ := ha
        obtain ⟨b0, hb0, rfl⟩ := hb
        by_cases hak : (a0.k == d.k) = true <;> by_cases hbk : (b0.k == d.k) = true
        · simp only [hak, hbk, if_true] at hk; exact absurd rfl hk
        · simp only [hak, hbk, if_true] at hk ⊢
          exact not_rejected hrej' fs hfs b0 hb0 (Ne.symm hk)
        · simp only [hak, hbk, if_true] at hk ⊢
          exact fun hs => not_rejected hrej' fs hfs a0 ha0 hk hs.symm
        · simp only [hak, hbk] at hk ⊢
          exact hu fs hfs a0 ha0 b0 hb0 hk
  | delete k =>
    simp only [step]
    refine ⟨(List.filter_sublist.map _).nodup hn, ?_⟩
    intro fs hfs a ha b hb hk
    exact hu fs hfs a (List.mem_filter.mp ha).1 b (List.mem_filter.mp hb).1 hk
  | addUnique fs =>
    simp only [step]
    split
    · exact ⟨hn, hu⟩
    · rename_i hno
      refine ⟨hn, ?_⟩
      intro fs' hfs' a ha b hb hk
      simp only [List.mem_append, List.mem_singleton] at hfs'
      rcases hfs' with h | h
      · exact hu fs' h a ha b hb hk
      · subst h
        intro hs
        apply hno
        exact List.any_eq_true.mpr ⟨a, ha, (conflicts_iff _ a s.docs).mpr ⟨b, hb, Ne.symm hk, hs⟩⟩

theorem run_inv (s : St) (ops : List Op) (h : UInv s) : UInv (ops.foldl (fun s op => (step s op).1) s) := by
  induction ops generalizing s with
  | nil => exact h
  | cons op t ih => exact ih _ (step_inv s op h)

end Defra.IndexMulti

namespace Defra.IndexMulti
open Defra Defra.Query

/-! ### every document has an entry in every index -/

theorem dedupV_ne_nil : ∀ (l : List V), l ≠ [] → dedupV l ≠ []
  | [], h => absurd rfl h
  | x :: xs, _ => by
    unfold dedupV
    split
    · rename_i hc
      intro he
      rw [he] at hc
      simp at hc
    · simp

theorem fieldVals_ne_nil (d : MDoc) (f : String) : fieldVals d f ≠ [] := by
  unfold fieldVals
  split
  · split
    · simp
    · rename_i l _
      split
      · simp
      · rename_i hne
        exact dedupV_ne_nil l (by intro h; apply hne; rw [h]; rfl)
  · simp

theorem keysOf_ne_nil (d : MDoc) : ∀ (fs : List String), keysOf d fs ≠ []
  | [] => by simp [keysOf]
  | f :: fs => by
    unfold keysOf
    have h1 := fieldVals_ne_nil d f
    have h2 := keysOf_ne_nil d fs
    cases hv : fieldVals d f with
    | nil => exact absurd hv h1
    | cons v vs =>
      cases hk : keysOf d fs with
      | nil => exact absurd hk h2
      | cons k ks => simp [List.flatMap_cons, hk]

end Defra.IndexMulti

namespace Defra.IndexMulti
open Defra Defra.Query

/-! ### the index path equals the scan path -/

theorem find_of_mem_nodup (docs : List MDoc) (hn : (docs.map (·.k)).Nodup) (d : MDoc) (hd : d ∈ docs) :
    docs.find? (·.k == d.k) = some d := by
  induction docs with
  | nil => cases hd
  | cons x t ih =>
    simp only [List.map_cons, List.nodup_cons] at hn
    simp only [List.find?_cons]
    rcases List.mem_cons.mp hd with rfl | hd
    · simp
    · have hne : (x.k == d.k) = false := by
        have : x.k ≠ d.k := fun h => hn.1 (by rw [h]; exact List.mem_map.mpr ⟨d, hd, rfl⟩)
        simpa using this
      simp only [hne]
      exact ih hn.2 hd

theorem mem_entries (fields : List String) (docs : List MDoc) (key : List V) (k : Nat) :
    (key, k) ∈ entries fields docs ↔ ∃ d ∈ docs, d.k = k ∧ key ∈ keysOf d fields := by
  unfold entries
  simp only [List.mem_flatMap, List.mem_map, Prod.mk.injEq]
  constructor
  · rintro ⟨d, hd, key', hk, rfl, rfl⟩; exact ⟨d, hd, rfl, hk⟩
  · rintro ⟨d, hd, rfl, hk⟩; exact ⟨d, hd, key, hk, rfl, rfl⟩

/-- **The index path returns what the scan returns.** For any index (any list of fields, arrays included), any
    filter and any candidate test that no matching document fails on all of its keys (the completeness of the key
    range and matchers derived from the filter): the de-duplicated, re-filtered index fetch yields exactly the
    documents the plain scan yields, each once. -/
theorem indexFetch_perm_eval (fields : List String) (cand : List V → Bool) (f : Filter) (docs : List MDoc)
    (hn : (docs.map (·.k)).Nodup)
    (hcomplete : ∀ d ∈ docs, satisfies f d = true → ∃ key ∈ keysOf d fields, cand key = true) :
    (indexFetch fields cand f docs).Perm (eval f docs) := by
  unfold indexFetch eval
  apply List.Perm.map
  -- both sides are duplicate-free lists of documents with the same members
  have hdn : docs.Nodup := by
    clear hcomplete
    induction docs with
    | nil => exact List.nodup_nil
    | cons x t ih =>
      simp only [List.map_cons, List.nodup_cons] at hn
      exact List.nodup_cons.mpr ⟨fun hx => hn.1 (List.mem_map.mpr ⟨x, hx, rfl⟩), ih hn.2⟩
  have hidsn0 : (dedupSeen [] (((entries fields docs).filter (fun e => cand e.1)).map (·.2))).Nodup :=
    nodup_dedupSeen _ _
  have hidmem0 : ∀ k, k ∈ dedupSeen [] (((entries fields docs).filter (fun e => cand e.1)).map (·.2)) ↔
      ∃ d ∈ docs, d.k = k ∧ ∃ key ∈ keysOf d fields, cand key = true := by
    intro k
    rw [mem_dedupSeen]
    simp only [List.not_mem_nil, not_false_eq_true, and_true, List.mem_map, List.mem_filter]
    constructor
    · rintro ⟨⟨key, k'⟩, ⟨hmem, hc⟩, rfl⟩
      obtain ⟨d, hd, hk, hkey⟩ := (mem_entries fields docs key k').mp hmem
      exact ⟨d, hd, hk, key, hkey, hc⟩
    · rintro ⟨d, hd, hk, key, hkey, hc⟩
      exact ⟨(key, k), ⟨(mem_entries fields docs key k).mpr ⟨d, hd, hk, hkey⟩, hc⟩, rfl⟩
  generalize dedupSeen [] (((entries fields docs).filter (fun e => cand e.1)).map (·.2)) = ids at hidsn0 hidmem0 ⊢
  have hidsn : ids.Nodup := hidsn0
  have hidmem := hidmem0
  have hlookn : (ids.filterMap (fun k => docs.find? (·.k == k))).Nodup := by
    have : ((ids.filterMap (fun k => docs.find? (·.k == k))).map (·.k)).Nodup := by
      have hsub : ((ids.filterMap (fun k => docs.find? (·.k == k))).map (·.k)).Sublist ids := by
        clear hidsn hidmem hidsn0 hidmem0
        induction ids with
        | nil => exact List.Sublist.slnil
        | cons k t ih =>
          simp only [List.filterMap_cons]
          cases hf : docs.find? (·.k == k) with
          | none => exact List.Sublist.cons _ ih
          | some d =>
            have hdk : d.k = k := by simpa using List.find?_some hf
            simp only [List.map_cons, hdk]
            exact List.Sublist.cons₂ _ ih
      exact hsub.nodup hidsn
    clear hidmem hidsn hidsn0 hidmem0
    generalize ids.filterMap (fun k => docs.find? (·.k == k)) = l at this
    induction l with
    | nil => exact List.nodup_nil
    | cons x t ih =>
      simp only [List.map_cons, List.nodup_cons] at this
      exact List.nodup_cons.mpr ⟨fun hx => this.1 (List.mem_map.mpr ⟨x, hx, rfl⟩), ih this.2⟩
  apply (List.perm_ext_iff_of_nodup (hlookn.filter _) (hdn.filter _)).mpr
  intro d
  simp only [List.mem_filter, List.mem_filterMap]
  constructor
  · rintro ⟨⟨k, _, hf⟩, hs⟩
    exact ⟨List.mem_of_find?_eq_some hf, hs⟩
  · rintro ⟨hd, hs⟩
    refine ⟨⟨d.k, (hidmem d.k).mpr ⟨d, hd, rfl, hcomplete d hd hs⟩, find_of_mem_nodup docs hn d hd⟩, hs⟩

end Defra.IndexMulti

namespace Defra.IndexMulti
open Defra Defra.Query

/-! ### candidate completeness for the two look-ups the planner uses most -/

theorem mem_dedupV : ∀ (l : List V) (x : V), x ∈ dedupV l ↔ x ∈ l
  | [], x => by simp [dedupV]
  | y :: ys, x => by
    unfold dedupV
    have ih := mem_dedupV ys
    split
    · rename_i hc
      have hy : y ∈ dedupV ys := by simpa using hc
      rw [ih x, List.mem_cons]
      constructor
      · exact Or.inr
      · rintro (rfl | h)
        · exact (ih _).mp hy
        · exact h
    · rw [List.mem_cons, List.mem_cons, ih x]

theorem key_with_head (d : MDoc) (f0 : String) (rest : List String) (x : V) (hx : x ∈ fieldVals d f0) :
    ∃ key ∈ keysOf d (f0 :: rest), key.headD .null = x := by
  cases hk : keysOf d rest with
  | nil => exact absurd hk (keysOf_ne_nil d rest)
  | cons k ks =>
    refine ⟨x :: k, ?_, rfl⟩
    unfold keysOf
    rw [List.mem_flatMap]
    exact ⟨x, hx, by rw [hk]; simp⟩

/-- equality on the leading scalar field of an index: the prefix look-up under the condition value misses no
    matching document -/
theorem leading_eq_complete (f0 : String) (rest : List String) (v : V) (conj : List Atom)
    (hin : Atom.sc f0 .eq [v] ∈ conj) (hsc : isArrayField f0 = false) (d : MDoc)
    (hs : satisfies [conj] d = true) :
    ∃ key ∈ keysOf d (f0 :: rest), vEq v (key.headD .null) = true := by
  unfold satisfies at hs
  simp only [List.any_cons, List.any_nil, Bool.or_false, List.all_eq_true] at hs
  have ha := hs _ hin
  simp only [Atom.holds, cmp, List.headD_cons] at ha
  have hfv : d.scalar f0 ∈ fieldVals d f0 := by unfold fieldVals; simp [hsc]
  obtain ⟨key, hk, hh⟩ := key_with_head d f0 rest _ hfv
  exact ⟨key, hk, by rw [hh]; exact ha⟩

/-- `_any: {_eq: v}` on the leading array field: the prefix look-up under `v` misses no matching document -/
theorem leading_any_eq_complete (f0 : String) (rest : List String) (v : V) (conj : List Atom)
    (hin : Atom.arr f0 .any .eq [v] ∈ conj) (harr : isArrayField f0 = true) (d : MDoc)
    (hs : satisfies [conj] d = true) :
    ∃ key ∈ keysOf d (f0 :: rest), vEq v (key.headD .null) = true := by
  unfold satisfies at hs
  simp only [List.any_cons, List.any_nil, Bool.or_false, List.all_eq_true] at hs
  have ha := hs _ hin
  simp only [Atom.holds] at ha
  cases hl : d.array f0 with
  | none => simp [hl] at ha
  | some l =>
    simp only [hl, List.any_eq_true, cmp, List.headD_cons] at ha
    obtain ⟨e, he, hve⟩ := ha
    have hne : l.isEmpty = false := by cases l with | nil => cases he | cons _ _ => rfl
    have hfv : e ∈ fieldVals d f0 := by
      unfold fieldVals
      simp only [harr, if_true, hl, hne, Bool.false_eq_true, if_false]
      exact (mem_dedupV l e).mpr he
    obtain ⟨key, hk, hh⟩ := key_with_head d f0 rest e hfv
    exact ⟨key, hk, by rw [hh]; exact hve⟩

end Defra.IndexMulti
