import DefraModel.Crdt.Model
import DefraModel.Proofs.BytesLemmas
namespace Defra.Crdt
open Defra.Bytes

/-! ### (height, bytes) is a total order and `lwwMax` its maximum -/

def ple (a b : Nat × Bytes) : Prop := a.1 < b.1 ∨ (a.1 = b.1 ∧ Bytes.lt b.2 a.2 = false)

instance (a b : Nat × Bytes) : Decidable (ple a b) := by unfold ple; exact inferInstance

theorem ple_total (a b : Nat × Bytes) : ple a b ∨ ple b a := by
  unfold ple
  rcases Nat.lt_trichotomy a.1 b.1 with h | h | h
  · exact Or.inl (Or.inl h)
  · by_cases hl : Bytes.lt b.2 a.2 = true
    · exact Or.inr (Or.inr ⟨h.symm, lt_asymm _ _ hl⟩)
    · exact Or.inl (Or.inr ⟨h, by simpa using hl⟩)
  · exact Or.inr (Or.inl h)

theorem ple_trans (a b c : Nat × Bytes) (h1 : ple a b) (h2 : ple b c) : ple a c := by
  unfold ple at *
  rcases h1 with h1 | ⟨e1, l1⟩ <;> rcases h2 with h2 | ⟨e2, l2⟩
  · exact Or.inl (by omega)
  · exact Or.inl (by omega)
  · exact Or.inl (by omega)
  · refine Or.inr ⟨by omega, ?_⟩
    cases hca : Bytes.lt c.2 a.2
    · rfl
    · -- c < a, and not (b < a), not (c < b): contradiction via totality/transitivity
      exfalso
      by_cases hab : a.2 = b.2
      · rw [hab] at hca; rw [hca] at l2; cases l2
      · rcases lt_total _ _ hab with h | h
        · have := lt_trans _ _ _ hca h; rw [this] at l2; cases l2
        · rw [h] at l1; cases l1

theorem ple_antisymm (a b : Nat × Bytes) (h1 : ple a b) (h2 : ple b a) : a = b := by
  unfold ple at *
  rcases h1 with h1 | ⟨e1, l1⟩ <;> rcases h2 with h2 | ⟨e2, l2⟩
  · omega
  · omega
  · omega
  · have : a.2 = b.2 := by
      by_cases h : a.2 = b.2
      · exact h
      · rcases lt_total _ _ h with h | h
        · rw [h] at l2; cases l2
        · rw [h] at l1; cases l1
    exact Prod.ext e1 this

theorem lwwMax_eq (a b : Nat × Bytes) : lwwMax a b = if ple a b ∧ a ≠ b then b else a := by
  unfold lwwMax ple
  by_cases h1 : a.1 < b.1
  · have : a ≠ b := fun e => by rw [e] at h1; omega
    simp [h1, this]
  · by_cases h2 : a.1 = b.1
    · simp only [h1, h2, if_false, if_true, Nat.lt_irrefl, false_or, true_and]
      cases hab : Bytes.lt a.2 b.2
      · simp only [Bool.false_eq_true, if_false]
        split
        · rename_i h
          obtain ⟨hl, hne⟩ := h
          exfalso; apply hne
          have : a.2 = b.2 := by
            by_cases h : a.2 = b.2
            · exact h
            · rcases lt_total _ _ h with h | h
              · rw [h] at hab; cases hab
              · rw [h] at hl; cases hl
          exact Prod.ext h2 this
        · rfl
      · have hne : a ≠ b := fun e => by rw [e, lt_irrefl] at hab; cases hab
        simp [lt_asymm _ _ hab, hne]
    · have : ¬ (a.1 < b.1 ∨ a.1 = b.1 ∧ Bytes.lt b.2 a.2 = false) := by
        intro h; rcases h with h | ⟨h, _⟩ <;> omega
      simp [h1, h2, this]

/-- `lwwMax` is the maximum of the total order `ple` -/
theorem lwwMax_spec (a b : Nat × Bytes) : (ple a b → lwwMax a b = b) ∧ (ple b a → lwwMax a b = a) := by
  rw [lwwMax_eq]
  constructor
  · intro h
    by_cases e : a = b
    · simp [e]
    · simp [h, e]
  · intro h
    by_cases e : a = b
    · simp [e]
    · have : ¬ ple a b := fun h' => e (ple_antisymm a b h' h)
      simp [this]

theorem lwwMax_comm (a b : Nat × Bytes) : lwwMax a b = lwwMax b a := by
  rcases ple_total a b with h | h
  · rw [(lwwMax_spec a b).1 h, (lwwMax_spec b a).2 h]
  · rw [(lwwMax_spec a b).2 h, (lwwMax_spec b a).1 h]

theorem lwwMax_idem (a : Nat × Bytes) : lwwMax a a = a := by
  have : ple a a := Or.inr ⟨rfl, lt_irrefl _⟩
  exact (lwwMax_spec a a).1 this

theorem ple_lwwMax_left (a b : Nat × Bytes) : ple a (lwwMax a b) := by
  rcases ple_total a b with h | h
  · rw [(lwwMax_spec a b).1 h]; exact h
  · rw [(lwwMax_spec a b).2 h]; exact Or.inr ⟨rfl, lt_irrefl _⟩

theorem lwwMax_assoc (a b c : Nat × Bytes) : lwwMax (lwwMax a b) c = lwwMax a (lwwMax b c) := by
  rcases ple_total a b with hab | hab <;> rcases ple_total b c with hbc | hbc
  · rw [(lwwMax_spec a b).1 hab, (lwwMax_spec b c).1 hbc, (lwwMax_spec a c).1 (ple_trans _ _ _ hab hbc)]
  · rw [(lwwMax_spec a b).1 hab, (lwwMax_spec b c).2 hbc, (lwwMax_spec a b).1 hab]
  · rw [(lwwMax_spec a b).2 hab, (lwwMax_spec b c).1 hbc]
  · rw [(lwwMax_spec a b).2 hab, (lwwMax_spec b c).2 hbc, (lwwMax_spec a b).2 hab,
        (lwwMax_spec a c).2 (ple_trans _ _ _ hbc hab)]

/-- the register merge of the code is `lwwMax` -/
theorem lwwMerge_some (cur : Nat × Bytes) (p : Nat) (v : Bytes) :
    lwwMerge (some cur) p v = lwwMax cur (p, v) := by
  unfold lwwMerge lwwMax
  simp only
  by_cases h1 : p < cur.1
  · have : ¬ cur.1 < p := by omega
    have : ¬ cur.1 = p := by omega
    simp [*]
  · by_cases h2 : p = cur.1
    · subst h2; simp
    · have : cur.1 < p := by omega
      simp [*]

/-- merge as an action on the optional current value -/
def lwwAct (cur : Option (Nat × Bytes)) (x : Nat × Bytes) : Option (Nat × Bytes) :=
  some (lwwMerge cur x.1 x.2)

theorem lwwAct_comm (cur : Option (Nat × Bytes)) (x y : Nat × Bytes) :
    lwwAct (lwwAct cur x) y = lwwAct (lwwAct cur y) x := by
  unfold lwwAct
  cases cur with
  | none =>
    have e : ∀ z : Nat × Bytes, lwwMerge none z.1 z.2 = z := fun z => rfl
    rw [e x, e y, lwwMerge_some, lwwMerge_some, lwwMax_comm]
  | some c =>
    simp only [lwwMerge_some]
    rw [lwwMax_assoc, lwwMax_assoc, lwwMax_comm x y]

theorem markerMerge_comm (m : Option Bool) (a b : Bool) :
    markerMerge (markerMerge m a) b = markerMerge (markerMerge m b) a := by
  cases m <;> cases a <;> cases b <;> rfl

theorem FMap.set_set_ne {β : Type} (m : FMap β) (k k' : String) (v v' : β) (h : k ≠ k') :
    (m.set k v).set k' v' = (m.set k' v').set k v := by
  funext x
  unfold FMap.set
  by_cases h1 : x = k <;> by_cases h2 : x = k'
  · exact absurd (h1.symm.trans h2) h
  · simp [h1, h]
  · have hk : ¬ k' = k := fun e => h e.symm
    simp [h2, hk]
  · simp [h1, h2]

theorem FMap.set_set_eq {β : Type} (m : FMap β) (k : String) (v v' : β) :
    (m.set k v).set k v' = m.set k v' := by
  funext x
  unfold FMap.set
  by_cases h1 : x = k <;> simp [h1]

theorem FMap.set_get {β : Type} (m : FMap β) (k : String) (v : β) : (m.set k v) k = some v := by
  simp [FMap.set]

theorem FMap.set_get_ne {β : Type} (m : FMap β) (k k' : String) (v : β) (h : k' ≠ k) : (m.set k v) k' = m k' := by
  simp [FMap.set, h]

/-- **two deltas commute**: the visible state does not depend on the order in which two blocks are applied -/
theorem applyDelta_comm (s : Vals) (a b : Block) :
    applyDelta (applyDelta s a) b = applyDelta (applyDelta s b) a := by
  unfold applyDelta
  cases ha : a.kind <;> cases hb : b.kind <;> cases hda : a.delta <;> cases hdb : b.delta <;> simp only []
  -- comp / comp
  case comp.comp.comp.comp x y => simp [markerMerge_comm]
  -- field / field
  case field.field.lww.lww f g v w =>
    by_cases hfg : f = g
    · subst hfg
      simp only [FMap.set_get, FMap.set_set_eq]
      have := lwwAct_comm (s.lww f) (a.height, v) (b.height, w)
      simp only [lwwAct, Option.some.injEq] at this
      rw [this]
    · have hgf : g ≠ f := fun e => hfg e.symm
      simp only [FMap.set_get_ne _ _ _ _ hgf, FMap.set_get_ne _ _ _ _ hfg]
      rw [FMap.set_set_ne _ _ _ _ _ hfg]
  case field.field.ctr.ctr f g i j =>
    by_cases hfg : f = g
    · subst hfg
      simp only [FMap.set_get, FMap.set_set_eq, Option.getD_some]
      congr 2; omega
    · have hgf : g ≠ f := fun e => hfg e.symm
      simp only [FMap.set_get_ne _ _ _ _ hgf, FMap.set_get_ne _ _ _ _ hfg]
      rw [FMap.set_set_ne _ _ _ _ _ hfg]

/-- **any two orders of the same blocks give the same visible state** -/
theorem applyAll_perm (s : Vals) (l₁ l₂ : List Block) (p : l₁.Perm l₂) :
    l₁.foldl applyDelta s = l₂.foldl applyDelta s :=
  List.Perm.foldl_eq' p (fun x _ y _ z => applyDelta_comm z x y) s

end Defra.Crdt
