import DefraModel.Proofs.CrdtVersioned
import DefraModel.Proofs.CrdtClosure

/-! The versioned read replays every ancestor commit and every block it links (for Props/C03). -/
namespace Defra.Crdt

/-- what a call of `vmerge` guarantees about the visited list -/
structure VPost (bs : Blocks) (c : Nat) (before after : List Nat) : Prop where
  vmono : ∀ x ∈ before, x ∈ after
  start : c ∈ after
  closed : ∀ x ∈ after, x ∉ before → ∀ b, bs.get? x = some b → ∀ l ∈ b.links, l ∈ after

theorem vmerge_post (bs : Blocks) :
    ∀ (fuel : Nat) (acc : Vals × List Nat) (c : Nat), unvisited bs acc.2 < fuel →
      VPost bs c acc.2 (vmerge bs fuel acc c).2 := by
  intro fuel
  induction fuel with
  | zero => intro acc c h; omega
  | succ n ih =>
    intro acc c hfuel
    obtain ⟨s, merged⟩ := acc
    unfold vmerge
    by_cases hc : merged.contains c = true
    · simp only [hc, if_true]
      exact ⟨fun x hx => hx, by simpa using hc, fun x hx hnx => absurd hx hnx⟩
    · simp only [hc, Bool.false_eq_true, if_false]
      have hcn : c ∉ merged := by simpa using hc
      have hcv : c ∈ merged ++ [c] := List.mem_append_right _ (List.mem_singleton.mpr rfl)
      cases hg : bs.get? c with
      | none =>
        refine ⟨fun x hx => List.mem_append_left _ hx, hcv, ?_⟩
        intro x hx hnx b hb
        rcases List.mem_append.mp hx with hx | hx
        · exact absurd hx hnx
        · simp only [List.mem_singleton] at hx; subst hx; rw [hg] at hb; cases hb
      | some b =>
        simp only
        have hfuel0 : unvisited bs (merged ++ [c]) < n := by
          have := unvisited_lt bs merged c b hg hcn
          simp only at hfuel; omega
        have fold : ∀ (ls : List Nat) (a : Vals × List Nat), unvisited bs a.2 < n →
            let r := ls.foldl (fun acc l => vmerge bs n acc l) a
            (∀ x ∈ a.2, x ∈ r.2) ∧ (∀ l ∈ ls, l ∈ r.2) ∧
            (∀ x ∈ r.2, x ∉ a.2 → ∀ b, bs.get? x = some b → ∀ l ∈ b.links, l ∈ r.2) := by
          intro ls
          induction ls with
          | nil =>
            intro a _
            refine ⟨fun x hx => hx, ?_, fun x hx hnx => absurd hx hnx⟩
            intro l hl; cases hl
          | cons l t iht =>
            intro a ha
            simp only [List.foldl_cons]
            have h1 := ih a l ha
            have ha' : unvisited bs (vmerge bs n a l).2 < n :=
              Nat.lt_of_le_of_lt (unvisited_mono bs _ _ h1.vmono) ha
            obtain ⟨t1, t2, t3⟩ := iht (vmerge bs n a l) ha'
            refine ⟨fun x hx => t1 x (h1.vmono x hx), ?_, ?_⟩
            · intro q hq
              rcases List.mem_cons.mp hq with rfl | hq
              · exact t1 _ h1.start
              · exact t2 q hq
            · intro x hx hnx b' hb' l' hl'
              by_cases hx1 : x ∈ (vmerge bs n a l).2
              · exact t1 _ (h1.closed x hx1 hnx b' hb' l' hl')
              · exact t3 x hx hx1 b' hb' l' hl'
        obtain ⟨f1, f2, f3⟩ := fold b.links (applyDelta s b, merged ++ [c]) hfuel0
        refine ⟨fun x hx => f1 x (List.mem_append_left _ hx), f1 c hcv, ?_⟩
        intro x hx hnx b' hb' l hl
        by_cases hxc : x = c
        · subst hxc
          rw [hg] at hb'; cases hb'
          exact f2 l hl
        · have hnx' : x ∉ merged ++ [c] := by
            intro hmem
            rcases List.mem_append.mp hmem with h | h
            · exact hnx h
            · simp only [List.mem_singleton] at h; exact hxc h
          exact f3 x hx hnx' b' hb' l hl

/-- folding `vmerge` over a queue from the empty scratch store: every queued block is visited and the visited list
    is closed under links -/
theorem vmerge_queue_post (bs : Blocks) (queue : List Block) :
    let r := queue.foldl (fun acc (b : Block) => vmerge bs (bs.length + 1) acc b.id) (({} : Vals), ([] : List Nat))
    (∀ b ∈ queue, b.id ∈ r.2) ∧ (∀ x ∈ r.2, ∀ b, bs.get? x = some b → ∀ l ∈ b.links, l ∈ r.2) := by
  have hfuel : ∀ (v : List Nat), unvisited bs v < bs.length + 1 := by
    intro v; unfold unvisited; exact Nat.lt_succ_of_le (List.length_filter_le _ _)
  have gen : ∀ (q : List Block) (a : Vals × List Nat),
      (∀ x ∈ a.2, ∀ b, bs.get? x = some b → ∀ l ∈ b.links, l ∈ a.2) →
      let r := q.foldl (fun acc (b : Block) => vmerge bs (bs.length + 1) acc b.id) a
      (∀ x ∈ a.2, x ∈ r.2) ∧ (∀ b ∈ q, b.id ∈ r.2) ∧
      (∀ x ∈ r.2, ∀ b, bs.get? x = some b → ∀ l ∈ b.links, l ∈ r.2) := by
    intro q
    induction q with
    | nil =>
      intro a ha
      refine ⟨fun x hx => hx, ?_, ha⟩
      intro b hb; cases hb
    | cons b t iht =>
      intro a ha
      simp only [List.foldl_cons]
      have h1 := vmerge_post bs (bs.length + 1) a b.id (hfuel a.2)
      have hclosed1 : ∀ x ∈ (vmerge bs (bs.length + 1) a b.id).2, ∀ b', bs.get? x = some b' →
          ∀ l ∈ b'.links, l ∈ (vmerge bs (bs.length + 1) a b.id).2 := by
        intro x hx b' hb' l hl
        by_cases hxa : x ∈ a.2
        · exact h1.vmono _ (ha x hxa b' hb' l hl)
        · exact h1.closed x hx hxa b' hb' l hl
      obtain ⟨t1, t2, t3⟩ := iht (vmerge bs (bs.length + 1) a b.id) hclosed1
      refine ⟨fun x hx => t1 x (h1.vmono x hx), ?_, t3⟩
      intro b' hb'
      rcases List.mem_cons.mp hb' with rfl | hb'
      · exact t1 _ h1.start
      · exact t2 b' hb'
  obtain ⟨_, g2, g3⟩ := gen queue (({} : Vals), ([] : List Nat)) (by intro x hx; cases hx)
  exact ⟨g2, g3⟩

/-- **The versioned read replays every ancestor and every block an ancestor links, each exactly once.** -/
theorem versionedVals_exact (bs : Blocks) (c : Nat) :
    ∃ (ids : List Nat), ids.Nodup ∧
      versionedVals bs c = (ids.filterMap bs.get?).foldl applyDelta {} ∧
      (∀ (n x : Nat) (b : Block), Path bs c x n → bs.get? x = some b → x ∈ ids ∧ ∀ l ∈ b.links, l ∈ ids) := by
  unfold versionedVals
  have happ := applies_foldl bs (fun acc (b : Block) => vmerge bs (bs.length + 1) acc b.id)
    (fun acc b => vmerge_applies bs (bs.length + 1) acc b.id)
    (sortByHeight ((seekQueue bs c).filterMap bs.get?)) (({} : Vals), ([] : List Nat))
  obtain ⟨ids, applied, hv, hs, _, hn, hf⟩ := happ
  have hq := vmerge_queue_post bs (sortByHeight ((seekQueue bs c).filterMap bs.get?))
  simp only [List.nil_append] at hv
  refine ⟨ids, hn, by rw [hs, hf], ?_⟩
  intro n x b hp hg
  have hxq : x ∈ seekQueue bs c := seekQueue_complete bs c n x hp (by rw [hg]; rfl)
  have hbq : b ∈ sortByHeight ((seekQueue bs c).filterMap bs.get?) := by
    apply (sortByHeight_perm _).mem_iff.mpr
    exact List.mem_filterMap.mpr ⟨x, hxq, hg⟩
  have hid := Blocks.get?_id hg
  have hx : x ∈ ids := by rw [← hv, ← hid]; exact hq.1 b hbq
  refine ⟨hx, ?_⟩
  intro l hl
  rw [← hv]
  exact hq.2 x (by rw [hv]; exact hx) b hg l hl

end Defra.Crdt
