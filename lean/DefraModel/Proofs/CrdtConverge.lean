import DefraModel.Proofs.CrdtMergeFull
import DefraModel.Proofs.CrdtAlgebra

/-!
Convergence for every history of deliveries (for Props/C01): after any sequence of merges the values of a document are
the deltas of its merged blocks, each once — so two replicas that have merged the same blocks show the same values,
whatever the orders, repetitions and groupings in which the commits arrived.
-/
namespace Defra.Crdt

/-- `b` is a stored block merged into the head set of its kind -/
def MergedIn (bs : Blocks) (s : DocState) (b : Block) : Prop :=
  bs.get? b.id = some b ∧ b.kind ≠ .col ∧ Reach bs (headsOf s b.kind) b.id

/-- the values are accounted for: they are the deltas of an enumeration of the merged blocks, each once -/
def Accounted (bs : Blocks) (s : DocState) : Prop :=
  ∃ l : List Block, (l.map (·.id)).Nodup ∧ (∀ b, b ∈ l ↔ MergedIn bs s b) ∧ s.vals = l.foldl applyDelta {}

theorem nodup_of_ids : ∀ {l : List Block}, (l.map (·.id)).Nodup → l.Nodup
  | [], _ => List.nodup_nil
  | x :: t, h => by
    simp only [List.map_cons, List.nodup_cons] at h
    exact List.nodup_cons.mpr ⟨fun hx => h.1 (List.mem_map.mpr ⟨x, hx, rfl⟩), nodup_of_ids h.2⟩

/-- two accounted states with the same merged blocks have the same values -/
theorem accounted_converge (bs : Blocks) (s₁ s₂ : DocState) (h₁ : Accounted bs s₁) (h₂ : Accounted bs s₂)
    (same : ∀ b, MergedIn bs s₁ b ↔ MergedIn bs s₂ b) : s₁.vals = s₂.vals := by
  obtain ⟨l₁, n₁, m₁, v₁⟩ := h₁
  obtain ⟨l₂, n₂, m₂, v₂⟩ := h₂
  have hp : l₁.Perm l₂ := by
    apply (List.perm_ext_iff_of_nodup (nodup_of_ids n₁) (nodup_of_ids n₂)).mpr
    intro b
    rw [m₁ b, m₂ b, same b]
  rw [v₁, v₂]
  exact applyAll_perm {} l₁ l₂ hp

theorem foldl_applyDelta_append (l₁ l₂ : List Block) (s : Vals) :
    (l₁ ++ l₂).foldl applyDelta s = l₂.foldl applyDelta (l₁.foldl applyDelta s) := List.foldl_append

/-- **a merge keeps the values accounted for** -/
theorem mergeDoc_accounted (cx : Ctx) (swf : StoreWF3 cx.blocks)
    (hknown : ∀ l, (cx.blocks.get? l).isSome = true → cx.known l = true)
    (r : Replica) (c : Block) (hc : cx.blocks.get? c.id = some c) (hck : c.kind = .comp)
    (hk : KInv cx.blocks (r.doc c.doc)) (hli : LinkInv cx.blocks (r.doc c.doc))
    (ha : Accounted cx.blocks (r.doc c.doc)) : Accounted cx.blocks ((mergeDoc cx r c).doc c.doc) := by
  obtain ⟨_, hok, _, hreach, hvals⟩ := mergeDoc_full cx swf hknown r c hc hck hk hli
  obtain ⟨l, hn, hm, hv⟩ := ha
  have wf := swf.base2.base.wf
  generalize hseq : flatSeq cx.blocks
    (sortByHeight (loadComposites cx.blocks (r.doc c.doc).heads (cx.blocks.length + 1) c.id ([], [])).1) = seq at *
  generalize happ : appliedSeq cx.blocks (r.doc c.doc) seq = app at *
  have happ_sound : ∀ x ∈ app, x ∈ seq ∧ unmergedAt cx.blocks (r.doc c.doc) x = true := by
    intro x hx
    rw [← happ] at hx
    rcases foldl_addFirst_mem cx.blocks (r.doc c.doc) seq [] x hx with h | h
    · cases h
    · exact h
  have hunm : ∀ x, cx.blocks.get? x.id = some x → unmergedAt cx.blocks (r.doc c.doc) x = true →
      ¬ Reach cx.blocks (headsOf (r.doc c.doc) x.kind) x.id := by
    intro x hst hu hr
    unfold unmergedAt at hu
    rw [isMerged_complete cx.blocks wf _ x.id x hst hr] at hu
    cases hu
  refine ⟨l ++ app, ?_, ?_, ?_⟩
  · rw [List.map_append, List.nodup_append]
    refine ⟨hn, ?_, ?_⟩
    · rw [← happ]; exact foldl_addFirst_nodup cx.blocks (r.doc c.doc) seq [] (by simp)
    · intro a ha b hb hab
      subst hab
      obtain ⟨x, hx, hxa⟩ := List.mem_map.mp ha
      obtain ⟨y, hy, hya⟩ := List.mem_map.mp hb
      obtain ⟨hxs, _, hxr⟩ := (hm x).mp hx
      obtain ⟨hys, hyu⟩ := happ_sound y hy
      have hyst := (hok y hys).stored
      have hxy : x = y := by
        rw [← hxa] at hya
        rw [hya, hxs] at hyst
        exact Option.some.inj hyst
      subst hxy
      exact hunm x hxs hyu hxr
  · intro b
    rw [List.mem_append]
    constructor
    · rintro (hb | hb)
      · obtain ⟨h1, h2, h3⟩ := (hm b).mp hb
        exact ⟨h1, h2, (hreach _ _).mpr (Or.inl h3)⟩
      · obtain ⟨hbs, _⟩ := happ_sound b hb
        have hbok := hok b hbs
        exact ⟨hbok.stored, hbok.notCol, (hreach _ _).mpr (Or.inr ⟨b, hbs, rfl, rfl⟩)⟩
    · rintro ⟨h1, h2, h3⟩
      rcases (hreach _ _).mp h3 with h | ⟨e, he, hid, hkind⟩
      · exact Or.inl ((hm b).mpr ⟨h1, h2, h⟩)
      · have heb : e = b := by
          have hest := (hok e he).stored
          rw [hid, h1] at hest
          exact (Option.some.inj hest).symm
        subst heb
        by_cases hu : unmergedAt cx.blocks (r.doc c.doc) e = true
        · right
          obtain ⟨y, hy, hyid⟩ := foldl_addFirst_has cx.blocks (r.doc c.doc) e.id seq [] (Or.inr ⟨e, he, rfl, hu⟩)
          have hy : y ∈ app := by rw [← happ]; exact hy
          have hyst := (hok y (happ_sound y hy).1).stored
          rw [hyid, h1] at hyst
          rw [Option.some.inj hyst]; exact hy
        · left
          have hm' : isMerged cx.blocks (headsOf (r.doc c.doc) e.kind) e.id e.height = true := by
            unfold unmergedAt at hu
            cases h : isMerged cx.blocks (headsOf (r.doc c.doc) e.kind) e.id e.height with
            | true => rfl
            | false => simp [h] at hu
          exact (hm e).mpr ⟨h1, h2, isMerged_sound _ _ _ _ hm'⟩
  · rw [hvals, hv, foldl_applyDelta_append]

/-- **a merge keeps "what a merged composite links is merged"** -/
theorem mergeDoc_linkInv (cx : Ctx) (swf : StoreWF3 cx.blocks)
    (hknown : ∀ l, (cx.blocks.get? l).isSome = true → cx.known l = true)
    (r : Replica) (c : Block) (hc : cx.blocks.get? c.id = some c) (hck : c.kind = .comp)
    (hk : KInv cx.blocks (r.doc c.doc)) (hli : LinkInv cx.blocks (r.doc c.doc)) :
    LinkInv cx.blocks ((mergeDoc cx r c).doc c.doc) := by
  obtain ⟨wfacts, hok, _, hreach, _⟩ := mergeDoc_full cx swf hknown r c hc hck hk hli
  intro a ab hga hak hr l hl lb hlb
  have hlbid := Blocks.get?_id hlb
  have hr' : Reach cx.blocks (headsOf ((mergeDoc cx r c).doc c.doc) .comp) a := hr
  rcases (hreach _ _).mp hr' with h | ⟨e, he, hid, hkind⟩
  · exact (hreach _ _).mpr (Or.inl (hli a ab hga hak h l hl lb hlb))
  · have hest := (hok e he).stored
    rw [hid, hga] at hest
    have heab : e = ab := (Option.some.inj hest).symm
    subst heab
    -- `e` is one of the collected composites: its stored links follow it in the sequence
    rcases mem_flatSeq.mp he with hL | ⟨b, hb, hcb⟩
    · have hin : lb ∈ flatSeq cx.blocks _ := mem_flatSeq.mpr (Or.inr ⟨e, hL, mem_childBlocks.mpr ⟨l, hl, hlb⟩⟩)
      exact (hreach _ _).mpr (Or.inr ⟨lb, hin, hlbid, rfl⟩)
    · -- a child is a field block, not a composite
      obtain ⟨l', hl', hg'⟩ := mem_childBlocks.mp hcb
      obtain ⟨⟨f, hf⟩, _⟩ := swf.base2.fieldLinks _ _ ((wfacts.mem b).mp hb).1 (wfacts.comp b hb) l' hl' e hg'
      rw [hak] at hf; cases hf

end Defra.Crdt

namespace Defra.Crdt

/-- a merged field block is linked by a merged composite -/
def FieldsFollow (bs : Blocks) (s : DocState) : Prop :=
  ∀ fb f, bs.get? fb.id = some fb → fb.kind = .field f → Reach bs (headsOf s (.field f)) fb.id →
    ∃ a ab, bs.get? a = some ab ∧ ab.kind = .comp ∧ Reach bs s.heads a ∧ fb.id ∈ ab.links

theorem mergeDoc_fieldsFollow (cx : Ctx) (swf : StoreWF3 cx.blocks)
    (hknown : ∀ l, (cx.blocks.get? l).isSome = true → cx.known l = true)
    (r : Replica) (c : Block) (hc : cx.blocks.get? c.id = some c) (hck : c.kind = .comp)
    (hk : KInv cx.blocks (r.doc c.doc)) (hli : LinkInv cx.blocks (r.doc c.doc))
    (hff : FieldsFollow cx.blocks (r.doc c.doc)) : FieldsFollow cx.blocks ((mergeDoc cx r c).doc c.doc) := by
  obtain ⟨wfacts, hok, _, hreach, _⟩ := mergeDoc_full cx swf hknown r c hc hck hk hli
  intro fb f hst hkf hr
  rcases (hreach _ _).mp hr with h | ⟨e, he, hid, hkind⟩
  · obtain ⟨a, ab, h1, h2, h3, h4⟩ := hff fb f hst hkf h
    exact ⟨a, ab, h1, h2, (hreach .comp a).mpr (Or.inl h3), h4⟩
  · rcases mem_flatSeq.mp he with hL | ⟨b, hb, hcb⟩
    · rw [wfacts.comp e hL] at hkind; cases hkind
    · obtain ⟨l, hl, hg⟩ := mem_childBlocks.mp hcb
      have hbst := ((wfacts.mem b).mp hb).1
      refine ⟨b.id, b, hbst, wfacts.comp b hb, ?_, ?_⟩
      · exact (hreach .comp b.id).mpr (Or.inr ⟨b, mem_flatSeq.mpr (Or.inl hb), rfl, wfacts.comp b hb⟩)
      · rw [← hid, Blocks.get?_id hg]; exact hl

/-! ### every history of deliveries -/

/-- head sets hold distinct stored blocks of their kind; what a merged composite links is merged; the values are
    the deltas of the merged blocks, each once -/
def DocInv (bs : Blocks) (s : DocState) : Prop := KInv bs s ∧ LinkInv bs s ∧ Accounted bs s ∧ FieldsFollow bs s

theorem reach_nil (bs : Blocks) (t : Nat) : ¬ Reach bs [] t := by
  intro h
  induction h with
  | head hx => cases hx
  | parent _ _ _ ih => exact ih

theorem headsOf_empty (k : Kind) : headsOf ({} : DocState) k = [] := by
  cases k <;> rfl

theorem docInv_empty (bs : Blocks) : DocInv bs {} := by
  refine ⟨?_, ?_, ⟨[], by simp, ?_, rfl⟩, ?_⟩
  · intro x _; rw [headsOf_empty]; exact ⟨List.nodup_nil, fun h hh => by cases hh⟩
  · intro a ab _ _ hr; exact absurd hr (reach_nil bs a)
  · intro b
    constructor
    · intro h; cases h
    · rintro ⟨_, _, h⟩; rw [headsOf_empty] at h; exact absurd h (reach_nil bs _)
  · intro fb f _ _ hr; rw [headsOf_empty] at hr; exact absurd hr (reach_nil bs _)

theorem mergeDoc_docInv (cx : Ctx) (swf : StoreWF3 cx.blocks)
    (hknown : ∀ l, (cx.blocks.get? l).isSome = true → cx.known l = true)
    (r : Replica) (c : Block) (hc : cx.blocks.get? c.id = some c) (hck : c.kind = .comp)
    (h : DocInv cx.blocks (r.doc c.doc)) : DocInv cx.blocks ((mergeDoc cx r c).doc c.doc) := by
  obtain ⟨hk, hli, ha, hff⟩ := h
  exact ⟨(mergeDoc_full cx swf hknown r c hc hck hk hli).2.2.1,
    mergeDoc_linkInv cx swf hknown r c hc hck hk hli,
    mergeDoc_accounted cx swf hknown r c hc hck hk hli ha,
    mergeDoc_fieldsFollow cx swf hknown r c hc hck hk hli hff⟩

/-- other documents are not touched -/
theorem doc_processBlock_comp_other (cx : Ctx) (n : Nat) (r : Replica) (b : Block) (hk : b.kind = .comp)
    (hl : FieldLinksDoc cx.blocks b) (d : String) (hd : d ≠ b.doc) :
    (processBlock cx (n + 2) r b).doc d = r.doc d := by
  rw [processBlock]
  simp only [hk]
  have hfold : ∀ (g : Replica → Nat → Replica) (links : List Nat),
      (∀ r', ∀ l ∈ links, (g r' l).doc d = r'.doc d) → ∀ r', (links.foldl g r').doc d = r'.doc d := by
    intro g links
    induction links with
    | nil => intro _ r'; rfl
    | cons l t ih =>
      intro h r'
      simp only [List.foldl_cons]
      rw [ih (fun r'' x hx => h r'' x (List.mem_cons_of_mem _ hx))]
      exact h r' l List.mem_cons_self
  rw [hfold _ b.links]
  · rw [doc_setDoc]; simp [hd]
  · intro r' l hl'
    split
    · rfl
    · rename_i child hg
      obtain ⟨⟨f, hf⟩, hnl, hdoc⟩ := hl l hl' child hg
      rw [doc_processBlock_field cx n r' child f hf hnl d]
      simp [hdoc, hd]

theorem mergeDoc_other_doc (cx : Ctx) (swf : StoreWF3 cx.blocks) (r : Replica) (c : Block)
    (hc : cx.blocks.get? c.id = some c) (hck : c.kind = .comp) (d : String) (hd : d ≠ c.doc) :
    (mergeDoc cx r c).doc d = r.doc d := by
  have swf2 := swf.base2
  have wfacts := walk_facts cx.blocks swf2.base (r.doc c.doc).heads c.id ⟨c, hc, hck⟩
  have hm : mergeDoc cx r c =
      (sortByHeight (loadComposites cx.blocks (r.doc c.doc).heads (cx.blocks.length + 1) c.id ([], [])).1).foldl
        (fun r b => processBlock cx 4 r b) r := rfl
  rw [hm]
  clear hm
  generalize sortByHeight (loadComposites cx.blocks (r.doc c.doc).heads (cx.blocks.length + 1) c.id ([], [])).1 = L
    at wfacts
  have hL : ∀ b ∈ L, b.kind = .comp ∧ b.doc = c.doc ∧ FieldLinksDoc cx.blocks b := by
    intro b hb
    obtain ⟨h1, ⟨n, hn⟩, _⟩ := (wfacts.mem b).mp hb
    have hbk := wfacts.comp b hb
    refine ⟨hbk, (path_doc cx.blocks swf2 hn c hc hck b h1).2, ?_⟩
    intro l hl lb hlb
    obtain ⟨hf, hnl⟩ := swf2.fieldLinks _ _ h1 hbk l hl lb hlb
    exact ⟨hf, hnl, swf.linkDoc _ _ h1 hbk l hl lb hlb⟩
  clear wfacts
  induction L generalizing r with
  | nil => rfl
  | cons b t ih =>
    simp only [List.foldl_cons]
    rw [ih _ (fun x hx => hL x (List.mem_cons_of_mem _ hx))]
    obtain ⟨hbk, hbd, hfl⟩ := hL b List.mem_cons_self
    exact doc_processBlock_comp_other cx 2 r b hbk hfl d (by rw [hbd]; exact hd)

/-- **Every history.** Whatever stored commits are delivered to a replica, in whatever order, with whatever
    repetitions, every document keeps `DocInv`. -/
theorem deliveries_docInv (cx : Ctx) (swf : StoreWF3 cx.blocks)
    (hknown : ∀ l, (cx.blocks.get? l).isSome = true → cx.known l = true) (d : String) :
    ∀ (cs : List Block) (r : Replica), (∀ c ∈ cs, cx.blocks.get? c.id = some c ∧ c.kind = .comp) →
      DocInv cx.blocks (r.doc d) → DocInv cx.blocks ((cs.foldl (mergeDoc cx) r).doc d) := by
  intro cs
  induction cs with
  | nil => intro r _ h; exact h
  | cons c t ih =>
    intro r hcs h
    simp only [List.foldl_cons]
    apply ih _ (fun x hx => hcs x (List.mem_cons_of_mem _ hx))
    obtain ⟨hc, hck⟩ := hcs c List.mem_cons_self
    by_cases hd : d = c.doc
    · subst hd; exact mergeDoc_docInv cx swf hknown r c hc hck h
    · rw [mergeDoc_other_doc cx swf r c hc hck d hd]; exact h

/-- under `DocInv`, which blocks are merged is determined by which commits (composites) are merged -/
theorem mergedIn_of_same_commits (bs : Blocks) (swf : StoreWF3 bs) (s₁ s₂ : DocState)
    (h₁ : DocInv bs s₁) (h₂ : DocInv bs s₂) (same : ∀ t, Reach bs s₁.heads t ↔ Reach bs s₂.heads t) (b : Block)
    (hm : MergedIn bs s₁ b) : MergedIn bs s₂ b := by
  obtain ⟨hst, hnc, hr⟩ := hm
  refine ⟨hst, hnc, ?_⟩
  cases hk : b.kind with
  | col => exact absurd hk hnc
  | comp =>
    rw [hk] at hr
    exact (same b.id).mp hr
  | field f =>
    rw [hk] at hr
    obtain ⟨a, ab, h1, h2, h3, h4⟩ := h₁.2.2.2 b f hst hk hr
    have := h₂.2.1 a ab h1 h2 ((same a).mp h3) b.id h4 b hst
    rw [hk] at this
    exact this

/-- **Convergence, every history.** Two replicas that have merged the same commits of a document, each through any
    history of deliveries that keeps `DocInv`, show the same values. -/
theorem same_commits_same_values (bs : Blocks) (swf : StoreWF3 bs) (s₁ s₂ : DocState)
    (h₁ : DocInv bs s₁) (h₂ : DocInv bs s₂) (same : ∀ t, Reach bs s₁.heads t ↔ Reach bs s₂.heads t) :
    s₁.vals = s₂.vals :=
  accounted_converge bs s₁ s₂ h₁.2.2.1 h₂.2.2.1 (fun b =>
    ⟨mergedIn_of_same_commits bs swf s₁ s₂ h₁ h₂ same b,
     mergedIn_of_same_commits bs swf s₂ s₁ h₂ h₁ (fun t => (same t).symm) b⟩)

end Defra.Crdt

namespace Defra.Crdt

/-! ### a local write is the merge of its own commit -/

theorem loadComposites_merged_parent (bs : Blocks) (heads : List Nat) (n p : Nat) (acc : List Block × List Nat)
    (hp : ∀ pb, bs.get? p = some pb → isMerged bs heads p pb.height = true) :
    (loadComposites bs heads (n + 1) p acc).1 = acc.1 := by
  obtain ⟨coll, visited⟩ := acc
  unfold loadComposites
  by_cases hv : visited.contains p = true
  · simp only [hv, if_true]
  · simp only [hv, Bool.false_eq_true, if_false]
    cases hg : bs.get? p with
    | none => rfl
    | some pb => simp only [hp pb hg, if_true]

theorem foldl_merged_parents (bs : Blocks) (heads : List Nat) (n : Nat) : ∀ (ps : List Nat) (acc : List Block × List Nat),
    (∀ p ∈ ps, ∀ pb, bs.get? p = some pb → isMerged bs heads p pb.height = true) →
    (ps.foldl (fun acc p => loadComposites bs heads (n + 1) p acc) acc).1 = acc.1 := by
  intro ps
  induction ps with
  | nil => intro acc _; rfl
  | cons p t ih =>
    intro acc h
    simp only [List.foldl_cons]
    rw [ih _ (fun q hq => h q (List.mem_cons_of_mem _ hq))]
    exact loadComposites_merged_parent bs heads n p acc (h p List.mem_cons_self)

/-- a commit whose parents are all merged and which is not merged itself — a local write on top of the current
    heads — is processed by `mergeDoc` exactly as `processBlock` processes it -/
theorem mergeDoc_of_parents_merged (cx : Ctx) (r : Replica) (c : Block) (hc : cx.blocks.get? c.id = some c)
    (hn : isMerged cx.blocks (r.doc c.doc).heads c.id c.height = false)
    (hp : ∀ p ∈ c.parents, ∀ pb, cx.blocks.get? p = some pb →
      isMerged cx.blocks (r.doc c.doc).heads p pb.height = true) :
    mergeDoc cx r c = processBlock cx 4 r c := by
  have hlen : ∃ m, cx.blocks.length = m + 1 := by
    have hmem := get?_mem hc
    cases h : cx.blocks with
    | nil => rw [h] at hmem; cases hmem
    | cons x t => exact ⟨t.length, rfl⟩
  obtain ⟨m, hm⟩ := hlen
  have hcoll : (loadComposites cx.blocks (r.doc c.doc).heads (cx.blocks.length + 1) c.id ([], [])).1 = [c] := by
    rw [hm]
    unfold loadComposites
    simp only [List.contains_nil, Bool.false_eq_true, if_false, hc, hn]
    rw [foldl_merged_parents cx.blocks _ m c.parents _ hp]
  have hmd : mergeDoc cx r c =
      (sortByHeight (loadComposites cx.blocks (r.doc c.doc).heads (cx.blocks.length + 1) c.id ([], [])).1).foldl
        (fun r b => processBlock cx 4 r b) r := rfl
  rw [hmd, hcoll]
  rfl

end Defra.Crdt
