import DefraModel.Kv.Mvcc
namespace Defra.Mvcc

/-- committed versions never lie in the future, snapshots neither -/
def Wf (db : DB) : Prop :=
  (∀ v ∈ db.versions, v.ts ≤ db.clock) ∧ (∀ p ∈ db.txns, p.2.startTs ≤ db.clock)

theorem readAt_append_newer (vs new : List Version) (ts : Nat) (k : Key)
    (h : ∀ v ∈ new, v.ts > ts) : readAt (vs ++ new) ts k = readAt vs ts k := by
  unfold readAt
  have : new.filter (fun v => v.key == k && decide (v.ts ≤ ts)) = [] := by
    apply List.filter_eq_nil_iff.mpr
    intro v hv
    have := h v hv
    simp; intro _; omega
  rw [List.filter_append, this, List.append_nil]

/-- every step only appends versions, all stamped with the next clock value, and the clock never goes back -/
theorem step_appends (db : DB) (a : Act) :
    ∃ new, (step db a).1.versions = db.versions ++ new ∧ (∀ v ∈ new, v.ts = db.clock + 1) ∧
      db.clock ≤ (step db a).1.clock ∧ (new ≠ [] → (step db a).1.clock = db.clock + 1) := by
  cases a with
  | begin i => exact ⟨[], by simp [step, DB.setTxn], by simp, by simp [step, DB.setTxn], by simp⟩
  | read i k =>
    simp only [step]
    cases db.txn? i with
    | none => exact ⟨[], by simp, by simp, by simp, by simp⟩
    | some t => by_cases hl : t.live <;> simp [hl, DB.setTxn] <;> exact ⟨[], by simp, by simp, by simp⟩
  | write i k v =>
    simp only [step]
    cases db.txn? i with
    | none => exact ⟨[], by simp, by simp, by simp, by simp⟩
    | some t => by_cases hl : t.live <;> simp [hl, DB.setTxn] <;> exact ⟨[], by simp, by simp, by simp⟩
  | commit i =>
    simp only [step]
    cases db.txn? i with
    | none => exact ⟨[], by simp, by simp, by simp, by simp⟩
    | some t =>
      by_cases hl : t.live
      · by_cases he : t.writes.isEmpty
        · simp [hl, he, DB.setTxn]
        by_cases hc : hasConflict db.versions t
        · simp [hl, he, hc, DB.setTxn]
        · simp only [hl, he, hc, Bool.not_true, Bool.false_eq_true, if_false]
          refine ⟨t.writes.map (fun w => ⟨w.1, db.clock + 1, w.2⟩), rfl, ?_, by simp, fun _ => by simp⟩
          intro v hv
          simp only [List.mem_map] at hv
          obtain ⟨w, _, rfl⟩ := hv
          rfl
      · simp [hl]
  | discard i =>
    simp only [step]
    cases db.txn? i with
    | none => exact ⟨[], by simp, by simp, by simp, by simp⟩
    | some t => exact ⟨[], by simp [DB.setTxn], by simp, by simp [DB.setTxn], by simp⟩
  | outsideRead k => exact ⟨[], by simp [step], by simp, by simp [step], by simp⟩

/-- **snapshot stability**: what a snapshot taken at or before the current clock shows for any key is not
    changed by any single step of any transaction -/
theorem step_preserves_snapshot (db : DB) (a : Act) (ts : Nat) (hts : ts ≤ db.clock) (k : Key) :
    readAt (step db a).1.versions ts k = readAt db.versions ts k := by
  obtain ⟨new, hv, hnew, _, _⟩ := step_appends db a
  rw [hv]
  apply readAt_append_newer
  intro v hm
  have := hnew v hm
  omega

theorem run_clock_mono (acts : List Act) : ∀ (db : DB), db.clock ≤ (runActs db acts).1.clock := by
  induction acts with
  | nil => intro db; exact Nat.le_refl _
  | cons a rest ih =>
    intro db
    obtain ⟨_, _, _, hc, _⟩ := step_appends db a
    simp only [runActs]
    exact Nat.le_trans hc (ih _)

/-- ... nor by any finite schedule of steps of any number of transactions -/
theorem run_preserves_snapshot (acts : List Act) : ∀ (db : DB) (ts : Nat), ts ≤ db.clock → ∀ (k : Key),
    readAt (runActs db acts).1.versions ts k = readAt db.versions ts k := by
  induction acts with
  | nil => intro db ts _ k; rfl
  | cons a rest ih =>
    intro db ts hts k
    simp only [runActs]
    obtain ⟨_, _, _, hc, _⟩ := step_appends db a
    rw [ih (step db a).1 ts (Nat.le_trans hts hc) k, step_preserves_snapshot db a ts hts k]

theorem hasConflict_append (vs new : List Version) (t : Txn) (h : hasConflict vs t = true) :
    hasConflict (vs ++ new) t = true := by
  unfold hasConflict at *
  simp only [List.any_eq_true] at *
  obtain ⟨k, hk, v, hv, hp⟩ := h
  exact ⟨k, hk, v, List.mem_append_left _ hv, hp⟩

theorem hasConflict_more_reads (vs : List Version) (t : Txn) (ks : List Key) (h : hasConflict vs t = true) :
    hasConflict vs { t with reads := t.reads ++ ks } = true := by
  unfold hasConflict at *
  simp only [List.any_eq_true] at *
  obtain ⟨k, hk, rest⟩ := h
  exact ⟨k, List.mem_append_left _ hk, rest⟩

/-- a successful commit that writes `k` makes every transaction with an older-or-equal snapshot that has
    read `k` conflict from then on -/
theorem commit_poisons_readers (vs : List Version) (clock : Nat) (ti tj : Txn) (k : Key)
    (hw : ∃ v, (k, v) ∈ ti.writes) (hr : k ∈ tj.reads) (hs : tj.startTs ≤ clock) :
    hasConflict (vs ++ ti.writes.map (fun w => ⟨w.1, clock + 1, w.2⟩)) tj = true := by
  unfold hasConflict
  simp only [List.any_eq_true]
  obtain ⟨v, hv⟩ := hw
  refine ⟨k, hr, ⟨k, clock + 1, v⟩, ?_, ?_⟩
  · apply List.mem_append_right
    simp only [List.mem_map]
    exact ⟨(k, v), hv, rfl⟩
  · simp; omega

/-- without a conflict, a key of the read set has no committed version newer than the snapshot, so reading it at
    any later timestamp gives what the snapshot gave -/
theorem noConflict_read_current (vs : List Version) (t : Txn) (h : hasConflict vs t = false) (k : Key)
    (hk : k ∈ t.reads) (ts : Nat) (hts : t.startTs ≤ ts) : readAt vs ts k = readAt vs t.startTs k := by
  unfold hasConflict at h
  rw [List.any_eq_false] at h
  have hk'' := h k hk
  have hk' : ∀ v ∈ vs, ¬ (v.key == k && decide (v.ts > t.startTs)) = true := by
    intro v hv hp
    exact hk'' (List.any_eq_true.mpr ⟨v, hv, hp⟩)
  unfold readAt
  have : vs.filter (fun v => v.key == k && decide (v.ts ≤ ts)) =
      vs.filter (fun v => v.key == k && decide (v.ts ≤ t.startTs)) := by
    apply List.filter_congr
    intro v hv
    have hv' := hk' v hv
    cases hkey : (v.key == k)
    · simp
    · simp only [hkey, Bool.true_and, Bool.not_eq_true, decide_eq_false_iff_not, Nat.not_lt] at hv'
      simp only [Bool.true_and]
      have h1 : v.ts ≤ ts := Nat.le_trans hv' hts
      simp [h1, hv']
  rw [this]

end Defra.Mvcc
