import DefraModel.Crdt.Height
namespace Defra.Height

theorem maxHeight_eq (hs : Heads) : maxHeight hs = maxOf (hs.map (·.2)) := by
  simp [maxHeight, maxOf, List.foldl_map]

/-- every recorded height is the height of the commit it is recorded for -/
def HeadsTrue (s : St) : Prop := ∀ h ∈ s.heads, ∃ c ∈ s.commits, c.id = h.1 ∧ c.height = h.2

/-- the rule, against an assignment of heights to identifiers -/
def Good (H : Nat → Nat) (c : Commit) : Prop := c.height = maxOf (c.parents.map H) + 1

theorem step_headsTrue (s : St) (op : Op) (h : HeadsTrue s) : HeadsTrue (step s op) := by
  cases op with
  | «local» id =>
    intro x hx
    simp only [step, List.mem_singleton] at hx
    subst hx
    exact ⟨⟨id, maxHeight s.heads + 1, s.heads.map (·.1)⟩, by simp [step], rfl, rfl⟩
  | remote c =>
    intro x hx
    simp only [step, List.mem_append, List.mem_filter, List.mem_singleton] at hx
    rcases hx with ⟨hm, _⟩ | rfl
    · obtain ⟨c', hc', e1, e2⟩ := h x hm
      exact ⟨c', by simp [step, hc'], e1, e2⟩
    · exact ⟨c, by simp [step], rfl, rfl⟩

theorem step_commits_sub (s : St) (op : Op) : ∀ c ∈ s.commits, c ∈ (step s op).commits := by
  intro c hc
  cases op <;> simp [step, hc]

theorem run_commits_sub (ops : List Op) : ∀ (s : St), ∀ c ∈ s.commits, c ∈ (run s ops).commits := by
  induction ops with
  | nil => intro s c hc; exact hc
  | cons op rest ih => intro s c hc; exact ih (step s op) c (step_commits_sub s op c hc)

theorem run_headsTrue (ops : List Op) : ∀ (s : St), HeadsTrue s → HeadsTrue (run s ops) := by
  induction ops with
  | nil => intro s h; exact h
  | cons op rest ih => intro s h; exact ih (step s op) (step_headsTrue s op h)

/-- the commit a local write creates obeys the rule against every height assignment that agrees with the
    commits known at that moment -/
theorem local_good (H : Nat → Nat) (s : St) (h : HeadsTrue s) (hH : ∀ c ∈ s.commits, H c.id = c.height) (id : Nat) :
    Good H ⟨id, maxHeight s.heads + 1, s.heads.map (·.1)⟩ := by
  unfold Good
  simp only
  rw [maxHeight_eq, List.map_map]
  congr 2
  apply List.map_congr_left
  intro x hx
  obtain ⟨c, hc, e1, e2⟩ := h x hx
  simp only [Function.comp]
  rw [← e1, hH c hc, e2]

/-- **the height rule over histories**: start from a state whose recorded heights are true and whose commits obey
    the rule; apply any history of local writes and merges of commits that obey the rule; if identifiers name one
    height each (`H`), EVERY commit in the store obeys the rule — those created locally included -/
theorem all_good (H : Nat → Nat) (ops : List Op) : ∀ (s : St), HeadsTrue s →
    (∀ c ∈ s.commits, Good H c) →
    (∀ c, Op.remote c ∈ ops → Good H c) →
    (∀ c ∈ (run s ops).commits, H c.id = c.height) →
    ∀ c ∈ (run s ops).commits, Good H c := by
  induction ops with
  | nil => intro s _ hg _ _ c hc; exact hg c hc
  | cons op rest ih =>
    intro s ht hg hr hH
    have hsub : ∀ c ∈ s.commits, H c.id = c.height := fun c hc =>
      hH c (run_commits_sub (op :: rest) s c hc)
    apply ih (step s op) (step_headsTrue s op ht) _ (fun c hc => hr c (List.mem_cons_of_mem _ hc)) hH
    intro c hc
    cases op with
    | «local» id =>
      simp only [step, List.mem_append, List.mem_singleton] at hc
      rcases hc with hc | rfl
      · exact hg c hc
      · exact local_good H s ht hsub id
    | remote c' =>
      simp only [step, List.mem_append, List.mem_singleton] at hc
      rcases hc with hc | rfl
      · exact hg c hc
      · exact hr c (List.mem_cons_self)

theorem maxOf_ge (l : List Nat) : ∀ x ∈ l, x ≤ maxOf l := by
  have gen : ∀ (l : List Nat) (m : Nat), m ≤ l.foldl (fun m x => if x > m then x else m) m ∧
      ∀ x ∈ l, x ≤ l.foldl (fun m x => if x > m then x else m) m := by
    intro l
    induction l with
    | nil => intro m; exact ⟨Nat.le_refl _, fun x hx => by cases hx⟩
    | cons y t ih =>
      intro m
      simp only [List.foldl_cons]
      obtain ⟨h1, h2⟩ := ih (if y > m then y else m)
      refine ⟨Nat.le_trans (by split <;> omega) h1, fun x hx => ?_⟩
      rcases List.mem_cons.mp hx with rfl | hx
      · exact Nat.le_trans (by split <;> omega) h1
      · exact h2 x hx
  exact (gen l 0).2

/-- hence height strictly increases along every parent link: the graph has no cycle -/
theorem good_parent_lower (H : Nat → Nat) (c : Commit) (h : Good H c) : ∀ p ∈ c.parents, H p < c.height := by
  intro p hp
  unfold Good at h
  have := maxOf_ge (c.parents.map H) (H p) (List.mem_map.mpr ⟨p, hp, rfl⟩)
  omega

end Defra.Height
