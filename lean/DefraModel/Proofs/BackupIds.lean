import DefraModel.Backup
namespace Defra.Backup

/-- the fold that computes identifiers, started from an accumulator -/
def idsFrom {ι : Type} (H : Nat → Option ι → ι) (acc : List ι) (ds : List D) : List ι :=
  ds.foldl (fun acc d => acc ++ [H d.content (d.ref.bind (fun j => acc[j]?))]) acc

theorem ids_eq_idsFrom {ι : Type} (H : Nat → Option ι → ι) (ds : List D) : ids H ds = idsFrom H [] ds := by
  cases ds <;> rfl

theorem idsFrom_prefix {ι : Type} (H : Nat → Option ι → ι) : ∀ (ds : List D) (acc : List ι),
    ∃ t, idsFrom H acc ds = acc ++ t ∧ t.length = ds.length
  | [], acc => ⟨[], by simp [idsFrom], rfl⟩
  | d :: ds, acc => by
    obtain ⟨t, ht, hl⟩ := idsFrom_prefix H ds (acc ++ [H d.content (d.ref.bind (fun j => acc[j]?))])
    refine ⟨H d.content (d.ref.bind (fun j => acc[j]?)) :: t, ?_, by simp [hl]⟩
    simp only [idsFrom, List.foldl_cons] at ht ⊢
    rw [ht]; simp

/-- every identifier is the hash of the document's content and the identifier of its (earlier) target -/
theorem idsFrom_spec {ι : Type} (H : Nat → Option ι → ι) : ∀ (ds : List D) (acc : List ι) (i : Nat) (d : D),
    ds[i]? = some d → (∀ j, d.ref = some j → j < acc.length + i) →
    (idsFrom H acc ds)[acc.length + i]? = some (H d.content (d.ref.bind (fun j => (idsFrom H acc ds)[j]?)))
  | [], _, _, _, h, _ => by simp at h
  | d0 :: ds, acc, 0, d, h, hr => by
    simp only [List.getElem?_cons_zero, Option.some.injEq] at h
    subst h
    obtain ⟨t, ht, _⟩ := idsFrom_prefix H ds (acc ++ [H d0.content (d0.ref.bind (fun j => acc[j]?))])
    have e : idsFrom H acc (d0 :: ds) = (acc ++ [H d0.content (d0.ref.bind (fun j => acc[j]?))]) ++ t := by
      simp only [idsFrom, List.foldl_cons] at ht ⊢; exact ht
    rw [e]
    simp only [Nat.add_zero, List.append_assoc, List.singleton_append]
    rw [List.getElem?_append_right (Nat.le_refl _)]
    simp only [Nat.sub_self, List.getElem?_cons_zero, Option.some.injEq]
    congr 1
    cases hrf : d0.ref with
    | none => rfl
    | some j =>
      have hj := hr j hrf
      simp only [Option.bind_some]
      rw [List.getElem?_append_left (by omega)]
  | d0 :: ds, acc, i + 1, d, h, hr => by
    simp only [List.getElem?_cons_succ] at h
    have := idsFrom_spec H ds (acc ++ [H d0.content (d0.ref.bind (fun j => acc[j]?))]) i d h
      (by intro j hj; have := hr j hj; simp; omega)
    simp only [List.length_append, List.length_singleton] at this
    have e : idsFrom H acc (d0 :: ds) = idsFrom H (acc ++ [H d0.content (d0.ref.bind (fun j => acc[j]?))]) ds := by
      simp [idsFrom]
    rw [e]
    rw [show acc.length + (i + 1) = acc.length + 1 + i from by omega]
    exact this

/-- the hypothesis of `import_ids_match_spec`, for every list whose references point to earlier documents -/
theorem ids_spec {ι : Type} (H : Nat → Option ι → ι) (docs : List D)
    (hback : ∀ (i : Nat) (d : D), docs[i]? = some d → ∀ j, d.ref = some j → j < i) :
    ∀ (i : Nat) (d : D), docs[i]? = some d →
      (ids H docs)[i]? = some (H d.content (d.ref.bind (fun j => (ids H docs)[j]?))) := by
  intro i d h
  rw [ids_eq_idsFrom]
  have := idsFrom_spec H docs [] i d h (by intro j hj; simpa using hback i d h j hj)
  simpa using this

end Defra.Backup
