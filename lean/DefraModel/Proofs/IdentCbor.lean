import DefraModel.Ident.Cbor
import DefraModel.Proofs.BytesLemmas
namespace Defra.Ident
open Defra.Bytes

theorem keyLe_trans (a b c : Bytes × FV) (h1 : keyLe a b = true) (h2 : keyLe b c = true) : keyLe a c = true := by
  unfold keyLe at *
  simp only [Bool.or_eq_true, decide_eq_true_eq, Bool.and_eq_true, beq_iff_eq, Bool.not_eq_true'] at *
  rcases h1 with h1 | ⟨e1, l1⟩ <;> rcases h2 with h2 | ⟨e2, l2⟩
  · exact Or.inl (by omega)
  · exact Or.inl (by omega)
  · exact Or.inl (by omega)
  · refine Or.inr ⟨by omega, ?_⟩
    cases hca : Bytes.lt (encKey c.1) (encKey a.1)
    · rfl
    · exfalso
      by_cases hab : encKey a.1 = encKey b.1
      · rw [hab] at hca; rw [hca] at l2; cases l2
      · rcases lt_total _ _ hab with h | h
        · have := lt_trans _ _ _ hca h; rw [this] at l2; cases l2
        · rw [h] at l1; cases l1

theorem keyLe_total (a b : Bytes × FV) : (keyLe a b || keyLe b a) = true := by
  unfold keyLe
  simp only [Bool.or_eq_true, decide_eq_true_eq, Bool.and_eq_true, beq_iff_eq, Bool.not_eq_true']
  rcases Nat.lt_trichotomy (encKey a.1).length (encKey b.1).length with h | h | h
  · exact Or.inl (Or.inl h)
  · cases hba : Bytes.lt (encKey b.1) (encKey a.1)
    · exact Or.inl (Or.inr ⟨h, rfl⟩)
    · exact Or.inr (Or.inr ⟨h.symm, lt_asymm _ _ hba⟩)
  · exact Or.inr (Or.inl h)

theorem keyLe_antisymm_key (a b : Bytes × FV) (h1 : keyLe a b = true) (h2 : keyLe b a = true) :
    encKey a.1 = encKey b.1 := by
  unfold keyLe at *
  simp only [Bool.or_eq_true, decide_eq_true_eq, Bool.and_eq_true, beq_iff_eq, Bool.not_eq_true'] at *
  rcases h1 with h1 | ⟨e1, l1⟩ <;> rcases h2 with h2 | ⟨e2, l2⟩
  · omega
  · omega
  · omega
  · by_cases h : encKey a.1 = encKey b.1
    · exact h
    · rcases lt_total _ _ h with h | h
      · rw [h] at l2; cases l2
      · rw [h] at l1; cases l1

/-- the key encoding is injective: the text after the head is the key itself -/
theorem encKey_inj (a b : Bytes) (h : encKey a = encKey b) : a = b := by
  unfold encKey at h
  have hl : (head 3 a.length ++ a).length = (head 3 b.length ++ b).length := by rw [h]
  -- equal total lengths and head length monotone in the argument force equal lengths
  have hlen : a.length = b.length := by
    have hh : ∀ n, (head 3 n).length = if n < 24 then 1 else if n < 256 then 2 else if n < 65536 then 3 else if n < 4294967296 then 5 else 9 := by
      intro n; unfold head
      have b2 : ∀ x, (beN 2 x).length = 2 := fun x => by simp [beN]
      have b4 : ∀ x, (beN 4 x).length = 4 := fun x => by simp [beN]
      have b8 : ∀ x, (beN 8 x).length = 8 := fun x => by simp [beN]
      repeat' split
      all_goals simp [b2, b4, b8]
    simp only [List.length_append, hh] at hl
    repeat' split at hl
    all_goals omega
  rw [hlen] at h
  exact List.append_cancel_left h

theorem nodup_keys_inj : ∀ (l : List (Bytes × FV)), (l.map (·.1)).Nodup →
    ∀ a b, a ∈ l → b ∈ l → a.1 = b.1 → a = b
  | [], _, a, _, ha, _, _ => by cases ha
  | x :: xs, hn, a, b, ha, hb, hk => by
    simp only [List.map_cons, List.nodup_cons, List.mem_map, not_exists, not_and] at hn
    rcases List.mem_cons.mp ha with rfl | ha' <;> rcases List.mem_cons.mp hb with rfl | hb'
    · rfl
    · exact absurd hk.symm (hn.1 b hb')
    · exact absurd hk (hn.1 a ha')
    · exact nodup_keys_inj xs hn.2 a b ha' hb' hk

/-- **field order is immaterial**: two field lists that are permutations of each other (with pairwise
    different field names) serialise to the same bytes, hence give the same document identifier -/
theorem docBytes_perm (f₁ f₂ : List (Bytes × FV)) (p : f₁.Perm f₂)
    (hk : (f₁.map (·.1)).Nodup) : docBytes f₁ = docBytes f₂ := by
  unfold docBytes
  have lp : (f₁.filter (fun p => p.2 != .null)).Perm (f₂.filter (fun p => p.2 != .null)) := p.filter _
  have s1 := List.pairwise_mergeSort keyLe_trans keyLe_total (f₁.filter (fun p => p.2 != .null))
  have s2 := List.pairwise_mergeSort keyLe_trans keyLe_total (f₂.filter (fun p => p.2 != .null))
  have pp : ((f₁.filter (fun p => p.2 != .null)).mergeSort keyLe).Perm ((f₂.filter (fun p => p.2 != .null)).mergeSort keyLe) :=
    (List.mergeSort_perm _ _).trans (lp.trans (List.mergeSort_perm _ _).symm)
  have heq : (f₁.filter (fun p => p.2 != .null)).mergeSort keyLe = (f₂.filter (fun p => p.2 != .null)).mergeSort keyLe := by
    apply List.Perm.eq_of_pairwise _ s1 s2 pp
    intro a b ha hb hab hba
    have hka : a.1 = b.1 := encKey_inj _ _ (keyLe_antisymm_key a b hab hba)
    -- both are elements of f₁, whose keys are pairwise different
    have ha1 : a ∈ f₁ := (List.mem_filter.mp ((List.mergeSort_perm _ _).subset ha)).1
    have hb1 : b ∈ f₁ := p.symm.subset (List.mem_filter.mp ((List.mergeSort_perm _ _).subset hb)).1
    exact nodup_keys_inj f₁ hk a b ha1 hb1 hka
  show head 5 _ ++ _ = head 5 _ ++ _
  simp only [heq]

/-- **a nil field is the same as an omitted field** -/
theorem docBytes_nil_omitted (k : Bytes) (fs : List (Bytes × FV)) : docBytes ((k, .null) :: fs) = docBytes fs := by
  simp [docBytes]

end Defra.Ident
