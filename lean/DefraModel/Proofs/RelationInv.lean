import DefraModel.Relation

/-! Invariants of the relation model used by Props/C09.lean. -/
namespace Defra.Relation

/-- identifiers are unique -/
def IdsUnique (db : DB) : Prop := ∀ a ∈ db, ∀ b ∈ db, a.id = b.id → a = b

theorem mem_live {db : DB} {col : Nat} {d : Doc} : d ∈ live db col ↔ d ∈ db ∧ d.col = col ∧ d.deleted = false := by
  simp [live, List.mem_filter]

/-- an update of the document with identifier `id` by a function that keeps identifier and collection -/
def upd (db : DB) (id : Nat) (f : Doc → Doc) : DB := db.map (fun e => if e.id == id then f e else e)

theorem mem_upd {db : DB} {id : Nat} {f : Doc → Doc} {d' : Doc} :
    d' ∈ upd db id f ↔ ∃ d ∈ db, d' = if d.id == id then f d else d := by
  unfold upd
  rw [List.mem_map]
  constructor
  · rintro ⟨d, hd, rfl⟩; exact ⟨d, hd, rfl⟩
  · rintro ⟨d, hd, rfl⟩; exact ⟨d, hd, rfl⟩

theorem idsUnique_upd {db : DB} (h : IdsUnique db) (id : Nat) (f : Doc → Doc) (hid : ∀ d, (f d).id = d.id) :
    IdsUnique (upd db id f) := by
  intro a' ha' b' hb' hab
  obtain ⟨a, ha, rfl⟩ := mem_upd.mp ha'
  obtain ⟨b, hb, rfl⟩ := mem_upd.mp hb'
  have hida : (if a.id == id then f a else a).id = a.id := by split <;> simp [hid]
  have hidb : (if b.id == id then f b else b).id = b.id := by split <;> simp [hid]
  rw [hida, hidb] at hab
  have := h a ha b hb hab
  subst this
  rfl

theorem idsUnique_append {db : DB} (h : IdsUnique db) (d : Doc) (hn : db.any (fun e => e.id == d.id) = false) :
    IdsUnique (db ++ [d]) := by
  have hne : ∀ e ∈ db, e.id ≠ d.id := by
    intro e he heq
    have : db.any (fun e => e.id == d.id) = true := List.any_eq_true.mpr ⟨e, he, by simp [heq]⟩
    rw [hn] at this; cases this
  intro a ha b hb hab
  rcases List.mem_append.mp ha with ha1 | ha1 <;> rcases List.mem_append.mp hb with hb1 | hb1
  · exact h a ha1 b hb1 hab
  · simp only [List.mem_singleton] at hb1; rw [hb1] at hab; exact absurd hab (hne a ha1)
  · simp only [List.mem_singleton] at ha1; rw [ha1] at hab; exact absurd hab.symm (hne b hb1)
  · simp only [List.mem_singleton] at ha1 hb1; rw [ha1, hb1]

theorem find_spec {db : DB} {id : Nat} {d : Doc} (h : db.find? (fun d => d.id == id && !d.deleted) = some d) :
    d ∈ db ∧ d.id = id ∧ d.deleted = false := by
  have h1 := List.find?_some h
  have h2 := List.mem_of_find?_eq_some h
  simp only [Bool.and_eq_true, beq_iff_eq, Bool.not_eq_true'] at h1
  exact ⟨h2, h1.1, h1.2⟩

theorem not_taken {db : DB} {col self k : Nat} (h : linkTaken db col self k = false) :
    ∀ a ∈ live db col, a.fk = some k → a.id = self := by
  intro a ha hk
  unfold linkTaken at h
  rw [List.any_eq_false] at h
  have := h a ha
  simp only [Bool.and_eq_true, bne_iff_ne, ne_eq, beq_iff_eq, not_and] at this
  by_cases hs : a.id = self
  · exact hs
  · exact absurd hk (this hs)

/-- the step preserves identifier uniqueness -/
theorem step_idsUnique (o : Nat → Bool) {db : DB} (h : IdsUnique db) (op : Op) : IdsUnique (step o db op).1 := by
  cases op with
  | create d =>
    simp only [step]
    cases hany : db.any (fun e => e.id == d.id) with
    | true => simpa using h
    | false =>
      simp only [Bool.false_eq_true, if_false]
      cases d.fk with
      | none => exact idsUnique_append h d hany
      | some k =>
        simp only
        split
        · exact h
        · exact idsUnique_append h d hany
  | setFk id fk =>
    simp only [step]
    cases db.find? (fun d => d.id == id && !d.deleted) with
    | none => exact h
    | some d =>
      cases fk with
      | none => exact idsUnique_upd h id _ (fun _ => rfl)
      | some k =>
        simp only
        split
        · exact h
        · exact idsUnique_upd h id _ (fun _ => rfl)
  | setX id x =>
    simp only [step]
    cases db.find? (fun d => d.id == id && !d.deleted) with
    | none => exact h
    | some d => exact idsUnique_upd h id _ (fun _ => rfl)
  | delete id =>
    simp only [step]
    cases db.find? (fun d => d.id == id && !d.deleted) with
    | none => exact h
    | some d => exact idsUnique_upd h id _ (fun _ => rfl)

/-- a live document of the updated database comes from a live document of the old one when the update keeps
    collection and does not revive -/
theorem live_upd_pre {db : DB} {id col : Nat} {f : Doc → Doc} (hcol : ∀ d, (f d).col = d.col)
    (hdel : ∀ d, (f d).deleted = false → d.deleted = false) {a' : Doc} (ha' : a' ∈ live (upd db id f) col) :
    ∃ a ∈ live db col, a' = if a.id == id then f a else a := by
  obtain ⟨hm, hc, hd⟩ := mem_live.mp ha'
  obtain ⟨a, ha, rfl⟩ := mem_upd.mp hm
  refine ⟨a, mem_live.mpr ⟨ha, ?_, ?_⟩, rfl⟩
  · split at hc
    · rw [hcol] at hc; exact hc
    · exact hc
  · split at hd
    · exact hdel a hd
    · exact hd

theorem step_unique (o : Nat → Bool) (col : Nat) (hoo : o col = true) {db : DB} (hu : IdsUnique db)
    (h : Unique db col) (op : Op) : Unique (step o db op).1 col := by
  cases op with
  | create d =>
    simp only [step]
    cases hany : db.any (fun e => e.id == d.id) with
    | true => simpa using h
    | false =>
      simp only [Bool.false_eq_true, if_false]
      have happ : ∀ (hfree : ∀ k, d.fk = some k → d.col = col → ∀ a ∈ live db col, a.fk = some k → a.id = d.id),
          Unique (db ++ [d]) col := by
        intro hfree a ha b hb k hka hkb
        obtain ⟨ham, hac, had⟩ := mem_live.mp ha
        obtain ⟨hbm, hbc, hbd⟩ := mem_live.mp hb
        rcases List.mem_append.mp ham with ham1 | ham1 <;> rcases List.mem_append.mp hbm with hbm1 | hbm1
        · exact h a (mem_live.mpr ⟨ham1, hac, had⟩) b (mem_live.mpr ⟨hbm1, hbc, hbd⟩) k hka hkb
        · simp only [List.mem_singleton] at hbm1
          rw [hbm1] at hkb hbc ⊢
          exact hfree k hkb hbc a (mem_live.mpr ⟨ham1, hac, had⟩) hka
        · simp only [List.mem_singleton] at ham1
          rw [ham1] at hka hac ⊢
          exact (hfree k hka hac b (mem_live.mpr ⟨hbm1, hbc, hbd⟩) hkb).symm
        · simp only [List.mem_singleton] at ham1 hbm1; rw [ham1, hbm1]
      cases hfk : d.fk with
      | none => exact happ (by intro k hk; rw [hfk] at hk; cases hk)
      | some k =>
        simp only
        split
        · exact h
        · rename_i hnt
          apply happ
          intro k' hk' hc a ha hka
          rw [hfk] at hk'
          cases hk'
          have hnt' : linkTaken db d.col d.id k = false := by
            rw [hc] at hnt ⊢
            simp only [hoo, Bool.true_and, Bool.not_eq_true] at hnt
            exact hnt
          rw [hc] at hnt'
          exact not_taken hnt' a ha hka
  | setFk id fk =>
    simp only [step]
    cases hfind : db.find? (fun d => d.id == id && !d.deleted) with
    | none => exact h
    | some d =>
      obtain ⟨hdm, hdid, hdd⟩ := find_spec hfind
      cases fk with
      | none =>
        simp only
        intro a' ha' b' hb' k hka hkb
        obtain ⟨a, ha, rfl⟩ := live_upd_pre (f := fun e => { e with fk := none }) (fun _ => rfl) (fun _ hd => hd) ha'
        obtain ⟨b, hb, rfl⟩ := live_upd_pre (f := fun e => { e with fk := none }) (fun _ => rfl) (fun _ hd => hd) hb'
        by_cases hai : (a.id == id) = true
        · simp [hai] at hka
        · by_cases hbi : (b.id == id) = true
          · simp [hbi] at hkb
          · simp only [hai, hbi, Bool.false_eq_true, if_false] at hka hkb ⊢
            exact h a ha b hb k hka hkb
      | some k =>
        simp only
        split
        · exact h
        · rename_i hnt
          intro a' ha' b' hb' k' hka hkb
          obtain ⟨a, ha, rfl⟩ := live_upd_pre (f := fun e => { e with fk := some k }) (fun _ => rfl) (fun _ hd => hd) ha'
          obtain ⟨b, hb, rfl⟩ := live_upd_pre (f := fun e => { e with fk := some k }) (fun _ => rfl) (fun _ hd => hd) hb'
          -- the updated document is `d`, which lies in collection `col` whenever one of a, b is it
          have same : ∀ e ∈ live db col, e.id = id → d.col = col := by
            intro e he hei
            obtain ⟨hem, hec, _⟩ := mem_live.mp he
            have : e = d := hu e hem d hdm (by rw [hei, hdid])
            rw [← this]; exact hec
          have free : d.col = col → ∀ e ∈ live db col, e.fk = some k → e.id = id := by
            intro hc e he hk
            have hnt' : linkTaken db d.col id k = false := by
              simp only [hc, hoo, Bool.true_and, Bool.not_eq_true] at hnt ⊢
              exact hnt
            rw [hc] at hnt'
            exact not_taken hnt' e he hk
          by_cases hai : a.id = id <;> by_cases hbi : b.id = id
          · simp [hai, hbi]
          · have hbi' : (b.id == id) = false := by simp [hbi]
            simp only [hai, beq_self_eq_true, if_true, hbi', Bool.false_eq_true, if_false] at hka hkb ⊢
            simp only [Option.some.injEq] at hka
            subst hka
            exact (free (same a ha hai) b hb hkb).symm
          · have hai' : (a.id == id) = false := by simp [hai]
            simp only [hbi, beq_self_eq_true, if_true, hai', Bool.false_eq_true, if_false] at hka hkb ⊢
            simp only [Option.some.injEq] at hkb
            subst hkb
            exact free (same b hb hbi) a ha hka
          · have hai' : (a.id == id) = false := by simp [hai]
            have hbi' : (b.id == id) = false := by simp [hbi]
            simp only [hai', hbi', Bool.false_eq_true, if_false] at hka hkb ⊢
            exact h a ha b hb k' hka hkb
  | setX id x =>
    simp only [step]
    cases db.find? (fun d => d.id == id && !d.deleted) with
    | none => exact h
    | some d =>
      simp only
      intro a' ha' b' hb' k hka hkb
      obtain ⟨a, ha, rfl⟩ := live_upd_pre (f := fun e => { e with x := x }) (fun _ => rfl) (fun _ hd => hd) ha'
      obtain ⟨b, hb, rfl⟩ := live_upd_pre (f := fun e => { e with x := x }) (fun _ => rfl) (fun _ hd => hd) hb'
      have e1 : (if a.id == id then { a with x := x } else a).fk = a.fk := by split <;> rfl
      have e2 : (if b.id == id then { b with x := x } else b).fk = b.fk := by split <;> rfl
      have e3 : (if a.id == id then { a with x := x } else a).id = a.id := by split <;> rfl
      have e4 : (if b.id == id then { b with x := x } else b).id = b.id := by split <;> rfl
      rw [e1] at hka; rw [e2] at hkb; rw [e3, e4]
      exact h a ha b hb k hka hkb
  | delete id =>
    simp only [step]
    cases db.find? (fun d => d.id == id && !d.deleted) with
    | none => exact h
    | some d =>
      simp only
      intro a' ha' b' hb' k hka hkb
      obtain ⟨a, ha, rfl⟩ := live_upd_pre (f := fun e => { e with deleted := true }) (fun _ => rfl)
        (fun _ hd => by simp at hd) ha'
      obtain ⟨b, hb, rfl⟩ := live_upd_pre (f := fun e => { e with deleted := true }) (fun _ => rfl)
        (fun _ hd => by simp at hd) hb'
      have e1 : (if a.id == id then { a with deleted := true } else a).fk = a.fk := by split <;> rfl
      have e2 : (if b.id == id then { b with deleted := true } else b).fk = b.fk := by split <;> rfl
      have e3 : (if a.id == id then { a with deleted := true } else a).id = a.id := by split <;> rfl
      have e4 : (if b.id == id then { b with deleted := true } else b).id = b.id := by split <;> rfl
      rw [e1] at hka; rw [e2] at hkb; rw [e3, e4]
      exact h a ha b hb k hka hkb

end Defra.Relation
