import DefraModel.Proofs.CrdtMergeDocRefine

/-!
One delivered commit, end to end, for the whole document state: composites *and* the field blocks they link — every
head set (the composite one and one per field) and the values (delete marker, registers, counters). For Props/C02.
-/
namespace Defra.Crdt

/-- `processBlock` on one block of a document, without its links: if the block is not merged into the head set of
    its kind, its delta is applied and that head set updated -/
def docStep (bs : Blocks) (known : Nat → Bool) (s : DocState) (e : Block) : DocState :=
  if isMerged bs (headsOf s e.kind) e.id e.height then s
  else setHeadsOf { s with vals := applyDelta s.vals e } e.kind (updateHeads known (headsOf s e.kind) e)

theorem headsOf_setHeadsOf (s : DocState) (k k' : Kind) (h : List Nat) (hk : k ≠ .col) :
    headsOf (setHeadsOf s k h) k' = if k' = k then h else headsOf s k' := by
  cases k with
  | col => exact absurd rfl hk
  | comp =>
    cases k' with
    | comp => simp [headsOf, setHeadsOf]
    | col => simp [headsOf, setHeadsOf]
    | field g => simp [headsOf, setHeadsOf]
  | field f =>
    cases k' with
    | comp => simp [headsOf, setHeadsOf]
    | col => simp [headsOf, setHeadsOf]
    | field g =>
      simp only [headsOf, setHeadsOf, Kind.field.injEq]

theorem headsOf_vals (s : DocState) (v : Vals) (k : Kind) : headsOf { s with vals := v } k = headsOf s k := by
  cases k <;> rfl

theorem vals_setHeadsOf (s : DocState) (k : Kind) (h : List Nat) : (setHeadsOf s k h).vals = s.vals := by
  cases k <;> rfl

/-- every head set holds distinct stored blocks of its kind -/
def KInv (bs : Blocks) (s : DocState) : Prop :=
  ∀ x ∈ bs, (headsOf s x.kind).Nodup ∧ ∀ h ∈ headsOf s x.kind, ∃ b, bs.get? h = some b ∧ b.kind = x.kind

/-- what the end-to-end statement needs of one processed block -/
structure ElemOK (bs : Blocks) (e : Block) : Prop where
  stored : bs.get? e.id = some e
  notCol : e.kind ≠ .col
  parentsKind : ∀ p ∈ e.parents, ∀ pb, bs.get? p = some pb → pb.kind = e.kind
  linksKind : ∀ l ∈ e.links, ∀ lb, bs.get? l = some lb → lb.kind ≠ e.kind

/-- every block of the sequence finds its parents merged before or earlier in the sequence -/
def ReadyK (R0 : Kind → Nat → Prop) : List Block → List Block → Prop
  | _, [] => True
  | D, e :: tl => (∀ p ∈ e.parents, R0 e.kind p ∨ p ∈ D.map (·.id)) ∧ ReadyK R0 (D ++ [e]) tl

/-- not merged into the head sets the merge started from -/
def unmergedAt (bs : Blocks) (s0 : DocState) (e : Block) : Bool :=
  !isMerged bs (headsOf s0 e.kind) e.id e.height

/-- the situation in which `docStep` applies a block: stored, not merged into the head set of its kind, its parents
    merged, its links foreign to that head set -/
structure GoodStep (bs : Blocks) (s : DocState) (e : Block) : Prop where
  stored : bs.get? e.id = some e
  notCol : e.kind ≠ .col
  unmerged : ¬ Reach bs (headsOf s e.kind) e.id
  parents : ∀ p ∈ e.parents, Reach bs (headsOf s e.kind) p
  notSelf : e.id ∉ e.parents ++ e.links
  links : ∀ l ∈ e.links, l ∉ headsOf s e.kind
  nodup : (headsOf s e.kind).Nodup

/-- the state after applying `e` -/
def applied (s : DocState) (e : Block) : DocState :=
  setHeadsOf { s with vals := applyDelta s.vals e } e.kind (updateHeads (fun _ => true) (headsOf s e.kind) e)

/-- the blocks actually applied: the first occurrence of every block of the sequence that was not merged before
    (equal field blocks are one block — content addressing — and may be linked by several composites) -/
def addFirst (bs : Blocks) (s0 : DocState) (acc : List Block) (e : Block) : List Block :=
  if unmergedAt bs s0 e && !(acc.any (·.id == e.id)) then acc ++ [e] else acc

def appliedSeq (bs : Blocks) (s0 : DocState) (seq : List Block) : List Block := seq.foldl (addFirst bs s0) []

theorem appliedSeq_snoc (bs : Blocks) (s0 : DocState) (D : List Block) (e : Block) :
    appliedSeq bs s0 (D ++ [e]) = addFirst bs s0 (appliedSeq bs s0 D) e := by
  unfold appliedSeq; rw [List.foldl_append]; rfl

theorem foldl_addFirst_mem (bs : Blocks) (s0 : DocState) : ∀ (D acc : List Block) (x : Block),
    x ∈ D.foldl (addFirst bs s0) acc → x ∈ acc ∨ (x ∈ D ∧ unmergedAt bs s0 x = true) := by
  intro D
  induction D with
  | nil => intro acc x h; exact Or.inl h
  | cons d t ih =>
    intro acc x h
    simp only [List.foldl_cons] at h
    rcases ih _ x h with h1 | ⟨h1, h2⟩
    · unfold addFirst at h1
      split at h1
      · rename_i hc
        rcases List.mem_append.mp h1 with h1 | h1
        · exact Or.inl h1
        · simp only [List.mem_singleton] at h1
          subst h1
          simp only [Bool.and_eq_true] at hc
          exact Or.inr ⟨List.mem_cons_self, hc.1⟩
      · exact Or.inl h1
    · exact Or.inr ⟨List.mem_cons_of_mem _ h1, h2⟩

theorem foldl_addFirst_has (bs : Blocks) (s0 : DocState) (i : Nat) : ∀ (D acc : List Block),
    ((∃ x ∈ acc, x.id = i) ∨ (∃ b ∈ D, b.id = i ∧ unmergedAt bs s0 b = true)) →
    ∃ x ∈ D.foldl (addFirst bs s0) acc, x.id = i := by
  intro D
  induction D with
  | nil =>
    intro acc h
    rcases h with h | ⟨b, hb, _⟩
    · exact h
    · cases hb
  | cons d t ih =>
    intro acc h
    simp only [List.foldl_cons]
    apply ih
    rcases h with ⟨x, hx, hxi⟩ | ⟨b, hb, hbi, hbu⟩
    · left
      refine ⟨x, ?_, hxi⟩
      unfold addFirst; split
      · exact List.mem_append_left _ hx
      · exact hx
    · rcases List.mem_cons.mp hb with rfl | hb
      · left
        unfold addFirst
        by_cases hany : acc.any (·.id == b.id) = true
        · obtain ⟨x, hx, hxe⟩ := List.any_eq_true.mp hany
          simp only [hany, Bool.not_true, Bool.and_false, Bool.false_eq_true, if_false]
          exact ⟨x, hx, by rw [← hbi]; simpa using hxe⟩
        · simp only [hbu, hany, Bool.not_false, Bool.and_self, if_true]
          exact ⟨b, List.mem_append_right _ (List.mem_singleton.mpr rfl), hbi⟩
      · exact Or.inr ⟨b, hb, hbi, hbu⟩

theorem foldl_addFirst_nodup (bs : Blocks) (s0 : DocState) : ∀ (D acc : List Block),
    (acc.map (·.id)).Nodup → ((D.foldl (addFirst bs s0) acc).map (·.id)).Nodup := by
  intro D
  induction D with
  | nil => intro acc h; exact h
  | cons d t ih =>
    intro acc h
    simp only [List.foldl_cons]
    apply ih
    unfold addFirst
    split
    · rename_i hc
      simp only [Bool.and_eq_true, Bool.not_eq_true'] at hc
      rw [List.map_append, List.nodup_append]
      refine ⟨h, by simp, ?_⟩
      intro a ha b hb
      simp at hb; subst hb
      intro hab; subst hab
      obtain ⟨x, hx, hxe⟩ := List.mem_map.mp ha
      have := List.any_eq_false.mp hc.2 x hx
      exact this (by simpa using hxe)
    · exact h

theorem fold_docStep (bs : Blocks) (wf : WellFormed bs) (s0 : DocState) (I : DocState → Prop)
    (hI : ∀ s e, GoodStep bs s e → I s → I (applied s e)) :
    ∀ (rest D : List Block) (s : DocState),
      I s →
      KInv bs s →
      (∀ k t, Reach bs (headsOf s k) t ↔
        (Reach bs (headsOf s0 k) t ∨ ∃ b ∈ D, b.id = t ∧ b.kind = k)) →
      s.vals = (appliedSeq bs s0 D).foldl applyDelta s0.vals →
      (∀ e ∈ D ++ rest, ElemOK bs e) →
      ReadyK (fun k t => Reach bs (headsOf s0 k) t) D rest →
      let s' := rest.foldl (docStep bs (fun _ => true)) s
      I s' ∧ KInv bs s' ∧
      (∀ k t, Reach bs (headsOf s' k) t ↔
        (Reach bs (headsOf s0 k) t ∨ ∃ b ∈ D ++ rest, b.id = t ∧ b.kind = k)) ∧
      s'.vals = (appliedSeq bs s0 (D ++ rest)).foldl applyDelta s0.vals := by
  intro rest
  induction rest with
  | nil =>
    intro D s hi hk hr hv _ _
    simp only [List.foldl_nil, List.append_nil]
    exact ⟨hi, hk, hr, hv⟩
  | cons e tl ih =>
    intro D s hi hk hr hv hok hready
    have heok := hok e (List.mem_append_right _ List.mem_cons_self)
    have hget := heok.stored
    -- the continuation, common to both cases
    have hcont : ∀ s1 : DocState, I s1 → KInv bs s1 →
        (∀ k t, Reach bs (headsOf s1 k) t ↔
          (Reach bs (headsOf s0 k) t ∨ ∃ b ∈ D ++ [e], b.id = t ∧ b.kind = k)) →
        s1.vals = (appliedSeq bs s0 (D ++ [e])).foldl applyDelta s0.vals →
        let s' := tl.foldl (docStep bs (fun _ => true)) s1
        I s' ∧ KInv bs s' ∧
        (∀ k t, Reach bs (headsOf s' k) t ↔
          (Reach bs (headsOf s0 k) t ∨ ∃ b ∈ D ++ e :: tl, b.id = t ∧ b.kind = k)) ∧
        s'.vals = (appliedSeq bs s0 (D ++ e :: tl)).foldl applyDelta s0.vals := by
      intro s1 h0 h1 h2 h3
      have := ih (D ++ [e]) s1 h0 h1 h2 h3 (by simpa using hok) hready.2
      simpa using this
    simp only [List.foldl_cons]
    by_cases hr0 : Reach bs (headsOf s0 e.kind) e.id
    · -- merged before the delivery: skipped
      have hreach : Reach bs (headsOf s e.kind) e.id := (hr _ _).mpr (Or.inl hr0)
      have hm : isMerged bs (headsOf s e.kind) e.id e.height = true :=
        isMerged_complete bs wf _ e.id e hget hreach
      have hm0 : unmergedAt bs s0 e = false := by
        unfold unmergedAt
        rw [isMerged_complete bs wf _ e.id e hget hr0]; rfl
      have hstep : docStep bs (fun _ => true) s e = s := by unfold docStep; simp [hm]
      rw [hstep]
      apply hcont s hi hk
      · intro k t
        rw [hr k t]
        constructor
        · rintro (h | ⟨b, hb, h1, h2⟩)
          · exact Or.inl h
          · exact Or.inr ⟨b, List.mem_append_left _ hb, h1, h2⟩
        · rintro (h | ⟨b, hb, h1, h2⟩)
          · exact Or.inl h
          · rcases List.mem_append.mp hb with hb | hb
            · exact Or.inr ⟨b, hb, h1, h2⟩
            · simp only [List.mem_singleton] at hb
              subst hb; subst h1; subst h2
              exact Or.inl hr0
      · rw [appliedSeq_snoc, hv]
        simp [addFirst, hm0]
    · by_cases heD : e.id ∈ D.map (·.id)
      · -- the same block was processed earlier in this delivery (linked by two composites): skipped
        obtain ⟨b, hb, hbid⟩ := List.mem_map.mp heD
        have hbe : b = e := by
          have hbst := (hok b (List.mem_append_left _ hb)).stored
          rw [hbid, hget] at hbst
          exact (Option.some.inj hbst).symm
        subst hbe
        have hreach : Reach bs (headsOf s b.kind) b.id := (hr _ _).mpr (Or.inr ⟨b, hb, rfl, rfl⟩)
        have hm : isMerged bs (headsOf s b.kind) b.id b.height = true :=
          isMerged_complete bs wf _ b.id b hget hreach
        have hstep : docStep bs (fun _ => true) s b = s := by unfold docStep; simp [hm]
        rw [hstep]
        apply hcont s hi hk
        · intro k t
          rw [hr k t]
          constructor
          · rintro (h | ⟨x, hx, h1, h2⟩)
            · exact Or.inl h
            · exact Or.inr ⟨x, List.mem_append_left _ hx, h1, h2⟩
          · rintro (h | ⟨x, hx, h1, h2⟩)
            · exact Or.inl h
            · rcases List.mem_append.mp hx with hx | hx
              · exact Or.inr ⟨x, hx, h1, h2⟩
              · simp only [List.mem_singleton] at hx
                subst hx
                exact Or.inr ⟨x, hb, h1, h2⟩
        · rw [appliedSeq_snoc, hv]
          have hm0 : unmergedAt bs s0 b = true := by
            unfold unmergedAt
            cases h : isMerged bs (headsOf s0 b.kind) b.id b.height with
            | false => rfl
            | true => exact absurd (isMerged_sound bs _ b.id b.height h) hr0
          obtain ⟨x, hx, hxi⟩ := foldl_addFirst_has bs s0 b.id D [] (Or.inr ⟨b, hb, rfl, hm0⟩)
          have hany : (appliedSeq bs s0 D).any (·.id == b.id) = true :=
            List.any_eq_true.mpr ⟨x, hx, by simpa using hxi⟩
          simp [addFirst, hany]
      -- not merged: applied now
      have hnreach : ¬ Reach bs (headsOf s e.kind) e.id := by
        intro h
        rcases (hr _ _).mp h with h | ⟨b, hb, h1, _⟩
        · exact hr0 h
        · exact heD (List.mem_map.mpr ⟨b, hb, h1⟩)
      have hm : isMerged bs (headsOf s e.kind) e.id e.height = false := by
        cases h : isMerged bs (headsOf s e.kind) e.id e.height with
        | false => rfl
        | true => exact absurd (isMerged_sound bs _ e.id e.height h) hnreach
      have hm0 : unmergedAt bs s0 e = true := by
        unfold unmergedAt
        cases h : isMerged bs (headsOf s0 e.kind) e.id e.height with
        | false => rfl
        | true => exact absurd (isMerged_sound bs _ e.id e.height h) hr0
      have hstep : docStep bs (fun _ => true) s e =
          setHeadsOf { s with vals := applyDelta s.vals e } e.kind
            (updateHeads (fun _ => true) (headsOf s e.kind) e) := by
        unfold docStep; simp [hm]
      rw [hstep]
      have hkk := hk e (get?_mem hget)
      have hself : e.id ∉ e.parents ++ e.links := by
        intro h
        rcases List.mem_append.mp h with h | h
        · obtain ⟨pb, hpb, hlt⟩ := wf e.id e hget _ h
          rw [hget] at hpb; cases hpb
          exact Nat.lt_irrefl _ hlt
        · exact heok.linksKind _ h e hget rfl
      have hpar : ∀ p ∈ e.parents, Reach bs (headsOf s e.kind) p := by
        intro p hp
        rcases hready.1 p hp with h | h
        · exact (hr _ _).mpr (Or.inl h)
        · obtain ⟨b, hb, hbid⟩ := List.mem_map.mp h
          have hbst := (hok b (List.mem_append_left _ hb)).stored
          rw [hbid] at hbst
          exact (hr _ _).mpr (Or.inr ⟨b, hb, hbid, heok.parentsKind p hp b hbst⟩)
      have hlinks : ∀ l ∈ e.links, l ∉ headsOf s e.kind := by
        intro l hl hh
        obtain ⟨lb, hlb, hlk⟩ := hkk.2 l hh
        exact heok.linksKind l hl lb hlb hlk
      have hheads : ∀ k, headsOf (setHeadsOf { s with vals := applyDelta s.vals e } e.kind
          (updateHeads (fun _ => true) (headsOf s e.kind) e)) k =
          if k = e.kind then updateHeads (fun _ => true) (headsOf s e.kind) e else headsOf s k := by
        intro k
        rw [headsOf_setHeadsOf _ _ _ _ heok.notCol]
        split
        · rfl
        · exact headsOf_vals _ _ _
      apply hcont
      · exact hI s e ⟨hget, heok.notCol, hnreach, hpar, hself, hlinks, hkk.1⟩ hi
      · intro x hx
        rw [hheads x.kind]
        by_cases hke : x.kind = e.kind
        · simp only [hke, if_true]
          refine ⟨updateHeads_nodup _ e hkk.1 hself, ?_⟩
          intro h hh
          rcases (updateHeads_mem _ e hkk.1 hself h).mp hh with rfl | ⟨h1, _⟩
          · exact ⟨e, hget, rfl⟩
          · exact hkk.2 h h1
        · simp only [hke, if_false]; exact hk x hx
      · intro k t
        rw [hheads k]
        by_cases hke : k = e.kind
        · subst hke
          simp only [if_true]
          rw [reach_updateHeads bs _ e hkk.1 hget hself hpar hlinks t, hr _ t]
          constructor
          · rintro ((h | ⟨b, hb, h1, h2⟩) | h)
            · exact Or.inl h
            · exact Or.inr ⟨b, List.mem_append_left _ hb, h1, h2⟩
            · exact Or.inr ⟨e, List.mem_append_right _ (List.mem_singleton.mpr rfl), h.symm, rfl⟩
          · rintro (h | ⟨b, hb, h1, h2⟩)
            · exact Or.inl (Or.inl h)
            · rcases List.mem_append.mp hb with hb | hb
              · exact Or.inl (Or.inr ⟨b, hb, h1, h2⟩)
              · simp only [List.mem_singleton] at hb
                subst hb
                exact Or.inr h1.symm
        · simp only [hke, if_false]
          rw [hr k t]
          constructor
          · rintro (h | ⟨b, hb, h1, h2⟩)
            · exact Or.inl h
            · exact Or.inr ⟨b, List.mem_append_left _ hb, h1, h2⟩
          · rintro (h | ⟨b, hb, h1, h2⟩)
            · exact Or.inl h
            · rcases List.mem_append.mp hb with hb | hb
              · exact Or.inr ⟨b, hb, h1, h2⟩
              · simp only [List.mem_singleton] at hb
                subst hb
                exact absurd h2.symm hke
      · rw [vals_setHeadsOf, appliedSeq_snoc]
        have hany : (appliedSeq bs s0 D).any (·.id == e.id) = false := by
          rw [List.any_eq_false]
          intro x hx hxe
          rcases foldl_addFirst_mem bs s0 D [] x hx with h | ⟨h, _⟩
          · cases h
          · exact heD (List.mem_map.mpr ⟨x, h, by simpa using hxe⟩)
        simp only [addFirst, hm0, hany, Bool.not_false, Bool.and_self, if_true, List.foldl_append, List.foldl_cons,
          List.foldl_nil, hv]

end Defra.Crdt

namespace Defra.Crdt

/-! ### `processBlock` as a sequence of `docStep`s -/

/-- the stored blocks a block links -/
def childBlocks (bs : Blocks) (b : Block) : List Block := b.links.filterMap bs.get?

/-- a field block without links: one `docStep` on its document -/
theorem doc_processBlock_field (cx : Ctx) (n : Nat) (r : Replica) (e : Block) (f : String)
    (hk : e.kind = .field f) (hl : e.links = []) (d : String) :
    (processBlock cx (n + 1) r e).doc d =
      if d = e.doc then docStep cx.blocks cx.known (r.doc d) e else r.doc d := by
  rw [processBlock]
  simp only [hk, hl, List.foldl_nil]
  rw [doc_setDoc]
  by_cases hd : d = e.doc
  · subst hd
    simp only [if_true, docStep, hk]
  · simp only [hd, if_false]

/-- links of a composite of document `d`: the stored ones are field blocks of `d` without links -/
def FieldLinksDoc (bs : Blocks) (b : Block) : Prop :=
  ∀ l ∈ b.links, ∀ lb, bs.get? l = some lb → (∃ f, lb.kind = .field f) ∧ lb.links = [] ∧ lb.doc = b.doc

theorem foldl_children_doc (cx : Ctx) (n : Nat) (d : String) :
    ∀ (links : List Nat) (r : Replica),
      (∀ l ∈ links, ∀ lb, cx.blocks.get? l = some lb → (∃ f, lb.kind = .field f) ∧ lb.links = [] ∧ lb.doc = d) →
      (links.foldl (fun r l =>
        match cx.blocks.get? l with
        | none => r
        | some child => processBlock cx (n + 1) r child) r).doc d =
      (links.filterMap cx.blocks.get?).foldl (docStep cx.blocks cx.known) (r.doc d) := by
  intro links
  induction links with
  | nil => intro r _; rfl
  | cons l t ih =>
    intro r h
    simp only [List.foldl_cons, List.filterMap_cons]
    cases hg : cx.blocks.get? l with
    | none =>
      simp only
      exact ih r (fun x hx => h x (List.mem_cons_of_mem _ hx))
    | some child =>
      simp only [List.foldl_cons]
      obtain ⟨⟨f, hf⟩, hnl, hdoc⟩ := h l List.mem_cons_self child hg
      rw [ih _ (fun x hx => h x (List.mem_cons_of_mem _ hx))]
      rw [doc_processBlock_field cx n r child f hf hnl d]
      simp [hdoc]

/-- a composite with its links: one `docStep` for the composite, then one per stored link -/
theorem doc_processBlock_comp (cx : Ctx) (n : Nat) (r : Replica) (b : Block) (hk : b.kind = .comp)
    (hl : FieldLinksDoc cx.blocks b) :
    (processBlock cx (n + 2) r b).doc b.doc =
      (childBlocks cx.blocks b).foldl (docStep cx.blocks cx.known) (docStep cx.blocks cx.known (r.doc b.doc) b) := by
  rw [processBlock]
  simp only [hk]
  have := foldl_children_doc cx n b.doc b.links
    (r.setDoc b.doc (if isMerged cx.blocks (headsOf (r.doc b.doc) Kind.comp) b.id b.height = true then r.doc b.doc
      else setHeadsOf { r.doc b.doc with vals := applyDelta (r.doc b.doc).vals b } Kind.comp
        (updateHeads cx.known (headsOf (r.doc b.doc) Kind.comp) b))) hl
  rw [doc_setDoc] at this
  simp only [if_true] at this
  unfold childBlocks docStep
  simp only [hk]
  exact this

end Defra.Crdt

namespace Defra.Crdt

/-- the processing sequence of a merge: every collected composite followed by the stored blocks it links -/
def flatSeq (bs : Blocks) (L : List Block) : List Block := L.flatMap (fun b => b :: childBlocks bs b)

theorem foldl_processBlock_doc (cx : Ctx) (n : Nat) (d : String) :
    ∀ (L : List Block) (r : Replica),
      (∀ b ∈ L, b.kind = .comp ∧ b.doc = d ∧ FieldLinksDoc cx.blocks b) →
      (L.foldl (fun r b => processBlock cx (n + 2) r b) r).doc d =
        (flatSeq cx.blocks L).foldl (docStep cx.blocks cx.known) (r.doc d) := by
  intro L
  induction L with
  | nil => intro r _; rfl
  | cons b t ih =>
    intro r h
    obtain ⟨hk, hd, hfl⟩ := h b List.mem_cons_self
    simp only [List.foldl_cons, flatSeq, List.flatMap_cons, List.foldl_append, List.cons_append]
    rw [ih _ (fun x hx => h x (List.mem_cons_of_mem _ hx))]
    have := doc_processBlock_comp cx n r b hk hfl
    rw [hd] at this
    rw [this]
    rfl

/-- when every parent and link of the block is available, the availability test plays no role -/
theorem docStep_known (bs : Blocks) (known : Nat → Bool) (s : DocState) (e : Block)
    (hk : ∀ l ∈ e.parents ++ e.links, known l = true) :
    docStep bs known s e = docStep bs (fun _ => true) s e := by
  unfold docStep
  rw [updateHeads_known known _ e hk]

theorem foldl_docStep_known (bs : Blocks) (known : Nat → Bool) :
    ∀ (seq : List Block) (s : DocState), (∀ e ∈ seq, ∀ l ∈ e.parents ++ e.links, known l = true) →
      seq.foldl (docStep bs known) s = seq.foldl (docStep bs (fun _ => true)) s := by
  intro seq
  induction seq with
  | nil => intro s _; rfl
  | cons e t ih =>
    intro s h
    simp only [List.foldl_cons]
    rw [docStep_known bs known s e (h e List.mem_cons_self)]
    exact ih _ (fun x hx => h x (List.mem_cons_of_mem _ hx))

end Defra.Crdt

namespace Defra.Crdt

/-- what the walk and the sort hand to the processing loop -/
structure WalkFacts (bs : Blocks) (heads : List Nat) (c : Nat) (L : List Block) : Prop where
  nodup : (L.map (·.id)).Nodup
  sorted : L.Pairwise (fun x y => x.height ≤ y.height)
  mem : ∀ b, b ∈ L ↔ (bs.get? b.id = some b ∧ Anc bs c b.id ∧ ¬ Reach bs heads b.id)
  comp : ∀ b ∈ L, b.kind = .comp
  parents : ∀ b ∈ L, ∀ p ∈ b.parents, Reach bs heads p ∨ p ∈ L.map (·.id)

theorem walk_facts (bs : Blocks) (swf : StoreWF bs) (heads : List Nat) (c : Nat) (hc : Comp bs c) :
    WalkFacts bs heads c (sortByHeight (loadComposites bs heads (bs.length + 1) c ([], [])).1) := by
  let coll := (loadComposites bs heads (bs.length + 1) c ([], [])).1
  have hperm : (sortByHeight coll).Perm coll := sortByHeight_perm coll
  have hsound : ∀ b ∈ coll, bs.get? b.id = some b ∧ isMerged bs heads b.id b.height = false ∧
      UPath bs heads c b.id := by
    apply loadComposites_sound bs heads c
      (fun b => bs.get? b.id = some b ∧ isMerged bs heads b.id b.height = false ∧ UPath bs heads c b.id)
    · intro x b hu hg hm
      have hid := Blocks.get?_id hg
      rw [hid]; exact ⟨hg, hm, hu⟩
    · exact UPath.self
    · intro b hb; cases hb
  have hnodup : (coll.map (·.id)).Nodup :=
    (loadComposites_inv bs heads (bs.length + 1) c ([], []) ⟨by simp, by intro b hb; cases hb⟩).1
  have hnotreach : ∀ x b, bs.get? x = some b → isMerged bs heads x b.height = false → ¬ Reach bs heads x := by
    intro x b hg hm hr
    rw [isMerged_complete bs swf.wf heads x b hg hr] at hm; cases hm
  have hunm : ∀ x b, bs.get? x = some b → ¬ Reach bs heads x → isMerged bs heads x b.height = false := by
    intro x b _ hnr
    cases h : isMerged bs heads x b.height with
    | false => rfl
    | true => exact absurd (isMerged_sound bs heads x b.height h) hnr
  have hcomplete : ∀ x b, bs.get? x = some b → UPath bs heads c x → ¬ Reach bs heads x → b ∈ coll :=
    fun x b hg hu hnr => (walk_reaches bs heads c x hu).2 b hg (hunm x b hg hnr)
  refine ⟨((hperm.map _).nodup_iff).mpr hnodup, sortByHeight_sorted coll, ?_, ?_, ?_⟩
  · intro b
    rw [hperm.mem_iff]
    constructor
    · intro hb
      obtain ⟨h1, h2, h3⟩ := hsound b hb
      exact ⟨h1, upath_anc bs heads c b.id h3, hnotreach _ _ h1 h2⟩
    · rintro ⟨h1, ⟨n, hn⟩, h3⟩
      exact hcomplete _ _ h1 (path_upath bs heads c hn UPath.self h3) h3
  · intro b hb
    obtain ⟨h1, _, h3⟩ := hsound b (hperm.mem_iff.mp hb)
    obtain ⟨b', hb', hk⟩ := upath_comp bs swf heads c b.id hc h3
    rw [h1] at hb'; cases hb'
    exact hk
  · intro b hb p hp
    obtain ⟨h1, h2, h3⟩ := hsound b (hperm.mem_iff.mp hb)
    obtain ⟨pb, hpb, _⟩ := swf.wf b.id b h1 p hp
    by_cases hr : Reach bs heads p
    · exact Or.inl hr
    · right
      have hup : UPath bs heads c p := UPath.step h3 h1 h2 hp
      have hin : pb ∈ coll := hcomplete p pb hpb hup hr
      exact List.mem_map.mpr ⟨pb, hperm.mem_iff.mpr hin, Blocks.get?_id hpb⟩

end Defra.Crdt

namespace Defra.Crdt

theorem readyK_of_all (R0 : Kind → Nat → Prop) : ∀ (cs D : List Block),
    (∀ e ∈ cs, ∀ p ∈ e.parents, R0 e.kind p ∨ p ∈ D.map (·.id)) → ReadyK R0 D cs := by
  intro cs
  induction cs with
  | nil => intro D _; trivial
  | cons e t ih =>
    intro D h
    refine ⟨h e List.mem_cons_self, ih (D ++ [e]) ?_⟩
    intro x hx p hp
    rcases h x (List.mem_cons_of_mem _ hx) p hp with h1 | h1
    · exact Or.inl h1
    · exact Or.inr (by rw [List.map_append]; exact List.mem_append_left _ h1)

theorem readyK_append (R0 : Kind → Nat → Prop) : ∀ (xs ys D : List Block),
    ReadyK R0 D xs → ReadyK R0 (D ++ xs) ys → ReadyK R0 D (xs ++ ys) := by
  intro xs
  induction xs with
  | nil => intro ys D _ h; simpa using h
  | cons x t ih =>
    intro ys D h1 h2
    refine ⟨h1.1, ih ys (D ++ [x]) h1.2 (by simpa using h2)⟩

theorem ready_flat (bs : Blocks) (wf : WellFormed bs) (R0 : Kind → Nat → Prop) :
    ∀ (L D : List Block), L.Pairwise (fun x y => x.height ≤ y.height) →
      (∀ b ∈ L, bs.get? b.id = some b) →
      (∀ b ∈ L, ∀ p ∈ b.parents, R0 b.kind p ∨ p ∈ D.map (·.id) ∨ p ∈ L.map (·.id)) →
      (∀ b ∈ L, ∀ fb ∈ childBlocks bs b, ∀ p ∈ fb.parents, R0 fb.kind p ∨ p ∈ D.map (·.id) ∨
        ∃ a ∈ L, a.height < b.height ∧ p ∈ (childBlocks bs a).map (·.id)) →
      ReadyK R0 D (flatSeq bs L) := by
  intro L
  induction L with
  | nil => intro D _ _ _ _; trivial
  | cons b tl ih =>
    intro D hs hst h1 h2
    rw [List.pairwise_cons] at hs
    have hflat : flatSeq bs (b :: tl) = (b :: childBlocks bs b) ++ flatSeq bs tl := by
      simp [flatSeq, List.flatMap_cons]
    rw [hflat]
    apply readyK_append
    · refine ⟨?_, ?_⟩
      · intro p hp
        rcases h1 b List.mem_cons_self p hp with h | h | h
        · exact Or.inl h
        · exact Or.inr h
        · exfalso
          obtain ⟨pb, hpb, hlt⟩ := wf b.id b (hst b List.mem_cons_self) p hp
          rw [List.map_cons] at h
          rcases List.mem_cons.mp h with h | h
          · subst h
            rw [hst b List.mem_cons_self] at hpb; cases hpb
            exact Nat.lt_irrefl _ hlt
          · obtain ⟨x, hx, hxid⟩ := List.mem_map.mp h
            have hgx := hst x (List.mem_cons_of_mem _ hx)
            have hxe : pb = x := by rw [hxid, hpb] at hgx; exact Option.some.inj hgx
            rw [hxe] at hlt
            exact Nat.lt_irrefl _ (Nat.lt_of_lt_of_le hlt (hs.1 x hx))
      · apply readyK_of_all
        intro fb hfb p hp
        rcases h2 b List.mem_cons_self fb hfb p hp with h | h | ⟨a, ha, hlt, _⟩
        · exact Or.inl h
        · exact Or.inr (by rw [List.map_append]; exact List.mem_append_left _ h)
        · exfalso
          rcases List.mem_cons.mp ha with rfl | ha
          · exact Nat.lt_irrefl _ hlt
          · exact Nat.lt_irrefl _ (Nat.lt_of_lt_of_le hlt (hs.1 a ha))
    · apply ih (D ++ (b :: childBlocks bs b)) hs.2 (fun x hx => hst x (List.mem_cons_of_mem _ hx))
      · intro x hx p hp
        rcases h1 x (List.mem_cons_of_mem _ hx) p hp with h | h | h
        · exact Or.inl h
        · exact Or.inr (Or.inl (by rw [List.map_append]; exact List.mem_append_left _ h))
        · rw [List.map_cons] at h
          rcases List.mem_cons.mp h with h | h
          · refine Or.inr (Or.inl ?_)
            rw [List.map_append, List.map_cons]
            exact List.mem_append_right _ (List.mem_cons.mpr (Or.inl h))
          · exact Or.inr (Or.inr h)
      · intro x hx fb hfb p hp
        rcases h2 x (List.mem_cons_of_mem _ hx) fb hfb p hp with h | h | ⟨a, ha, hlt, hin⟩
        · exact Or.inl h
        · exact Or.inr (Or.inl (by rw [List.map_append]; exact List.mem_append_left _ h))
        · rcases List.mem_cons.mp ha with rfl | ha
          · refine Or.inr (Or.inl ?_)
            rw [List.map_append, List.map_cons]
            exact List.mem_append_right _ (List.mem_cons_of_mem _ hin)
          · exact Or.inr (Or.inr ⟨a, ha, hlt, hin⟩)

end Defra.Crdt

namespace Defra.Crdt

theorem mem_childBlocks {bs : Blocks} {b fb : Block} :
    fb ∈ childBlocks bs b ↔ ∃ l ∈ b.links, bs.get? l = some fb := by
  unfold childBlocks
  rw [List.mem_filterMap]

theorem childBlocks_ids (bs : Blocks) (links : List Nat) :
    (links.filterMap bs.get?).map (·.id) = links.filter (fun l => (bs.get? l).isSome) := by
  induction links with
  | nil => rfl
  | cons l t ih =>
    simp only [List.filterMap_cons, List.filter_cons]
    cases hg : bs.get? l with
    | none => simpa using ih
    | some fb =>
      simp only [List.map_cons, Option.isSome_some, if_true, ih]
      rw [Blocks.get?_id hg]

theorem mem_flatSeq {bs : Blocks} {L : List Block} {e : Block} :
    e ∈ flatSeq bs L ↔ (e ∈ L ∨ ∃ b ∈ L, e ∈ childBlocks bs b) := by
  unfold flatSeq
  rw [List.mem_flatMap]
  constructor
  · rintro ⟨b, hb, he⟩
    rcases List.mem_cons.mp he with rfl | he
    · exact Or.inl hb
    · exact Or.inr ⟨b, hb, he⟩
  · rintro (h | ⟨b, hb, he⟩)
    · exact ⟨e, h, List.mem_cons_self⟩
    · exact ⟨b, hb, List.mem_cons_of_mem _ he⟩

/-- the store of `StoreWF2`, with what the field level also relies on -/
structure StoreWF3 (bs : Blocks) : Prop where
  base2 : StoreWF2 bs
  linkDoc : ∀ y b, bs.get? y = some b → b.kind = .comp → ∀ l ∈ b.links, ∀ lb, bs.get? l = some lb → lb.doc = b.doc
  fieldParents : ∀ y b f, bs.get? y = some b → b.kind = .field f → ∀ p ∈ b.parents, ∀ pb, bs.get? p = some pb →
    pb.kind = .field f
  /-- the parents of a field block linked by a composite are linked by strict ancestors of that composite -/
  fieldCausal : ∀ y b, bs.get? y = some b → b.kind = .comp → ∀ l ∈ b.links, ∀ fb, bs.get? l = some fb →
    ∀ p ∈ fb.parents, ∃ a ab n, Path bs y a (n + 1) ∧ bs.get? a = some ab ∧ ab.kind = .comp ∧ p ∈ ab.links

/-- what is linked by a merged composite is merged into the head set of its kind -/
def LinkInv (bs : Blocks) (s : DocState) : Prop :=
  ∀ a ab, bs.get? a = some ab → ab.kind = .comp → Reach bs s.heads a →
    ∀ l ∈ ab.links, ∀ lb, bs.get? l = some lb → Reach bs (headsOf s lb.kind) l

end Defra.Crdt

namespace Defra.Crdt

theorem Path.append {bs : Blocks} {x y z n m : Nat} (h1 : Path bs x y n) (h2 : Path bs y z m) :
    Path bs x z (n + m) := by
  induction h1 with
  | zero => simpa using h2
  | @succ y p t b n hg hp _ ih =>
    have := Path.succ hg hp (ih h2)
    have he : n + 1 + m = n + m + 1 := by omega
    rw [he]; exact this

theorem path_height (bs : Blocks) (wf : WellFormed bs) {y t n : Nat} (h : Path bs y t n) :
    ∀ yb tb, bs.get? y = some yb → bs.get? t = some tb → tb.height + n ≤ yb.height := by
  induction h with
  | zero => intro yb tb h1 h2; rw [h1] at h2; cases h2; omega
  | @succ y p t b n hg hp _ ih =>
    intro yb tb h1 h2
    rw [hg] at h1; cases h1
    obtain ⟨pb, hpb, hlt⟩ := wf y _ hg p hp
    have := ih pb tb hpb h2
    omega

theorem path_doc (bs : Blocks) (swf : StoreWF2 bs) {y t n : Nat} (h : Path bs y t n) :
    ∀ yb, bs.get? y = some yb → yb.kind = .comp → ∀ tb, bs.get? t = some tb → tb.kind = .comp ∧ tb.doc = yb.doc := by
  induction h with
  | zero => intro yb h1 hk tb h2; rw [h1] at h2; cases h2; exact ⟨hk, rfl⟩
  | @succ y p t b n hg hp _ ih =>
    intro yb h1 hk tb h2
    rw [hg] at h1; cases h1
    obtain ⟨pb, hpb, hpk⟩ := swf.base.compParents y _ hg hk p hp
    obtain ⟨r1, r2⟩ := ih pb hpb hpk tb h2
    exact ⟨r1, r2.trans (swf.sameDoc y _ hg hk p hp pb hpb)⟩

/-- **One delivered commit, end to end, whole document state.** -/
theorem mergeDoc_full_inv (cx : Ctx) (swf : StoreWF3 cx.blocks)
    (hknown : ∀ l, (cx.blocks.get? l).isSome = true → cx.known l = true)
    (I : DocState → Prop) (hI : ∀ s e, GoodStep cx.blocks s e → I s → I (applied s e))
    (r : Replica) (c : Block) (hc : cx.blocks.get? c.id = some c) (hck : c.kind = .comp)
    (hk : KInv cx.blocks (r.doc c.doc)) (hli : LinkInv cx.blocks (r.doc c.doc)) (hi0 : I (r.doc c.doc)) :
    WalkFacts cx.blocks (r.doc c.doc).heads c.id
      (sortByHeight (loadComposites cx.blocks (r.doc c.doc).heads (cx.blocks.length + 1) c.id ([], [])).1) ∧
    (∀ e ∈ flatSeq cx.blocks
      (sortByHeight (loadComposites cx.blocks (r.doc c.doc).heads (cx.blocks.length + 1) c.id ([], [])).1),
      ElemOK cx.blocks e) ∧
    KInv cx.blocks ((mergeDoc cx r c).doc c.doc) ∧
    (∀ k t, Reach cx.blocks (headsOf ((mergeDoc cx r c).doc c.doc) k) t ↔
      (Reach cx.blocks (headsOf (r.doc c.doc) k) t ∨
        ∃ b ∈ flatSeq cx.blocks
          (sortByHeight (loadComposites cx.blocks (r.doc c.doc).heads (cx.blocks.length + 1) c.id ([], [])).1),
          b.id = t ∧ b.kind = k)) ∧
    ((mergeDoc cx r c).doc c.doc).vals =
      (appliedSeq cx.blocks (r.doc c.doc) (flatSeq cx.blocks
        (sortByHeight (loadComposites cx.blocks (r.doc c.doc).heads (cx.blocks.length + 1) c.id ([], [])).1))).foldl
          applyDelta (r.doc c.doc).vals ∧
    I ((mergeDoc cx r c).doc c.doc) := by
  generalize hbs : cx.blocks = bs at *
  generalize hs0 : r.doc c.doc = s0 at *
  generalize hL : sortByHeight (loadComposites bs s0.heads (bs.length + 1) c.id ([], [])).1 = L
  have swf2 := swf.base2
  have wf := swf2.base.wf
  have wfacts : WalkFacts bs s0.heads c.id L := by
    rw [← hL]; exact walk_facts bs swf2.base s0.heads c.id ⟨c, hc, hck⟩
  have hLst : ∀ b ∈ L, bs.get? b.id = some b := fun b hb => ((wfacts.mem b).mp hb).1
  have hLdoc : ∀ b ∈ L, b.kind = .comp ∧ b.doc = c.doc ∧ FieldLinksDoc bs b := by
    intro b hb
    obtain ⟨h1, ⟨n, hn⟩, _⟩ := (wfacts.mem b).mp hb
    have hbk := wfacts.comp b hb
    refine ⟨hbk, (path_doc bs swf2 hn c hc hck b h1).2, ?_⟩
    intro l hl lb hlb
    obtain ⟨hf, hnl⟩ := swf2.fieldLinks _ _ h1 hbk l hl lb hlb
    exact ⟨hf, hnl, swf.linkDoc _ _ h1 hbk l hl lb hlb⟩
  -- the merge is the fold of `docStep` over the flat sequence
  have hmerge : (mergeDoc cx r c).doc c.doc = (flatSeq bs L).foldl (docStep bs cx.known) s0 := by
    unfold mergeDoc
    simp only [hbs, hs0, hL]
    have := foldl_processBlock_doc cx 2 c.doc L r (by rw [hbs]; exact hLdoc)
    rw [hbs, hs0] at this
    exact this
  -- elements of the sequence
  have hchild : ∀ b ∈ L, ∀ fb ∈ childBlocks bs b, bs.get? fb.id = some fb ∧ (∃ f, fb.kind = .field f) ∧ fb.links = [] := by
    intro b hb fb hfb
    obtain ⟨l, hl, hg⟩ := mem_childBlocks.mp hfb
    obtain ⟨hf, hnl⟩ := swf2.fieldLinks _ _ (hLst b hb) (wfacts.comp b hb) l hl fb hg
    exact ⟨by rw [Blocks.get?_id hg]; exact hg, hf, hnl⟩
  have hok : ∀ e ∈ flatSeq bs L, ElemOK bs e := by
    intro e he
    rcases mem_flatSeq.mp he with h | ⟨b, hb, hc'⟩
    · have hst := hLst e h
      have hek := wfacts.comp e h
      refine ⟨hst, (by rw [hek]; intro h; cases h), ?_, ?_⟩
      · intro p hp pb hpb
        obtain ⟨pb', h1, h2⟩ := swf2.base.compParents _ _ hst hek p hp
        rw [hpb] at h1; cases h1; rw [hek]; exact h2
      · intro l hl lb hlb hk'
        exact swf2.base.compLinks _ _ hst hek l hl ⟨lb, hlb, by rw [hk', hek]⟩
    · obtain ⟨hst, ⟨f, hf⟩, hnl⟩ := hchild b hb e hc'
      refine ⟨hst, (by rw [hf]; intro h; cases h), ?_, ?_⟩
      · intro p hp pb hpb
        rw [hf]; exact swf.fieldParents _ _ f hst hf p hp pb hpb
      · intro l hl; rw [hnl] at hl; cases hl
  have hkn : ∀ e ∈ flatSeq bs L, ∀ l ∈ e.parents ++ e.links, cx.known l = true := by
    intro e he l hl
    apply hknown
    have heok := hok e he
    rcases List.mem_append.mp hl with hl | hl
    · obtain ⟨pb, hpb, _⟩ := wf _ _ heok.stored l hl
      rw [hpb]; rfl
    · rcases mem_flatSeq.mp he with h | ⟨b, hb, hc'⟩
      · exact swf2.linksStored _ _ (hLst e h) (wfacts.comp e h) l hl
      · rw [(hchild b hb e hc').2.2] at hl; cases hl
  rw [hmerge, foldl_docStep_known bs cx.known _ s0 hkn]
  -- readiness
  have hready : ReadyK (fun k t => Reach bs (headsOf s0 k) t) [] (flatSeq bs L) := by
    apply ready_flat bs wf _ L [] wfacts.sorted hLst
    · intro b hb p hp
      rcases wfacts.parents b hb p hp with h | h
      · left; rw [wfacts.comp b hb]; exact h
      · exact Or.inr (Or.inr h)
    · intro b hb fb hfb p hp
      obtain ⟨l, hl, hg⟩ := mem_childBlocks.mp hfb
      obtain ⟨hfst, ⟨f, hf⟩, _⟩ := hchild b hb fb hfb
      obtain ⟨a, ab, n, hpath, hga, hak, hpin⟩ :=
        swf.fieldCausal _ _ (hLst b hb) (wfacts.comp b hb) l hl fb hg p hp
      obtain ⟨pb, hpb, _⟩ := wf _ _ hfst p hp
      have hpk : pb.kind = .field f := swf.fieldParents _ _ f hfst hf p hp pb hpb
      by_cases hr : Reach bs s0.heads a
      · left
        have := hli a ab hga hak hr p hpin pb hpb
        rw [hpk] at this; rw [hf]; exact this
      · right; right
        have haid := Blocks.get?_id hga
        obtain ⟨_, ⟨m, hm⟩, _⟩ := (wfacts.mem b).mp hb
        have hain : ab ∈ L := (wfacts.mem ab).mpr
          ⟨by rw [haid]; exact hga, by rw [haid]; exact ⟨m + (n + 1), hm.append hpath⟩, by rw [haid]; exact hr⟩
        refine ⟨ab, hain, ?_, ?_⟩
        · have := path_height bs wf hpath b ab (hLst b hb) hga
          omega
        · exact List.mem_map.mpr ⟨pb, mem_childBlocks.mpr ⟨p, hpin, hpb⟩, Blocks.get?_id hpb⟩
  have := fold_docStep bs wf s0 I hI (flatSeq bs L) [] s0 hi0 hk (by intro k t; simp) rfl
    (by simpa using hok) hready
  simp only [List.nil_append] at this
  exact ⟨wfacts, hok, this.2.1, this.2.2.1, this.2.2.2, this.1⟩

theorem mergeDoc_full (cx : Ctx) (swf : StoreWF3 cx.blocks)
    (hknown : ∀ l, (cx.blocks.get? l).isSome = true → cx.known l = true)
    (r : Replica) (c : Block) (hc : cx.blocks.get? c.id = some c) (hck : c.kind = .comp)
    (hk : KInv cx.blocks (r.doc c.doc)) (hli : LinkInv cx.blocks (r.doc c.doc)) :
    WalkFacts cx.blocks (r.doc c.doc).heads c.id
      (sortByHeight (loadComposites cx.blocks (r.doc c.doc).heads (cx.blocks.length + 1) c.id ([], [])).1) ∧
    (∀ e ∈ flatSeq cx.blocks
      (sortByHeight (loadComposites cx.blocks (r.doc c.doc).heads (cx.blocks.length + 1) c.id ([], [])).1),
      ElemOK cx.blocks e) ∧
    KInv cx.blocks ((mergeDoc cx r c).doc c.doc) ∧
    (∀ k t, Reach cx.blocks (headsOf ((mergeDoc cx r c).doc c.doc) k) t ↔
      (Reach cx.blocks (headsOf (r.doc c.doc) k) t ∨
        ∃ b ∈ flatSeq cx.blocks
          (sortByHeight (loadComposites cx.blocks (r.doc c.doc).heads (cx.blocks.length + 1) c.id ([], [])).1),
          b.id = t ∧ b.kind = k)) ∧
    ((mergeDoc cx r c).doc c.doc).vals =
      (appliedSeq cx.blocks (r.doc c.doc) (flatSeq cx.blocks
        (sortByHeight (loadComposites cx.blocks (r.doc c.doc).heads (cx.blocks.length + 1) c.id ([], [])).1))).foldl
          applyDelta (r.doc c.doc).vals := by
  have := mergeDoc_full_inv cx swf hknown (fun _ => True) (fun _ _ _ _ => trivial) r c hc hck hk hli trivial
  exact ⟨this.1, this.2.1, this.2.2.1, this.2.2.2.1, this.2.2.2.2.1⟩

end Defra.Crdt

namespace Defra.Crdt

/-! ### the executable checks imply the hypotheses -/

theorem get?_of_mem_nodup (bs : Blocks) (hn : (bs.map (·.id)).Nodup) (b : Block) (hb : b ∈ bs) :
    bs.get? b.id = some b := by
  unfold Blocks.get?
  induction bs with
  | nil => cases hb
  | cons x t ih =>
    simp only [List.map_cons, List.nodup_cons] at hn
    simp only [List.find?_cons]
    rcases List.mem_cons.mp hb with rfl | hb
    · simp
    · have hne : (x.id == b.id) = false := by
        have : x.id ≠ b.id := fun h => hn.1 (by rw [h]; exact List.mem_map.mpr ⟨b, hb, rfl⟩)
        simpa using this
      simp only [hne]
      exact ih hn.2 hb

theorem path_zero_eq {bs : Blocks} {y t : Nat} (h : Path bs y t 0) : y = t := by
  cases h; rfl

theorem wfCheck3_sound (bs : Blocks) (h : wfCheck3 bs = true) : StoreWF3 bs := by
  unfold wfCheck3 at h
  simp only [Bool.and_eq_true, List.all_eq_true] at h
  obtain ⟨hwf, h3⟩ := h
  have swf2 := wfCheck_sound bs hwf
  have hnodup : (bs.map (·.id)).Nodup := by
    unfold wfCheck at hwf
    simp only [Bool.and_eq_true, decide_eq_true_eq] at hwf
    exact hwf.1
  have hcomp : ∀ y b, bs.get? y = some b → b.kind = .comp →
      ∀ l ∈ b.links, ∀ lb, bs.get? l = some lb → lb.doc = b.doc ∧
        ∀ p ∈ lb.parents, ∃ ab ∈ bs, ab.kind = .comp ∧ ab.id ≠ b.id ∧ p ∈ ab.links ∧
          isMerged bs [b.id] ab.id ab.height = true := by
    intro y b hg hk
    have hb := h3 b (get?_mem hg)
    simp only [block3Ok, hk, List.all_eq_true] at hb
    intro l hl lb hlb
    have := hb l hl
    simp only [hlb, Bool.and_eq_true, beq_iff_eq, List.all_eq_true, List.any_eq_true, bne_iff_ne, ne_eq,
      List.contains_iff_mem] at this
    refine ⟨this.1, ?_⟩
    intro p hp
    obtain ⟨ab, hab, ⟨⟨⟨h1, h2⟩, h3'⟩, h4⟩⟩ := this.2 p hp
    exact ⟨ab, hab, h1, h2, h3', h4⟩
  refine ⟨swf2, ?_, ?_, ?_⟩
  · intro y b hg hk l hl lb hlb
    exact ((hcomp y b hg hk) l hl lb hlb).1
  · intro y b f hg hk p hp pb hpb
    have hb := h3 b (get?_mem hg)
    simp only [block3Ok, hk, List.all_eq_true] at hb
    have := hb p hp
    simpa [hpb] using this
  · intro y b hg hk l hl fb hfb p hp
    obtain ⟨ab, hab, h1, h2, h3', h4⟩ := ((hcomp y b hg hk) l hl fb hfb).2 p hp
    have hr := isMerged_sound bs [b.id] ab.id ab.height h4
    obtain ⟨y', hy', n, hn⟩ := reach_path hr
    simp only [List.mem_singleton] at hy'
    subst hy'
    have hid := Blocks.get?_id hg
    cases n with
    | zero => exact absurd (path_zero_eq hn).symm h2
    | succ m =>
      refine ⟨ab.id, ab, m, ?_, get?_of_mem_nodup bs hnodup ab hab, h1, h3'⟩
      rw [← hid]; exact hn

theorem kinvCheck_sound (bs : Blocks) (s : DocState) (h : kinvCheck bs s = true) : KInv bs s := by
  unfold kinvCheck at h
  simp only [List.all_eq_true, Bool.and_eq_true, decide_eq_true_eq] at h
  intro x hx
  refine ⟨(h x hx).1, ?_⟩
  intro hh hmem
  have := (h x hx).2 hh hmem
  cases hg : bs.get? hh with
  | none => simp [hg] at this
  | some hb => simp only [hg, beq_iff_eq] at this; exact ⟨hb, rfl, this⟩

theorem linkInvCheck_sound (bs : Blocks) (wf : WellFormed bs) (s : DocState) (h : linkInvCheck bs s = true) :
    LinkInv bs s := by
  unfold linkInvCheck at h
  simp only [List.all_eq_true] at h
  intro a ab hga hak hr l hl lb hlb
  have hid := Blocks.get?_id hga
  have hm : isMerged bs s.heads ab.id ab.height = true := by
    rw [hid]; exact isMerged_complete bs wf s.heads a ab hga hr
  have := h ab (get?_mem hga)
  simp only [hak, hm, beq_self_eq_true, Bool.and_self, Bool.not_true, Bool.false_or, List.all_eq_true] at this
  have hl' := this l hl
  simp only [hlb] at hl'
  exact isMerged_sound bs _ l lb.height hl'

end Defra.Crdt
