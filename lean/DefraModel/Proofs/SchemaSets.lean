import DefraModel.Ident.SchemaSets
namespace Defra.SchemaSets

theorem isNode_iff {g : G} {a : Nat} : isNode g a = true ↔ ∃ t ∈ g, t.name = a := by
  simp [isNode, List.any_eq_true]

/-- the relation `a refers to b` depends on the graph only through membership -/
theorem mem_succs {g : G} {a b : Nat} :
    b ∈ succs g a ↔ (∃ t ∈ g, t.name = a ∧ b ∈ t.refs) ∧ ∃ u ∈ g, u.name = b := by
  unfold succs
  simp only [List.mem_filter, List.mem_flatMap, isNode_iff, beq_iff_eq]
  constructor
  · rintro ⟨⟨t, ⟨ht, hn⟩, hb⟩, hu⟩; exact ⟨⟨t, ht, hn, hb⟩, hu⟩
  · rintro ⟨⟨t, ht, hn, hb⟩, hu⟩; exact ⟨⟨t, ⟨ht, hn⟩, hb⟩, hu⟩

theorem Path.append {g : G} {a b c : Nat} (h1 : Path g a b) (h2 : Path g b c) : Path g a c := by
  induction h1 with
  | step h => exact .trans h h2
  | trans h _ ih => exact .trans h (ih h2)

/-- a path in a graph is a path in every graph with the same (or more) definitions -/
theorem Path.mono {g g' : G} (hsub : ∀ t, t ∈ g → t ∈ g') {a b : Nat} (h : Path g a b) : Path g' a b := by
  have hs : ∀ {x y}, y ∈ succs g x → y ∈ succs g' x := by
    intro x y hy
    rw [mem_succs] at hy ⊢
    obtain ⟨⟨t, ht, hn, hb⟩, u, hu, hun⟩ := hy
    exact ⟨⟨t, hsub t ht, hn, hb⟩, u, hsub u hu, hun⟩
  induction h with
  | step h => exact .step (hs h)
  | trans h _ ih => exact .trans (hs h) ih

/-- **the order of the definitions does not matter** -/
theorem sameSet_of_same_members {g g' : G} (h : ∀ t, t ∈ g ↔ t ∈ g') (a b : Nat) :
    SameSet g a b ↔ SameSet g' a b := by
  unfold SameSet
  constructor
  · rintro (e | ⟨p, q⟩)
    · exact .inl e
    · exact .inr ⟨p.mono (fun t ht => (h t).mp ht), q.mono (fun t ht => (h t).mp ht)⟩
  · rintro (e | ⟨p, q⟩)
    · exact .inl e
    · exact .inr ⟨p.mono (fun t ht => (h t).mpr ht), q.mono (fun t ht => (h t).mpr ht)⟩

/-! ### the executable closure -/

theorem mem_expand {g : G} {s : List Nat} {x : Nat} :
    x ∈ expand g s ↔ x ∈ s ∨ ∃ y ∈ s, x ∈ succs g y := by
  unfold expand
  simp only [List.mem_append, List.mem_eraseDups, List.mem_filter, List.mem_flatMap]
  constructor
  · rintro (h | ⟨⟨y, hy, hx⟩, _⟩)
    · exact .inl h
    · exact .inr ⟨y, hy, hx⟩
  · rintro (h | ⟨y, hy, hx⟩)
    · exact .inl h
    · by_cases hc : x ∈ s
      · exact .inl hc
      · exact .inr ⟨⟨y, hy, hx⟩, by simpa using hc⟩

/-- soundness: whatever the closure adds is reachable from the start set -/
theorem closure_sound {g : G} : ∀ (n : Nat) (s : List Nat) (x : Nat), x ∈ closure g n s →
    x ∈ s ∨ ∃ y ∈ s, Path g y x
  | 0, _, _, h => .inl h
  | n + 1, s, x, h => by
    rcases closure_sound n (expand g s) x h with h1 | ⟨y, hy, hp⟩
    · rcases mem_expand.mp h1 with h2 | ⟨y, hy, hx⟩
      · exact .inl h2
      · exact .inr ⟨y, hy, .step hx⟩
    · rcases mem_expand.mp hy with h2 | ⟨z, hz, hyz⟩
      · exact .inr ⟨y, h2, hp⟩
      · exact .inr ⟨z, hz, .trans hyz hp⟩

theorem closure_superset {g : G} : ∀ (n : Nat) (s : List Nat) (x : Nat), x ∈ s → x ∈ closure g n s
  | 0, _, _, h => h
  | n + 1, s, x, h => closure_superset n (expand g s) x (mem_expand.mpr (.inl h))

theorem reachFrom_sound {g : G} {a x : Nat} (h : x ∈ reachFrom g a) : Path g a x := by
  rcases closure_sound _ _ _ h with h1 | ⟨y, hy, hp⟩
  · exact .step h1
  · exact .trans hy hp

/-- completeness: a closed set that holds the direct relations of `a` holds everything reachable from `a` -/
theorem closed_complete {g : G} {s : List Nat} (hc : closedB g s = true) {a b : Nat}
    (h0 : ∀ y, y ∈ succs g a → y ∈ s) (p : Path g a b) : b ∈ s := by
  have hstep : ∀ x y, x ∈ s → y ∈ succs g x → y ∈ s := by
    intro x y hx hy
    unfold closedB at hc
    have := List.all_eq_true.mp (List.all_eq_true.mp hc x hx) y hy
    simpa using this
  induction p with
  | step h => exact h0 _ h
  | @trans a b c h _ ih => exact ih (fun y hy => hstep b y (h0 _ h) hy)

theorem reachFrom_complete {g : G} {a b : Nat} (hc : closedB g (reachFrom g a) = true) (p : Path g a b) :
    b ∈ reachFrom g a :=
  closed_complete hc (fun y hy => closure_superset _ _ y hy) p

/-- **the executable test is the specification** wherever the closure has reached its fixed point -/
theorem sameSetB_iff {g : G} {a b : Nat} (ha : closedB g (reachFrom g a) = true)
    (hb : closedB g (reachFrom g b) = true) : sameSetB g a b = true ↔ SameSet g a b := by
  unfold sameSetB SameSet
  simp only [Bool.or_eq_true, beq_iff_eq, Bool.and_eq_true, List.contains_iff_mem]
  constructor
  · rintro (e | ⟨h1, h2⟩)
    · exact .inl e
    · exact .inr ⟨reachFrom_sound h1, reachFrom_sound h2⟩
  · rintro (e | ⟨p, q⟩)
    · exact .inl e
    · exact .inr ⟨reachFrom_complete ha p, reachFrom_complete hb q⟩

/-! ### adding the definitions in several calls -/

/-- the definitions of an earlier call `g1` and of a later call `g2`: names are distinct and the earlier call does not
    refer to types of the later one -/
structure Split (g1 g2 : G) : Prop where
  disjoint : ∀ t ∈ g1, ∀ u ∈ g2, t.name ≠ u.name
  closed : ∀ t ∈ g1, ∀ r ∈ t.refs, isNode g2 r = false

theorem path_stays_in_first {g1 g2 : G} (hs : Split g1 g2) {a b : Nat} (ha : isNode g1 a = true)
    (p : Path (g1 ++ g2) a b) : isNode g1 b = true ∧ Path g1 a b := by
  have key : ∀ {x y}, isNode g1 x = true → y ∈ succs (g1 ++ g2) x → isNode g1 y = true ∧ y ∈ succs g1 x := by
    intro x y hx hy
    rw [mem_succs] at hy
    obtain ⟨⟨t, ht, hn, hb⟩, u, hu, hun⟩ := hy
    obtain ⟨tx, htx, htxn⟩ := isNode_iff.mp hx
    -- t is a definition of the first call, since its name is
    have ht1 : t ∈ g1 := by
      rcases List.mem_append.mp ht with h | h
      · exact h
      · exact absurd (htxn.trans hn.symm) (hs.disjoint tx htx t h)
    -- so y is not a type of the second call
    have hy2 := hs.closed t ht1 y hb
    have hu1 : u ∈ g1 := by
      rcases List.mem_append.mp hu with h | h
      · exact h
      · have : isNode g2 y = true := isNode_iff.mpr ⟨u, h, hun⟩
        rw [hy2] at this; cases this
    exact ⟨isNode_iff.mpr ⟨u, hu1, hun⟩, mem_succs.mpr ⟨⟨t, ht1, hn, hb⟩, u, hu1, hun⟩⟩
  induction p with
  | step h => obtain ⟨h1, h2⟩ := key ha h; exact ⟨h1, .step h2⟩
  | trans h _ ih =>
    obtain ⟨h1, h2⟩ := key ha h
    obtain ⟨h3, h4⟩ := ih h1
    exact ⟨h3, .trans h2 h4⟩

/-- **the sets of the earlier call are those of a single call** -/
theorem sameSet_first_call {g1 g2 : G} (hs : Split g1 g2) {a : Nat} (ha : isNode g1 a = true) (b : Nat) :
    SameSet (g1 ++ g2) a b ↔ SameSet g1 a b := by
  unfold SameSet
  constructor
  · rintro (e | ⟨p, q⟩)
    · exact .inl e
    · obtain ⟨hb, p'⟩ := path_stays_in_first hs ha p
      exact .inr ⟨p', (path_stays_in_first hs hb q).2⟩
  · rintro (e | ⟨p, q⟩)
    · exact .inl e
    · exact .inr ⟨p.mono (fun t ht => List.mem_append_left _ ht), q.mono (fun t ht => List.mem_append_left _ ht)⟩

theorem not_first_of_second {g1 g2 : G} (hs : Split g1 g2) {a : Nat} (ha : isNode g2 a = true) :
    isNode g1 a = false := by
  cases h : isNode g1 a with
  | false => rfl
  | true =>
    obtain ⟨t, ht, htn⟩ := isNode_iff.mp h
    obtain ⟨u, hu, hun⟩ := isNode_iff.mp ha
    exact absurd (htn.trans hun.symm) (hs.disjoint t ht u hu)

/-- a path of the whole graph that ends in the later call never left it -/
theorem path_within_second {g1 g2 : G} (hs : Split g1 g2) {a b : Nat} (p : Path (g1 ++ g2) a b)
    (hb : isNode g2 b = true) : isNode g2 a = true → Path g2 a b := by
  have edge : ∀ {x y}, isNode g2 x = true → isNode g2 y = true → y ∈ succs (g1 ++ g2) x → y ∈ succs g2 x := by
    intro x y hx hy h
    rw [mem_succs] at h ⊢
    obtain ⟨⟨t, ht, hn, hbm⟩, _⟩ := h
    obtain ⟨ux, hux, huxn⟩ := isNode_iff.mp hx
    have ht2 : t ∈ g2 := by
      rcases List.mem_append.mp ht with h1 | h1
      · exact absurd (hn.trans huxn.symm) (hs.disjoint t h1 ux hux)
      · exact h1
    obtain ⟨u, hu, hun⟩ := isNode_iff.mp hy
    exact ⟨⟨t, ht2, hn, hbm⟩, u, hu, hun⟩
  -- the successor of a node on such a path is a type of the later call as well
  have mid : ∀ {x c}, Path (g1 ++ g2) x c → isNode g2 c = true → isNode g2 x = true ∨ isNode g1 x = true := by
    intro x c q _
    cases q with
    | step h =>
      obtain ⟨⟨t, ht, hn, _⟩, _⟩ := mem_succs.mp h
      rcases List.mem_append.mp ht with h1 | h1
      · exact .inr (isNode_iff.mpr ⟨t, h1, hn⟩)
      · exact .inl (isNode_iff.mpr ⟨t, h1, hn⟩)
    | trans h _ =>
      obtain ⟨⟨t, ht, hn, _⟩, _⟩ := mem_succs.mp h
      rcases List.mem_append.mp ht with h1 | h1
      · exact .inr (isNode_iff.mpr ⟨t, h1, hn⟩)
      · exact .inl (isNode_iff.mpr ⟨t, h1, hn⟩)
  induction p with
  | step h => intro ha; exact .step (edge ha hb h)
  | @trans a m c h q ih =>
    intro ha
    -- m is a type of the later call: otherwise the rest of the path would stay in the earlier one
    have hm : isNode g2 m = true := by
      rcases mid q hb with h2 | h1
      · exact h2
      · have := (path_stays_in_first hs h1 q).1
        rw [not_first_of_second hs hb] at this; cases this
    exact .trans (edge ha hm h) (ih hb hm)

/-- **the sets of the later call, computed from its own definitions alone, are those of a single call** -/
theorem sameSet_second_call {g1 g2 : G} (hs : Split g1 g2) {a : Nat} (ha : isNode g2 a = true) (b : Nat) :
    SameSet (g1 ++ g2) a b ↔ SameSet g2 a b := by
  unfold SameSet
  constructor
  · rintro (e | ⟨p, q⟩)
    · exact .inl e
    · -- b is a type of the later call: the way back ends in a
      have hb : isNode g2 b = true := by
        cases hb1 : isNode g1 b with
        | true =>
          have := (path_stays_in_first hs hb1 q).1
          rw [not_first_of_second hs ha] at this; cases this
        | false =>
          -- b refers to something, so it is a definition of one of the calls
          cases q with
          | step h =>
            obtain ⟨⟨t, ht, hn, _⟩, _⟩ := mem_succs.mp h
            rcases List.mem_append.mp ht with h1 | h1
            · rw [isNode_iff.mpr ⟨t, h1, hn⟩] at hb1; cases hb1
            · exact isNode_iff.mpr ⟨t, h1, hn⟩
          | trans h _ =>
            obtain ⟨⟨t, ht, hn, _⟩, _⟩ := mem_succs.mp h
            rcases List.mem_append.mp ht with h1 | h1
            · rw [isNode_iff.mpr ⟨t, h1, hn⟩] at hb1; cases hb1
            · exact isNode_iff.mpr ⟨t, h1, hn⟩
      exact .inr ⟨path_within_second hs p hb ha, path_within_second hs q ha hb⟩
  · rintro (e | ⟨p, q⟩)
    · exact .inl e
    · exact .inr ⟨p.mono (fun t ht => List.mem_append_right _ ht), q.mono (fun t ht => List.mem_append_right _ ht)⟩

end Defra.SchemaSets
