import DefraModel.Proofs.EncryptInv
namespace Defra.Encrypt

/-- every composite block the node wrote itself links a key -/
def CompEnc (s : St) : Prop := ∀ b ∈ s.blocks, b.remote = false → b.field = none → b.enc.isSome

theorem fold_field_compEnc {s : St} (h : CompEnc s) (ctx : Option Cfg) (fs : List FName) :
    CompEnc (fs.foldl (fun s f => addDelta s ctx (some f)) s) := by
  induction fs generalizing s with
  | nil => exact h
  | cons f t ih =>
    apply ih
    intro b hb hr hf
    rw [addDelta_blocks] at hb
    rcases List.mem_append.mp hb with hb | hb
    · exact h b hb hr hf
    · simp only [List.mem_singleton] at hb
      subst hb; cases hf

theorem save_none_compEnc {s : St} (hi : DocInv s) (hc : CompKeysDoc s) (h : CompEnc s) (fs : List FName) :
    CompEnc (save s none fs) := by
  unfold save
  have h1 := fold_field_docInv hi none fs
  have h2 := fold_field_compKeys hc none fs
  have h3 := fold_field_compEnc h none fs
  obtain ⟨k, hk, _⟩ := determine_comp_inherits h1 h2
  intro b hb hr hf
  simp only at hb
  rw [addDelta_blocks] at hb
  rcases List.mem_append.mp hb with hb | hb
  · exact h3 b hb hr hf
  · simp only [List.mem_singleton] at hb
    subst hb
    simp only [hk]; rfl

theorem mergeTwinField_compEnc {s : St} (h : CompEnc s) (f : FName) : CompEnc (mergeTwinField s f) := by
  intro b hb hr hf
  simp only [mergeTwinField] at hb
  rcases List.mem_append.mp hb with hb | hb
  · exact h b hb hr hf
  · simp only [List.mem_singleton] at hb
    subst hb; cases hr

theorem mergeTwin_compEnc {s : St} (h : CompEnc s) (fs : List FName) : CompEnc (mergeTwin s fs) := by
  unfold mergeTwin
  have h1 : CompEnc (fs.foldl mergeTwinField s) := by
    induction fs generalizing s with
    | nil => exact h
    | cons f t ih => exact ih (mergeTwinField_compEnc h f)
  intro b hb hr hf
  simp only at hb
  rcases List.mem_append.mp hb with hb | hb
  · exact h1 b hb hr hf
  · simp only [List.mem_singleton] at hb
    subst hb; cases hr

theorem step_compEnc {s : St} (hi : DocInv s) (hc : CompKeysDoc s) (h : CompEnc s) (op : Op) : CompEnc (step s op) := by
  cases op with
  | update fs => exact save_none_compEnc hi hc h fs
  | delete => exact save_none_compEnc hi hc h []
  | twin fs => exact mergeTwin_compEnc h fs

theorem create_compEnc (c : Cfg) (hd : c.isDoc = true) (fs : List FName) : CompEnc (create (some c) fs) := by
  unfold create save
  have hshould : ∀ f, should (some c) f = true := by intro f; simp [should, hd]
  have h3 := fold_field_compEnc (s := ({} : St)) (by intro b hb; cases hb) (some c) fs
  intro b hb hr hf
  simp only at hb
  rw [addDelta_blocks] at hb
  rcases List.mem_append.mp hb with hb | hb
  · exact h3 b hb hr hf
  · simp only [List.mem_singleton] at hb
    subst hb
    simp [determine, hshould]

theorem run_compEnc (c : Cfg) (hd : c.isDoc = true) (fs : List FName) (ops : List Op) :
    CompEnc (run (some c) fs ops) := by
  unfold run
  have h0 := create_docInv c hd fs
  have h1 := create_compEnc c hd fs
  generalize create (some c) fs = s at h0 h1
  induction ops generalizing s with
  | nil => exact h1
  | cons op t ih => exact ih _ (step_docInv h0.1 h0.2 op) (step_compEnc h0.1 h0.2 h1 op)

end Defra.Encrypt
