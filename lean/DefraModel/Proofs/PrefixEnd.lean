import DefraModel.Encoding.FieldValue
import DefraModel.Proofs.BytesLemmas
namespace Defra.Enc
open Defra.Bytes

/-- `bytesPrefixEnd` read from the front: increment the last byte that is not `ff` and cut there;
    `none` when every byte is `ff` (Go then returns the input) -/
def pe : Bytes → Option Bytes
  | [] => none
  | x :: xs => match pe xs with
    | some r => some (x :: r)
    | none => if x = 255 then none else some [x + 1]

theorem prefixEndRev_snoc (l : Bytes) (x : Nat) :
    prefixEndRev (l ++ [x]) = match prefixEndRev l with
      | some r => some (r ++ [x])
      | none => if x = 255 then none else some [x + 1] := by
  induction l with
  | nil => simp [prefixEndRev]
  | cons y l ih =>
    simp only [List.cons_append, prefixEndRev]
    by_cases hy : y = 255
    · simp only [hy, if_true]; exact ih
    · simp [hy]

theorem prefixEndRev_reverse (p : Bytes) : (prefixEndRev p.reverse).map List.reverse = pe p := by
  induction p with
  | nil => simp [prefixEndRev, pe]
  | cons x xs ih =>
    rw [List.reverse_cons, prefixEndRev_snoc]
    simp only [pe]
    cases h : prefixEndRev xs.reverse with
    | none =>
      rw [h] at ih; simp only [Option.map_none] at ih
      rw [← ih]
      by_cases hx : x = 255 <;> simp [hx]
    | some r =>
      rw [h] at ih; simp only [Option.map_some] at ih
      rw [← ih]; simp

/-- the model's `prefixEnd` (mirror of the Go loop) in terms of `pe` -/
theorem prefixEnd_eq (p : Bytes) : prefixEnd p = (pe p).getD p := by
  unfold prefixEnd
  rw [← prefixEndRev_reverse]
  cases prefixEndRev p.reverse <;> simp

theorem pe_none_all_ff : ∀ (p : Bytes), pe p = none → ∀ b ∈ p, b = 255
  | [], _, b, hb => by cases hb
  | x :: xs, h, b, hb => by
    simp only [pe] at h
    cases hx : pe xs with
    | some r => rw [hx] at h; cases h
    | none =>
      rw [hx] at h
      by_cases h255 : x = 255
      · rcases List.mem_cons.mp hb with rfl | hb'
        · exact h255
        · exact pe_none_all_ff xs hx b hb'
      · simp [h255] at h

theorem slt_all_ff_false : ∀ (p k : Bytes), (∀ b ∈ p, b = 255) → IsBytes k → slt p k = false
  | [], k, _, _ => by simp
  | _ :: _, [], _, _ => by simp
  | x :: xs, y :: ys, hp, hk => by
    have hx : x = 255 := hp x (by simp)
    have hy : y < 256 := hk y (by simp)
    have ih := slt_all_ff_false xs ys (fun b hb => hp b (by simp [hb])) (fun b hb => hk b (by simp [hb]))
    simp only [slt_cons, ih, Bool.and_false, Bool.or_false, decide_eq_false_iff_not]
    omega

/-- every key that extends `p` sorts strictly below `prefixEnd p` -/
theorem pe_upper : ∀ (p s e : Bytes), pe p = some e → slt (p ++ s) e = true
  | [], _, _, h => by simp [pe] at h
  | x :: xs, s, e, h => by
    simp only [pe] at h
    cases hx : pe xs with
    | some r =>
      rw [hx] at h; injection h with h; subst h
      simp [pe_upper xs s r hx]
    | none =>
      rw [hx] at h
      by_cases h255 : x = 255
      · simp [h255] at h
      · simp only [h255, if_false] at h; injection h with h; subst h
        simp

/-- every key that is decided greater than `p` at some byte is not below `prefixEnd p` -/
theorem pe_lower : ∀ (p k e : Bytes), pe p = some e → slt p k = true → IsBytes k → lt k e = false
  | [], _, _, h, _, _ => by simp [pe] at h
  | _ :: _, [], _, _, hs, _ => by simp at hs
  | x :: xs, y :: ys, e, h, hs, hk => by
    have hys : IsBytes ys := fun b hb => hk b (by simp [hb])
    simp only [slt_cons, Bool.or_eq_true, Bool.and_eq_true, decide_eq_true_eq, beq_iff_eq] at hs
    simp only [pe] at h
    cases hx : pe xs with
    | some r =>
      rw [hx] at h; injection h with h; subst h
      rcases hs with hlt | ⟨rfl, hs'⟩
      · simp only [lt_cons, Bool.or_eq_false_iff, decide_eq_false_iff_not, Bool.and_eq_false_iff]
        exact ⟨by omega, Or.inl (by simp; omega)⟩
      · simp [pe_lower xs ys r hx hs' hys]
    | none =>
      rw [hx] at h
      by_cases h255 : x = 255
      · simp [h255] at h
      · simp only [h255, if_false] at h; injection h with h; subst h
        rcases hs with hlt | ⟨rfl, hs'⟩
        · have hys0 : lt ys [] = false := by cases ys <;> rfl
          simp only [lt_cons, hys0, Bool.and_false, Bool.or_false, decide_eq_false_iff_not]
          omega
        · have := slt_all_ff_false xs ys (pe_none_all_ff xs hx) hys
          rw [this] at hs'; cases hs'

end Defra.Enc
