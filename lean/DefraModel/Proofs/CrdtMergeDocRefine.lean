import DefraModel.Proofs.CrdtMergeDoc
import DefraModel.Crdt.WfCheck

/-!
`mergeDoc` (the model `drv crdt` runs against the implementation) refines `mergeComp` on the heads and the delete
marker of the merged document — so that `mergeComp_exact` speaks about `mergeDoc`.
-/
namespace Defra.Crdt

/-! ### association lists -/

theorem assocGet_map_set {β : Type} (k k' : String) (v : β) : ∀ (l : List (String × β)),
    assocGet (l.map (fun p => if p.1 == k then (k, v) else p)) k' =
      if k' = k then (if l.any (·.1 == k) then some v else none) else assocGet l k' := by
  intro l
  induction l with
  | nil => simp [assocGet]
  | cons x t ih =>
    unfold assocGet at ih ⊢
    simp only [List.map_cons, List.find?_cons, List.any_cons]
    by_cases hx : (x.1 == k) = true
    · have hxk : x.1 = k := by simpa using hx
      simp only [hx, if_true, Bool.true_or]
      by_cases hkk : k' = k
      · subst hkk; simp
      · have h1 : (k == k') = false := by simpa using fun h => hkk h.symm
        have h2 : (x.1 == k') = false := by rw [hxk]; exact h1
        simp only [h1, h2, hkk, if_false]
        simpa [hkk] using ih
    · have hx' : (x.1 == k) = false := by simpa using hx
      simp only [hx', Bool.false_eq_true, if_false, Bool.false_or]
      by_cases hkk : k' = k
      · subst hkk
        simp only [hx', if_true]
        simpa using ih
      · simp only [hkk, if_false]
        cases hxk' : (x.1 == k') with
        | true => simp
        | false => simpa [hkk] using ih

theorem assocGet_append_new {β : Type} (k k' : String) (v : β) : ∀ (l : List (String × β)),
    l.any (·.1 == k) = false →
    assocGet (l ++ [(k, v)]) k' = if k' = k then some v else assocGet l k' := by
  intro l hl
  unfold assocGet
  rw [List.find?_append]
  by_cases hkk : k' = k
  · subst hkk
    have : l.find? (·.1 == k') = none := by
      rw [List.find?_eq_none]
      intro x hx h
      exact (List.any_eq_false.mp hl x hx) h
    simp [this]
  · simp only [hkk, if_false]
    have h1 : (k == k') = false := by simpa using fun h => hkk h.symm
    cases h : l.find? (·.1 == k') with
    | some y => simp
    | none => simp [h1]

theorem assocGet_assocSet {β : Type} (l : List (String × β)) (k k' : String) (v : β) :
    assocGet (assocSet l k v) k' = if k' = k then some v else assocGet l k' := by
  unfold assocSet
  by_cases ha : l.any (·.1 == k) = true
  · simp only [ha, if_true]
    rw [assocGet_map_set]
    simp [ha]
  · have ha' : l.any (·.1 == k) = false := Bool.eq_false_iff.mpr ha
    simp only [ha', Bool.false_eq_true, if_false]
    exact assocGet_append_new k k' v l ha'

theorem doc_setDoc (r : Replica) (d d' : String) (s : DocState) :
    (r.setDoc d s).doc d' = if d' = d then s else r.doc d' := by
  unfold Replica.doc Replica.setDoc
  simp only [assocGet_assocSet]
  split <;> rfl

/-! ### the projection -/

def proj (r : Replica) (d : String) : CompSt := ⟨(r.doc d).heads, (r.doc d).vals.marker⟩

/-- the same step as `compStep`, with the replica's availability test -/
def compStepK (bs : Blocks) (known : Nat → Bool) (s : CompSt) (b : Block) : CompSt :=
  if isMerged bs s.heads b.id b.height then s
  else ⟨updateHeads known s.heads b, markerOf b s.marker⟩

theorem applyDelta_field_marker (s : Vals) (b : Block) (f : String) (hk : b.kind = .field f) :
    (applyDelta s b).marker = s.marker := by
  unfold applyDelta
  rw [hk]
  cases b.delta <;> rfl

/-- a field block without links changes neither heads nor marker of any document -/
theorem proj_field_block (cx : Ctx) (fuel : Nat) (r : Replica) (b : Block) (f : String)
    (hk : b.kind = .field f) (hl : b.links = []) (d : String) :
    proj (processBlock cx fuel r b) d = proj r d := by
  cases fuel with
  | zero => rw [processBlock]
  | succ n =>
    rw [processBlock]
    simp only [hk, hl, List.foldl_nil]
    unfold proj
    rw [doc_setDoc]
    by_cases hd : d = b.doc
    · subst hd
      simp only [if_true]
      split
      · rfl
      · simp only [setHeadsOf, headsOf]
        rw [applyDelta_field_marker _ b f hk]
    · simp only [hd, if_false]

theorem applyDelta_comp_marker (s : Vals) (b : Block) (hk : b.kind = .comp) :
    (applyDelta s b).marker = markerOf b s.marker := by
  unfold applyDelta markerOf
  rw [hk]
  cases b.delta <;> rfl

/-- links of a composite: stored ones are field blocks without links -/
def FieldLinks (bs : Blocks) (b : Block) : Prop :=
  ∀ l ∈ b.links, ∀ lb, bs.get? l = some lb → (∃ f, lb.kind = .field f) ∧ lb.links = []

theorem foldl_proj_inv (g : Replica → Nat → Replica) (links : List Nat) (d : String)
    (hg : ∀ r, ∀ l ∈ links, proj (g r l) d = proj r d) : ∀ (r : Replica), proj (links.foldl g r) d = proj r d := by
  induction links with
  | nil => intro r; rfl
  | cons l t ih =>
    intro r
    simp only [List.foldl_cons]
    rw [ih (fun r x hx => hg r x (List.mem_cons_of_mem _ hx))]
    exact hg r l List.mem_cons_self

/-- one composite block processed: the document's heads and marker take a `compStepK` step, other documents keep
    theirs -/
theorem proj_comp_block (cx : Ctx) (fuel : Nat) (r : Replica) (b : Block) (hk : b.kind = .comp)
    (hl : FieldLinks cx.blocks b) (d : String) :
    proj (processBlock cx (fuel + 1) r b) d =
      if d = b.doc then compStepK cx.blocks cx.known (proj r d) b else proj r d := by
  rw [processBlock]
  simp only [hk]
  rw [foldl_proj_inv _ b.links d]
  rotate_left
  · intro r' l hl'
    split
    · rfl
    · rename_i child hg
      obtain ⟨⟨f, hf⟩, hnl⟩ := hl l hl' child hg
      exact proj_field_block cx fuel r' child f hf hnl d
  unfold proj
  rw [doc_setDoc]
  by_cases hd : d = b.doc
  · subst hd
    simp only [if_true, headsOf]
    by_cases hm : isMerged cx.blocks (r.doc b.doc).heads b.id b.height = true
    · simp only [compStepK, hm, if_true]
    · simp only [compStepK, hm, Bool.false_eq_true, if_false, setHeadsOf, applyDelta_comp_marker _ b hk]
  · simp only [hd, if_false]

theorem foldl_ext_mem {α β : Type} (f g : α → β → α) (l : List β) (h : ∀ a, ∀ b ∈ l, f a b = g a b) :
    ∀ (init : α), l.foldl f init = l.foldl g init := by
  induction l with
  | nil => intro init; rfl
  | cons x t ih =>
    intro init
    simp only [List.foldl_cons]
    rw [h init x List.mem_cons_self]
    exact ih (fun a b hb => h a b (List.mem_cons_of_mem _ hb)) _

/-- when every parent and link of the block is available, the availability test plays no role -/
theorem updateHeads_known (known : Nat → Bool) (heads : List Nat) (b : Block)
    (hk : ∀ l ∈ b.parents ++ b.links, known l = true) :
    updateHeads known heads b = updateHeads (fun _ => true) heads b := by
  unfold updateHeads
  apply foldl_ext_mem
  intro h l hl
  simp only [hk l hl]

/-- the store of `StoreWF`, with what the document-level processing also relies on: the parents of a composite are
    composites of the same document; its links are stored field blocks without links of their own -/
structure StoreWF2 (bs : Blocks) : Prop where
  base : StoreWF bs
  sameDoc : ∀ y b, bs.get? y = some b → b.kind = .comp → ∀ p ∈ b.parents, ∀ pb, bs.get? p = some pb → pb.doc = b.doc
  fieldLinks : ∀ y b, bs.get? y = some b → b.kind = .comp → FieldLinks bs b
  linksStored : ∀ y b, bs.get? y = some b → b.kind = .comp → ∀ l ∈ b.links, (bs.get? l).isSome = true

theorem upath_doc (bs : Blocks) (swf : StoreWF2 bs) (heads : List Nat) (c x : Nat) (cb : Block)
    (hc : bs.get? c = some cb) (hck : cb.kind = .comp) (h : UPath bs heads c x) :
    ∀ xb, bs.get? x = some xb → xb.kind = .comp ∧ xb.doc = cb.doc := by
  induction h with
  | self => intro xb hxb; rw [hc] at hxb; cases hxb; exact ⟨hck, rfl⟩
  | step _ hg _ hp ih =>
    intro xb hxb
    obtain ⟨hk, hd⟩ := ih _ hg
    obtain ⟨pb, hpb, hpk⟩ := swf.base.compParents _ _ hg hk _ hp
    rw [hxb] at hpb; cases hpb
    exact ⟨hpk, (swf.sameDoc _ _ hg hk _ hp _ hxb).trans hd⟩

theorem foldl_processBlock_proj (cx : Ctx) (fuel : Nat) (d : String) :
    ∀ (L : List Block) (r : Replica),
      (∀ b ∈ L, b.kind = .comp ∧ b.doc = d ∧ FieldLinks cx.blocks b ∧
        ∀ l ∈ b.parents ++ b.links, cx.known l = true) →
      proj (L.foldl (fun r b => processBlock cx (fuel + 1) r b) r) d = L.foldl (compStep cx.blocks) (proj r d) := by
  intro L
  induction L with
  | nil => intro r _; rfl
  | cons b t ih =>
    intro r h
    obtain ⟨hk, hd, hfl, hkn⟩ := h b List.mem_cons_self
    simp only [List.foldl_cons]
    rw [ih _ (fun x hx => h x (List.mem_cons_of_mem _ hx))]
    congr 1
    rw [proj_comp_block cx fuel r b hk hfl d]
    simp only [hd, if_true]
    unfold compStepK compStep
    rw [updateHeads_known cx.known _ b hkn]

/-- **`mergeDoc` refines `mergeComp`.** In a store of `StoreWF2` whose stored blocks the replica reports as
    available, merging the stored composite `c` changes the heads and the delete marker of `c`'s document exactly as
    `mergeComp` says. -/
theorem mergeDoc_refines (cx : Ctx) (swf : StoreWF2 cx.blocks)
    (hknown : ∀ l, (cx.blocks.get? l).isSome = true → cx.known l = true)
    (r : Replica) (c : Block) (hc : cx.blocks.get? c.id = some c) (hck : c.kind = .comp) :
    proj (mergeDoc cx r c) c.doc = mergeComp cx.blocks (proj r c.doc) c.id := by
  unfold mergeDoc mergeComp
  simp only [proj]
  apply foldl_processBlock_proj cx 3 c.doc
  intro b hb
  have hb' := (sortByHeight_perm _).mem_iff.mp hb
  have hs := loadComposites_sound cx.blocks (r.doc c.doc).heads c.id
    (fun b => cx.blocks.get? b.id = some b ∧ UPath cx.blocks (r.doc c.doc).heads c.id b.id)
    (by intro x xb hu hg _; have hid := Blocks.get?_id hg; rw [hid]; exact ⟨hg, hu⟩)
    (cx.blocks.length + 1) c.id ([], []) UPath.self (by intro b hb; cases hb) b hb'
  obtain ⟨hg, hu⟩ := hs
  obtain ⟨hk, hd⟩ := upath_doc cx.blocks swf _ c.id b.id c hc hck hu b hg
  refine ⟨hk, hd, swf.fieldLinks _ _ hg hk, ?_⟩
  intro l hl
  apply hknown
  rcases List.mem_append.mp hl with hl | hl
  · obtain ⟨pb, hpb, _⟩ := swf.base.wf _ _ hg l hl
    rw [hpb]; rfl
  · exact swf.linksStored _ _ hg hk l hl

end Defra.Crdt

namespace Defra.Crdt

/-! ### the executable check implies the hypotheses -/

theorem get?_mem {bs : Blocks} {y : Nat} {b : Block} (h : bs.get? y = some b) : b ∈ bs := by
  unfold Blocks.get? at h
  exact List.mem_of_find?_eq_some h

theorem isFieldKind_iff (k : Kind) : isFieldKind k = true ↔ ∃ f, k = .field f := by
  cases k with
  | comp => simp [isFieldKind]
  | field f => simp [isFieldKind]
  | col => simp [isFieldKind]

theorem wfCheck_sound (bs : Blocks) (h : wfCheck bs = true) : StoreWF2 bs := by
  unfold wfCheck at h
  simp only [Bool.and_eq_true, decide_eq_true_eq, List.all_eq_true] at h
  obtain ⟨_, hall⟩ := h
  -- per stored block
  have hpar : ∀ y b, bs.get? y = some b → ∀ p ∈ b.parents, ∃ pb, bs.get? p = some pb ∧ pb.height < b.height := by
    intro y b hg p hp
    have hb := hall b (get?_mem hg)
    simp only [blockOk, Bool.and_eq_true, List.all_eq_true] at hb
    have := hb.1 p hp
    cases hgp : bs.get? p with
    | none => simp [hgp] at this
    | some pb => simp only [hgp, decide_eq_true_eq] at this; exact ⟨pb, rfl, this⟩
  have hcomp : ∀ y b, bs.get? y = some b → b.kind = .comp →
      (∀ p ∈ b.parents, ∃ pb, bs.get? p = some pb ∧ pb.kind = .comp ∧ pb.doc = b.doc) ∧
      (∀ l ∈ b.links, ∃ lb, bs.get? l = some lb ∧ (∃ f, lb.kind = .field f) ∧ lb.links = []) := by
    intro y b hg hk
    have hb := hall b (get?_mem hg)
    simp only [blockOk, Bool.and_eq_true, List.all_eq_true, Bool.or_eq_true, Bool.not_eq_true', hk] at hb
    have hb2 := hb.2
    simp only [beq_self_eq_true, Bool.true_eq_false, false_or] at hb2
    refine ⟨?_, ?_⟩
    · intro p hp
      have := hb2.1 p hp
      cases hgp : bs.get? p with
      | none => simp [hgp] at this
      | some pb =>
        simp only [hgp, Bool.and_eq_true, beq_iff_eq] at this
        exact ⟨pb, rfl, this.1, this.2⟩
    · intro l hl
      have := hb2.2 l hl
      cases hgl : bs.get? l with
      | none => simp [hgl] at this
      | some lb =>
        simp only [hgl, Bool.and_eq_true, List.isEmpty_iff] at this
        exact ⟨lb, rfl, (isFieldKind_iff _).mp this.1, this.2⟩
  refine ⟨⟨hpar, ?_, ?_⟩, ?_, ?_, ?_⟩
  · intro y b hg hk p hp
    obtain ⟨pb, h1, h2, _⟩ := (hcomp y b hg hk).1 p hp
    exact ⟨pb, h1, h2⟩
  · intro y b hg hk l hl ⟨lb', h1', h2'⟩
    obtain ⟨lb, h1, ⟨f, hf⟩, _⟩ := (hcomp y b hg hk).2 l hl
    rw [h1] at h1'; cases h1'
    rw [hf] at h2'; cases h2'
  · intro y b hg hk p hp pb hpb
    obtain ⟨pb', h1, _, h3⟩ := (hcomp y b hg hk).1 p hp
    rw [hpb] at h1; cases h1
    exact h3
  · intro y b hg hk l hl lb hlb
    obtain ⟨lb', h1, h2, h3⟩ := (hcomp y b hg hk).2 l hl
    rw [hlb] at h1; cases h1
    exact ⟨h2, h3⟩
  · intro y b hg hk l hl
    obtain ⟨lb, h1, _⟩ := (hcomp y b hg hk).2 l hl
    rw [h1]; rfl

theorem headsCheck_sound (bs : Blocks) (heads : List Nat) (h : headsCheck bs heads = true) : HInv bs heads := by
  unfold headsCheck at h
  simp only [Bool.and_eq_true, decide_eq_true_eq, List.all_eq_true] at h
  refine ⟨h.1, ?_⟩
  intro x hx
  have := h.2 x hx
  cases hg : bs.get? x with
  | none => simp [hg] at this
  | some b => simp only [hg, beq_iff_eq] at this; exact ⟨b, hg, this⟩

end Defra.Crdt
