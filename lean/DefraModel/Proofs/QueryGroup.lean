import DefraModel.Query.Group
namespace Defra.Query

def total (g : List (List V × Nat)) : Nat := (g.map (·.2)).sum

theorem total_bump (t : List V) : ∀ g, total (bump t g) = total g + 1
  | [] => by simp [bump, total]
  | (k, c) :: rest => by
    unfold bump
    split
    · simp [total]; omega
    · have := total_bump t rest
      simp [total] at this ⊢; omega

theorem keys_bump (t : List V) : ∀ g, ∀ k, k ∈ (bump t g).map (·.1) ↔ k = t ∨ k ∈ g.map (·.1)
  | [], k => by simp [bump]
  | (k0, c) :: rest, k => by
    unfold bump
    split
    · rename_i h; subst h
      simp only [List.map_cons, List.mem_cons]
      constructor
      · intro h; exact .inr h
      · rintro (h | h)
        · exact .inl h
        · exact h
    · have ih := keys_bump t rest k
      simp only [List.map_cons, List.mem_cons, ih]
      constructor
      · rintro (h | h | h)
        · exact .inr (.inl h)
        · exact .inl h
        · exact .inr (.inr h)
      · rintro (h | h | h)
        · exact .inr (.inl h)
        · exact .inl h
        · exact .inr (.inr h)

theorem nodup_bump (t : List V) : ∀ g, (g.map (·.1)).Nodup → ((bump t g).map (·.1)).Nodup
  | [], _ => by simp [bump]
  | (k0, c) :: rest, h => by
    simp only [List.map_cons, List.nodup_cons] at h
    unfold bump
    split
    · simpa using h
    · rename_i hne
      simp only [List.map_cons, List.nodup_cons]
      refine ⟨?_, nodup_bump t rest h.2⟩
      intro hm
      rcases (keys_bump t rest k0).mp hm with h1 | h1
      · exact hne h1
      · exact h.1 h1

/-- the size recorded for a tuple -/
def groupSize (g : List (List V × Nat)) (t : List V) : Nat := ((g.find? (fun p => p.1 = t)).map (·.2)).getD 0

theorem groupSize_bump (t u : List V) : ∀ g, groupSize (bump t g) u = groupSize g u + (if u = t then 1 else 0)
  | [] => by
    by_cases h : u = t
    · subst h; simp [bump, groupSize]
    · have h' : ¬ t = u := fun e => h e.symm
      simp [bump, groupSize, h, h']
  | (k, c) :: rest => by
    unfold bump
    by_cases hk : k = t
    · subst hk
      by_cases hu : u = k
      · subst hu; simp [groupSize]
      · have hu' : ¬ k = u := fun e => hu e.symm
        simp [groupSize, hu, hu']
    · simp only [hk, if_false]
      by_cases hku : k = u
      · subst hku
        have : ¬ k = t := hk
        simp [groupSize, this]
      · have ih := groupSize_bump t u rest
        simp only [groupSize, List.find?_cons, hku, decide_false] at ih ⊢
        exact ih

theorem foldl_bump_spec (fs : List String) : ∀ (docs : List Doc) (g : List (List V × Nat)),
    (g.map (·.1)).Nodup →
    let r := docs.foldl (fun acc d => bump (tupleOf fs d) acc) g
    (r.map (·.1)).Nodup ∧ total r = total g + docs.length ∧
    (∀ u, groupSize r u = groupSize g u + (docs.filter (fun d => tupleOf fs d = u)).length) ∧
    (∀ k, k ∈ r.map (·.1) ↔ k ∈ g.map (·.1) ∨ ∃ d ∈ docs, tupleOf fs d = k)
  | [], g, h => by simp [h]
  | d :: ds, g, h => by
    have ih := foldl_bump_spec fs ds (bump (tupleOf fs d) g) (nodup_bump _ g h)
    simp only [List.foldl_cons]
    obtain ⟨h1, h2, h3, h4⟩ := ih
    refine ⟨h1, ?_, ?_, ?_⟩
    · rw [h2, total_bump]; simp; omega
    · intro u
      rw [h3 u, groupSize_bump]
      by_cases hu : tupleOf fs d = u
      · subst hu; simp; omega
      · have hu' : ¬ u = tupleOf fs d := fun e => hu e.symm
        simp [hu, hu']
    · intro k
      rw [h4 k, keys_bump]
      constructor
      · rintro ((h5 | h5) | ⟨x, hx, hk⟩)
        · exact .inr ⟨d, List.mem_cons_self, h5.symm⟩
        · exact .inl h5
        · exact .inr ⟨x, List.mem_cons_of_mem _ hx, hk⟩
      · rintro (h5 | ⟨x, hx, hk⟩)
        · exact .inl (.inr h5)
        · rcases List.mem_cons.mp hx with rfl | hx'
          · exact .inl (.inl hk.symm)
          · exact .inr ⟨x, hx', hk⟩

end Defra.Query

namespace Defra.Query

/-- grouping through a key, as the implementation does: two documents share a group when their keys are equal -/
def bumpK {κ : Type} [DecidableEq κ] (key : List V → κ) (t : List V) : List (List V × Nat) → List (List V × Nat)
  | [] => [(t, 1)]
  | (k, c) :: rest => if key k = key t then (k, c + 1) :: rest else (k, c) :: bumpK key t rest

def groupCountsK {κ : Type} [DecidableEq κ] (key : List V → κ) (fs : List String) (docs : List Doc) :
    List (List V × Nat) :=
  docs.foldl (fun acc d => bumpK key (tupleOf fs d) acc) []

theorem bumpK_eq_bump {κ : Type} [DecidableEq κ] (key : List V → κ) (hinj : ∀ a b, key a = key b → a = b)
    (t : List V) : ∀ g, bumpK key t g = bump t g
  | [] => rfl
  | (k, c) :: rest => by
    unfold bumpK bump
    by_cases h : k = t
    · subst h; simp
    · have : ¬ key k = key t := fun e => h (hinj _ _ e)
      simp [h, this, bumpK_eq_bump key hinj t rest]

theorem groupCountsK_eq {κ : Type} [DecidableEq κ] (key : List V → κ) (hinj : ∀ a b, key a = key b → a = b)
    (fs : List String) (docs : List Doc) : groupCountsK key fs docs = groupCounts fs docs := by
  unfold groupCountsK groupCounts
  have : (fun acc (d : Doc) => bumpK key (tupleOf fs d) acc) = (fun acc d => bump (tupleOf fs d) acc) := by
    funext acc d; exact bumpK_eq_bump key hinj _ acc
  rw [this]

end Defra.Query
