import DefraModel.Encoding.Int
import DefraModel.Proofs.BytesLemmas
namespace Defra.Enc
open Defra.Bytes

theorem be_length : ∀ (w x : Nat), (be w x).length = w
  | 0, _ => rfl
  | w + 1, x => by simp [be, be_length w x]

theorem be_isBytes : ∀ (w x : Nat), IsBytes (be w x)
  | 0, _ => isBytes_nil
  | w + 1, x => isBytes_cons (Nat.mod_lt _ (by decide)) (be_isBytes w x)

/-- `be w` is strictly monotone on the residues mod `256^w` -/
theorem be_slt : ∀ (w x y : Nat), x % 256 ^ w < y % 256 ^ w → slt (be w x) (be w y) = true
  | 0, x, y, h => by simp [Nat.mod_one] at h
  | w + 1, x, y, h => by
    have hx := Nat.mod_mul (x := x) (a := 256 ^ w) (b := 256)
    have hy := Nat.mod_mul (x := y) (a := 256 ^ w) (b := 256)
    rw [Nat.pow_succ] at h
    rw [hx, hy] at h
    have hP : 0 < 256 ^ w := Nat.pow_pos (by decide)
    have hxr := Nat.mod_lt x hP
    have hyr := Nat.mod_lt y hP
    simp only [be, slt_cons, Bool.or_eq_true, Bool.and_eq_true, decide_eq_true_eq, beq_iff_eq]
    by_cases hlt : x / 256 ^ w % 256 < y / 256 ^ w % 256
    · exact Or.inl hlt
    · by_cases heq : x / 256 ^ w % 256 = y / 256 ^ w % 256
      · refine Or.inr ⟨heq, be_slt w x y ?_⟩
        rw [heq] at h; omega
      · exfalso
        have hgt : y / 256 ^ w % 256 + 1 ≤ x / 256 ^ w % 256 := by omega
        have := Nat.mul_le_mul_left (256 ^ w) hgt
        rw [Nat.mul_add, Nat.mul_one] at this
        omega

theorem beVal_go (l : Bytes) (acc : Nat) :
    l.foldl (fun v t => v * 256 + t) acc = acc * 256 ^ l.length + beVal l := by
  induction l generalizing acc with
  | nil => simp [beVal]
  | cons x l ih =>
    simp only [List.foldl_cons, List.length_cons, beVal]
    rw [ih, ih (0 * 256 + x), Nat.pow_succ]
    simp only [Nat.zero_mul, Nat.zero_add, Nat.add_mul]
    rw [Nat.mul_assoc, Nat.mul_comm 256]
    omega

theorem beVal_cons (x : Nat) (l : Bytes) : beVal (x :: l) = x * 256 ^ l.length + beVal l := by
  have := beVal_go l (0 * 256 + x)
  simp only [Nat.zero_mul, Nat.zero_add] at this
  simpa [beVal] using this

theorem beVal_be : ∀ (w x : Nat), beVal (be w x) = x % 256 ^ w
  | 0, x => by simp [be, beVal, Nat.mod_one]
  | w + 1, x => by
    rw [be, beVal_cons, be_length, beVal_be w x, Nat.pow_succ, Nat.mod_mul]
    rw [Nat.mul_comm]; omega

/-! ### widths -/

theorem uwidth_pos (v : Nat) : 1 ≤ uwidth v ∧ uwidth v ≤ 8 := by
  unfold uwidth; repeat' split
  all_goals omega

theorem uwidth_mono (a b : Nat) (h : a ≤ b) : uwidth a ≤ uwidth b := by
  unfold uwidth; repeat' split
  all_goals omega

theorem uwidth_bound (v : Nat) (h : v < 2 ^ 64) : v < 256 ^ uwidth v := by
  unfold uwidth; repeat' split
  all_goals (simp only [Nat.reducePow] at *; omega)

theorem nwidth_pos (v : Int) : 1 ≤ nwidth v ∧ nwidth v ≤ 8 := by
  unfold nwidth; repeat' split
  all_goals omega

theorem nwidth_anti (a b : Int) (h : a ≤ b) : nwidth b ≤ nwidth a := by
  unfold nwidth; repeat' split
  all_goals omega

/-! ### uvarint ascending -/

theorem uvarintAsc_mono (a b : Nat) (hb : b < 2 ^ 64) (h : a < b) :
    slt (uvarintAsc a) (uvarintAsc b) = true := by
  have ha : a < 2 ^ 64 := Nat.lt_trans h hb
  unfold uvarintAsc intSmall intZero IntMax
  by_cases h1 : a ≤ 109 <;> by_cases h2 : b ≤ 109
  · simp only [h1, h2, if_true, slt_cons]; simp; omega
  · have := uwidth_pos b
    simp only [h1, h2, if_true, if_false, slt_cons]; simp; omega
  · omega
  · simp only [h1, h2, if_false, slt_cons, Bool.or_eq_true, Bool.and_eq_true, decide_eq_true_eq, beq_iff_eq]
    have hm := uwidth_mono a b (Nat.le_of_lt h)
    by_cases hw : uwidth a = uwidth b
    · refine Or.inr ⟨by omega, ?_⟩
      rw [hw]
      apply be_slt
      have hbb := uwidth_bound b hb
      have hab : a < 256 ^ uwidth b := Nat.lt_trans h hbb
      rw [Nat.mod_eq_of_lt hab, Nat.mod_eq_of_lt hbb]; exact h
    · exact Or.inl (by omega)

/-! ### varint ascending -/

theorem nwidth_resid (v : Int) (h0 : v < 0) (hl : -(2 ^ 63) ≤ v) :
    ((v + 2 ^ 64).toNat % 256 ^ nwidth v : Nat) = (v + 256 ^ nwidth v).toNat ∧ 0 < v + 256 ^ nwidth v := by
  unfold nwidth; repeat' split
  all_goals (simp only [Nat.reducePow, Int.reducePow] at *; omega)

theorem varintAsc_mono (a b : Int) (ha : -(2 ^ 63) ≤ a) (hb : b < 2 ^ 63) (h : a < b) :
    slt (varintAsc a) (varintAsc b) = true := by
  unfold varintAsc IntMin
  by_cases h1 : a < 0 <;> by_cases h2 : b < 0
  · -- both negative
    simp only [h1, h2, if_true, slt_cons, Bool.or_eq_true, Bool.and_eq_true, decide_eq_true_eq, beq_iff_eq]
    have hanti := nwidth_anti a b (Int.le_of_lt h)
    have hpa := nwidth_pos a
    have hpb := nwidth_pos b
    by_cases hw : nwidth a = nwidth b
    · refine Or.inr ⟨by omega, ?_⟩
      have ra := nwidth_resid a h1 ha
      have rb := nwidth_resid b h2 (by omega)
      rw [hw] at ra ⊢
      apply be_slt
      rw [ra.1, rb.1]
      omega
    · exact Or.inl (by omega)
  · -- a negative, b non-negative
    simp only [h1, h2, if_true, if_false]
    have hpa := nwidth_pos a
    unfold uvarintAsc intSmall intZero IntMax
    split
    · simp only [slt_cons]; simp; omega
    · have := uwidth_pos b.toNat
      simp only [slt_cons]; simp; omega
  · omega
  · simp only [h1, h2, if_false]
    apply uvarintAsc_mono
    · omega
    · omega

/-- `^v` reverses the order of `int64` -/
theorem inot_anti (a b : Int) : a < b ↔ inot b < inot a := by unfold inot; omega

theorem varintDesc_anti (a b : Int) (ha : -(2 ^ 63) ≤ a) (hb : b < 2 ^ 63) (h : a < b) :
    slt (varintDesc b) (varintDesc a) = true := by
  unfold varintDesc
  apply varintAsc_mono
  · unfold inot; omega
  · unfold inot; omega
  · exact (inot_anti a b).mp h

/-! ### uvarint descending -/

theorem uvarintDesc_anti (a b : Nat) (hb : b < 2 ^ 64) (h : a < b) :
    slt (uvarintDesc b) (uvarintDesc a) = true := by
  have ha : a < 2 ^ 64 := Nat.lt_trans h hb
  unfold uvarintDesc IntMin
  have hb0 : b ≠ 0 := by omega
  have hpb := uwidth_pos b
  by_cases ha0 : a = 0
  · simp only [ha0, hb0, if_true, if_false, slt_cons]; simp; omega
  · simp only [ha0, hb0, if_false, slt_cons, Bool.or_eq_true, Bool.and_eq_true, decide_eq_true_eq, beq_iff_eq]
    have hpa := uwidth_pos a
    have hm := uwidth_mono a b (Nat.le_of_lt h)
    by_cases hw : uwidth a = uwidth b
    · refine Or.inr ⟨by omega, ?_⟩
      rw [hw]
      apply be_slt
      have hbb := uwidth_bound b hb
      have hab : a < 256 ^ uwidth b := Nat.lt_trans h hbb
      -- (2^64-1-v) % 256^w = 256^w - 1 - v for v < 256^w, w ≤ 8
      have key : ∀ v, v < 256 ^ uwidth b → (2 ^ 64 - 1 - v) % 256 ^ uwidth b = 256 ^ uwidth b - 1 - v := by
        intro v hv
        revert hv
        unfold uwidth; repeat' split
        all_goals (simp only [Nat.reducePow]; omega)
      rw [key a hab, key b hbb]; omega
    · exact Or.inl (by omega)

/-! ### decoders invert the encoders -/

theorem take_append_be (w x : Nat) (r : Bytes) : (be w x ++ r).take w = be w x := by
  have := List.take_left (l₁ := be w x) (l₂ := r)
  rwa [be_length] at this

theorem drop_append_be (w x : Nat) (r : Bytes) : (be w x ++ r).drop w = r := by
  have := List.drop_left (l₁ := be w x) (l₂ := r)
  rwa [be_length] at this

/-- `be w` only depends on the residue mod `256^w` -/
theorem be_congr : ∀ (w a b : Nat), a % 256 ^ w = b % 256 ^ w → be w a = be w b
  | 0, _, _, _ => rfl
  | n + 1, a, b, hab => by
    have ha := Nat.mod_mul (x := a) (a := 256 ^ n) (b := 256)
    have hb := Nat.mod_mul (x := b) (a := 256 ^ n) (b := 256)
    rw [Nat.pow_succ, ha, hb] at hab
    have hPn : 0 < 256 ^ n := Nat.pow_pos (by decide)
    have r1 := Nat.mod_lt a hPn
    have r2 := Nat.mod_lt b hPn
    have hdig : a / 256 ^ n % 256 = b / 256 ^ n % 256 := by
      have h1 : (256 ^ n * (a / 256 ^ n % 256) + a % 256 ^ n) / 256 ^ n
              = (256 ^ n * (b / 256 ^ n % 256) + b % 256 ^ n) / 256 ^ n := by
        rw [Nat.add_comm, hab, Nat.add_comm]
      rw [Nat.mul_add_div hPn, Nat.mul_add_div hPn, Nat.div_eq_of_lt r1, Nat.div_eq_of_lt r2] at h1
      simpa using h1
    simp only [be]
    rw [hdig, be_congr n a b (by rw [hdig] at hab; omega)]

theorem dec_uvarintAsc (v : Nat) (hv : v < 2 ^ 64) (r : Bytes) :
    decUvarintAsc (uvarintAsc v ++ r) = some (v, r) := by
  unfold uvarintAsc
  by_cases h1 : v ≤ intSmall
  · simp only [h1, if_true, List.cons_append, List.nil_append, decUvarintAsc]
    have e1 : ((intZero + v : Nat) : Int) - intZero ≤ intSmall := by simp only [intZero, intSmall] at *; omega
    have e2 : ¬ (((intZero + v : Nat) : Int) - intZero < 0) := by simp only [intZero]; omega
    simp only [e1, e2, if_true, if_false]
    congr 2; simp only [intZero]; omega
  · have hp := uwidth_pos v
    simp only [h1, if_false, List.cons_append, decUvarintAsc]
    have e1 : ¬ (((IntMax - 8 + uwidth v : Nat) : Int) - intZero ≤ intSmall) := by
      simp only [intZero, intSmall, IntMax]; omega
    have e2 : (((IntMax - 8 + uwidth v : Nat) : Int) - intZero - intSmall).toNat = uwidth v := by
      simp only [intZero, intSmall, IntMax]; omega
    simp only [e1, if_false, e2]
    have e3 : ¬ (uwidth v > 8) := by omega
    have e4 : ¬ ((be (uwidth v) v ++ r).length < uwidth v) := by
      rw [List.length_append, be_length]; omega
    simp only [e3, e4, if_false, take_append_be, drop_append_be, beVal_be]
    rw [Nat.mod_eq_of_lt (uwidth_bound v hv)]

/-- ones-complement of the `w` low bytes is the low bytes of the complement -/
theorem compl_be : ∀ (w x : Nat), (be w x).map (fun t => 255 - t) = be w (256 ^ w - 1 - x % 256 ^ w)
  | 0, x => rfl
  | w + 1, x => by
    have hP : 0 < 256 ^ w := Nat.pow_pos (by decide)
    have ih := compl_be w x
    have hx := Nat.mod_mul (x := x) (a := 256 ^ w) (b := 256)
    have hr := Nat.mod_lt x hP
    have hd : x / 256 ^ w % 256 < 256 := Nat.mod_lt _ (by decide)
    have hlow : 256 ^ w - 1 - x % 256 ^ w < 256 ^ w := by omega
    have e : 256 ^ (w + 1) - 1 - x % 256 ^ (w + 1)
        = 256 ^ w * (255 - x / 256 ^ w % 256) + (256 ^ w - 1 - x % 256 ^ w) := by
      rw [Nat.pow_succ, hx]
      have h1 : 256 ^ w * (x / 256 ^ w % 256) + 256 ^ w * (255 - x / 256 ^ w % 256) = 256 ^ w * 255 := by
        rw [← Nat.mul_add]; congr 1; omega
      have h256 : 256 ^ w * 256 = 256 ^ w * 255 + 256 ^ w := by
        rw [show (256 : Nat) = 255 + 1 from rfl, Nat.mul_add, Nat.mul_one]
      omega
    rw [e]
    simp only [be, List.map_cons]
    rw [Nat.mul_add_div hP, Nat.div_eq_of_lt hlow, Nat.add_zero, ih]
    congr 1
    · omega
    · apply be_congr
      rw [Nat.mul_add_mod]

theorem uwidth_compl (v : Nat) (hv : v < 2 ^ 64) :
    (2 ^ 64 - 1 - v) % 256 ^ uwidth v = 256 ^ uwidth v - 1 - v := by
  have := uwidth_bound v hv
  revert this
  unfold uwidth; repeat' split
  all_goals (simp only [Nat.reducePow]; omega)

theorem dec_uvarintDesc (v : Nat) (hv : v < 2 ^ 64) (r : Bytes) :
    decUvarintDesc (uvarintDesc v ++ r) = some (v, r) := by
  unfold uvarintDesc
  by_cases h0 : v = 0
  · subst h0
    simp [decUvarintDesc, beVal]
  · have hp := uwidth_pos v
    simp only [h0, if_false, List.cons_append, decUvarintDesc]
    have e1 : ¬ (((intZero : Nat) : Int) - ((IntMin + 8 - uwidth v : Nat) : Int) < 0 ∨
        ((intZero : Nat) : Int) - ((IntMin + 8 - uwidth v : Nat) : Int) > 8) := by
      simp only [intZero, IntMin]; omega
    have e2 : (((intZero : Nat) : Int) - ((IntMin + 8 - uwidth v : Nat) : Int)).toNat = uwidth v := by
      simp only [intZero, IntMin]; omega
    simp only [e1, if_false, e2]
    have e4 : ¬ ((be (uwidth v) (2 ^ 64 - 1 - v) ++ r).length < uwidth v) := by
      rw [List.length_append, be_length]; omega
    simp only [e4, if_false, take_append_be, drop_append_be, compl_be, beVal_be, uwidth_compl v hv]
    have hb := uwidth_bound v hv
    have hP : 0 < 256 ^ uwidth v := Nat.pow_pos (by decide)
    have : 256 ^ uwidth v - 1 - (256 ^ uwidth v - 1 - v) = v := by omega
    rw [this, Nat.mod_eq_of_lt hb]

theorem wrap64_id (x : Int) (hl : -(2 ^ 63) ≤ x) (hu : x < 2 ^ 63) : wrap64 x = x := by
  unfold wrap64
  rw [Int.emod_eq_of_lt (by omega) (by omega)]
  omega

theorem dec_varintAsc (v : Int) (hl : -(2 ^ 63) ≤ v) (hu : v < 2 ^ 63) (r : Bytes) :
    decVarintAsc (varintAsc v ++ r) = some (v, r) := by
  unfold varintAsc
  by_cases h0 : v < 0
  · have hp := nwidth_pos v
    simp only [h0, if_true, List.cons_append, decVarintAsc]
    have e1 : ((IntMin + 8 - nwidth v : Nat) : Int) - (intZero : Nat) < 0 := by
      simp only [intZero, IntMin]; omega
    have e2 : (-(((IntMin + 8 - nwidth v : Nat) : Int) - (intZero : Nat))).toNat = nwidth v := by
      simp only [intZero, IntMin]; omega
    simp only [e1, if_true, e2]
    have e4 : ¬ ((be (nwidth v) (v + 2 ^ 64).toNat ++ r).length < nwidth v) := by
      rw [List.length_append, be_length]; omega
    simp only [e4, if_false, take_append_be, drop_append_be, compl_be, beVal_be]
    have res := nwidth_resid v h0 hl
    have hP : 0 < 256 ^ nwidth v := Nat.pow_pos (by decide)
    rw [res.1]
    have hlt : 256 ^ nwidth v - 1 - (v + 256 ^ nwidth v).toNat < 256 ^ nwidth v := by omega
    rw [Nat.mod_eq_of_lt hlt]
    have hinner : inot ((256 ^ nwidth v - 1 - (v + 256 ^ nwidth v).toNat : Nat) : Int) = v := by
      unfold inot
      have h2 := res.2
      have hc : ((256 ^ nwidth v : Nat) : Int) = (256 : Int) ^ nwidth v := by simp
      omega
    rw [hinner, wrap64_id v hl hu]
  · simp only [h0, if_false]
    have hv : v.toNat < 2 ^ 64 := by omega
    have hdec := dec_uvarintAsc v.toNat hv r
    -- the first byte of a uvarint is ≥ intZero
    have hhead : ∃ t b, uvarintAsc v.toNat ++ r = t :: b ∧ ¬ ((t : Int) - (intZero : Nat) < 0) := by
      unfold uvarintAsc
      split
      · exact ⟨_, _, rfl, by simp only [intZero]; omega⟩
      · have := uwidth_pos v.toNat
        exact ⟨_, _, rfl, by simp only [intZero, IntMax]; omega⟩
    obtain ⟨t, b, hb, ht⟩ := hhead
    rw [hb] at hdec ⊢
    simp only [decVarintAsc, ht, if_false, hdec]
    have : ¬ (v.toNat > 2 ^ 63 - 1) := by omega
    simp only [this, if_false]
    congr 2; omega

theorem inot_inot (v : Int) : inot (inot v) = v := by unfold inot; omega

theorem dec_varintDesc (v : Int) (hl : -(2 ^ 63) ≤ v) (hu : v < 2 ^ 63) (r : Bytes) :
    decVarintDesc (varintDesc v ++ r) = some (v, r) := by
  unfold decVarintDesc varintDesc
  rw [dec_varintAsc (inot v) (by unfold inot; omega) (by unfold inot; omega) r]
  simp [inot_inot]

/-! ### every encoder yields bytes -/

theorem uvarintAsc_isBytes (v : Nat) : IsBytes (uvarintAsc v) := by
  unfold uvarintAsc
  split
  · exact isBytes_cons (by simp only [intZero, intSmall] at *; omega) isBytes_nil
  · have := uwidth_pos v
    exact isBytes_cons (by simp only [IntMax]; omega) (be_isBytes _ _)

theorem varintAsc_isBytes (v : Int) : IsBytes (varintAsc v) := by
  unfold varintAsc
  split
  · have := nwidth_pos v
    exact isBytes_cons (by simp only [IntMin]; omega) (be_isBytes _ _)
  · exact uvarintAsc_isBytes _

end Defra.Enc
