/-!
# Model of schema evolution (C19)

Mirrors `internal/db/schema.go` (`patchSchema`: a new collection version whose fields are the source version's plus
the added ones), `internal/db/collection_define.go` (`setActiveSchemaVersion`: exactly one version of a root is
active), the field-keyed storage (`internal/db/id/field.go`: one short identifier per field NAME of a root, shared by
all versions) and `internal/db/merge.go` `initCRDTForType` (a field commit whose field the active version does not
know is ignored).

Version identifiers are content addresses: the version obtained by adding field `f` to version `p` is the same on
every node, so versions are modelled as their field lists. Values are natural numbers (the harness writes
equal-length strings, whose encoding order is the order of the numbers the driver maps them to).
-/
namespace Defra.Schema

abbrev Field := String
/-- a version is identified by its fields in the order they were added -/
abbrev Version := List Field

/-- a field-level commit: document, field, height in the field's own DAG, value -/
structure Commit where
  doc : Nat
  field : Field
  height : Nat
  value : Nat
deriving Repr, DecidableEq

structure Node where
  versions : List Version := [["name"]]
  active : Version := ["name"]
  /-- every commit in the block store: the history -/
  history : List Commit := []
  /-- the documents whose composite was merged -/
  docs : List Nat := []
  /-- the commits that reached the data store (their field was known to the active version on arrival) -/
  applied : List Commit := []
deriving Repr

/-! ## Schema operations: they touch the version set only -/

def patch (n : Node) (f : Field) (setDefault : Bool) : Node :=
  let v := n.active ++ [f]
  { n with versions := if n.versions.contains v then n.versions else n.versions ++ [v],
           active := if setDefault then v else n.active }

def setActive (n : Node) (v : Version) : Node :=
  if n.versions.contains v then { n with active := v } else n

/-! ## Data -/

/-- register order: height, then value -/
def le (h1 v1 h2 v2 : Nat) : Bool := h1 < h2 || (h1 == h2 && v1 ≤ v2)

def lookup (s : List Commit) (d : Nat) (f : Field) : Option Commit :=
  s.find? (fun e => e.doc == d && e.field == f)

/-- merge one commit into the data store (one register per document and field name) -/
def applyCommit (s : List Commit) (c : Commit) : List Commit :=
  match lookup s c.doc c.field with
  | none => s ++ [c]
  | some e =>
    if le e.height e.value c.height c.value then
      s.map (fun x => if x.doc == c.doc && x.field == c.field then c else x)
    else s

/-- the data store: the applied commits merged one by one -/
def store (n : Node) : List Commit := n.applied.foldl applyCommit []

/-- a commit arrives (locally written or delivered): it joins the history; it reaches the data store only if the
    active version knows its field -/
def receive (n : Node) (c : Commit) : Node :=
  if n.history.contains c then n
  else
    { n with history := n.history ++ [c],
             docs := if n.docs.contains c.doc then n.docs else n.docs ++ [c.doc],
             applied := if n.active.contains c.field then n.applied ++ [c] else n.applied }

/-- a local write of `value` to field `f` of document `d`: height is one more than the stored register's -/
def write (n : Node) (d : Nat) (f : Field) (value : Nat) : Node :=
  let h := match lookup (store n) d f with
    | some e => e.height + 1
    | none => 1
  receive n ⟨d, f, h, value⟩

/-- reading field `f` of document `d` under the active version -/
def read (n : Node) (d : Nat) (f : Field) : Option Nat :=
  if n.active.contains f then (lookup (store n) d f).map (·.value) else none

/-- deliver every commit of `src` to `dst` -/
def sync (src dst : Node) : Node := src.history.foldl receive dst

end Defra.Schema
