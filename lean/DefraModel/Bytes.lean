/-
Byte strings as `List Nat` (every element is meant to be `< 256`; the encoders
only ever produce such lists, see `Bytes.IsBytes`) and the lexicographic order
`bytes.Compare` of Go.  Core-only: this file is linked into `drv`.
-/
namespace Defra

abbrev Bytes := List Nat

namespace Bytes

/-- every element is a byte -/
def IsBytes (b : Bytes) : Prop := ∀ x ∈ b, x < 256

/-- `bytes.Compare(a, b) < 0` -/
def lt : Bytes → Bytes → Bool
  | [], [] => false
  | [], _ :: _ => true
  | _ :: _, [] => false
  | a :: as, b :: bs => a < b || (a == b && lt as bs)

/-- `bytes.Compare(a, b)` as -1 / 0 / 1 -/
def cmp (a b : Bytes) : Int :=
  if lt a b then -1 else if lt b a then 1 else 0

/-- `bytes.HasPrefix(b, p)` -/
def isPrefix : Bytes → Bytes → Bool
  | [], _ => true
  | _ :: _, [] => false
  | p :: ps, b :: bs => p == b && isPrefix ps bs

/-- ones complement of every byte (`onesComplement`) -/
def compl (b : Bytes) : Bytes := b.map (fun x => 255 - x)

def hexDigit (n : Nat) : Char :=
  if n < 10 then Char.ofNat (48 + n) else Char.ofNat (87 + n)

def toHex (b : Bytes) : String :=
  String.ofList (b.foldr (fun x acc => hexDigit (x / 16) :: hexDigit (x % 16) :: acc) [])

def hexVal (c : Char) : Option Nat :=
  if '0' ≤ c ∧ c ≤ '9' then some (c.toNat - 48)
  else if 'a' ≤ c ∧ c ≤ 'f' then some (c.toNat - 87)
  else if 'A' ≤ c ∧ c ≤ 'F' then some (c.toNat - 55)
  else none

def ofHexChars : List Char → Option Bytes
  | [] => some []
  | [_] => none
  | a :: b :: rest => do
    let x ← hexVal a
    let y ← hexVal b
    let r ← ofHexChars rest
    pure ((x * 16 + y) :: r)

/-- parse a hex string; `-` denotes the empty string -/
def ofHex (s : String) : Option Bytes :=
  if s == "-" then some [] else ofHexChars s.toList

/-- print: `-` for empty -/
def render (b : Bytes) : String := if b.isEmpty then "-" else toHex b

end Bytes
end Defra
