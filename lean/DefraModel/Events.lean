/-
Mirror of /repo/event/channel_bus.go: one FIFO command queue consumed by `handleChannel`; a publish command
appends the message to the buffer of every subscriber of that event name (or of the wildcard), in the order
the commands were queued.  Buffers are modelled as the list of messages received so far.  Core-only.
-/
namespace Defra.Events

abbrev Name := String
def wildcard : Name := "*"

inductive Cmd where
  | subscribe (id : Nat) (names : List Name)
  | unsubscribe (id : Nat)
  | publish (name : Name) (payload : Nat)
  | close
  deriving Repr, DecidableEq

structure Bus where
  /-- active subscribers and the event names they subscribed to -/
  subs : List (Nat × List Name) := []
  /-- messages delivered so far, per subscriber id, oldest first -/
  received : Nat → List (Name × Nat) := fun _ => []
  closed : Bool := false

def Bus.wants (b : Bus) (id : Nat) (n : Name) : Bool :=
  b.subs.any (fun s => s.1 == id && (s.2.contains n || s.2.contains wildcard))

/-- one iteration of `handleChannel` -/
def step (b : Bus) : Cmd → Bus
  | .close => if b.closed then b else { b with closed := true, subs := [] }
  | .subscribe id names =>
    if b.closed then b else { b with subs := (b.subs.filter (fun s => s.1 != id)) ++ [(id, names)] }
  | .unsubscribe id => if b.closed then b else { b with subs := b.subs.filter (fun s => s.1 != id) }
  | .publish n p =>
    if b.closed then b
    else { b with received := fun id => if b.wants id n then b.received id ++ [(n, p)] else b.received id }

def run (b : Bus) (cmds : List Cmd) : Bus := cmds.foldl step b

/-- commands that leave subscriber `id` alone -/
def Cmd.keeps (id : Nat) : Cmd → Bool
  | .close => false
  | .subscribe i _ => i != id
  | .unsubscribe i => i != id
  | .publish _ _ => true

/-- the publications of a command list that a subscriber of `names` is meant to see, in order -/
def matching (names : List Name) (cmds : List Cmd) : List (Name × Nat) :=
  cmds.filterMap (fun c => match c with
    | .publish n p => if names.contains n || names.contains wildcard then some (n, p) else none
    | _ => none)

end Defra.Events
