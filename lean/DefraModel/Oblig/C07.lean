/-
C07 — structural obligation over facts regenerated from /repo on every run: whatever an index scan yields is passed
through the complete filter again (the premise of `refilter_exact` / `multi_entry_scan_exact` in Props/C07).
-/
import DefraModel.Generated.Facts
namespace Defra.Oblig.C07
open Defra.Generated

def startSites : List String :=
  (fetcherSites.filter (fun w => w.file == "internal/db/fetcher/wrapper.go" && w.func == "wrappingFetcher.Start")).map (·.arg)

/-- the index fetcher is constructed in `wrappingFetcher.Start` only, and the filtering wrap is constructed there
    after it: an index scan never reaches the planner without the complete filter re-applied -/
theorem index_scans_are_refiltered :
    (fetcherSites.filter (fun w => w.arg == "newIndexFetcher")).all
      (fun w => w.file == "internal/db/fetcher/wrapper.go" && w.func == "wrappingFetcher.Start") = true ∧
    startSites.contains "newIndexFetcher" = true ∧
    ((startSites.dropWhile (· != "newIndexFetcher")).contains "newFilteredFetcher") = true ∧
    ((startSites.dropWhile (· != "newFilteredFetcher")).contains "newIndexFetcher") = false := by
  decide +kernel

/-! ### a null operand of an ordering comparison: the filter evaluation (`internal/connor`) and the value matchers of
    the index fetcher (`createValueMatcher`) read from the sources (repaired defect 2395343) -/

/-- what `internal/connor/<f>.go` returns for `condition == nil`, as a function of "the data is nil" -/
def connorNil (f : String) (dataNil : Bool) : Option Bool :=
  match (nilSemantics.find? (fun w => w.func == f && w.file == "internal/connor/" ++ f ++ ".go")).map (·.arg) with
  | some "true" => some true
  | some "false" => some false
  | some "data == nil" => some dataNil
  | some "data != nil" => some (!dataNil)
  | _ => none

/-- what the matcher `createValueMatcher` builds for a nil operand and operator `op` says about a value -/
def matcherNil (op : String) (dataNil : Bool) : Option Bool :=
  if nilSemantics.any (fun w => w.func == "nil:unrecognised") then none
  else match (nilSemantics.find? (fun w => w.func == "nil:" ++ op)).map (·.arg) with
    | some "anyMatcher" => some true
    | some "noneMatcher" => some false
    | some _ => none
    | none => some (dataNil == nilSemantics.any (fun w => w.func == "nilMatcher:true" && w.arg == op))

/-- **index value matchers follow the filter semantics for a null operand**: `_gt`, `_ge`, `_lt`, `_le` with null mean
    to the index fetcher what they mean to the filter evaluation, for values that are nil and values that are not -/
theorem nil_operand_matchers_follow_the_filter :
    [("gt", "opGt"), ("ge", "opGe"), ("lt", "opLt"), ("le", "opLe")].all (fun p =>
      [true, false].all (fun dataNil =>
        (connorNil p.1 dataNil).isSome && connorNil p.1 dataNil == matcherNil p.2 dataNil)) = true := by
  decide +kernel

end Defra.Oblig.C07
