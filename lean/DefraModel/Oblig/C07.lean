/-
C07 — structural obligation over facts regenerated from /repo on every run: whatever an index scan yields is passed
through the complete filter again (the premise of `refilter_exact` / `multi_entry_scan_exact` in Props/C07).
-/
import DefraModel.Generated.Facts
namespace Defra.Oblig.C07
open Defra.Generated

def startSites : List String :=
  (fetcherSites.filter (fun w => w.file == "internal/db/fetcher/wrapper.go" && w.func == "wrappingFetcher.Start")).map (·.arg)

/-- the index fetcher is constructed in `wrappingFetcher.Start` only, and the filtering wrap is constructed there
    after it: an index scan never reaches the planner without the complete filter re-applied -/
theorem index_scans_are_refiltered :
    (fetcherSites.filter (fun w => w.arg == "newIndexFetcher")).all
      (fun w => w.file == "internal/db/fetcher/wrapper.go" && w.func == "wrappingFetcher.Start") = true ∧
    startSites.contains "newIndexFetcher" = true ∧
    ((startSites.dropWhile (· != "newIndexFetcher")).contains "newFilteredFetcher") = true ∧
    ((startSites.dropWhile (· != "newFilteredFetcher")).contains "newIndexFetcher") = false := by
  decide +kernel

end Defra.Oblig.C07
