/-
Generated obligations for C05 / C20: hand-written expectations checked by the kernel against the facts that
tools/extract regenerated from the CURRENT /repo sources (DefraModel/Generated/Facts.lean).
A change of the code that adds an error check which does not return the error, drops a call result, opens a
read-write transaction without the deferred discard / final commit, or publishes an update event outside a
commit-success callback makes one of these `decide`s fail — which ./check reports as a broken proof obligation
and follows up with the fault enumeration to look for the failing input.
-/
import DefraModel.Generated.Facts
namespace Defra.Oblig.C05
open Defra.Generated

/-- (file, function, kind, how many such sites are accepted, why) -/
def allowedErrSites : List (String × String × String × Nat × String) := [
  ("internal/datastore/blockstore.go", "bstore.AllKeysChan", "loggedAndSkipped", 2, "read-only key listing in a goroutine"),
  ("internal/datastore/txn.go", "BasicTxn.Commit", "handled", 1, "the commit error selects the error callbacks and is returned below"),
  ("internal/db/backup.go", "DB.basicExport", "dropped", 1, "export file rename; export writes no database state"),
  ("internal/db/collection.go", "collection.getAllDocIDsChan", "loggedOnly", 1, "read path, iterator close in a goroutine"),
  ("internal/db/collection.go", "collection.exists", "substituted", 1, "ErrNotFound means 'does not exist'"),
  ("internal/db/collection_delete.go", "collection.deleteWithFilter", "loggedOnly", 1, "deferred close of the selection plan"),
  ("internal/db/collection_update.go", "collection.updateWithFilter", "loggedOnly", 1, "deferred close of the selection plan"),
  ("internal/db/collection_get.go", "collection.get", "dropped", 3, "fetcher close on an already failing read"),
  ("internal/db/db.go", "DB.PurgeDACState", "loggedOnly", 1, "development-only purge"),
  ("internal/db/db.go", "DB.Close", "loggedOnly", 3, "shutdown"),
  ("internal/db/fetcher/indexer_iterators.go", "indexFetcher.determineFieldFilterConditions", "substituted", 1, "read path: wraps into a typed error"),
  ("internal/db/messages.go", "DB.handleMessages", "loggedOnly", 1, "asynchronous merge: the error has no caller, the merge itself rolled back"),
  ("internal/db/request.go", "DB.execRequest", "substituted", 2, "the error is returned inside the request result"),
  ("internal/db/store.go", "DB.ExecRequest", "substituted", 2, "the error is returned inside the request result, no commit follows"),
  ("internal/db/subscriptions.go", "DB.handleSubscription", "loggedAndSkipped", 1, "subscription goroutine: cannot open a transaction for one event")
]

def siteAllowed (e : ErrSite) : Bool :=
  e.kind == "forwarded" ||
  allowedErrSites.any (fun a => a.1 == e.file && a.2.1 == e.func && a.2.2.1 == e.kind)

def groupWithinBudget (a : String × String × String × Nat × String) : Bool :=
  (errFlow.filter (fun e => a.1 == e.file && a.2.1 == e.func && a.2.2.1 == e.kind)).length ≤ a.2.2.2.1

/-- every storage/other error checked on the write path is returned to the caller, except at the listed,
    individually justified sites (and no more of those than listed) -/
theorem write_path_errors_propagate :
    errFlow.all siteAllowed = true ∧ allowedErrSites.all groupWithinBudget = true := by
  decide +kernel

/-- read-write transaction skeletons that are not "begin; check; defer Discard; ...; exactly one Commit" -/
def allowedSkeletons : List (String × String) := [
  ("collectionRetriever.RetrieveCollectionFromDocID", "read-only use of a read-write transaction: never commits, discards"),
  ("getCollectionFromCollectionID", "read-only use of a read-write transaction: never commits, discards"),
  ("DB.initialize", "two exclusive commit sites (existing store / fresh store)"),
  ("DB.ExecRequest", "the begin error is returned inside the request result")
]

def skeletonOk (s : ApiSkel) : Bool :=
  (s.deferDiscard && s.beginErrReturned && s.commits == 1 && s.nilReturnsBeforeCommit == 0) ||
  (s.deferDiscard && allowedSkeletons.any (fun a => a.1 == s.func))

/-- every function that opens a read-write transaction discards it on every exit path (deferred) and
    reports success only through its single commit -/
theorem api_calls_follow_the_txn_discipline : apiSkeletons.all skeletonOk = true := by
  decide +kernel

/-- update events are published only from commit-success callbacks; the one exception re-announces the
    already committed heads of a document after an access-control change -/
theorem update_events_only_from_commit_callbacks :
    eventSites.all (fun s => s.inOnSuccess || s.func == "DB.publishDocUpdateEvent") = true := by
  decide +kernel

/-- there ARE publication sites and skeletons (the extractor did not silently find nothing) -/
theorem facts_non_empty : 4 ≤ eventSites.length ∧ 20 ≤ apiSkeletons.length ∧ 500 ≤ propagatedSites := by
  decide +kernel

end Defra.Oblig.C05
