/-
C16 — structural obligation over facts regenerated from /repo on every run: the stores of a concurrent transaction are
built from the mutex-wrapped transaction (repair 7c6b4e0), so that every storage operation of a transaction shared by
several goroutines is serialised — the premise under which the model treats a call's storage operations as atomic
steps of one goroutine at a time.
-/
import DefraModel.Generated.Facts
namespace Defra.Oblig.C16
open Defra.Generated

theorem concurrent_txn_stores_go_through_its_mutex :
    (txnWiring.filter (fun w => w.file == "internal/datastore/concurrent_txn.go")).all
      (fun w => w.arg == "rootConcurentTxn") = true ∧
    (txnWiring.any (fun w => w.file == "internal/datastore/concurrent_txn.go")) = true := by
  decide +kernel

end Defra.Oblig.C16
