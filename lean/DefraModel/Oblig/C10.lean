/-
C10 — structural obligations over facts regenerated from /repo on every run (`DefraModel/Generated/Facts.lean`,
written by tools/extract): every document source of a read sits behind the permission filter.
The hand-written part is the expectation; the kernel checks it against what the sources say now.
-/
import DefraModel.Generated.Facts
namespace Defra.Oblig.C10
open Defra.Generated

/-- the constructions inside `wrappingFetcher.Start`, in source order -/
def startSites : List String :=
  (fetcherSites.filter (fun w => w.file == "internal/db/fetcher/wrapper.go" && w.func == "wrappingFetcher.Start")).map (·.arg)

def isSource (c : String) : Bool := c == "newIndexFetcher" || c == "newPrefixFetcher" || c == "newMultiFetcher"

/-- the raw document sources (index fetcher, prefix fetchers for active and deleted documents, their union) are all
    constructed before the permission wrap in `wrappingFetcher.Start`, so the wrap covers every one of them -/
theorem every_source_is_behind_the_permission_filter :
    startSites.contains "newPermissionedFetcher" = true ∧
    ((startSites.dropWhile (· != "newPermissionedFetcher")).any isSource) = false := by
  decide +kernel

/-- the raw sources are constructed only inside the fetcher package (under the wrap), never by the planner or the
    collection code, which obtain documents through `NewDocumentFetcher` (the wrapping fetcher) only -/
theorem raw_sources_only_inside_the_wrapping_fetcher :
    fetcherSites.all (fun w =>
      !(isSource w.arg || w.arg == "newDocumentFetcher") || w.file.startsWith "internal/db/fetcher/") = true := by
  decide +kernel

/-- the facts are there (the extractor did not silently find nothing) -/
theorem facts_non_empty : 3 ≤ startSites.length ∧ 8 ≤ fetcherSites.length := by
  decide +kernel

end Defra.Oblig.C10
