import DefraModel.Crdt.Model

/-!
Executable form of the well-formedness the end-to-end merge theorem assumes of a block store (`StoreWF2` in
`Proofs/CrdtMergeDocRefine.lean`): evaluated by `drv crdt` on every block store the implementation produced, so that
the theorem's hypotheses are checked on the real stores rather than assumed.
-/
namespace Defra.Crdt

def isFieldKind : Kind → Bool
  | .field _ => true
  | _ => false

def blockOk (bs : Blocks) (b : Block) : Bool :=
  b.parents.all (fun p => match bs.get? p with
    | some pb => decide (pb.height < b.height)
    | none => false) &&
  (!(b.kind == .comp) ||
    (b.parents.all (fun p => match bs.get? p with
      | some pb => pb.kind == .comp && pb.doc == b.doc
      | none => false) &&
     b.links.all (fun l => match bs.get? l with
      | some lb => isFieldKind lb.kind && lb.links.isEmpty
      | none => false)))

/-- identifiers are distinct and every block passes `blockOk` -/
def wfCheck (bs : Blocks) : Bool :=
  decide ((bs.map (·.id)).Nodup) && bs.all (blockOk bs)

/-- the heads of a document are distinct stored composites -/
def headsCheck (bs : Blocks) (heads : List Nat) : Bool :=
  decide heads.Nodup && heads.all (fun h => match bs.get? h with
    | some b => b.kind == .comp
    | none => false)

end Defra.Crdt

namespace Defra.Crdt

/-- field-level part of the store check: the links of a composite belong to the composite's document, and the parents of a linked field block are linked by strict ancestors of the composite; the parents of a field
    block are blocks of the same field -/
def block3Ok (bs : Blocks) (b : Block) : Bool :=
  match b.kind with
  | .comp =>
    b.links.all (fun l => match bs.get? l with
      | some lb =>
        lb.doc == b.doc &&
        lb.parents.all (fun p => bs.any (fun ab =>
          ab.kind == .comp && ab.id != b.id && ab.links.contains p && isMerged bs [b.id] ab.id ab.height))
      | none => true)
  | .field f => b.parents.all (fun p => match bs.get? p with
      | some pb => pb.kind == .field f
      | none => true)
  | .col => true

def wfCheck3 (bs : Blocks) : Bool := wfCheck bs && bs.all (block3Ok bs)

/-- every head set of a kind that occurs in the store holds distinct stored blocks of that kind -/
def kinvCheck (bs : Blocks) (s : DocState) : Bool :=
  bs.all (fun x => decide (headsOf s x.kind).Nodup && (headsOf s x.kind).all (fun h => match bs.get? h with
    | some hb => hb.kind == x.kind
    | none => false))

/-- what a merged composite links is merged into the head set of its kind -/
def linkInvCheck (bs : Blocks) (s : DocState) : Bool :=
  bs.all (fun ab => !(ab.kind == .comp && isMerged bs s.heads ab.id ab.height) ||
    ab.links.all (fun l => match bs.get? l with
      | some lb => isMerged bs (headsOf s lb.kind) l lb.height
      | none => true))

end Defra.Crdt
